// mkreplay writes regression replay files for the reference-model checks (C02/C03) and C01 from
// hand-written scripts: the expected outcome is the VM's outcome on the CURRENT tree, which must
// have been confirmed by hand to be the documented one (used only for defects that were repaired).
//
//	go run ./cmd/mkreplay <property> <name> <sig> <what> <script-file> [arg literals...]
package main

import (
	"encoding/json"
	"fmt"
	"os"
	"path/filepath"

	"github.com/ozanh/ugo"

	"verif/internal/prog"
	"verif/internal/run"
)

func main() {
	if len(os.Args) < 6 {
		fmt.Println("usage: mkreplay <property> <name> <sig> <what> <script-file> [args...]")
		os.Exit(2)
	}
	prop, name, sig, what, file := os.Args[1], os.Args[2], os.Args[3], os.Args[4], os.Args[5]
	src, err := os.ReadFile(file)
	if err != nil {
		panic(err)
	}
	c := prog.Case{Src: string(src), Args: os.Args[6:]}
	args, globals, err := prog.CaseInputs(c)
	if err != nil {
		panic(err)
	}
	bc, err := ugo.Compile(src, ugo.CompilerOptions{NoOptimize: true})
	if err != nil {
		panic(err)
	}
	lg := &run.Logger{}
	out := run.Exec(bc, run.Globals(globals, lg), lg, args, run.Opts{Recover: true})
	var cs any
	switch prop {
	case "C01":
		cs = map[string]any{"src": c.Src, "args": c.Args, "optimizer_limit": 0, "kind": "regression"}
	default:
		cs = map[string]any{"src": c.Src, "args": c.Args, "no_optimize": false, "expected": out, "got": out}
	}
	data, _ := json.MarshalIndent(map[string]any{"property": prop, "sig": sig, "what": what, "case": cs}, "", " ")
	dir := filepath.Join("/verif/replays", prop)
	_ = os.MkdirAll(dir, 0o755)
	p := filepath.Join(dir, "reg-"+name+".json")
	if err := os.WriteFile(p, data, 0o644); err != nil {
		panic(err)
	}
	fmt.Println(p, "expected:", out.String())
}
