// Package vals holds rapid generators and boundary pools of uGO values.
package vals

import (
	"math"

	"github.com/ozanh/ugo"
	"pgregory.net/rapid"
)

var (
	Ints = []int64{0, 1, -1, 2, -2, 7, 63, 64, 65, 97, 127, 128, 255, 256, 1 << 31, -(1 << 31), (1 << 32) + 1,
		1 << 53, (1 << 53) + 1, 1 << 62, -(1 << 62), math.MaxInt64, math.MinInt64, math.MaxInt64 - 1, math.MinInt64 + 1}
	Uints  = []uint64{0, 1, 2, 63, 64, 97, 255, 1 << 31, 1 << 32, 1 << 53, 1 << 63, (1 << 63) - 1, math.MaxUint64, math.MaxUint64 - 1}
	Floats = []float64{0, math.Copysign(0, -1), 1, -1, 0.5, -0.5, 2, 97, 1e21, 1e-7, 1e20, 1e-6, 1e300, -1e300, 5e-324,
		math.MaxFloat64, math.SmallestNonzeroFloat64, math.Inf(1), math.Inf(-1), math.NaN(), 9007199254740993, 1 << 63, -(1 << 63), 1.5, 3.0000000000000004}
	Chars   = []int32{0, 1, 'a', 'b', 'A', ' ', '\n', 127, 128, 255, 0x7ff, 0x2028, 0xD800, 0xFFFD, 0x10FFFF, 0x110000, math.MaxInt32, -1, math.MinInt32}
	Strings = []string{"", "a", "b", "ab", "abc", " ", "0", "1", "-1", "1.5", "true", "\x00", "\xff", "a\xffb", "é", "日本", "<>&", "  ", "\"\\", "\n\t\r",
		"%d %s %v %!", "\U0001F600", "\xed\xa0\x80", "line1\nline2"}
)

// Float generates floats with all boundary values well represented.
func Float() *rapid.Generator[float64] {
	return rapid.OneOf(
		rapid.SampledFrom(Floats),
		rapid.Float64(),
		rapid.Custom(func(t *rapid.T) float64 { return math.Float64frombits(rapid.Uint64().Draw(t, "bits")) }),
		rapid.Custom(func(t *rapid.T) float64 { return float64(rapid.Int64Range(-1000, 1000).Draw(t, "small")) }),
	)
}

// Int generates int64 with boundary bias.
func Int() *rapid.Generator[int64] {
	return rapid.OneOf(rapid.SampledFrom(Ints), rapid.Int64(), rapid.Int64Range(-300, 300))
}

// Uint generates uint64 with boundary bias.
func Uint() *rapid.Generator[uint64] {
	return rapid.OneOf(rapid.SampledFrom(Uints), rapid.Uint64(), rapid.Uint64Range(0, 300))
}

// Char generates int32 code points including invalid ones.
func Char() *rapid.Generator[int32] {
	return rapid.OneOf(rapid.SampledFrom(Chars), rapid.Int32(), rapid.Int32Range(0, 0x10FFFF), rapid.Int32Range(32, 126))
}

// Str generates strings incl. invalid UTF-8, escapes, HTML-sensitive runes.
func Str() *rapid.Generator[string] {
	return rapid.OneOf(
		rapid.SampledFrom(Strings),
		rapid.String(),
		rapid.StringMatching(`[a-c0-9 ]{0,6}`),
		rapid.Custom(func(t *rapid.T) string { return string(rapid.SliceOfN(rapid.Byte(), 0, 12).Draw(t, "raw")) }),
		rapid.Custom(func(t *rapid.T) string {
			n := rapid.IntRange(1, 4).Draw(t, "n")
			s := ""
			for i := 0; i < n; i++ {
				s += rapid.SampledFrom(Strings).Draw(t, "part")
			}
			return s
		}),
	)
}

// Key generates map keys (short so collisions and duplicates occur).
func Key() *rapid.Generator[string] {
	return rapid.OneOf(rapid.SampledFrom([]string{"", "a", "b", "c", "k", "x", "0", "a b", "é", "\xff", "<k>"}), Str())
}

// Opts selects which leaf kinds Plain may produce.
type Opts struct {
	NoBytes, NoChar, NoUint, NoInt, NoUndefined bool
	FiniteFloats                                bool // no NaN / Inf
	ValidUTF8                                   bool
	MaxDepth                                    int
	MaxWidth                                    int
}

func validUTF8(s string) string { return string([]rune(s)) }

// Plain generates a plain uGO value (Int, Uint, Float, Bool, Char, String,
// Bytes, Array, Map, Undefined), nested up to o.MaxDepth.
func Plain(o Opts) *rapid.Generator[ugo.Object] {
	if o.MaxDepth == 0 {
		o.MaxDepth = 4
	}
	if o.MaxWidth == 0 {
		o.MaxWidth = 4
	}
	return rapid.Custom(func(t *rapid.T) ugo.Object { return plain(t, o, 0) })
}

func plain(t *rapid.T, o Opts, depth int) ugo.Object {
	kinds := []string{"float", "bool", "string"}
	if !o.NoInt {
		kinds = append(kinds, "int")
	}
	if !o.NoUint {
		kinds = append(kinds, "uint")
	}
	if !o.NoChar {
		kinds = append(kinds, "char")
	}
	if !o.NoBytes {
		kinds = append(kinds, "bytes")
	}
	if !o.NoUndefined {
		kinds = append(kinds, "undefined")
	}
	if depth < o.MaxDepth {
		kinds = append(kinds, "array", "map", "array", "map")
	}
	switch rapid.SampledFrom(kinds).Draw(t, "kind") {
	case "int":
		return ugo.Int(Int().Draw(t, "int"))
	case "uint":
		return ugo.Uint(Uint().Draw(t, "uint"))
	case "float":
		f := Float().Draw(t, "float")
		if o.FiniteFloats && (math.IsNaN(f) || math.IsInf(f, 0)) {
			f = 0.25
		}
		return ugo.Float(f)
	case "bool":
		return ugo.Bool(rapid.Bool().Draw(t, "bool"))
	case "char":
		return ugo.Char(Char().Draw(t, "char"))
	case "string":
		s := Str().Draw(t, "str")
		if o.ValidUTF8 {
			s = validUTF8(s)
		}
		return ugo.String(s)
	case "bytes":
		b := rapid.SliceOfN(rapid.Byte(), 0, 8).Draw(t, "bytes")
		if b == nil {
			b = []byte{}
		}
		return ugo.Bytes(b)
	case "undefined":
		return ugo.Undefined
	case "array":
		n := rapid.IntRange(0, o.MaxWidth).Draw(t, "alen")
		arr := make(ugo.Array, 0, n)
		for i := 0; i < n; i++ {
			arr = append(arr, plain(t, o, depth+1))
		}
		return arr
	default:
		n := rapid.IntRange(0, o.MaxWidth).Draw(t, "mlen")
		m := make(ugo.Map, n)
		for i := 0; i < n; i++ {
			k := Key().Draw(t, "key")
			if o.ValidUTF8 {
				k = validUTF8(k)
			}
			m[k] = plain(t, o, depth+1)
		}
		return m
	}
}

// Depth returns the nesting depth of a value (0 for scalars).
func Depth(o ugo.Object) int {
	d := 0
	switch v := o.(type) {
	case ugo.Array:
		for _, e := range v {
			if x := Depth(e) + 1; x > d {
				d = x
			}
		}
		if d == 0 {
			d = 1
		}
	case ugo.Map:
		for _, e := range v {
			if x := Depth(e) + 1; x > d {
				d = x
			}
		}
		if d == 0 {
			d = 1
		}
	}
	return d
}
