// Package gen holds the harness' own AST of the uGO language, a renderer to
// source text (recording the line of every statement) and scope aware rapid
// generators. It shares no code with ozanh/ugo.
package gen

import (
	"fmt"
	"math"
	"strconv"
	"strings"
)

// ---------------------------------------------------------------- expressions

type Expr interface{ isExpr() }

type LitKind int

const (
	LInt LitKind = iota
	LUint
	LFloat
	LChar
	LString
	LBool
	LUndefined
)

type Lit struct {
	Kind LitKind
	I    int64
	U    uint64
	F    float64
	S    string
	B    bool
}
type Ident struct{ Name string }
type Unary struct {
	Op string // + - ^ !
	X  Expr
}
type Binary struct {
	Op   string
	L, R Expr
}
type Cond struct{ C, A, B Expr }
type ArrayLit struct{ Elems []Expr }
type MapLit struct {
	Keys  []string
	Elems []Expr
}
type Index struct{ X, I Expr }
type Selector struct {
	X    Expr
	Name string
}
type Slice struct{ X, Lo, Hi Expr } // Lo / Hi may be nil
type Call struct {
	Fn     Expr
	Args   []Expr
	Spread bool // last argument is spread: f(a, ...b)
}
type FuncLit struct {
	Params   []string
	Variadic bool
	Body     []Stmt
}
type Import struct{ Name string }
type Paren struct{ X Expr }

func (*Lit) isExpr()      {}
func (*Ident) isExpr()    {}
func (*Unary) isExpr()    {}
func (*Binary) isExpr()   {}
func (*Cond) isExpr()     {}
func (*ArrayLit) isExpr() {}
func (*MapLit) isExpr()   {}
func (*Index) isExpr()    {}
func (*Selector) isExpr() {}
func (*Slice) isExpr()    {}
func (*Call) isExpr()     {}
func (*FuncLit) isExpr()  {}
func (*Import) isExpr()   {}
func (*Paren) isExpr()    {}

// ----------------------------------------------------------------- statements

type Stmt interface{ isStmt() }

// Define: a, b := expr   (len(Names)>1 = destructuring)
type Define struct {
	Names []string
	X     Expr
}

// VarDecl: var ( a, b = 1 )  Values[i] may be nil
type VarDecl struct {
	Names  []string
	Values []Expr
}

// ConstDecl: const ( a = iota; b; c = x ). Values[i]==nil means implicit repetition.
type ConstDecl struct {
	Names  []string
	Values []Expr
}
type ParamDecl struct {
	Names    []string
	Variadic bool
}
type GlobalDecl struct{ Names []string }

// Assign: targets op= expr. len(Targets)>1 only with Op "=" (destructuring).
type Assign struct {
	Targets []Expr // Ident, Index or Selector
	Op      string // "=", "+=", ...
	X       Expr
}
type IncDec struct {
	Target Expr
	Inc    bool
}
type ExprStmt struct{ X Expr }
type If struct {
	Init Stmt // may be nil
	Cond Expr
	Then []Stmt
	Else []Stmt // nil = no else; a single *If = else-if
	// HasElse distinguishes `else {}` from no else
	HasElse bool
}
type For struct {
	Init Stmt // may be nil
	Cond Expr // may be nil
	Post Stmt // may be nil
	Body []Stmt
}
type ForIn struct {
	Key, Value string // Key may be "" (single variable form uses Value only)
	X          Expr
	Body       []Stmt
}
type Break struct{}
type Continue struct{}
type Return struct{ Xs []Expr } // 0, 1 or several (array) values
type Throw struct{ X Expr }
type Try struct {
	Body       []Stmt
	HasCatch   bool
	CatchIdent string // "" = elided
	Catch      []Stmt
	HasFinally bool
	Finally    []Stmt
}

// Raw is an escape hatch: literal source line(s) (used by templates).
type Raw struct{ Text string }

func (*Define) isStmt()     {}
func (*VarDecl) isStmt()    {}
func (*ConstDecl) isStmt()  {}
func (*ParamDecl) isStmt()  {}
func (*GlobalDecl) isStmt() {}
func (*Assign) isStmt()     {}
func (*IncDec) isStmt()     {}
func (*ExprStmt) isStmt()   {}
func (*If) isStmt()         {}
func (*For) isStmt()        {}
func (*ForIn) isStmt()      {}
func (*Break) isStmt()      {}
func (*Continue) isStmt()   {}
func (*Return) isStmt()     {}
func (*Throw) isStmt()      {}
func (*Try) isStmt()        {}
func (*Raw) isStmt()        {}

// Program is a main script plus its source modules.
type Program struct {
	Body    []Stmt
	Modules map[string][]Stmt // source modules by name
}

// ------------------------------------------------------------------ rendering

type printer struct {
	sb    strings.Builder
	line  int // current 1-based line
	lines map[Stmt]int
	ind   int
}

// Render returns the source text of stmts and the 1-based line of every statement.
func Render(stmts []Stmt) (string, map[Stmt]int) {
	p := &printer{line: 1, lines: map[Stmt]int{}}
	p.block(stmts)
	return p.sb.String(), p.lines
}

// Src renders statements to source text.
func Src(stmts []Stmt) string {
	s, _ := Render(stmts)
	return s
}

// ExprSrc renders one expression.
func ExprSrc(e Expr) string {
	p := &printer{line: 1, lines: map[Stmt]int{}}
	p.expr(e)
	return p.sb.String()
}

func (p *printer) w(s string) {
	p.line += strings.Count(s, "\n")
	p.sb.WriteString(s)
}

func (p *printer) nl() { p.w("\n") }

func (p *printer) indent() { p.w(strings.Repeat("  ", p.ind)) }

func (p *printer) block(stmts []Stmt) {
	for _, s := range stmts {
		p.indent()
		p.stmt(s)
		p.nl()
	}
}

func (p *printer) body(stmts []Stmt) {
	p.w("{\n")
	p.ind++
	p.block(stmts)
	p.ind--
	p.indent()
	p.w("}")
}

func (p *printer) simple(s Stmt) {
	// statement rendered inline (if/for headers)
	p.stmt(s)
}

func (p *printer) stmt(s Stmt) {
	p.lines[s] = p.line
	switch s := s.(type) {
	case *Define:
		p.w(strings.Join(s.Names, ", ") + " := ")
		p.expr(s.X)
	case *VarDecl:
		p.decl("var", s.Names, s.Values)
	case *ConstDecl:
		p.decl("const", s.Names, s.Values)
	case *ParamDecl:
		names := append([]string{}, s.Names...)
		if s.Variadic && len(names) > 0 {
			names[len(names)-1] = "..." + names[len(names)-1]
		}
		if len(names) == 1 && !s.Variadic {
			p.w("param " + names[0])
		} else {
			p.w("param (" + strings.Join(names, ", ") + ")")
		}
	case *GlobalDecl:
		if len(s.Names) == 1 {
			p.w("global " + s.Names[0])
		} else {
			p.w("global (" + strings.Join(s.Names, ", ") + ")")
		}
	case *Assign:
		for i, t := range s.Targets {
			if i > 0 {
				p.w(", ")
			}
			p.expr(t)
		}
		p.w(" " + s.Op + " ")
		p.expr(s.X)
	case *IncDec:
		p.expr(s.Target)
		if s.Inc {
			p.w("++")
		} else {
			p.w("--")
		}
	case *ExprStmt:
		p.expr(s.X)
	case *If:
		p.w("if ")
		if s.Init != nil {
			p.simple(s.Init)
			p.w("; ")
		}
		p.expr(s.Cond)
		p.w(" ")
		p.body(s.Then)
		if s.HasElse || len(s.Else) > 0 {
			p.w(" else ")
			if len(s.Else) == 1 {
				if ei, ok := s.Else[0].(*If); ok {
					p.stmt(ei)
					return
				}
			}
			p.body(s.Else)
		}
	case *For:
		p.w("for ")
		if s.Init != nil || s.Post != nil {
			if s.Init != nil {
				p.simple(s.Init)
			}
			p.w("; ")
			if s.Cond != nil {
				p.expr(s.Cond)
			}
			p.w("; ")
			if s.Post != nil {
				p.simple(s.Post)
			}
			p.w(" ")
		} else if s.Cond != nil {
			p.expr(s.Cond)
			p.w(" ")
		}
		p.body(s.Body)
	case *ForIn:
		p.w("for ")
		if s.Key != "" {
			p.w(s.Key + ", ")
		}
		p.w(s.Value + " in ")
		p.expr(s.X)
		p.w(" ")
		p.body(s.Body)
	case *Break:
		p.w("break")
	case *Continue:
		p.w("continue")
	case *Return:
		p.w("return")
		for i, x := range s.Xs {
			if i == 0 {
				p.w(" ")
			} else {
				p.w(", ")
			}
			p.expr(x)
		}
	case *Throw:
		p.w("throw ")
		p.expr(s.X)
	case *Try:
		p.w("try ")
		p.body(s.Body)
		if s.HasCatch {
			p.w(" catch ")
			if s.CatchIdent != "" {
				p.w(s.CatchIdent + " ")
			}
			p.body(s.Catch)
		}
		if s.HasFinally {
			p.w(" finally ")
			p.body(s.Finally)
		}
	case *Raw:
		p.w(s.Text)
	default:
		panic(fmt.Sprintf("render: unknown stmt %T", s))
	}
}

func (p *printer) decl(kw string, names []string, values []Expr) {
	if len(names) == 1 {
		p.w(kw + " " + names[0])
		if values[0] != nil {
			p.w(" = ")
			p.expr(values[0])
		}
		return
	}
	p.w(kw + " (\n")
	p.ind++
	for i, n := range names {
		p.indent()
		p.w(n)
		if values[i] != nil {
			p.w(" = ")
			p.expr(values[i])
		}
		p.nl()
	}
	p.ind--
	p.indent()
	p.w(")")
}

func quoteChar(r rune) string {
	switch {
	case r == '\'':
		return `'\''`
	case r == '\\':
		return `'\\'`
	case r >= 32 && r < 127:
		return "'" + string(r) + "'"
	case r >= 0 && r < 32:
		return fmt.Sprintf(`'\x%02x'`, r)
	case r <= 0xFFFF:
		return fmt.Sprintf(`'\u%04x'`, r)
	default:
		return fmt.Sprintf(`'\U%08x'`, r)
	}
}

func quoteString(s string) string {
	var sb strings.Builder
	sb.WriteByte('"')
	for i := 0; i < len(s); i++ {
		c := s[i]
		switch {
		case c == '"':
			sb.WriteString(`\"`)
		case c == '\\':
			sb.WriteString(`\\`)
		case c == '\n':
			sb.WriteString(`\n`)
		case c == '\t':
			sb.WriteString(`\t`)
		case c == '\r':
			sb.WriteString(`\r`)
		case c < 32 || c >= 127:
			sb.WriteString(fmt.Sprintf(`\x%02x`, c))
		default:
			sb.WriteByte(c)
		}
	}
	sb.WriteByte('"')
	return sb.String()
}

// FloatText renders a finite non-negative float so that the uGO scanner reads
// it back as a float literal with the same value.
func FloatText(f float64) string {
	s := strconv.FormatFloat(f, 'g', -1, 64)
	if !strings.ContainsAny(s, ".e") {
		s += ".0"
	}
	return s
}

func (p *printer) expr(e Expr) {
	switch e := e.(type) {
	case *Lit:
		switch e.Kind {
		case LInt:
			if e.I == math.MinInt64 {
				p.w("(-9223372036854775807 - 1)")
			} else if e.I < 0 {
				p.w("(" + strconv.FormatInt(e.I, 10) + ")")
			} else {
				p.w(strconv.FormatInt(e.I, 10))
			}
		case LUint:
			p.w(strconv.FormatUint(e.U, 10) + "u")
		case LFloat:
			f := e.F
			if math.Signbit(f) {
				p.w("(-" + FloatText(-f) + ")")
			} else {
				p.w(FloatText(f))
			}
		case LChar:
			p.w(quoteChar(rune(e.I)))
		case LString:
			p.w(quoteString(e.S))
		case LBool:
			if e.B {
				p.w("true")
			} else {
				p.w("false")
			}
		case LUndefined:
			p.w("undefined")
		}
	case *Ident:
		p.w(e.Name)
	case *Unary:
		p.w(e.Op)
		// avoid "--x" / "++x" token merging
		if u, ok := e.X.(*Unary); ok && (u.Op == e.Op) {
			p.w("(")
			p.expr(e.X)
			p.w(")")
		} else {
			p.operand(e.X)
		}
	case *Binary:
		p.operand(e.L)
		p.w(" " + e.Op + " ")
		p.operand(e.R)
	case *Cond:
		p.operand(e.C)
		p.w(" ? ")
		p.operand(e.A)
		p.w(" : ")
		p.operand(e.B)
	case *ArrayLit:
		p.w("[")
		for i, x := range e.Elems {
			if i > 0 {
				p.w(", ")
			}
			p.expr(x)
		}
		p.w("]")
	case *MapLit:
		p.w("{")
		for i, x := range e.Elems {
			if i > 0 {
				p.w(", ")
			}
			p.w(quoteString(e.Keys[i]) + ": ")
			p.expr(x)
		}
		p.w("}")
	case *Index:
		p.postfixOperand(e.X)
		p.w("[")
		p.expr(e.I)
		p.w("]")
	case *Selector:
		p.postfixOperand(e.X)
		p.w("." + e.Name)
	case *Slice:
		p.postfixOperand(e.X)
		p.w("[")
		if e.Lo != nil {
			p.expr(e.Lo)
		}
		p.w(":")
		if e.Hi != nil {
			p.expr(e.Hi)
		}
		p.w("]")
	case *Call:
		p.postfixOperand(e.Fn)
		p.w("(")
		for i, a := range e.Args {
			if i > 0 {
				p.w(", ")
			}
			if e.Spread && i == len(e.Args)-1 {
				p.w("...")
			}
			p.expr(a)
		}
		p.w(")")
	case *FuncLit:
		params := append([]string{}, e.Params...)
		if e.Variadic && len(params) > 0 {
			params[len(params)-1] = "..." + params[len(params)-1]
		}
		p.w("func(" + strings.Join(params, ", ") + ") ")
		p.body(e.Body)
	case *Import:
		p.w("import(" + quoteString(e.Name) + ")")
	case *Paren:
		p.w("(")
		p.expr(e.X)
		p.w(")")
	default:
		panic(fmt.Sprintf("render: unknown expr %T", e))
	}
}

// operand renders a sub-expression, parenthesising anything that is not atomic
// so that the harness AST shape is exactly what the parser reconstructs.
func (p *printer) operand(e Expr) {
	switch e.(type) {
	case *Binary, *Cond, *Unary:
		p.w("(")
		p.expr(e)
		p.w(")")
	default:
		p.expr(e)
	}
}

func (p *printer) postfixOperand(e Expr) {
	switch e.(type) {
	case *Binary, *Cond, *Unary, *FuncLit:
		p.w("(")
		p.expr(e)
		p.w(")")
	case *Lit:
		l := e.(*Lit)
		if l.Kind == LInt || l.Kind == LFloat || l.Kind == LUint {
			p.w("(")
			p.expr(e)
			p.w(")")
		} else {
			p.expr(e)
		}
	default:
		p.expr(e)
	}
}
