package gen

import (
	"fmt"
	"math"

	"pgregory.net/rapid"
)

// Kind is the generator's rough static type of an expression / variable.
type Kind int

const (
	KAny   Kind = iota // scalar, array, map or undefined - never a function
	KInt               // int
	KStr               // string
	KBool              // bool
	KArr               // array of non-function values
	KMap               // map of non-function values (<= 1 key when iterated / printed)
	KFn                // function with a known signature
	KMod               // imported module value (map with fixed exports)
	KErr               // error value
	KFloat             // float
	KNone              // reserved name: never referenced
)

// FnSig is a known function signature.
type FnSig struct {
	NP       int
	Variadic bool
	Ret      Kind
	RetSig   *FnSig // when Ret == KFn
	FnParam  int    // index of a function-typed parameter (-1 none); it takes 1 arg
	Shadow   bool   // accepts anything (variadic shadow function)
}

// Var is a declared name.
type Var struct {
	Name     string
	K        Kind
	Const    bool
	NoAssign bool
	Sig      *FnSig
	Global   bool
	Mod      string
	fnLevel  int
}

type scope struct {
	parent *scope
	vars   map[string]*Var
	order  []*Var
	fnTop  bool // first scope of a function (params)
	level  int  // function nesting level
}

// Config selects the feature profile of generated programs.
type Config struct {
	MaxStmts   int
	MaxDepth   int // expression depth
	MaxFnDepth int
	MaxBlock   int // statements per block

	Shadow     bool // bind builtin names through every binding form
	ConstHeavy bool // constant sub-expressions everywhere
	Closures   bool
	Calls      bool // arity mismatches, spread, variadic
	Try        bool
	Failing    bool // operations that raise runtime errors
	Modules    int  // number of source modules (0 = none)
	Globals    bool
	Params     bool
	Print      bool
	Log        bool // L(x) logging calls
	Recursion  bool
	Floats     bool
	Destruct   bool
	Consts     bool // const / iota groups
	MapIter    bool // allow iteration over single-key maps
	DeepParen  bool // occasionally nest parentheses very deep
	NoTopReturnValue bool

	// AvoidKnown switches (avoid-by-construction for listed known findings)
	AvoidCatchSlotReuse bool
}

// Features counts what a generated program contains (evidence classes).
type Features map[string]int

// Program result of Generate.
type GenProgram struct {
	Program
	Args     []Expr          // argument literals for `param`
	Globals  map[string]Expr // initial globals (literals)
	Features Features
	UsesL    bool
}

var identPool = []string{"a", "b", "c", "d", "e", "x", "y", "z", "v", "w"}

// ShadowNames are builtin names the generator may re-declare.
var ShadowNames = []string{"int", "string", "len", "bool", "char", "float", "uint", "typeName", "isInt", "isString", "error", "append", "contains", "chars", "isError", "copy", "sprintf", "bytes"}

type G struct {
	t      *rapid.T
	cfg    Config
	sc     *scope
	budget int
	uniq   int
	feat   Features
	loop   int // loop nesting in current function
	fnDep  int
	inTry  int
	usesL  bool
	mods   []string
	globalsInit map[string]Expr
	inConst bool
	curFnRet Kind
	retSig   *FnSig
	noReturn bool
	usedBuiltins map[string]bool // builtin names referenced in this compile unit (cached in its root table)
}

func (g *G) f(name string) { g.feat[name]++ }

// Uniform draws an integer in [0,n) without rapid's small-value bias (rapid's
// integer generators pick a bit length geometrically, which would turn a "2%"
// branch into a 20% one). Built from unbiased single bits; shrinks towards 0.
func Uniform(t *rapid.T, n int, label string) int {
	if n <= 1 {
		return 0
	}
	bits := 0
	for (1 << bits) < n {
		bits++
	}
	for try := 0; try < 64; try++ {
		v := 0
		for i := 0; i < bits; i++ {
			v <<= 1
			if rapid.Bool().Draw(t, label) {
				v |= 1
			}
		}
		if v < n {
			return v
		}
	}
	return 0
}

func (g *G) intn(lo, hi int, label string) int { return lo + Uniform(g.t, hi-lo+1, label) }
func (g *G) chance(pct int, label string) bool { return Uniform(g.t, 100, label) < pct }
func (g *G) pick(n int, label string) int      { return Uniform(g.t, n, label) }

func (g *G) push(fnTop bool) {
	lvl := 0
	if g.sc != nil {
		lvl = g.sc.level
	}
	if fnTop {
		lvl++
	}
	g.sc = &scope{parent: g.sc, vars: map[string]*Var{}, fnTop: fnTop, level: lvl}
}
func (g *G) pop() { g.sc = g.sc.parent }

func (g *G) lookup(name string) *Var {
	for s := g.sc; s != nil; s = s.parent {
		if v, ok := s.vars[name]; ok {
			return v
		}
	}
	return nil
}

func (g *G) declare(v *Var) *Var {
	v.fnLevel = g.sc.level
	g.sc.vars[v.Name] = v
	g.sc.order = append(g.sc.order, v)
	return v
}

// visible returns the variables visible now, filtered.
func (g *G) visible(pred func(*Var) bool) []*Var {
	var out []*Var
	seen := map[string]bool{}
	for s := g.sc; s != nil; s = s.parent {
		for i := len(s.order) - 1; i >= 0; i-- {
			v := s.order[i]
			if seen[v.Name] {
				continue
			}
			seen[v.Name] = true
			if s.vars[v.Name] == v && pred(v) {
				out = append(out, v)
			}
		}
	}
	return out
}

// newName picks a name not declared in the current scope.
func (g *G) newName(forceUnique bool) string {
	if !forceUnique && g.inTry == 0 {
		pool := identPool
		if g.cfg.Shadow && g.chance(35, "shadowname") {
			pool = ShadowNames
		}
		for try := 0; try < 4; try++ {
			n := pool[g.pick(len(pool), "name")]
			if g.canDeclare(n) {
				if g.lookup(n) != nil {
					g.f("shadow-outer-var")
				}
				return n
			}
		}
	}
	g.uniq++
	return fmt.Sprintf("t%d", g.uniq)
}

// ------------------------------------------------------------------ literals

func IntLit(i int64) *Lit    { return &Lit{Kind: LInt, I: i} }
func StrLit(s string) *Lit   { return &Lit{Kind: LString, S: s} }
func BoolLit(b bool) *Lit    { return &Lit{Kind: LBool, B: b} }
func FloatLit(f float64) *Lit { return &Lit{Kind: LFloat, F: f} }
func UndefLit() *Lit         { return &Lit{Kind: LUndefined} }
func Id(n string) *Ident     { return &Ident{Name: n} }

var edgeInts = []int64{0, 1, -1, 2, 3, 7, 63, 64, 255, 256, 65535, 65536, 1 << 31, math.MaxInt64, math.MinInt64, -7}
var strPool = []string{"", "a", "b", "ab", "abc", "7", "x y", "é", "\xff", "0", "true"}

func (g *G) intLit() *Lit {
	if g.chance(25, "edgeint") {
		return IntLit(edgeInts[g.pick(len(edgeInts), "ei")])
	}
	return IntLit(int64(g.intn(-3, 12, "smallint")))
}
func (g *G) strLit() *Lit { return StrLit(strPool[g.pick(len(strPool), "str")]) }
func (g *G) floatLit() *Lit {
	fs := []float64{0, math.Copysign(0, -1), 1, 0.5, -1.5, 2, 1e300, 1e-300, 3.25, 1e21, 100}
	return FloatLit(fs[g.pick(len(fs), "fl")])
}

func (g *G) scalarLit() Expr {
	switch g.pick(7, "scalarlit") {
	case 0, 1:
		return g.intLit()
	case 2:
		return g.strLit()
	case 3:
		return BoolLit(g.chance(50, "b"))
	case 4:
		if g.cfg.Floats {
			return g.floatLit()
		}
		return g.intLit()
	case 5:
		return &Lit{Kind: LChar, I: int64([]rune{'a', 'z', '0', 0, 0x10FFFF, 'é'}[g.pick(6, "ch")])}
	}
	if g.chance(50, "uintlit") {
		return &Lit{Kind: LUint, U: []uint64{0, 1, 5, 1 << 63, math.MaxUint64}[g.pick(5, "u")]}
	}
	return UndefLit()
}

// ------------------------------------------------------------- expressions

func (g *G) varsOf(k Kind) []*Var {
	return g.visible(func(v *Var) bool { return v.K == k })
}

func (g *G) L(x Expr) Expr {
	g.usesL = true
	if g.chance(8, "Lspread") {
		// the same call written with a spread argument
		g.f("go-call-spread")
		return &Call{Fn: Id("L"), Args: []Expr{&ArrayLit{Elems: []Expr{x}}}, Spread: true}
	}
	return &Call{Fn: Id("L"), Args: []Expr{x}}
}

// builtinFree reports whether name still denotes the builtin here (and notes the use).
func (g *G) builtinFree(name string) bool {
	if g.lookup(name) == nil {
		g.useBuiltin(name)
		return true
	}
	return false
}

func (g *G) useBuiltin(name string) {
	if g.usedBuiltins == nil {
		g.usedBuiltins = map[string]bool{}
	}
	g.usedBuiltins[name] = true
}

// canDeclare: uGO caches a referenced builtin in the root symbol table of the
// compile unit, after which declaring that name at the root scope is a
// "redeclared" compile error; nested scopes are unaffected.
func (g *G) canDeclare(name string) bool {
	if _, dup := g.sc.vars[name]; dup {
		return false
	}
	if g.sc.parent == nil && g.usedBuiltins[name] {
		return false
	}
	return true
}

// bcall builds a call of a builtin name; when the name is shadowed by a shadow
// function the same call is emitted (that is the point of the Shadow knob);
// when shadowed by something else ok=false.
func (g *G) bcall(name string, args ...Expr) (Expr, bool) {
	v := g.lookup(name)
	if v == nil {
		g.useBuiltin(name)
		if len(args) > 0 && g.chance(10, "bspread") {
			// the same call with its last k arguments passed through a spread array: every builtin has to
			// treat Call.vargs like ordinary arguments
			k := 1 + g.pick(len(args), "bspreadk")
			g.f("builtin-call-spread")
			head := append([]Expr{}, args[:len(args)-k]...)
			return &Call{Fn: Id(name), Args: append(head, &ArrayLit{Elems: append([]Expr{}, args[len(args)-k:]...)}), Spread: true}, true
		}
		return &Call{Fn: Id(name), Args: args}, true
	}
	if v.K == KFn && v.Sig != nil && v.Sig.Shadow {
		g.f("call-shadowed-builtin")
		// the shadowing function returns its arguments, and its result may end up in a string
		// (concatenation, println): a map with more than one key renders in Go's random iteration
		// order, so such arguments are replaced by scalars.
		safe := make([]Expr, len(args))
		for i, a := range args {
			if g.mayHoldMultiKeyMap(a) {
				a = g.scalarLit()
			}
			safe[i] = a
		}
		return &Call{Fn: Id(name), Args: safe}, true
	}
	return nil, false
}

// mayHoldMultiKeyMap: conservatively, can the value of e contain a map with two or more keys?
func (g *G) mayHoldMultiKeyMap(e Expr) bool {
	switch x := e.(type) {
	case *Lit:
		return false
	case *MapLit:
		if len(x.Keys) >= 2 {
			return true
		}
		for _, el := range x.Elems {
			if g.mayHoldMultiKeyMap(el) {
				return true
			}
		}
		return false
	case *ArrayLit:
		for _, el := range x.Elems {
			if g.mayHoldMultiKeyMap(el) {
				return true
			}
		}
		return false
	case *Paren:
		return g.mayHoldMultiKeyMap(x.X)
	case *Unary:
		return g.mayHoldMultiKeyMap(x.X)
	case *Binary:
		return g.mayHoldMultiKeyMap(x.L) || g.mayHoldMultiKeyMap(x.R)
	case *Cond:
		return g.mayHoldMultiKeyMap(x.A) || g.mayHoldMultiKeyMap(x.B)
	case *Ident:
		if v := g.lookup(x.Name); v != nil {
			switch v.K {
			case KInt, KStr, KBool, KFloat, KFn, KErr, KNone:
				return false
			}
		}
		return true
	case *Call:
		if id, ok := x.Fn.(*Ident); ok && g.lookup(id.Name) == nil {
			switch id.Name { // builtins with scalar results
			case "len", "int", "uint", "float", "char", "string", "bool", "typeName", "isInt", "isString", "isError", "contains", "sprintf", "error":
				return false
			}
		}
		return true
	}
	return true
}

func (g *G) expr(k Kind, d int) Expr {
	if g.cfg.ConstHeavy && d > 0 && g.chance(35, "const?") {
		if k == KInt || k == KStr || k == KBool || k == KAny || k == KFloat {
			return g.constExpr(k, d)
		}
	}
	if g.cfg.Log && d > 0 && d < g.cfg.MaxDepth && k != KFn && k != KMod && g.chance(12, "Lwrap") {
		return g.L(g.expr(k, d-1))
	}
	switch k {
	case KInt:
		return g.intExpr(d)
	case KStr:
		return g.strExpr(d)
	case KBool:
		return g.boolExpr(d)
	case KFloat:
		return g.floatExpr(d)
	case KArr:
		return g.arrExpr(d)
	case KMap:
		return g.mapExpr(d)
	case KFn:
		return g.fnExpr(nil)
	case KErr:
		if e, ok := g.bcall("error", g.strExpr(0)); ok {
			return e
		}
		return g.strExpr(0)
	}
	// KAny
	switch g.pick(8, "anykind") {
	case 0, 1:
		return g.intExpr(d)
	case 2:
		return g.strExpr(d)
	case 3:
		return g.boolExpr(d)
	case 4:
		return g.arrExpr(d)
	case 5:
		return g.mapExpr(d)
	case 6:
		if vs := g.varsOf(KAny); len(vs) > 0 {
			return Id(vs[g.pick(len(vs), "anyvar")].Name)
		}
		return g.scalarLit()
	}
	return g.scalarLit()
}

func (g *G) callOf(want Kind, d int) Expr {
	// call a visible function whose return kind is `want`
	fns := g.visible(func(v *Var) bool { return v.K == KFn && v.Sig != nil && !v.Sig.Shadow && v.Sig.Ret == want })
	if len(fns) == 0 {
		return nil
	}
	v := fns[g.pick(len(fns), "callee")]
	return g.callVar(v, d)
}

func (g *G) argFor(sig *FnSig, i int, d int) Expr {
	if sig.FnParam == i {
		// a first-order function of one parameter
		fns := g.visible(func(v *Var) bool {
			return v.K == KFn && v.Sig != nil && !v.Sig.Shadow && v.Sig.NP == 1 && !v.Sig.Variadic && v.Sig.FnParam < 0 && v.Sig.Ret != KFn
		})
		if len(fns) > 0 && g.chance(70, "fnargvar") {
			return Id(fns[g.pick(len(fns), "fnarg")].Name)
		}
		return g.fnExpr(&FnSig{NP: 1, Ret: KInt, FnParam: -1})
	}
	if d <= 0 {
		return g.intLit()
	}
	return g.expr(KInt, d-1)
}

func (g *G) callVar(v *Var, d int) Expr {
	sig := v.Sig
	g.f("call")
	n := sig.NP
	var args []Expr
	spread := false
	if sig.Variadic {
		n = sig.NP - 1 + g.intn(0, 2, "varargs")
		g.f("call-variadic")
	}
	mismatch := g.cfg.Calls && g.cfg.Failing && g.chance(4, "aritymismatch")
	if mismatch {
		n = g.intn(0, sig.NP+2, "badn")
		g.f("call-arity-random")
	}
	for i := 0; i < n; i++ {
		args = append(args, g.argFor(sig, i, d))
	}
	if g.cfg.Calls && n > 0 && sig.FnParam < 0 && g.chance(25, "spread") {
		// move the last k arguments into a spread array
		k := g.intn(0, n, "spreadk")
		if sig.FnParam < 0 {
			arr := &ArrayLit{Elems: append([]Expr{}, args[n-k:]...)}
			args = append(append([]Expr{}, args[:n-k]...), arr)
			spread = true
			g.f("call-spread")
		}
	}
	return &Call{Fn: Id(v.Name), Args: args, Spread: spread}
}

func (g *G) intExpr(d int) Expr {
	if d <= 0 {
		if vs := g.varsOf(KInt); len(vs) > 0 && g.chance(65, "intvar") {
			return Id(vs[g.pick(len(vs), "iv")].Name)
		}
		return g.intLit()
	}
	switch g.pick(12, "intexpr") {
	case 0, 1:
		ops := []string{"+", "-", "*", "&", "|", "^", "+", "-", "&^"}
		return &Binary{Op: ops[g.pick(len(ops), "iop")], L: g.intExpr(d - 1), R: g.intExpr(d - 1)}
	case 2:
		var r Expr = IntLit(int64(g.intn(1, 5, "div")))
		if g.cfg.Failing && g.chance(15, "div0") {
			r = g.intExpr(d - 1)
			g.f("maybe-div0")
		}
		return &Binary{Op: []string{"/", "%"}[g.pick(2, "divop")], L: g.intExpr(d - 1), R: r}
	case 3:
		var r Expr = IntLit(int64(g.intn(0, 8, "sh")))
		if g.cfg.Failing && g.chance(10, "negshift") {
			r = IntLit(-1)
			g.f("maybe-negshift")
		}
		return &Binary{Op: []string{"<<", ">>"}[g.pick(2, "shop")], L: g.intExpr(d - 1), R: r}
	case 4:
		if c := g.callOf(KInt, d); c != nil {
			return c
		}
	case 5:
		if as := g.varsOf(KArr); len(as) > 0 {
			if e, ok := g.bcall("len", Id(as[g.pick(len(as), "lenarr")].Name)); ok {
				return e
			}
		}
		if e, ok := g.bcall("len", g.strExpr(d-1)); ok {
			return e
		}
	case 6:
		return &Cond{C: g.boolExpr(d - 1), A: g.intExpr(d - 1), B: g.intExpr(d - 1)}
	case 7:
		return &Unary{Op: []string{"-", "^", "+"}[g.pick(3, "un")], X: g.intExpr(d - 1)}
	case 8:
		if as := g.varsOf(KArr); len(as) > 0 {
			idx := Expr(IntLit(int64(g.intn(0, 2, "idx"))))
			if g.cfg.Failing && g.chance(20, "oob") {
				idx = g.intExpr(d - 1)
				g.f("maybe-oob")
			}
			return &Index{X: Id(as[g.pick(len(as), "idxarr")].Name), I: idx}
		}
	case 9:
		if ms := g.varsOf(KMod); len(ms) > 0 {
			m := ms[g.pick(len(ms), "mod")]
			if g.chance(50, "modcall") {
				g.f("module-call")
				return &Call{Fn: &Selector{X: Id(m.Name), Name: "f"}, Args: []Expr{g.intExpr(d - 1)}}
			}
			return &Selector{X: Id(m.Name), Name: "v"}
		}
	case 10:
		if e, ok := g.bcall("int", g.strLitNumeric()); ok && g.cfg.ConstHeavy {
			return e
		}
	}
	if vs := g.varsOf(KInt); len(vs) > 0 && g.chance(70, "intvar2") {
		return Id(vs[g.pick(len(vs), "iv2")].Name)
	}
	return g.intLit()
}

func (g *G) strLitNumeric() Expr {
	return StrLit([]string{"7", "-3", "12", "0"}[g.pick(4, "numstr")])
}

func (g *G) floatExpr(d int) Expr {
	if d <= 0 || !g.cfg.Floats {
		return g.floatLit()
	}
	switch g.pick(4, "flexpr") {
	case 0:
		return &Binary{Op: []string{"+", "-", "*", "/"}[g.pick(4, "fop")], L: g.floatExpr(d - 1), R: g.floatExpr(d - 1)}
	case 1:
		return &Unary{Op: "-", X: g.floatExpr(d - 1)}
	case 2:
		if vs := g.varsOf(KFloat); len(vs) > 0 {
			return Id(vs[g.pick(len(vs), "fv")].Name)
		}
	}
	return g.floatLit()
}

func (g *G) strExpr(d int) Expr {
	if d <= 0 {
		if vs := g.varsOf(KStr); len(vs) > 0 && g.chance(60, "strvar") {
			return Id(vs[g.pick(len(vs), "sv")].Name)
		}
		return g.strLit()
	}
	switch g.pick(8, "strexpr") {
	case 6:
		// slice of a literal with bounds that are always valid, written as int / uint / char literals
		s := []string{"abc", "x y", "abcdef", "a"}[g.pick(4, "slstr")]
		lo, hi := g.sliceBounds(len(s))
		g.f("slice-typed-bounds")
		return &Slice{X: StrLit(s), Lo: lo, Hi: hi}
	case 0, 1:
		return &Binary{Op: "+", L: g.strExpr(d - 1), R: g.expr([]Kind{KStr, KInt, KBool}[g.pick(3, "catk")], d-1)}
	case 2:
		if e, ok := g.bcall("string", g.intExpr(d-1)); ok {
			return e
		}
	case 3:
		if c := g.callOf(KStr, d); c != nil {
			return c
		}
	case 4:
		return &Cond{C: g.boolExpr(d - 1), A: g.strExpr(d - 1), B: g.strExpr(d - 1)}
	case 5:
		if e, ok := g.bcall("typeName", g.expr(KAny, d-1)); ok {
			return e
		}
	}
	if vs := g.varsOf(KStr); len(vs) > 0 && g.chance(60, "strvar2") {
		return Id(vs[g.pick(len(vs), "sv2")].Name)
	}
	return g.strLit()
}

func (g *G) boolExpr(d int) Expr {
	if d <= 0 {
		if vs := g.varsOf(KBool); len(vs) > 0 && g.chance(50, "boolvar") {
			return Id(vs[g.pick(len(vs), "bv")].Name)
		}
		return BoolLit(g.chance(50, "bl"))
	}
	switch g.pick(7, "boolexpr") {
	case 0, 1:
		return &Binary{Op: []string{"<", "<=", ">", ">=", "==", "!="}[g.pick(6, "cmp")], L: g.intExpr(d - 1), R: g.intExpr(d - 1)}
	case 2:
		return &Binary{Op: []string{"==", "!=", "<"}[g.pick(3, "scmp")], L: g.strExpr(d - 1), R: g.strExpr(d - 1)}
	case 3:
		return &Binary{Op: []string{"&&", "||"}[g.pick(2, "logic")], L: g.boolExpr(d - 1), R: g.boolExpr(d - 1)}
	case 4:
		return &Unary{Op: "!", X: g.expr(KAny, d-1)}
	case 5:
		if e, ok := g.bcall([]string{"isInt", "isString", "isError"}[g.pick(3, "isfn")], g.expr(KAny, d-1)); ok {
			return e
		}
	}
	if vs := g.varsOf(KBool); len(vs) > 0 {
		return Id(vs[g.pick(len(vs), "bv2")].Name)
	}
	return BoolLit(g.chance(50, "bl2"))
}

// idxLit writes index i as an int, uint or char literal.
func (g *G) idxLit(i int) Expr {
	switch g.pick(3, "idxkind") {
	case 0:
		return &Lit{Kind: LUint, U: uint64(i)}
	case 1:
		return &Lit{Kind: LChar, I: int64(i)}
	}
	return IntLit(int64(i))
}

// sliceBounds draws valid bounds 0 <= lo <= hi <= n (either may be omitted).
func (g *G) sliceBounds(n int) (lo, hi Expr) {
	l := g.intn(0, n, "sllo")
	h := g.intn(l, n, "slhi")
	if l > 0 || g.chance(50, "sllo-explicit") {
		lo = g.idxLit(l)
	}
	if h < n || g.chance(50, "slhi-explicit") {
		hi = g.idxLit(h)
	}
	return lo, hi
}

func (g *G) elemExpr(d int) Expr {
	return g.expr([]Kind{KInt, KStr, KBool, KInt}[g.pick(4, "elemk")], d)
}

func (g *G) arrExpr(d int) Expr {
	if d > 0 {
		switch g.pick(6, "arrexpr") {
		case 5:
			n := g.intn(1, 4, "sllen")
			a := &ArrayLit{}
			for i := 0; i < n; i++ {
				a.Elems = append(a.Elems, g.elemExpr(d-1))
			}
			lo, hi := g.sliceBounds(n)
			g.f("slice-typed-bounds")
			return &Slice{X: a, Lo: lo, Hi: hi}
		case 0:
			if vs := g.varsOf(KArr); len(vs) > 0 {
				if e, ok := g.bcall("append", Id(vs[g.pick(len(vs), "av")].Name), g.elemExpr(d-1)); ok {
					return e
				}
			}
		case 1:
			if vs := g.varsOf(KArr); len(vs) > 0 {
				v := Id(vs[g.pick(len(vs), "av2")].Name)
				var lo, hi Expr
				if g.chance(60, "lo") {
					lo = IntLit(int64(g.intn(0, 2, "lov")))
				}
				if g.chance(40, "hi") {
					hi = IntLit(int64(g.intn(0, 3, "hiv")))
				}
				if !g.cfg.Failing {
					// only always-valid slices: [0:0], [:0], [0:], [:]
					if lo != nil {
						lo = IntLit(0)
					}
					if hi != nil {
						hi = IntLit(0)
					}
				}
				return &Slice{X: v, Lo: lo, Hi: hi}
			}
		case 2:
			if vs := g.varsOf(KArr); len(vs) > 0 && g.chance(50, "arrvar") {
				return Id(vs[g.pick(len(vs), "av3")].Name)
			}
		}
	}
	n := g.intn(0, 3, "arrlen")
	a := &ArrayLit{}
	for i := 0; i < n; i++ {
		a.Elems = append(a.Elems, g.elemExpr(d-1))
	}
	return a
}

func (g *G) mapExpr(d int) Expr {
	if vs := g.varsOf(KMap); len(vs) > 0 && g.chance(35, "mapvar") {
		return Id(vs[g.pick(len(vs), "mv")].Name)
	}
	n := g.intn(0, 3, "maplen")
	m := &MapLit{}
	used := map[string]bool{}
	for i := 0; i < n; i++ {
		k := []string{"k", "a", "b", "n"}[g.pick(4, "mkey")]
		if used[k] {
			continue
		}
		used[k] = true
		m.Keys = append(m.Keys, k)
		m.Elems = append(m.Elems, g.elemExpr(d-1))
	}
	return m
}

// constExpr builds an expression of literals, operators and whitelisted
// builtin calls only (what the optimizer folds).
func (g *G) constExpr(k Kind, d int) Expr {
	g.f("const-expr")
	if g.cfg.DeepParen && Uniform(g.t, 1000, "deepparen") < 6 {
		n := []int{60, 64, 65, 70, 130, 257, 300}[g.pick(7, "parendepth")]
		var e Expr = g.constExpr(k, 1)
		for i := 0; i < n; i++ {
			e = &Paren{X: e}
		}
		g.f("deep-paren")
		return e
	}
	if d <= 0 {
		switch k {
		case KInt:
			return g.intLit()
		case KStr:
			return g.strLit()
		case KBool:
			return BoolLit(g.chance(50, "cb"))
		case KFloat:
			return g.floatLit()
		}
		return g.scalarLit()
	}
	mixed := g.chance(3, "mixedtypes")
	sub := func(kk Kind) Expr {
		if mixed {
			return g.scalarLit()
		}
		return g.constExpr(kk, d-1)
	}
	switch k {
	case KInt:
		switch g.pick(8, "cint") {
		case 0, 1, 2:
			ops := []string{"+", "-", "*", "&", "|", "^", "&^", "<<", ">>", "/", "%"}
			op := ops[g.pick(len(ops), "ciop")]
			r := sub(KInt)
			if op == "<<" || op == ">>" {
				r = IntLit(int64(g.intn(0, 70, "csh")))
				if g.cfg.Failing && g.chance(3, "cnegsh") {
					r = IntLit(-1)
				}
			}
			if (op == "/" || op == "%") && !(g.cfg.Failing && g.chance(4, "cdiv0")) {
				r = IntLit(int64(g.intn(1, 9, "cdiv")))
			}
			return &Binary{Op: op, L: sub(KInt), R: r}
		case 3:
			return &Unary{Op: []string{"-", "^", "+"}[g.pick(3, "cun")], X: sub(KInt)}
		case 4:
			if e, ok := g.bcall("len", g.constExpr(KStr, d-1)); ok {
				return e
			}
		case 5:
			if e, ok := g.bcall("int", []Expr{g.strLitNumeric(), g.constExpr(KFloat, 0), g.constExpr(KBool, 0), &Lit{Kind: LChar, I: 'a'}}[g.pick(4, "intarg")]); ok {
				return e
			}
		case 6:
			return &Cond{C: g.constExpr([]Kind{KBool, KStr, KInt, KAny}[g.pick(4, "ccondk")], d-1), A: sub(KInt), B: sub(KInt)}
		}
		return g.intLit()
	case KFloat:
		switch g.pick(6, "cfl") {
		case 0, 1:
			return &Binary{Op: []string{"+", "-", "*", "/"}[g.pick(4, "cfop")], L: sub(KFloat), R: sub(KFloat)}
		case 2:
			return &Unary{Op: "-", X: sub(KFloat)}
		case 3:
			// NaN / infinities can only be written through conversions or overflow
			if e, ok := g.bcall("float", StrLit([]string{"NaN", "inf", "-inf", "+Inf", "1e999", "0", "-0"}[g.pick(7, "fspecial")])); ok {
				g.f("const-nan-inf")
				return e
			}
		case 4:
			g.f("const-nan-inf")
			inf := Expr(&Binary{Op: "*", L: FloatLit(1e308), R: FloatLit(10)})
			return []Expr{inf, &Binary{Op: "-", L: inf, R: inf}, &Binary{Op: "*", L: inf, R: FloatLit(0)}, &Unary{Op: "-", X: inf}}[g.pick(4, "infexpr")]
		}
		return g.floatLit()
	case KStr:
		switch g.pick(6, "cstr") {
		case 0, 1:
			return &Binary{Op: "+", L: sub(KStr), R: g.constExpr([]Kind{KStr, KInt, KBool, KFloat}[g.pick(4, "cck")], d-1)}
		case 2:
			if e, ok := g.bcall("string", g.constExpr([]Kind{KInt, KFloat, KBool}[g.pick(3, "strarg")], d-1)); ok {
				return e
			}
		case 3:
			if e, ok := g.bcall("typeName", g.scalarLit()); ok {
				return e
			}
		case 4:
			if e, ok := g.bcall("sprintf", StrLit("%v|%v"), g.constExpr(KInt, d-1), g.scalarLit()); ok {
				return e
			}
		}
		return g.strLit()
	case KBool:
		switch g.pick(6, "cbool") {
		case 0, 1:
			return &Binary{Op: []string{"<", "<=", ">", ">=", "==", "!="}[g.pick(6, "ccmp")], L: sub(KInt), R: sub(KInt)}
		case 2:
			return &Binary{Op: []string{"&&", "||"}[g.pick(2, "clog")], L: sub(KBool), R: sub(KBool)}
		case 3:
			return &Unary{Op: "!", X: g.scalarLit()}
		case 4:
			if e, ok := g.bcall([]string{"isInt", "isString", "bool"}[g.pick(3, "cis")], g.scalarLit()); ok {
				return e
			}
		}
		return BoolLit(g.chance(50, "cb2"))
	}
	// KAny
	switch g.pick(6, "cany") {
	case 0:
		return g.constExpr(KInt, d)
	case 1:
		return g.constExpr(KStr, d)
	case 2:
		return g.constExpr(KBool, d)
	case 3:
		if g.cfg.Floats {
			return g.constExpr(KFloat, d)
		}
	case 4:
		if e, ok := g.bcall([]string{"char", "uint", "float", "bool", "chars", "bytes"}[g.pick(6, "convfn")], g.scalarLit()); ok && g.cfg.Floats {
			return e
		}
	}
	return g.scalarLit()
}

// fnExpr builds a function literal. sig == nil: choose one.
func (g *G) fnExpr(sig *FnSig) Expr {
	if sig == nil {
		sig = g.newSig()
	}
	return g.funcLit(sig, nil)
}

func (g *G) newSig() *FnSig {
	sig := &FnSig{NP: g.intn(0, 3, "np"), FnParam: -1}
	sig.Ret = []Kind{KInt, KInt, KStr, KAny, KArr, KBool}[g.pick(6, "retk")]
	if g.cfg.Calls && sig.NP > 0 && g.chance(30, "variadic") {
		sig.Variadic = true
	}
	if g.cfg.Closures && g.fnDep < g.cfg.MaxFnDepth-1 && g.chance(15, "retfn") {
		sig.Ret = KFn
		sig.RetSig = &FnSig{NP: g.intn(0, 2, "rnp"), Ret: KInt, FnParam: -1}
	}
	if g.cfg.Calls && sig.NP > 0 && !sig.Variadic && g.chance(12, "fnparam") {
		sig.FnParam = g.pick(sig.NP, "fnparamidx")
	}
	return sig
}

func (g *G) funcLit(sig *FnSig, prelude func(params []string) []Stmt) *FuncLit {
	g.f("funclit")
	if g.fnDep > 0 {
		g.f("nested-funclit")
	}
	fl := &FuncLit{Variadic: sig.Variadic}
	savedLoop, savedTry, savedRet, savedRetSig, savedNoRet := g.loop, g.inTry, g.curFnRet, g.retSig, g.noReturn
	g.loop, g.inTry, g.curFnRet, g.retSig, g.noReturn = 0, 0, sig.Ret, sig.RetSig, false
	g.fnDep++
	g.push(true)
	for i := 0; i < sig.NP; i++ {
		n := g.newName(false)
		if _, dup := g.sc.vars[n]; dup {
			g.uniq++
			n = fmt.Sprintf("p%d", g.uniq)
		}
		fl.Params = append(fl.Params, n)
		v := &Var{Name: n, K: KInt}
		if sig.Variadic && i == sig.NP-1 {
			v.K = KArr
		}
		if sig.FnParam == i {
			v.K = KFn
			v.NoAssign = true
			v.Sig = &FnSig{NP: 1, Ret: KInt, FnParam: -1}
		}
		g.declare(v)
	}
	g.push(false)
	var body []Stmt
	if prelude != nil {
		body = append(body, prelude(fl.Params)...)
	}
	n := g.intn(0, g.cfg.MaxBlock, "fnbody")
	body = append(body, g.stmts(n)...)
	// final return of the declared kind
	if g.chance(92, "finalret") {
		body = append(body, g.retStmt())
	}
	g.pop()
	g.pop()
	g.fnDep--
	g.loop, g.inTry, g.curFnRet, g.retSig, g.noReturn = savedLoop, savedTry, savedRet, savedRetSig, savedNoRet
	fl.Body = body
	return fl
}

func (g *G) retStmt() Stmt {
	if g.curFnRet == KFn && g.retSig != nil {
		return &Return{Xs: []Expr{g.funcLit(g.retSig, nil)}}
	}
	if g.cfg.Destruct && g.curFnRet == KArr && g.chance(30, "multiret") {
		return &Return{Xs: []Expr{g.expr(KInt, 1), g.expr(KInt, 1)}}
	}
	return &Return{Xs: []Expr{g.expr(g.curFnRet, g.intn(0, g.cfg.MaxDepth, "retdepth"))}}
}
