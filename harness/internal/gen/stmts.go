package gen

import (
	"fmt"

	"pgregory.net/rapid"
)

func (g *G) depth() int { return g.intn(0, g.cfg.MaxDepth, "depth") }

// stmts generates up to n statements in the current scope.
func (g *G) stmts(n int) []Stmt {
	var out []Stmt
	for i := 0; i < n && g.budget > 0; i++ {
		g.budget--
		out = append(out, g.stmt()...)
	}
	return out
}

func (g *G) block(n int) []Stmt {
	g.push(false)
	s := g.stmts(n)
	g.pop()
	return s
}

func (g *G) kindForDecl() Kind {
	ks := []Kind{KInt, KInt, KInt, KStr, KBool, KArr, KMap, KAny}
	if g.cfg.Floats {
		ks = append(ks, KFloat)
	}
	return ks[g.pick(len(ks), "declkind")]
}

func (g *G) assignable(k Kind) []*Var {
	return g.visible(func(v *Var) bool { return v.K == k && !v.Const && !v.NoAssign })
}

func (g *G) stmt() []Stmt {
	type choice struct {
		w  int
		fn func() []Stmt
	}
	var cs []choice
	add := func(w int, fn func() []Stmt) {
		if w > 0 {
			cs = append(cs, choice{w, fn})
		}
	}
	add(14, g.declStmt)
	add(10, g.assignStmt)
	if g.cfg.Log {
		add(10, func() []Stmt { return []Stmt{&ExprStmt{X: g.L(g.expr(KAny, g.depth()))}} })
	}
	add(7, g.ifStmt)
	if g.loop < 2 {
		add(5, g.forStmt)
		add(4, g.forInStmt)
	}
	if g.fnDep < g.cfg.MaxFnDepth {
		add(8, g.fnDeclStmt)
	}
	add(6, g.callStmt)
	if g.loop > 0 {
		add(3, g.branchStmt)
	}
	if g.cfg.Try && g.inTry < 3 {
		add(6, g.tryStmt)
	}
	if g.cfg.Failing && (g.inTry > 0 || g.cfg.Try) {
		add(2, g.throwStmt)
	}
	if g.cfg.Destruct {
		add(4, g.destructStmt)
	}
	if g.cfg.Consts {
		add(4, g.constStmt)
		if g.inTry == 0 {
			add(2, g.constShadowStmt)
		}
	}
	if g.cfg.Print {
		add(3, g.printStmt)
	}
	if g.cfg.Shadow {
		add(7, g.shadowStmt)
	}
	if g.cfg.Modules > 0 && len(g.mods) > 0 {
		add(4, g.importStmt)
	}
	if g.fnDep > 0 && !g.noReturn {
		add(2, func() []Stmt {
			// early return guarded by a condition
			return []Stmt{&If{Cond: g.boolExpr(1), Then: []Stmt{g.retStmt()}}}
		})
	}
	if g.cfg.Recursion && g.fnDep < g.cfg.MaxFnDepth {
		add(4, g.recursionStmt)
	}
	if g.cfg.Closures && g.fnDep < g.cfg.MaxFnDepth && g.inTry == 0 {
		add(6, g.escapeStmt)
	}
	total := 0
	for _, c := range cs {
		total += c.w
	}
	r := g.intn(0, total-1, "stmtkind")
	for _, c := range cs {
		if r < c.w {
			return c.fn()
		}
		r -= c.w
	}
	return nil
}

func (g *G) declStmt() []Stmt {
	k := g.kindForDecl()
	x := g.expr(k, g.depth())
	name := g.newName(false)
	v := &Var{Name: name, K: k}
	var s Stmt
	switch g.pick(4, "declform") {
	case 0, 1:
		s = &Define{Names: []string{name}, X: x}
		g.f("decl-define")
	case 2:
		if g.chance(25, "varnoinit") {
			s = &VarDecl{Names: []string{name}, Values: []Expr{nil}}
			v.K = KAny
		} else {
			s = &VarDecl{Names: []string{name}, Values: []Expr{x}}
		}
		g.f("decl-var")
	default:
		if g.cfg.Consts {
			s = &ConstDecl{Names: []string{name}, Values: []Expr{x}}
			v.Const = true
			g.f("decl-const")
		} else {
			s = &Define{Names: []string{name}, X: x}
		}
	}
	g.declare(v)
	return []Stmt{s}
}

func (g *G) assignStmt() []Stmt {
	switch g.pick(6, "assignform") {
	case 0, 1:
		k := []Kind{KInt, KStr, KBool, KArr, KAny, KMap}[g.pick(6, "asgkind")]
		if vs := g.assignable(k); len(vs) > 0 {
			v := vs[g.pick(len(vs), "asgvar")]
			if v.fnLevel != g.sc.level {
				g.f("assign-captured")
			}
			return []Stmt{&Assign{Targets: []Expr{Id(v.Name)}, Op: "=", X: g.expr(k, g.depth())}}
		}
	case 2:
		if vs := g.assignable(KInt); len(vs) > 0 {
			v := vs[g.pick(len(vs), "cmpvar")]
			if v.fnLevel != g.sc.level {
				g.f("assign-captured")
			}
			ops := []string{"+=", "-=", "*=", "|=", "&=", "^=", "&^=", "/=", "%=", "<<=", ">>="}
			g.f("compound-assign")
			op := ops[g.pick(len(ops), "cmpop")]
			switch op {
			case "/=", "%=": // a non-zero literal divisor
				return []Stmt{&Assign{Targets: []Expr{Id(v.Name)}, Op: op, X: IntLit(int64(g.intn(1, 7, "cmpdiv")))}}
			case "<<=", ">>=": // a small non-negative shift count
				return []Stmt{&Assign{Targets: []Expr{Id(v.Name)}, Op: op, X: IntLit(int64(g.intn(0, 5, "cmpsh")))}}
			}
			return []Stmt{&Assign{Targets: []Expr{Id(v.Name)}, Op: op, X: g.intExpr(g.depth())}}
		}
	case 3:
		if vs := g.assignable(KInt); len(vs) > 0 {
			v := vs[g.pick(len(vs), "incvar")]
			g.f("incdec")
			return []Stmt{&IncDec{Target: Id(v.Name), Inc: g.chance(60, "inc")}}
		}
	case 4:
		if vs := g.varsOf(KMap); len(vs) > 0 {
			v := vs[g.pick(len(vs), "mapset")]
			key := []string{"k", "a", "b", "n"}[g.pick(4, "setkey")]
			g.f("index-assign")
			if g.chance(50, "selset") {
				if g.chance(30, "selcompound") {
					cop := []string{"+=", "-=", "*=", "|=", "&^=", "^="}[g.pick(6, "selcop")]
					return []Stmt{
						&Assign{Targets: []Expr{&Selector{X: Id(v.Name), Name: key}}, Op: "=", X: g.intExpr(1)},
						&Assign{Targets: []Expr{&Selector{X: Id(v.Name), Name: key}}, Op: cop, X: g.intExpr(1)},
					}
				}
				return []Stmt{&Assign{Targets: []Expr{&Selector{X: Id(v.Name), Name: key}}, Op: "=", X: g.elemExpr(g.depth())}}
			}
			return []Stmt{&Assign{Targets: []Expr{&Index{X: Id(v.Name), I: StrLit(key)}}, Op: "=", X: g.elemExpr(g.depth())}}
		}
	case 5:
		if vs := g.varsOf(KArr); len(vs) > 0 && g.cfg.Failing {
			v := vs[g.pick(len(vs), "arrset")]
			g.f("index-assign")
			return []Stmt{&Assign{Targets: []Expr{&Index{X: Id(v.Name), I: IntLit(int64(g.intn(0, 2, "seti")))}}, Op: "=", X: g.elemExpr(g.depth())}}
		}
	}
	return g.declStmt()
}

func (g *G) ifStmt() []Stmt {
	g.f("if")
	s := &If{}
	g.push(false) // the if statement's own scope (init)
	if g.chance(25, "ifinit") {
		name := g.newName(false)
		s.Init = &Define{Names: []string{name}, X: g.intExpr(1)}
		g.declare(&Var{Name: name, K: KInt})
		g.f("if-init")
	}
	if g.cfg.ConstHeavy && g.chance(30, "constcond") {
		// any literal kind may be a condition (truthiness): strings, numbers, chars, undefined
		s.Cond = g.constExpr([]Kind{KBool, KBool, KStr, KInt, KAny, KFloat}[g.pick(6, "ccondkind")], g.intn(0, 2, "ccd"))
		g.f("if-const-cond")
	} else {
		s.Cond = g.boolExpr(g.depth())
	}
	s.Then = g.block(g.intn(0, g.cfg.MaxBlock, "then"))
	if g.chance(45, "else") {
		s.HasElse = true
		if g.chance(25, "elseif") {
			inner := g.ifStmt()
			s.Else = inner
		} else {
			s.Else = g.block(g.intn(0, g.cfg.MaxBlock, "elseb"))
		}
	}
	g.pop()
	return []Stmt{s}
}

func (g *G) forStmt() []Stmt {
	g.f("for")
	n := int64(g.intn(0, 3, "iters"))
	g.push(false)
	defer g.pop()
	g.loop++
	defer func() { g.loop-- }()
	if g.chance(70, "counterloop") {
		name := g.newName(false)
		g.declare(&Var{Name: name, K: KInt, NoAssign: true})
		s := &For{
			Init: &Define{Names: []string{name}, X: IntLit(0)},
			Cond: &Binary{Op: "<", L: Id(name), R: IntLit(n)},
			Post: &IncDec{Target: Id(name), Inc: true},
		}
		s.Body = g.block(g.intn(0, g.cfg.MaxBlock, "forbody"))
		return []Stmt{s}
	}
	// for { if c >= n { break }; c++; body }
	g.uniq++
	cname := fmt.Sprintf("n%d", g.uniq)
	pre := &Define{Names: []string{cname}, X: IntLit(0)}
	// the counter lives in the enclosing scope of the for statement: declare it there
	outer := g.sc.parent
	outer.vars[cname] = &Var{Name: cname, K: KInt, NoAssign: true, fnLevel: outer.level}
	outer.order = append(outer.order, outer.vars[cname])
	s := &For{}
	g.push(false)
	body := []Stmt{
		&If{Cond: &Binary{Op: ">=", L: Id(cname), R: IntLit(n)}, Then: []Stmt{&Break{}}},
		&IncDec{Target: Id(cname), Inc: true},
	}
	body = append(body, g.stmts(g.intn(0, g.cfg.MaxBlock, "forbody2"))...)
	g.pop()
	s.Body = body
	g.f("for-infinite-break")
	return []Stmt{pre, s}
}

func (g *G) forInStmt() []Stmt {
	g.f("forin")
	s := &ForIn{}
	var elemK Kind = KAny
	switch g.pick(4, "iterable") {
	case 0, 1:
		s.X = g.arrExpr(1)
	case 2:
		s.X = g.strLit()
		elemK = KAny
	default:
		if g.cfg.MapIter {
			// only single-key map literals: iteration order of larger maps is unspecified
			s.X = &MapLit{Keys: []string{"k"}, Elems: []Expr{g.elemExpr(1)}}
			g.f("forin-map")
		} else {
			s.X = g.arrExpr(1)
		}
	}
	g.push(false)
	defer g.pop()
	g.loop++
	defer func() { g.loop-- }()
	if g.chance(60, "forinkey") {
		s.Key = g.newName(false)
		if g.chance(30, "underscorekey") {
			s.Key = "_"
		} else {
			g.declare(&Var{Name: s.Key, K: KAny, NoAssign: false})
		}
	}
	s.Value = g.newName(false)
	if s.Value == s.Key {
		g.uniq++
		s.Value = fmt.Sprintf("fv%d", g.uniq)
	}
	g.declare(&Var{Name: s.Value, K: elemK})
	s.Body = g.block(g.intn(0, g.cfg.MaxBlock, "forinbody"))
	return []Stmt{s}
}

func (g *G) fnDeclStmt() []Stmt {
	sig := g.newSig()
	fl := g.funcLit(sig, nil)
	name := g.newName(false) // after the literal: its body may reference builtins by name
	g.declare(&Var{Name: name, K: KFn, Sig: sig, NoAssign: true})
	if g.chance(30, "fnvarform") {
		return []Stmt{&VarDecl{Names: []string{name}, Values: []Expr{fl}}}
	}
	return []Stmt{&Define{Names: []string{name}, X: fl}}
}

func (g *G) callStmt() []Stmt {
	fns := g.visible(func(v *Var) bool { return v.K == KFn && v.Sig != nil && !v.Sig.Shadow })
	if len(fns) == 0 {
		return g.fnDeclStmt()
	}
	v := fns[g.pick(len(fns), "callstmtfn")]
	call := g.callVar(v, 2)
	if v.Sig.Ret == KFn && v.Sig.RetSig != nil {
		// bind the returned closure and call it
		name := g.newName(false)
		g.declare(&Var{Name: name, K: KFn, Sig: v.Sig.RetSig, NoAssign: true})
		g.f("closure-returned")
		return []Stmt{&Define{Names: []string{name}, X: call}}
	}
	if g.cfg.Log && g.chance(60, "logcall") {
		return []Stmt{&ExprStmt{X: g.L(call)}}
	}
	if v.Sig.Ret != KFn && g.chance(50, "bindcall") {
		name := g.newName(false)
		g.declare(&Var{Name: name, K: v.Sig.Ret})
		return []Stmt{&Define{Names: []string{name}, X: call}}
	}
	return []Stmt{&ExprStmt{X: call}}
}

func (g *G) branchStmt() []Stmt {
	var b Stmt = &Break{}
	if g.chance(50, "cont") {
		b = &Continue{}
		g.f("continue")
	} else {
		g.f("break")
	}
	if g.inTry > 0 {
		g.f("branch-in-try")
	}
	return []Stmt{&If{Cond: g.boolExpr(1), Then: []Stmt{b}}}
}

func (g *G) throwStmt() []Stmt {
	g.f("throw")
	var x Expr
	switch g.pick(3, "throwkind") {
	case 0:
		x = g.strLit()
	case 1:
		if e, ok := g.bcall("error", g.strLit()); ok {
			x = e
		} else {
			x = g.strLit()
		}
	default:
		if g.builtinFree("TypeError") {
			x = &Call{Fn: &Selector{X: Id("TypeError"), Name: "New"}, Args: []Expr{g.strLit()}}
		} else {
			x = g.intLit()
		}
	}
	t := &Throw{X: x}
	if g.chance(70, "guardthrow") {
		return []Stmt{&If{Cond: g.boolExpr(1), Then: []Stmt{t}}}
	}
	return []Stmt{t}
}

func (g *G) tryStmt() []Stmt {
	g.f("try")
	t := &Try{}
	g.inTry++
	g.push(false) // the statement's single scope
	t.Body = g.stmtsIsolated(g.intn(0, g.cfg.MaxBlock, "trybody"))
	t.HasCatch = g.chance(75, "hascatch")
	t.HasFinally = !t.HasCatch || g.chance(50, "hasfinally")
	if t.HasCatch {
		if g.chance(70, "catchident") {
			// the catch identifier may shadow a builtin name
			name := ""
			if g.cfg.Shadow && g.chance(40, "catchshadow") {
				name = ShadowNames[g.pick(len(ShadowNames), "catchname")]
				if _, dup := g.sc.vars[name]; dup {
					name = ""
				}
			}
			if name == "" {
				g.uniq++
				name = fmt.Sprintf("e%d", g.uniq)
			}
			t.CatchIdent = name
		}
		g.push(false)
		if t.CatchIdent != "" {
			g.declare(&Var{Name: t.CatchIdent, K: KErr, NoAssign: true})
			g.f("catch-ident")
		}
		var body []Stmt
		if t.CatchIdent != "" && g.cfg.Log && g.chance(60, "logcatch") {
			body = append(body, &ExprStmt{X: g.L(&Selector{X: Id(t.CatchIdent), Name: "Message"})})
		}
		if t.CatchIdent != "" && g.cfg.Shadow && g.chance(50, "callcatchident") {
			// call the (shadowing) catch identifier like the builtin: NotCallable on both sides
			body = append(body, &Try{Body: []Stmt{&ExprStmt{X: &Call{Fn: Id(t.CatchIdent), Args: []Expr{g.scalarLit()}}}}, HasCatch: true})
			g.f("call-shadowed-catch-ident")
		}
		body = append(body, g.stmts(g.intn(0, g.cfg.MaxBlock, "catchbody"))...)
		t.Catch = body
		g.pop()
	}
	if t.HasFinally {
		if t.CatchIdent != "" {
			// the identifier lives in the statement's single scope: reserve the name so the
			// finally block never reads it (it is unset on paths that skipped its definition)
			g.declare(&Var{Name: t.CatchIdent, K: KNone, NoAssign: true})
		}
		saved := g.noReturn
		if !g.chance(15, "finallymayexit") {
			g.noReturn = true
		}
		t.Finally = g.stmtsIsolated(g.intn(0, g.cfg.MaxBlock, "finallybody"))
		g.noReturn = saved
		g.f("finally")
	}
	g.pop()
	g.inTry--
	return []Stmt{t}
}

// stmtsIsolated generates statements in a child scope (their declarations use
// unique names because inTry > 0, so that the single real scope of the try
// statement never sees a clash and sibling blocks never read each other's
// possibly-unset variables).
func (g *G) stmtsIsolated(n int) []Stmt {
	g.push(false)
	s := g.stmts(n)
	g.pop()
	return s
}

func (g *G) destructStmt() []Stmt {
	g.f("destructuring")
	n := g.intn(2, 3, "dn")
	var rhs Expr
	switch g.pick(3, "drhs") {
	case 0:
		a := &ArrayLit{}
		for i := 0; i < g.intn(0, 4, "dlen"); i++ {
			a.Elems = append(a.Elems, g.intExpr(1))
		}
		rhs = a
	case 1:
		rhs = g.intExpr(1) // non-array: first gets the value, the rest undefined
	default:
		if c := g.callOf(KArr, 1); c != nil {
			rhs = c
		} else {
			rhs = g.arrExpr(1)
		}
	}
	if g.chance(40, "dassign") {
		vs := g.assignable(KAny)
		if len(vs) >= n {
			var ts []Expr
			seen := map[string]bool{}
			for _, v := range vs {
				if len(ts) == n {
					break
				}
				if !seen[v.Name] {
					seen[v.Name] = true
					ts = append(ts, Id(v.Name))
				}
			}
			if len(ts) == n {
				return []Stmt{&Assign{Targets: ts, Op: "=", X: rhs}}
			}
		}
	}
	var names []string
	for i := 0; i < n; i++ {
		g.uniq++
		nm := fmt.Sprintf("d%d", g.uniq)
		names = append(names, nm)
	}
	for _, nm := range names {
		g.declare(&Var{Name: nm, K: KAny})
	}
	return []Stmt{&Define{Names: names, X: rhs}}
}

func (g *G) constStmt() []Stmt {
	g.f("const-group")
	n := g.intn(1, 4, "cn")
	c := &ConstDecl{}
	useIota := g.builtinFree("iota") && g.chance(70, "iota")
	for i := 0; i < n; i++ {
		g.uniq++
		nm := fmt.Sprintf("c%d", g.uniq)
		if g.chance(10, "cunderscore") && i > 0 {
			nm = "_"
		}
		var x Expr
		if vs := g.varsOf(KInt); (i == 0 || g.chance(35, "cexplicit0")) && len(vs) > 0 && g.chance(22, "calias") {
			// the bare name of a visible variable or constant: an alias of a literal constant is
			// a literal constant itself, of anything else the value it has now
			x = Id(vs[g.pick(len(vs), "caliasv")].Name)
			g.f("const-alias")
		} else if i == 0 || g.chance(35, "cexplicit") {
			if useIota {
				switch g.pick(4, "iotaform") {
				case 0:
					x = Id("iota")
				case 1:
					x = &Binary{Op: "<<", L: IntLit(1), R: Id("iota")}
				case 2:
					x = &Binary{Op: "+", L: g.intLit(), R: Id("iota")}
				default:
					x = &ArrayLit{Elems: []Expr{Id("iota")}}
				}
				g.f("iota")
			} else {
				g.inConst = true
				x = g.constExpr(KInt, 1)
				g.inConst = false
			}
		}
		if n == 1 && nm != "_" && g.chance(20, "cpoolname") {
			// a name from the common pool (single declarations only; chosen AFTER the value so that the
			// value cannot have used a builtin of that name): later scopes re-bind it, earlier ones may
			// have bound it
			if pn := g.newName(false); g.canDeclare(pn) && !mentions(x, pn) {
				nm = pn
			}
		}
		c.Names = append(c.Names, nm)
		c.Values = append(c.Values, x)
		if nm != "_" {
			k := KInt
			if al, ok := firstExplicit(c.Values).(*ArrayLit); ok && al != nil {
				k = KArr
			}
			g.declare(&Var{Name: nm, K: k, Const: true})
		}
	}
	return []Stmt{c}
}

// constShadowStmt: a literal constant, an inner scope that binds the SAME name to something else
// (block local, parameter, for-in variable, captured variable, non-literal constant) and, inside that
// scope, constants defined from the bare name and from an expression over it. The inner constants take
// the inner binding's value; everything is observed through a self-contained expression, the names stay
// private to the statement.
func (g *G) constShadowStmt() []Stmt {
	g.uniq++
	a, b, b2 := fmt.Sprintf("ka%d", g.uniq), fmt.Sprintf("kb%d", g.uniq), fmt.Sprintf("kc%d", g.uniq)
	l1, l2, l3 := g.intLit(), g.intLit(), g.intLit()
	g.f("const-alias-of-shadowing-name")
	inner := func(ret bool) []Stmt {
		st := []Stmt{
			&ConstDecl{Names: []string{b}, Values: []Expr{Id(a)}},
			&ConstDecl{Names: []string{b2}, Values: []Expr{&Binary{Op: "+", L: Id(a), R: IntLit(1)}}},
		}
		obs := &ArrayLit{Elems: []Expr{Id(b), Id(b2), Id(a)}}
		if ret {
			return append(st, &Return{Xs: []Expr{obs}})
		}
		if g.cfg.Log {
			return append(st, &ExprStmt{X: g.L(obs)})
		}
		return append(st, &ExprStmt{X: obs})
	}
	observe := func(x Expr) Stmt {
		if g.cfg.Log {
			return &ExprStmt{X: g.L(x)}
		}
		g.uniq++
		nm := fmt.Sprintf("ko%d", g.uniq)
		g.declare(&Var{Name: nm, K: KAny})
		return &Define{Names: []string{nm}, X: x}
	}
	out := []Stmt{&ConstDecl{Names: []string{a}, Values: []Expr{l1}}}
	switch g.pick(5, "constshadowform") {
	case 0: // block local
		out = append(out, &If{Cond: BoolLit(true), Then: append([]Stmt{&Define{Names: []string{a}, X: l2}}, inner(false)...)})
	case 1: // parameter
		out = append(out, observe(&Call{Fn: &FuncLit{Params: []string{a}, Body: inner(true)}, Args: []Expr{l2}}))
	case 2: // for-in variable
		out = append(out, &ForIn{Key: "_", Value: a, X: &ArrayLit{Elems: []Expr{l2, l3}}, Body: inner(false)})
	case 3: // variable captured from the enclosing function
		body := []Stmt{&Define{Names: []string{a}, X: l2}, &Return{Xs: []Expr{&FuncLit{Body: inner(true)}}}}
		out = append(out, observe(&Call{Fn: &Call{Fn: &FuncLit{Body: body}}}))
	default: // non-literal constant
		out = append(out, &If{Cond: BoolLit(true), Then: append([]Stmt{&ConstDecl{Names: []string{a}, Values: []Expr{&Index{X: &ArrayLit{Elems: []Expr{l2}}, I: IntLit(0)}}}}, inner(false)...)})
	}
	// the outer constant is still the literal afterwards
	out = append(out, observe(&Binary{Op: "+", L: Id(a), R: IntLit(0)}))
	g.declare(&Var{Name: a, K: KInt, Const: true})
	return out
}

// mentions reports whether name occurs as an identifier anywhere in the rendered expression.
func mentions(x Expr, name string) bool {
	if x == nil {
		return false
	}
	src := ExprSrc(x)
	for i := 0; i+len(name) <= len(src); i++ {
		if src[i:i+len(name)] != name {
			continue
		}
		before := i == 0 || !isIdentByte(src[i-1])
		after := i+len(name) == len(src) || !isIdentByte(src[i+len(name)])
		if before && after {
			return true
		}
	}
	return false
}

func isIdentByte(b byte) bool {
	return b == '_' || b >= '0' && b <= '9' || b >= 'a' && b <= 'z' || b >= 'A' && b <= 'Z'
}

func firstExplicit(vs []Expr) Expr {
	var last Expr
	for _, v := range vs {
		if v != nil {
			last = v
		}
	}
	return last
}

func (g *G) printStmt() []Stmt {
	g.f("print")
	if e, ok := g.bcall("println", g.expr([]Kind{KInt, KStr, KBool, KArr}[g.pick(4, "pk")], 1)); ok && g.builtinFree("println") {
		return []Stmt{&ExprStmt{X: e}}
	}
	return nil
}

// shadowFn is the value bound to shadowed builtin names: accepts anything.
func (g *G) shadowFn() Expr {
	tag := []string{"F", "G", "H"}[g.pick(3, "shadowtag")]
	return &FuncLit{Params: []string{"sa"}, Variadic: true, Body: []Stmt{&Return{Xs: []Expr{&ArrayLit{Elems: []Expr{StrLit(tag), Id("sa")}}}}}}
}

var shadowSig = &FnSig{NP: 1, Variadic: true, Ret: KAny, FnParam: -1, Shadow: true}

// shadowStmt binds a builtin name through one of the binding forms and then
// uses it like the builtin on constant arguments.
func (g *G) shadowStmt() []Stmt {
	name := ShadowNames[g.pick(len(ShadowNames), "shname")]
	if !g.canDeclare(name) || g.inTry > 0 {
		return g.declStmt()
	}
	use := func() Stmt {
		args := []Expr{g.scalarLit()}
		if name == "int" || name == "float" || name == "uint" {
			args = []Expr{g.strLitNumeric()}
		}
		var call Expr = &Call{Fn: Id(name), Args: args}
		g.f("call-shadowed-builtin")
		// mix the call with a constant identifier / literal in one expression (the compiler folds
		// const literals itself and asks the optimizer to evaluate the rest)
		consts := g.visible(func(v *Var) bool { return v.Const && v.K == KInt })
		if len(consts) > 0 && g.chance(60, "mixconst") {
			call = &Binary{Op: []string{"==", "!="}[g.pick(2, "mixop")], L: call, R: Id(consts[g.pick(len(consts), "mixvar")].Name)}
			g.f("shadowed-call-mixed-with-const")
		} else if g.chance(30, "mixlit") {
			call = &Binary{Op: "==", L: call, R: g.scalarLit()}
		}
		var st Stmt
		if g.cfg.Log {
			st = &ExprStmt{X: g.L(call)}
		} else {
			g.uniq++
			nm := fmt.Sprintf("s%d", g.uniq)
			g.declare(&Var{Name: nm, K: KAny})
			return &Define{Names: []string{nm}, X: call}
		}
		if g.chance(40, "useinblock") {
			// inside a nested block of the same function
			switch g.pick(3, "useblock") {
			case 0:
				return &If{Cond: BoolLit(true), Then: []Stmt{st}}
			case 1:
				g.uniq++
				iv := fmt.Sprintf("i%d", g.uniq)
				return &For{Init: &Define{Names: []string{iv}, X: IntLit(0)}, Cond: &Binary{Op: "<", L: Id(iv), R: IntLit(1)}, Post: &IncDec{Target: Id(iv), Inc: true}, Body: []Stmt{st}}
			default:
				return &Try{Body: []Stmt{st}, HasFinally: true}
			}
		}
		return st
	}
	switch g.pick(6, "shadowform") {
	case 0:
		g.f("shadow-define")
		g.declare(&Var{Name: name, K: KFn, Sig: shadowSig, NoAssign: true})
		return []Stmt{&Define{Names: []string{name}, X: g.shadowFn()}, use()}
	case 1:
		g.f("shadow-var")
		g.declare(&Var{Name: name, K: KFn, Sig: shadowSig, NoAssign: true})
		return []Stmt{&VarDecl{Names: []string{name}, Values: []Expr{g.shadowFn()}}, use()}
	case 2:
		g.f("shadow-const")
		g.declare(&Var{Name: name, K: KFn, Sig: shadowSig, NoAssign: true, Const: true})
		return []Stmt{&ConstDecl{Names: []string{name}, Values: []Expr{g.shadowFn()}}, use()}
	case 3:
		// function parameter
		g.f("shadow-param")
		g.push(true)
		g.declare(&Var{Name: name, K: KFn, Sig: shadowSig, NoAssign: true})
		g.push(false)
		saved, savedTry := g.loop, g.inTry
		g.loop, g.inTry = 0, 0
		g.fnDep++
		body := []Stmt{use()}
		body = append(body, &Return{Xs: []Expr{&Call{Fn: Id(name), Args: []Expr{g.scalarLit()}}}})
		g.fnDep--
		g.loop, g.inTry = saved, savedTry
		g.pop()
		g.pop()
		fl := &FuncLit{Params: []string{name}, Body: body}
		call := &Call{Fn: fl, Args: []Expr{g.shadowFn()}}
		if g.cfg.Log {
			return []Stmt{&ExprStmt{X: g.L(call)}}
		}
		return []Stmt{&ExprStmt{X: call}}
	case 4:
		// for-in key or value
		g.f("shadow-forin")
		s := &ForIn{X: &ArrayLit{Elems: []Expr{g.shadowFn()}}}
		g.push(false)
		g.loop++
		if g.chance(70, "shadowvalue") {
			s.Key = "_"
			s.Value = name
			g.declare(&Var{Name: name, K: KFn, Sig: shadowSig, NoAssign: true})
			g.push(false)
			s.Body = []Stmt{use()}
			g.pop()
		} else {
			// the key is an int: calling it is a NotCallable error on both sides
			s.Key = name
			s.Value = "_"
			g.declare(&Var{Name: name, K: KInt, NoAssign: true})
			g.push(false)
			var kcall Expr = &Call{Fn: Id(name), Args: []Expr{g.strLitNumeric()}}
			if g.cfg.Log {
				kcall = g.L(kcall) // never reached: if the call were folded as the builtin's, its value would be logged
			}
			s.Body = []Stmt{&Try{Body: []Stmt{&ExprStmt{X: kcall}}, HasCatch: true}}
			if g.cfg.Log {
				s.Body = append(s.Body, &ExprStmt{X: g.L(Id(name))})
			}
			g.pop()
		}
		g.loop--
		g.pop()
		return []Stmt{s}
	default:
		// plain variable (non callable) shadowing + nested function using it
		g.f("shadow-scalar")
		g.declare(&Var{Name: name, K: KInt})
		return []Stmt{&Define{Names: []string{name}, X: g.intLit()}}
	}
}

func (g *G) importStmt() []Stmt {
	m := g.mods[g.pick(len(g.mods), "impmod")]
	name := g.newName(true)
	g.declare(&Var{Name: name, K: KMod, Mod: m, NoAssign: true})
	g.f("import")
	return []Stmt{&Define{Names: []string{name}, X: &Import{Name: m}}}
}

// recursionStmt emits one of the recursion templates (tail, non-tail,
// discarded self call as last statement) and a call of it.
func (g *G) recursionStmt() []Stmt {
	g.uniq++
	name := fmt.Sprintf("rec%d", g.uniq)
	g.declare(&Var{Name: name, K: KFn, NoAssign: true, Sig: &FnSig{NP: 2, Ret: KAny, FnParam: -1, Shadow: false}})
	// do not let other generated code call it with arbitrary depth: mark as shadow-like (uncallable by callOf)
	g.lookup(name).Sig = nil
	form := g.pick(6, "recform")
	if form == 4 {
		return g.closureChainStmt(name)
	}
	if form == 5 {
		if g.inTry == 0 {
			return g.discardedThrowStmt(name)
		}
		form = 2
	}
	depth := int64(g.intn(0, 6, "recdepth"))
	var body []Stmt
	n, acc := "n", "acc"
	var extra []Stmt
	if g.cfg.Log && g.chance(50, "reclog") {
		extra = append(extra, &ExprStmt{X: g.L(Id(n))})
	}
	base := &If{Cond: &Binary{Op: "==", L: Id(n), R: IntLit(0)}, Then: []Stmt{&Return{Xs: []Expr{Id(acc)}}}}
	self := func(a Expr) Expr {
		return &Call{Fn: Id(name), Args: []Expr{&Binary{Op: "-", L: Id(n), R: IntLit(1)}, a}}
	}
	switch form {
	case 0:
		g.f("recursion-tail")
		if g.chance(40, "deeptail") {
			depth = int64([]int{50, 1000, 3000}[g.pick(3, "taildepth")])
			extra = nil
			g.f("recursion-tail-deep")
		}
		body = append([]Stmt{base}, extra...)
		body = append(body, &Return{Xs: []Expr{self(&Binary{Op: "+", L: Id(acc), R: IntLit(1)})}})
	case 1:
		g.f("recursion-nontail")
		body = append([]Stmt{base}, extra...)
		body = append(body, &Return{Xs: []Expr{&Binary{Op: "+", L: IntLit(1), R: self(Id(acc))}}})
	case 2:
		g.f("recursion-discarded-last")
		body = append([]Stmt{base}, extra...)
		body = append(body, &ExprStmt{X: self(Id(acc))})
	default:
		// one chain mixing the tail-call kinds: `f(..); return` (value discarded), `return f(..)`
		// and optionally a non-tail step, selected by n
		g.f("recursion-mixed-tail-kinds")
		depth = int64(g.intn(1, 9, "mixdepth"))
		k := int64(g.intn(2, 3, "mixmod"))
		r := int64(g.intn(0, int(k)-1, "mixrem"))
		sel := &Binary{Op: "==", L: &Binary{Op: "%", L: Id(n), R: IntLit(k)}, R: IntLit(r)}
		discard := []Stmt{&ExprStmt{X: self(&Binary{Op: "+", L: Id(acc), R: IntLit(1)})}, &Return{}}
		if g.chance(30, "mixnoexplicitreturn") {
			discard = []Stmt{&ExprStmt{X: self(&Binary{Op: "+", L: Id(acc), R: IntLit(1)})}}
		}
		body = append([]Stmt{base}, extra...)
		if g.chance(50, "mixorder") {
			body = append(body, &If{Cond: sel, Then: discard, HasElse: true, Else: []Stmt{&Return{Xs: []Expr{self(&Binary{Op: "+", L: Id(acc), R: IntLit(1)})}}}})
		} else {
			body = append(body, &If{Cond: sel, Then: []Stmt{&Return{Xs: []Expr{self(&Binary{Op: "+", L: Id(acc), R: IntLit(1)})}}}}, &ExprStmt{X: self(&Binary{Op: "+", L: Id(acc), R: IntLit(2)})})
		}
	}
	fl := &FuncLit{Params: []string{n, acc}, Body: body}
	call := &Call{Fn: Id(name), Args: []Expr{IntLit(depth), IntLit(int64(g.intn(0, 5, "acc0")))}}
	var use Stmt = &ExprStmt{X: call}
	if g.cfg.Log {
		use = &ExprStmt{X: g.L(call)}
	}
	return []Stmt{
		&VarDecl{Names: []string{name}, Values: []Expr{nil}},
		&Assign{Targets: []Expr{Id(name)}, Op: "=", X: fl},
		use,
	}
}

// discardedThrowStmt: a function whose last statement is a self call with the value discarded (the frame
// is re-used and remembers that its result is dropped) and whose deepest activation throws - the error
// unwinds through the re-used frame and is caught outside. Afterwards other functions are called at the
// same depth and their results observed: nothing of the abandoned frame may stick to the next one.
func (g *G) discardedThrowStmt(name string) []Stmt {
	g.f("recursion-discarded-then-error-unwinds")
	depth := int64(g.intn(1, 5, "dtdepth"))
	other := name + "o"
	thrower := name + "t"
	body := []Stmt{
		&If{Cond: &Binary{Op: "==", L: Id("n"), R: IntLit(0)}, Then: []Stmt{&ExprStmt{X: &Call{Fn: Id(thrower), Args: []Expr{Id("acc")}}}}},
		&ExprStmt{X: &Call{Fn: Id(name), Args: []Expr{&Binary{Op: "-", L: Id("n"), R: IntLit(1)}, &Binary{Op: "+", L: Id("acc"), R: IntLit(1)}}}},
	}
	observe := func(x Expr) Stmt {
		if g.cfg.Log {
			return &ExprStmt{X: g.L(x)}
		}
		return &ExprStmt{X: x}
	}
	out := []Stmt{
		&VarDecl{Names: []string{name}, Values: []Expr{nil}},
		&Define{Names: []string{thrower}, X: &FuncLit{Params: []string{"x"}, Body: []Stmt{&Throw{X: StrLit("deep")}}}},
		&Define{Names: []string{other}, X: &FuncLit{Params: []string{"x"}, Body: []Stmt{&Return{Xs: []Expr{&Binary{Op: "+", L: Id("x"), R: IntLit(1)}}}}}},
		&Assign{Targets: []Expr{Id(name)}, Op: "=", X: &FuncLit{Params: []string{"n", "acc"}, Body: body}},
		&Try{Body: []Stmt{&ExprStmt{X: &Call{Fn: Id(name), Args: []Expr{IntLit(depth), IntLit(0)}}}}, HasCatch: true, CatchIdent: name + "e",
			Catch: []Stmt{observe(&Selector{X: Id(name + "e"), Name: "Message"})}},
		observe(&Call{Fn: Id(other), Args: []Expr{IntLit(41)}}),
		observe(&ArrayLit{Elems: []Expr{&Call{Fn: Id(other), Args: []Expr{IntLit(1)}}, &Call{Fn: &FuncLit{Body: []Stmt{&Return{Xs: []Expr{&Call{Fn: Id(other), Args: []Expr{IntLit(2)}}}}}}}}}),
	}
	return out
}

// closureChainStmt: several closures made from ONE function literal (a factory called with different
// captured values) that call each other - the next instance, not themselves - in tail position, in
// discarded-last position or inside an expression. Instances share their code but not their captured
// variables: a call of another instance is not a self call.
func (g *G) closureChainStmt(name string) []Stmt {
	g.f("closure-instances-tail-call-each-other")
	n := g.intn(2, 4, "chainlen")
	kind := g.pick(3, "chainkind")
	var step Stmt
	next := &Call{Fn: Id("next"), Args: []Expr{&Binary{Op: "-", L: Id("n"), R: IntLit(1)}}}
	switch kind {
	case 0:
		step = &Return{Xs: []Expr{next}} // tail call of another instance
	case 1:
		step = &Return{Xs: []Expr{&ArrayLit{Elems: []Expr{Id("tag"), next}}}} // not a tail call
	default:
		step = &If{Cond: &Binary{Op: "==", L: &Binary{Op: "%", L: Id("n"), R: IntLit(2)}, R: IntLit(0)},
			Then: []Stmt{&Return{Xs: []Expr{next}}}, HasElse: true, Else: []Stmt{&ExprStmt{X: next}, &Return{Xs: []Expr{Id("tag")}}}}
	}
	var pre []Stmt
	if g.cfg.Log {
		pre = append(pre, &ExprStmt{X: g.L(&ArrayLit{Elems: []Expr{Id("tag"), Id("n")}})})
	}
	inner := &FuncLit{Params: []string{"n"}, Body: append(pre,
		&If{Cond: &Binary{Op: "||", L: &Binary{Op: "<=", L: Id("n"), R: IntLit(0)}, R: &Binary{Op: "==", L: Id("next"), R: UndefLit()}}, Then: []Stmt{&Return{Xs: []Expr{Id("tag")}}}},
		step)}
	mk := name + "mk"
	out := []Stmt{
		&VarDecl{Names: []string{name}, Values: []Expr{nil}}, // the generator knows this name: keep it declared
		&Define{Names: []string{mk}, X: &FuncLit{Params: []string{"tag", "next"}, Body: []Stmt{&Return{Xs: []Expr{inner}}}}},
	}
	prev := Expr(UndefLit())
	for i := 0; i < n; i++ {
		inst := fmt.Sprintf("%si%d", name, i)
		out = append(out, &Define{Names: []string{inst}, X: &Call{Fn: Id(mk), Args: []Expr{StrLit(string(rune('a' + i))), prev}}})
		prev = Id(inst)
	}
	last := fmt.Sprintf("%si%d", name, n-1)
	var results []Expr
	for d := 0; d <= n; d++ {
		results = append(results, &Call{Fn: Id(last), Args: []Expr{IntLit(int64(d))}})
	}
	var use Stmt = &ExprStmt{X: &ArrayLit{Elems: results}}
	if g.cfg.Log {
		use = &ExprStmt{X: g.L(&ArrayLit{Elems: results})}
	}
	return append(out, use)
}

// escapeStmt: a closure created inside a block captures block-local variables
// and escapes through an outer variable; the block then ends, its slots are
// re-used by later declarations (or a catch identifier) while the closure lives.
func (g *G) escapeStmt() []Stmt {
	g.f("closure-escapes-block")
	g.uniq++
	gname := fmt.Sprintf("g%d", g.uniq)
	out := []Stmt{&VarDecl{Names: []string{gname}, Values: []Expr{nil}}}
	// the block
	g.push(false)
	var body []Stmt
	nloc := g.intn(1, 3, "esclocals")
	var locals []string
	for i := 0; i < nloc; i++ {
		g.uniq++
		ln := fmt.Sprintf("b%d", g.uniq)
		locals = append(locals, ln)
		body = append(body, &Define{Names: []string{ln}, X: g.intExpr(1)})
		g.declare(&Var{Name: ln, K: KInt})
	}
	var sum Expr = Id(locals[0])
	for _, ln := range locals[1:] {
		sum = &Binary{Op: "+", L: sum, R: Id(ln)}
	}
	fl := &FuncLit{Body: []Stmt{&Return{Xs: []Expr{sum}}}}
	if g.chance(40, "escmutator") {
		// the closure also mutates its captured variable on every call
		fl = &FuncLit{Body: []Stmt{&Assign{Targets: []Expr{Id(locals[0])}, Op: "+=", X: IntLit(1)}, &Return{Xs: []Expr{sum}}}}
	}
	body = append(body, &Assign{Targets: []Expr{Id(gname)}, Op: "=", X: fl})
	if g.chance(50, "escmutateafter") {
		body = append(body, &Assign{Targets: []Expr{Id(locals[0])}, Op: "+=", X: IntLit(10)})
		g.f("assign-captured")
	}
	g.pop()
	switch g.pick(3, "escblock") {
	case 0:
		out = append(out, &If{Cond: BoolLit(true), Then: body})
	case 1:
		g.uniq++
		iv := fmt.Sprintf("i%d", g.uniq)
		out = append(out, &For{Init: &Define{Names: []string{iv}, X: IntLit(0)}, Cond: &Binary{Op: "<", L: Id(iv), R: IntLit(int64(g.intn(1, 3, "esciters")))}, Post: &IncDec{Target: Id(iv), Inc: true}, Body: body})
	default:
		g.uniq++
		out = append(out, &ForIn{Key: "", Value: fmt.Sprintf("fv%d", g.uniq), X: &ArrayLit{Elems: []Expr{IntLit(1), IntLit(2)}}, Body: body})
	}
	// from here on the closure is callable (and keeps its dead block's variables alive)
	g.declare(&Var{Name: gname, K: KFn, NoAssign: true, Sig: &FnSig{NP: 0, Ret: KInt, FnParam: -1}})
	if g.chance(45, "escreuse") {
		// re-use the dead block's slots right away by another declaration form, then call the closure
		g.f("slot-reuse-after-escape")
		call := Expr(&Call{Fn: Id(gname)})
		use := Stmt(&ExprStmt{X: call})
		if g.cfg.Log {
			use = &ExprStmt{X: g.L(call)}
		}
		switch g.pick(4, "escreuseform") {
		case 0:
			if g.cfg.Try {
				g.uniq++
				en := fmt.Sprintf("e%d", g.uniq)
				t := &Try{Body: []Stmt{&Throw{X: g.strLit()}}, HasCatch: true, CatchIdent: en, Catch: []Stmt{use}}
				g.f("try")
				g.f("catch-ident")
				out = append(out, t, use)
				break
			}
			fallthrough
		case 1:
			g.uniq++
			out = append(out, &If{Cond: BoolLit(true), Then: []Stmt{&Define{Names: []string{fmt.Sprintf("r%d", g.uniq)}, X: g.intLit()}, use}}, use)
		case 2:
			g.uniq++
			out = append(out, &ForIn{Key: fmt.Sprintf("k%d", g.uniq), Value: fmt.Sprintf("v%d", g.uniq), X: &ArrayLit{Elems: []Expr{IntLit(40), IntLit(41)}}, Body: []Stmt{use}}, use)
		default:
			g.uniq++
			a, b := fmt.Sprintf("d%d", g.uniq), fmt.Sprintf("dd%d", g.uniq)
			out = append(out, &If{Cond: BoolLit(true), Then: []Stmt{&Define{Names: []string{a, b}, X: &ArrayLit{Elems: []Expr{IntLit(50), IntLit(51)}}}, use}}, use)
		}
	}
	return out
}

// --------------------------------------------------------------- top level

// Generate builds a program for the profile.
func Generate(t *rapid.T, cfg Config) *GenProgram {
	if cfg.MaxStmts == 0 {
		cfg.MaxStmts = 30
	}
	if cfg.MaxDepth == 0 {
		cfg.MaxDepth = 3
	}
	if cfg.MaxFnDepth == 0 {
		cfg.MaxFnDepth = 3
	}
	if cfg.MaxBlock == 0 {
		cfg.MaxBlock = 4
	}
	g := &G{t: t, cfg: cfg, feat: Features{}, budget: cfg.MaxStmts, globalsInit: map[string]Expr{}}
	p := &GenProgram{Features: g.feat, Globals: g.globalsInit}
	p.Modules = map[string][]Stmt{}

	// source modules first (they cannot see the main script)
	for i := 0; i < cfg.Modules; i++ {
		g.usedBuiltins = nil
		name := fmt.Sprintf("m%d", i)
		p.Modules[name] = g.moduleBody(name)
		g.mods = append(g.mods, name)
	}

	g.sc = nil
	g.usedBuiltins = nil
	g.push(true)
	var body []Stmt
	if cfg.Log {
		body = append(body, &GlobalDecl{Names: []string{"L"}})
		g.declare(&Var{Name: "L", K: KFn, Global: true, NoAssign: true})
	}
	if cfg.Params && g.chance(70, "hasparams") {
		pd := &ParamDecl{}
		n := g.intn(1, 3, "nparams")
		for i := 0; i < n; i++ {
			name := g.newName(false)
			if _, dup := g.sc.vars[name]; dup {
				g.uniq++
				name = fmt.Sprintf("p%d", g.uniq)
			}
			pd.Names = append(pd.Names, name)
			if cfg.Shadow && g.lookupShadowName(name) && g.chance(60, "paramshadowfn") {
				// a shadowing param receives a Go function (provided by the check) - kept as KAny here
				g.declare(&Var{Name: name, K: KInt})
				p.Args = append(p.Args, g.intLit())
				g.f("shadow-param-main")
				continue
			}
			k := []Kind{KInt, KStr, KBool}[g.pick(3, "paramkind")]
			g.declare(&Var{Name: name, K: k})
			var lit Expr
			switch k {
			case KInt:
				lit = g.intLit()
			case KStr:
				lit = g.strLit()
			default:
				lit = BoolLit(g.chance(50, "pb"))
			}
			p.Args = append(p.Args, lit)
		}
		if g.chance(25, "variadicparam") {
			pd.Variadic = true
			last := g.lookup(pd.Names[len(pd.Names)-1])
			last.K = KArr
			// extra args
			for i := 0; i < g.intn(0, 2, "extraargs"); i++ {
				p.Args = append(p.Args, g.intLit())
			}
		} else if g.chance(20, "missingarg") && len(p.Args) > 0 {
			p.Args = p.Args[:len(p.Args)-1]
			g.lookup(pd.Names[len(pd.Names)-1]).K = KAny
		}
		body = append(body, pd)
		g.f("param")
	}
	if cfg.Globals && g.chance(70, "hasglobals") {
		gd := &GlobalDecl{}
		n := g.intn(1, 2, "nglobals")
		for i := 0; i < n; i++ {
			name := g.newName(false)
			if _, dup := g.sc.vars[name]; dup {
				continue
			}
			gd.Names = append(gd.Names, name)
			g.declare(&Var{Name: name, K: KInt, Global: true})
			g.globalsInit[name] = g.intLit()
		}
		if len(gd.Names) > 0 {
			body = append(body, gd)
			g.f("global")
		}
	}
	body = append(body, g.stmts(g.intn(1, cfg.MaxStmts, "nstmts"))...)
	if !cfg.NoTopReturnValue && g.chance(85, "topret") {
		g.curFnRet = KAny
		// return a summary of visible non-function variables so state is observed
		vs := g.visible(func(v *Var) bool {
			return v.K != KFn && v.K != KMod && v.K != KNone
		})
		arr := &ArrayLit{}
		for i, v := range vs {
			if i >= 6 {
				break
			}
			arr.Elems = append(arr.Elems, Id(v.Name))
		}
		fns := g.visible(func(v *Var) bool { return v.K == KFn && v.Sig != nil && !v.Sig.Shadow && v.Sig.NP == 0 && v.Sig.Ret != KFn })
		for i, v := range fns {
			if i >= 2 {
				break
			}
			arr.Elems = append(arr.Elems, &Call{Fn: Id(v.Name)})
		}
		body = append(body, &Return{Xs: []Expr{arr}})
	}
	g.pop()
	p.Body = body
	p.UsesL = g.usesL || cfg.Log
	return p
}

func (g *G) lookupShadowName(n string) bool {
	for _, s := range ShadowNames {
		if s == n {
			return true
		}
	}
	return false
}

// moduleBody: a source module exporting {f: func(x) int, v: int, s: string}.
func (g *G) moduleBody(name string) []Stmt {
	g.sc = nil
	g.push(true)
	saved := g.budget
	g.budget = 8
	var body []Stmt
	if g.cfg.Log {
		body = append(body, &GlobalDecl{Names: []string{"L"}})
		g.declare(&Var{Name: "L", K: KFn, Global: true, NoAssign: true})
		body = append(body, &ExprStmt{X: g.L(StrLit("load " + name))})
	}
	// earlier modules may be imported by later ones
	savedMods := g.mods
	body = append(body, g.stmts(g.intn(0, 5, "modstmts"))...)
	g.mods = savedMods
	sig := &FnSig{NP: 1, Ret: KInt, FnParam: -1}
	f := g.funcLit(sig, nil)
	ret := &Return{Xs: []Expr{&MapLit{Keys: []string{"f", "v", "s"}, Elems: []Expr{f, g.intExpr(1), g.strExpr(1)}}}}
	body = append(body, ret)
	g.pop()
	g.budget = saved
	g.f("source-module")
	return body
}
