package ev

import (
	"fmt"
	"os"
	"runtime/metrics"
	"strconv"
	"sync"
	"time"
)

// memGuard ends the test process (exit code 3: an infrastructure problem for the driver, never a
// verdict) when its heap grows beyond a bound no check needs. Without it a generated program that
// doubles a value in a loop takes the whole machine down with it (the sandbox has no per-process
// memory limit; the kernel's global OOM killer then chooses its victims).
var memGuardOnce sync.Once

func startMemGuard() {
	memGuardOnce.Do(func() {
		limit := uint64(4) << 30
		if s := os.Getenv("VERIF_MEM_LIMIT_MB"); s != "" {
			if v, err := strconv.ParseUint(s, 10, 64); err == nil && v > 0 {
				limit = v << 20
			}
		}
		sample := []metrics.Sample{{Name: "/memory/classes/heap/objects:bytes"}}
		go func() {
			for {
				time.Sleep(100 * time.Millisecond)
				metrics.Read(sample)
				if sample[0].Value.Kind() == metrics.KindUint64 && sample[0].Value.Uint64() > limit {
					fmt.Fprintf(os.Stderr, "\nINFRA: memory guard: live heap %d MiB exceeds %d MiB; the process ends itself (inconclusive run)\n",
						sample[0].Value.Uint64()>>20, limit>>20)
					os.Exit(3)
				}
			}
		}()
	})
}
