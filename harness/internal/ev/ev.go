// Package ev collects what a check run actually covered (counters, class
// histogram, distinct non-trivial cases, samples, violations) and writes it as
// JSON for the driver (bin/check), which turns it into evidence/<id>.json and
// the VIOLATION / KNOWN-FINDING lines.
package ev

import (
	"crypto/sha1"
	"encoding/hex"
	"encoding/json"
	"flag"
	"fmt"
	"os"
	"path/filepath"
	"regexp"
	"sort"
	"strconv"
	"sync"
	"testing"
	"time"

	"pgregory.net/rapid"
)

// Violation is one falsifying case.
type Violation struct {
	Sig    string          `json:"sig"`
	What   string          `json:"what"`
	Known  bool            `json:"known"`
	Count  int             `json:"count"`
	Replay string          `json:"replay,omitempty"` // path of the written replay file
	Case   json.RawMessage `json:"case,omitempty"`
}

type knownFinding struct {
	Property string `json:"property"`
	Sig      string `json:"sig"`
	SigRe    string `json:"sig_re"`
	Status   string `json:"status"`
	What     string `json:"what"`
	re       *regexp.Regexp
}

// Rec is the per-run recorder. All methods are safe for concurrent use.
type Rec struct {
	mu sync.Mutex

	Property     string         `json:"property_id"`
	Tier         string         `json:"tier"`
	Seed         int64          `json:"seed"`
	Shard        int            `json:"shard"`
	Shards       int            `json:"shards"`
	Evaluations  int64          `json:"evaluations"`
	Classes      map[string]int `json:"classes"`
	Excluded     map[string]int `json:"excluded"`
	Inconclusive map[string]int `json:"inconclusive"`
	NonTrivial   []string       `json:"nontrivial_hashes"`
	Samples      []any          `json:"samples"`
	Rule         string         `json:"rule"`
	Assumptions  []string       `json:"assumptions"`
	Exhaustive   bool           `json:"exhaustive"`
	Notes        map[string]any `json:"notes"`
	Violations   []*Violation   `json:"violations"`
	WallS        float64        `json:"wall_s"`
	Completed    bool           `json:"completed"`

	nt       map[string]struct{}
	viol     map[string]*Violation
	known    []knownFinding
	out      string
	start    time.Time
	frozen   bool // set once an unknown violation was seen: shrink re-executions are not counted
	maxSamp  int
	replayDr string
}

// Env helpers --------------------------------------------------------------

func envInt(name string, def int64) int64 {
	if v := os.Getenv(name); v != "" {
		if n, err := strconv.ParseInt(v, 10, 64); err == nil {
			return n
		}
	}
	return def
}

// Tier returns "quick" or "thorough".
func Tier() string {
	if os.Getenv("VERIF_TIER") == "thorough" {
		return "thorough"
	}
	return "quick"
}

// Seed returns the effective non-zero seed of this process (shard mixed in).
func Seed() int64 {
	s := envInt("VERIF_SEED", 1)
	sh := envInt("VERIF_SHARD", 0)
	s = s*1000 + sh
	if s == 0 {
		s = 1
	}
	if s < 0 {
		s = -s
	}
	return s
}

// N picks the case count by tier; VERIF_N overrides, VERIF_SCALE multiplies.
func N(quick, thorough int) int {
	if v := envInt("VERIF_N", 0); v > 0 {
		return int(v)
	}
	n := quick
	if Tier() == "thorough" {
		n = thorough
	}
	if sc := envInt("VERIF_SCALE_PCT", 100); sc != 100 {
		n = n * int(sc) / 100
		if n < 1 {
			n = 1
		}
	}
	return n
}

// VerifDir is /verif (or VERIF_DIR).
func VerifDir() string {
	if v := os.Getenv("VERIF_DIR"); v != "" {
		return v
	}
	return "/verif"
}

// New creates the recorder for a property id such as "C01".
func New(prop string) *Rec {
	startMemGuard()
	r := &Rec{
		Property:     prop,
		Tier:         Tier(),
		Seed:         envInt("VERIF_SEED", 1),
		Shard:        int(envInt("VERIF_SHARD", 0)),
		Shards:       int(envInt("VERIF_SHARDS", 1)),
		Classes:      map[string]int{},
		Excluded:     map[string]int{},
		Inconclusive: map[string]int{},
		Notes:        map[string]any{},
		nt:           map[string]struct{}{},
		viol:         map[string]*Violation{},
		out:          os.Getenv("VERIF_OUT"),
		start:        time.Now(),
		maxSamp:      8,
	}
	r.replayDr = filepath.Join(VerifDir(), "replays", prop)
	kf := os.Getenv("VERIF_KNOWN")
	if kf == "" {
		kf = filepath.Join(VerifDir(), "known_findings.json")
	}
	if data, err := os.ReadFile(kf); err == nil {
		var f struct {
			Findings []knownFinding `json:"findings"`
		}
		if err := json.Unmarshal(data, &f); err == nil {
			for _, k := range f.Findings {
				if k.Property != prop || k.Status == "fixed" {
					continue
				}
				if k.SigRe != "" {
					k.re = regexp.MustCompile(k.SigRe)
				}
				r.known = append(r.known, k)
			}
		}
	}
	return r
}

func (r *Rec) isKnown(sig string) bool {
	for _, k := range r.known {
		if k.Sig != "" && k.Sig == sig {
			return true
		}
		if k.re != nil && k.re.MatchString(sig) {
			return true
		}
	}
	return false
}

// Case counts one generated / executed case.
func (r *Rec) Case() {
	r.mu.Lock()
	if !r.frozen {
		r.Evaluations++
	}
	r.mu.Unlock()
}

// Cases counts n executed cases.
func (r *Rec) Cases(n int) {
	r.mu.Lock()
	if !r.frozen {
		r.Evaluations += int64(n)
	}
	r.mu.Unlock()
}

// Class increments a class histogram bucket.
func (r *Rec) Class(name string) {
	r.mu.Lock()
	if !r.frozen {
		r.Classes[name]++
	}
	r.mu.Unlock()
}

// ClassN adds n to a class histogram bucket.
func (r *Rec) ClassN(name string, n int) {
	r.mu.Lock()
	if !r.frozen {
		r.Classes[name] += n
	}
	r.mu.Unlock()
}

// Exclude counts a case / sub-case excluded by construction.
func (r *Rec) Exclude(name string) {
	r.mu.Lock()
	if !r.frozen {
		r.Excluded[name]++
	}
	r.mu.Unlock()
}

// Inconcl counts an inconclusive case (watchdog etc.) - never a violation.
func (r *Rec) Inconcl(name string) {
	r.mu.Lock()
	r.Inconclusive[name]++
	r.mu.Unlock()
}

// NonTriv records a non-trivial case by its distinguishing key (hashed).
func (r *Rec) NonTriv(key string) {
	h := sha1.Sum([]byte(key))
	k := hex.EncodeToString(h[:8])
	r.mu.Lock()
	if !r.frozen {
		r.nt[k] = struct{}{}
	}
	r.mu.Unlock()
}

// Sample keeps up to maxSamp actual cases (first few, then sparse).
func (r *Rec) Sample(v any) {
	r.mu.Lock()
	defer r.mu.Unlock()
	if r.frozen {
		return
	}
	if len(r.Samples) < r.maxSamp {
		r.Samples = append(r.Samples, v)
		return
	}
	// deterministic sparse replacement so samples are not only the first cases
	n := r.Evaluations
	if n > 0 && n&(n-1) == 0 { // powers of two
		r.Samples[int(n)%r.maxSamp] = v
	}
}

// Note stores a free-form diagnostic value in the output.
func (r *Rec) Note(key string, v any) {
	r.mu.Lock()
	r.Notes[key] = v
	r.mu.Unlock()
}

// Violation records a falsifying case with signature sig. It returns true when
// the signature is a listed known finding (the caller then continues the
// search instead of failing the property).
func (r *Rec) Violation(sig, what string, c any) (known bool) {
	raw, _ := json.Marshal(c)
	r.mu.Lock()
	defer r.mu.Unlock()
	known = r.isKnown(sig)
	v := r.viol[sig]
	if v == nil {
		v = &Violation{Sig: sig, What: what, Known: known, Case: raw}
		r.viol[sig] = v
		r.Violations = append(r.Violations, v)
	} else if len(raw) <= len(v.Case) || len(v.Case) == 0 {
		v.Case = raw
		v.What = what
	}
	v.Count++
	if !known {
		r.frozen = true
	}
	return known
}

// HasUnknown reports whether an unlisted violation was recorded.
func (r *Rec) HasUnknown() bool {
	r.mu.Lock()
	defer r.mu.Unlock()
	for _, v := range r.Violations {
		if !v.Known {
			return true
		}
	}
	return false
}

// Unfreeze allows counting again (used between independent sub-checks).
func (r *Rec) Unfreeze() {
	r.mu.Lock()
	r.frozen = false
	r.mu.Unlock()
}

// Flush writes replay files for unknown violations and the JSON result.
func (r *Rec) Flush(completed bool) {
	r.mu.Lock()
	defer r.mu.Unlock()
	r.Completed = completed
	r.WallS = time.Since(r.start).Seconds()
	r.NonTrivial = r.NonTrivial[:0]
	for k := range r.nt {
		r.NonTrivial = append(r.NonTrivial, k)
	}
	sort.Strings(r.NonTrivial)
	for _, v := range r.Violations {
		if v.Known || v.Replay != "" {
			continue
		}
		h := sha1.Sum(append([]byte(v.Sig), v.Case...))
		_ = os.MkdirAll(r.replayDr, 0o755)
		p := filepath.Join(r.replayDr, "found-"+hex.EncodeToString(h[:6])+".json")
		data, _ := json.MarshalIndent(map[string]any{
			"property": r.Property, "sig": v.Sig, "what": v.What, "case": v.Case,
			"seed": r.Seed, "tier": r.Tier,
		}, "", " ")
		if err := os.WriteFile(p, data, 0o644); err == nil {
			v.Replay = p
		}
	}
	if r.out == "" {
		return
	}
	data, err := json.MarshalIndent(r, "", " ")
	if err != nil {
		fmt.Fprintln(os.Stderr, "ev: marshal:", err)
		return
	}
	if err := os.WriteFile(r.out, data, 0o644); err != nil {
		fmt.Fprintln(os.Stderr, "ev: write:", err)
	}
}

// ReplayFile is a stored regression / replay input.
type ReplayFile struct {
	Path string
	Sig  string          `json:"sig"`
	What string          `json:"what"`
	Case json.RawMessage `json:"case"`
}

// Replays lists the committed replay files of this property (found-* files
// written by earlier runs are skipped unless VERIF_REPLAY names one).
func (r *Rec) Replays() []ReplayFile {
	var out []ReplayFile
	if p := os.Getenv("VERIF_REPLAY"); p != "" {
		if rf, ok := loadReplay(p); ok {
			out = append(out, rf)
		}
		return out
	}
	files, _ := filepath.Glob(filepath.Join(r.replayDr, "*.json"))
	sort.Strings(files)
	for _, f := range files {
		if b := filepath.Base(f); len(b) > 6 && b[:6] == "found-" {
			continue
		}
		if rf, ok := loadReplay(f); ok {
			out = append(out, rf)
		}
	}
	return out
}

// ReplayOnly reports whether the run should only execute VERIF_REPLAY.
func ReplayOnly() bool { return os.Getenv("VERIF_REPLAY") != "" }

func loadReplay(p string) (ReplayFile, bool) {
	data, err := os.ReadFile(p)
	if err != nil {
		return ReplayFile{}, false
	}
	var rf ReplayFile
	if json.Unmarshal(data, &rf) != nil {
		return ReplayFile{}, false
	}
	rf.Path = p
	return rf, true
}

// RapidCheck runs prop under rapid with n cases and the run's seed inside a
// sub-test, so that one failing property does not stop the other sub-checks.
// salt decorrelates several rapid properties of one check.
func RapidCheck(t *testing.T, name string, n int, salt int64, prop func(*rapid.T)) bool {
	_ = flag.Set("rapid.checks", strconv.Itoa(n))
	_ = flag.Set("rapid.seed", strconv.FormatInt(Seed()*31+salt+1, 10))
	_ = flag.Set("rapid.nofailfile", "true")
	if os.Getenv("VERIF_SHRINKTIME") != "" {
		_ = flag.Set("rapid.shrinktime", os.Getenv("VERIF_SHRINKTIME"))
	}
	return t.Run(name, func(t *testing.T) {
		rapid.Check(t, prop)
	})
}

// Absorb merges the JSON result written by another recorder (a worker
// subprocess of the same check) into r.
func (r *Rec) Absorb(path string) error {
	data, err := os.ReadFile(path)
	if err != nil {
		return err
	}
	var o struct {
		Evaluations  int64          `json:"evaluations"`
		Classes      map[string]int `json:"classes"`
		Excluded     map[string]int `json:"excluded"`
		Inconclusive map[string]int `json:"inconclusive"`
		NonTrivial   []string       `json:"nontrivial_hashes"`
		Samples      []any          `json:"samples"`
		Notes        map[string]any `json:"notes"`
		Violations   []*Violation   `json:"violations"`
		Completed    bool           `json:"completed"`
	}
	if err := json.Unmarshal(data, &o); err != nil {
		return err
	}
	r.mu.Lock()
	defer r.mu.Unlock()
	r.Evaluations += o.Evaluations
	for k, v := range o.Classes {
		r.Classes[k] += v
	}
	for k, v := range o.Excluded {
		r.Excluded[k] += v
	}
	for k, v := range o.Inconclusive {
		r.Inconclusive[k] += v
	}
	for _, h := range o.NonTrivial {
		r.nt[h] = struct{}{}
	}
	for _, s := range o.Samples {
		if len(r.Samples) < r.maxSamp {
			r.Samples = append(r.Samples, s)
		}
	}
	for k, v := range o.Notes {
		r.Notes[k] = v
	}
	for _, v := range o.Violations {
		if cur := r.viol[v.Sig]; cur != nil {
			cur.Count += v.Count
			continue
		}
		r.viol[v.Sig] = v
		r.Violations = append(r.Violations, v)
	}
	if !o.Completed {
		return fmt.Errorf("worker result %s is not complete", path)
	}
	return nil
}
