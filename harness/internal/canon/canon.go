// Package canon produces canonical, order independent, type tagged dumps of
// uGO values, run outcomes and bytecode.
package canon

import (
	"fmt"
	"math"
	"sort"
	"strconv"
	"strings"

	"github.com/ozanh/ugo"
)

// Value dumps an object: map keys sorted, NaN == NaN, -0 distinct from +0,
// functions opaque, errors as Name/Message.
func Value(o ugo.Object) string {
	var sb strings.Builder
	value(&sb, o, 0)
	return sb.String()
}

func fl(f float64) string {
	switch {
	case math.IsNaN(f):
		return "NaN"
	case f == 0 && math.Signbit(f):
		return "-0"
	}
	return strconv.FormatFloat(f, 'g', -1, 64)
}

func value(sb *strings.Builder, o ugo.Object, depth int) {
	if depth > 64 {
		sb.WriteString("<deep>")
		return
	}
	switch v := o.(type) {
	case nil:
		sb.WriteString("<nil>")
	case ugo.Int:
		fmt.Fprintf(sb, "i%d", int64(v))
	case ugo.Uint:
		fmt.Fprintf(sb, "u%d", uint64(v))
	case ugo.Float:
		sb.WriteString("f" + fl(float64(v)))
	case ugo.Bool:
		if v {
			sb.WriteString("true")
		} else {
			sb.WriteString("false")
		}
	case ugo.Char:
		fmt.Fprintf(sb, "c%d", int32(v))
	case ugo.String:
		sb.WriteString("s" + strconv.Quote(string(v)))
	case ugo.Bytes:
		fmt.Fprintf(sb, "b%x.", []byte(v))
	case *ugo.UndefinedType:
		sb.WriteString("undef")
	case ugo.Array:
		sb.WriteByte('[')
		for i, e := range v {
			if i > 0 {
				sb.WriteByte(',')
			}
			value(sb, e, depth+1)
		}
		sb.WriteByte(']')
	case ugo.Map:
		mapv(sb, v, depth)
	case *ugo.SyncMap:
		sb.WriteString("sync")
		if v == nil {
			sb.WriteString("{}")
			return
		}
		mapv(sb, v.Value, depth)
	case *ugo.ObjectPtr:
		sb.WriteString("&")
		if v.Value != nil {
			value(sb, *v.Value, depth+1)
		}
	case *ugo.RuntimeError:
		sb.WriteString("rterr(")
		if v.Err != nil {
			sb.WriteString(strconv.Quote(v.Err.Name) + "," + strconv.Quote(v.Err.Message))
		}
		sb.WriteByte(')')
	case *ugo.Error:
		sb.WriteString("err(" + strconv.Quote(v.Name) + "," + strconv.Quote(v.Message) + ")")
	case *ugo.CompiledFunction:
		sb.WriteString("<fn>")
	case *ugo.Function:
		sb.WriteString("<gofn " + v.Name + ">")
	case *ugo.BuiltinFunction:
		sb.WriteString("<builtin " + v.Name + ">")
	default:
		if o.CanCall() {
			sb.WriteString("<fn>")
			return
		}
		fmt.Fprintf(sb, "<%s %s>", o.TypeName(), o.String())
	}
}

func mapv(sb *strings.Builder, m map[string]ugo.Object, depth int) {
	keys := make([]string, 0, len(m))
	for k := range m {
		keys = append(keys, k)
	}
	sort.Strings(keys)
	sb.WriteByte('{')
	for i, k := range keys {
		if i > 0 {
			sb.WriteByte(',')
		}
		sb.WriteString(strconv.Quote(k))
		sb.WriteByte(':')
		value(sb, m[k], depth+1)
	}
	sb.WriteByte('}')
}

// ErrName extracts Name and Message of an error returned by VM.Run.
func ErrName(err error) (name, msg string) {
	switch e := err.(type) {
	case nil:
		return "", ""
	case *ugo.RuntimeError:
		if e.Err != nil {
			return e.Err.Name, e.Err.Message
		}
		return "RuntimeError", ""
	case *ugo.Error:
		return e.Name, e.Message
	}
	s := err.Error()
	if i := strings.Index(s, "\nGo Stack:"); i >= 0 {
		s = s[:i]
	}
	return "goerror", s
}

// Bytecode dumps a program structurally (instructions, params, locals,
// sorted source maps, constants) - independent of encoder byte order.
func Bytecode(bc *ugo.Bytecode) string {
	var sb strings.Builder
	if bc == nil {
		return "<nil bytecode>"
	}
	fmt.Fprintf(&sb, "modules=%d\n", bc.NumModules)
	sb.WriteString("main:\n")
	fn(&sb, bc.Main, 0)
	for i, c := range bc.Constants {
		fmt.Fprintf(&sb, "const %d: ", i)
		constant(&sb, c, 0)
		sb.WriteByte('\n')
	}
	if bc.FileSet != nil {
		fmt.Fprintf(&sb, "fileset base=%d files=%d\n", bc.FileSet.Base, len(bc.FileSet.Files))
		for _, f := range bc.FileSet.Files {
			fmt.Fprintf(&sb, " file %q base=%d size=%d lines=%v\n", f.Name, f.Base, f.Size, f.Lines)
		}
	}
	return sb.String()
}

func constant(sb *strings.Builder, c ugo.Object, depth int) {
	switch v := c.(type) {
	case *ugo.CompiledFunction:
		sb.WriteString("fn{\n")
		fn(sb, v, depth+1)
		sb.WriteString("}")
	case ugo.Map:
		keys := make([]string, 0, len(v))
		for k := range v {
			keys = append(keys, k)
		}
		sort.Strings(keys)
		sb.WriteByte('{')
		for i, k := range keys {
			if i > 0 {
				sb.WriteByte(',')
			}
			sb.WriteString(strconv.Quote(k) + ":")
			constant(sb, v[k], depth+1)
		}
		sb.WriteByte('}')
	case ugo.Array:
		sb.WriteByte('[')
		for i, e := range v {
			if i > 0 {
				sb.WriteByte(',')
			}
			constant(sb, e, depth+1)
		}
		sb.WriteByte(']')
	default:
		sb.WriteString(Value(c))
	}
}

func fn(sb *strings.Builder, f *ugo.CompiledFunction, depth int) {
	if f == nil {
		sb.WriteString("<nil fn>\n")
		return
	}
	fmt.Fprintf(sb, " params=%d locals=%d variadic=%v\n", f.NumParams, f.NumLocals, f.Variadic)
	ugo.IterateInstructions(f.Instructions, func(pos int, op ugo.Opcode, operands []int, offset int) bool {
		fmt.Fprintf(sb, " %04d %s %v\n", pos, ugo.OpcodeNames[op], operands)
		return true
	})
	keys := make([]int, 0, len(f.SourceMap))
	for k := range f.SourceMap {
		keys = append(keys, k)
	}
	sort.Ints(keys)
	sb.WriteString(" srcmap:")
	for _, k := range keys {
		fmt.Fprintf(sb, " %d:%d", k, f.SourceMap[k])
	}
	sb.WriteByte('\n')
}
