// Package run has compile+run helpers with panic capture, output capture and
// an abort watchdog, and the Outcome type all differential checks compare.
package run

import (
	"bytes"
	"fmt"
	"strings"
	"sync"
	"time"

	"github.com/ozanh/ugo"

	"verif/internal/canon"
)

// Outcome of one execution. Zero values mean "absent".
type Outcome struct {
	Value    string   `json:"value,omitempty"`    // canonical dump of the returned value
	ErrName  string   `json:"err_name,omitempty"` // uncaught runtime error
	ErrMsg   string   `json:"err_msg,omitempty"`
	Panic    string   `json:"panic,omitempty"` // a Go panic escaped (first line)
	Output   string   `json:"output,omitempty"`
	Globals  string   `json:"globals,omitempty"`
	Log      []string `json:"log,omitempty"`
	TimedOut bool     `json:"timed_out,omitempty"`
	Trace    []string `json:"trace,omitempty"` // file:line:col of the stack trace
	IsErr    bool     `json:"is_err,omitempty"`
	// ArgsAfter: canonical dump of the host's argument slice after the run (set by prog.RunVM / RunRef):
	// packing arguments into a variadic parameter makes a new array, the host's slice is not the script's
	ArgsAfter string `json:"args_after,omitempty"`
}

// Equal compares everything except Trace (compared by the checks that want it).
func (o Outcome) Equal(p Outcome) bool { return o.Diff(p, true) == "" }

// Diff describes the first difference ("" = equal). withMsg: compare error messages too.
func (o Outcome) Diff(p Outcome, withMsg bool) string {
	switch {
	case o.TimedOut || p.TimedOut:
		if o.TimedOut != p.TimedOut {
			return "one side timed out"
		}
		return ""
	case o.Panic != p.Panic:
		return fmt.Sprintf("panic %q vs %q", o.Panic, p.Panic)
	case o.IsErr != p.IsErr:
		return fmt.Sprintf("error-ness differs: [%s %s %q] vs [%s %s %q]", o.Value, o.ErrName, o.ErrMsg, p.Value, p.ErrName, p.ErrMsg)
	case o.ErrName != p.ErrName:
		return fmt.Sprintf("error name %q (%q) vs %q (%q)", o.ErrName, o.ErrMsg, p.ErrName, p.ErrMsg)
	case withMsg && o.ErrMsg != p.ErrMsg:
		return fmt.Sprintf("error message %q vs %q (name %s)", o.ErrMsg, p.ErrMsg, o.ErrName)
	case o.Value != p.Value:
		return fmt.Sprintf("value %s vs %s", o.Value, p.Value)
	case o.Output != p.Output:
		return fmt.Sprintf("output %q vs %q", o.Output, p.Output)
	case o.Globals != p.Globals:
		return fmt.Sprintf("globals %s vs %s", o.Globals, p.Globals)
	case strings.Join(o.Log, "\x00") != strings.Join(p.Log, "\x00"):
		return fmt.Sprintf("log %v vs %v", o.Log, p.Log)
	case o.ArgsAfter != "" && p.ArgsAfter != "" && o.ArgsAfter != p.ArgsAfter:
		return fmt.Sprintf("globals-like: the host's argument slice after the run is %s vs %s", o.ArgsAfter, p.ArgsAfter)
	}
	return ""
}

func (o Outcome) String() string {
	var sb strings.Builder
	switch {
	case o.TimedOut:
		sb.WriteString("TIMEOUT")
	case o.Panic != "":
		sb.WriteString("PANIC " + o.Panic)
	case o.IsErr:
		fmt.Fprintf(&sb, "ERROR %s: %q", o.ErrName, o.ErrMsg)
	default:
		sb.WriteString("VALUE " + o.Value)
	}
	if o.Output != "" {
		fmt.Fprintf(&sb, " output=%q", o.Output)
	}
	if o.Globals != "" && o.Globals != "{}" {
		sb.WriteString(" globals=" + o.Globals)
	}
	if len(o.Log) > 0 {
		fmt.Fprintf(&sb, " log=%v", o.Log)
	}
	return sb.String()
}

// Logger provides the Go function `L` injected as a global: returns its
// argument and appends a canonical dump of it to the log.
type Logger struct {
	mu  sync.Mutex
	Log []string
	// Plain: the global L is an embedder-defined callable object that implements only Object.Call (not
	// CallEx), which the VM calls through its plain object-call path.
	Plain bool
}

// PlainCallable is a callable Object that is not an ExCallerObject.
type PlainCallable struct {
	ugo.ObjectImpl
	F func(args ...ugo.Object) (ugo.Object, error)
}

func (*PlainCallable) TypeName() string { return "plainCallable" }
func (*PlainCallable) String() string   { return "<plainCallable>" }
func (*PlainCallable) IsFalsy() bool    { return false }
func (*PlainCallable) CanCall() bool    { return true }
func (p *PlainCallable) Call(args ...ugo.Object) (ugo.Object, error) {
	return p.F(args...)
}

// Callable returns the object bound to the global L.
func (l *Logger) Callable() ugo.Object {
	if l.Plain {
		return &PlainCallable{F: l.Func().Value}
	}
	return l.Func()
}

func (l *Logger) Func() *ugo.Function {
	return &ugo.Function{Name: "L", Value: func(args ...ugo.Object) (ugo.Object, error) {
		l.mu.Lock()
		defer l.mu.Unlock()
		if len(args) == 0 {
			l.Log = append(l.Log, "<none>")
			return ugo.Undefined, nil
		}
		if len(l.Log) < 5000 {
			l.Log = append(l.Log, canon.Value(args[0]))
		}
		return args[0], nil
	}}
}

// Globals builds a fresh globals map: a deep copy of base plus L.
func Globals(base ugo.Map, lg *Logger) ugo.Map {
	g := ugo.Map{}
	if base != nil {
		g = base.Copy().(ugo.Map)
	}
	if lg != nil {
		g["L"] = lg.Callable()
	}
	return g
}

func dumpGlobals(g ugo.Map) string {
	c := make(ugo.Map, len(g))
	for k, v := range g {
		if k == "L" {
			continue
		}
		c[k] = v
	}
	return canon.Value(c)
}

var printMu sync.Mutex

// Opts for Exec.
type Opts struct {
	Recover  bool
	Timeout  time.Duration // 0 = 3s
	Capture  bool          // capture ugo.PrintWriter (serialises runs)
	WantLoc  bool          // fill Trace
	Discard  bool          // set PrintWriter to discard (concurrent runs)
	KeepVM   func(vm *ugo.VM)
}

// FirstLine trims Go stacks from panic / error text.
func FirstLine(s string) string {
	if i := strings.Index(s, "\nGo Stack:"); i >= 0 {
		s = s[:i]
	}
	if i := strings.Index(s, "\n"); i >= 0 {
		s = s[:i]
	}
	return s
}

// Exec runs bc on a fresh VM with the given globals (used as is) and args.
func Exec(bc *ugo.Bytecode, globals ugo.Map, lg *Logger, args []ugo.Object, o Opts) Outcome {
	vm := ugo.NewVM(bc)
	if o.Recover {
		vm.SetRecover(true)
	}
	if o.KeepVM != nil {
		o.KeepVM(vm)
	}
	return ExecVM(vm, globals, lg, args, o)
}

// ExecVM runs the VM's current bytecode.
func ExecVM(vm *ugo.VM, globals ugo.Map, lg *Logger, args []ugo.Object, o Opts) Outcome {
	var out Outcome
	var buf bytes.Buffer
	if o.Capture {
		printMu.Lock()
		defer printMu.Unlock()
		old := ugo.PrintWriter
		ugo.PrintWriter = &buf
		defer func() { ugo.PrintWriter = old }()
	}
	timeout := o.Timeout
	if timeout == 0 {
		timeout = 3 * time.Second
	}
	type res struct {
		v   ugo.Object
		err error
		pan string
	}
	ch := make(chan res, 1)
	go func() {
		var r res
		defer func() {
			if p := recover(); p != nil {
				r.pan = FirstLine(fmt.Sprint(p))
				if r.pan == "" {
					r.pan = "panic"
				}
			}
			ch <- r
		}()
		var g ugo.Object
		if globals != nil {
			g = globals
		}
		r.v, r.err = vm.Run(g, args...)
	}()
	var r res
	select {
	case r = <-ch:
	case <-time.After(timeout):
		vm.Abort()
		select {
		case <-ch:
		case <-time.After(10 * time.Second):
		}
		out.TimedOut = true
		return out
	}
	out.Output = buf.String()
	if lg != nil {
		lg.mu.Lock()
		out.Log = append([]string{}, lg.Log...)
		lg.mu.Unlock()
	}
	if globals != nil {
		out.Globals = dumpGlobals(globals)
	}
	switch {
	case r.pan != "":
		out.Panic = r.pan
	case r.err != nil:
		out.IsErr = true
		out.ErrName, out.ErrMsg = canon.ErrName(r.err)
		if o.WantLoc {
			if re, ok := r.err.(*ugo.RuntimeError); ok {
				for _, p := range re.StackTrace() {
					out.Trace = append(out.Trace, fmt.Sprintf("%s:%d:%d", p.Filename, p.Line, p.Column))
				}
			}
		}
	default:
		out.Value = canon.Value(r.v)
	}
	return out
}

// Compile wraps ugo.Compile catching panics. panicText != "" means Compile panicked.
func Compile(src string, opts ugo.CompilerOptions) (bc *ugo.Bytecode, err error, panicText string) {
	defer func() {
		if p := recover(); p != nil {
			panicText = FirstLine(fmt.Sprint(p))
			if panicText == "" {
				panicText = "panic"
			}
		}
	}()
	bc, err = ugo.Compile([]byte(src), opts)
	return
}
