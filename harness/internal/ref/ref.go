// Package ref is a tree-walking reference interpreter of the harness' own AST
// (package gen) implementing the *documented* source-level semantics of uGO:
// lexical block scoping with one fresh cell per executed declaration, closures
// capturing cells, left-to-right evaluation with the right-hand side of an
// assignment before its target, ECMAScript-style completion records for
// try/catch/finally, parameter binding (fixed/variadic/spread), destructuring,
// const/iota, modules executed once per run. It shares no code with the uGO
// parser, optimizer, compiler, symbol table, VM or encoder. Value-level
// operations (BinaryOp, Equal, IsFalsy, IndexGet/IndexSet, Iterate, builtin
// function bodies) are delegated to uGO's Object methods - they are decided
// independently by C15/C19.
package ref

import (
	"errors"
	"fmt"

	"github.com/ozanh/ugo"
	"github.com/ozanh/ugo/token"

	"verif/internal/gen"
)

type cell struct{ v ugo.Object }

type binding struct {
	c       *cell
	global  bool
	isConst bool
}

// env is one lexical scope. Name resolution is static: a declaration is
// visible only to code that follows it in the text, so every declaration
// pushes a node on a persistent list and a closure captures the list head at
// the moment the function literal is evaluated (a later declaration in the
// same scope is invisible to it, exactly like `f := func(){ f() }` is illegal).
type node struct {
	name string
	b    *binding
	next *node
}

type env struct {
	head *node
	own  map[string]bool // names declared in this scope level
}

func newEnv(parent *env) *env {
	e := &env{own: map[string]bool{}}
	if parent != nil {
		e.head = parent.head
	}
	return e
}

// snapshot freezes what is visible now (for closures).
func (e *env) snapshot() *env { return &env{head: e.head, own: map[string]bool{}} }

func (e *env) lookup(name string) *binding {
	for n := e.head; n != nil; n = n.next {
		if n.name == name {
			return n.b
		}
	}
	return nil
}

func (e *env) bind(name string, b *binding) {
	e.head = &node{name: name, b: b, next: e.head}
	e.own[name] = true
}

func (e *env) define(name string, v ugo.Object, isConst bool) {
	if name == "_" {
		return
	}
	e.bind(name, &binding{c: &cell{v: v}, isConst: isConst})
}

// Closure is a function value of the reference interpreter.
type Closure struct {
	ugo.ObjectImpl
	Fn  *gen.FuncLit
	Env *env
	in  *Interp
}

func (*Closure) TypeName() string { return "compiledFunction" }
func (*Closure) String() string   { return "<compiledFunction>" }
func (*Closure) IsFalsy() bool    { return false }
func (*Closure) CanCall() bool    { return true }
func (c *Closure) Equal(o ugo.Object) bool {
	x, ok := o.(*Closure)
	return ok && x == c
}
func (c *Closure) Copy() ugo.Object { return c }

// Call lets Go code (builtins) invoke a reference closure.
func (c *Closure) Call(args ...ugo.Object) (ret ugo.Object, err error) {
	defer func() {
		if r := recover(); r != nil {
			if t, ok := r.(thrown); ok {
				ret, err = nil, t.err
				return
			}
			panic(r)
		}
	}()
	return c.in.callClosure(c, args), nil
}

type thrown struct{ err *ugo.RuntimeError }

// ErrBudget is returned when the step budget is exhausted (harness safety net).
var ErrBudget = errors.New("ref: step budget exhausted")

// ErrValuePanic: a delegated uGO value operation panicked.
var ErrValuePanic = errors.New("ref: delegated value operation panicked")

type budgetSig struct{}

type ctrl int

const (
	cNormal ctrl = iota
	cReturn
	cBreak
	cContinue
)

// Interp is one run of a program.
type Interp struct {
	Globals        ugo.Object
	Modules        map[string][]gen.Stmt // source modules
	BuiltinModules map[string]ugo.Object // already-copied per-run values
	Disabled       map[string]bool       // disabled builtin names (unused names resolve to nothing)
	MaxSteps       int
	MaxDepth       int

	steps    int
	depth    int
	modCache map[string]ugo.Object
	iota     int64
	hasIota  bool
}

// Result of a run.
type Result struct {
	Value ugo.Object
	Err   *ugo.RuntimeError // uncaught error
	Abort error             // budget exhausted / internal
}

// Run executes a main script with arguments.
func (in *Interp) Run(body []gen.Stmt, args []ugo.Object) (res Result) {
	if in.MaxSteps == 0 {
		in.MaxSteps = 2_000_000
	}
	if in.MaxDepth == 0 {
		in.MaxDepth = 20000
	}
	if in.Globals == nil {
		in.Globals = ugo.Map{}
	}
	in.modCache = map[string]ugo.Object{}
	defer func() {
		if r := recover(); r != nil {
			switch t := r.(type) {
			case thrown:
				res = Result{Err: t.err}
			case budgetSig:
				res = Result{Abort: ErrBudget}
			default:
				if _, isRuntime := r.(interface{ RuntimeError() }); isRuntime {
					// a Go runtime panic inside a delegated value-level operation (uGO's
					// BinaryOp etc.): that is C15/C19's subject, not this model's
					res = Result{Abort: fmt.Errorf("%w: %v", ErrValuePanic, r)}
					return
				}
				panic(r)
			}
		}
	}()
	e := newEnv(nil)
	k, v := in.execMain(body, e, args)
	if k == cReturn {
		return Result{Value: v}
	}
	return Result{Value: ugo.Undefined}
}

func (in *Interp) tick() {
	in.steps++
	if in.steps > in.MaxSteps {
		panic(budgetSig{})
	}
}

// execMain runs a main script or module body: top-level statements live
// directly in the function scope; `param` binds args.
func (in *Interp) execMain(body []gen.Stmt, e *env, args []ugo.Object) (ctrl, ugo.Object) {
	for _, s := range body {
		if p, ok := s.(*gen.ParamDecl); ok {
			in.bindParams(e, p.Names, p.Variadic, args, true)
			continue
		}
		if k, v := in.exec(s, e); k != cNormal {
			return k, v
		}
	}
	return cNormal, nil
}

func (in *Interp) throwErr(err error) {
	switch e := err.(type) {
	case *ugo.RuntimeError:
		panic(thrown{e})
	case *ugo.Error:
		panic(thrown{&ugo.RuntimeError{Err: e}})
	}
	if o, ok := err.(ugo.Object); ok {
		in.throwObj(o)
	}
	panic(thrown{&ugo.RuntimeError{Err: &ugo.Error{Message: err.Error(), Cause: err}}})
}

func (in *Interp) throwObj(o ugo.Object) {
	switch v := o.(type) {
	case *ugo.RuntimeError:
		panic(thrown{v})
	case *ugo.Error:
		panic(thrown{&ugo.RuntimeError{Err: v}})
	}
	panic(thrown{&ugo.RuntimeError{Err: &ugo.Error{Message: o.String()}}})
}

// bindParams implements parameter binding. lenient: main-script `param`
// (missing -> undefined, extra ignored); otherwise the documented arity errors
// were already checked by the caller.
func (in *Interp) bindParams(e *env, names []string, variadic bool, args []ugo.Object, lenient bool) {
	n := len(names)
	for i, name := range names {
		var v ugo.Object = ugo.Undefined
		if variadic && i == n-1 {
			rest := ugo.Array{}
			if len(args) > i {
				rest = append(rest, args[i:]...)
			}
			v = rest
		} else if i < len(args) {
			v = args[i]
		}
		e.define(name, v, false)
	}
}

func (in *Interp) callClosure(c *Closure, args []ugo.Object) ugo.Object {
	in.tick()
	in.depth++
	if in.depth > in.MaxDepth {
		panic(budgetSig{})
	}
	defer func() { in.depth-- }()
	fe := newEnv(c.Env)
	in.bindParams(fe, c.Fn.Params, c.Fn.Variadic, args, false)
	be := newEnv(fe) // the body is a block inside the function scope
	k, v := in.execBlockIn(c.Fn.Body, be)
	if k == cReturn {
		return v
	}
	return ugo.Undefined
}

// checkArity implements the documented call rules for compiled functions.
func (in *Interp) checkArity(c *Closure, nargs int) {
	np := len(c.Fn.Params)
	if !c.Fn.Variadic {
		if nargs != np {
			in.throwErr(ugo.ErrWrongNumArguments.NewError(fmt.Sprintf("want=%d got=%d", np, nargs)))
		}
		return
	}
	if nargs < np-1 {
		in.throwErr(ugo.ErrWrongNumArguments.NewError(fmt.Sprintf("want>=%d got=%d", np-1, nargs)))
	}
}

func (in *Interp) execBlockIn(stmts []gen.Stmt, e *env) (ctrl, ugo.Object) {
	for _, s := range stmts {
		if k, v := in.exec(s, e); k != cNormal {
			return k, v
		}
	}
	return cNormal, nil
}

func (in *Interp) execBlock(stmts []gen.Stmt, e *env) (ctrl, ugo.Object) {
	return in.execBlockIn(stmts, newEnv(e))
}

func (in *Interp) exec(s gen.Stmt, e *env) (ctrl, ugo.Object) {
	in.tick()
	switch s := s.(type) {
	case *gen.Define:
		if len(s.Names) == 1 {
			v := in.eval(s.X, e)
			e.define(s.Names[0], v, false)
			return cNormal, nil
		}
		arr := makeArray(len(s.Names), in.eval(s.X, e))
		for i, n := range s.Names {
			e.define(n, arr[i], false)
		}
	case *gen.VarDecl:
		for i, n := range s.Names {
			var v ugo.Object = ugo.Undefined
			if s.Values[i] != nil {
				v = in.eval(s.Values[i], e)
			}
			e.define(n, v, false)
		}
	case *gen.ConstDecl:
		var last gen.Expr
		savedIota, savedHas := in.iota, in.hasIota
		for i, n := range s.Names {
			x := s.Values[i]
			if x == nil {
				x = last
			} else {
				last = x
			}
			in.iota, in.hasIota = int64(i), true
			var v ugo.Object = ugo.Undefined
			if x != nil {
				v = in.eval(x, e)
			}
			e.define(n, v, true)
		}
		in.iota, in.hasIota = savedIota, savedHas
	case *gen.ParamDecl:
		// only meaningful at top level (handled by execMain)
	case *gen.GlobalDecl:
		for _, n := range s.Names {
			e.bind(n, &binding{global: true})
		}
	case *gen.Assign:
		in.assign(s, e)
	case *gen.IncDec:
		one := ugo.Int(1)
		tok := token.Add
		if !s.Inc {
			tok = token.Sub
		}
		cur := in.eval(s.Target, e)
		nv, err := cur.BinaryOp(tok, one)
		if err != nil {
			in.throwErr(err)
		}
		in.store(s.Target, nv, e)
	case *gen.ExprStmt:
		in.eval(s.X, e)
	case *gen.If:
		ie := newEnv(e)
		if s.Init != nil {
			if k, v := in.exec(s.Init, ie); k != cNormal {
				return k, v
			}
		}
		if !in.eval(s.Cond, ie).IsFalsy() {
			return in.execBlock(s.Then, ie)
		}
		if len(s.Else) == 1 {
			if ei, ok := s.Else[0].(*gen.If); ok {
				return in.exec(ei, ie)
			}
		}
		if s.Else != nil {
			return in.execBlock(s.Else, ie)
		}
	case *gen.For:
		fe := newEnv(e)
		if s.Init != nil {
			in.exec(s.Init, fe)
		}
		for {
			in.tick()
			if s.Cond != nil && in.eval(s.Cond, fe).IsFalsy() {
				break
			}
			k, v := in.execBlock(s.Body, fe)
			if k == cBreak {
				break
			}
			if k == cReturn {
				return k, v
			}
			if s.Post != nil {
				in.exec(s.Post, fe)
			}
		}
	case *gen.ForIn:
		x := in.eval(s.X, e)
		if !x.CanIterate() {
			in.throwErr(ugo.ErrNotIterable.NewError(x.TypeName()))
		}
		it := x.Iterate()
		for it.Next() {
			in.tick()
			fe := newEnv(e) // fresh key/value variables per iteration
			if s.Key != "" {
				fe.define(s.Key, it.Key(), false)
			}
			fe.define(s.Value, it.Value(), false)
			k, v := in.execBlock(s.Body, fe)
			if k == cBreak {
				break
			}
			if k == cReturn {
				return k, v
			}
		}
	case *gen.Break:
		return cBreak, nil
	case *gen.Continue:
		return cContinue, nil
	case *gen.Return:
		switch len(s.Xs) {
		case 0:
			return cReturn, ugo.Undefined
		case 1:
			return cReturn, in.eval(s.Xs[0], e)
		}
		arr := make(ugo.Array, 0, len(s.Xs))
		for _, x := range s.Xs {
			arr = append(arr, in.eval(x, e))
		}
		return cReturn, arr
	case *gen.Throw:
		in.throwObj(in.eval(s.X, e))
	case *gen.Try:
		return in.execTry(s, e)
	default:
		panic(fmt.Sprintf("ref: unknown stmt %T", s))
	}
	return cNormal, nil
}

type outcome struct {
	k   ctrl
	v   ugo.Object
	err *ugo.RuntimeError // non-nil: propagating error
}

// protect runs f converting a thrown error into an outcome.
func (in *Interp) protect(f func() (ctrl, ugo.Object)) (o outcome) {
	depth := in.depth
	defer func() {
		if r := recover(); r != nil {
			if t, ok := r.(thrown); ok {
				in.depth = depth
				o = outcome{err: t.err}
				return
			}
			panic(r)
		}
	}()
	k, v := f()
	return outcome{k: k, v: v}
}

// execTry: one scope for the whole statement; completion-record semantics:
// the finally block runs exactly once whatever the completion of try/catch is,
// and its own abrupt completion overrides the pending one.
func (in *Interp) execTry(s *gen.Try, e *env) (ctrl, ugo.Object) {
	te := newEnv(e)
	out := in.protect(func() (ctrl, ugo.Object) { return in.execBlockIn(s.Body, te) })
	if s.HasCatch {
		if out.err != nil {
			caught := out.err
			out = in.protect(func() (ctrl, ugo.Object) {
				if s.CatchIdent != "" {
					te.define(s.CatchIdent, caught, false)
				}
				return in.execBlockIn(s.Catch, te)
			})
		} else if s.CatchIdent != "" && out.k == cNormal {
			// documented: the catch identifier is undefined when nothing was thrown
			if !te.own[s.CatchIdent] {
				te.define(s.CatchIdent, ugo.Undefined, false)
			}
		}
	}
	if s.HasFinally {
		fin := in.protect(func() (ctrl, ugo.Object) { return in.execBlockIn(s.Finally, te) })
		if fin.err != nil || fin.k != cNormal {
			out = fin
		}
	}
	if out.err != nil {
		panic(thrown{out.err})
	}
	return out.k, out.v
}

func makeArray(n int, v ugo.Object) ugo.Array {
	arr, ok := v.(ugo.Array)
	out := make(ugo.Array, n)
	for i := range out {
		out[i] = ugo.Undefined
	}
	if !ok {
		out[0] = v
		return out
	}
	copy(out, arr)
	return out
}

var compoundTok = map[string]token.Token{
	"+=": token.Add, "-=": token.Sub, "*=": token.Mul, "/=": token.Quo, "%=": token.Rem,
	"&=": token.And, "|=": token.Or, "^=": token.Xor, "&^=": token.AndNot, "<<=": token.Shl, ">>=": token.Shr,
}

func (in *Interp) assign(s *gen.Assign, e *env) {
	if s.Op != "=" {
		// lhs = lhs op rhs : lhs loaded first, then rhs
		cur := in.eval(s.Targets[0], e)
		r := in.eval(s.X, e)
		nv, err := cur.BinaryOp(compoundTok[s.Op], r)
		if err != nil {
			in.throwErr(err)
		}
		nv = in.sized(nv)
		in.store(s.Targets[0], nv, e)
		return
	}
	v := in.eval(s.X, e)
	if len(s.Targets) == 1 {
		in.store(s.Targets[0], v, e)
		return
	}
	arr := makeArray(len(s.Targets), v)
	for i, t := range s.Targets {
		in.store(t, arr[i], e)
	}
}

// flatten splits a chain of Index/Selector into base and index expressions.
func flatten(x gen.Expr) (gen.Expr, []gen.Expr) {
	switch t := x.(type) {
	case *gen.Index:
		b, sel := flatten(t.X)
		return b, append(sel, t.I)
	case *gen.Selector:
		b, sel := flatten(t.X)
		return b, append(sel, &gen.Lit{Kind: gen.LString, S: t.Name})
	}
	return x, nil
}

func (in *Interp) store(target gen.Expr, v ugo.Object, e *env) {
	switch t := target.(type) {
	case *gen.Ident:
		b := e.lookup(t.Name)
		if b == nil {
			panic("ref: assignment to unresolved " + t.Name)
		}
		if b.global {
			if err := in.Globals.IndexSet(ugo.String(t.Name), v); err != nil {
				in.throwErr(err)
			}
			return
		}
		b.c.v = v
	case *gen.Index, *gen.Selector:
		base, sels := flatten(target)
		obj := in.eval(base, e)
		idx := make([]ugo.Object, len(sels))
		for i := 0; i < len(sels)-1; i++ {
			idx[i] = in.eval(sels[i], e)
		}
		for i := 0; i < len(sels)-1; i++ {
			obj = in.indexGet(obj, idx[i])
		}
		last := in.eval(sels[len(sels)-1], e)
		if err := obj.IndexSet(last, v); err != nil {
			switch err {
			case ugo.ErrNotIndexAssignable:
				err = ugo.ErrNotIndexAssignable.NewError(obj.TypeName())
			case ugo.ErrIndexOutOfBounds:
				err = ugo.ErrIndexOutOfBounds.NewError(last.String())
			}
			in.throwErr(err)
		}
	default:
		panic(fmt.Sprintf("ref: bad assignment target %T", target))
	}
}

func (in *Interp) indexGet(obj, idx ugo.Object) ugo.Object {
	v, err := obj.IndexGet(idx)
	if err != nil {
		switch err {
		case ugo.ErrNotIndexable:
			err = ugo.ErrNotIndexable.NewError(obj.TypeName())
		case ugo.ErrIndexOutOfBounds:
			err = ugo.ErrIndexOutOfBounds.NewError(idx.String())
		}
		in.throwErr(err)
	}
	return v
}

var binTok = map[string]token.Token{
	"+": token.Add, "-": token.Sub, "*": token.Mul, "/": token.Quo, "%": token.Rem,
	"&": token.And, "|": token.Or, "^": token.Xor, "&^": token.AndNot, "<<": token.Shl, ">>": token.Shr,
	"<": token.Less, "<=": token.LessEq, ">": token.Greater, ">=": token.GreaterEq,
}

func litValue(l *gen.Lit) ugo.Object {
	switch l.Kind {
	case gen.LInt:
		return ugo.Int(l.I)
	case gen.LUint:
		return ugo.Uint(l.U)
	case gen.LFloat:
		return ugo.Float(l.F)
	case gen.LChar:
		return ugo.Char(rune(l.I))
	case gen.LString:
		return ugo.String(l.S)
	case gen.LBool:
		return ugo.Bool(l.B)
	}
	return ugo.Undefined
}

func (in *Interp) eval(x gen.Expr, e *env) ugo.Object {
	in.tick()
	switch x := x.(type) {
	case *gen.Lit:
		return litValue(x)
	case *gen.Paren:
		return in.eval(x.X, e)
	case *gen.Ident:
		if b := e.lookup(x.Name); b != nil {
			if b.global {
				return in.indexGet(in.Globals, ugo.String(x.Name))
			}
			return b.c.v
		}
		if x.Name == "iota" && in.hasIota {
			return ugo.Int(in.iota)
		}
		if bt, ok := ugo.BuiltinsMap[x.Name]; ok && !in.Disabled[x.Name] {
			return ugo.BuiltinObjects[bt]
		}
		panic("ref: unresolved identifier " + x.Name)
	case *gen.Unary:
		v := in.eval(x.X, e)
		return in.unary(x.Op, v)
	case *gen.Binary:
		switch x.Op {
		case "&&":
			l := in.eval(x.L, e)
			if l.IsFalsy() {
				return l
			}
			return in.eval(x.R, e)
		case "||":
			l := in.eval(x.L, e)
			if !l.IsFalsy() {
				return l
			}
			return in.eval(x.R, e)
		}
		l := in.eval(x.L, e)
		r := in.eval(x.R, e)
		switch x.Op {
		case "==":
			return ugo.Bool(l.Equal(r))
		case "!=":
			return ugo.Bool(!l.Equal(r))
		}
		v, err := l.BinaryOp(binTok[x.Op], r)
		if err != nil {
			in.throwErr(err)
		}
		return in.sized(v)
	case *gen.Cond:
		if !in.eval(x.C, e).IsFalsy() {
			return in.eval(x.A, e)
		}
		return in.eval(x.B, e)
	case *gen.ArrayLit:
		arr := make(ugo.Array, 0, len(x.Elems))
		for _, el := range x.Elems {
			arr = append(arr, in.eval(el, e))
		}
		return arr
	case *gen.MapLit:
		m := make(ugo.Map, len(x.Elems))
		for i, el := range x.Elems {
			m[x.Keys[i]] = in.eval(el, e)
		}
		return m
	case *gen.Index, *gen.Selector:
		base, sels := flatten(x)
		obj := in.eval(base, e)
		idx := make([]ugo.Object, len(sels))
		for i, s := range sels {
			idx[i] = in.eval(s, e)
		}
		for _, i := range idx {
			obj = in.indexGet(obj, i)
		}
		return obj
	case *gen.Slice:
		obj := in.eval(x.X, e)
		var lo, hi ugo.Object = ugo.Undefined, ugo.Undefined
		if x.Lo != nil {
			lo = in.eval(x.Lo, e)
		}
		if x.Hi != nil {
			hi = in.eval(x.Hi, e)
		}
		return in.slice(obj, lo, hi)
	case *gen.Call:
		return in.call(x, e)
	case *gen.FuncLit:
		return &Closure{Fn: x, Env: e.snapshot(), in: in}
	case *gen.Import:
		return in.importModule(x.Name)
	}
	panic(fmt.Sprintf("ref: unknown expr %T", x))
}

func (in *Interp) unary(op string, v ugo.Object) ugo.Object {
	typeErr := func() {
		in.throwErr(ugo.ErrType.NewError(fmt.Sprintf("invalid type for unary '%s': '%s'", op, v.TypeName())))
	}
	b2i := func(b ugo.Bool) ugo.Int {
		if b {
			return 1
		}
		return 0
	}
	switch op {
	case "!":
		return ugo.Bool(v.IsFalsy())
	case "-":
		switch o := v.(type) {
		case ugo.Int:
			return -o
		case ugo.Uint:
			return -o
		case ugo.Float:
			return -o
		case ugo.Char:
			return ugo.Int(-o)
		case ugo.Bool:
			return -b2i(o)
		}
		typeErr()
	case "^":
		switch o := v.(type) {
		case ugo.Int:
			return ^o
		case ugo.Uint:
			return ^o
		case ugo.Char:
			return ^ugo.Int(o)
		case ugo.Bool:
			return ^b2i(o)
		}
		typeErr()
	case "+":
		switch o := v.(type) {
		case ugo.Int, ugo.Uint, ugo.Float, ugo.Char:
			return v
		case ugo.Bool:
			return b2i(o)
		}
		typeErr()
	}
	panic("ref: unknown unary " + op)
}

func toIdx(o ugo.Object, def int) (int, bool) {
	switch v := o.(type) {
	case *ugo.UndefinedType:
		return def, true
	case ugo.Int:
		return int(v), true
	case ugo.Uint:
		return int(v), true
	case ugo.Char:
		return int(v), true
	}
	return 0, false
}

func (in *Interp) slice(obj, lo, hi ugo.Object) ugo.Object {
	var n int
	switch o := obj.(type) {
	case ugo.Array:
		n = len(o)
	case ugo.String:
		n = len(o)
	case ugo.Bytes:
		n = len(o)
	default:
		in.throwErr(ugo.ErrType.NewError(obj.TypeName(), "cannot be sliced"))
	}
	l, ok := toIdx(lo, 0)
	if !ok {
		in.throwErr(ugo.ErrType.NewError("invalid first index type", lo.TypeName()))
	}
	h, ok := toIdx(hi, n)
	if !ok {
		in.throwErr(ugo.ErrType.NewError("invalid second index type", hi.TypeName()))
	}
	if l > h {
		in.throwErr(ugo.ErrInvalidIndex.NewError(fmt.Sprintf("[%d:%d]", l, h)))
	}
	if b, isb := obj.(ugo.Bytes); isb {
		n = cap(b)
	}
	if l < 0 || h < 0 || h > n {
		in.throwErr(ugo.ErrIndexOutOfBounds.NewError(fmt.Sprintf("[%d:%d]", l, h)))
	}
	switch o := obj.(type) {
	case ugo.Array:
		return o[l:h]
	case ugo.String:
		return o[l:h]
	case ugo.Bytes:
		return o[l:h]
	}
	return ugo.Undefined
}

func (in *Interp) call(x *gen.Call, e *env) ugo.Object {
	var callee, recv ugo.Object
	sel, isSel := x.Fn.(*gen.Selector)
	if isSel {
		recv = in.eval(sel.X, e)
	} else {
		callee = in.eval(x.Fn, e)
	}
	args := make([]ugo.Object, 0, len(x.Args))
	for _, a := range x.Args {
		args = append(args, in.eval(a, e))
	}
	if isSel {
		if nc, ok := recv.(ugo.NameCallerObject); ok {
			if x.Spread {
				args = in.expand(args)
			}
			ret, err := nc.CallName(sel.Name, ugo.NewCall(nil, args))
			if err != nil {
				in.throwErr(err)
			}
			return ret
		}
		callee = in.indexGet(recv, ugo.String(sel.Name))
	}
	return in.invoke(callee, args, x.Spread)
}

func (in *Interp) expand(args []ugo.Object) []ugo.Object {
	last := args[len(args)-1]
	arr, ok := last.(ugo.Array)
	if !ok {
		in.throwErr(ugo.NewArgumentTypeError("last", "array", last.TypeName()))
	}
	out := append([]ugo.Object{}, args[:len(args)-1]...)
	return append(out, arr...)
}

func (in *Interp) invoke(callee ugo.Object, args []ugo.Object, spread bool) ugo.Object {
	if c, ok := callee.(*Closure); ok {
		if spread {
			args = in.expand(args)
		}
		in.checkArity(c, len(args))
		return in.callClosure(c, args)
	}
	if !callee.CanCall() {
		in.throwErr(ugo.ErrNotCallable.NewError(callee.TypeName()))
	}
	if spread {
		args = in.expand(args)
	}
	var ret ugo.Object
	var err error
	if ex, ok := callee.(ugo.ExCallerObject); ok {
		ret, err = ex.CallEx(ugo.NewCall(nil, args))
	} else {
		ret, err = callee.Call(args...)
	}
	if err != nil {
		in.throwErr(err)
	}
	return in.sized(ret)
}

// sized gives up (ErrBudget, an inconclusive run - never a verdict) when a value grows beyond anything
// a generated program needs: a statement such as `s += s` repeated in a loop doubles its operand every
// time and would exhaust the memory of the test process, in the model and in the VM alike. The model
// runs first, so such programs never reach the VM.
func (in *Interp) sized(v ugo.Object) ugo.Object {
	const maxLen = 1 << 20
	switch x := v.(type) {
	case ugo.String:
		if len(x) > maxLen {
			panic(budgetSig{})
		}
	case ugo.Bytes:
		if len(x) > maxLen {
			panic(budgetSig{})
		}
	case ugo.Array:
		if len(x) > maxLen/8 {
			panic(budgetSig{})
		}
	}
	return v
}

func (in *Interp) importModule(name string) ugo.Object {
	if v, ok := in.modCache[name]; ok {
		return v
	}
	if body, ok := in.Modules[name]; ok {
		in.depth++
		if in.depth > in.MaxDepth {
			panic(budgetSig{})
		}
		k, v := in.execMain(body, newEnv(nil), nil)
		in.depth--
		var ret ugo.Object = ugo.Undefined
		if k == cReturn {
			ret = v
		}
		// documented: the returned value is stored for future use; values
		// implementing Copier are copied when stored
		if c, ok := ret.(ugo.Copier); ok {
			if _, isClosure := ret.(*Closure); !isClosure {
				ret = c.Copy()
			}
		}
		in.modCache[name] = ret
		return ret
	}
	if v, ok := in.BuiltinModules[name]; ok {
		in.modCache[name] = v
		return v
	}
	panic("ref: unknown module " + name)
}
