// Package prog glues generated programs (package gen) to uGO: rendering,
// module maps, argument/global conversion, running on the VM and on the
// reference interpreter, and a JSON-able replay form.
package prog

import (
	"fmt"
	"sort"
	"strings"
	"time"

	"github.com/ozanh/ugo"

	"verif/internal/canon"
	"verif/internal/gen"
	"verif/internal/ref"
	"verif/internal/run"
)

// Case is the replayable (text) form of a generated program.
type Case struct {
	Src     string            `json:"src"`
	Modules map[string]string `json:"modules,omitempty"`
	Args    []string          `json:"args,omitempty"`    // uGO literal source of each argument
	Globals map[string]string `json:"globals,omitempty"` // name -> literal source
	Note    string            `json:"note,omitempty"`
}

// LitValue converts a literal expression to its uGO value.
func LitValue(e gen.Expr) ugo.Object {
	l, ok := e.(*gen.Lit)
	if !ok {
		panic(fmt.Sprintf("prog: not a literal %T", e))
	}
	switch l.Kind {
	case gen.LInt:
		return ugo.Int(l.I)
	case gen.LUint:
		return ugo.Uint(l.U)
	case gen.LFloat:
		return ugo.Float(l.F)
	case gen.LChar:
		return ugo.Char(rune(l.I))
	case gen.LString:
		return ugo.String(l.S)
	case gen.LBool:
		return ugo.Bool(l.B)
	}
	return ugo.Undefined
}

// P is a generated program prepared for execution.
type P struct {
	G       *gen.GenProgram
	Src     string
	Lines   map[gen.Stmt]int
	ModSrc  map[string]string
	Args    []ugo.Object
	Globals ugo.Map
}

// Prepare renders p.
func Prepare(p *gen.GenProgram) *P {
	out := &P{G: p, ModSrc: map[string]string{}}
	out.Src, out.Lines = gen.Render(p.Body)
	for name, body := range p.Modules {
		out.ModSrc[name] = gen.Src(body)
	}
	for _, a := range p.Args {
		out.Args = append(out.Args, LitValue(a))
	}
	out.Globals = ugo.Map{}
	for k, v := range p.Globals {
		out.Globals[k] = LitValue(v)
	}
	return out
}

// Case returns the replayable text form.
func (p *P) Case() Case {
	c := Case{Src: p.Src}
	if len(p.ModSrc) > 0 {
		c.Modules = p.ModSrc
	}
	for _, a := range p.G.Args {
		c.Args = append(c.Args, gen.ExprSrc(a))
	}
	if len(p.G.Globals) > 0 {
		c.Globals = map[string]string{}
		for k, v := range p.G.Globals {
			c.Globals[k] = gen.ExprSrc(v)
		}
	}
	return c
}

// ModuleMap builds the module map (source modules + optional builtin modules).
func ModuleMap(mods map[string]string, builtin map[string]map[string]ugo.Object) *ugo.ModuleMap {
	mm := ugo.NewModuleMap()
	names := make([]string, 0, len(mods))
	for n := range mods {
		names = append(names, n)
	}
	sort.Strings(names)
	for _, n := range names {
		mm.AddSourceModule(n, []byte(mods[n]))
	}
	for n, m := range builtin {
		mm.AddBuiltinModule(n, m)
	}
	return mm
}

// EvalLiteral evaluates literal source text (as stored in a Case) to a value.
func EvalLiteral(src string) (ugo.Object, error) {
	bc, err := ugo.Compile([]byte("return "+src), ugo.CompilerOptions{NoOptimize: true})
	if err != nil {
		return nil, err
	}
	return ugo.NewVM(bc).Run(nil)
}

// CaseInputs converts the textual args/globals of a Case.
func CaseInputs(c Case) ([]ugo.Object, ugo.Map, error) {
	var args []ugo.Object
	for _, a := range c.Args {
		v, err := EvalLiteral(a)
		if err != nil {
			return nil, nil, fmt.Errorf("arg %q: %w", a, err)
		}
		args = append(args, v)
	}
	g := ugo.Map{}
	for k, s := range c.Globals {
		v, err := EvalLiteral(s)
		if err != nil {
			return nil, nil, fmt.Errorf("global %q: %w", k, err)
		}
		g[k] = v
	}
	return args, g, nil
}

// CopyArgs deep-copies argument values so runs cannot influence each other.
func CopyArgs(args []ugo.Object) []ugo.Object {
	out := make([]ugo.Object, len(args))
	for i, a := range args {
		if c, ok := a.(ugo.Copier); ok {
			out[i] = c.Copy()
		} else {
			out[i] = a
		}
	}
	return out
}

// RunRef executes the program on the reference interpreter.
func RunRef(p *P, maxSteps int) (run.Outcome, bool) {
	o, err := RunRefErr(p, maxSteps)
	return o, err == nil
}

// RunRefErr is RunRef returning why the model gave no verdict.
func RunRefErr(p *P, maxSteps int) (run.Outcome, error) {
	lg := &run.Logger{}
	g := run.Globals(p.Globals, lg)
	in := &ref.Interp{Globals: g, Modules: p.G.Modules, MaxSteps: maxSteps}
	hostArgs := CopyArgs(p.Args)
	res := in.Run(p.G.Body, hostArgs)
	var out run.Outcome
	if res.Abort != nil {
		return out, res.Abort
	}
	out.ArgsAfter = canon.Value(ugo.Array(hostArgs))
	out.Log = lg.Log
	gc := ugo.Map{}
	for k, v := range g {
		if k != "L" {
			gc[k] = v
		}
	}
	out.Globals = canon.Value(gc)
	if res.Err != nil {
		out.IsErr = true
		out.ErrName, out.ErrMsg = canon.ErrName(res.Err)
	} else {
		out.Value = canon.Value(res.Value)
	}
	return out, nil
}

// RunVM compiles (with opts) and runs on a fresh VM.
func RunVM(p *P, opts ugo.CompilerOptions, ro run.Opts) (run.Outcome, *ugo.Bytecode, error, string) {
	if opts.ModuleMap == nil && len(p.ModSrc) > 0 {
		opts.ModuleMap = ModuleMap(p.ModSrc, nil)
	}
	bc, err, pan := run.Compile(p.Src, opts)
	if err != nil || pan != "" {
		return run.Outcome{}, nil, err, pan
	}
	lg := &run.Logger{Plain: len(p.Src)%2 == 1} // half of the programs call L through the VM's plain object-call path
	g := run.Globals(p.Globals, lg)
	if ro.Timeout == 0 {
		ro.Timeout = 5 * time.Second
	}
	hostArgs := CopyArgs(p.Args)
	o := run.Exec(bc, g, lg, hostArgs, ro)
	if !o.TimedOut {
		o.ArgsAfter = canon.Value(ugo.Array(hostArgs))
	}
	return o, bc, nil, ""
}

// FeatureKey renders the feature set for distinctness / class keys.
func FeatureKey(f gen.Features) string {
	ks := make([]string, 0, len(f))
	for k := range f {
		ks = append(ks, k)
	}
	sort.Strings(ks)
	return strings.Join(ks, ",")
}
