module verif

go 1.23

require (
	github.com/ozanh/ugo v0.0.0
	pgregory.net/rapid v1.3.0
)

replace github.com/ozanh/ugo => /repo
