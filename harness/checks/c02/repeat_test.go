package c02

import (
	"errors"
	"fmt"
	"testing"

	"github.com/ozanh/ugo"
	"pgregory.net/rapid"

	"verif/internal/ev"
	"verif/internal/gen"
	"verif/internal/prog"
	"verif/internal/ref"
	"verif/internal/run"
)

// Stack discipline. Every statement must leave the VM's value stack (and its list of error handlers) as
// it found it; an instruction that forgets one slot is invisible in a run that executes it a few times
// (results are addressed relative to the stack pointer) and exhausts the 2048-slot stack after about
// two thousand executions. Metamorphic form of the reference comparison: the top-level statements of a
// small generated program (minus top-level return / throw) become the body of a loop that runs
// repeatN times - at top level or inside a function - and the outcome must still be the reference
// interpreter's, which has no stack to exhaust.
const repeatN = 4500

func repeatProfiles() []gen.Config {
	base := gen.Config{MaxStmts: 7, MaxDepth: 2, MaxFnDepth: 2, MaxBlock: 2,
		Closures: true, Calls: true, Params: true, Globals: true, Destruct: true, Consts: true, MapIter: true}
	withTry := base
	withTry.Try = true
	shadow := base
	shadow.Shadow = true
	// failing operations (mostly inside try statements): the error paths must keep the discipline too
	failTry := withTry
	failTry.Failing = true
	return []gen.Config{base, withTry, shadow, withTry, failTry, failTry}
}

// repeated rewrites gp in place; false when nothing is left to repeat.
func repeated(gp *gen.GenProgram, inFn bool) bool {
	var head, body []gen.Stmt
	for _, s := range gp.Body {
		switch s.(type) {
		case *gen.ParamDecl, *gen.GlobalDecl:
			head = append(head, s)
		case *gen.Return, *gen.Throw:
		default:
			body = append(body, s)
		}
	}
	if len(body) == 0 {
		return false
	}
	loop := &gen.For{
		Init: &gen.Define{Names: []string{"rEp"}, X: gen.IntLit(0)},
		Cond: &gen.Binary{Op: "<", L: gen.Id("rEp"), R: gen.IntLit(repeatN)},
		Post: &gen.IncDec{Target: gen.Id("rEp"), Inc: true},
		Body: body,
	}
	if inFn {
		fn := &gen.FuncLit{Body: []gen.Stmt{loop, &gen.Return{Xs: []gen.Expr{gen.StrLit("done")}}}}
		gp.Body = append(head, &gen.Define{Names: []string{"rEpF"}, X: fn}, &gen.Return{Xs: []gen.Expr{&gen.Call{Fn: gen.Id("rEpF")}}})
	} else {
		gp.Body = append(head, loop, &gen.Return{Xs: []gen.Expr{gen.StrLit("done")}})
	}
	return true
}

func stackDiscipline(t *testing.T, rec *ev.Rec) {
	profs := repeatProfiles()
	ev.RapidCheck(t, "stack-discipline", ev.N(500, 9000), 7, func(rt *rapid.T) {
		cfg := profs[gen.Uniform(rt, len(profs), "profile")]
		gp := gen.Generate(rt, cfg)
		inFn := gen.Uniform(rt, 3, "in-function") == 0
		if !repeated(gp, inFn) {
			rec.Exclude("nothing-to-repeat")
			return
		}
		p := prog.Prepare(gp)
		rec.Case()
		want, rerr := prog.RunRefErr(p, 60_000_000)
		if rerr != nil {
			if errors.Is(rerr, ref.ErrValuePanic) {
				rec.Exclude("value-op-go-panic(C15)")
			} else {
				rec.Inconcl("ref-step-budget")
			}
			return
		}
		if want.IsErr {
			// the body fails (in its first iteration or later): nothing is repeated often enough
			rec.Class("stack-discipline:body-fails")
		}
		for _, noopt := range []bool{true, false} {
			got, _, err, pan := prog.RunVM(p, ugo.CompilerOptions{NoOptimize: noopt}, run.Opts{Recover: true, Timeout: 20e9})
			if pan != "" {
				rec.Exclude("compile-panic(C05)")
				return
			}
			if err != nil {
				if _, isOpt := asOptimizerErr(err); isOpt {
					rec.Exclude("optimizer-refused(C01)")
					continue
				}
				rt.Fatalf("HARNESS: repeated program does not compile: %v\n%s", err, p.Src)
			}
			if got.TimedOut {
				rec.Inconcl("vm-watchdog")
				return
			}
			if d := diff(got, want); d != "" {
				sig := "semantics:repeated-" + fmt.Sprint(repeatN) + "-times"
				what := fmt.Sprintf("VM (NoOptimize=%v) differs from the reference semantics when the statements run %d times in a loop: %s\n--- script ---\n%s\nVM : %s\nREF: %s", noopt, repeatN, d, p.Src, got, want)
				if rec.Violation(sig, what, replayCase{Case: p.Case(), NoOptimize: noopt, Expected: want, Got: got}) {
					return
				}
				rt.Fatalf("%s", what)
			}
		}
		if !want.IsErr {
			rec.NonTriv(p.Src)
			rec.Class("stack-discipline")
			if inFn {
				rec.Class("stack-discipline:loop-inside-function")
			}
			for k := range gp.Features {
				rec.Class("repeated:" + k)
			}
		}
	})
}
