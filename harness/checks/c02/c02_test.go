// C02 - compiled execution follows the documented source-level semantics.
// Oracle: the reference interpreter (internal/ref) over the generator's AST.
package c02

import (
	"encoding/json"
	"errors"
	"fmt"
	"os"
	"sort"
	"strings"
	"testing"
	"time"

	"github.com/ozanh/ugo"
	"pgregory.net/rapid"

	"verif/internal/ev"
	"verif/internal/gen"
	"verif/internal/prog"
	"verif/internal/ref"
	"verif/internal/run"
)

type replayCase struct {
	prog.Case
	NoOptimize bool        `json:"no_optimize"`
	Expected   run.Outcome `json:"expected"`
	Got        run.Outcome `json:"got"`
}

// userThrown: messages are compared only for errors whose text comes from the script.
func withMsg(o run.Outcome) bool { return o.ErrName == "" || o.ErrName == "error" }

func diff(vm, rf run.Outcome) string {
	return vm.Diff(rf, withMsg(rf))
}

func sigOf(p *prog.P, d string, f gen.Features) string {
	// structural signature: which documented feature family the shrunk program exercises
	var fam []string
	for _, k := range []string{"recursion-discarded-last", "recursion-mixed-tail-kinds", "recursion-tail", "recursion-nontail", "try", "destructuring", "const-group", "call-spread", "call-variadic", "forin", "for", "closure-returned", "assign-captured", "import"} {
		if f[k] > 0 {
			fam = append(fam, k)
		}
	}
	kind := "value"
	switch {
	case strings.HasPrefix(d, "log"):
		kind = "log"
	case strings.HasPrefix(d, "error"):
		kind = "error"
	case strings.HasPrefix(d, "panic"):
		kind = "panic"
	case strings.HasPrefix(d, "globals"):
		kind = "globals"
	}
	return "semantics:" + kind + ":" + strings.Join(fam, "+")
}

func profiles() []gen.Config {
	base := gen.Config{MaxStmts: 28, MaxDepth: 3, MaxFnDepth: 4, MaxBlock: 4,
		Closures: true, Calls: true, Log: true, Params: true, Globals: true, Destruct: true, Consts: true, Recursion: true, MapIter: true}
	failing := base
	failing.Failing = true
	shadow := base
	shadow.Shadow = true
	withTry := failing
	withTry.Try = true
	return []gen.Config{base, base, failing, shadow, withTry}
}

func TestCheck(t *testing.T) {
	rec := ev.New("C02")
	rec.Rule = "programs from the scope-aware generator (closures, calls fixed/variadic/spread, destructuring, const/iota, compound assignment, selectors/indexing, loops with break/continue, block slot re-use, recursion templates) x optimizer on/off; VM outcome (value, L-log = order of side effects, globals, error name) compared with the reference interpreter. Non-trivial = >= 8 log events and >= 2 feature classes among {captured variable assigned, per-iteration capture(for+funclit), variadic/spread call, destructuring, nested closure, recursion template, const group}; distinct by source text"
	rec.Assumptions = []string{
		"value-level operations (BinaryOp, Equal, IsFalsy, IndexGet/IndexSet, Iterate, builtin bodies) are delegated to uGO's Object methods (decided by C15/C19)",
		"VM-raised errors are compared by Name only; script-thrown errors by Name and Message",
		"excluded by construction: map iteration/printing order (>1 key), reads of possibly-unset try-scope variables, re-declaration via destructuring, side effects in compound-assignment targets, function equality, resource limits (frames, value stack)",
	}
	defer func() { rec.Flush(!t.Failed() || rec.HasUnknown()) }()

	runReplays(t, rec)
	if ev.ReplayOnly() {
		return
	}

	profs := profiles()
	n := ev.N(3000, 60000)
	ev.RapidCheck(t, "ref-vs-vm", n, 1, func(rt *rapid.T) {
		cfg := profs[rapid.IntRange(0, len(profs)-1).Draw(rt, "profile")]
		gp := gen.Generate(rt, cfg)
		p := prog.Prepare(gp)
		rec.Case()
		want, rerr := prog.RunRefErr(p, 400000)
		if rerr != nil {
			if errors.Is(rerr, ref.ErrValuePanic) {
				rec.Exclude("value-op-go-panic(C15)")
			} else {
				rec.Inconcl("ref-step-budget")
			}
			return
		}
		for _, noopt := range []bool{true, false} {
			got, _, err, pan := prog.RunVM(p, ugo.CompilerOptions{NoOptimize: noopt}, run.Opts{Recover: true})
			c := replayCase{Case: p.Case(), NoOptimize: noopt, Expected: want, Got: got}
			if pan != "" {
				// compile panics belong to C05; not judged here
				rec.Exclude("compile-panic(C05)")
				return
			}
			if err != nil {
				if _, isOpt := asOptimizerErr(err); isOpt {
					rec.Exclude("optimizer-refused(C01)")
					continue
				}
				// the generator promises valid programs: a compile error is a harness bug, not a violation
				rt.Fatalf("HARNESS: generated program does not compile: %v\n%s", err, p.Src)
			}
			if got.TimedOut {
				// the reference model finished this program within its step budget; the VM did not within 5 s
				// (>= 10^4 x the typical run). Confirm alone with a longer budget before calling it non-termination.
				got2, _, _, _ := prog.RunVM(p, ugo.CompilerOptions{NoOptimize: noopt}, run.Opts{Recover: true, Timeout: 25 * time.Second})
				if !got2.TimedOut {
					rec.Inconcl("vm-watchdog-slow")
					return
				}
				what := fmt.Sprintf("the VM (NoOptimize=%v) does not terminate on a program the reference semantics finishes (aborted after 5 s and again after 25 s)\n--- script ---\n%s\nREF: %s", noopt, p.Src, want)
				if rec.Violation("semantics:vm-does-not-terminate", what, replayCase{Case: p.Case(), NoOptimize: noopt, Expected: want, Got: got2}) {
					return
				}
				rt.Fatalf("%s", what)
				return
			}
			if d := diff(got, want); d != "" {
				sig := sigOf(p, d, gp.Features)
				what := fmt.Sprintf("VM (NoOptimize=%v) differs from the reference semantics: %s\n--- script ---\n%s\nVM : %s\nREF: %s", noopt, d, p.Src, got, want)
				if rec.Violation(sig, what, c) {
					return
				}
				rt.Fatalf("%s", what)
			}
		}
		classify(rec, gp, p, want)
	})
	rec.Unfreeze()
	stackDiscipline(t, rec)
}

func asOptimizerErr(err error) (*ugo.OptimizerError, bool) {
	switch e := err.(type) {
	case *ugo.OptimizerError:
		return e, true
	}
	if strings.Contains(fmt.Sprintf("%T", err), "multipleErr") || strings.Contains(err.Error(), "Optimizer Error") {
		return nil, true
	}
	return nil, false
}

func classify(rec *ev.Rec, gp *gen.GenProgram, p *prog.P, want run.Outcome) {
	f := gp.Features
	classes := 0
	for _, k := range []string{"assign-captured", "call-variadic", "call-spread", "destructuring", "nested-funclit", "const-group", "closure-returned"} {
		if f[k] > 0 {
			classes++
			rec.Class(k)
		}
	}
	if f["recursion-mixed-tail-kinds"] > 0 {
		rec.Class("recursion-mixed-tail-kinds")
	}
	if f["recursion-tail"]+f["recursion-nontail"]+f["recursion-discarded-last"]+f["recursion-mixed-tail-kinds"] > 0 {
		classes++
		rec.Class("recursion-template")
	}
	if f["for"]+f["forin"] > 0 && f["funclit"] > 0 {
		classes++
		rec.Class("loop+closure")
	}
	if f["closure-escapes-block"] > 0 {
		classes++
		rec.Class("closure-escapes-block")
	}
	for _, k := range []string{"recursion-tail-deep", "shadow-outer-var", "forin-map", "if-init", "iota", "import", "try", "catch-ident"} {
		if f[k] > 0 {
			rec.Class(k)
		}
	}
	if want.IsErr {
		rec.Class("outcome-error:" + want.ErrName)
	} else {
		rec.Class("outcome-value")
	}
	if len(want.Log) >= 8 && classes >= 2 {
		rec.NonTriv(p.Src)
		rec.Class("nontrivial")
	}
	rec.Sample(map[string]any{"src": p.Src, "args": p.Case().Args, "outcome": want.String()})
}

func runReplays(t *testing.T, rec *ev.Rec) {
	for _, rf := range rec.Replays() {
		var c replayCase
		if err := json.Unmarshal(rf.Case, &c); err != nil {
			fmt.Fprintln(os.Stderr, "bad replay", rf.Path, err)
			continue
		}
		rec.Case()
		args, globals, err := prog.CaseInputs(c.Case)
		if err != nil {
			t.Errorf("replay %s: %v", rf.Path, err)
			continue
		}
		opts := ugo.CompilerOptions{NoOptimize: c.NoOptimize}
		if len(c.Modules) > 0 {
			opts.ModuleMap = prog.ModuleMap(c.Modules, nil)
		}
		bc, cerr, pan := run.Compile(c.Src, opts)
		if cerr != nil || pan != "" {
			t.Errorf("replay %s: compile: %v %s", rf.Path, cerr, pan)
			continue
		}
		lg := &run.Logger{}
		got := run.Exec(bc, run.Globals(globals, lg), lg, args, run.Opts{Recover: true})
		if d := diff(got, c.Expected); d != "" {
			what := fmt.Sprintf("replay %s: %s\n--- script ---\n%s\nVM : %s\nREF: %s", rf.Path, d, c.Src, got, c.Expected)
			if !rec.Violation(rf.Sig, what, c) {
				t.Errorf("%s", what)
			}
		} else {
			rec.Class("replay-pass")
		}
	}
}

var _ = sort.Strings
