// C15 - operators obey their algebraic laws and the documented numeric
// semantics.
//
// Part 1 enumerates a boundary pool of values of every built-in type: all
// ordered pairs x all 17 binary operators (and the 4 unary operators), each
// evaluated twice - by calling Equal / BinaryOp directly and by running
// `param (a, b); return a <op> b` on a VM without panic recovery (VMs are re-used
// only while their runs return normally). Part 2 is a
// rapid property extending the domain with random numerics and random nested
// containers. See ref_test.go for the reference semantics.
package c15

import (
	"encoding/json"
	"errors"
	"fmt"
	"math"
	"regexp"
	"runtime/debug"
	"sort"
	"strings"
	"testing"
	"time"

	"github.com/ozanh/ugo"
	"github.com/ozanh/ugo/token"
	"pgregory.net/rapid"

	"verif/internal/canon"
	"verif/internal/ev"
	"verif/internal/vals"
)

// ---------------------------------------------------------------------------
// operators

type opInfo struct {
	tok   token.Token
	name  string // used in signatures
	sym   string
	class string // arith | bitwise | shift | rel | eq
}

var binOps = []opInfo{
	{token.Add, "add", "+", "arith"},
	{token.Sub, "sub", "-", "arith"},
	{token.Mul, "mul", "*", "arith"},
	{token.Quo, "quo", "/", "arith"},
	{token.Rem, "rem", "%", "arith"},
	{token.And, "and", "&", "bitwise"},
	{token.Or, "or", "|", "bitwise"},
	{token.Xor, "xor", "^", "bitwise"},
	{token.AndNot, "andnot", "&^", "bitwise"},
	{token.Shl, "shl", "<<", "shift"},
	{token.Shr, "shr", ">>", "shift"},
	{token.Less, "lt", "<", "rel"},
	{token.LessEq, "le", "<=", "rel"},
	{token.Greater, "gt", ">", "rel"},
	{token.GreaterEq, "ge", ">=", "rel"},
	{token.Equal, "eq", "==", "eq"},
	{token.NotEqual, "ne", "!=", "eq"},
}

var unOps = []opInfo{
	{token.Add, "pos", "+", "unary"},
	{token.Sub, "neg", "-", "unary"},
	{token.Xor, "compl", "^", "unary"},
	{token.Not, "not", "!", "unary"},
}

const (
	iLess = 11
	iLe   = 12
	iGt   = 13
	iGe   = 14
	iEq   = 15
	iNe   = 16
)

// ---------------------------------------------------------------------------
// outcomes

type outcome struct {
	val  ugo.Object
	err  error
	pan  string // non-empty: a Go panic was recovered
	site string // receiver type of the panicking BinaryOp frame ("int", "bool", ...), "vm" or ""
}

func (o outcome) isValue() bool { return o.pan == "" && o.err == nil && o.val != nil }

func (o outcome) isTypeErr() bool {
	return o.pan == "" && o.err != nil && (errors.Is(o.err, ugo.ErrType) || errors.Is(o.err, ugo.ErrInvalidOperator))
}

func (o outcome) isZeroDiv() bool {
	return o.pan == "" && o.err != nil && errors.Is(o.err, ugo.ErrZeroDivision)
}

func (o outcome) kind() string {
	switch {
	case o.pan != "":
		return "panic"
	case o.isZeroDiv():
		return "zerodiv"
	case o.isTypeErr():
		return "typeerror"
	case o.err != nil:
		return "othererror"
	case o.val == nil:
		return "nil"
	}
	return "value"
}

// dump: canonical text used to compare the direct and the VM evaluation
// (errors by name only: the VM decorates messages).
func (o outcome) dump() string {
	switch {
	case o.pan != "":
		return "panic"
	case o.err != nil:
		n, _ := canon.ErrName(o.err)
		return "error:" + n
	case o.val == nil:
		return "<nil>"
	}
	return canon.Value(o.val)
}

func (o outcome) String() string {
	switch {
	case o.pan != "":
		return "Go panic: " + o.pan
	case o.err != nil:
		n, m := canon.ErrName(o.err)
		return fmt.Sprintf("error %s(%q)", n, m)
	}
	return o.dump()
}

var siteRe = regexp.MustCompile(`github\.com/ozanh/ugo\.\(?\*?(\w+)\)?\.(BinaryOp|Equal)\(`)

func panicSite(stack string) string {
	if i := strings.Index(stack, "\npanic("); i >= 0 {
		stack = stack[i:]
	}
	if m := siteRe.FindStringSubmatch(stack); m != nil {
		return strings.ToLower(m[1][:1]) + m[1][1:]
	}
	if strings.Contains(stack, "github.com/ozanh/ugo.(*VM)") {
		return "vm"
	}
	return ""
}

func guard(f func() outcome) (out outcome) {
	defer func() {
		if r := recover(); r != nil {
			out = outcome{pan: fmt.Sprint(r), site: panicSite(string(debug.Stack()))}
		}
	}()
	return f()
}

func direct(op opInfo, a, b ugo.Object) outcome {
	return guard(func() outcome {
		switch op.tok {
		case token.Equal:
			return outcome{val: ugo.Bool(a.Equal(b))}
		case token.NotEqual:
			return outcome{val: ugo.Bool(!a.Equal(b))}
		}
		v, err := a.BinaryOp(op.tok, b)
		return outcome{val: v, err: err}
	})
}

// scripts holds one compiled program per operator.
type scripts struct {
	bin []*ugo.Bytecode
	un  []*ugo.Bytecode
}

func compileScripts(t *testing.T) *scripts {
	s := &scripts{}
	for _, op := range binOps {
		bc, err := ugo.Compile([]byte("param (a, b)\nreturn a "+op.sym+" b"), ugo.CompilerOptions{})
		if err != nil {
			t.Fatalf("compile %s: %v", op.sym, err)
		}
		s.bin = append(s.bin, bc)
	}
	for _, op := range unOps {
		bc, err := ugo.Compile([]byte("param a\nreturn "+op.sym+"a"), ugo.CompilerOptions{})
		if err != nil {
			t.Fatalf("compile unary %s: %v", op.sym, err)
		}
		s.un = append(s.un, bc)
	}
	return s
}

// viaVM runs the operator script on a VM without SetRecover so that a Go panic
// inside the VM reaches us. A VM is kept per script and re-used only as long
// as its runs return normally; after an error or a panic a fresh one is made.
var vmCache = map[*ugo.Bytecode]*ugo.VM{}

func viaVM(bc *ugo.Bytecode, args ...ugo.Object) outcome {
	vm := vmCache[bc]
	if vm == nil {
		vm = ugo.NewVM(bc)
	}
	delete(vmCache, bc)
	out := guard(func() outcome {
		v, err := vm.Run(nil, args...)
		return outcome{val: v, err: err}
	})
	if out.pan == "" && out.err == nil {
		vmCache[bc] = vm
	}
	return out
}

// ---------------------------------------------------------------------------
// value helpers

func tname(o ugo.Object) string {
	switch o.(type) {
	case nil:
		return "nil"
	case *ugo.RuntimeError:
		return "runtimeError"
	}
	return o.TypeName()
}

func sorted2(a, b string) string {
	if b < a {
		a, b = b, a
	}
	return a + ":" + b
}

func isNaN(o ugo.Object) bool {
	f, ok := o.(ugo.Float)
	return ok && math.IsNaN(float64(f))
}

func isNumZero(o ugo.Object) bool {
	switch v := o.(type) {
	case ugo.Int:
		return v == 0
	case ugo.Uint:
		return v == 0
	case ugo.Float:
		return v == 0
	case ugo.Char:
		return v == 0
	case ugo.Bool:
		return !bool(v)
	}
	return false
}

func isNegSigned(o ugo.Object) bool {
	switch v := o.(type) {
	case ugo.Int:
		return v < 0
	case ugo.Char:
		return v < 0
	}
	return false
}

func isContainer(o ugo.Object) bool {
	switch o.(type) {
	case ugo.Array, ugo.Map, *ugo.SyncMap:
		return true
	}
	return false
}

func pairCat(a, b ugo.Object) string {
	na, nb := kindOf(a) != kOther, kindOf(b) != kOther
	switch {
	case na && nb:
		if tname(a) == tname(b) {
			return "pair:numeric-same-type"
		}
		return "pair:numeric-cross-type"
	case na || nb:
		return "pair:numeric-x-nonnumeric"
	case isContainer(a) && isContainer(b):
		return "pair:container-x-container"
	case tname(a) == tname(b):
		return "pair:nonnumeric-same-type"
	}
	return "pair:nonnumeric-cross-type"
}

func safeEq(a, b ugo.Object) (r bool) {
	defer func() { _ = recover() }()
	return a.Equal(b)
}

// asymLeaf descends into equally shaped containers to the innermost pair whose
// equality is asymmetric, so that [1.0]==[true] is attributed to float/bool.
func asymLeaf(a, b ugo.Object, depth int) (string, string) {
	if depth < 32 {
		switch x := a.(type) {
		case ugo.Array:
			if y, ok := b.(ugo.Array); ok && len(x) == len(y) {
				for i := range x {
					if safeEq(x[i], y[i]) != safeEq(y[i], x[i]) {
						return asymLeaf(x[i], y[i], depth+1)
					}
				}
			}
		case ugo.Map:
			if y, ok := b.(ugo.Map); ok && len(x) == len(y) {
				keys := make([]string, 0, len(x))
				for k := range x {
					keys = append(keys, k)
				}
				sort.Strings(keys)
				for _, k := range keys {
					if w, ok := y[k]; ok && safeEq(x[k], w) != safeEq(w, x[k]) {
						return asymLeaf(x[k], w, depth+1)
					}
				}
			}
		}
	}
	return tname(a), tname(b)
}

func hasMap(o ugo.Object) bool {
	switch v := o.(type) {
	case ugo.Map, *ugo.SyncMap:
		return true
	case ugo.Array:
		for _, e := range v {
			if hasMap(e) {
				return true
			}
		}
	}
	return false
}

func trunc(s string) string {
	if len(s) > 200 {
		return s[:200] + "..."
	}
	return s
}

// ---------------------------------------------------------------------------
// the boundary pool

func buildPool(t *testing.T) []ugo.Object {
	var p []ugo.Object
	for _, v := range []int64{0, 1, -1, 2, 63, 64, 97, 1 << 31, (1 << 32) + 1, (1 << 53) + 1, math.MaxInt64, math.MinInt64} {
		p = append(p, ugo.Int(v))
	}
	for _, v := range []uint64{0, 1, 64, 97, 1 << 63, math.MaxUint64} {
		p = append(p, ugo.Uint(v))
	}
	for _, v := range []float64{0, math.Copysign(0, -1), 1, -1, 0.5, 97, 1e300, math.Inf(1), math.Inf(-1), math.NaN(),
		1 << 53, (1 << 53) + 2, 1 << 63} {
		p = append(p, ugo.Float(v))
	}
	for _, v := range []int32{0, 1, 'a', 0x10FFFF, -1, math.MaxInt32, math.MinInt32} {
		p = append(p, ugo.Char(v))
	}
	p = append(p, ugo.True, ugo.False)
	for _, s := range []string{"", "a", "b", "\xff"} {
		p = append(p, ugo.String(s))
	}
	for _, s := range []string{"", "a", "b", "\xff"} {
		p = append(p, ugo.Bytes(s))
	}
	p = append(p,
		ugo.Array{},
		ugo.Array{ugo.Int(1)},
		ugo.Array{ugo.Float(1)},
		ugo.Array{ugo.True},
		ugo.Array{ugo.Char(1)},
		ugo.Array{ugo.Uint(1)},
		ugo.Array{ugo.Array{ugo.Int(1)}, ugo.Map{"a": ugo.Int(1)}},
		ugo.Array{ugo.Array{ugo.Float(1)}, ugo.Map{"a": ugo.True}},
		ugo.Array{ugo.Float(math.NaN())},
		ugo.Array{ugo.Undefined},
		ugo.Array{ugo.String("a")},
		ugo.Array{ugo.Char('a')},
		ugo.Array{ugo.Float(97)},
	)
	p = append(p,
		ugo.Map{},
		ugo.Map{"a": ugo.Int(1)},
		ugo.Map{"a": ugo.Float(1)},
		ugo.Map{"a": ugo.True},
		ugo.Map{"a": ugo.Array{ugo.Int(1)}},
		ugo.Map{"b": ugo.Int(1)},
	)
	p = append(p, ugo.Undefined)
	e := &ugo.Error{Name: "MyError", Message: "boom"}
	p = append(p, e, &ugo.Error{Name: "MyError", Message: "boom"})
	// the value a script sees in `catch err` after `throw e`
	if bc, err := ugo.Compile([]byte("param e\ntry { throw e } catch err { return err }"), ugo.CompilerOptions{}); err == nil {
		if v, err := ugo.NewVM(bc).Run(nil, e); err == nil {
			if _, ok := v.(*ugo.RuntimeError); ok {
				p = append(p, v)
			}
		}
	}
	p = append(p, &ugo.Function{Name: "f", Value: func(...ugo.Object) (ugo.Object, error) { return ugo.Undefined, nil }})
	if bf, ok := ugo.BuiltinObjects[ugo.BuiltinLen].(*ugo.BuiltinFunction); ok {
		p = append(p, bf)
	}
	if bc, err := ugo.Compile([]byte("return func(x) { return x }"), ugo.CompilerOptions{}); err == nil {
		if v, err := ugo.NewVM(bc).Run(nil); err == nil {
			p = append(p, v)
		}
	}
	p = append(p, &ugo.SyncMap{Value: ugo.Map{}}, &ugo.SyncMap{Value: ugo.Map{"a": ugo.Int(1)}})
	return p
}

// ---------------------------------------------------------------------------
// checker

type caseData struct {
	Op string `json:"op"`
	A  string `json:"a"`
	B  string `json:"b"`
}

type checker struct {
	rec     *ev.Rec
	sc      *scripts
	classes map[string]int
	unknown map[string]string
	order   []string

	// replay mode: only this signature is recorded
	replaySig  string
	replayHit  bool
	replayWhat string
	// optional filter for the enumeration (replay)
	opFilter string

	// VM evaluation of only a subset of operators (rapid phase); nil = all
	vmOps map[int]bool
}

func newChecker(rec *ev.Rec, sc *scripts) *checker {
	return &checker{rec: rec, sc: sc, classes: map[string]int{}, unknown: map[string]string{}}
}

func (c *checker) class(name string) { c.classes[name]++ }

func (c *checker) flushClasses() {
	for k, n := range c.classes {
		c.rec.ClassN(k, n)
	}
	c.classes = map[string]int{}
}

func (c *checker) report(sig, what string, cd caseData) {
	cd.A, cd.B = trunc(cd.A), trunc(cd.B)
	if c.replaySig != "" {
		if sig == c.replaySig && !c.replayHit {
			c.replayHit = true
			c.replayWhat = what
		}
		return
	}
	known := c.rec.Violation(sig, what, cd)
	if known {
		return
	}
	c.rec.Unfreeze() // nothing is shrunk here: keep counting
	if _, ok := c.unknown[sig]; !ok {
		c.unknown[sig] = what
		c.order = append(c.order, sig)
	}
}

func panicClass(op opInfo, b ugo.Object) string {
	switch {
	case (op.tok == token.Quo || op.tok == token.Rem) && isNumZero(b):
		return "zero"
	case (op.tok == token.Shl || op.tok == token.Shr) && isNegSigned(b):
		return "negshift"
	}
	return "other"
}

// ordered holds the direct outcomes of all binary operators for (a, b).
type ordered struct {
	res [17]outcome
}

func (o *ordered) relDefined() bool {
	for _, i := range []int{iLess, iLe, iGt, iGe} {
		r := o.res[i]
		if !r.isValue() {
			return false
		}
		if _, ok := r.val.(ugo.Bool); !ok {
			return false
		}
	}
	return true
}

func (o *ordered) b(i int) bool { return bool(o.res[i].val.(ugo.Bool)) }

// evalOrdered evaluates every binary operator on (a, b) directly and through
// the VM and applies the per-evaluation oracles (no panic, error kind,
// reference value, VM == direct, != is the negation of ==).
func (c *checker) evalOrdered(a, b ugo.Object, da, db string, exhaustive bool) *ordered {
	ta, tb := tname(a), tname(b)
	numeric := kindOf(a) != kOther && kindOf(b) != kOther
	out := &ordered{}
	var vmEq, vmNe outcome
	n := 0
	for i, op := range binOps {
		if c.opFilter != "" && op.name != c.opFilter {
			continue
		}
		n++
		cd := caseData{Op: op.sym, A: da, B: db}
		d := direct(op, a, b)
		out.res[i] = d
		c.class(op.class + ":" + d.kind())
		if exhaustive {
			c.rec.NonTriv(op.name + "|" + da + "|" + db)
		}

		// (1) never a Go panic
		if d.pan != "" {
			site := d.site
			if site == "" {
				site = ta + ":" + tb
			}
			c.report(fmt.Sprintf("panic:%s:%s:%s", op.name, site, panicClass(op, b)),
				fmt.Sprintf("%s %s %s (direct %s call) panics instead of raising a uGO error: %s", da, op.sym, db, methodOf(op), d.pan), cd)
		}

		// (2) reference / error kind
		var e expect
		if numeric {
			e = refBinary(op.tok, a, b)
			if op.class != "eq" {
				// == is compared with the reference in checkPair once it is known
				// to be symmetric (one root cause, one signature); != is tied to
				// == by the negation law
				c.checkRef(op, e, d, ta, tb, da, db, cd)
			}
		}
		if d.err != nil && !(numeric && e.mode == expAnyErr) {
			switch {
			case d.isTypeErr():
			case d.isZeroDiv() && (op.tok == token.Quo || op.tok == token.Rem) && isNumZero(b):
			default:
				c.report(fmt.Sprintf("err-kind:%s:%s:%s", op.name, ta, tb),
					fmt.Sprintf("%s %s %s raises %s, expected TypeError/InvalidOperatorError (or ZeroDivisionError for a zero divisor)", da, op.sym, db, d), cd)
			}
		}
		if d.pan == "" && d.err == nil && d.val == nil {
			c.report(fmt.Sprintf("nil-result:%s:%s:%s", op.name, ta, tb), fmt.Sprintf("%s %s %s returned (nil, nil)", da, op.sym, db), cd)
		}

		// (3) the VM dispatch gives the same answer
		if c.vmOps == nil || c.vmOps[i] {
			v := viaVM(c.sc.bin[i], a, b)
			c.class("vm:" + v.kind())
			if i == iEq {
				vmEq = v
			} else if i == iNe {
				vmNe = v
			}
			if v.dump() != d.dump() {
				if _, isStr := d.val.(ugo.String); isStr && v.isValue() && d.isValue() && (hasMap(a) || hasMap(b)) {
					// String + map renders the map in Go's random iteration order
					if _, ok := v.val.(ugo.String); ok {
						c.rec.Exclude("vm-vs-direct-not-compared:string-rendering-of-map-has-random-key-order")
						continue
					}
				}
				if v.pan != "" {
					c.report(fmt.Sprintf("panic:%s:%s:%s", op.name, orDefault(v.site, "vm"), panicClass(op, b)),
						fmt.Sprintf("`return a %s b` with a=%s b=%s panics in the VM: %s", op.sym, da, db, v.pan), cd)
				} else {
					c.report(fmt.Sprintf("vm-vs-direct:%s:%s:%s", op.name, ta, tb),
						fmt.Sprintf("a=%s b=%s: `a %s b` on the VM gives %s, the direct %s call gives %s", da, db, op.sym, v, methodOf(op), d), cd)
				}
			}
		}
	}
	// (4) a != b is the negation of a == b (both through the VM)
	if vmEq.isValue() && vmNe.isValue() {
		eq, ok1 := vmEq.val.(ugo.Bool)
		ne, ok2 := vmNe.val.(ugo.Bool)
		if !ok1 || !ok2 || eq == ne {
			c.report(fmt.Sprintf("neq-not-negation:%s:%s", ta, tb),
				fmt.Sprintf("a=%s b=%s: a==b is %s but a!=b is %s", da, db, vmEq, vmNe), caseData{Op: "!=", A: da, B: db})
		}
	}
	c.rec.Cases(n)
	return out
}

func orDefault(s, d string) string {
	if s == "" {
		return d
	}
	return s
}

func methodOf(op opInfo) string {
	if op.class == "eq" {
		return "Equal"
	}
	return "BinaryOp"
}

func sameDump(got outcome, want ugo.Object) bool {
	return want != nil && got.isValue() && canon.Value(got.val) == canon.Value(want)
}

func (c *checker) checkRef(op opInfo, e expect, got outcome, ta, tb, da, db string, cd caseData) {
	if got.pan != "" {
		return // reported as a panic
	}
	bad := func(want string) {
		sig := fmt.Sprintf("ref:%s:%s:%s", op.name, ta, tb)
		if got.isTypeErr() && (e.mode == expValue || e.mode == expZeroDiv || e.mode == expValueOrZeroDiv) {
			// a documented operand combination is rejected altogether: one root
			// cause (missing case) for every operator of that type pair
			sig = fmt.Sprintf("ref-unsupported:%s:%s", ta, tb)
		}
		c.report(sig, fmt.Sprintf("%s %s %s = %s, documented conversion rules give %s", da, op.sym, db, got, want), cd)
	}
	switch e.mode {
	case expUnspec:
		c.rec.Exclude("value-not-asserted:" + e.why)
	case expValue:
		if !sameDump(got, e.val) && !sameDump(got, e.alt) {
			bad(canon.Value(e.val))
		}
	case expZeroDiv:
		if !got.isZeroDiv() {
			bad("ZeroDivisionError")
		}
	case expTypeErr:
		if !got.isTypeErr() {
			bad("TypeError")
		}
	case expAnyErr:
		if got.err == nil {
			c.report(fmt.Sprintf("ref:%s:%s:%s:negshift-no-error", op.name, ta, tb),
				fmt.Sprintf("%s %s %s = %s, a negative shift count must raise an error", da, op.sym, db, got), cd)
		}
	case expValueOrTypeErr:
		c.rec.Exclude("definedness-not-asserted:" + e.why)
		if !got.isTypeErr() && !sameDump(got, e.val) {
			bad(canon.Value(e.val) + " or TypeError")
		}
	case expValueOrZeroDiv:
		c.rec.Exclude("either-accepted:" + e.why)
		if !got.isZeroDiv() && !sameDump(got, e.val) {
			bad(canon.Value(e.val) + " or ZeroDivisionError")
		}
	}
}

// checkPair evaluates both orders of (a, b) and applies the laws relating
// them. same: a and b are the same pool element (only one order exists).
func (c *checker) checkPair(a, b ugo.Object, da, db string, same, exhaustive bool) {
	ta, tb := tname(a), tname(b)
	ab := c.evalOrdered(a, b, da, db, exhaustive)
	c.class(pairCat(a, b))
	ba := ab
	if !same {
		ba = c.evalOrdered(b, a, db, da, exhaustive)
		c.class(pairCat(b, a))
	}
	if c.opFilter != "" {
		return // single-operator replay: the laws need every operator
	}
	eqAB, eqBA := ab.res[iEq], ba.res[iEq]
	if !eqAB.isValue() || !eqBA.isValue() {
		return // Equal panicked: reported
	}
	// a == b  <=>  b == a
	if ab.b(iEq) != ba.b(iEq) {
		la, lb := asymLeaf(a, b, 0)
		c.report("equal-asym:"+sorted2(la, lb),
			fmt.Sprintf("(%s == %s) is %v but (%s == %s) is %v", da, db, ab.b(iEq), db, da, ba.b(iEq)), caseData{Op: "==", A: da, B: db})
		c.class("law:equal-symmetry:violated")
		return // the ordering laws are stated in terms of a single a==b
	}
	c.class("law:equal-symmetry:held")
	if kindOf(a) != kOther && kindOf(b) != kOther {
		eqOp := binOps[iEq]
		c.checkRef(eqOp, refBinary(token.Equal, a, b), eqAB, ta, tb, da, db, caseData{Op: "==", A: da, B: db})
		if !same {
			c.checkRef(eqOp, refBinary(token.Equal, b, a), eqBA, tb, ta, db, da, caseData{Op: "==", A: db, B: da})
		}
	}

	// ordering laws: only when < <= > >= are all defined in both directions
	dAB, dBA := ab.relDefined(), ba.relDefined()
	switch {
	case dAB && dBA:
	case dAB != dBA:
		c.class("law:ordering:skipped-defined-in-one-direction-only")
		if same || exhaustive {
			c.rec.Exclude("ordering-defined-in-one-direction-only:" + ta + ":" + tb)
		}
		return
	default:
		some := false
		for _, i := range []int{iLess, iLe, iGt, iGe} {
			some = some || ab.res[i].isValue() || ba.res[i].isValue()
		}
		if some {
			c.class("law:ordering:skipped-partially-defined")
		} else {
			c.class("law:ordering:skipped-undefined")
		}
		return
	}
	if isNaN(a) || isNaN(b) {
		c.class("law:ordering:skipped-NaN")
		return
	}
	c.class("law:ordering:checked")
	eq := ab.b(iEq)
	lt, le, gt := ab.b(iLess), ab.b(iLe), ab.b(iGt)
	lt2, le2, gt2 := ba.b(iLess), ba.b(iLe), ba.b(iGt)
	st := sorted2(ta, tb)
	n := 0
	for _, x := range []bool{lt, eq, gt} {
		if x {
			n++
		}
	}
	if n != 1 {
		c.report("law:trichotomy:"+st, fmt.Sprintf("a=%s b=%s: a<b=%v a==b=%v a>b=%v (exactly one must hold)", da, db, lt, eq, gt), caseData{Op: "<,==,>", A: da, B: db})
	}
	if le != (lt || eq) {
		c.report("law:lesseq:"+st, fmt.Sprintf("a=%s b=%s: a<=b=%v but a<b=%v a==b=%v", da, db, le, lt, eq), caseData{Op: "<=", A: da, B: db})
	}
	if le2 != (lt2 || eq) {
		c.report("law:lesseq:"+st, fmt.Sprintf("a=%s b=%s: a<=b=%v but a<b=%v a==b=%v", db, da, le2, lt2, eq), caseData{Op: "<=", A: db, B: da})
	}
	// the mirror image of the <= law (a>=b is b<=a)
	if ge, ge2 := ab.b(iGe), ba.b(iGe); ge != (gt || eq) {
		c.report("law:greatereq:"+st, fmt.Sprintf("a=%s b=%s: a>=b=%v but a>b=%v a==b=%v", da, db, ge, gt, eq), caseData{Op: ">=", A: da, B: db})
	} else if ge2 != (gt2 || eq) {
		c.report("law:greatereq:"+st, fmt.Sprintf("a=%s b=%s: a>=b=%v but a>b=%v a==b=%v", db, da, ge2, gt2, eq), caseData{Op: ">=", A: db, B: da})
	} else if ge != le2 {
		c.report("law:mirror:"+st, fmt.Sprintf("a=%s b=%s: a>=b=%v but b<=a=%v", da, db, ge, le2), caseData{Op: ">=", A: da, B: db})
	}
	if lt != gt2 {
		c.report("law:mirror:"+st, fmt.Sprintf("a=%s b=%s: a<b=%v but b>a=%v", da, db, lt, gt2), caseData{Op: "<", A: da, B: db})
	}
	if lt2 != gt {
		c.report("law:mirror:"+st, fmt.Sprintf("a=%s b=%s: a<b=%v but b>a=%v", db, da, lt2, gt), caseData{Op: "<", A: db, B: da})
	}
}

// checkUnary runs the four unary operators on a (VM only: they have no Go
// method).
func (c *checker) checkUnary(a ugo.Object, da string, exhaustive bool) {
	ta := tname(a)
	n := 0
	for i, op := range unOps {
		if c.opFilter != "" && op.name != c.opFilter {
			continue
		}
		n++
		cd := caseData{Op: "unary " + op.sym, A: da}
		v := viaVM(c.sc.un[i], a)
		c.class("unary:" + v.kind())
		if exhaustive {
			c.rec.NonTriv("unary-" + op.name + "|" + da)
		}
		if v.pan != "" {
			c.report(fmt.Sprintf("panic:%s:%s", op.name, ta), fmt.Sprintf("%s%s panics: %s", op.sym, da, v.pan), cd)
			continue
		}
		e := refUnary(op.tok, a)
		bad := func(want string) {
			c.report(fmt.Sprintf("ref:%s:%s", op.name, ta), fmt.Sprintf("%s%s = %s, documented: %s", op.sym, da, v, want), cd)
		}
		switch e.mode {
		case expUnspec:
			c.rec.Exclude("value-not-asserted:" + e.why)
			if v.err != nil && !v.isTypeErr() {
				bad("a value or TypeError")
			}
		case expValue:
			if !sameDump(v, e.val) && !sameDump(v, e.alt) {
				bad(canon.Value(e.val))
			}
		case expTypeErr:
			if !v.isTypeErr() {
				bad("TypeError")
			}
		}
	}
	c.rec.Cases(n)
}

// ---------------------------------------------------------------------------
// enumeration

var typeNames = map[string]bool{"int": true, "uint": true, "float": true, "char": true, "bool": true, "string": true, "bytes": true,
	"array": true, "map": true, "syncMap": true, "undefined": true, "error": true, "runtimeError": true, "function": true,
	"builtinFunction": true, "compiledFunction": true}

// enumerate runs the complete pool enumeration. types (optional, replay): only
// pairs whose type set intersects it (or that are containers, which may hold
// such leaves).
func (c *checker) enumerate(pool []ugo.Object, types map[string]bool) (pairs int) {
	dumps := make([]string, len(pool))
	for i, v := range pool {
		dumps[i] = canon.Value(v)
		if _, ok := v.(*ugo.Error); ok {
			dumps[i] += fmt.Sprintf("#%d", i) // errors compare by identity
		}
	}
	want := func(a, b ugo.Object) bool {
		if len(types) == 0 {
			return true
		}
		okA := types[tname(a)] || isContainer(a)
		okB := types[tname(b)] || isContainer(b)
		return okA && okB
	}
	for i, a := range pool {
		if len(types) == 0 || types[tname(a)] {
			c.checkUnary(a, dumps[i], true)
		}
		for j := i; j < len(pool); j++ {
			b := pool[j]
			if !want(a, b) {
				continue
			}
			c.checkPair(a, b, dumps[i], dumps[j], i == j, true)
			if i == j {
				pairs++
			} else {
				pairs += 2
			}
			if (i*len(pool)+j)%97 == 0 {
				c.rec.Sample(caseData{Op: binOps[(i+j)%len(binOps)].sym, A: trunc(dumps[i]), B: trunc(dumps[j])})
			}
		}
	}
	c.flushClasses()
	return pairs
}

// ---------------------------------------------------------------------------
// rapid generators

func genNumeric(t *rapid.T, label string) ugo.Object {
	switch rapid.SampledFrom([]string{"int", "uint", "float", "char", "bool"}).Draw(t, label+"kind") {
	case "int":
		return ugo.Int(vals.Int().Draw(t, label))
	case "uint":
		return ugo.Uint(vals.Uint().Draw(t, label))
	case "float":
		return ugo.Float(vals.Float().Draw(t, label))
	case "char":
		return ugo.Char(vals.Char().Draw(t, label))
	}
	return ugo.Bool(rapid.Bool().Draw(t, label))
}

// convertKind re-types a numeric value with Go's conversions (no care for
// range: out-of-range results are just other numbers).
func convertKind(o ugo.Object, k string) ugo.Object {
	var i int64
	var u uint64
	var f float64
	switch v := o.(type) {
	case ugo.Int:
		i, u, f = int64(v), uint64(v), float64(v)
	case ugo.Uint:
		i, u, f = int64(v), uint64(v), float64(v)
	case ugo.Float:
		f = float64(v)
		if f == f && math.Abs(f) < 1e18 {
			i = int64(f)
			u = uint64(i)
		}
	case ugo.Char:
		i, u, f = int64(v), uint64(v), float64(v)
	case ugo.Bool:
		if v {
			i, u, f = 1, 1, 1
		}
	default:
		return o
	}
	switch k {
	case "int":
		return ugo.Int(i)
	case "uint":
		return ugo.Uint(u)
	case "float":
		return ugo.Float(f)
	case "char":
		return ugo.Char(int32(i))
	case "bool":
		return ugo.Bool(i != 0)
	}
	return o
}

var numKinds = []string{"int", "uint", "float", "char", "bool"}

// recast copies a value, re-typing some numeric leaves (1 -> 1.0 -> true ->
// '\x01' -> 1u), swapping string/bytes and map/syncMap, so that equal-looking
// containers of mixed numeric kinds are compared.
func recast(t *rapid.T, o ugo.Object, depth int) ugo.Object {
	switch v := o.(type) {
	case ugo.Int, ugo.Uint, ugo.Float, ugo.Char, ugo.Bool:
		if rapid.IntRange(0, 2).Draw(t, "recast") == 0 {
			return o
		}
		return convertKind(o, rapid.SampledFrom(numKinds).Draw(t, "tokind"))
	case ugo.String:
		if rapid.IntRange(0, 3).Draw(t, "s2b") == 0 {
			return ugo.Bytes(string(v))
		}
		return v
	case ugo.Bytes:
		if rapid.IntRange(0, 3).Draw(t, "b2s") == 0 {
			return ugo.String(string(v))
		}
		return append(ugo.Bytes{}, v...)
	case ugo.Array:
		out := make(ugo.Array, len(v))
		for i := range v {
			out[i] = recast(t, v[i], depth+1)
		}
		return out
	case ugo.Map:
		out := make(ugo.Map, len(v))
		keys := make([]string, 0, len(v))
		for k := range v {
			keys = append(keys, k)
		}
		sort.Strings(keys) // draws must not depend on map iteration order
		for _, k := range keys {
			out[k] = recast(t, v[k], depth+1)
		}
		if rapid.IntRange(0, 5).Draw(t, "m2sm") == 0 {
			return &ugo.SyncMap{Value: out}
		}
		return out
	}
	return o
}

func related(t *rapid.T, a ugo.Object) ugo.Object {
	switch rapid.SampledFrom([]string{"rekind", "rekind", "succ", "shiftcount", "zero", "neg"}).Draw(t, "rel") {
	case "rekind":
		return convertKind(a, rapid.SampledFrom(numKinds).Draw(t, "tokind"))
	case "succ":
		switch v := a.(type) {
		case ugo.Int:
			return convertKind(v+1, rapid.SampledFrom(numKinds).Draw(t, "tokind"))
		case ugo.Uint:
			return convertKind(v+1, rapid.SampledFrom(numKinds).Draw(t, "tokind"))
		case ugo.Float:
			return ugo.Float(math.Nextafter(float64(v), math.Inf(1)))
		case ugo.Char:
			return convertKind(v+1, rapid.SampledFrom(numKinds).Draw(t, "tokind"))
		}
		return ugo.Int(1)
	case "shiftcount":
		return convertKind(ugo.Int(rapid.Int64Range(-3, 70).Draw(t, "cnt")), rapid.SampledFrom([]string{"int", "int", "uint", "char"}).Draw(t, "tokind"))
	case "zero":
		if rapid.Bool().Draw(t, "negzero") {
			return ugo.Float(math.Copysign(0, -1))
		}
		return convertKind(ugo.Int(0), rapid.SampledFrom(numKinds).Draw(t, "tokind"))
	}
	switch v := a.(type) {
	case ugo.Int:
		return -v
	case ugo.Uint:
		return ugo.Int(-int64(v))
	case ugo.Float:
		return -v
	case ugo.Char:
		return -v
	}
	return ugo.Int(-1)
}

func genPair(t *rapid.T, pool []ugo.Object) (a, b ugo.Object, mode string) {
	mode = rapid.SampledFrom([]string{"num-num", "num-num", "num-related", "num-related", "plain-plain", "plain-recast", "plain-recast", "pool-any"}).Draw(t, "mode")
	switch mode {
	case "num-num":
		return genNumeric(t, "a"), genNumeric(t, "b"), mode
	case "num-related":
		a = genNumeric(t, "a")
		return a, related(t, a), mode
	case "plain-plain":
		return vals.Plain(vals.Opts{MaxDepth: 3}).Draw(t, "a"), vals.Plain(vals.Opts{MaxDepth: 3}).Draw(t, "b"), mode
	case "plain-recast":
		a = vals.Plain(vals.Opts{MaxDepth: 3}).Draw(t, "a")
		return a, recast(t, a, 0), mode
	}
	a = rapid.SampledFrom(pool).Draw(t, "poolvalue")
	if rapid.Bool().Draw(t, "poolrecast") {
		return a, recast(t, a, 0), mode
	}
	return a, vals.Plain(vals.Opts{MaxDepth: 2}).Draw(t, "b"), mode
}

// ---------------------------------------------------------------------------
// replay

// parseSig extracts the operator name and the type names mentioned by a
// signature produced by this check.
func parseSig(sig string) (op string, types map[string]bool) {
	types = map[string]bool{}
	for _, f := range strings.Split(sig, ":") {
		for _, o := range binOps {
			if o.name == f {
				op = f
			}
		}
		for _, o := range unOps {
			if o.name == f {
				op = f
			}
		}
		if typeNames[f] {
			types[f] = true
		}
	}
	return op, types
}

// ---------------------------------------------------------------------------

func TestCheck(t *testing.T) {
	rec := ev.New("C15")
	rec.Rule = "(1) complete enumeration of a boundary pool of values of every built-in type (ints, uints, floats incl. +-0/+-Inf/NaN, chars incl. negative/max, bools, strings, bytes, arrays and maps mixing numeric kinds, undefined, errors, functions, syncMaps): all ordered pairs x 17 binary operators + 4 unary operators, each evaluated by a direct Equal/BinaryOp call AND by `return a <op> b` on a VM without recovery; " +
		"(2) rapid: random numeric pairs (independent, or b derived from a: same value in another numeric kind, successor, shift counts -3..70, zeros, negation) and random nested containers (independent, or b = copy of a with numeric leaves re-typed / string<->bytes / map<->syncMap). " +
		"Oracles: == symmetric, != its negation; trichotomy, <= and mirror laws when < <= > >= are all defined both ways and no NaN; numeric results equal an independent Go reference of the documented conversions; zero divisor -> ZeroDivisionError, unsupported operands -> TypeError/InvalidOperatorError, negative shift count -> an error; never a Go panic; VM result == direct result. " +
		"Non-trivial = cross-type or boundary pair (every pool pair; every rapid pair that is cross-type, contains a container or a boundary number); distinct by (operator, canonical dump of a, canonical dump of b) in the enumeration and by (dump a, dump b) in the rapid part"
	rec.Assumptions = []string{
		"reference semantics are written from docs/operators.md and docs/runtime-types.md with plain Go operators (ref_test.go), independently of numeric.go/objects.go",
		"values are not asserted where the docs are silent or contradict the widening conversion (counted under excluded): int/uint <-> char relational beyond 32 bits, float <-> char equality, char & char, unary minus of the minimal char, float division by zero (Inf/NaN or ZeroDivisionError both accepted)",
		"ordering laws are applied only to pairs for which < <= > >= succeed in both directions and neither operand is a NaN float, as the property conditions them",
		"uint << int(-1): the documented conversion makes the count unsigned, so no error is demanded",
	}
	defer func() { rec.Flush(!t.Failed() || rec.HasUnknown()) }()

	sc := compileScripts(t)
	pool := buildPool(t)
	c := newChecker(rec, sc)
	defer c.flushClasses()

	if ev.ReplayOnly() {
		for _, rf := range rec.Replays() {
			op, types := parseSig(rf.Sig)
			rc := newChecker(rec, sc)
			rc.replaySig = rf.Sig
			rc.opFilter = op
			if strings.HasPrefix(rf.Sig, "equal-asym:") || strings.HasPrefix(rf.Sig, "law:") || strings.HasPrefix(rf.Sig, "neq-") {
				rc.opFilter = ""
			}
			n := rc.enumerate(pool, types)
			var cd caseData
			_ = json.Unmarshal(rf.Case, &cd)
			if rc.replayHit {
				// recorded with the stored case so that no new replay file appears
				if !rec.Violation(rf.Sig, rc.replayWhat, rf.Case) {
					rec.Unfreeze()
				}
				t.Errorf("replay %s: signature %s still occurs (stored case: %s %s %s)", rf.Path, rf.Sig, cd.A, cd.Op, cd.B)
			} else {
				t.Logf("replay %s: signature %s no longer occurs in %d enumerated pairs", rf.Path, rf.Sig, n)
			}
		}
		return
	}

	// Part 1: exhaustive enumeration of the pool.
	t0 := time.Now()
	pairs := c.enumerate(pool, nil)
	rec.Note("exhaustive_wall_s", math.Round(time.Since(t0).Seconds()*100)/100)
	rec.Note("exhaustive_pool_values", len(pool))
	rec.Note("exhaustive_pool_pairs", pairs)
	rec.Note("exhaustive_evaluations", pairs*len(binOps)+len(pool)*len(unOps))
	rec.Note("exhaustive_each_evaluated", "direct call and VM script")
	if pairs != len(pool)*len(pool) {
		t.Errorf("enumeration incomplete: %d pairs of %d", pairs, len(pool)*len(pool))
	}

	// Part 2: random pairs. All operators directly, a random subset through the VM.
	n := ev.N(20000, 1000000)
	const ntCap = 100000
	nt := 0
	boundary := map[string]bool{}
	for _, v := range vals.Ints {
		boundary[canon.Value(ugo.Int(v))] = true
	}
	for _, v := range vals.Uints {
		boundary[canon.Value(ugo.Uint(v))] = true
	}
	for _, v := range vals.Floats {
		boundary[canon.Value(ugo.Float(v))] = true
	}
	for _, v := range vals.Chars {
		boundary[canon.Value(ugo.Char(v))] = true
	}
	ev.RapidCheck(t, "random-pairs", n, 1, func(rt *rapid.T) {
		a, b, mode := genPair(rt, pool)
		c.vmOps = map[int]bool{iEq: true, iNe: true}
		for k := 0; k < 3; k++ {
			c.vmOps[rapid.IntRange(0, len(binOps)-1).Draw(rt, "vmop")] = true
		}
		da, db := canon.Value(a), canon.Value(b)
		c.checkPair(a, b, da, db, false, false)
		c.checkUnary(a, da, false)
		c.class("rapid:" + mode)
		if nt < ntCap && (tname(a) != tname(b) || isContainer(a) || isContainer(b) || boundary[da] || boundary[db]) {
			rec.NonTriv("pair|" + da + "|" + db)
			nt++
		}
		rec.Sample(caseData{Op: "all", A: trunc(da), B: trunc(db)})
	})
	c.vmOps = nil
	rec.Note("rapid_pairs", n)
	rec.Note("rapid_nontrivial_recorded_cap", ntCap)

	for _, sig := range c.order {
		t.Errorf("VIOLATION %s: %s", sig, c.unknown[sig])
	}
}
