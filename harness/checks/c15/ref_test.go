package c15

// Reference semantics of the numeric operators, written from
// docs/operators.md and docs/runtime-types.md with plain Go operators and
// without looking at the BinaryOp/Equal switch statements of ozanh/ugo.
//
// Documented conversion rules used (docs/operators.md):
//   - bool values are treated as untyped 1 or 0 (they take the type of the
//     other operand; two bools default to int, as Go's untyped constants do)
//   - if LHS or RHS is float, the other operand is converted to float
//   - if LHS or RHS is uint, a signed integer is converted to uint
//   - if LHS or RHS is char, the other operand is converted to char; char only
//     supports + and - with int/uint, and * / % | ^ &^ << >> with char
//   - float <-> char is a TypeError
//   - % & | ^ &^ << >> are not defined for float
//   - the operation itself is the Go operation (wrap-around)
//
// Where the docs are silent, self-contradictory or disagree with the natural
// widening conversion the reference answers "unspecified" (or accepts both
// readings) and the caller only applies the algebraic laws.

import (
	"github.com/ozanh/ugo"
	"github.com/ozanh/ugo/token"
)

type kind int

const (
	kInt kind = iota
	kUint
	kFloat
	kChar
	kBool
	kOther
)

func kindOf(o ugo.Object) kind {
	switch o.(type) {
	case ugo.Int:
		return kInt
	case ugo.Uint:
		return kUint
	case ugo.Float:
		return kFloat
	case ugo.Char:
		return kChar
	case ugo.Bool:
		return kBool
	}
	return kOther
}

type expMode int

const (
	expValue          expMode = iota // exactly val
	expZeroDiv                       // ZeroDivisionError
	expTypeErr                       // TypeError / InvalidOperatorError
	expAnyErr                        // some uGO error (negative shift count)
	expUnspec                        // docs do not decide: laws only
	expValueOrTypeErr                // docs contradict themselves about definedness
	expValueOrZeroDiv                // float division by zero: Go value (Inf/NaN) or ZeroDivisionError
)

type expect struct {
	mode expMode
	val  ugo.Object
	alt  ugo.Object // second accepted value (unary on char: result type not documented)
	why  string     // exclusion counter name for expUnspec / relaxed modes
}

func value(o ugo.Object) expect { return expect{mode: expValue, val: o} }

func boolNum(b ugo.Bool, k kind) ugo.Object {
	n := 0
	if b {
		n = 1
	}
	switch k {
	case kUint:
		return ugo.Uint(n)
	case kFloat:
		return ugo.Float(n)
	case kChar:
		return ugo.Char(n)
	}
	return ugo.Int(n)
}

func isRelational(op token.Token) bool {
	switch op {
	case token.Less, token.LessEq, token.Greater, token.GreaterEq, token.Equal, token.NotEqual:
		return true
	}
	return false
}

// refBinary returns the documented result of `a op b` for two numeric
// operands (int, uint, float, char, bool).
func refBinary(op token.Token, a, b ugo.Object) expect {
	ka, kb := kindOf(a), kindOf(b)
	if ka == kOther || kb == kOther {
		return expect{mode: expUnspec, why: "non-numeric-operand"}
	}
	// bool -> untyped 1 / 0
	switch {
	case ka == kBool && kb == kBool:
		a, b, ka, kb = boolNum(a.(ugo.Bool), kInt), boolNum(b.(ugo.Bool), kInt), kInt, kInt
	case ka == kBool:
		a, ka = boolNum(a.(ugo.Bool), kb), kb
	case kb == kBool:
		b, kb = boolNum(b.(ugo.Bool), ka), ka
	}
	switch {
	case ka == kb:
		// nothing to convert
	case (ka == kFloat && kb == kChar) || (ka == kChar && kb == kFloat):
		if op == token.Equal || op == token.NotEqual {
			// the conversion table says TypeError but == / != cannot raise
			return expect{mode: expUnspec, why: "float-char-equality-undocumented"}
		}
		return expect{mode: expTypeErr}
	case ka == kFloat:
		b = toFloat(b)
	case kb == kFloat:
		a = toFloat(a)
	case ka == kChar || kb == kChar:
		switch {
		case op == token.Add || op == token.Sub:
			if ka == kChar {
				b = toCharTrunc(b)
			} else {
				a = toCharTrunc(a)
			}
		case isRelational(op):
			// docs: rune(p); natural reading: widen the char. Assert only
			// when both readings give the same answer.
			var a1, b1, a2, b2 ugo.Object
			if ka == kChar {
				a1, b1 = a, toCharTrunc(b)
				a2, b2 = widenChar(a.(ugo.Char), kb), b
			} else {
				a1, b1 = toCharTrunc(a), b
				a2, b2 = a, widenChar(b.(ugo.Char), ka)
			}
			r1, r2 := sameType(op, a1, b1), sameType(op, a2, b2)
			if r1.mode == expValue && r2.mode == expValue && r1.val == r2.val {
				return r1
			}
			return expect{mode: expUnspec, why: "char-int-relational-beyond-32bit(docs:rune(p),natural:widen)"}
		default:
			return expect{mode: expTypeErr}
		}
	case ka == kUint:
		b = ugo.Uint(uint64(int64(b.(ugo.Int))))
	case kb == kUint:
		a = ugo.Uint(uint64(int64(a.(ugo.Int))))
	}
	return sameType(op, a, b)
}

func toFloat(o ugo.Object) ugo.Object {
	switch v := o.(type) {
	case ugo.Int:
		return ugo.Float(float64(int64(v)))
	case ugo.Uint:
		return ugo.Float(float64(uint64(v)))
	}
	return o
}

func toCharTrunc(o ugo.Object) ugo.Object {
	switch v := o.(type) {
	case ugo.Int:
		return ugo.Char(int32(int64(v)))
	case ugo.Uint:
		return ugo.Char(int32(uint64(v)))
	}
	return o
}

func widenChar(c ugo.Char, k kind) ugo.Object {
	if k == kUint {
		return ugo.Uint(uint64(int32(c)))
	}
	return ugo.Int(int64(int32(c)))
}

func sameType(op token.Token, a, b ugo.Object) expect {
	switch x := a.(type) {
	case ugo.Int:
		return opInt(op, int64(x), int64(b.(ugo.Int)))
	case ugo.Uint:
		return opUint(op, uint64(x), uint64(b.(ugo.Uint)))
	case ugo.Float:
		return opFloat(op, float64(x), float64(b.(ugo.Float)))
	case ugo.Char:
		return opChar(op, int32(x), int32(b.(ugo.Char)))
	}
	return expect{mode: expUnspec, why: "non-numeric-operand"}
}

func opInt(op token.Token, x, y int64) expect {
	switch op {
	case token.Add:
		return value(ugo.Int(x + y))
	case token.Sub:
		return value(ugo.Int(x - y))
	case token.Mul:
		return value(ugo.Int(x * y))
	case token.Quo:
		if y == 0 {
			return expect{mode: expZeroDiv}
		}
		return value(ugo.Int(x / y))
	case token.Rem:
		if y == 0 {
			return expect{mode: expZeroDiv}
		}
		return value(ugo.Int(x % y))
	case token.And:
		return value(ugo.Int(x & y))
	case token.Or:
		return value(ugo.Int(x | y))
	case token.Xor:
		return value(ugo.Int(x ^ y))
	case token.AndNot:
		return value(ugo.Int(x &^ y))
	case token.Shl:
		if y < 0 {
			return expect{mode: expAnyErr}
		}
		return value(ugo.Int(x << uint64(y)))
	case token.Shr:
		if y < 0 {
			return expect{mode: expAnyErr}
		}
		return value(ugo.Int(x >> uint64(y)))
	case token.Less:
		return value(ugo.Bool(x < y))
	case token.LessEq:
		return value(ugo.Bool(x <= y))
	case token.Greater:
		return value(ugo.Bool(x > y))
	case token.GreaterEq:
		return value(ugo.Bool(x >= y))
	case token.Equal:
		return value(ugo.Bool(x == y))
	case token.NotEqual:
		return value(ugo.Bool(x != y))
	}
	return expect{mode: expUnspec, why: "unknown-operator"}
}

func opUint(op token.Token, x, y uint64) expect {
	switch op {
	case token.Add:
		return value(ugo.Uint(x + y))
	case token.Sub:
		return value(ugo.Uint(x - y))
	case token.Mul:
		return value(ugo.Uint(x * y))
	case token.Quo:
		if y == 0 {
			return expect{mode: expZeroDiv}
		}
		return value(ugo.Uint(x / y))
	case token.Rem:
		if y == 0 {
			return expect{mode: expZeroDiv}
		}
		return value(ugo.Uint(x % y))
	case token.And:
		return value(ugo.Uint(x & y))
	case token.Or:
		return value(ugo.Uint(x | y))
	case token.Xor:
		return value(ugo.Uint(x ^ y))
	case token.AndNot:
		return value(ugo.Uint(x &^ y))
	case token.Shl:
		return value(ugo.Uint(x << y))
	case token.Shr:
		return value(ugo.Uint(x >> y))
	case token.Less:
		return value(ugo.Bool(x < y))
	case token.LessEq:
		return value(ugo.Bool(x <= y))
	case token.Greater:
		return value(ugo.Bool(x > y))
	case token.GreaterEq:
		return value(ugo.Bool(x >= y))
	case token.Equal:
		return value(ugo.Bool(x == y))
	case token.NotEqual:
		return value(ugo.Bool(x != y))
	}
	return expect{mode: expUnspec, why: "unknown-operator"}
}

func opFloat(op token.Token, x, y float64) expect {
	switch op {
	case token.Add:
		return value(ugo.Float(x + y))
	case token.Sub:
		return value(ugo.Float(x - y))
	case token.Mul:
		return value(ugo.Float(x * y))
	case token.Quo:
		if y == 0 {
			// Go yields +-Inf / NaN, the property asks for ZeroDivisionError on
			// "division by zero": both readings accepted.
			return expect{mode: expValueOrZeroDiv, val: ugo.Float(x / y), why: "float-division-by-zero(go:Inf/NaN,property:ZeroDivisionError)"}
		}
		return value(ugo.Float(x / y))
	case token.Rem, token.And, token.Or, token.Xor, token.AndNot, token.Shl, token.Shr:
		return expect{mode: expTypeErr}
	case token.Less:
		return value(ugo.Bool(x < y))
	case token.LessEq:
		return value(ugo.Bool(x <= y))
	case token.Greater:
		return value(ugo.Bool(x > y))
	case token.GreaterEq:
		return value(ugo.Bool(x >= y))
	case token.Equal:
		return value(ugo.Bool(x == y))
	case token.NotEqual:
		return value(ugo.Bool(x != y))
	}
	return expect{mode: expUnspec, why: "unknown-operator"}
}

func opChar(op token.Token, x, y int32) expect {
	switch op {
	case token.Add:
		return value(ugo.Char(x + y))
	case token.Sub:
		return value(ugo.Char(x - y))
	case token.Mul:
		return value(ugo.Char(x * y))
	case token.Quo:
		if y == 0 {
			return expect{mode: expZeroDiv}
		}
		return value(ugo.Char(x / y))
	case token.Rem:
		if y == 0 {
			return expect{mode: expZeroDiv}
		}
		return value(ugo.Char(x % y))
	case token.And:
		// the rule listing the char-char operators omits '&' while listing | ^ &^
		return expect{mode: expValueOrTypeErr, val: ugo.Char(x & y), why: "char-and-char-not-listed-in-docs"}
	case token.Or:
		return value(ugo.Char(x | y))
	case token.Xor:
		return value(ugo.Char(x ^ y))
	case token.AndNot:
		return value(ugo.Char(x &^ y))
	case token.Shl:
		if y < 0 {
			return expect{mode: expAnyErr}
		}
		return value(ugo.Char(x << uint32(y)))
	case token.Shr:
		if y < 0 {
			return expect{mode: expAnyErr}
		}
		return value(ugo.Char(x >> uint32(y)))
	case token.Less:
		return value(ugo.Bool(x < y))
	case token.LessEq:
		return value(ugo.Bool(x <= y))
	case token.Greater:
		return value(ugo.Bool(x > y))
	case token.GreaterEq:
		return value(ugo.Bool(x >= y))
	case token.Equal:
		return value(ugo.Bool(x == y))
	case token.NotEqual:
		return value(ugo.Bool(x != y))
	}
	return expect{mode: expUnspec, why: "unknown-operator"}
}

// refUnary: docs/operators.md "Unary Operators" and the IsFalsy table of
// docs/runtime-types.md.
func refUnary(op token.Token, a ugo.Object) expect {
	if op == token.Not {
		switch v := a.(type) {
		case ugo.Int:
			return value(ugo.Bool(v == 0))
		case ugo.Uint:
			return value(ugo.Bool(v == 0))
		case ugo.Float:
			f := float64(v)
			return value(ugo.Bool(f != f))
		case ugo.Bool:
			return value(ugo.Bool(!v))
		case ugo.Char:
			return value(ugo.Bool(v == 0))
		case ugo.String:
			return value(ugo.Bool(len(v) == 0))
		case ugo.Bytes:
			return value(ugo.Bool(len(v) == 0))
		case ugo.Array:
			return value(ugo.Bool(len(v) == 0))
		case ugo.Map:
			return value(ugo.Bool(len(v) == 0))
		case *ugo.Error, *ugo.RuntimeError:
			return value(ugo.True)
		case *ugo.UndefinedType:
			return value(ugo.True)
		}
		return expect{mode: expUnspec, why: "falsiness-of-type-not-documented"}
	}
	var n int64
	switch v := a.(type) {
	case ugo.Int:
		switch op {
		case token.Add:
			return value(v)
		case token.Sub:
			return value(ugo.Int(0 - int64(v)))
		case token.Xor:
			return value(ugo.Int(-1 ^ int64(v)))
		}
	case ugo.Uint:
		switch op {
		case token.Add:
			return value(v)
		case token.Sub:
			return value(ugo.Uint(0 - uint64(v)))
		case token.Xor:
			return value(ugo.Uint(^uint64(0) ^ uint64(v)))
		}
	case ugo.Float:
		switch op {
		case token.Add:
			return value(v)
		case token.Sub:
			return value(ugo.Float(-float64(v))) // -x, so that -(+0) is -0 as in Go
		case token.Xor:
			return expect{mode: expTypeErr}
		}
	case ugo.Char:
		// supported, but the result type (char or int) is not documented
		c := int32(v)
		switch op {
		case token.Add:
			return expect{mode: expValue, val: v, alt: ugo.Int(int64(c))}
		case token.Sub:
			if int64(0-c) != 0-int64(c) {
				return expect{mode: expUnspec, why: "unary-minus-char-min-int32(result-width-undocumented)"}
			}
			return expect{mode: expValue, val: ugo.Int(0 - int64(c)), alt: ugo.Char(0 - c)}
		case token.Xor:
			return expect{mode: expValue, val: ugo.Int(-1 ^ int64(c)), alt: ugo.Char(-1 ^ c)}
		}
	case ugo.Bool:
		if v {
			n = 1
		}
		switch op {
		case token.Add:
			return value(ugo.Int(n))
		case token.Sub:
			return value(ugo.Int(0 - n))
		case token.Xor:
			return value(ugo.Int(-1 ^ n))
		}
	default:
		return expect{mode: expTypeErr}
	}
	return expect{mode: expUnspec, why: "unknown-operator"}
}
