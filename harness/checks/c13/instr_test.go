package c13

import (
	"sort"
	"sync"

	"github.com/ozanh/ugo"
	"github.com/ozanh/ugo/encoder"
)

// Process-wide instrumentation of ugo.BuiltinObjects: every *BuiltinFunction
// entry is replaced by a proxy that records its name and delegates. The VM
// fetches builtins from this table at run time (OpGetBuiltin), the optimizer's
// private VM does the same at compile time, the decoder looks entries up by
// name - so any call of a builtin by script code passes through a proxy.

const makeArrayName = ":makeArray"

var (
	instrOnce sync.Once
	origObjs  [len(ugo.BuiltinObjects)]ugo.Object
	wrapObjs  [len(ugo.BuiltinObjects)]ugo.Object

	invMu   sync.Mutex
	invoked = map[string]int{}

	nameOfType = map[int]string{} // BuiltinType -> name
	allNames []string           // every key of BuiltinsMap, sorted
)

func note(name string) {
	invMu.Lock()
	invoked[name]++
	invMu.Unlock()
}

func resetInvoked() {
	invMu.Lock()
	invoked = map[string]int{}
	invMu.Unlock()
}

func invokedNames() map[string]bool {
	invMu.Lock()
	defer invMu.Unlock()
	m := map[string]bool{}
	for k := range invoked {
		m[k] = true
	}
	return m
}

func instrument() {
	instrOnce.Do(func() {
		for n, t := range ugo.BuiltinsMap {
			nameOfType[int(t)] = n
			allNames = append(allNames, n)
		}
		sort.Strings(allNames)
		for i, o := range ugo.BuiltinObjects {
			origObjs[i] = o
			wrapObjs[i] = o
			bf, ok := o.(*ugo.BuiltinFunction)
			if !ok || bf == nil {
				continue
			}
			orig := bf
			w := &ugo.BuiltinFunction{Name: orig.Name}
			if orig.Value != nil {
				w.Value = func(args ...ugo.Object) (ugo.Object, error) {
					note(orig.Name)
					return orig.Value(args...)
				}
			}
			if orig.ValueEx != nil {
				w.ValueEx = func(c ugo.Call) (ugo.Object, error) {
					note(orig.Name)
					return orig.ValueEx(c)
				}
			}
			wrapObjs[i] = w
		}
		useWrapped(true)
	})
}

// useWrapped installs the proxies (true) or the original table (false).
func useWrapped(on bool) {
	for i := range ugo.BuiltinObjects {
		if on {
			ugo.BuiltinObjects[i] = wrapObjs[i]
		} else {
			ugo.BuiltinObjects[i] = origObjs[i]
		}
	}
}

// leaked lists the disabled names found in rec (":makeArray" is documented as exempt).
func leaked(rec map[string]bool, dset map[string]bool) []string {
	var out []string
	for n := range rec {
		if dset[n] && n != makeArrayName {
			out = append(out, n)
		}
	}
	sort.Strings(out)
	return out
}

// scanBytecode returns the builtin names referenced by OpGetBuiltin in Main and
// every function constant, and the builtin names whose object is a constant.
func scanBytecode(bc *ugo.Bytecode) (getb map[string]bool, consts map[string]bool) {
	getb, consts = map[string]bool{}, map[string]bool{}
	visit := func(f *ugo.CompiledFunction) {
		if f == nil {
			return
		}
		ugo.IterateInstructions(f.Instructions, func(_ int, op ugo.Opcode, operands []int, _ int) bool {
			if op == ugo.OpGetBuiltin && len(operands) > 0 {
				if n, ok := nameOfType[operands[0]]; ok {
					getb[n] = true
				} else {
					getb["?unknown-builtin-index"] = true
				}
			}
			return true
		})
	}
	var obj func(o ugo.Object, depth int)
	obj = func(o ugo.Object, depth int) {
		if o == nil || depth > 6 {
			return
		}
		for i := range origObjs {
			if o == origObjs[i] || o == wrapObjs[i] {
				consts[nameOfType[i]] = true
			}
		}
		switch v := o.(type) {
		case *ugo.CompiledFunction:
			visit(v)
		case *ugo.BuiltinFunction:
			if v != nil && isBuiltinName(v.Name) {
				consts[v.Name] = true
			}
		case ugo.Array:
			for _, e := range v {
				obj(e, depth+1)
			}
		case ugo.Map:
			for _, e := range v {
				obj(e, depth+1)
			}
		}
	}
	visit(bc.Main)
	for _, c := range bc.Constants {
		obj(c, 0)
	}
	return
}

func roundTrip(bc *ugo.Bytecode) (*ugo.Bytecode, error) {
	data, err := (*encoder.Bytecode)(bc).MarshalBinary()
	if err != nil {
		return nil, err
	}
	var out encoder.Bytecode
	if err := out.UnmarshalBinary(data); err != nil {
		return nil, err
	}
	return (*ugo.Bytecode)(&out), nil
}
