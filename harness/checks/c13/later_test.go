package c13

import (
	"context"
	"fmt"
	"strings"
	"testing"
	"time"

	"github.com/ozanh/ugo"

	"verif/internal/ev"
)

// disableLater: the host disables a builtin in the session's symbol table AFTER an earlier
// fragment (or an earlier Compile with the same table) already referenced it. From then on every
// unbound reference must be a compile error and no produced bytecode may reference the builtin.
func disableLater(t *testing.T, rec *ev.Rec) {
	names := []string{"len", "int", "string", "append", "typeName", "println", "sprintf", "isInt", "error", "copy", "contains", "globals", "TypeError"}
	uses := map[string]string{
		"top":      "x%d := NAME",
		"call":     "NAME(1)",
		"in-func":  "f%d := func() { return NAME }",
		"in-block": "if true { y%d := NAME }",
		"in-const": "z%d := [NAME][0]",
	}
	mods := func() *ugo.ModuleMap {
		mm := ugo.NewModuleMap()
		for _, n := range names {
			mm.AddSourceModule("uses_"+n, []byte("return "+n))
		}
		return mm
	}
	reported := map[string]bool{}
	report := func(sig, what string, c any) {
		if !rec.Violation(sig, what, c) && !reported[sig] {
			reported[sig] = true
			t.Errorf("%s: %s", sig, what)
		}
	}
	n := 0
	for _, name := range names {
		for firstKind, first := range uses {
			for secondKind, second := range uses {
				for _, noopt := range []bool{false, true} {
					n++
					rec.Case()
					st := ugo.NewSymbolTable()
					e := ugo.NewEval(ugo.CompilerOptions{SymbolTable: st, ModuleMap: mods(), NoOptimize: noopt}, nil)
					run := func(src string) (*ugo.Bytecode, error) {
						ctx, cancel := context.WithTimeout(context.Background(), 2*time.Second)
						defer cancel()
						_, bc, err := e.Run(ctx, []byte(src))
						return bc, err
					}
					f1 := strings.ReplaceAll(fmt.Sprintf(strings.ReplaceAll(first, "NAME", "@"), n), "@", name)
					if !strings.Contains(first, "%d") {
						f1 = strings.ReplaceAll(first, "NAME", name)
					}
					_, _ = run(f1) // may fail at run time (e.g. len(1)); compiling it caches the builtin symbol
					// one call may name several builtins, used by the session or not, in any order
					switch n % 4 {
					case 0:
						st.DisableBuiltin(name)
					case 1:
						st.DisableBuiltin("isCallable", name) // a name the session never used comes first
					case 2:
						st.DisableBuiltin(name, "isCallable", "isIterable")
					default:
						st.DisableBuiltin("isIterable", "isCallable", name, "isSyncMap")
					}
					f2 := strings.ReplaceAll(second, "NAME", name)
					if strings.Contains(second, "%d") {
						f2 = strings.ReplaceAll(fmt.Sprintf(strings.ReplaceAll(second, "NAME", "@"), n+100000), "@", name)
					}
					c := map[string]any{"name": name, "first": f1, "second": f2, "no_optimize": noopt}
					bc, err := run(f2)
					leaked := false
					if bc != nil {
						getb, consts := scanBytecode(bc)
						leaked = getb[name] || consts[name]
					}
					if leaked || (err == nil) || (err != nil && !strings.Contains(err.Error(), "unresolved reference")) {
						if bc != nil && !leaked && err != nil {
							// compiled without the builtin and failed for another reason at run time?
							// not expected: an unbound use cannot compile.
						}
						if err == nil || leaked {
							report("leak:compiled-despite-disabled:disabled-after-use", fmt.Sprintf("builtin %q disabled after fragment %q used it (%s): later fragment %q (%s) compiled (err=%v, GETBUILTIN present=%v)", name, f1, firstKind, f2, secondKind, err, leaked), c)
							continue
						}
					}
					// a module using the name, imported now, must be rejected as well
					if _, err := run(fmt.Sprintf("m%d := import(\"uses_%s\")", n, name)); err == nil {
						report("leak:compiled-despite-disabled:module-after-late-disable", fmt.Sprintf("builtin %q disabled after use: a source module using it still compiles", name), c)
						continue
					}
					// the script may still declare its own variable of that name
					if secondKind == "top" {
						if _, err := run(fmt.Sprintf("%s := 5; w%d := %s", name, n, name)); err != nil && strings.Contains(err.Error(), "unresolved") {
							report("over-rejection:bound-name-rejected:disabled-after-use", fmt.Sprintf("declaring a variable named %q after the builtin was disabled is rejected: %v", name, err), c)
							continue
						}
					}
					rec.NonTriv(fmt.Sprintf("later:%s:%s:%s:%v", name, firstKind, secondKind, noopt))
					rec.Class("disabled-after-use")
				}
			}
		}
	}
	rec.Note("disable_later_sessions", n)
}
