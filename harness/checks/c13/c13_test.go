// C13 - a disabled builtin cannot be reached by any script.
//
// Oracle: an independent name resolver over the generator's AST decides for
// every occurrence of a builtin name whether the script bound it; a script with
// an unbound use of a disabled name in code that is compiled must be rejected
// with `unresolved reference "name"`, any other script must compile exactly as
// with nothing disabled; produced Bytecode (also after encode/decode) has no
// GETBUILTIN operand / constant of a disabled builtin; recording proxies in
// ugo.BuiltinObjects prove that no disabled builtin runs at compile time
// (optimizer) or run time.
package c13

import (
	"encoding/json"
	"errors"
	"fmt"
	"os"
	"regexp"
	"sort"
	"strings"
	"testing"
	"time"

	"github.com/ozanh/ugo"
	"pgregory.net/rapid"

	"verif/internal/ev"
	"verif/internal/gen"
	"verif/internal/prog"
	"verif/internal/run"
)

type optCfg struct {
	NoOptimize bool `json:"no_optimize"`
	Limit      int  `json:"optimizer_limit,omitempty"`
}

func (o optCfg) String() string {
	switch {
	case o.NoOptimize:
		return "optimizer-off"
	case o.Limit > 0:
		return fmt.Sprintf("optimizer-limit-%d", o.Limit)
	}
	return "optimizer-on"
}

func (o optCfg) opts(disabled []string, mods map[string]string) ugo.CompilerOptions {
	st := ugo.NewSymbolTable()
	st.DisableBuiltin(disabled...)
	c := ugo.CompilerOptions{SymbolTable: st, NoOptimize: o.NoOptimize, OptimizerLimit: o.Limit}
	if len(mods) > 0 {
		c.ModuleMap = prog.ModuleMap(mods, nil)
	}
	return c
}

type fragCase struct {
	Src      string   `json:"src"`
	Expect   string   `json:"expect"`
	Culprits []string `json:"culprits,omitempty"`
}

// replayCase = {program text, disabled names, options, mode} + the expectation
// the resolver derived (the resolver works on the AST, replays only have text).
type replayCase struct {
	prog.Case
	Mode       string     `json:"mode"` // "compile" | "eval"
	Disabled   []string   `json:"disabled"`
	Opt        optCfg     `json:"options"`
	Expect     string     `json:"expect,omitempty"`   // must-fail | must-compile | either
	Culprits   []string   `json:"culprits,omitempty"` // disabled names with an unbound use
	Where      string     `json:"where,omitempty"`
	RunDecoded bool       `json:"run_decoded,omitempty"`
	Fragments  []fragCase `json:"fragments,omitempty"`
}

type finding struct{ sig, what string }

const (
	mustFail    = "must-fail"
	mustCompile = "must-compile"
	either      = "either"
)

var unresRe = regexp.MustCompile(`unresolved reference "([^"]+)"`)

// unresolvedName: the name of a compiler "unresolved reference" error.
func unresolvedName(err error) (string, bool) {
	var ce *ugo.CompilerError
	if !errors.As(err, &ce) {
		return "", false
	}
	m := unresRe.FindStringSubmatch(ce.Err.Error())
	if m == nil {
		return "", false
	}
	return m[1], true
}

func isOptimizerErr(err error) bool {
	var oe *ugo.OptimizerError
	return errors.As(err, &oe) || strings.Contains(err.Error(), "Optimizer Error")
}

func has(list []string, s string) bool {
	for _, x := range list {
		if x == s {
			return true
		}
	}
	return false
}

func firstLine(s string) string { return run.FirstLine(s) }

// judgeCompile compiles c with the disabled set and applies the oracle.
// status: "" judged; otherwise why the case was not (fully) judged.
func judgeCompile(c *replayCase, args []ugo.Object, globals ugo.Map) (f *finding, status string) {
	dset := set(c.Disabled...)
	desc := func() string {
		return fmt.Sprintf("disabled=%v %s expect=%s culprits=%v\n--- script ---\n%s%s", c.Disabled, c.Opt, c.Expect, c.Culprits, c.Src, modText(c.Modules))
	}
	resetInvoked()
	bc, err, pan := run.Compile(c.Src, c.Opt.opts(c.Disabled, c.Modules))
	if pan != "" {
		return nil, "compile-panic(C05)"
	}
	if l := leaked(invokedNames(), dset); len(l) > 0 {
		return &finding{"leak:disabled-builtin-invoked-at-compile-time",
			fmt.Sprintf("disabled builtin(s) %v were CALLED while compiling (optimizer evaluation); %s", l, desc())}, ""
	}
	if err != nil {
		name, unres := unresolvedName(err)
		switch {
		case unres && dset[name] && has(c.Culprits, name):
			if c.Expect == mustCompile {
				return nil, "HARNESS: culprits listed for a must-compile case"
			}
			return nil, ""
		case unres && dset[name] && c.Expect == mustCompile:
			return &finding{"over-rejection:bound-name-rejected",
				fmt.Sprintf("every use of %q is bound by the script, yet compilation fails only because the name is disabled: %s; %s", name, firstLine(err.Error()), desc())}, ""
		case isOptimizerErr(err):
			return nil, "optimizer-refused(C01)"
		}
		return nil, fmt.Sprintf("HARNESS: unexpected compile error %q; %s", err.Error(), desc())
	}
	// compiled
	if c.Expect == mustFail {
		where := c.Where
		if !c.Opt.NoOptimize {
			// root cause discrimination: does the plain compiler reject it?
			if _, err2, _ := run.Compile(c.Src, optCfg{NoOptimize: true}.opts(c.Disabled, c.Modules)); err2 != nil {
				where = "optimizer"
			}
		}
		return &finding{"leak:compiled-despite-disabled:" + where,
			fmt.Sprintf("script has an unbound use of disabled builtin(s) %v in compiled code but Compile succeeded; %s", c.Culprits, desc())}, ""
	}
	if f := checkBytecode(bc, dset, "compiled bytecode", desc); f != nil {
		return f, ""
	}
	dec, rerr := roundTrip(bc)
	if rerr != nil {
		status = "encode-decode-error(C04)"
	} else if f := checkBytecode(dec, dset, "bytecode after encode/decode", desc); f != nil {
		return f, ""
	}
	rbc := bc
	if c.RunDecoded && dec != nil {
		rbc = dec
	}
	lg := &run.Logger{}
	resetInvoked()
	out := run.Exec(rbc, run.Globals(globals, lg), lg, prog.CopyArgs(args), run.Opts{Recover: true, Timeout: 4 * time.Second})
	if out.TimedOut {
		return nil, "vm-watchdog"
	}
	if l := leaked(invokedNames(), dset); len(l) > 0 {
		return &finding{"leak:disabled-builtin-invoked-at-run-time",
			fmt.Sprintf("disabled builtin(s) %v were CALLED while running the compiled script (decoded=%v); %s", l, c.RunDecoded, desc())}, ""
	}
	return nil, status
}

func checkBytecode(bc *ugo.Bytecode, dset map[string]bool, which string, desc func() string) *finding {
	getb, consts := scanBytecode(bc)
	if l := leaked(getb, dset); len(l) > 0 {
		return &finding{"leak:getbuiltin-in-bytecode",
			fmt.Sprintf("%s has GETBUILTIN of disabled builtin(s) %v; %s", which, l, desc())}
	}
	if l := leaked(consts, dset); len(l) > 0 {
		return &finding{"leak:builtin-object-in-constants",
			fmt.Sprintf("%s has disabled builtin object(s) %v among its constants; %s", which, l, desc())}
	}
	return nil
}

func modText(m map[string]string) string {
	if len(m) == 0 {
		return ""
	}
	names := make([]string, 0, len(m))
	for n := range m {
		names = append(names, n)
	}
	sort.Strings(names)
	var sb strings.Builder
	for _, n := range names {
		fmt.Fprintf(&sb, "--- module %s ---\n%s", n, m[n])
	}
	return sb.String()
}

func profile(mods int) gen.Config {
	return gen.Config{MaxStmts: 22, MaxDepth: 3, MaxFnDepth: 3, MaxBlock: 4,
		Shadow: true, ConstHeavy: true, Closures: true, Calls: true, Try: true, Consts: true, Destruct: true, Log: true,
		Modules: mods}
}

// takeSome draws between lo and hi distinct names of pool.
func takeSome(rt *rapid.T, pool []string, lo, hi int, label string) []string {
	if len(pool) == 0 {
		return nil
	}
	if hi > len(pool) {
		hi = len(pool)
	}
	if lo > hi {
		lo = hi
	}
	k := rapid.IntRange(lo, hi).Draw(rt, label+"-k")
	perm := rapid.Permutation(pool).Draw(rt, label)
	out := append([]string{}, perm[:k]...)
	sort.Strings(out)
	return out
}

func minus(a []string, drop map[string]bool) []string {
	var out []string
	for _, x := range a {
		if !drop[x] {
			out = append(out, x)
		}
	}
	return out
}

func union(lists ...[]string) []string {
	m := map[string]bool{}
	for _, l := range lists {
		for _, x := range l {
			m[x] = true
		}
	}
	return sorted(m)
}

// drawDisabled: a non-empty subset of BuiltinsMap names, size 1..all, biased
// towards names the script mentions (bound and unbound).
func drawDisabled(rt *rapid.T, rs resolution) []string {
	bound, unb, all := rs.mentioned()
	boundOnly := minus(sorted(bound), unb)
	var d []string
	switch rapid.IntRange(0, 11).Draw(rt, "dkind") {
	case 0, 1:
		d = takeSome(rt, sorted(all), 1, 3, "mentioned")
	case 2, 3:
		d = takeSome(rt, boundOnly, 1, 4, "boundonly") // expected to compile
	case 4:
		d = union(takeSome(rt, sorted(unb), 1, 1, "oneunbound"), takeSome(rt, sorted(bound), 0, 3, "somebound"))
	case 5:
		d = append([]string{}, allNames...)
	case 6:
		d = minus(allNames, unb) // everything but what the script needs: expected to compile
	case 7:
		p := []int{10, 30, 50, 80}[rapid.IntRange(0, 3).Draw(rt, "density")]
		for _, n := range allNames {
			if rapid.IntRange(0, 99).Draw(rt, "in") < p {
				d = append(d, n)
			}
		}
	case 8:
		d = takeSome(rt, minus(allNames, all), 1, 5, "unmentioned")
	case 9:
		d = minus(allNames, set(takeSome(rt, sorted(all), 1, 1, "keepone")...))
	case 10:
		d = union(takeSome(rt, gen.ShadowNames, 1, 6, "shadownames"), takeSome(rt, []string{makeArrayName}, 0, 1, "makearray"))
	case 11:
		d = union(minus(allNames, unb), takeSome(rt, sorted(unb), 0, 1, "plusone"))
	}
	if len(d) == 0 {
		d = takeSome(rt, allNames, 1, 4, "fallback")
	}
	sort.Strings(d)
	return d
}

func drawOpt(rt *rapid.T) optCfg {
	switch rapid.IntRange(0, 4).Draw(rt, "optmode") {
	case 0, 1:
		return optCfg{NoOptimize: true}
	case 2, 3:
		return optCfg{}
	}
	return optCfg{Limit: rapid.IntRange(1, 3).Draw(rt, "limit")}
}

func sizeClass(d []string) string {
	switch n := len(d); {
	case n == len(allNames):
		return "D-size:all"
	case n == 1:
		return "D-size:1"
	case n <= 5:
		return "D-size:2-5"
	case n <= 20:
		return "D-size:6-20"
	}
	return "D-size:>20"
}

// whereOf: where the offending (unbound, disabled, certainly compiled) uses are.
func whereOf(rs resolution, dset map[string]bool, optimizer bool) string {
	w := ""
	for _, u := range rs.uses {
		if u.Bound || !dset[u.Name] || u.DeadX || (optimizer && u.DeadM) {
			continue
		}
		switch {
		case u.Module != "":
			return "module"
		case u.InFunc:
			w = "function"
		case w == "":
			w = "main"
		}
	}
	return w
}

func TestCheck(t *testing.T) {
	rec := ev.New("C13")
	rec.Rule = "programs from the scope-aware generator (profile Shadow+ConstHeavy+Closures+Calls+Try+Consts+Destruct+Log, 0..2 source modules: builtin names re-declared through every binding form and called; builtin calls on constants everywhere) x a random non-empty subset D of BuiltinsMap names disabled in the SymbolTable handed to the compiler (size 1..all, biased to names the script mentions bound/unbound) x optimizer off/on/limit 1..3 x encode/decode of the result; plus Eval sessions (NewEval with the disabled table; fragments that declare a disabled name through a binding form, use it bound later, use other disabled names unbound, import modules; a rejected fragment is repeated later). Own resolver over the AST decides bound/unbound per occurrence (validated on every case against the GETBUILTIN set of an unrestricted NoOptimize compile). Non-trivial = the script mentions >= 1 disabled name; distinct by (source text, sorted D)"
	rec.Assumptions = []string{
		"a use inside a branch the compiler provably skips (if / ?: whose condition is a bool literal, or - with the optimizer - may be folded to a literal) is unreachable, so such a script may either be rejected or compile (oracle 2 and 3 still apply); all other unbound uses of a disabled name must be rejected",
		"the private builtin :makeArray used for destructuring is exempt as documented in compiler_nodes.go",
		"builtin error values (TypeError, ...) are not callable and are covered by the compile-error and bytecode oracles only",
		"compile panics (C05), optimizer refusals present with nothing disabled (C01), encode/decode failures (C04/C11) and watchdog expiry are not judged here",
	}
	defer func() { rec.Flush(!t.Failed() || rec.HasUnknown()) }()

	instrument()
	runReplays(t, rec)
	if ev.ReplayOnly() {
		return
	}
	if !t.Run("selftest", func(t *testing.T) { selfTest(t, rec) }) {
		return // the instrumentation itself is broken: nothing below can be trusted
	}

	n := ev.N(8000, 40000)
	ev.RapidCheck(t, "compile", n, 1, func(rt *rapid.T) {
		gp := gen.Generate(rt, profile(rapid.IntRange(0, 2).Draw(rt, "modules")))
		p := prog.Prepare(gp)
		rs := resolveProgram(gp)
		rec.Case()

		// baseline: nothing disabled, optimizer off; validates generator and resolver
		bc0, err0, pan0 := run.Compile(p.Src, optCfg{NoOptimize: true}.opts(nil, p.ModSrc))
		if pan0 != "" {
			rec.Exclude("compile-panic(C05)")
			return
		}
		if err0 != nil {
			rt.Fatalf("HARNESS: generated program does not compile with nothing disabled: %v\n%s%s", err0, p.Src, modText(p.ModSrc))
		}
		exact, _ := rs.unbound(false)
		getb0, _ := scanBytecode(bc0)
		delete(getb0, makeArrayName)
		if a, b := strings.Join(sorted(exact), ","), strings.Join(sorted(getb0), ","); a != b {
			rt.Fatalf("HARNESS: harness:resolver-mismatch: resolver says unbound builtin uses {%s}, an unrestricted NoOptimize compile references {%s}\n%s%s", a, b, p.Src, modText(p.ModSrc))
		}

		d := drawDisabled(rt, rs)
		dset := set(d...)
		opt := drawOpt(rt)
		if !opt.NoOptimize {
			_, errB, panB := run.Compile(p.Src, opt.opts(nil, p.ModSrc))
			if panB != "" {
				rec.Exclude("compile-panic(C05)")
				return
			}
			if errB != nil {
				if isOptimizerErr(errB) {
					rec.Exclude("optimizer-refused(C01)")
					return
				}
				rt.Fatalf("HARNESS: generated program does not compile with nothing disabled (%s): %v\n%s%s", opt, errB, p.Src, modText(p.ModSrc))
			}
		}
		live, all := rs.unbound(!opt.NoOptimize)
		c := &replayCase{Case: p.Case(), Mode: "compile", Disabled: d, Opt: opt,
			Culprits:   inter(all, dset),
			Where:      whereOf(rs, dset, !opt.NoOptimize),
			RunDecoded: rapid.Bool().Draw(rt, "rundecoded")}
		switch {
		case len(inter(live, dset)) > 0:
			c.Expect = mustFail
		case len(c.Culprits) == 0:
			c.Expect = mustCompile
		default:
			c.Expect = either
		}
		f, status := judgeCompile(c, p.Args, p.Globals)
		if f != nil {
			if rec.Violation(f.sig, f.what, c) {
				return
			}
			rt.Fatalf("%s", f.what)
		}
		switch {
		case strings.HasPrefix(status, "HARNESS"):
			rt.Fatalf("%s", status)
		case status == "vm-watchdog":
			rec.Inconcl(status)
			return
		case status == "compile-panic(C05)" || status == "optimizer-refused(C01)":
			rec.Exclude(status)
			return
		case status != "":
			rec.Exclude(status)
		}
		classify(rec, rs, c, dset, p)
	})

	rec.Unfreeze()
	evalSessions(t, rec)
	t.Run("disable-later", func(t *testing.T) { disableLater(t, rec) })
}

func classify(rec *ev.Rec, rs resolution, c *replayCase, dset map[string]bool, p *prog.P) {
	_, _, mentioned := rs.mentioned()
	rec.Class("expect:" + c.Expect)
	rec.Class(c.Opt.String())
	rec.Class(sizeClass(c.Disabled))
	if c.Expect == either {
		rec.Exclude("oracle1:only-dead-code-uses-of-disabled-names")
	}
	if c.RunDecoded && c.Expect != mustFail {
		rec.Class("ran-decoded-bytecode")
	}
	if len(inter(mentioned, dset)) == 0 {
		rec.Class("trivial:no-disabled-name-mentioned")
		return
	}
	seen := map[string]bool{}
	cls := func(s string) {
		if !seen[s] {
			seen[s] = true
			rec.Class(s)
		}
	}
	for _, u := range rs.uses {
		if !dset[u.Name] {
			continue
		}
		kind := "unbound"
		if u.Bound {
			kind = "bound"
			cls("disabled-name-bound-by:" + u.Form)
		}
		if u.InFunc {
			cls("disabled-name-" + kind + "-in:function")
		}
		if u.Module != "" {
			cls("disabled-name-" + kind + "-in:module")
		}
		if u.InConst {
			cls("disabled-name-" + kind + "-in:const-expression")
		}
		if u.DeadM && !u.Bound {
			cls("disabled-name-unbound-in:maybe-dead-branch")
		}
	}
	for n, form := range rs.declared {
		if dset[n] {
			cls("disabled-name-declared-by:" + form)
		}
	}
	if has(c.Disabled, makeArrayName) && p.G.Features["destructuring"] > 0 {
		cls("makeArray-disabled+destructuring")
	}
	rec.NonTriv(p.Src + modText(p.ModSrc) + "\x00" + strings.Join(c.Disabled, ","))
	rec.Class("nontrivial")
	rec.Sample(map[string]any{"src": p.Src, "modules": p.ModSrc, "disabled": c.Disabled, "options": c.Opt.String(), "expect": c.Expect, "culprits": c.Culprits})
}

// selfTest: the proxies must be transparent (same outcomes as the original
// table on generated programs, both call paths work) and must record calls
// made at run time and at compile time.
func selfTest(t *testing.T, rec *ev.Rec) {
	// both call paths of a proxy
	w := ugo.BuiltinObjects[ugo.BuiltinLen].(*ugo.BuiltinFunction)
	if w == origObjs[ugo.BuiltinLen] || w.Name != "len" {
		t.Fatalf("HARNESS: proxy not installed")
	}
	resetInvoked()
	v1, e1 := w.Call(ugo.String("abc"))
	v2, e2 := w.CallEx(ugo.NewCall(nil, []ugo.Object{ugo.String("abcd")}))
	if e1 != nil || e2 != nil || v1 != ugo.Int(3) || v2 != ugo.Int(4) || invoked["len"] != 2 {
		t.Fatalf("HARNESS: proxy call paths broken: %v %v %v %v %v", v1, e1, v2, e2, invoked)
	}
	for _, noopt := range []bool{true, false} {
		resetInvoked()
		bc, err := ugo.Compile([]byte(`return len("abc") + int("4")`), ugo.CompilerOptions{NoOptimize: noopt})
		if err != nil {
			t.Fatalf("HARNESS: %v", err)
		}
		atCompile := invokedNames()
		resetInvoked()
		ret, err := ugo.NewVM(bc).Run(nil)
		atRun := invokedNames()
		if err != nil || ret != ugo.Int(7) {
			t.Fatalf("HARNESS: self test script: %v %v", ret, err)
		}
		if noopt && (len(atCompile) != 0 || !atRun["len"] || !atRun["int"]) {
			t.Fatalf("HARNESS: run-time calls not recorded: compile=%v run=%v", atCompile, atRun)
		}
		if !noopt && (!atCompile["len"] || !atCompile["int"] || len(atRun) != 0) {
			t.Fatalf("HARNESS: compile-time (optimizer) calls not recorded: compile=%v run=%v", atCompile, atRun)
		}
	}
	ev.RapidCheck(t, "selftest-proxies-transparent", 20, 7, func(rt *rapid.T) {
		gp := gen.Generate(rt, profile(rapid.IntRange(0, 2).Draw(rt, "modules")))
		p := prog.Prepare(gp)
		noopt := rapid.Bool().Draw(rt, "noopt")
		defer useWrapped(true)
		useWrapped(false)
		a, _, errA, panA := prog.RunVM(p, ugo.CompilerOptions{NoOptimize: noopt}, run.Opts{Recover: true})
		useWrapped(true)
		b, _, errB, panB := prog.RunVM(p, ugo.CompilerOptions{NoOptimize: noopt}, run.Opts{Recover: true})
		if (errA == nil) != (errB == nil) || panA != panB {
			rt.Fatalf("HARNESS: proxies change compilation: %v/%s vs %v/%s\n%s", errA, panA, errB, panB, p.Src)
		}
		if a.TimedOut || b.TimedOut {
			return
		}
		if d := a.Diff(b, true); d != "" {
			rt.Fatalf("HARNESS: proxies change behaviour: %s\n%s", d, p.Src)
		}
		rec.Class("selftest-program")
	})
}

func runReplays(t *testing.T, rec *ev.Rec) {
	for _, rf := range rec.Replays() {
		var c replayCase
		if err := json.Unmarshal(rf.Case, &c); err != nil {
			fmt.Fprintln(os.Stderr, "bad replay", rf.Path, err)
			continue
		}
		rec.Case()
		var f *finding
		var status string
		if c.Mode == "eval" {
			f, status = judgeEval(&c)
		} else {
			args, globals, err := prog.CaseInputs(c.Case)
			if err != nil {
				t.Errorf("replay %s: %v", rf.Path, err)
				continue
			}
			f, status = judgeCompile(&c, args, globals)
		}
		switch {
		case f != nil:
			if !rec.Violation(f.sig, "replay "+rf.Path+": "+f.what, c) {
				t.Errorf("replay %s: %s", rf.Path, f.what)
			}
		case strings.HasPrefix(status, "HARNESS"):
			t.Errorf("replay %s: %s", rf.Path, status)
		case status != "":
			rec.Exclude("replay:" + status)
		default:
			rec.Class("replay-pass")
		}
	}
}
