package c13

import (
	"fmt"
	"sort"

	"github.com/ozanh/ugo"

	"verif/internal/gen"
)

// An independent name resolver over the harness AST implementing uGO's scoping
// rules as documented (docs/tutorial.md) and as compiled:
//   - function scope (parameters) + a block scope for the body,
//   - if / for / for-in statements own a scope (init, key/value); their bodies
//     are nested block scopes; `else if` nests in the outer if's scope,
//   - a whole try/catch/finally statement is ONE scope; the catch identifier is
//     declared after the try body (visible in catch and finally only),
//   - a declaration is visible to following code only; the right-hand side of a
//     declaration is resolved before the name is declared,
//   - function literals see the enclosing scopes as they are at the literal,
//   - source modules are separate roots (they never see the importing script).
//
// It does not use the generator's bookkeeping.

// use is one occurrence of a builtin NAME in expression position.
type use struct {
	Name    string
	Bound   bool   // refers to a script declaration
	Form    string // binding form when bound
	InFunc  bool
	Module  string // "" = main script
	InConst bool   // callee of a call whose arguments are all constant-foldable
	DeadX   bool   // below a branch the compiler skips even without optimizer (literal bool condition)
	DeadM   bool   // below a branch whose condition MAY be folded to a literal by the optimizer
	Frag    int    // eval fragment index (0 for whole programs)
}

type rscope struct {
	parent *rscope
	names  map[string]string // name -> binding form
}

func newScope(parent *rscope) *rscope { return &rscope{parent: parent, names: map[string]string{}} }

func (s *rscope) lookup(name string) (string, bool) {
	for p := s; p != nil; p = p.parent {
		if f, ok := p.names[name]; ok {
			return f, true
		}
	}
	return "", false
}

func (s *rscope) clone() *rscope {
	c := newScope(s.parent)
	for k, v := range s.names {
		c.names[k] = v
	}
	return c
}

type resolver struct {
	mods     map[string][]gen.Stmt
	uses     []use
	declared map[string]string // builtin names declared anywhere -> a binding form
	sc       *rscope
	inFunc   int
	module   string
	deadX    bool
	deadM    bool
	frag     int
	modSeen  map[string]bool
	stack    []string // import stack (cycle guard)
	// modOnce: eval sessions compile a module once per session (module store)
	skipMod map[string]bool
}

func newResolver(mods map[string][]gen.Stmt) *resolver {
	return &resolver{mods: mods, declared: map[string]string{}, modSeen: map[string]bool{}, skipMod: map[string]bool{}}
}

func isBuiltinName(n string) bool { _, ok := ugo.BuiltinsMap[n]; return ok }

func (r *resolver) declare(name, form string) {
	if name == "" || name == "_" {
		return
	}
	r.sc.names[name] = form
	if isBuiltinName(name) {
		if _, ok := r.declared[name]; !ok {
			r.declared[name] = form
		}
	}
}

func (r *resolver) push() { r.sc = newScope(r.sc) }
func (r *resolver) pop()  { r.sc = r.sc.parent }

func (r *resolver) ident(name string, inConst bool) {
	form, bound := r.sc.lookup(name)
	if !bound && !isBuiltinName(name) {
		return // iota, or an undefined name (the baseline compile decides)
	}
	if !isBuiltinName(name) {
		return
	}
	r.uses = append(r.uses, use{Name: name, Bound: bound, Form: form, InFunc: r.inFunc > 0, Module: r.module,
		InConst: inConst, DeadX: r.deadX, DeadM: r.deadM, Frag: r.frag})
}

// mayFold over-approximates "the optimizer might replace e by a literal".
// Only a COMPILED reference to a script variable that is not a constant, a
// function literal or an import makes folding impossible (the optimizer's
// private compiler cannot resolve script variables); the branch of a ?: that
// is not taken is not compiled there, so it does not count.
func (r *resolver) mayFold(e gen.Expr) bool {
	switch e := e.(type) {
	case nil:
		return true
	case *gen.Lit:
		return true
	case *gen.Ident:
		form, bound := r.sc.lookup(e.Name)
		if !bound {
			return true
		}
		return form == "const"
	case *gen.Unary:
		return r.mayFold(e.X)
	case *gen.Binary:
		return r.mayFold(e.L) && r.mayFold(e.R)
	case *gen.Cond:
		// a branch that is not taken is not compiled by the optimizer's private
		// compiler, so script variables in it do not prevent folding
		if v, ok := isBoolLit(e.C); ok {
			if v {
				return r.mayFold(e.A)
			}
			return r.mayFold(e.B)
		}
		return r.mayFold(e.C) && (r.mayFold(e.A) || r.mayFold(e.B))
	case *gen.Paren:
		return r.mayFold(e.X)
	case *gen.ArrayLit:
		for _, x := range e.Elems {
			if !r.mayFold(x) {
				return false
			}
		}
		return true
	case *gen.MapLit:
		for _, x := range e.Elems {
			if !r.mayFold(x) {
				return false
			}
		}
		return true
	case *gen.Index:
		return r.mayFold(e.X) && r.mayFold(e.I)
	case *gen.Selector:
		return r.mayFold(e.X)
	case *gen.Slice:
		return r.mayFold(e.X) && r.mayFold(e.Lo) && r.mayFold(e.Hi)
	case *gen.Call:
		if !r.mayFold(e.Fn) {
			return false
		}
		for _, a := range e.Args {
			if !r.mayFold(a) {
				return false
			}
		}
		return true
	case *gen.FuncLit, *gen.Import:
		return false
	}
	panic(fmt.Sprintf("HARNESS: resolver: unknown expr %T", e))
}

func isBoolLit(e gen.Expr) (val, ok bool) {
	if l, isLit := e.(*gen.Lit); isLit && l.Kind == gen.LBool {
		return l.B, true
	}
	return false, false
}

// branch runs f with the dead flags of a branch guarded by cond taking value `taken`.
func (r *resolver) branch(cond gen.Expr, taken bool, f func()) {
	sx, sm := r.deadX, r.deadM
	if v, ok := isBoolLit(cond); ok {
		if v != taken {
			r.deadX, r.deadM = true, true
		}
	} else if r.mayFold(cond) {
		r.deadM = true
	}
	f()
	r.deadX, r.deadM = sx, sm
}

func (r *resolver) expr(e gen.Expr) {
	switch e := e.(type) {
	case nil:
	case *gen.Lit:
	case *gen.Ident:
		r.ident(e.Name, false)
	case *gen.Unary:
		r.expr(e.X)
	case *gen.Binary:
		r.expr(e.L)
		r.expr(e.R)
	case *gen.Cond:
		r.expr(e.C)
		r.branch(e.C, true, func() { r.expr(e.A) })
		r.branch(e.C, false, func() { r.expr(e.B) })
	case *gen.Paren:
		r.expr(e.X)
	case *gen.ArrayLit:
		for _, x := range e.Elems {
			r.expr(x)
		}
	case *gen.MapLit:
		for _, x := range e.Elems {
			r.expr(x)
		}
	case *gen.Index:
		r.expr(e.X)
		r.expr(e.I)
	case *gen.Selector:
		r.expr(e.X)
	case *gen.Slice:
		r.expr(e.X)
		r.expr(e.Lo)
		r.expr(e.Hi)
	case *gen.Call:
		if id, ok := e.Fn.(*gen.Ident); ok {
			allConst := true
			for _, a := range e.Args {
				if !r.mayFold(a) {
					allConst = false
				}
			}
			r.ident(id.Name, allConst)
		} else {
			r.expr(e.Fn)
		}
		for _, a := range e.Args {
			r.expr(a)
		}
	case *gen.FuncLit:
		outer := r.sc
		r.push() // function scope: parameters
		for _, p := range e.Params {
			r.declare(p, "funcparam")
		}
		r.push() // body block
		r.inFunc++
		r.stmts(e.Body)
		r.inFunc--
		r.sc = outer
	case *gen.Import:
		r.importMod(e.Name)
	default:
		panic(fmt.Sprintf("HARNESS: resolver: unknown expr %T", e))
	}
}

func (r *resolver) importMod(name string) {
	body, ok := r.mods[name]
	if !ok || r.skipMod[name] {
		return
	}
	for _, s := range r.stack {
		if s == name {
			return // cyclic import: a compile error of its own, never generated
		}
	}
	key := fmt.Sprintf("%s|%v|%v", name, r.deadX, r.deadM)
	if r.modSeen[key] {
		return
	}
	r.modSeen[key] = true
	sc, fn, mod := r.sc, r.inFunc, r.module
	r.sc, r.inFunc, r.module = newScope(nil), 0, name
	r.stack = append(r.stack, name)
	r.stmts(body)
	r.stack = r.stack[:len(r.stack)-1]
	r.sc, r.inFunc, r.module = sc, fn, mod
}

func (r *resolver) block(body []gen.Stmt) {
	r.push()
	r.stmts(body)
	r.pop()
}

func (r *resolver) stmts(ss []gen.Stmt) {
	for _, s := range ss {
		r.stmt(s)
	}
}

func (r *resolver) stmt(s gen.Stmt) {
	switch s := s.(type) {
	case nil:
	case *gen.Define:
		r.expr(s.X)
		form := "define"
		if len(s.Names) > 1 {
			form = "destructuring"
		}
		for _, n := range s.Names {
			r.declare(n, form)
		}
	case *gen.VarDecl:
		for i, n := range s.Names {
			if s.Values[i] != nil {
				r.expr(s.Values[i])
			}
			r.declare(n, "var")
		}
	case *gen.ConstDecl:
		var last gen.Expr
		for i, n := range s.Names {
			v := s.Values[i]
			if v == nil {
				v = last // implicit repetition re-compiles the previous expression
			} else {
				last = v
			}
			r.expr(v)
			r.declare(n, "const")
		}
	case *gen.ParamDecl:
		for _, n := range s.Names {
			r.declare(n, "param")
		}
	case *gen.GlobalDecl:
		for _, n := range s.Names {
			r.declare(n, "global")
		}
	case *gen.Assign:
		for _, t := range s.Targets {
			r.expr(t)
		}
		r.expr(s.X)
	case *gen.IncDec:
		r.expr(s.Target)
	case *gen.ExprStmt:
		r.expr(s.X)
	case *gen.If:
		r.ifStmt(s)
	case *gen.For:
		r.push()
		r.stmt(s.Init)
		r.expr(s.Cond)
		r.block(s.Body)
		r.stmt(s.Post)
		r.pop()
	case *gen.ForIn:
		r.push()
		r.expr(s.X)
		r.declare(s.Key, "forin-key")
		r.declare(s.Value, "forin-value")
		r.block(s.Body)
		r.pop()
	case *gen.Break, *gen.Continue:
	case *gen.Return:
		for _, x := range s.Xs {
			r.expr(x)
		}
	case *gen.Throw:
		r.expr(s.X)
	case *gen.Try:
		r.push() // the single scope of the whole statement
		r.stmts(s.Body)
		if s.HasCatch {
			r.declare(s.CatchIdent, "catch")
			r.stmts(s.Catch)
		}
		if s.HasFinally {
			r.stmts(s.Finally)
		}
		r.pop()
	default:
		panic(fmt.Sprintf("HARNESS: resolver: unsupported stmt %T", s))
	}
}

func (r *resolver) ifStmt(s *gen.If) {
	r.push()
	r.stmt(s.Init)
	r.expr(s.Cond)
	r.branch(s.Cond, true, func() { r.block(s.Then) })
	if s.HasElse || len(s.Else) > 0 {
		r.branch(s.Cond, false, func() {
			if len(s.Else) == 1 {
				if ei, ok := s.Else[0].(*gen.If); ok {
					r.ifStmt(ei) // else-if: nested in this statement's scope
					return
				}
			}
			r.block(s.Else)
		})
	}
	r.pop()
}

// ------------------------------------------------------------------ results

type resolution struct {
	uses     []use
	declared map[string]string
}

func resolveProgram(gp *gen.GenProgram) resolution {
	r := newResolver(gp.Modules)
	r.sc = newScope(nil)
	r.stmts(gp.Body)
	return resolution{uses: r.uses, declared: r.declared}
}

func set(names ...string) map[string]bool {
	m := map[string]bool{}
	for _, n := range names {
		m[n] = true
	}
	return m
}

func sorted(m map[string]bool) []string {
	out := make([]string, 0, len(m))
	for k := range m {
		out = append(out, k)
	}
	sort.Strings(out)
	return out
}

// unbound returns (live, all): builtin names with an unbound use in code that
// is certainly compiled / possibly compiled in the given mode.
func (rs resolution) unbound(optimizer bool) (live, all map[string]bool) {
	live, all = map[string]bool{}, map[string]bool{}
	for _, u := range rs.uses {
		if u.Bound || u.DeadX {
			continue
		}
		all[u.Name] = true
		if !optimizer || !u.DeadM {
			live[u.Name] = true
		}
	}
	return
}

// mentioned: every builtin name the script mentions (used or declared).
func (rs resolution) mentioned() (bound, unboundNames, all map[string]bool) {
	bound, unboundNames, all = map[string]bool{}, map[string]bool{}, map[string]bool{}
	for _, u := range rs.uses {
		all[u.Name] = true
		if u.Bound {
			bound[u.Name] = true
		} else {
			unboundNames[u.Name] = true
		}
	}
	for n := range rs.declared {
		all[n] = true
		bound[n] = true
	}
	return
}

func inter(a map[string]bool, b map[string]bool) []string {
	var out []string
	for k := range a {
		if b[k] {
			out = append(out, k)
		}
	}
	sort.Strings(out)
	return out
}
