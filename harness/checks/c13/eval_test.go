package c13

import (
	"context"
	"errors"
	"fmt"
	"sort"
	"strings"
	"testing"
	"time"

	"github.com/ozanh/ugo"
	"pgregory.net/rapid"

	"verif/internal/ev"
	"verif/internal/gen"
	"verif/internal/prog"
	"verif/internal/run"
)

// Eval sessions: the disabled set lives in the SymbolTable of the options given
// to NewEval; fragments are compiled one after another against that table.

// safeArgs: builtin names used by session fragments with arguments that never
// raise (so that the optimizer never refuses a fragment with nothing disabled).
var safeArgs = map[string]func() []gen.Expr{
	"int":         func() []gen.Expr { return []gen.Expr{gen.StrLit("7")} },
	"uint":        func() []gen.Expr { return []gen.Expr{gen.StrLit("7")} },
	"float":       func() []gen.Expr { return []gen.Expr{gen.StrLit("7")} },
	"len":         func() []gen.Expr { return []gen.Expr{gen.StrLit("abc")} },
	"string":      func() []gen.Expr { return []gen.Expr{gen.IntLit(7)} },
	"typeName":    func() []gen.Expr { return []gen.Expr{gen.IntLit(1)} },
	"isInt":       func() []gen.Expr { return []gen.Expr{gen.IntLit(1)} },
	"isString":    func() []gen.Expr { return []gen.Expr{gen.StrLit("a")} },
	"isError":     func() []gen.Expr { return []gen.Expr{gen.IntLit(1)} },
	"isArray":     func() []gen.Expr { return []gen.Expr{gen.IntLit(1)} },
	"isUndefined": func() []gen.Expr { return []gen.Expr{gen.IntLit(1)} },
	"bool":        func() []gen.Expr { return []gen.Expr{gen.IntLit(1)} },
	"char":        func() []gen.Expr { return []gen.Expr{gen.IntLit(65)} },
	"error":       func() []gen.Expr { return []gen.Expr{gen.StrLit("x")} },
	"sprintf":     func() []gen.Expr { return []gen.Expr{gen.StrLit("%v"), gen.IntLit(1)} },
	"contains":    func() []gen.Expr { return []gen.Expr{gen.StrLit("abc"), gen.StrLit("b")} },
	"chars":       func() []gen.Expr { return []gen.Expr{gen.StrLit("ab")} },
	"bytes":       func() []gen.Expr { return []gen.Expr{gen.StrLit("ab")} },
	"copy":        func() []gen.Expr { return []gen.Expr{gen.IntLit(1)} },
	"append":      func() []gen.Expr { return []gen.Expr{&gen.ArrayLit{Elems: []gen.Expr{gen.IntLit(1)}}, gen.IntLit(2)} },
}

var safePool = func() []string {
	var out []string
	for n := range safeArgs {
		out = append(out, n)
	}
	sort.Strings(out)
	return out
}()

func callOf(name string) gen.Expr {
	return &gen.Call{Fn: gen.Id(name), Args: safeArgs[name]()}
}

func shadowFnLit() gen.Expr {
	return &gen.FuncLit{Params: []string{"sa"}, Variadic: true,
		Body: []gen.Stmt{&gen.Return{Xs: []gen.Expr{&gen.ArrayLit{Elems: []gen.Expr{gen.StrLit("F"), gen.Id("sa")}}}}}}
}

type sessGen struct {
	rt      *rapid.T
	d       []string
	dset    map[string]bool
	opt     optCfg
	r       *resolver
	uniq    int
	last    placed
	mods    map[string][]gen.Stmt
	failing []placed // single-statement fragments that were expected to be rejected (for repetition)
}

// placed: an expression at a syntactic position (re-rendered with fresh temporaries when repeated).
type placed struct {
	e   gen.Expr
	pos int
}

func (g *sessGen) fresh() string { g.uniq++; return fmt.Sprintf("t%d", g.uniq) }

func (g *sessGen) pick(pool []string, label string) (string, bool) {
	if len(pool) == 0 {
		return "", false
	}
	return pool[rapid.IntRange(0, len(pool)-1).Draw(g.rt, label)], true
}

var mainPositions = []int{0, 1, 2, 3, 4, 5, 6, 7, 8, 9, 10}
var modPositions = []int{1, 2, 5, 6, 8, 9}

// place puts expression e into ONE statement at a drawn syntactic position.
func (g *sessGen) place(e gen.Expr, positions []int) (gen.Stmt, string) {
	pos := positions[rapid.IntRange(0, len(positions)-1).Draw(g.rt, "position")]
	g.last = placed{e, pos}
	return g.placeAt(e, pos)
}

func (g *sessGen) placeAt(e gen.Expr, pos int) (gen.Stmt, string) {
	def := func() gen.Stmt { return &gen.Define{Names: []string{g.fresh()}, X: e} }
	switch pos {
	case 0:
		return &gen.Return{Xs: []gen.Expr{e}}, "return"
	case 1:
		return def(), "define-rhs"
	case 2:
		return &gen.Define{Names: []string{g.fresh()}, X: &gen.Call{Fn: &gen.FuncLit{Body: []gen.Stmt{&gen.Return{Xs: []gen.Expr{e}}}}}}, "function-body"
	case 3:
		return &gen.Return{Xs: []gen.Expr{&gen.ArrayLit{Elems: []gen.Expr{e, gen.IntLit(1)}}}}, "array-element"
	case 4:
		return &gen.If{Cond: gen.Id("cv"), Then: []gen.Stmt{def()}}, "if-block"
	case 5:
		return &gen.ForIn{Key: "_", Value: "fv", X: &gen.ArrayLit{Elems: []gen.Expr{gen.IntLit(1)}}, Body: []gen.Stmt{def()}}, "forin-block"
	case 6:
		return &gen.Try{Body: []gen.Stmt{def()}, HasCatch: true, CatchIdent: "err", Catch: []gen.Stmt{}, HasFinally: true, Finally: []gen.Stmt{def()}}, "try-block"
	case 7:
		return &gen.Assign{Targets: []gen.Expr{gen.Id("acc")}, Op: "=", X: e}, "assign-rhs"
	case 8:
		inner := &gen.FuncLit{Body: []gen.Stmt{&gen.Return{Xs: []gen.Expr{e}}}}
		return &gen.Define{Names: []string{g.fresh()}, X: &gen.FuncLit{Body: []gen.Stmt{&gen.Return{Xs: []gen.Expr{inner}}}}}, "nested-function"
	case 9:
		return &gen.ConstDecl{Names: []string{g.fresh()}, Values: []gen.Expr{e}}, "const-rhs"
	}
	return &gen.Return{Xs: []gen.Expr{&gen.Cond{C: gen.Id("cv"), A: e, B: gen.IntLit(0)}}}, "cond-branch"
}

// rootDeclared: disabled names currently declared at the session's root scope.
func (g *sessGen) rootNames() map[string]bool {
	m := map[string]bool{}
	for n := range g.r.sc.names {
		m[n] = true
	}
	return m
}

func (g *sessGen) poolD(declared bool) []string {
	root := g.rootNames()
	var out []string
	for _, n := range safePool {
		if g.dset[n] && root[n] == declared {
			out = append(out, n)
		}
	}
	return out
}

func (g *sessGen) poolFree() []string {
	root := g.rootNames()
	var out []string
	for _, n := range safePool {
		if !g.dset[n] && !root[n] {
			out = append(out, n)
		}
	}
	return out
}

// declareRoot: one statement declaring name at the root scope.
func (g *sessGen) declareRoot(name string) (gen.Stmt, string) {
	switch rapid.IntRange(0, 5).Draw(g.rt, "declform") {
	case 0:
		return &gen.Define{Names: []string{name}, X: shadowFnLit()}, "define"
	case 1:
		return &gen.VarDecl{Names: []string{name}, Values: []gen.Expr{shadowFnLit()}}, "var"
	case 2:
		return &gen.ConstDecl{Names: []string{name}, Values: []gen.Expr{shadowFnLit()}}, "const-func"
	case 3:
		return &gen.ConstDecl{Names: []string{name}, Values: []gen.Expr{gen.IntLit(5)}}, "const-literal"
	case 4:
		return &gen.GlobalDecl{Names: []string{name}}, "global"
	}
	return &gen.Define{Names: []string{name, g.fresh()}, X: &gen.ArrayLit{Elems: []gen.Expr{shadowFnLit(), gen.IntLit(1)}}}, "destructuring"
}

// declareNested: the name is bound in a nested scope only (and used there).
func (g *sessGen) declareNested(name string) (gen.Stmt, string) {
	useIt := &gen.Assign{Targets: []gen.Expr{gen.Id("acc")}, Op: "=", X: gen.Id(name)}
	switch rapid.IntRange(0, 3).Draw(g.rt, "nestedform") {
	case 0:
		return &gen.If{Cond: gen.Id("cv"), Then: []gen.Stmt{&gen.Define{Names: []string{name}, X: gen.IntLit(5)}, useIt}}, "block-define"
	case 1:
		return &gen.Define{Names: []string{g.fresh()}, X: &gen.Call{Fn: &gen.FuncLit{Params: []string{name}, Body: []gen.Stmt{&gen.Return{Xs: []gen.Expr{gen.Id(name)}}}}, Args: []gen.Expr{gen.IntLit(3)}}}, "funcparam"
	case 2:
		return &gen.ForIn{Key: "_", Value: name, X: &gen.ArrayLit{Elems: []gen.Expr{gen.IntLit(1)}}, Body: []gen.Stmt{useIt}}, "forin-value"
	}
	return &gen.Try{Body: []gen.Stmt{&gen.Throw{X: gen.StrLit("x")}}, HasCatch: true, CatchIdent: name, Catch: []gen.Stmt{useIt}}, "catch"
}

// moduleBody: optional module-local declaration of a disabled name, some uses, an export.
func (g *sessGen) moduleBody() []gen.Stmt {
	var body []gen.Stmt
	local := ""
	if n, ok := g.pick(g.poolD(false), "modlocal"); ok && rapid.IntRange(0, 2).Draw(g.rt, "modlocal?") > 0 {
		local = n
		body = append(body, &gen.Define{Names: []string{n}, X: shadowFnLit()})
	}
	k := rapid.IntRange(0, 2).Draw(g.rt, "moduses")
	for i := 0; i < k; i++ {
		var name string
		switch rapid.IntRange(0, 3).Draw(g.rt, "modusekind") {
		case 0:
			name = local
		case 1:
			// a disabled name the module did not declare: the module must be rejected
			name, _ = g.pick(minus(g.poolD(false), set(local)), "modunbound")
		default:
			name, _ = g.pick(g.poolFree(), "modfree")
		}
		if name == "" {
			continue
		}
		s, _ := g.place(callOf(name), modPositions)
		body = append(body, s)
	}
	body = append(body, &gen.Return{Xs: []gen.Expr{&gen.MapLit{Keys: []string{"v"}, Elems: []gen.Expr{gen.IntLit(1)}}}})
	return body
}

type fragInfo struct {
	stmts    []gen.Stmt
	kind     string
	expect   string
	culprits []string
	uses     []use
	repeat   bool
}

// resolveFragment resolves one fragment against the persistent root scope and
// derives what the compiler must do. Statements are atomic for declarations: a
// right-hand side is compiled before its name is declared, so a rejected
// statement declares nothing at the root.
func resolveFragment(r *resolver, stmts []gen.Stmt, dset map[string]bool, optimizer bool, idx int) (expect string, culprits []string, uses []use) {
	r.frag = idx
	expect = mustCompile
	for _, s := range stmts {
		snap := r.sc.clone()
		seen := map[string]bool{}
		for k, v := range r.modSeen {
			seen[k] = v
		}
		before := len(r.uses)
		r.stmt(s)
		newUses := r.uses[before:]
		uses = append(uses, newUses...)
		liveBad, deadBad := map[string]bool{}, map[string]bool{}
		for _, u := range newUses {
			if u.Bound || !dset[u.Name] || u.DeadX {
				continue
			}
			if optimizer && u.DeadM {
				deadBad[u.Name] = true
			} else {
				liveBad[u.Name] = true
			}
		}
		if len(liveBad) > 0 {
			r.sc.names, r.modSeen = snap.names, seen
			return mustFail, sorted(liveBad), uses
		}
		if len(deadBad) > 0 {
			return either, sorted(deadBad), uses
		}
	}
	return expect, nil, uses
}

func (g *sessGen) fragment(idx int) *fragInfo {
	fi := &fragInfo{}
	for try := 0; try < 6 && fi.stmts == nil; try++ {
		switch rapid.IntRange(0, 12).Draw(g.rt, "fragkind") {
		case 0, 1:
			if n, ok := g.pick(g.poolD(false), "declname"); ok {
				s, form := g.declareRoot(n)
				fi.stmts, fi.kind = []gen.Stmt{s}, "declare-root:"+form
			}
		case 2:
			if n, ok := g.pick(g.poolD(false), "nestedname"); ok {
				s, form := g.declareNested(n)
				fi.stmts, fi.kind = []gen.Stmt{s}, "declare-nested:"+form
			}
		case 3, 4, 5:
			if n, ok := g.pick(g.poolD(true), "boundname"); ok {
				var e gen.Expr = callOf(n)
				if rapid.IntRange(0, 4).Draw(g.rt, "asvalue") == 0 {
					e = gen.Id(n)
				}
				s, pos := g.place(e, mainPositions)
				fi.stmts, fi.kind = []gen.Stmt{s}, "use-bound:"+pos
			}
		case 6, 7, 8:
			if n, ok := g.pick(g.poolD(false), "unboundname"); ok {
				s, pos := g.place(callOf(n), mainPositions)
				fi.stmts, fi.kind = []gen.Stmt{s}, "use-unbound:"+pos
			}
		case 9:
			if n, ok := g.pick(g.poolFree(), "freename"); ok {
				s, pos := g.place(callOf(n), mainPositions)
				fi.stmts, fi.kind = []gen.Stmt{s}, "use-enabled-builtin:"+pos
			}
		case 10:
			if len(g.mods) > 0 {
				names := make([]string, 0, len(g.mods))
				for n := range g.mods {
					names = append(names, n)
				}
				sort.Strings(names)
				m, _ := g.pick(names, "module")
				fi.stmts, fi.kind = []gen.Stmt{&gen.Define{Names: []string{g.fresh()}, X: &gen.Import{Name: m}}}, "import-module"
			}
		case 11:
			if len(g.failing) > 0 {
				pl := g.failing[rapid.IntRange(0, len(g.failing)-1).Draw(g.rt, "repeat")]
				s, _ := g.placeAt(pl.e, pl.pos)
				fi.stmts, fi.kind, fi.repeat = []gen.Stmt{s}, "repeat-rejected-fragment", true
			}
		case 12:
			// several statements, all expected to compile: bound uses + enabled builtins
			var ss []gen.Stmt
			for i := 0; i < 3; i++ {
				pool := g.poolD(true)
				if i == 1 {
					pool = g.poolFree()
				}
				if n, ok := g.pick(pool, "mixedname"); ok {
					s, _ := g.place(callOf(n), []int{1, 2, 4, 5, 6, 7, 8})
					ss = append(ss, s)
				}
			}
			if len(ss) > 0 {
				fi.stmts, fi.kind = ss, "mixed-statements"
			}
		}
	}
	if fi.stmts == nil {
		fi.stmts, fi.kind = []gen.Stmt{&gen.Assign{Targets: []gen.Expr{gen.Id("acc")}, Op: "+=", X: gen.IntLit(1)}}, "neutral"
	}
	fi.expect, fi.culprits, fi.uses = resolveFragment(g.r, fi.stmts, g.dset, !g.opt.NoOptimize, idx)
	if fi.expect == mustFail && strings.HasPrefix(fi.kind, "use-unbound:") {
		g.failing = append(g.failing, g.last)
	}
	return fi
}

func drawSessionDisabled(rt *rapid.T) []string {
	var d []string
	switch rapid.IntRange(0, 5).Draw(rt, "sessdkind") {
	case 0, 1, 2:
		d = takeSome(rt, safePool, 2, 6, "sessD")
	case 3:
		d = append([]string{}, allNames...)
	case 4:
		d = union(takeSome(rt, safePool, 2, 8, "sessD"), takeSome(rt, allNames, 0, 10, "others"), []string{makeArrayName})
	case 5:
		d = minus(allNames, set(takeSome(rt, safePool, 1, 3, "keep")...))
	}
	sort.Strings(d)
	return d
}

func safeEvalRun(e *ugo.Eval, src string) (bc *ugo.Bytecode, err error, pan string, timedOut bool) {
	ctx, cancel := context.WithTimeout(context.Background(), 4*time.Second)
	defer cancel()
	defer func() {
		if p := recover(); p != nil {
			pan = run.FirstLine(fmt.Sprint(p))
			if pan == "" {
				pan = "panic"
			}
		}
	}()
	_, bc, err = e.Run(ctx, []byte(src))
	if err != nil && errors.Is(err, context.DeadlineExceeded) {
		timedOut = true
	}
	return
}

// judgeEval replays a session against the disabled table and applies the oracle per fragment.
func judgeEval(c *replayCase) (*finding, string) {
	dset := set(c.Disabled...)
	e := ugo.NewEval(c.Opt.opts(c.Disabled, c.Modules), ugo.Map{})
	desc := func(i int) string {
		var sb strings.Builder
		fmt.Fprintf(&sb, "Eval session, disabled=%v %s\n", c.Disabled, c.Opt)
		for j := 0; j <= i; j++ {
			fmt.Fprintf(&sb, "--- fragment %d (%s%v) ---\n%s", j, c.Fragments[j].Expect, c.Fragments[j].Culprits, c.Fragments[j].Src)
		}
		sb.WriteString(modText(c.Modules))
		return sb.String()
	}
	for i, fr := range c.Fragments {
		resetInvoked()
		bc, err, pan, timedOut := safeEvalRun(e, fr.Src)
		inv := leaked(invokedNames(), dset)
		switch {
		case pan != "":
			return nil, "eval-panic"
		case timedOut:
			return nil, "vm-watchdog"
		}
		if bc == nil { // not compiled
			if len(inv) > 0 {
				return &finding{"leak:disabled-builtin-invoked-at-compile-time",
					fmt.Sprintf("disabled builtin(s) %v were CALLED while compiling fragment %d; %s", inv, i, desc(i))}, ""
			}
			name, unres := unresolvedName(err)
			switch {
			case unres && dset[name] && has(fr.Culprits, name) && fr.Expect != mustCompile:
				continue
			case unres && dset[name] && fr.Expect == mustCompile:
				return &finding{"over-rejection:bound-name-rejected",
					fmt.Sprintf("fragment %d only uses %q as declared by the session, yet it is rejected because the name is disabled: %s; %s", i, name, firstLine(err.Error()), desc(i))}, ""
			case err != nil && isOptimizerErr(err):
				return nil, "optimizer-refused(C01)"
			}
			return nil, fmt.Sprintf("HARNESS: fragment %d: unexpected error %v; %s", i, err, desc(i))
		}
		if fr.Expect == mustFail {
			return &finding{"leak:compiled-despite-disabled:eval-fragment",
				fmt.Sprintf("fragment %d has an unbound use of disabled builtin(s) %v but was compiled; %s", i, fr.Culprits, desc(i))}, ""
		}
		if f := checkBytecode(bc, dset, fmt.Sprintf("bytecode of fragment %d", i), func() string { return desc(i) }); f != nil {
			return f, ""
		}
		if len(inv) > 0 {
			sig := "leak:disabled-builtin-invoked-at-run-time"
			if !c.Opt.NoOptimize {
				sig = "leak:disabled-builtin-invoked-at-compile-time" // the bytecode has no way to obtain it
			}
			return &finding{sig, fmt.Sprintf("disabled builtin(s) %v were CALLED while compiling/running fragment %d; %s", inv, i, desc(i))}, ""
		}
		if fr.Expect == either {
			return nil, "eval:dead-code-fragment"
		}
	}
	return nil, ""
}

// validateSession cross-checks the resolver on the same fragments with NOTHING
// disabled and the optimizer off: what it calls unbound must be exactly what
// the compiler resolves to builtins. Returns a HARNESS message or "".
func validateSession(frags []*fragInfo, modSrc map[string]string) string {
	e := ugo.NewEval(optCfg{NoOptimize: true}.opts(nil, modSrc), ugo.Map{})
	cum := map[string]bool{}
	for i, fi := range frags {
		src := gen.Src(fi.stmts)
		bc, err, pan, timedOut := safeEvalRun(e, src)
		if pan != "" || timedOut {
			return ""
		}
		if bc == nil {
			if err != nil && strings.Contains(err.Error(), "redeclared") {
				return "" // a builtin used earlier (rejected in the real session) is declared now: sessions diverge
			}
			return fmt.Sprintf("HARNESS: fragment %d does not compile with nothing disabled: %v\n%s", i, err, src)
		}
		getb, _ := scanBytecode(bc)
		delete(getb, makeArrayName)
		mine := map[string]bool{}
		for _, u := range fi.uses {
			if !u.Bound && !u.DeadX {
				mine[u.Name] = true
				cum[u.Name] = true
			}
		}
		for n := range mine {
			if !getb[n] {
				return fmt.Sprintf("HARNESS: harness:resolver-mismatch: fragment %d: resolver says %q is an unbound builtin use, the compiler did not reference it\n%s", i, n, src)
			}
		}
		for n := range getb {
			if !cum[n] {
				return fmt.Sprintf("HARNESS: harness:resolver-mismatch: fragment %d: compiler references builtin %q, resolver found no unbound use\n%s", i, n, src)
			}
		}
	}
	return ""
}

func evalSessions(t *testing.T, rec *ev.Rec) {
	n := ev.N(3000, 12000)
	ev.RapidCheck(t, "eval-sessions", n, 2, func(rt *rapid.T) {
		g := &sessGen{rt: rt, opt: drawOpt(rt), mods: map[string][]gen.Stmt{}}
		g.d = drawSessionDisabled(rt)
		g.dset = set(g.d...)
		g.r = newResolver(g.mods)
		g.r.sc = newScope(nil)
		rec.Case()

		nm := rapid.IntRange(0, 2).Draw(rt, "sessmodules")
		for i := 0; i < nm; i++ {
			g.mods[fmt.Sprintf("m%d", i)] = g.moduleBody()
		}
		modSrc := map[string]string{}
		for name, body := range g.mods {
			modSrc[name] = gen.Src(body)
		}

		init := &fragInfo{kind: "init", stmts: []gen.Stmt{
			&gen.Define{Names: []string{"acc"}, X: gen.IntLit(0)},
			&gen.Define{Names: []string{"cv"}, X: gen.BoolLit(true)}}}
		init.expect, init.culprits, init.uses = resolveFragment(g.r, init.stmts, g.dset, !g.opt.NoOptimize, 0)
		frags := []*fragInfo{init}
		k := rapid.IntRange(3, 8).Draw(rt, "nfragments")
		for i := 1; i <= k; i++ {
			frags = append(frags, g.fragment(i))
		}

		if msg := validateSession(frags, modSrc); msg != "" {
			rt.Fatalf("%s", msg)
		}

		c := &replayCase{Mode: "eval", Disabled: g.d, Opt: g.opt, Where: "eval-fragment"}
		c.Modules = modSrc
		var all []string
		for _, fi := range frags {
			src := gen.Src(fi.stmts)
			all = append(all, src)
			c.Fragments = append(c.Fragments, fragCase{Src: src, Expect: fi.expect, Culprits: fi.culprits})
		}
		c.Src = strings.Join(all, "// ---- next fragment ----\n")
		if len(modSrc) == 0 {
			c.Modules = nil
		}

		f, status := judgeEval(c)
		if f != nil {
			if rec.Violation(f.sig, f.what, c) {
				return
			}
			rt.Fatalf("%s", f.what)
		}
		switch {
		case strings.HasPrefix(status, "HARNESS"):
			rt.Fatalf("%s", status)
		case status == "vm-watchdog":
			rec.Inconcl(status)
			return
		case status != "":
			rec.Exclude(status)
			return
		}

		// evidence
		rec.Class("eval:" + g.opt.String())
		rec.Class("eval:" + sizeClass(g.d))
		rec.Class(fmt.Sprintf("eval:modules-%d", nm))
		seen := map[string]bool{}
		cls := func(s string) {
			if !seen[s] {
				seen[s] = true
				rec.Class(s)
			}
		}
		declaredAt := map[string]int{}
		for i, fi := range frags {
			cls("eval:fragment:" + fi.kind)
			cls("eval:fragment-expect:" + fi.expect)
			if strings.HasPrefix(fi.kind, "declare-root:") && fi.expect == mustCompile {
				for _, s := range fi.stmts {
					for _, nme := range declNames(s) {
						if g.dset[nme] {
							declaredAt[nme] = i
						}
					}
				}
			}
			if fi.repeat {
				cls("eval:rejected-fragment-repeated-later:" + fi.expect)
			}
			for _, u := range fi.uses {
				if !g.dset[u.Name] {
					continue
				}
				if u.Bound {
					if at, ok := declaredAt[u.Name]; ok && at < i && u.Form != "funcparam" {
						cls("eval:disabled-name-declared-earlier-used-bound-in-later-fragment:" + u.Form)
					}
					if u.InFunc {
						cls("eval:disabled-name-bound-in:function")
					}
				} else {
					cls("eval:disabled-name-unbound-in-later-fragment")
					if u.InFunc {
						cls("eval:disabled-name-unbound-in:function")
					}
					if u.Module != "" {
						cls("eval:disabled-name-unbound-in:module")
					}
					if u.InConst {
						cls("eval:disabled-name-unbound-in:const-expression")
					}
				}
			}
		}
		rec.NonTriv("eval\x00" + c.Src + modText(modSrc) + "\x00" + strings.Join(g.d, ","))
		rec.Class("nontrivial")
		rec.Class("eval:nontrivial-session")
		rec.Sample(map[string]any{"mode": "eval", "fragments": c.Fragments, "modules": modSrc, "disabled": g.d, "options": g.opt.String()})
	})
}

func declNames(s gen.Stmt) []string {
	switch s := s.(type) {
	case *gen.Define:
		return s.Names
	case *gen.VarDecl:
		return s.Names
	case *gen.ConstDecl:
		return s.Names
	case *gen.GlobalDecl:
		return s.Names
	}
	return nil
}

var _ = prog.ModuleMap
