//go:build verif

// C09 - abort and context cancellation are never lost.
// Generated schedules place Abort()/cancel() at named synchronisation points of
// the abort / child-VM protocol (hooks compiled into ozanh/ugo with tag verif).
package c09

import (
	"context"
	"encoding/json"
	"errors"
	"fmt"
	"strings"
	"io"
	"sync"
	"sync/atomic"
	"testing"
	"time"

	"github.com/ozanh/ugo"
	ugostrings "github.com/ozanh/ugo/stdlib/strings"
	"pgregory.net/rapid"

	"verif/internal/ev"
	"verif/internal/gen"
)

// --------------------------------------------------------------- schedule

type schedule struct {
	Scenario string `json:"scenario"`
	Point    string `json:"point"`      // hook point at which the abort is placed ("free" = after the root started running)
	K        int    `json:"occurrence"` // k-th hit of the point
	NAborts  int    `json:"aborts"`     // Abort() called this many times
	NCallers int    `json:"callers"`    // from this many goroutines
	Eval     bool   `json:"eval"`       // Eval.Run(ctx) + cancel instead of VM.Run + Abort
	Deadline bool   `json:"deadline"`   // Eval: cancellation by deadline
	DelayUS  int    `json:"delay_us"`   // "free": extra delay before the abort (stress part)
	TwoParty bool   `json:"two_party"`  // park the aborter inside Abort until the parked VM passed its flag reset
}

func (s schedule) String() string {
	return fmt.Sprintf("%s@%s#%d aborts=%d callers=%d eval=%v deadline=%v twoparty=%v", s.Scenario, s.Point, s.K, s.NAborts, s.NCallers, s.Eval, s.Deadline, s.TwoParty)
}

var scenarios = map[string]string{
	"root-loop":              `for { }`,
	"root-callback-loop":     `global PARK; PARK("cb"); for { }`,
	"child-pooled-loop":      `global PCALL; PCALL(func() { for { } })`,
	"child-unpooled-loop":    `global CALL; CALL(func() { for { } })`,
	"stdlib-map-loop":        `strings := import("strings"); strings.Map(func(c) { for { } }, "ab")`,
	"stdlib-trimfunc-loop":   `strings := import("strings"); strings.TrimFunc("xxabc", func(c) { for { } })`,
	"nested-child-loop":      `global PCALL; PCALL(func() { PCALL(func() { for { } }) })`,
	"nested-mixed-loop":      `global (PCALL, CALL); CALL(func() { PCALL(func() { for { } }) })`,
	"child-sequence":         `global PCALL; for { PCALL(func() { return 1 }) }`,
	"child-sequence-stdlib":  `strings := import("strings"); for { strings.Map(func(c) { return c }, "abc") }`,
	"child-callback-loop":    `global (PCALL, PARK); PCALL(func() { PARK("cb"); for { } })`,
	"child-after-callback":   `global (PCALL, PARK); PARK("cb"); PCALL(func() { for { } })`,
	"unpooled-sequence":      `global CALL; for { CALL(func() { return 1 }) }`,
	// the non-terminating code runs in a function called from inside try statements of the frames below it
	"root-try-fn-loop":       `f := func() { for { } }; try { f() } catch e { return "caught" } finally { x := 1 }`,
	"root-try-callback-loop": `global PARK; f := func() { try { PARK("cb"); for { } } finally { } }; try { try { f() } finally { } } catch e { return "caught" }`,
	"child-in-try-loop":      `global PCALL; g := func() { try { for { } } catch e2 { return 2 } }; try { PCALL(func() { try { g() } finally { } }) } catch e { return 1 }`,
	// ONE Invoker used for several Invoke calls: the first call returns, a later one never does
	"unpooled-reuse-loop": `global CALLN; n := 0; CALLN(func() { n++; if n > 1 { for { } }; return n })`,
	"pooled-reuse-loop":   `global PCALLN; n := 0; PCALLN(func() { n++; if n > 2 { for { } }; return n })`,
}

// follow-up scripts run on the aborted VM, one after another: a value through call + try/finally, an error
// thrown at top level, an error escaping from a called function, a caught error.
var followups = []string{
	`f := func(a) { return a + 2 }; try { return f(40) } finally { }`,
	`throw error("boom")`,
	`f := func(a) { return a / 0 }; x := f(1); return x`,
	`f := func() { throw "inner" }; try { f() } catch e { return "caught " + string(e) }; return "no"`,
	`return [1, 2][5]`,
}

var scenarioNames = func() []string {
	var out []string
	for k := range scenarios {
		out = append(out, k)
	}
	// deterministic order
	for i := 0; i < len(out); i++ {
		for j := i + 1; j < len(out); j++ {
			if out[j] < out[i] {
				out[i], out[j] = out[j], out[i]
			}
		}
	}
	return out
}()

var points = []string{"run.enter", "run.reset", "invoke.checked", "pool.acquired", "pool.release", "callback", "free"}
var evalPoints = []string{"pre", "eval.before-run", "eval.goroutine", "run.enter", "run.reset", "invoke.checked", "pool.acquired", "callback", "free"}

// ------------------------------------------------------------ hook control

type controller struct {
	mu      sync.Mutex
	point   string
	k       int
	hits    map[string]int
	parked  chan struct{} // closed when the target point was reached
	resume  chan struct{} // closed to let the parked goroutine continue
	armed   bool
	hit     bool
	running map[*ugo.VM]bool // VMs between run.reset and run.exit
	rootRunning chan struct{}
	rootOnce    sync.Once
	root    *ugo.VM
	// two-party schedules: the aborter is parked inside Abort (between its two steps)
	parkAborter   bool
	aborterParked chan struct{}
	aborterResume chan struct{}
	resetHits     chan struct{} // signalled on every run.reset after the target point was hit
}

func newController(point string, k int) *controller {
	return &controller{point: point, k: k, hits: map[string]int{}, parked: make(chan struct{}), resume: make(chan struct{}), armed: true,
		running: map[*ugo.VM]bool{}, rootRunning: make(chan struct{}),
		aborterParked: make(chan struct{}), aborterResume: make(chan struct{}), resetHits: make(chan struct{}, 64)}
}

func (c *controller) hook(point string, vm *ugo.VM) {
	if point == "abort.mid" {
		// the aborting goroutine: parked only in two-party schedules, and only the first time
		c.mu.Lock()
		park := c.parkAborter && vm == c.root // Abort of the root VM itself, not the nested Abort of a child
		if park {
			c.parkAborter = false
		}
		c.mu.Unlock()
		if park {
			close(c.aborterParked)
			<-c.aborterResume
		}
		return
	}
	c.mu.Lock()
	switch point {
	case "run.reset":
		if c.hit {
			select {
			case c.resetHits <- struct{}{}:
			default:
			}
		}
		if vm != nil {
			c.running[vm] = true
			if c.root != nil && vm == c.root {
				c.rootOnce.Do(func() { close(c.rootRunning) })
			}
		}
	case "run.exit":
		delete(c.running, vm)
	}
	c.hits[point]++
	park := c.armed && point == c.point && c.hits[point] == c.k
	if park {
		c.armed = false
		c.hit = true
	}
	c.mu.Unlock()
	if park {
		close(c.parked)
		<-c.resume
	}
}

// stuck returns the VMs that are inside Run with a clear abort flag.
func (c *controller) stuck() (n int, total int) {
	c.mu.Lock()
	defer c.mu.Unlock()
	for vm := range c.running {
		total++
		if !vm.Aborted() {
			n++
		}
	}
	return
}

var hookMu sync.Mutex // one schedule at a time (VerifHook is a process global)

// -------------------------------------------------------------- execution

type outcome struct {
	hitPoint   bool
	returned   bool
	err        error
	stuckClear int  // VMs inside Run with a clear flag when the wait expired
	followup   string // "" ok
	waited     time.Duration
}

func moduleMap() *ugo.ModuleMap {
	mm := ugo.NewModuleMap()
	mm.AddBuiltinModule("strings", ugostrings.Module)
	return mm
}

func globalsFor(c *controller) ugo.Map {
	park := &ugo.Function{Name: "PARK", Value: func(args ...ugo.Object) (ugo.Object, error) {
		c.hook("callback", nil)
		return ugo.Undefined, nil
	}}
	call := &ugo.Function{Name: "CALL", ValueEx: func(call ugo.Call) (ugo.Object, error) {
		inv := ugo.NewInvoker(call.VM(), call.Get(0))
		return inv.Invoke()
	}}
	pcall := &ugo.Function{Name: "PCALL", ValueEx: func(call ugo.Call) (ugo.Object, error) {
		inv := ugo.NewInvoker(call.VM(), call.Get(0))
		inv.Acquire()
		defer inv.Release()
		return inv.Invoke()
	}}
	calln := &ugo.Function{Name: "CALLN", ValueEx: func(call ugo.Call) (ugo.Object, error) {
		inv := ugo.NewInvoker(call.VM(), call.Get(0))
		var ret ugo.Object
		var err error
		for i := 0; i < 4 && err == nil; i++ {
			ret, err = inv.Invoke()
		}
		return ret, err
	}}
	pcalln := &ugo.Function{Name: "PCALLN", ValueEx: func(call ugo.Call) (ugo.Object, error) {
		inv := ugo.NewInvoker(call.VM(), call.Get(0))
		inv.Acquire()
		defer inv.Release()
		var ret ugo.Object
		var err error
		for i := 0; i < 4 && err == nil; i++ {
			ret, err = inv.Invoke()
		}
		return ret, err
	}}
	return ugo.Map{"PARK": park, "CALL": call, "PCALL": pcall, "CALLN": calln, "PCALLN": pcalln}
}

const waitBudget = 2 * time.Second

func runSchedule(s schedule) outcome {
	hookMu.Lock()
	defer hookMu.Unlock()
	ctl := newController(s.Point, s.K)
	if s.Point == "free" || s.Point == "pre" {
		ctl.armed = false
	}
	ugo.VerifHook = ctl.hook
	defer func() { ugo.VerifHook = nil }()

	var out outcome
	src := []byte(scenarios[s.Scenario])
	opts := ugo.CompilerOptions{ModuleMap: moduleMap()}
	globals := globalsFor(ctl)
	done := make(chan struct{})

	var vm *ugo.VM
	var evl *ugo.Eval
	var cancel context.CancelFunc
	var runErr error
	var runRet ugo.Object

	doAbort := func() {
		var wg sync.WaitGroup
		var n int32
		for g := 0; g < s.NCallers; g++ {
			wg.Add(1)
			go func() {
				defer wg.Done()
				for atomic.AddInt32(&n, 1) <= int32(s.NAborts) {
					if s.Eval {
						cancel()
					} else {
						vm.Abort()
					}
				}
			}()
		}
		wg.Wait()
	}

	if s.Eval {
		evl = ugo.NewEval(opts, globals)
		ctl.mu.Lock()
		ctl.root = evl.VM
		ctl.mu.Unlock()
		var ctx context.Context
		if s.Deadline {
			ctx, cancel = context.WithTimeout(context.Background(), 20*time.Millisecond)
		} else {
			ctx, cancel = context.WithCancel(context.Background())
		}
		defer cancel()
		if s.Point == "pre" {
			doAbort()
		}
		go func() {
			defer close(done)
			runRet, _, runErr = evl.Run(ctx, src)
		}()
	} else {
		bc, err := ugo.Compile(src, opts)
		if err != nil {
			panic("HARNESS: scenario does not compile: " + err.Error())
		}
		vm = ugo.NewVM(bc)
		ctl.mu.Lock()
		ctl.root = vm
		ctl.mu.Unlock()
		go func() {
			defer close(done)
			runRet, runErr = vm.Run(globals)
		}()
	}

	// wait until the schedule's point is reached (or the root is running for "free")
	switch {
	case s.Point == "pre":
		out.hitPoint = true
	case s.Deadline:
		out.hitPoint = true // the deadline fires by itself
	case s.Point == "free":
		select {
		case <-ctl.rootRunning:
			out.hitPoint = true
		case <-time.After(2 * time.Second):
		case <-done:
		}
		if s.DelayUS > 0 {
			time.Sleep(time.Duration(s.DelayUS) * time.Microsecond)
		}
		doAbort()
	default:
		select {
		case <-ctl.parked:
			out.hitPoint = true
			if s.TwoParty && !s.Eval {
				// the aborter stops between Abort's two steps; the parked VM then runs through its flag
				// reset; only then the aborter finishes
				ctl.mu.Lock()
				ctl.parkAborter = true
				ctl.mu.Unlock()
				abortDone := make(chan struct{})
				go func() { defer close(abortDone); doAbort() }()
				select {
				case <-ctl.aborterParked:
				case <-abortDone:
				case <-time.After(time.Second):
				}
				close(ctl.resume)
				select {
				case <-ctl.resetHits: // the released VM passed its reset
				case <-time.After(300 * time.Millisecond):
				case <-done:
				}
				close(ctl.aborterResume)
				<-abortDone
			} else {
				doAbort() // Abort()/cancel() have RETURNED before the parked goroutine continues
				close(ctl.resume)
			}
		case <-time.After(300 * time.Millisecond):
			// the point is not on this scenario's path (or not k times): abort anyway to end the run
			ctl.mu.Lock()
			ctl.armed = false
			ctl.mu.Unlock()
			doAbort()
		case <-done:
		}
	}

	t0 := time.Now()
	select {
	case <-done:
		out.returned = true
	case <-time.After(waitBudget):
		// state observation: VMs executing with a clear flag can never stop (scripts loop forever)
		out.stuckClear, _ = ctl.stuck()
		// clean up: keep aborting until the run ends
		deadline := time.After(10 * time.Second)
	cleanup:
		for {
			if s.Eval {
				evl.VM.Abort()
			} else {
				vm.Abort()
			}
			select {
			case <-done:
				break cleanup
			case <-deadline:
				break cleanup
			case <-time.After(5 * time.Millisecond):
			}
		}
	}
	out.waited = time.Since(t0)
	out.err = runErr
	_ = runRet
	if !out.returned {
		return out
	}
	// follow-up: an aborted VM runs later scripts normally
	ugo.VerifHook = nil
	if s.Eval {
		ret, _, err := evl.Run(context.Background(), []byte(`x := 40; return x + 2`))
		if err != nil || ret != ugo.Int(42) {
			out.followup = fmt.Sprintf("Eval follow-up returned %v, %v", ret, err)
		}
		if out.followup == "" {
			// an error at top level must come back as an error (no handler of the aborted run may catch it)
			ret, _, err = evl.Run(context.Background(), []byte(`y := x + 1; throw error("boom" + string(y))`))
			if err == nil || !strings.Contains(err.Error(), "boom41") {
				out.followup = fmt.Sprintf("Eval follow-up `throw` returned %v, %v", ret, err)
			}
		}
	} else {
		// each follow-up script runs on the aborted VM and, for the expectation, on a fresh VM
		for _, src := range followups {
			fb, err := ugo.Compile([]byte(src), ugo.CompilerOptions{})
			if err != nil {
				panic(err)
			}
			wantRet, wantErr := ugo.NewVM(fb).Run(nil)
			ch := make(chan struct{})
			var ret ugo.Object
			var rerr error
			go func() {
				defer close(ch)
				defer func() {
					if p := recover(); p != nil {
						rerr = fmt.Errorf("Go panic in the follow-up run: %v", p)
					}
				}()
				ret, rerr = vm.SetBytecode(fb).Run(nil)
			}()
			select {
			case <-ch:
				if fmt.Sprint(rerr) != fmt.Sprint(wantErr) || fmt.Sprint(ret) != fmt.Sprint(wantRet) {
					out.followup = fmt.Sprintf("follow-up script %q on the aborted VM returned (%v, %v), a fresh VM returns (%v, %v)", src, ret, rerr, wantRet, wantErr)
				}
			case <-time.After(waitBudget):
				out.followup = fmt.Sprintf("follow-up script %q on the aborted VM did not return", src)
				vm.Abort()
			}
			if out.followup != "" {
				break
			}
		}
	}
	return out
}

// judge returns a violation signature ("" = held / inconclusive).
func judge(rec *ev.Rec, s schedule, o outcome) (sig, what string) {
	role := "root"
	if s.Eval {
		role = "eval"
	}
	switch {
	case !o.returned && o.stuckClear > 0:
		return fmt.Sprintf("abort-lost:%s:%s", role, s.Point), fmt.Sprintf("schedule %s: Abort()/cancel() had returned, yet %d VM(s) of the tree were still executing the non-terminating script with a clear abort flag after %s - Run can never return", s, o.stuckClear, waitBudget)
	case !o.returned:
		rec.Inconcl("run-not-returned-but-flags-set(slow machine?)")
		return "", ""
	}
	if o.err == nil {
		return fmt.Sprintf("no-error:%s:%s", role, s.Point), fmt.Sprintf("schedule %s: Run returned without an error although it was aborted and the script never terminates", s)
	}
	if s.Eval {
		if !errors.Is(o.err, ugo.ErrVMAborted) && !errors.Is(o.err, context.Canceled) && !errors.Is(o.err, context.DeadlineExceeded) {
			return fmt.Sprintf("wrong-error:%s:%s", role, s.Point), fmt.Sprintf("schedule %s: Eval.Run returned %v", s, o.err)
		}
	} else if !errors.Is(o.err, ugo.ErrVMAborted) {
		return fmt.Sprintf("wrong-error:%s:%s", role, s.Point), fmt.Sprintf("schedule %s: Run returned %v, want ErrVMAborted", s, o.err)
	}
	if o.followup != "" {
		return fmt.Sprintf("not-reusable:%s:%s", role, s.Point), fmt.Sprintf("schedule %s: %s", s, o.followup)
	}
	return "", ""
}

func record(rec *ev.Rec, s schedule, o outcome) {
	if o.hitPoint {
		rec.NonTriv(s.String())
		rec.Class("hit:" + s.Point)
		rec.Class("scenario:" + s.Scenario)
	} else {
		rec.Class("point-not-on-path:" + s.Point)
	}
	if s.Eval {
		rec.Class("eval")
	}
}

func TestCheck(t *testing.T) {
	ugo.PrintWriter = io.Discard
	rec := ev.New("C09")
	rec.Rule = "schedules = (scenario: root loop / Go callback / pooled, un-pooled, stdlib and nested child VMs running non-terminating script functions / sequences of short child runs) x (hook point: run.enter, run.reset, invoke.checked, pool.acquired, pool.release, inside a Go callback, free-running) x occurrence k<=3 x 1-3 Abort calls from 1-3 goroutines, and Eval.Run(ctx) x cancellation point (before Run, eval.before-run, eval.goroutine, run.enter, run.reset, child points, free, by deadline). The VM goroutine is parked at the k-th hit of the point, Abort()/cancel() complete, then it is released. Oracle: Run returns ErrVMAborted (Eval: ctx error or aborted); if it has not returned after the budget, any VM inside Run with a clear abort flag can never stop (violation), otherwise inconclusive; then the same VM runs a follow-up script normally. Non-trivial = the point was actually hit at occurrence k; distinct by schedule"
	rec.Assumptions = []string{
		"decided on the hook-defined protocol points; windows the hooks do not name are reached only by the hook-free stress part",
		"scripts are non-terminating by construction, so 'never stops' is a state observation (a VM executing with a clear flag after all Abort calls returned), not a timeout",
		"cmd/ugo executeScript follows the same protocol as Eval.run and is covered through it",
	}
	defer func() { rec.Flush(!t.Failed() || rec.HasUnknown()) }()

	reported := map[string]bool{}
	runOne := func(s schedule) {
		rec.Case()
		o := runSchedule(s)
		record(rec, s, o)
		if sig, what := judge(rec, s, o); sig != "" {
			if !rec.Violation(sig, what, s) && !reported[sig] {
				reported[sig] = true
				t.Errorf("%s: %s", sig, what)
			}
		} else if o.returned {
			rec.Sample(map[string]any{"schedule": s.String(), "hit": o.hitPoint, "returned_after": o.waited.String(), "error": fmt.Sprint(o.err)})
		}
	}

	// replay files first
	for _, rf := range rec.Replays() {
		var s schedule
		if json.Unmarshal(rf.Case, &s) == nil && s.Scenario != "" {
			runOne(s)
		}
	}
	if ev.ReplayOnly() {
		return
	}

	// exhaustive grid (quick: k=1 everywhere + k=2,3 on the sequence scenarios; thorough: all k)
	shard, shards := rec.Shard, rec.Shards
	idx := 0
	for _, sc := range scenarioNames {
		for _, p := range points {
			for k := 1; k <= 3; k++ {
				if ev.Tier() == "quick" && k > 1 && !(sc == "child-sequence" || sc == "child-sequence-stdlib" || sc == "unpooled-sequence" || sc == "nested-child-loop" || sc == "unpooled-reuse-loop" || sc == "pooled-reuse-loop") {
					continue
				}
				if p == "free" && k > 1 {
					continue
				}
				idx++
				if shards > 1 && idx%shards != shard {
					continue
				}
				kk := k
				if (p == "run.enter" || p == "run.reset") && sc != "root-loop" && sc != "root-callback-loop" {
					// the first hit is the root's own Run entry (probed once, on root-loop): aim at the child VMs
					kk = k + 1
				}
				runOne(schedule{Scenario: sc, Point: p, K: kk, NAborts: 1 + idx%3, NCallers: 1 + (idx/3)%3})
			}
		}
	}
	for _, sc := range scenarioNames {
		for _, p := range []string{"run.enter", "invoke.checked", "pool.acquired"} {
			for k := 1; k <= 2; k++ {
				idx++
				if shards > 1 && idx%shards != shard {
					continue
				}
				kk := k
				if p == "run.enter" {
					if sc == "root-loop" || sc == "root-callback-loop" {
						continue
					}
					kk = k + 1
				}
				runOne(schedule{Scenario: sc, Point: p, K: kk, NAborts: 1, NCallers: 1, TwoParty: true})
			}
		}
	}
	for _, sc := range scenarioNames {
		for _, p := range evalPoints {
			idx++
			if shards > 1 && idx%shards != shard {
				continue
			}
			runOne(schedule{Scenario: sc, Point: p, K: 1, NAborts: 1 + idx%2, NCallers: 1, Eval: true})
		}
		idx++
		if shards <= 1 || idx%shards == shard {
			runOne(schedule{Scenario: sc, Point: "deadline", K: 1, NAborts: 1, NCallers: 1, Eval: true, Deadline: true})
		}
	}
	rec.Note("grid_schedules", idx)

	// random extra parameters
	ev.RapidCheck(t, "random-schedules", ev.N(60, 600), 1, func(rt *rapid.T) {
		s := schedule{
			Scenario: scenarioNames[gen.Uniform(rt, len(scenarioNames), "scenario")],
			K:        1 + gen.Uniform(rt, 6, "k"),
			NAborts:  1 + gen.Uniform(rt, 3, "aborts"),
			NCallers: 1 + gen.Uniform(rt, 3, "callers"),
			Eval:     gen.Uniform(rt, 3, "eval") == 0,
			TwoParty: gen.Uniform(rt, 3, "twoparty") == 0,
		}
		if s.Eval {
			s.Point = evalPoints[gen.Uniform(rt, len(evalPoints), "point")]
		} else {
			s.Point = points[gen.Uniform(rt, len(points), "point")]
		}
		rec.Case()
		o := runSchedule(s)
		record(rec, s, o)
		if sig, what := judge(rec, s, o); sig != "" {
			if rec.Violation(sig, what, s) {
				return
			}
			rt.Fatalf("%s: %s", sig, what)
		}
	})

	// hook-free stress: random micro-delays, no parking
	t.Run("stress", func(t *testing.T) { stress(t, rec) })
}

func stress(t *testing.T, rec *ev.Rec) {
	n := ev.N(150, 3000)
	for i := 0; i < n; i++ {
		sc := scenarioNames[(i+int(ev.Seed()))%len(scenarioNames)]
		s := schedule{Scenario: sc, Point: "free", K: 1, NAborts: 1 + i%3, NCallers: 1 + i%2, Eval: i%4 == 3, DelayUS: (i*37 + int(ev.Seed())*11) % 400}
		rec.Case()
		o := runSchedule(s)
		rec.Class("stress")
		if o.returned {
			rec.NonTriv(fmt.Sprintf("stress-%d-%s", i, sc))
		}
		if sig, what := judge(rec, s, o); sig != "" {
			sig = "stress:" + sig
			if !rec.Violation(sig, what, s) {
				t.Errorf("%s: %s", sig, what)
				return
			}
		}
	}
}

