// C06 - with recovery enabled, running a script never panics the host.
//
// Oracle: NewVM(bc).SetRecover(true).Run(globals, args...) under the harness'
// own recover(): no panic may escape and the result is (value, nil) or
// (nil, err); afterwards the SAME VM must run a fixed probe script correctly
// (SetBytecode) and re-running the first bytecode must give the same outcome
// class (value / error Name).
package c06

import (
	"encoding/json"
	"fmt"
	"os"
	"regexp"
	"runtime/debug"
	"sort"
	"strings"
	"sync/atomic"
	"testing"
	"time"

	"github.com/ozanh/ugo"
	"pgregory.net/rapid"

	"verif/internal/canon"
	"verif/internal/ev"
	"verif/internal/gen"
	"verif/internal/prog"
	"verif/internal/vals"
)

// caseData is the replayable form of every case (generated program, edge
// template or callback template): source + argument descriptors.
type caseData struct {
	Kind    string            `json:"kind"` // gen | edge | cb
	Src     string            `json:"src"`
	Modules map[string]string `json:"modules,omitempty"`
	Args    []argD            `json:"args,omitempty"`
	ArgsSrc string            `json:"args_text,omitempty"`
	NoOpt   bool              `json:"no_optimize"`
	Globals string            `json:"globals,omitempty"` // "" map | "nil" | "pglobals:<kind>"
	Tmpl    string            `json:"tmpl,omitempty"`
	Params  any               `json:"params,omitempty"`
	Outcome string            `json:"outcome,omitempty"`
	// WantValue: the only values the script's return statements can produce
	// ("" = unknown): "done" = exactly the string "done", "string" = any string.
	WantValue string `json:"want_value,omitempty"`
}

// valueOK: a returned value must be one the script can return (the templates
// have a single top-level return statement). Anything else means Run stopped
// somewhere else without reporting an error: the panic was neither delivered
// to a handler nor returned.
func (c *caseData) valueOK(r result) bool {
	if r.class != "value" {
		return true
	}
	switch c.WantValue {
	case "done":
		return r.val == `s"done"`
	case "string":
		return strings.HasPrefix(r.val, `s"`)
	}
	return true
}

// ------------------------------------------------------------------ execution

type result struct {
	class   string // value | error | panic | timeout | nil
	errName string
	errMsg  string
	pan     string // panic value, first line
	stack   string // debug.Stack() at the harness' recover
	val     string
	log     []string
	lg      *logger
}

func (r result) String() string {
	switch r.class {
	case "value":
		v := r.val
		if len(v) > 120 {
			v = v[:120] + "..."
		}
		return "VALUE " + v
	case "error":
		m := r.errMsg
		if len(m) > 200 {
			m = m[:200] + "..."
		}
		return fmt.Sprintf("ERROR %s: %q", r.errName, m)
	case "panic":
		return "PANIC " + r.pan
	case "timeout":
		return "TIMEOUT"
	}
	return "NIL-RESULT (value == nil && err == nil)"
}

func (r result) key() string {
	if r.class == "error" {
		return "error:" + r.errName
	}
	return r.class
}

func firstLine(s string) string {
	if i := strings.Index(s, "\nGo Stack:"); i >= 0 {
		s = s[:i]
	}
	if i := strings.Index(s, "\n"); i >= 0 {
		s = s[:i]
	}
	return s
}

func safeSprint(p any) (s string) {
	defer func() {
		if recover() != nil {
			s = fmt.Sprintf("<%T>", p)
		}
	}()
	return fmt.Sprint(p)
}

const runTimeout = 4 * time.Second

// watchdog budget: a tree on which (nearly) every run hangs must not burn the
// whole time budget; after maxExpiries the remaining cases are skipped and the
// run is reported as inconclusive (never as a violation).
const maxExpiries = 8

var expiries atomic.Int64

func overBudget() bool { return expiries.Load() >= maxExpiries }

// execVM runs the VM's current bytecode under a watchdog; nothing the VM does
// may escape as a panic - if it does, the panic and its stack are captured.
func execVM(vm *ugo.VM, globals ugo.Object, lg *logger, args []ugo.Object) result {
	type raw struct {
		v     ugo.Object
		err   error
		pan   any
		paned bool
		stack string
	}
	ch := make(chan raw, 1)
	go func() {
		var r raw
		defer func() {
			if p := recover(); p != nil {
				r.paned = true
				r.pan = p
				r.stack = string(debug.Stack())
			}
			ch <- r
		}()
		r.v, r.err = vm.Run(globals, args...)
	}()
	var r raw
	select {
	case r = <-ch:
	case <-time.After(runTimeout):
		vm.Abort()
		select {
		case <-ch:
		case <-time.After(10 * time.Second):
		}
		expiries.Add(1)
		return result{class: "timeout", lg: lg}
	}
	out := result{lg: lg}
	if lg != nil {
		out.log = lg.snapshot()
	}
	switch {
	case r.paned:
		out.class = "panic"
		out.pan = firstLine(safeSprint(r.pan))
		if out.pan == "" {
			out.pan = "panic"
		}
		out.stack = r.stack
	case r.err != nil:
		out.class = "error"
		out.errName, out.errMsg = canon.ErrName(r.err)
		out.errMsg = firstLine(out.errMsg)
	case r.v == nil:
		out.class = "nil"
	default:
		out.class = "value"
		out.val = safeCanon(r.v)
	}
	return out
}

// ---------------------------------------------------------------- signatures

var reFrame = regexp.MustCompile(`^(github\.com/ozanh/ugo[^\s(]*(?:\(\*?[A-Za-z0-9_]+\))?[^\s(]*)\(`)

// escapeFrame returns the first function inside github.com/ozanh/ugo below
// the innermost panic in a debug.Stack() dump.
func escapeFrame(stack string) string {
	lines := strings.Split(stack, "\n")
	// start after the first "panic(" frame (the panic that escaped is the innermost one)
	start := 0
	for i, l := range lines {
		if strings.HasPrefix(l, "panic(") {
			start = i + 1
			break
		}
	}
	for _, l := range lines[start:] {
		if strings.HasPrefix(l, "\t") || strings.HasPrefix(l, " ") {
			continue
		}
		if !strings.HasPrefix(l, "github.com/ozanh/ugo") {
			continue
		}
		name := l
		if i := strings.LastIndex(name, "("); i > 0 {
			name = name[:i]
		}
		name = strings.TrimPrefix(name, "github.com/ozanh/ugo")
		name = strings.TrimPrefix(name, ".")
		return name
	}
	return "unknown"
}

func panicClass(p string) string {
	switch {
	case strings.Contains(p, panicTag):
		return "callback-panic"
	case strings.Contains(p, "index out of range"):
		return "index-out-of-range"
	case strings.Contains(p, "slice bounds out of range"):
		return "slice-bounds"
	case strings.Contains(p, "nil map"):
		return "nil-map"
	case strings.Contains(p, "nil pointer"):
		return "nil-deref"
	case strings.Contains(p, "interface conversion"):
		return "type-assertion"
	case strings.Contains(p, "divide by zero"):
		return "divide-by-zero"
	}
	return "other"
}

// ---------------------------------------------------------------- the probe

const probeModule = `
twice := func(x) { return x * 2 }
return {twice: twice, name: "pm"}
`

const probeSrc = `
pm := import("pm")
mk := func(a) { return func(b) { a += b; return a } }
acc := mk(3)
out := []
var fib
fib = func(n) { if n < 2 { return n }; return fib(n-1) + fib(n-2) }
try {
	out = append(out, acc(4))
	try {
		out = append(out, [1, 2][5])
	} finally {
		out = append(out, "inner-finally")
	}
} catch e {
	out = append(out, e.Name)
} finally {
	out = append(out, pm.twice(21), acc(10), fib(12))
}
for i, v in [5, 6] { out = append(out, i * v) }
return out
`

const probeWant = `[i7,s"inner-finally",s"IndexOutOfBoundsError",i42,i17,i144,i0,i6]`

// probe2 fails at top level outside of any try statement: Run must return exactly this error
// (handlers left over from an earlier run must not catch it).
const probe2Src = `
acc := 0
for i := 0; i < 3; i++ { acc += i }
throw error("probe-error-" + string(acc))
`

const probe2Want = "probe-error-3"

var probeBC, probe2BC *ugo.Bytecode

func compileProbe() error {
	mm := ugo.NewModuleMap()
	mm.AddSourceModule("pm", []byte(probeModule))
	bc, err := ugo.Compile([]byte(probeSrc), ugo.CompilerOptions{ModuleMap: mm})
	if err != nil {
		return err
	}
	probeBC = bc
	r := execVM(ugo.NewVM(bc).SetRecover(true), ugo.Map{}, nil, nil)
	if r.class != "value" || r.val != probeWant {
		return fmt.Errorf("probe on a fresh VM gives %s, want %s", r, probeWant)
	}
	bc2, err := ugo.Compile([]byte(probe2Src), ugo.CompilerOptions{})
	if err != nil {
		return err
	}
	probe2BC = bc2
	r = execVM(ugo.NewVM(bc2).SetRecover(true), ugo.Map{}, nil, nil)
	if r.class != "error" || r.errMsg != probe2Want {
		return fmt.Errorf("probe 2 on a fresh VM gives %s, want error %s", r, probe2Want)
	}
	return nil
}

// ---------------------------------------------------------------- the oracle

type verdict struct {
	sig, what string // sig != "" : violation
	inconcl   string
	harness   string // harness problem (compile error of a generated program)
	r1        result
}

func mkGlobals(spec string, lg *logger) ugo.Object {
	m := ugo.Map{"L": lg.fn(), "H": newH(), "boomget": ugo.Int(1), "boomset": ugo.Int(1), "G": ugo.Int(5)}
	switch {
	case spec == "":
		return m
	case spec == "nil":
		return nil
	case spec == "int":
		return ugo.Int(3)
	case spec == "array":
		return ugo.Array{m}
	case spec == "syncmap":
		return &ugo.SyncMap{Value: m}
	case strings.HasPrefix(spec, "pglobals:"):
		return &pglobals{m: m, kind: strings.TrimPrefix(spec, "pglobals:")}
	}
	panic("c06: bad globals spec " + spec)
}

func compileCase(c *caseData) (bc *ugo.Bytecode, err error, pan string) {
	defer func() {
		if p := recover(); p != nil {
			pan = firstLine(safeSprint(p))
		}
	}()
	opts := ugo.CompilerOptions{NoOptimize: c.NoOpt}
	if len(c.Modules) > 0 {
		opts.ModuleMap = prog.ModuleMap(c.Modules, nil)
	}
	bc, err = ugo.Compile([]byte(c.Src), opts)
	return
}

func describe(c *caseData) string {
	s := fmt.Sprintf("kind=%s no_optimize=%v args=%s", c.Kind, c.NoOpt, argsString(c.Args))
	if c.Globals != "" {
		s += " globals=" + c.Globals
	}
	if c.Tmpl != "" {
		pj, _ := json.Marshal(c.Params)
		s += fmt.Sprintf(" template=%s params=%s", c.Tmpl, pj)
	}
	src := c.Src
	if len(src) > 6000 {
		src = src[:3000] + "\n...(" + fmt.Sprint(len(src)-6000) + " bytes elided)...\n" + src[len(src)-3000:]
	}
	return s + "\n--- script ---\n" + src
}

func judge(c *caseData) verdict {
	var v verdict
	if overBudget() {
		v.inconcl = "skipped-after-watchdog-budget"
		return v
	}
	bc, err, pan := compileCase(c)
	if err != nil || pan != "" {
		v.harness = fmt.Sprintf("compile: %v %s", err, pan)
		return v
	}
	vm := ugo.NewVM(bc).SetRecover(true)

	lg1 := &logger{}
	r1 := execVM(vm, mkGlobals(c.Globals, lg1), lg1, buildArgs(c.Args))
	v.r1 = r1
	c.Outcome = r1.String()
	switch r1.class {
	case "timeout":
		v.inconcl = "watchdog-first-run"
		return v
	case "panic":
		v.sig = "escape:" + escapeFrame(r1.stack) + ":" + panicClass(r1.pan)
		v.what = fmt.Sprintf("a Go panic escaped VM.Run although SetRecover(true): %s\n%s\n--- Go stack at the harness' recover ---\n%s", r1.pan, describe(c), trimStack(r1.stack))
		return v
	case "nil":
		v.sig = "nil-result"
		v.what = "VM.Run returned (nil, nil)\n" + describe(c)
		return v
	}

	if u := lostInFinally(r1.log); u != "" {
		v.sig = "lost-panic:pending-failure-lost-in-finally"
		v.what = fmt.Sprintf("the statements after a try/finally ran (%q logged) although its try body did not complete (%q missing): the failure that was pending while the finally block ran a nested try statement was neither delivered to a handler nor returned\nresult=%s\nlog=%v\n%s", "@after:"+u, "@done:"+u, r1, r1.log, describe(c))
		return v
	}
	if !c.valueOK(r1) {
		v.sig = "lost-panic:value-not-from-script"
		v.what = fmt.Sprintf("VM.Run returned %s, a value no return statement of the script can produce (want %s): the run ended without the error being delivered to a handler or returned\nlog=%v\n%s", r1, c.WantValue, r1.log, describe(c))
		return v
	}

	// the same VM must still work: first a script that throws at top level (a successful run would
	// wipe the main frame's state), then the fixed probe script
	vm.SetBytecode(probe2BC)
	rp2 := execVM(vm, ugo.Map{}, nil, nil)
	switch {
	case rp2.class == "timeout":
		v.inconcl = "watchdog-probe"
		return v
	case rp2.class == "panic":
		v.sig = "reuse-broken:probe-panics-after-" + r1.class
		v.what = fmt.Sprintf("after a first run ending in %s, the failing probe script PANICS on the same VM: %s\n%s\n--- Go stack ---\n%s", r1, rp2.pan, describe(c), trimStack(rp2.stack))
		return v
	case rp2.class != "error" || rp2.errMsg != probe2Want:
		v.sig = "reuse-broken:probe2-after-" + r1.class
		v.what = fmt.Sprintf("after a first run ending in %s, the probe script that throws at top level gives %s on the same VM, want ERROR %q\n%s", r1, rp2, probe2Want, describe(c))
		return v
	}

	vm.SetBytecode(probeBC)
	rp := execVM(vm, ugo.Map{}, nil, nil)
	switch {
	case rp.class == "timeout":
		v.inconcl = "watchdog-probe"
		return v
	case rp.class == "panic":
		v.sig = "reuse-broken:probe-panics-after-" + r1.class
		v.what = fmt.Sprintf("after a first run ending in %s, the probe script PANICS on the same VM: %s\n%s\n--- Go stack ---\n%s", r1, rp.pan, describe(c), trimStack(rp.stack))
		return v
	case rp.class != "value" || rp.val != probeWant:
		v.sig = "reuse-broken:probe-after-" + r1.class
		v.what = fmt.Sprintf("after a first run ending in %s, the probe script on the same VM (SetBytecode) gives %s, want VALUE %s\n%s", r1, rp, probeWant, describe(c))
		return v
	}

	// and the first bytecode once more
	vm.SetBytecode(bc)
	lg2 := &logger{}
	r2 := execVM(vm, mkGlobals(c.Globals, lg2), lg2, buildArgs(c.Args))
	switch {
	case r2.class == "timeout":
		v.inconcl = "watchdog-rerun"
		return v
	case r2.class == "panic":
		v.sig = "escape:" + escapeFrame(r2.stack) + ":" + panicClass(r2.pan) + ":rerun"
		v.what = fmt.Sprintf("re-running the bytecode on the same VM (first run: %s) PANICS: %s\n%s\n--- Go stack ---\n%s", r1, r2.pan, describe(c), trimStack(r2.stack))
		return v
	case r2.class == "nil":
		v.sig = "nil-result"
		v.what = "VM.Run returned (nil, nil) on the re-run\n" + describe(c)
		return v
	case !c.valueOK(r2):
		v.sig = "lost-panic:value-not-from-script:rerun"
		v.what = fmt.Sprintf("re-run on the same VM returned %s, a value no return statement of the script can produce (want %s; first run: %s)\n%s", r2, c.WantValue, r1, describe(c))
		return v
	case r2.key() != r1.key():
		v.sig = "reuse-broken:rerun-after-" + r1.class
		v.what = fmt.Sprintf("re-running the same bytecode with equal inputs on the same VM changes the outcome class: first %s, then %s\n%s", r1, r2, describe(c))
		return v
	}
	return v
}

func trimStack(s string) string {
	lines := strings.Split(s, "\n")
	if len(lines) > 60 {
		lines = append(lines[:60], "...")
	}
	return strings.Join(lines, "\n")
}

// lostInFinally: "@after:U" logged without "@done:U" (see placement pending-through-finally-with-nested-try).
func lostInFinally(log []string) string {
	done := map[string]bool{}
	for _, s := range log {
		if i := strings.Index(s, "@done:"); i >= 0 {
			done[strings.Trim(s[i+6:], "\"")] = true
		}
	}
	for _, s := range log {
		if i := strings.Index(s, "@after:"); i >= 0 {
			if u := strings.Trim(s[i+7:], "\""); !done[u] {
				return u
			}
		}
	}
	return ""
}

// nontrivial: the run raised at least one runtime error or Go panic.
func raised(r result) (caught, uncaught bool) {
	for _, s := range r.log {
		if strings.Contains(s, "@caught") || strings.Contains(s, "@finally-err") {
			caught = true
			break
		}
	}
	return caught, r.class == "error"
}

func classify(rec *ev.Rec, c *caseData, v verdict, extra ...string) {
	r := v.r1
	caught, uncaught := raised(r)
	rec.Class("kind:" + c.Kind)
	if c.Globals != "" {
		g := c.Globals
		if i := strings.Index(g, ":"); i > 0 {
			g = g[:i]
		}
		rec.Class("globals:" + g)
	}
	if caught {
		rec.Class("raised:caught")
	}
	if uncaught {
		rec.Class("raised:uncaught")
		rec.Class("returned-error:" + r.errName)
		switch {
		case r.errName == "goerror" && strings.Contains(r.errMsg, "index out of range [20"):
			rec.Class("edge:value-stack(index panic)")
		case r.errName == "StackOverflowError":
			rec.Class("edge:frame-limit(StackOverflowError)")
		}
		if r.errName == "goerror" && strings.Contains(r.errMsg, panicTag) {
			rec.Class("go-callback-panic:returned")
		}
	} else if r.class == "value" {
		rec.Class("returned-value")
	}
	for _, e := range extra {
		rec.Class(e)
	}
	if caught || uncaught {
		rec.Class("nontrivial")
		rec.NonTriv(c.Kind + "\x00" + c.Src + "\x00" + argsString(c.Args) + "\x00" + c.Globals)
	}
	rec.Sample(map[string]any{"kind": c.Kind, "tmpl": c.Tmpl, "params": c.Params, "src": clip(c.Src, 700), "args": argsString(c.Args), "outcome": r.String(), "caught": caught})
}

func clip(s string, n int) string {
	if len(s) > n {
		return s[:n] + "...(" + fmt.Sprint(len(s)) + " bytes)"
	}
	return s
}

// report handles a verdict inside a rapid property (fatal = rt.Fatalf).
func report(rec *ev.Rec, c *caseData, v verdict, fatal func(format string, args ...any)) (stop bool) {
	switch {
	case v.harness != "":
		fatal("HARNESS: generated program does not compile: %s\n%s", v.harness, describe(c))
		return true
	case v.inconcl != "":
		rec.Inconcl(v.inconcl)
		return true
	case v.sig != "":
		if rec.Violation(v.sig, v.what, c) {
			return true
		}
		fatal("%s", v.what)
		return true
	}
	return false
}

// ---------------------------------------------------------------- arguments

var goSpecs = func() []string {
	var s []string
	for _, k := range []string{"none", "str", "err", "nilmap", "index", "nilderef", "reterr"} {
		s = append(s, "fn:"+k, "ex:"+k, "plain:"+k)
	}
	s = append(s, "nc", "builtin:len", "builtin:append", "builtin:string", "builtin:int", "builtin:error", "builtin:typeName")
	return s
}()

func drawArg(rt *rapid.T, depth int) argD {
	kinds := []string{"undefined", "int", "int", "uint", "float", "char", "string", "string", "bytes", "bool", "error", "go", "obj"}
	if depth < 2 {
		kinds = append(kinds, "array", "array", "map")
	}
	switch k := rapid.SampledFrom(kinds).Draw(rt, "argkind"); k {
	case "undefined":
		return argD{T: "undefined"}
	case "int":
		return argD{T: "int", S: fmt.Sprint(vals.Int().Draw(rt, "int"))}
	case "uint":
		return argD{T: "uint", S: fmt.Sprint(vals.Uint().Draw(rt, "uint"))}
	case "float":
		return argD{T: "float", S: fmtFloat(vals.Float().Draw(rt, "float"))}
	case "char":
		return argD{T: "char", S: fmt.Sprint(vals.Char().Draw(rt, "char"))}
	case "string":
		return argD{T: "string", S: rapid.SampledFrom(vals.Strings).Draw(rt, "str")}
	case "bytes":
		return argD{T: "bytes", S: rapid.SampledFrom(vals.Strings).Draw(rt, "bytes")}
	case "bool":
		return argD{T: "bool", S: fmt.Sprint(rapid.Bool().Draw(rt, "bool"))}
	case "error":
		return argD{T: "error", S: rapid.SampledFrom([]string{"error|boom", "TypeError|t", "|", "ZeroDivisionError|"}).Draw(rt, "err")}
	case "go":
		return argD{T: "go", S: rapid.SampledFrom(goSpecs).Draw(rt, "gospec")}
	case "obj":
		return argD{T: "go", S: "obj:" + rapid.SampledFrom(allKinds).Draw(rt, "objkind") + ":" + rapid.SampledFrom(objWheres).Draw(rt, "objwhere")}
	case "array":
		n := rapid.IntRange(0, 3).Draw(rt, "alen")
		a := argD{T: "array"}
		for i := 0; i < n; i++ {
			a.E = append(a.E, drawArg(rt, depth+1))
		}
		return a
	default:
		// at most one key: iteration order of larger maps is unspecified (outcome class may depend on it)
		a := argD{T: "map"}
		if rapid.Bool().Draw(rt, "mapfull") {
			a.S = rapid.SampledFrom([]string{"k", "a", "b", "n", ""}).Draw(rt, "mkey")
			a.E = []argD{drawArg(rt, depth+1)}
		}
		return a
	}
}

func fmtFloat(f float64) string { return strings.ToLower(fmt.Sprintf("%v", f)) }

func drawArgs(rt *rapid.T) []argD {
	n := rapid.IntRange(0, 5).Draw(rt, "nargs")
	out := make([]argD, 0, n)
	for i := 0; i < n; i++ {
		out = append(out, drawArg(rt, 0))
	}
	return out
}

// ---------------------------------------------------------------- (a) generated programs

func profiles() []gen.Config {
	base := gen.Config{MaxStmts: 24, MaxDepth: 3, MaxFnDepth: 3, MaxBlock: 4,
		Failing: true, Try: true, Closures: true, Calls: true, Params: true, Floats: true,
		Destruct: true, Consts: true, Recursion: true, Log: true}
	small := base
	small.MaxStmts = 10
	return []gen.Config{base, base, small}
}

var reCatch = regexp.MustCompile(`( catch (?:[A-Za-z_][A-Za-z0-9_]* )?\{\n)`)

// markCatches makes every catch block log "@caught" first, so that the check
// can tell that a runtime error was raised and delivered to the script.
func markCatches(src string) string {
	return reCatch.ReplaceAllString(src, "${1}L(\"@caught\")\n")
}

func genCase(rt *rapid.T, profs []gen.Config) (*caseData, *gen.GenProgram) {
	cfg := profs[rapid.IntRange(0, len(profs)-1).Draw(rt, "profile")]
	gp := gen.Generate(rt, cfg)
	p := prog.Prepare(gp)
	c := &caseData{Kind: "gen", Src: markCatches(p.Src), Modules: p.ModSrc}
	if len(c.Modules) == 0 {
		c.Modules = nil
	}
	c.NoOpt = rapid.Bool().Draw(rt, "noopt")
	if rapid.IntRange(0, 9).Draw(rt, "keepargs") == 0 {
		// the generator's own well-typed arguments
		for _, a := range p.Args {
			c.Args = append(c.Args, objToArgD(a))
		}
	} else {
		c.Args = drawArgs(rt)
	}
	c.ArgsSrc = argsString(c.Args)
	c.Globals = drawGlobals(rt)
	return c, gp
}

// drawGlobals: mostly the map with L and H; sometimes nil, a non-indexable value, an array, a sync map.
func drawGlobals(rt *rapid.T) string {
	if rapid.IntRange(0, 9).Draw(rt, "oddglobals") != 0 {
		return ""
	}
	return rapid.SampledFrom([]string{"nil", "int", "array", "syncmap", "pglobals:none"}).Draw(rt, "globalskind")
}

func objToArgD(o ugo.Object) argD {
	switch v := o.(type) {
	case ugo.Int:
		return argD{T: "int", S: fmt.Sprint(int64(v))}
	case ugo.Uint:
		return argD{T: "uint", S: fmt.Sprint(uint64(v))}
	case ugo.Float:
		return argD{T: "float", S: fmtFloat(float64(v))}
	case ugo.Char:
		return argD{T: "char", S: fmt.Sprint(int32(v))}
	case ugo.String:
		return argD{T: "string", S: string(v)}
	case ugo.Bool:
		return argD{T: "bool", S: fmt.Sprint(bool(v))}
	}
	return argD{T: "undefined"}
}

// ---------------------------------------------------------------- TestCheck

func TestCheck(t *testing.T) {
	rec := ev.New("C06")
	rec.Rule = "(a) programs from the scope-aware generator (Failing+Try+Closures+Calls+Params+Floats+Destruct+Consts+Recursion+Log, every catch block additionally logs '@caught') run with 0..5 arguments of every type (undefined, ints, uints, floats, chars, strings, bytes, bools, arrays, maps, errors, builtin functions, Go functions/ExCallers/objects that panic) and sometimes nil / non-indexable / array / sync-map / custom globals; (b) resource-edge text templates drawn by rapid: non-tail recursion with 0..2 params, 0..3 or 150..230 locals and 0..4 pending temporaries per frame (1 slot per frame reaches the 1024-frame limit first, the others overflow the 2048-slot value stack first), depth shallow/mid/at the frame limit/fitted to the stack/unbounded, at the bottom a wide array / map / nested call-argument list (script and Go callee) / binary expression / spread call sized so that the total pushed slots hit a target drawn from 2030..2070, optionally with the failing operation (throw, division by zero, Go panic, index, non-callable, object panic) as the LAST operand so that the error is raised with the stack nearly full; placed plainly / in try / try-finally / in catch / in finally (with and without a pending error) / nested try in catch / try around the top call / try-catch-finally in EVERY frame (rethrow, swallow, call, Go panic, throw from finally); started directly or through an Invoker re-entry (top, middle, bottom; Invoke, Acquire/Release, swallowing, panicking after, twice); plus a deterministic sweep target=2030..2070 over 47 fixed shapes (class sweep:* records whether the outcome flips inside the window); (c) Go-callback templates: *Function (Value/ValueEx, direct, via variable, spread), ExCallerObject, NameCallerObject, plain callable, custom Object methods BinaryOp/IndexGet/IndexSet/String/Iterate/Next/Key/Value/Equal/IsFalsy/Call/CanCall/CanIterate/TypeName, globals object IndexGet/IndexSet, Go objects passed as arguments, script failures, Invoker re-entry nested up to 2 levels; 13 panic kinds (string, error, *ugo.Error, Object, nil map write, index, nil deref, panic(nil), struct value, error whose Error() panics, slice bounds, type assertion, integer division) + returned errors; 13 placements (try/catch/finally variants, inside functions, loops, 3..300 deep recursion, with pending temporaries, closures in finally), 1..3 actions per script, half importing a source module named like the probe's. Oracle per case: fresh VM SetRecover(true); Run under the harness' recover (escape => signature from the Go stack); result must be (value,nil) or (nil,err) and a value must be one the template's single top-level return can produce; then on the SAME VM a probe that throws at top level must return exactly its error, the fixed probe (closures + try/finally + import) must return its known value, and the first bytecode re-run with equal fresh inputs must give the same outcome class (value / error Name). Non-trivial = the run raised >= 1 runtime error or Go panic (Run returned an error, or a catch block logged '@caught'); distinct by kind+source+args+globals"
	rec.Assumptions = []string{
		"stack overflow need not be catchable by the script's try (docs/error-handling.md): any error return is accepted",
		"the re-run is compared by outcome class only (value / error Name); values and messages are C07's business",
		"not generated: self-referential containers, infinite tail recursion, >10^4-deep nested values (fatal Go stack exhaustion / non-termination are not Go panics)",
		"argument maps have at most one key (iteration order)",
		"watchdog expiry (5 s) is inconclusive",
	}
	defer func() { rec.Flush(!t.Failed() || rec.HasUnknown()) }()

	if err := compileProbe(); err != nil {
		// the probe is valid uGO with a fixed documented result; if the tree under test cannot
		// run it on a FRESH vm the check cannot judge re-use.
		t.Fatalf("HARNESS: probe script: %v", err)
	}

	runReplays(t, rec)
	if ev.ReplayOnly() {
		return
	}

	profs := profiles()
	ev.RapidCheck(t, "generated-programs", ev.N(4000, 50000), 1, func(rt *rapid.T) {
		c, gp := genCase(rt, profs)
		rec.Case()
		v := judge(c)
		if v.harness != "" && strings.Contains(v.harness, "Optimizer") {
			rec.Exclude("optimizer-refused(C01)")
			return
		}
		if report(rec, c, v, rt.Fatalf) {
			return
		}
		var extra []string
		if gp.Features["try"] > 0 {
			extra = append(extra, "gen:has-try")
		}
		if gp.Features["finally"] > 0 {
			extra = append(extra, "gen:has-finally")
		}
		if gp.Features["param"] > 0 {
			extra = append(extra, "gen:has-param")
		}
		extra = append(extra, fmt.Sprintf("gen:nargs=%d", len(c.Args)))
		classify(rec, c, v, extra...)
	})
	rec.Unfreeze()

	ev.RapidCheck(t, "resource-edge", ev.N(1200, 15000), 2, func(rt *rapid.T) {
		p := drawEdge(rt)
		c, err := p.build()
		if err != nil {
			rt.Fatalf("HARNESS: edge template: %v", err)
		}
		rec.Case()
		v := judgeEdge(rec, p, c)
		if report(rec, c, v, rt.Fatalf) {
			return
		}
		classify(rec, c, v, p.classes(v.r1)...)
	})
	rec.Unfreeze()

	ev.RapidCheck(t, "go-callbacks", ev.N(4000, 50000), 3, func(rt *rapid.T) {
		c, classes := drawCallback(rt)
		rec.Case()
		v := judge(c)
		if report(rec, c, v, rt.Fatalf) {
			return
		}
		classify(rec, c, v, classes...)
	})
	rec.Unfreeze()

	// deterministic sweep of the stack alignment for a few shapes (all shards: cheap)
	edgeSweep(t, rec)

	if overBudget() {
		t.Errorf("INCONCLUSIVE: %d runs hit the %v watchdog; the remaining cases were skipped (hangs are not judged by this property)", expiries.Load(), runTimeout)
	}
}

// ---------------------------------------------------------------- replay

func runReplays(t *testing.T, rec *ev.Rec) {
	for _, rf := range rec.Replays() {
		var c caseData
		if err := json.Unmarshal(rf.Case, &c); err != nil {
			fmt.Fprintln(os.Stderr, "bad replay", rf.Path, err)
			continue
		}
		rec.Case()
		v := judge(&c)
		switch {
		case v.harness != "":
			t.Errorf("replay %s: %s", rf.Path, v.harness)
		case v.inconcl != "":
			rec.Inconcl(v.inconcl)
		case v.sig != "":
			// the signature of what fails NOW (a stored case may fail differently on another tree)
			if !rec.Violation(v.sig, "replay "+rf.Path+": "+v.what, &c) {
				t.Errorf("replay %s: %s", rf.Path, v.what)
			}
		default:
			rec.Class("replay-pass")
		}
	}
}

var _ = sort.Strings
