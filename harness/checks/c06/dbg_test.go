package c06

import (
	"fmt"
	"os"
	"testing"
)

func TestDebugSweep(t *testing.T) {
	if os.Getenv("C06_DEBUG") == "" {
		t.Skip()
	}
	if err := compileProbe(); err != nil {
		t.Fatal(err)
	}
	shapes := []edgeP{
		{Form: "arr", DepthMode: "shallow", Depth: 2, Wide: "array", Fail: "div0", FailIn: true, Place: "try-bottom", Via: "direct", Inv: "call", NoOpt: true},
		{Form: "arr", DepthMode: "shallow", Depth: 2, Wide: "array", Fail: "none", FailIn: true, Place: "plain", Via: "direct", Inv: "call", NoOpt: true},
		{Form: "arr", DepthMode: "shallow", Depth: 2, Wide: "goargs", Fail: "gopanic", GoKind: "str", FailIn: true, Place: "try-bottom", Via: "direct", Inv: "call", NoOpt: true},
		{Form: "arr", DepthMode: "shallow", Depth: 2, Wide: "array", Fail: "div0", FailIn: true, Place: "in-finally-pending", Via: "direct", Inv: "call", NoOpt: true},
	}
	for _, sh := range shapes {
		for target := 2036; target <= 2056; target++ {
			p := sh
			p.Target = target
			c, err := p.build()
			if err != nil {
				t.Fatal(err)
			}
			v := judge(c)
			fmt.Printf("%s/%s/%s target=%d W=%d fnlocals=%d: %s log=%v sig=%s\n", p.Wide, p.Fail, p.Place, target, p.W, p.FnLocals, clip(v.r1.String(), 150), v.r1.log, v.sig)
		}
	}
}
