package c06

// (b) resource-edge templates and (c) Go-callback templates. Both are plain
// text templates parameterised by rapid draws; the parameter vector is
// reported with a failure.

import (
	"fmt"
	"regexp"
	"strings"
	"testing"

	"github.com/ozanh/ugo"
	"pgregory.net/rapid"

	"verif/internal/ev"
)

// ---------------------------------------------------------------- (b) edge

type edgeP struct {
	P         int    `json:"P"`      // extra parameters of the recursive function
	K         int    `json:"K"`      // extra locals per frame
	T         int    `json:"T"`      // temporaries pending at the recursive call
	Form      string `json:"form"`   // arr | add | arg | stmt
	Param0    bool   `json:"param0"` // depth counter in a captured variable (frame has only P params)
	DepthMode string `json:"depth_mode"`
	Depth     int    `json:"depth"`
	WMin      int    `json:"wmin"`
	Target    int    `json:"target"` // total value-stack slots aimed at (2030..2070)
	Wide      string `json:"wide"`   // none array map args goargs binexpr spread
	W         int    `json:"W"`      // derived width
	Fail      string `json:"fail"`   // none throw div0 gopanic index notcallable objpanic
	FailIn    bool   `json:"fail_in"`
	GoKind    string `json:"go_kind"`
	Place     string `json:"place"`
	Via       string `json:"via"` // direct | top | bottom | mid
	Inv       string `json:"inv"`
	NoOpt     bool   `json:"no_optimize"`
	NArgs     int    `json:"nargs"`
	// measured in phase 1
	MainLocals int `json:"main_locals"`
	FnLocals   int `json:"fn_locals"`
}

var (
	edgeForms  = []string{"arr", "add", "arg", "stmt"}
	edgeDepths = []string{"shallow", "mid", "frame-edge", "stack-fit", "stack-fit", "unbounded"}
	edgeWides  = []string{"none", "array", "array", "map", "args", "goargs", "binexpr", "spread"}
	edgeFails  = []string{"none", "throw", "div0", "gopanic", "index", "notcallable", "objpanic"}
	edgePlaces = []string{"plain", "plain", "try-bottom", "tryfin-bottom", "in-catch", "in-finally", "in-finally-pending", "in-catch-nested-try",
		"try-top", "tryfin-top", "each-catch-rethrow", "each-catch-swallow", "each-finally",
		"each-catch-callg", "each-catch-gopanic", "each-finally-callg", "each-finally-throw", "each-catch-finally-callg"}
	edgeVias = []string{"direct", "direct", "direct", "top", "bottom", "mid"}
	edgeInvs = []string{"call", "callAcq", "callSwallow", "callThenPanic", "callTwice"}
)

func drawEdge(rt *rapid.T) *edgeP {
	p := &edgeP{}
	p.P = rapid.IntRange(0, 2).Draw(rt, "P")
	if rapid.IntRange(0, 2).Draw(rt, "manylocals") == 0 {
		p.K = rapid.IntRange(150, 230).Draw(rt, "K")
	} else {
		p.K = rapid.IntRange(0, 3).Draw(rt, "Ksmall")
	}
	p.T = rapid.IntRange(0, 4).Draw(rt, "T")
	p.Form = rapid.SampledFrom(edgeForms).Draw(rt, "form")
	p.Param0 = rapid.IntRange(0, 3).Draw(rt, "param0") == 0
	p.DepthMode = rapid.SampledFrom(edgeDepths).Draw(rt, "depthmode")
	switch p.DepthMode {
	case "shallow":
		p.Depth = rapid.IntRange(0, 3).Draw(rt, "depth")
	case "mid":
		p.Depth = rapid.IntRange(20, 400).Draw(rt, "depth")
	case "frame-edge":
		p.Depth = rapid.IntRange(1015, 1025).Draw(rt, "depth")
		if rapid.Bool().Draw(rt, "thinframe") {
			p.K, p.T = 0, 0
			if p.Form == "arg" || p.Form == "stmt" {
				p.Form = "arr"
			}
			if rapid.Bool().Draw(rt, "thinner") {
				p.P, p.Param0 = 0, true
			}
		}
	case "stack-fit":
		p.WMin = rapid.IntRange(0, 30).Draw(rt, "wmin")
	}
	if rapid.IntRange(0, 4).Draw(rt, "thin") == 0 {
		// 1 slot per frame: the frame limit comes first
		p.P, p.K, p.T, p.Param0, p.Form = 0, 0, 0, true, "arr"
	}
	p.Target = rapid.IntRange(2030, 2070).Draw(rt, "target")
	p.Wide = rapid.SampledFrom(edgeWides).Draw(rt, "wide")
	p.Fail = rapid.SampledFrom(edgeFails).Draw(rt, "fail")
	p.FailIn = rapid.Bool().Draw(rt, "failin")
	p.GoKind = rapid.SampledFrom(panicKinds).Draw(rt, "gokind")
	p.Place = rapid.SampledFrom(edgePlaces).Draw(rt, "place")
	p.Via = rapid.SampledFrom(edgeVias).Draw(rt, "via")
	p.Inv = rapid.SampledFrom(edgeInvs).Draw(rt, "inv")
	p.NoOpt = rapid.Bool().Draw(rt, "noopt")
	p.NArgs = rapid.IntRange(0, 2).Draw(rt, "nargs")
	return p
}

func rep(s string, n int, sep string) string {
	if n <= 0 {
		return ""
	}
	return strings.TrimSuffix(strings.Repeat(s+sep, n), sep)
}

// thin: the recursive function's frame has no locals at all (1 slot per frame:
// the 1024-frame limit is reached before the value stack overflows).
func (p *edgeP) thin() bool { return p.Param0 && p.P == 0 && p.K == 0 }

func (p *edgeP) fnParams() int {
	if p.Param0 {
		return p.P
	}
	return p.P + 1
}

// tEff: slots pending in the caller's frame while the callee runs (without the callee slot).
func (p *edgeP) tEff() int {
	switch p.Form {
	case "arr":
		return p.T
	case "add":
		return p.T
	case "arg":
		return p.T + 1
	}
	return 0
}

func (p *edgeP) failExpr() string {
	switch p.Fail {
	case "throw":
		return "th(0, 0, 0, 0, 0)"
	case "div0":
		return "1 / z"
	case "gopanic":
		return fmt.Sprintf("H.fn(%q)", p.GoKind)
	case "index":
		return "[0][z + 5]"
	case "notcallable":
		return "z()"
	case "objpanic":
		return fmt.Sprintf("H.obj(%q, \"binop\") + 1", p.GoKind)
	}
	return "0"
}

func (p *edgeP) wideStmt(w int) string {
	last := "0"
	if p.FailIn {
		last = p.failExpr()
	}
	zeros := func(n int) string {
		if n <= 0 {
			return ""
		}
		return rep("0", n, ", ") + ", "
	}
	switch p.Wide {
	case "array":
		return "r = [" + zeros(w-1) + last + "]"
	case "map":
		var sb strings.Builder
		sb.WriteString("r = {")
		n := w / 2
		for i := 0; i < n-1; i++ {
			fmt.Fprintf(&sb, "k%d: 0, ", i)
		}
		sb.WriteString("kl: " + last + "}")
		return sb.String()
	case "args", "goargs":
		callee, pre := "g(", ""
		if p.Wide == "goargs" {
			callee, pre = "H.fn(", "\"none\", "
		}
		const chunk = 200
		var sb strings.Builder
		sb.WriteString("r = ")
		depth := 0
		left := w
		for left > 0 {
			n := chunk
			if left < n {
				n = left
			}
			sb.WriteString(callee + pre + zeros(n-1))
			left -= n + 1
			depth++
		}
		sb.WriteString(last)
		sb.WriteString(strings.Repeat(")", depth))
		return sb.String()
	case "binexpr":
		var sb strings.Builder
		sb.WriteString("r = ")
		for i := 0; i < w; i++ {
			sb.WriteString("z + (")
		}
		sb.WriteString(last)
		sb.WriteString(strings.Repeat(")", w))
		return sb.String()
	case "spread":
		// a spread call of a 200-parameter function with w-1 slots pending
		return "r = [" + zeros(w-1) + "big(...A)]"
	}
	return "r = " + last
}

func (p *edgeP) action(w int) []string {
	lines := []string{p.wideStmt(w)}
	if !p.FailIn && p.Fail != "none" {
		if p.Fail == "throw" {
			lines = append(lines, `throw "bottom"`)
		} else {
			lines = append(lines, "r = "+p.failExpr())
		}
	}
	return lines
}

func indent(lines []string, n int) string {
	pad := strings.Repeat("\t", n)
	var sb strings.Builder
	for _, l := range lines {
		sb.WriteString(pad + l + "\n")
	}
	return sb.String()
}

func (p *edgeP) source(depth, w int) string {
	var sb strings.Builder
	sb.WriteString("global L\nglobal H\n")
	for i := 0; i < p.NArgs; i++ {
		if i == 0 {
			sb.WriteString("param (")
		}
		fmt.Fprintf(&sb, "a%d", i)
		if i < p.NArgs-1 {
			sb.WriteString(", ")
		} else {
			sb.WriteString(")\n")
		}
	}
	sb.WriteString("z := 0\nd := 0\nvar f\nvar r\n")
	sb.WriteString("g := func(...a) { return len(a) }\n")
	sb.WriteString("th := func(t0, t1, t2, t3, t4) { throw \"bottom\" }\n")
	if p.Wide == "spread" {
		var ps []string
		for i := 0; i < 200; i++ {
			ps = append(ps, fmt.Sprintf("b%d", i))
		}
		sb.WriteString("big := func(" + strings.Join(ps, ", ") + ") { return b0 }\n")
		sb.WriteString("A := repeat([0], 200)\n")
	}

	// parameter list / recursive call
	var params, cargs []string
	cond := fmt.Sprintf("d > %d", depth)
	midCond := fmt.Sprintf("d == %d", depth/2+1)
	if !p.Param0 {
		params = append(params, "n")
		cargs = append(cargs, "n + 1")
		cond = fmt.Sprintf("n >= %d", depth)
		midCond = fmt.Sprintf("n == %d", depth/2)
	}
	for i := 0; i < p.P; i++ {
		params = append(params, fmt.Sprintf("p%d", i))
		cargs = append(cargs, fmt.Sprintf("p%d", i))
	}
	ce := "f(" + strings.Join(cargs, ", ") + ")"
	if p.Via == "mid" {
		ce = "(" + midCond + " ? H." + p.Inv + "(" + strings.Join(append([]string{"f"}, cargs...), ", ") + ") : " + ce + ")"
	}

	var recurse []string
	switch p.Form {
	case "arr":
		recurse = []string{"return [" + strings.Repeat("0, ", p.T) + ce + "]"}
	case "add":
		recurse = []string{"return " + strings.Repeat("1 + (", p.T) + "1 + " + ce + strings.Repeat(")", p.T)}
		// one more pending operand than T: accounted for by measuring (see build)
	case "arg":
		recurse = []string{"return g(" + strings.Repeat("0, ", p.T) + ce + ")"}
	default:
		recurse = []string{"x := " + ce, "return x"}
	}
	if strings.HasPrefix(p.Place, "each-") {
		ident, rethrow := "e ", "throw e"
		if p.thin() {
			ident, rethrow = "", "throw \"again\""
		}
		catch := func(do ...string) []string {
			return append([]string{"} catch " + ident + "{", "\tL(\"@caught\")"}, tab(do)...)
		}
		try := append([]string{"try {"}, tab(recurse)...)
		switch p.Place {
		case "each-catch-rethrow":
			recurse = append(append(try, catch(rethrow)...), "}")
		case "each-catch-swallow":
			recurse = append(append(try, catch("return -1")...), "}")
		case "each-catch-callg":
			recurse = append(append(try, catch("return g(1, 2)")...), "}")
		case "each-catch-gopanic":
			recurse = append(append(try, catch(fmt.Sprintf("H.fn(%q)", p.GoKind), "return -2")...), "}")
		case "each-finally":
			recurse = append(try, "} finally {", "\tL(\"@finally\")", "}")
		case "each-finally-callg":
			recurse = append(try, "} finally {", "\tg(1, 2, 3)", "}")
		case "each-finally-throw":
			recurse = append(try, "} finally {", "\tthrow \"from-finally\"", "}")
		case "each-catch-finally-callg":
			recurse = append(append(try, catch("g(1)")...), "} finally {", "\tg(1, 2, 3)", "}")
		}
	}

	act := p.action(w)
	if p.Via == "bottom" {
		body := append(append([]string{"H." + p.Inv + "(func(q0, q1, q2, q3, q4, q5, q6) {"}, tab(act)...), "\treturn 0", "}, 0, 0, 0, 0, 0, 0, 0)")
		act = body
	}
	var bottom []string
	switch p.Place {
	case "try-bottom":
		if p.thin() {
			bottom = append(append([]string{"try {"}, tab(act)...), "} catch {", "\tL(\"@caught\")", "}")
		} else {
			bottom = append(append([]string{"try {"}, tab(act)...), "} catch e {", "\tL(\"@caught\")", "\tL(e.Name)", "}")
		}
	case "tryfin-bottom":
		bottom = append(append([]string{"try {"}, tab(act)...), "} finally {", "\tL(\"@finally\")", "}")
	case "in-catch":
		bottom = append(append([]string{"try {", "\tthrow \"x\"", "} catch e {", "\tL(\"@caught\")"}, tab(act)...), "}")
	case "in-finally":
		bottom = append(append([]string{"try {", "\tL(\"t\")", "} finally {"}, tab(act)...), "}")
	case "in-finally-pending":
		bottom = append(append([]string{"try {", "\tthrow \"x\"", "} finally {"}, tab(act)...), "}")
	case "in-catch-nested-try":
		bottom = append(append([]string{"try {", "\tthrow \"x\"", "} catch e {", "\tL(\"@caught\")", "\ttry {"}, tab(tab(act))...), "\t} catch e2 {", "\t\tL(\"@caught\")", "\t}", "}")
	default:
		bottom = act
	}

	sb.WriteString("f = func(" + strings.Join(params, ", ") + ") {\n")
	for i := 0; i < p.K; i++ {
		fmt.Fprintf(&sb, "\tl%d := %d\n", i, i)
	}
	if p.Param0 {
		sb.WriteString("\td++\n")
	}
	sb.WriteString("\tif " + cond + " {\n")
	sb.WriteString(indent(bottom, 2))
	sb.WriteString("\t\treturn 0\n\t}\n")
	sb.WriteString(indent(recurse, 1))
	sb.WriteString("}\n")

	var sargs []string
	if !p.Param0 {
		sargs = append(sargs, "0")
	}
	for i := 0; i < p.P; i++ {
		sargs = append(sargs, fmt.Sprint(i+1))
	}
	start := "f(" + strings.Join(sargs, ", ") + ")"
	if p.Via == "top" {
		start = "H." + p.Inv + "(" + strings.Join(append([]string{"f"}, sargs...), ", ") + ")"
	}
	switch p.Place {
	case "try-top":
		sb.WriteString("try {\n\tr = " + start + "\n} catch e {\n\tL(\"@caught\")\n\tr = e.Name\n}\n")
	case "tryfin-top":
		sb.WriteString("try {\n\tr = " + start + "\n} finally {\n\tL(\"@finally\")\n}\n")
	default:
		sb.WriteString("r = " + start + "\n")
	}
	sb.WriteString("return typeName(r)\n")
	return sb.String()
}

func tab(lines []string) []string {
	out := make([]string, len(lines))
	for i, l := range lines {
		out[i] = "\t" + l
	}
	return out
}

// findFn returns the recursive function's compiled template.
func (p *edgeP) findFn(bc *ugo.Bytecode) (*ugo.CompiledFunction, error) {
	var found *ugo.CompiledFunction
	for _, c := range bc.Constants {
		if cf, ok := c.(*ugo.CompiledFunction); ok && !cf.Variadic && cf.NumParams == p.fnParams() {
			if found != nil {
				return nil, fmt.Errorf("two candidate functions with %d params", p.fnParams())
			}
			found = cf
		}
	}
	if found == nil {
		return nil, fmt.Errorf("recursive function not found among the constants")
	}
	return found, nil
}

func (p *edgeP) build() (*caseData, error) {
	// phase 1: measure the frame sizes
	c := &caseData{Kind: "edge", Tmpl: "edge", NoOpt: p.NoOpt, WantValue: "string"}
	c.Src = p.source(1, 1)
	bc, err, pan := compileCase(c)
	if err != nil || pan != "" {
		return nil, fmt.Errorf("phase 1 compile: %v %s\n%s", err, pan, c.Src)
	}
	cf, err := p.findFn(bc)
	if err != nil {
		return nil, err
	}
	p.MainLocals, p.FnLocals = bc.Main.NumLocals, cf.NumLocals
	per := p.tEff() + 1 + p.FnLocals
	if p.Form == "add" {
		per++ // the innermost left operand
	}
	base := p.MainLocals + 1 + p.FnLocals
	if p.Via == "top" {
		base = p.FnLocals
	}
	depth := p.Depth
	switch p.DepthMode {
	case "stack-fit":
		depth = (p.Target - base - p.WMin) / per
		if depth < 0 {
			depth = 0
		}
		if depth > 1030 {
			depth = 1030
		}
	case "unbounded":
		depth = 1 << 40
	}
	p.Depth = depth
	spBottom := base + depth*per
	if p.DepthMode == "unbounded" {
		spBottom = 1 << 30
	}
	if p.Via == "bottom" {
		spBottom = 9
	}
	w := p.Target - spBottom
	if w < 0 {
		w = 0
	}
	if w > 2100 {
		w = 2100
	}
	if p.Wide == "none" {
		w = 0
	}
	p.W = w
	c.Src = p.source(depth, w)
	for i := 0; i < p.NArgs; i++ {
		c.Args = append(c.Args, argD{T: "int", S: fmt.Sprint(i)})
	}
	c.ArgsSrc = argsString(c.Args)
	c.Params = p
	return c, nil
}

// judgeEdge: when the optimizer refuses the wide constant expression (it
// evaluates it on a VM of its own and reports the overflow as a compile error -
// not a run of a compiled script), the template is judged unoptimized.
func judgeEdge(rec *ev.Rec, p *edgeP, c *caseData) verdict {
	v := judge(c)
	if v.harness != "" && strings.Contains(v.harness, "Optimizer") && !c.NoOpt {
		rec.Class("edge:optimizer-refused->unoptimized")
		c.NoOpt, p.NoOpt = true, true
		v = judge(c)
	}
	return v
}

func (p *edgeP) classes(r result) []string {
	out := []string{"edge:place=" + p.Place, "edge:via=" + p.Via, "edge:wide=" + p.Wide, "edge:depth=" + p.DepthMode, "edge:fail=" + p.Fail}
	if p.K >= 100 {
		out = append(out, "edge:many-locals-per-frame")
	}
	if p.FailIn && p.Fail != "none" && p.W > 0 {
		out = append(out, "edge:error-raised-with-stack-nearly-full")
	}
	if strings.HasPrefix(p.Place, "in-finally") && r.class == "error" {
		out = append(out, "edge:error-inside-finally")
	}
	if p.Via != "direct" {
		out = append(out, "edge:invoker-reentry")
		if r.class == "error" {
			out = append(out, "edge:invoker-reentry:error")
		}
	}
	return out
}

// edgeSweep enumerates the target alignment 2030..2070 for fixed shapes and
// records whether the outcome flips inside the window (= the 2048 edge was
// really crossed at every alignment in between).
func edgeSweep(t *testing.T, rec *ev.Rec) {
	type shape struct {
		name string
		p    edgeP
	}
	var shapes []shape
	add := func(name string, p edgeP) { shapes = append(shapes, shape{name, p}) }
	for _, wide := range []string{"array", "args", "goargs", "binexpr", "map"} {
		for _, f := range []struct {
			fail string
			in   bool
		}{{"none", false}, {"div0", true}, {"gopanic", true}} {
			for _, place := range []string{"plain", "try-bottom", "in-finally-pending"} {
				if wide != "array" && place == "in-finally-pending" && f.fail == "none" {
					continue
				}
				add(fmt.Sprintf("%s/%s/%s", wide, f.fail, place), edgeP{Form: "arr", DepthMode: "shallow", Depth: 2, Wide: wide, Fail: f.fail, FailIn: f.in, GoKind: "str", Place: place, Via: "direct", Inv: "call", NoOpt: true})
			}
		}
	}
	add("deep/array/div0/try-bottom", edgeP{Form: "arr", T: 1, DepthMode: "stack-fit", WMin: 12, Wide: "array", Fail: "div0", FailIn: true, Place: "try-bottom", Via: "direct", Inv: "call"})
	add("deep/K200/array/gopanic/in-catch", edgeP{Form: "add", K: 200, DepthMode: "stack-fit", WMin: 12, Wide: "array", Fail: "gopanic", FailIn: true, GoKind: "nilmap", Place: "in-catch", Via: "direct", Inv: "call"})
	add("deep/each-catch-swallow", edgeP{Form: "arr", DepthMode: "stack-fit", WMin: 5, Wide: "array", Fail: "none", Place: "each-catch-swallow", Via: "direct", Inv: "call"})
	add("deep/each-finally", edgeP{Form: "arr", DepthMode: "stack-fit", WMin: 5, Wide: "array", Fail: "index", FailIn: true, Place: "each-finally", Via: "direct", Inv: "call"})
	add("child/top/array/div0", edgeP{Form: "arr", DepthMode: "shallow", Depth: 1, Wide: "array", Fail: "div0", FailIn: true, Place: "try-bottom", Via: "top", Inv: "callAcq"})
	add("child/bottom/args/gopanic", edgeP{Form: "arr", DepthMode: "shallow", Depth: 1, Wide: "args", Fail: "gopanic", FailIn: true, GoKind: "index", Place: "plain", Via: "bottom", Inv: "call"})

	crossed, notCrossed := 0, 0
	for _, sh := range shapes {
		seen := map[string]bool{}
		for target := 2030; target <= 2070; target++ {
			p := sh.p
			p.Target = target
			c, err := p.build()
			if err != nil {
				t.Errorf("HARNESS: sweep %s: %v", sh.name, err)
				break
			}
			c.Tmpl = "sweep:" + sh.name
			rec.Case()
			v := judgeEdge(rec, &p, c)
			switch {
			case v.harness != "":
				t.Errorf("HARNESS: sweep %s target %d: %s", sh.name, target, v.harness)
				continue
			case v.inconcl != "":
				rec.Inconcl(v.inconcl)
				continue
			case v.sig != "":
				if !rec.Violation(v.sig, v.what, c) {
					t.Errorf("%s", v.what)
				}
				continue
			}
			seen[v.r1.key()] = true
			classify(rec, c, v, append(p.classes(v.r1), "edge:sweep")...)
		}
		if len(seen) >= 2 {
			crossed++
		} else {
			notCrossed++
			rec.Class("sweep-no-flip:" + sh.name)
		}
	}
	rec.ClassN("sweep:shapes-with-outcome-flip-inside-2030..2070", crossed)
	rec.Note("sweep_shapes", len(shapes))
	rec.Note("sweep_shapes_without_flip", notCrossed)
}

// ---------------------------------------------------------------- (c) callbacks

var objUses = map[string][]string{
	"binop":      {"W := X + 1", "W := X * X", "X += 1", "W := [1, X - 2]"},
	"indexget":   {"W := X[0]", "W := X.k", "W := X.a.b", "W := X.m(1)", "W := X[0][1]"},
	"indexset":   {"X.k = 1", "X[0] = 1", "X.k += 1"},
	"string":     {"W := string(X)", "W := sprintf(\"%v\", X)", "throw X", "W := {}; W[X] = 1", "W := \"a\" + X", "W := string([X])", "W := string({a: X})"},
	"iterate":    {"for v in X { L(v) }"},
	"next":       {"for v in X { L(v) }"},
	"key":        {"for k, v in X { L(k) }"},
	"value":      {"for v in X { L(v) }", "for k, v in X { L(v) }"},
	"equal":      {"W := X == 1", "W := X != X", "W := [X] == [X]", "W := {a: X} == {a: X}"},
	"falsy":      {"if X { L(1) }", "W := !X", "W := X || 1", "W := X && 1", "W := X ? 1 : 2", "for X { break }"},
	"call":       {"W := X(1, 2)", "W := X(...[1])", "W := X()"},
	"cancall":    {"W := X(1, 2)", "W := X()"},
	"caniterate": {"for v in X { L(v) }"},
	"typename":   {"W := typeName(X)", "W := -X", "W := X[0:1]", "W := 1 + X"},
}

var allUses = func() []string {
	var out []string
	for _, wh := range objWheres {
		out = append(out, objUses[wh]...)
	}
	return out
}()

var scriptFails = []string{
	"W := 1 / z",
	"W := 1 % z",
	"W := 1 << (z - 1)",
	"W := [0][z + 5]",
	"W := \"abc\"[2:z]",
	"W := z()",
	"throw \"thrown\"",
	"throw error(\"thrown-err\")",
	"throw TypeError.New(\"t\")",
	"W := undefined.a.b",
	"var Q; Q = func() { return 1 + Q() }; W := Q()",
	"W := func(a, b) { return a }(1)",
	"W := int([]) + {}",
	"for v in 5 { L(v) }",
	"z.k = 1",
}

type cbG struct {
	rt      *rapid.T
	classes map[string]bool
	args    []argD
	globals string
	uniq    int
}

func (g *cbG) pick(xs []string, label string) string { return rapid.SampledFrom(xs).Draw(g.rt, label) }

func (g *cbG) kind() string {
	if rapid.IntRange(0, 9).Draw(g.rt, "benign") == 0 {
		return g.pick([]string{"reterr", "retbad", "none"}, "benignkind")
	}
	return g.pick(panicKinds, "kind")
}

// action returns statements that (usually) make a Go callback or the script
// fail; the variables they declare get unique names.
func (g *cbG) action(depth int) []string {
	g.uniq++
	u := fmt.Sprint(g.uniq)
	lines := g.action0(depth)
	out := make([]string, len(lines))
	for i, l := range lines {
		out[i] = reVar.ReplaceAllString(l, "${1}"+u)
	}
	return out
}

// reVar matches the placeholder variables W X HH Q of action templates.
var reVar = regexp.MustCompile(`\b(W|X|HH|Q)\b`)

func (g *cbG) action0(depth int) []string {
	callees := []string{"fn", "fnvar", "fnspread", "fnex", "ex", "nc", "plain", "obj", "obj", "obj", "global-get", "global-set", "arg-fn", "arg-obj", "script"}
	if depth < 2 {
		callees = append(callees, "reenter", "reenter", "reenter")
	}
	callee := g.pick(callees, "callee")
	g.classes["cb:callee="+callee] = true
	k := g.kind()
	if callee != "script" && callee != "reenter" {
		g.classes["cb:panic-kind="+k] = true
	}
	qk := fmt.Sprintf("%q", k)
	switch callee {
	case "fn":
		return []string{"W := H.fn(" + qk + ", 1, 2)"}
	case "fnvar":
		return []string{"HH := H.fn", "W := [1, HH(" + qk + ")]"}
	case "fnspread":
		return []string{"HH := H.fn", "W := HH(...[" + qk + ", 1])"}
	case "fnex":
		return []string{"W := H.fnex(" + qk + ")"}
	case "ex":
		return []string{"W := H.ex(" + qk + ", [1, 2])"}
	case "nc":
		return []string{"W := H.nc.method(" + qk + ", 1)"}
	case "plain":
		return []string{"W := H.plain(" + qk + ")"}
	case "obj":
		where := g.pick(objWheres, "where")
		g.classes["cb:obj-method="+where] = true
		use := g.pick(objUses[where], "use")
		if rapid.IntRange(0, 4).Draw(g.rt, "anyuse") == 0 {
			use = g.pick(allUses, "anyuse2")
		}
		return []string{fmt.Sprintf("X := H.obj(%s, %q)", qk, where), use}
	case "global-get":
		g.globals = "pglobals:" + k
		return []string{"W := boomget"}
	case "global-set":
		g.globals = "pglobals:" + k
		return []string{"boomset = 2"}
	case "arg-fn":
		i := len(g.args)
		if i >= 5 {
			return []string{"W := H.fn(" + qk + ")"}
		}
		g.args = append(g.args, argD{T: "go", S: g.pick([]string{"fn:", "ex:", "plain:"}, "argfnkind") + k})
		return []string{fmt.Sprintf("W := a%d(1)", i)}
	case "arg-obj":
		i := len(g.args)
		if i >= 5 {
			return []string{"W := H.fn(" + qk + ")"}
		}
		where := g.pick(objWheres, "where")
		g.classes["cb:obj-method="+where] = true
		g.args = append(g.args, argD{T: "go", S: "obj:" + k + ":" + where})
		use := strings.ReplaceAll(g.pick(objUses[where], "use"), "X", fmt.Sprintf("a%d", i))
		// the replacement above must not touch other identifiers: uses only contain x as a name
		return []string{use}
	case "script":
		return []string{g.pick(scriptFails, "scriptfail")}
	default: // reenter
		inv := g.pick(edgeInvs, "inv")
		g.classes["cb:invoker="+inv] = true
		inner := g.placed(depth+1, g.action(depth+1))
		lines := []string{"W := H." + inv + "(func(u) {"}
		lines = append(lines, tab(inner)...)
		lines = append(lines, "\treturn u + 1", "}, 1)")
		return lines
	}
}

var cbPlaces = []string{"plain", "plain", "try-catch", "try-catch", "try-finally", "try-catch-finally", "in-catch", "in-finally", "in-finally-pending",
	"fn", "fn-try-outer", "loop-try", "deep", "pending-temps", "closure-in-finally", "pending-through-finally-with-nested-try", "pending-through-finally-with-nested-try"}

// placed wraps the action statements.
func (g *cbG) placed(depth int, act []string) []string {
	place := g.pick(cbPlaces, "place")
	g.classes["cb:place="+place] = true
	if depth > 0 {
		g.classes["cb:inside-invoker:place="+place] = true
	}
	g.uniq++
	u := g.uniq
	wrap := func(head []string, body []string, tail ...string) []string {
		return append(append(append([]string{}, head...), tab(body)...), tail...)
	}
	switch place {
	case "try-catch":
		return wrap([]string{"try {"}, act, "} catch e {", "\tL(\"@caught\")", "\tL(e.Name)", "}")
	case "try-finally":
		return wrap([]string{"try {"}, act, "} finally {", "\tL(\"@finally\")", "}")
	case "try-catch-finally":
		return wrap([]string{"try {"}, act, "} catch e {", "\tL(\"@caught\")", "} finally {", "\tL(\"@finally\")", "}")
	case "in-catch":
		return wrap([]string{"try {", "\tthrow \"first\"", "} catch e {", "\tL(\"@caught\")"}, act, "}")
	case "in-finally":
		return wrap([]string{"try {", "\tL(\"body\")", "} finally {"}, act, "}")
	case "in-finally-pending":
		return wrap([]string{"try {", "\tthrow \"first\"", "} finally {"}, act, "}")
	case "fn":
		return wrap([]string{fmt.Sprintf("fn%d := func() {", u)}, act, "\treturn 1", "}", fmt.Sprintf("fn%d()", u), "L(\"after-fn\")")
	case "fn-try-outer":
		return wrap([]string{fmt.Sprintf("fn%d := func() {", u)}, act, "\treturn 1", "}", "try {", fmt.Sprintf("\tfn%d()", u), "} catch e {", "\tL(\"@caught\")", "}")
	case "loop-try":
		return wrap([]string{"for i := 0; i < 3; i++ {", "\ttry {"}, tab(act), "\t} catch e {", "\t\tL(\"@caught\")", "\t} finally {", "\t\tL(i)", "\t}", "}")
	case "deep":
		d := rapid.SampledFrom([]int{3, 40, 300}).Draw(g.rt, "deepdepth")
		return wrap([]string{fmt.Sprintf("var rec%d", u), fmt.Sprintf("rec%d = func(n) {", u), fmt.Sprintf("\tif n < %d { return [n, rec%d(n + 1)] }", d, u)}, act, "\treturn 0", "}", fmt.Sprintf("rec%d(0)", u))
	case "pending-temps":
		return wrap([]string{fmt.Sprintf("t%d := [1, 2, 3, func() {", u)}, act, "\treturn 4", "}()]")
	case "pending-through-finally-with-nested-try":
		// whatever the action raises is pending while the finally block runs a try statement of its
		// own that completes normally; "@after:U" without "@done:U" means the pending failure was lost
		return wrap([]string{"try {", "\ttry {"}, tab(append(append([]string{}, act...), fmt.Sprintf("L(\"@done:%d\")", u))),
			"\t} finally {", "\t\ttry {", fmt.Sprintf("\t\t\tL(\"@inner:%d\")", u), "\t\t} finally {", fmt.Sprintf("\t\t\tL(\"@inner-fin:%d\")", u), "\t\t}", "\t}",
			fmt.Sprintf("\tL(\"@after:%d\")", u), "} catch e {", "\tL(\"@caught\")", "}")
	case "closure-in-finally":
		return wrap([]string{fmt.Sprintf("c%d := 0", u), "try {", "\tthrow \"first\"", "} catch e {", "\tL(\"@caught\")", "} finally {", fmt.Sprintf("\tfunc() { c%d++ }()", u)}, act, "}")
	}
	return act
}

const otherModule = `
twice := func(x) { return x * 3 }
return {twice: twice, name: "other"}
`

func drawCallback(rt *rapid.T) (*caseData, []string) {
	g := &cbG{rt: rt, classes: map[string]bool{}}
	n := rapid.IntRange(1, 3).Draw(rt, "nactions")
	var body []string
	for i := 0; i < n; i++ {
		body = append(body, g.placed(0, g.action(0))...)
	}
	var sb strings.Builder
	sb.WriteString("global L\nglobal H\nglobal boomget\nglobal boomset\n")
	// extra arguments of any type after the ones the actions use
	extra := rapid.IntRange(0, 2).Draw(rt, "extraargs")
	for i := 0; i < extra && len(g.args) < 5; i++ {
		g.args = append(g.args, drawArg(rt, 1))
	}
	np := len(g.args)
	if rapid.IntRange(0, 5).Draw(rt, "fewerargs") == 0 && np > 0 {
		// one declared param has no argument (undefined)
		g.args = g.args[:np-1]
	}
	if np > 0 {
		var ps []string
		for i := 0; i < np; i++ {
			ps = append(ps, fmt.Sprintf("a%d", i))
		}
		sb.WriteString("param (" + strings.Join(ps, ", ") + ")\n")
	}
	sb.WriteString("z := 0\n")
	// half of the scripts import a source module registered under the probe's module name (a stale
	// module cache would serve it to the probe)
	var mods map[string]string
	if rapid.Bool().Draw(rt, "import") {
		mods = map[string]string{"pm": otherModule}
		sb.WriteString("pm := import(\"pm\")\nz = pm.twice(0)\n")
		g.classes["cb:imports-module"] = true
	}
	sb.WriteString(indent(body, 0))
	sb.WriteString("return \"done\"\n")
	c := &caseData{Modules: mods, Kind: "cb", Tmpl: "callback", Src: sb.String(), Args: g.args, Globals: g.globals, NoOpt: rapid.Bool().Draw(rt, "noopt"), WantValue: "done"}
	c.ArgsSrc = argsString(c.Args)
	if c.Globals == "" {
		c.Globals = drawGlobals(rt)
	}
	var cl []string
	for k := range g.classes {
		cl = append(cl, k)
	}
	return c, cl
}
