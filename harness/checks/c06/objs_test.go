package c06

// Go callbacks / objects that panic on demand. Everything the scripts reach is
// hung below one global map `H` (plus `L`), rebuilt for every run so that no
// state survives between runs.

import (
	"errors"
	"fmt"
	"strconv"
	"strings"
	"sync"

	"github.com/ozanh/ugo"
	"github.com/ozanh/ugo/token"

	"verif/internal/canon"
)

const panicTag = "C06PANIC"

// panicKinds: what a callback does when it is told to misbehave.
var panicKinds = []string{"str", "err", "uerr", "obj", "nilmap", "index", "nilderef", "nil", "custom", "baderr", "slice", "typeassert", "divzero"}

// allKinds additionally has the well-behaved variants.
var allKinds = append(append([]string{}, panicKinds...), "reterr", "retbad", "none")

type customPanic struct{ N int }

type badErr struct{}

func (badErr) Error() string { panic(panicTag + " in Error()") }

//go:noinline
func doPanic(kind string) {
	switch kind {
	case "str":
		panic(panicTag + " string")
	case "err":
		panic(errors.New(panicTag + " error"))
	case "uerr":
		panic(ugo.ErrType.NewError(panicTag))
	case "obj":
		panic(ugo.String(panicTag + " object"))
	case "nilmap":
		var m map[string]int
		m[kind] = 1
	case "index":
		var a []int
		i := len(kind)
		_ = a[i]
	case "nilderef":
		var p *customPanic
		_ = p.N
	case "nil":
		panic(nil)
	case "custom":
		panic(customPanic{7})
	case "baderr":
		panic(badErr{})
	case "slice":
		a := make([]int, 1)
		i := len(kind)
		_ = a[i:]
	case "typeassert":
		var x any = len(kind)
		_ = x.(string)
	case "divzero":
		z := len(kind) - 7
		_ = 1 / z
	}
}

func kindErr(kind string) error {
	switch kind {
	case "reterr":
		return ugo.ErrType.NewError("returned by callback")
	case "retbad":
		return badErr{} // an error whose Error method panics
	}
	return nil
}

func argKind(args []ugo.Object) string {
	if len(args) == 0 {
		return "none"
	}
	if s, ok := args[0].(ugo.String); ok {
		return string(s)
	}
	return "none"
}

func act(kind string, n int) (ugo.Object, error) {
	doPanic(kind)
	if err := kindErr(kind); err != nil {
		return nil, err
	}
	return ugo.Int(n), nil
}

// pobj is a custom object whose method `where` misbehaves with `kind`.
type pobj struct {
	ugo.ObjectImpl
	kind, where string
}

func (o *pobj) hit(w string) {
	if o.where == w {
		doPanic(o.kind)
	}
}
func (o *pobj) hitErr(w string) error {
	if o.where == w {
		doPanic(o.kind)
		return kindErr(o.kind)
	}
	return nil
}

func (o *pobj) TypeName() string { o.hit("typename"); return "pobj" }
func (o *pobj) String() string   { o.hit("string"); return "pobj(" + o.kind + "," + o.where + ")" }
func (o *pobj) BinaryOp(tok token.Token, right ugo.Object) (ugo.Object, error) {
	if err := o.hitErr("binop"); err != nil {
		return nil, err
	}
	return ugo.Int(1), nil
}
func (o *pobj) IsFalsy() bool              { o.hit("falsy"); return false }
func (o *pobj) Equal(right ugo.Object) bool { o.hit("equal"); return false }
func (o *pobj) Call(args ...ugo.Object) (ugo.Object, error) {
	if err := o.hitErr("call"); err != nil {
		return nil, err
	}
	return ugo.Int(len(args)), nil
}
func (o *pobj) CanCall() bool { o.hit("cancall"); return true }
func (o *pobj) Iterate() ugo.Iterator {
	o.hit("iterate")
	return &piter{o: o}
}
func (o *pobj) CanIterate() bool { o.hit("caniterate"); return true }
func (o *pobj) IndexGet(index ugo.Object) (ugo.Object, error) {
	if err := o.hitErr("indexget"); err != nil {
		return nil, err
	}
	return ugo.Array{ugo.Int(2), ugo.Int(3)}, nil
}
func (o *pobj) IndexSet(index, value ugo.Object) error { return o.hitErr("indexset") }

type piter struct {
	o *pobj
	i int
}

func (it *piter) Next() bool        { it.o.hit("next"); it.i++; return it.i <= 3 }
func (it *piter) Key() ugo.Object   { it.o.hit("key"); return ugo.Int(it.i - 1) }
func (it *piter) Value() ugo.Object { it.o.hit("value"); return ugo.Int(10 * it.i) }

var objWheres = []string{"binop", "indexget", "indexset", "string", "iterate", "next", "key", "value", "equal", "falsy", "call", "cancall", "caniterate", "typename"}

// pex: ExCallerObject whose CallEx misbehaves.
type pex struct {
	ugo.ObjectImpl
	fixed string // "" = kind comes from the first argument
}

func (*pex) TypeName() string { return "pex" }
func (*pex) String() string   { return "pex" }
func (*pex) CanCall() bool    { return true }
func (o *pex) Call(args ...ugo.Object) (ugo.Object, error) {
	k := o.fixed
	if k == "" {
		k = argKind(args)
	}
	return act(k, len(args))
}
func (o *pex) CallEx(c ugo.Call) (ugo.Object, error) {
	k := o.fixed
	if k == "" && c.Len() > 0 {
		k = argKind([]ugo.Object{c.Get(0)})
	}
	return act(k, c.Len())
}

// pnc: NameCallerObject whose CallName misbehaves.
type pnc struct {
	ugo.ObjectImpl
}

func (*pnc) TypeName() string { return "pnc" }
func (*pnc) String() string   { return "pnc" }
func (o *pnc) CallName(name string, c ugo.Call) (ugo.Object, error) {
	k := "none"
	if c.Len() > 0 {
		k = argKind([]ugo.Object{c.Get(0)})
	}
	return act(k, c.Len())
}
func (o *pnc) IndexGet(index ugo.Object) (ugo.Object, error) { return ugo.Undefined, nil }

// pplain: callable that is NOT an ExCallerObject (xOpCallObject -> Call path).
type pplain struct {
	ugo.ObjectImpl
	fixed string
}

func (*pplain) TypeName() string { return "pplain" }
func (*pplain) String() string   { return "pplain" }
func (*pplain) CanCall() bool    { return true }
func (o *pplain) Call(args ...ugo.Object) (ugo.Object, error) {
	k := o.fixed
	if k == "" {
		k = argKind(args)
	}
	return act(k, len(args))
}

// pglobals: globals object whose IndexGet / IndexSet misbehave for the names
// "boomget" / "boomset".
type pglobals struct {
	ugo.ObjectImpl
	m    ugo.Map
	kind string
}

func (*pglobals) TypeName() string { return "pglobals" }
func (*pglobals) String() string   { return "pglobals" }
func (g *pglobals) IndexGet(index ugo.Object) (ugo.Object, error) {
	if index.String() == "boomget" {
		doPanic(g.kind)
		if err := kindErr(g.kind); err != nil {
			return nil, err
		}
	}
	return g.m.IndexGet(index)
}
func (g *pglobals) IndexSet(index, value ugo.Object) error {
	if index.String() == "boomset" {
		doPanic(g.kind)
		if err := kindErr(g.kind); err != nil {
			return err
		}
	}
	return g.m.IndexSet(index, value)
}

// logger is the `L` global: returns its argument, logs a safe dump of it.
type logger struct {
	mu  sync.Mutex
	log []string
}

func safeCanon(o ugo.Object) (s string) {
	defer func() {
		if p := recover(); p != nil {
			s = "<unprintable>"
		}
	}()
	if o == nil {
		return "<nil>"
	}
	return canon.Value(o)
}

func (l *logger) fn() *ugo.Function {
	return &ugo.Function{Name: "L", Value: func(args ...ugo.Object) (ugo.Object, error) {
		l.mu.Lock()
		defer l.mu.Unlock()
		if len(args) == 0 {
			l.log = append(l.log, "<none>")
			return ugo.Undefined, nil
		}
		if len(l.log) < 300 {
			switch args[0].(type) {
			case *pobj:
				l.log = append(l.log, "<pobj>")
			default:
				l.log = append(l.log, safeCanon(args[0]))
			}
		}
		return args[0], nil
	}}
}

func (l *logger) snapshot() []string {
	l.mu.Lock()
	defer l.mu.Unlock()
	return append([]string{}, l.log...)
}

func (l *logger) has(sub string) bool {
	l.mu.Lock()
	defer l.mu.Unlock()
	for _, s := range l.log {
		if strings.Contains(s, sub) {
			return true
		}
	}
	return false
}

// invoke re-enters script code from a Go callback.
func invoke(c ugo.Call, acquire bool) (ugo.Object, error) {
	if c.Len() == 0 {
		return nil, ugo.ErrWrongNumArguments.NewError("want>=1 got=0")
	}
	fn := c.Get(0)
	args := make([]ugo.Object, 0, c.Len()-1)
	for i := 1; i < c.Len(); i++ {
		args = append(args, c.Get(i))
	}
	inv := ugo.NewInvoker(c.VM(), fn)
	if acquire {
		inv.Acquire()
		defer inv.Release()
	}
	return inv.Invoke(args...)
}

// newH builds the callback map.
func newH() ugo.Map {
	h := ugo.Map{}
	h["fn"] = &ugo.Function{Name: "fn", Value: func(args ...ugo.Object) (ugo.Object, error) {
		return act(argKind(args), len(args))
	}}
	h["fnex"] = &ugo.Function{Name: "fnex", ValueEx: func(c ugo.Call) (ugo.Object, error) {
		k := "none"
		if c.Len() > 0 {
			k = argKind([]ugo.Object{c.Get(0)})
		}
		return act(k, c.Len())
	}}
	h["ex"] = &pex{}
	h["nc"] = &pnc{}
	h["plain"] = &pplain{}
	h["obj"] = &ugo.Function{Name: "obj", Value: func(args ...ugo.Object) (ugo.Object, error) {
		o := &pobj{kind: "none", where: "none"}
		if len(args) > 0 {
			o.kind = argKind(args)
		}
		if len(args) > 1 {
			o.where = argKind(args[1:])
		}
		return o, nil
	}}
	// re-entry
	h["call"] = &ugo.Function{Name: "call", ValueEx: func(c ugo.Call) (ugo.Object, error) { return invoke(c, false) }}
	h["callAcq"] = &ugo.Function{Name: "callAcq", ValueEx: func(c ugo.Call) (ugo.Object, error) { return invoke(c, true) }}
	h["callSwallow"] = &ugo.Function{Name: "callSwallow", ValueEx: func(c ugo.Call) (ugo.Object, error) {
		v, err := invoke(c, false)
		if err != nil {
			name, _ := canon.ErrName(err)
			return ugo.String("swallowed:" + name), nil
		}
		return v, nil
	}}
	h["callThenPanic"] = &ugo.Function{Name: "callThenPanic", ValueEx: func(c ugo.Call) (ugo.Object, error) {
		_, _ = invoke(c, false)
		panic(panicTag + " after invoke")
	}}
	h["callTwice"] = &ugo.Function{Name: "callTwice", ValueEx: func(c ugo.Call) (ugo.Object, error) {
		_, _ = invoke(c, true)
		return invoke(c, true)
	}}
	return h
}

// ------------------------------------------------------------ argument values

// argD describes one argument value in a JSON-able, rebuildable way.
type argD struct {
	T string `json:"t"`           // undefined int uint float char string bytes bool array map error go
	S string `json:"s,omitempty"` // scalar text / map key / error name|message / go object spec
	E []argD `json:"e,omitempty"` // elements (array), single value (map)
}

func (a argD) String() string {
	switch a.T {
	case "undefined":
		return "undefined"
	case "array":
		parts := make([]string, len(a.E))
		for i, e := range a.E {
			parts[i] = e.String()
		}
		return "[" + strings.Join(parts, ", ") + "]"
	case "map":
		if len(a.E) == 0 {
			return "{}"
		}
		return "{" + strconv.Quote(a.S) + ": " + a.E[0].String() + "}"
	case "string":
		return strconv.Quote(a.S)
	case "go":
		return "<go " + a.S + ">"
	}
	return a.T + "(" + a.S + ")"
}

func argsString(as []argD) string {
	parts := make([]string, len(as))
	for i, a := range as {
		parts[i] = a.String()
	}
	return "(" + strings.Join(parts, ", ") + ")"
}

// build makes a fresh value (fresh containers and objects on every call).
func (a argD) build() ugo.Object {
	switch a.T {
	case "undefined":
		return ugo.Undefined
	case "int":
		n, _ := strconv.ParseInt(a.S, 10, 64)
		return ugo.Int(n)
	case "uint":
		n, _ := strconv.ParseUint(a.S, 10, 64)
		return ugo.Uint(n)
	case "float":
		f, _ := strconv.ParseFloat(a.S, 64)
		return ugo.Float(f)
	case "char":
		n, _ := strconv.ParseInt(a.S, 10, 32)
		return ugo.Char(rune(n))
	case "string":
		return ugo.String(a.S)
	case "bytes":
		return ugo.Bytes([]byte(a.S))
	case "bool":
		return ugo.Bool(a.S == "true")
	case "array":
		arr := make(ugo.Array, 0, len(a.E))
		for _, e := range a.E {
			arr = append(arr, e.build())
		}
		return arr
	case "map":
		m := ugo.Map{}
		if len(a.E) > 0 {
			m[a.S] = a.E[0].build()
		}
		return m
	case "error":
		name, msg, _ := strings.Cut(a.S, "|")
		return &ugo.Error{Name: name, Message: msg}
	case "go":
		return buildGo(a.S)
	}
	panic("c06: bad arg descriptor " + a.T)
}

func buildGo(spec string) ugo.Object {
	parts := strings.Split(spec, ":")
	get := func(i int) string {
		if i < len(parts) {
			return parts[i]
		}
		return "none"
	}
	switch parts[0] {
	case "fn":
		k := get(1)
		return &ugo.Function{Name: "argfn", Value: func(args ...ugo.Object) (ugo.Object, error) { return act(k, len(args)) }}
	case "ex":
		return &pex{fixed: get(1)}
	case "plain":
		return &pplain{fixed: get(1)}
	case "nc":
		return &pnc{}
	case "obj":
		return &pobj{kind: get(1), where: get(2)}
	case "builtin":
		for _, b := range ugo.BuiltinObjects {
			if f, ok := b.(*ugo.BuiltinFunction); ok && f.Name == get(1) {
				return f
			}
		}
		return ugo.Undefined
	}
	panic(fmt.Sprintf("c06: bad go spec %q", spec))
}

func buildArgs(as []argD) []ugo.Object {
	out := make([]ugo.Object, len(as))
	for i, a := range as {
		out[i] = a.build()
	}
	return out
}
