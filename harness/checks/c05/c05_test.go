// C05 - Compile is total: bytecode or an error for any input, never a panic.
package c05

import (
	"context"
	"encoding/base64"
	"encoding/json"
	"fmt"
	"io"
	"os"
	"os/exec"
	"regexp"
	"runtime/debug"
	"strings"
	"syscall"
	"testing"
	"time"

	"github.com/ozanh/ugo"
	"pgregory.net/rapid"

	"verif/internal/ev"
	"verif/internal/gen"
	"verif/internal/prog"
)

type caseT struct {
	SrcB64  string            `json:"src_b64"`
	Src     string            `json:"src_preview"`
	Modules map[string]string `json:"modules,omitempty"`
	Opt     optSet            `json:"options"`
	Kind    string            `json:"kind"`
}

type optSet struct {
	NoOptimize bool `json:"no_optimize"`
	Limit      int  `json:"optimizer_limit"`
	Trace      int  `json:"trace_bits"` // 1 parser, 2 optimizer, 4 compiler
	Modules    bool `json:"modules"`
	Reuse      bool `json:"reuse_symbol_table"`
	Eval       bool `json:"eval_path"`
}

func (o optSet) String() string {
	return fmt.Sprintf("noopt=%v limit=%d trace=%d modules=%v reuse=%v eval=%v", o.NoOptimize, o.Limit, o.Trace, o.Modules, o.Reuse, o.Eval)
}

// customImportable returns an arbitrary value (valid and invalid module kinds).
type customImportable struct{ v any }

func (c customImportable) Import(string) (any, error) {
	if e, ok := c.v.(error); ok {
		return nil, e
	}
	return c.v, nil
}

func moduleMap(extra map[string]string) *ugo.ModuleMap {
	mm := ugo.NewModuleMap()
	mm.AddSourceModule("m0", []byte(`x := 1; return {f: func(a) { return a + x }, v: 2, s: "s"}`))
	mm.AddSourceModule("m1", []byte(`m0 := import("m0"); return {f: func(a) { return m0.f(a) }, v: 3, s: "t"}`))
	mm.AddSourceModule("cyc1", []byte(`return import("cyc2")`))
	mm.AddSourceModule("cyc2", []byte(`return import("cyc1")`))
	mm.AddSourceModule("self", []byte(`return import("self")`))
	mm.AddSourceModule("broken", []byte(`return 1 +`))
	mm.AddSourceModule("panicky", []byte(`return 1 % 0`))
	mm.AddBuiltinModule("bm", map[string]ugo.Object{"k": ugo.Int(1), "f": &ugo.Function{Name: "f", Value: func(a ...ugo.Object) (ugo.Object, error) { return ugo.Undefined, nil }}})
	mm.Add("obj", customImportable{ugo.Map{"a": ugo.Int(1)}})
	mm.Add("bytes", customImportable{[]byte(`return 42`)})
	mm.Add("invalid", customImportable{struct{}{}})
	mm.Add("nilmod", customImportable{nil})
	mm.Add("errmod", customImportable{fmt.Errorf("import failed")})
	for n, s := range extra {
		mm.AddSourceModule(n, []byte(s))
	}
	return mm
}

type result struct {
	bc    *ugo.Bytecode
	err   error
	pan   string
	stack string
	hang  bool
}

// compile runs ugo.Compile (or the Eval path) under recover and a watchdog.
func compile(src []byte, o optSet, mods map[string]string, st *ugo.SymbolTable) result {
	ch := make(chan result, 1)
	go func() {
		var r result
		defer func() {
			if p := recover(); p != nil {
				r.pan = fmt.Sprint(p)
				r.stack = string(debug.Stack())
			}
			ch <- r
		}()
		opts := ugo.CompilerOptions{NoOptimize: o.NoOptimize, OptimizerLimit: o.Limit}
		if o.Trace != 0 {
			opts.Trace = io.Discard
			opts.TraceParser = o.Trace&1 != 0
			opts.TraceOptimizer = o.Trace&2 != 0
			opts.TraceCompiler = o.Trace&4 != 0
		}
		if o.Modules {
			opts.ModuleMap = moduleMap(mods)
		}
		if st != nil {
			opts.SymbolTable = st
		}
		if o.Eval {
			ctx, cancel := context.WithTimeout(context.Background(), 200*time.Millisecond)
			defer cancel()
			e := ugo.NewEval(opts, nil)
			_, r.bc, r.err = e.Run(ctx, src)
			return
		}
		r.bc, r.err = ugo.Compile(src, opts)
	}()
	select {
	case r := <-ch:
		return r
	case <-time.After(hangWatchdog):
		return result{hang: true}
	}
}

var frameRe = regexp.MustCompile(`github\.com/ozanh/ugo[^\s(]*\.([A-Za-z0-9_.()*]+)\(`)

// panicSig: the innermost frame inside ozanh/ugo + a coarse class of the message.
func panicSig(msg, stack string) string {
	site := "?"
	seenPanic := false
	for _, line := range strings.Split(stack, "\n") {
		if strings.HasPrefix(line, "panic(") {
			seenPanic = true
			continue
		}
		if !seenPanic {
			continue
		}
		if m := frameRe.FindStringSubmatch(line); m != nil {
			site = m[1]
			break
		}
	}
	cls := regexp.MustCompile(`[0-9]+`).ReplaceAllString(msg, "N")
	if len(cls) > 70 {
		cls = cls[:70]
	}
	return "compile-panic:" + site + ":" + cls
}

// judge applies the totality + validity oracle. Returns reached-compiler flag.
func judge(rec *ev.Rec, src []byte, o optSet, mods map[string]string, st *ugo.SymbolTable, kind string) (sig, what string, reached bool) {
	r := compile(src, o, mods, st)
	mk := func() caseT {
		prev := string(src)
		if len(prev) > 400 {
			prev = prev[:400] + "..."
		}
		return caseT{SrcB64: base64.StdEncoding.EncodeToString(src), Src: prev, Modules: mods, Opt: o, Kind: kind}
	}
	_ = mk
	switch {
	case r.hang:
		// Compile did not return. The goroutine cannot be stopped and may allocate without bound, so this
		// process is replaced (exec) by a coordinator that re-runs the input alone in a killable child.
		handOverHang(rec, src, o, mods, kind)
		return "", "", false
	case r.pan != "":
		return panicSig(r.pan, r.stack), fmt.Sprintf("Compile panicked (%s): %s\n%s", o, r.pan, firstLines(r.stack, 24)), true
	case r.err != nil:
		_, isParse := r.err.(interface{ Len() int }) // parser.ErrorList
		reached = !isParse && !strings.Contains(r.err.Error(), "Parse Error")
		rec.Class("error")
		return "", "", reached
	case r.bc == nil:
		return "compile-nil-nil", "Compile returned neither bytecode nor error", true
	}
	rec.Class("compiled")
	if o.Eval {
		// Eval patches the bytecode for its own purposes (NumParams = NumLocals); validity is judged on ugo.Compile results
		return "", "", true
	}
	if p := validate(r.bc); p != "" {
		return "invalid-bytecode:" + strings.SplitN(regexp.MustCompile(`[0-9]+`).ReplaceAllString(p, "N"), ":", 3)[1], "Compile succeeded but the bytecode is malformed: " + p, true
	}
	return "", "", true
}

const hangWatchdog = 8 * time.Second

type hangSuspect struct {
	Case    caseT  `json:"case"`
	PrevOut string `json:"prev_out"`
}

// handOverHang never returns on success: it stores the suspect input and the partial results and
// replaces the process image by the coordinator (same test binary, C05_HANG_COORD=1).
func handOverHang(rec *ev.Rec, src []byte, o optSet, mods map[string]string, kind string) {
	out := os.Getenv("VERIF_OUT")
	if out == "" || os.Getenv("C05_NO_HANDOVER") != "" {
		rec.Inconcl("compile-watchdog(no hand-over possible)")
		return
	}
	rec.Flush(false)
	sus := hangSuspect{Case: mkCase(src, o, mods, kind), PrevOut: out + ".partial"}
	_ = os.Rename(out, sus.PrevOut)
	data, _ := json.Marshal(sus)
	susFile := out + ".suspect"
	if err := os.WriteFile(susFile, data, 0o644); err != nil {
		rec.Inconcl("compile-watchdog(cannot write suspect file)")
		return
	}
	env := append(os.Environ(), "C05_HANG_COORD="+susFile)
	_ = syscall.Exec(os.Args[0], os.Args, env)
	rec.Inconcl("compile-watchdog(exec failed)")
}

// coordinator: re-run the suspect input alone in a child process that can be killed.
func coordinator(t *testing.T, rec *ev.Rec, susFile string) {
	data, err := os.ReadFile(susFile)
	if err != nil {
		t.Fatalf("INFRA: %v", err)
	}
	var sus hangSuspect
	if err := json.Unmarshal(data, &sus); err != nil {
		t.Fatalf("INFRA: %v", err)
	}
	_ = rec.Absorb(sus.PrevOut) // partial results of the interrupted run (not complete by construction)
	_ = os.Remove(sus.PrevOut)
	_ = os.Remove(susFile)
	confirmed, detail := probeHang(sus.Case)
	if confirmed {
		what := fmt.Sprintf("Compile does not terminate (%s): still running after %s when run alone in a fresh process (%s)\n--- input ---\n%s", sus.Case.Opt, probeBudget, detail, sus.Case.Src)
		rec.Case()
		if !rec.Violation("compile-hang:"+hangClass(sus.Case), what, sus.Case) {
			t.Errorf("%s", what)
		}
		return
	}
	rec.Inconcl("compile-slow-but-terminating(" + detail + ")")
	t.Errorf("INFRA: the run was interrupted by a compile watchdog expiry that did not reproduce (%s)", detail)
}

const probeBudget = 40 * time.Second

func hangClass(c caseT) string {
	// the first token of the input is a stable enough hint of the construct
	f := strings.Fields(c.Src)
	if len(f) == 0 {
		return "?"
	}
	w := regexp.MustCompile(`[^a-z(){}\[\]]`).ReplaceAllString(strings.ToLower(f[0]), "")
	if len(w) > 12 {
		w = w[:12]
	}
	return w
}

// probeHang runs the case in a child process (C05_HANG_PROBE) with an address-space limit.
func probeHang(c caseT) (bool, string) {
	f, err := os.CreateTemp("", "c05probe")
	if err != nil {
		return false, "cannot create temp file"
	}
	data, _ := json.Marshal(c)
	_, _ = f.Write(data)
	_ = f.Close()
	defer os.Remove(f.Name())
	cmd := exec.Command(os.Args[0], "-test.run", "^TestHangProbe$", "-test.timeout", "0")
	cmd.Env = append(os.Environ(), "C05_HANG_PROBE="+f.Name(), "C05_HANG_COORD=")
	var outb strings.Builder
	cmd.Stdout, cmd.Stderr = &outb, &outb
	if err := cmd.Start(); err != nil {
		return false, "cannot start probe: " + err.Error()
	}
	done := make(chan error, 1)
	go func() { done <- cmd.Wait() }()
	select {
	case err := <-done:
		if err == nil {
			return false, "returned when run alone"
		}
		if strings.Contains(outb.String(), "out of memory") || strings.Contains(outb.String(), "cannot allocate") {
			return true, "allocated without bound until the 4 GiB address-space limit"
		}
		return false, "probe failed: " + firstLines(outb.String(), 3)
	case <-time.After(probeBudget):
		_ = cmd.Process.Kill()
		<-done
		return true, "killed after the budget"
	}
}

// TestHangProbe is the child of probeHang: compiles one input and exits.
func TestHangProbe(t *testing.T) {
	file := os.Getenv("C05_HANG_PROBE")
	if file == "" {
		t.Skip("helper of TestCheck")
	}
	_ = syscall.Setrlimit(syscall.RLIMIT_AS, &syscall.Rlimit{Cur: 4 << 30, Max: 4 << 30})
	data, err := os.ReadFile(file)
	if err != nil {
		t.Fatal(err)
	}
	var c caseT
	if err := json.Unmarshal(data, &c); err != nil {
		t.Fatal(err)
	}
	src, _ := base64.StdEncoding.DecodeString(c.SrcB64)
	opts := ugo.CompilerOptions{NoOptimize: c.Opt.NoOptimize, OptimizerLimit: c.Opt.Limit}
	if c.Opt.Modules {
		opts.ModuleMap = moduleMap(c.Modules)
	}
	func() {
		defer func() { _ = recover() }()
		_, _ = ugo.Compile(src, opts)
	}()
}

func firstLines(s string, n int) string {
	ls := strings.Split(s, "\n")
	if len(ls) > n {
		ls = ls[:n]
	}
	return strings.Join(ls, "\n")
}

func mkCase(src []byte, o optSet, mods map[string]string, kind string) caseT {
	prev := string(src)
	if len(prev) > 600 {
		prev = prev[:600] + "..."
	}
	return caseT{SrcB64: base64.StdEncoding.EncodeToString(src), Src: prev, Modules: mods, Opt: o, Kind: kind}
}

func drawOpts(rt *rapid.T) optSet {
	o := optSet{}
	switch gen.Uniform(rt, 4, "optmode") {
	case 0:
		o.NoOptimize = true
	case 1:
		o.Limit = 1 + gen.Uniform(rt, 5, "limit")
	}
	if gen.Uniform(rt, 5, "trace?") == 0 {
		o.Trace = 1 + gen.Uniform(rt, 7, "tracebits")
	}
	o.Modules = gen.Uniform(rt, 2, "mods?") == 0
	o.Reuse = gen.Uniform(rt, 4, "reuse?") == 0
	o.Eval = gen.Uniform(rt, 8, "eval?") == 0
	return o
}

func profiles() []gen.Config {
	a := gen.Config{MaxStmts: 18, MaxDepth: 3, MaxFnDepth: 3, MaxBlock: 4, Shadow: true, ConstHeavy: true, Closures: true, Calls: true,
		Try: true, Failing: true, Globals: true, Params: true, Print: true, Log: true, Floats: true, Consts: true, Destruct: true, DeepParen: true, Recursion: true, MapIter: true}
	b := a
	b.Modules = 2
	b.MaxStmts = 10
	return []gen.Config{a, a, b}
}

func TestCheck(t *testing.T) {
	rec := ev.New("C05")
	rec.Rule = "inputs: (a) rendered generator programs and token-level mutations of them (delete, duplicate, swap, replace by another token class, truncate mid-token, insert NUL/BOM/invalid UTF-8/unterminated literals), (b) arbitrary bytes, (c) boundary enumeration of every operand-width limit (254..257 locals/params/args/captures, 32767/32768 map elements, 65535/65536 array elements and constants, with and without a module), x CompilerOptions (optimizer off/default/budget 1-5, trace flags, module map incl. cyclic/missing/invalid importables, re-used symbol table, Eval path). Oracle: no panic, returns within the watchdog, and successful Bytecode passes an independent structural validator. Non-trivial = the input got past the parser (reached optimizer/compiler); distinct by (input, options)"
	rec.Assumptions = []string{
		"a Compile call that does not return within 8 s is re-run alone in a fresh killable child process with a 40 s budget and a 4 GiB address-space limit: still running / unbounded allocation = violation (does not terminate), otherwise inconclusive",
		"the structural validator checks what the property lists: jump/constant/local/builtin/module indexes in range, instruction boundaries, RETURN last",
	}
	defer func() { rec.Flush(!t.Failed() || rec.HasUnknown()) }()

	if sus := os.Getenv("C05_HANG_COORD"); sus != "" {
		coordinator(t, rec, sus)
		return
	}
	runReplays(t, rec)
	if ev.ReplayOnly() {
		return
	}

	t.Run("boundaries", func(t *testing.T) { boundaries(t, rec) })
	t.Run("name-collisions", func(t *testing.T) { collisions(t, rec) })
	ev.RapidCheck(t, "eval-sessions", ev.N(1500, 30000), 3, func(rt *rapid.T) { evalSession(rt, rec) })
	ev.RapidCheck(t, "table-sessions", ev.N(1500, 30000), 4, func(rt *rapid.T) { tableSession(rt, rec) })

	profs := profiles()
	ev.RapidCheck(t, "mutated-programs", ev.N(3000, 50000), 1, func(rt *rapid.T) {
		gp := gen.Generate(rt, profs[gen.Uniform(rt, len(profs), "profile")])
		p := prog.Prepare(gp)
		o := drawOpts(rt)
		src := []byte(p.Src)
		kind := "valid"
		nm := gen.Uniform(rt, 4, "nmut")
		for i := 0; i < nm; i++ {
			src = mutate(rt, src)
			kind = fmt.Sprintf("mutated-%d", nm)
		}
		var st *ugo.SymbolTable
		if o.Reuse {
			// a symbol table that already compiled another script (the Eval / REPL situation)
			st = ugo.NewSymbolTable()
			_ = compile([]byte(`a := 1; f := func(x) { return x + a }; const k = 5`), optSet{NoOptimize: o.NoOptimize}, nil, st)
		}
		rec.Case()
		sig, what, reached := judge(rec, src, o, p.ModSrc, st, kind)
		if sig != "" {
			if rec.Violation(sig, what+"\n--- input ---\n"+preview(src), mkCase(src, o, p.ModSrc, kind)) {
				return
			}
			rt.Fatalf("%s\n--- input ---\n%s", what, preview(src))
		}
		rec.Class(kind)
		if reached {
			rec.NonTriv(o.String() + "\x00" + string(src))
			rec.Class("reached-compiler")
		}
		rec.Sample(map[string]any{"input": preview(src), "options": o.String(), "kind": kind})
	})

	ev.RapidCheck(t, "arbitrary-bytes", ev.N(3000, 50000), 2, func(rt *rapid.T) {
		var src []byte
		switch gen.Uniform(rt, 3, "bytekind") {
		case 0:
			src = rapid.SliceOfN(rapid.Byte(), 0, 200).Draw(rt, "bytes")
		case 1:
			// token soup
			n := gen.Uniform(rt, 40, "ntok")
			var sb strings.Builder
			for i := 0; i < n; i++ {
				sb.WriteString(tokenPool[gen.Uniform(rt, len(tokenPool), "tok")])
				sb.WriteString([]string{" ", "", "\n", ";"}[gen.Uniform(rt, 4, "sep")])
			}
			src = []byte(sb.String())
		default:
			src = []byte(rapid.String().Draw(rt, "str"))
		}
		o := drawOpts(rt)
		rec.Case()
		sig, what, reached := judge(rec, src, o, nil, nil, "arbitrary")
		if sig != "" {
			if rec.Violation(sig, what+"\n--- input ---\n"+preview(src), mkCase(src, o, nil, "arbitrary")) {
				return
			}
			rt.Fatalf("%s\n--- input ---\n%s", what, preview(src))
		}
		rec.Class("arbitrary")
		if reached {
			rec.NonTriv(o.String() + "\x00" + string(src))
			rec.Class("reached-compiler")
		}
	})
}

func preview(b []byte) string {
	s := string(b)
	if len(s) > 1500 {
		s = s[:1500] + "..."
	}
	return s
}

var tokenPool = []string{"if", "else", "for", "in", "func", "return", "try", "catch", "finally", "throw", "var", "const", "param", "global", "import", "break", "continue",
	"true", "false", "undefined", "iota", "a", "b", "len", "int", "x", "_", "(", ")", "{", "}", "[", "]", ",", ";", ":", ":=", "=", "+", "-", "*", "/", "%", "&", "|", "^", "&^", "<<", ">>",
	"==", "!=", "<", "<=", ">", ">=", "&&", "||", "!", "++", "--", "+=", "...", ".", "?", "1", "0", "255", "256", "65536", "9223372036854775807", "9223372036854775808", "1u", "1.5", "1e400", ".5", "0x", "0b2", "1_0",
	"\"s\"", "\"\\xff\"", "\"unterminated", "'a'", "'", "'ab'", "`raw`", "`unterminated", "//c\n", "/*c*/", "/*open", "/* c *\r", "/*\r", "//c\r", "/* a\r\n b *\r", "\r", "/* x *\r\n", "`raw\r", "\"s\r", "\x00", "\xef\xbb\xbf", "\xff", "é", "import(\"m0\")", "import(\"cyc1\")", "import(\"nope\")", "import(\"invalid\")", "import(\"\")"}

var tokRe = regexp.MustCompile("(?s)\"(?:\\\\.|[^\"\\\\])*\"|`[^`]*`|'(?:\\\\.|[^'\\\\])*'|[A-Za-z_][A-Za-z0-9_]*|[0-9][0-9a-zA-Z_.]*|\\s+|//[^\n]*|.")

// mutate applies one token-level mutation.
func mutate(rt *rapid.T, src []byte) []byte {
	toks := tokRe.FindAllString(string(src), -1)
	if len(toks) == 0 {
		return []byte(tokenPool[gen.Uniform(rt, len(tokenPool), "tok0")])
	}
	i := gen.Uniform(rt, len(toks), "pos")
	switch gen.Uniform(rt, 8, "mut") {
	case 0: // delete
		toks = append(toks[:i], toks[i+1:]...)
	case 1: // duplicate
		toks = append(toks[:i+1], toks[i:]...)
	case 2: // swap with next
		if i+1 < len(toks) {
			toks[i], toks[i+1] = toks[i+1], toks[i]
		}
	case 3: // replace by a pool token
		toks[i] = tokenPool[gen.Uniform(rt, len(tokenPool), "reptok")]
	case 4: // truncate the whole input mid token
		t := toks[i]
		cut := gen.Uniform(rt, len(t)+1, "cut")
		toks = append(toks[:i], t[:cut])
	case 5: // insert a pool token
		toks = append(toks[:i+1], append([]string{tokenPool[gen.Uniform(rt, len(tokenPool), "instok")]}, toks[i+1:]...)...)
	case 6: // insert raw hostile bytes
		h := []string{"\x00", "\xef\xbb\xbf", "\xff\xfe", "\"", "'", "`", "/*", "\\", "\r", "\u2028"}[gen.Uniform(rt, 10, "hostile")]
		toks[i] = toks[i] + h
	default: // delete a range
		j := i + gen.Uniform(rt, 6, "range")
		if j > len(toks) {
			j = len(toks)
		}
		toks = append(toks[:i], toks[j:]...)
	}
	return []byte(strings.Join(toks, ""))
}

// ---------------------------------------------------------------- boundaries

func rep(n int, f func(i int) string, sep string) string {
	parts := make([]string, n)
	for i := range parts {
		parts[i] = f(i)
	}
	return strings.Join(parts, sep)
}

type boundary struct {
	name      string
	src       string
	mustError bool // beyond a capacity limit: must be rejected with an error
	mods      bool
}

// withinDocumentedLimit: errors.go documents the symbol limit for a function as 256 local symbols
// (ErrSymbolLimit is returned when their number EXCEEDS it): these cases declare at most 256.
var withinLimitRe = regexp.MustCompile(`^(locals-main|locals-func|locals-block|locals-var-group|params-func|params-main)-(254|255|256)$`)

func boundaryCases() []boundary {
	var out []boundary
	for _, n := range []int{254, 255, 256, 257, 300} {
		over := n > 256
		out = append(out,
			boundary{fmt.Sprintf("locals-main-%d", n), rep(n, func(i int) string { return fmt.Sprintf("v%d := %d", i, i) }, "\n") + "\nreturn v0", over, false},
			boundary{fmt.Sprintf("locals-func-%d", n), "f := func() {\n" + rep(n, func(i int) string { return fmt.Sprintf("v%d := %d", i, i) }, "\n") + "\nreturn v0 }\nreturn f()", over, false},
			boundary{fmt.Sprintf("locals-block-%d", n), "if true {\n" + rep(n, func(i int) string { return fmt.Sprintf("v%d := %d", i, i) }, "\n") + "\n}\nreturn 1", over, false},
			boundary{fmt.Sprintf("locals-var-group-%d", n), "var (" + rep(n, func(i int) string { return fmt.Sprintf("v%d", i) }, ", ") + ")\nreturn v0", over, false},
			boundary{fmt.Sprintf("params-func-%d", n), "f := func(" + rep(n, func(i int) string { return fmt.Sprintf("p%d", i) }, ", ") + ") { return p0 }\nreturn 1", over, false},
			boundary{fmt.Sprintf("params-main-%d", n), "param (" + rep(n, func(i int) string { return fmt.Sprintf("p%d", i) }, ", ") + ")\nreturn p0", over, false},
			boundary{fmt.Sprintf("captures-%d", n), rep(min(n, 250), func(i int) string { return fmt.Sprintf("v%d := %d", i, i) }, "\n") + "\nf := func() { return " + rep(min(n, 250), func(i int) string { return fmt.Sprintf("v%d", i) }, " + ") + " }\nreturn f()", false, false},
			boundary{fmt.Sprintf("destructuring-%d", n), rep(n, func(i int) string { return fmt.Sprintf("d%d", i) }, ", ") + " := [1, 2]\nreturn d0", over, false},
		)

	}
	for _, n := range []int{254, 255, 256, 257} {
		over := n > 255
		out = append(out,
			boundary{fmt.Sprintf("call-args-%d", n), "f := func(...a) { return len(a) }\nreturn f(" + rep(n, func(i int) string { return "1" }, ", ") + ")", over, false},
			boundary{fmt.Sprintf("call-args-spread-%d", n), "f := func(...a) { return len(a) }\nreturn f(" + rep(n-1, func(i int) string { return "1" }, ", ") + ", ...[2])", over, false},
			boundary{fmt.Sprintf("method-args-%d", n), "m := {f: func(...a) { return len(a) }}\nreturn m.f(" + rep(n, func(i int) string { return "1" }, ", ") + ")", over, false},
			boundary{fmt.Sprintf("selectors-%d", n), "m := {}\nreturn m" + rep(n, func(i int) string { return ".a" }, ""), false, false},
			boundary{fmt.Sprintf("index-chain-%d", n), "m := {}\nreturn m" + rep(n, func(i int) string { return "[\"a\"]" }, ""), false, false},
			boundary{fmt.Sprintf("try-nesting-%d", n), "f := func() {\n" + rep(n, func(i int) string { return "try {" }, "\n") + "\nreturn 1\n" + rep(n, func(i int) string { return "} finally { }" }, "\n") + "\n}\nreturn 1", false, false},
		)
	}
	for _, n := range []int{32767, 32768} {
		out = append(out, boundary{fmt.Sprintf("map-elements-%d", n), "return {" + rep(n, func(i int) string { return fmt.Sprintf("k%d: 1", i) }, ", ") + "}", n > 32767, false})
	}
	for _, n := range []int{65535, 65536} {
		over := n > 65535
		out = append(out,
			boundary{fmt.Sprintf("array-elements-%d", n), "return [" + rep(n, func(i int) string { return "1" }, ", ") + "]", over, false},
			boundary{fmt.Sprintf("constants-%d", n), "x := 0\n" + rep(n, func(i int) string { return fmt.Sprintf("x = %d", i+7) }, "\n") + "\nreturn x", false, false},
			boundary{fmt.Sprintf("constants-plus16-%d", n), "x := 0\n" + rep(n+16, func(i int) string { return fmt.Sprintf("x = %d", i+7) }, "\n") + "\nreturn x", true, false},
			boundary{fmt.Sprintf("constants-with-module-%d", n), "m := import(\"m1\")\nx := 0\n" + rep(n-4, func(i int) string { return fmt.Sprintf("x = %d", i+7) }, "\n") + "\nreturn x", false, true},
		)
	}
	// deep nesting (stack growth is bounded by input size)
	for _, n := range []int{1000, 10000} {
		out = append(out,
			boundary{fmt.Sprintf("paren-depth-%d", n), "return " + strings.Repeat("(", n) + "1" + strings.Repeat(")", n), false, false},
			boundary{fmt.Sprintf("array-depth-%d", n), "return " + strings.Repeat("[", n) + "1" + strings.Repeat("]", n), false, false},
			boundary{fmt.Sprintf("unary-depth-%d", n), "x := 1\nreturn " + strings.Repeat("-", 1) + strings.Repeat("(-", n) + "x" + strings.Repeat(")", n), false, false},
			boundary{fmt.Sprintf("func-depth-%d", n/10), "return " + strings.Repeat("func() { return ", n/10) + "1" + strings.Repeat(" }", n/10), false, false},
			boundary{fmt.Sprintf("block-depth-%d", n/10), strings.Repeat("if true { ", n/10) + "x := 1" + strings.Repeat(" }", n/10), false, false},
		)
	}
	// literals and comments that end (or do not end) at the very end of the input, with carriage
	// returns around: the scanner looks ahead there
	for _, prefix := range []string{"", "a := 1 ", "x\n"} {
		for _, open := range []string{"/*", "//", "\"", "`", "'"} {
			for _, body := range []string{"", "x", "x *", "*", "\r", "x\r\ny"} {
				for _, tail := range []string{"", "\r", "\n", "\r\n", "*", "*\r", "*/", "*/\r", "\\", "\\\r"} {
					out = append(out, boundary{"scanner-edge-" + fmt.Sprint(len(out)), prefix + open + body + tail, false, false})
				}
			}
		}
	}
	out = append(out,
		boundary{"import-cycle", `return import("cyc1")`, true, true},
		boundary{"import-self", `return import("self")`, true, true},
		boundary{"import-missing", `return import("nope")`, true, true},
		boundary{"import-invalid-type", `return import("invalid")`, true, true},
		boundary{"import-nil", `return import("nilmod")`, false, true},
		boundary{"import-error", `return import("errmod")`, true, true},
		boundary{"import-broken-source", `return import("broken")`, true, true},
		boundary{"import-bytes-module", `return import("bytes")`, false, true},
		boundary{"import-object-module", `return import("obj")`, false, true},
		boundary{"import-empty-name", `return import("")`, true, true},
		boundary{"folding-rem-zero", `return 1 % 0`, false, false},
		boundary{"folding-neg-shift", `return 1 << -1`, false, false},
		boundary{"folding-huge-shift", `return 1 << 9223372036854775807`, false, false},
		boundary{"folding-minint-div", `return (-9223372036854775807 - 1) / -1`, false, false},
		boundary{"folding-minint-rem", `return (-9223372036854775807 - 1) % -1`, false, false},
	)
	return out
}

func boundaries(t *testing.T, rec *ev.Rec) {
	optSets := []optSet{{}, {NoOptimize: true}, {Limit: 1}, {Trace: 7}}
	reported := map[string]bool{}
	var slow []string
	defer func() { rec.Note("slow_boundary_cases", slow) }()
	for _, b := range boundaryCases() {
		for _, o := range optSets {
			o.Modules = b.mods
			if (strings.Contains(b.name, "6553") || strings.Contains(b.name, "3276")) && (o.Trace != 0 || o.Limit == 1) {
				continue // the large cases are run with two option sets only (cost)
			}
			if strings.Contains(b.name, "depth-") && (o.Trace != 0 || (strings.Contains(b.name, "depth-10000") && !o.NoOptimize)) {
				// tracing prints every nested node (quadratic) and the optimizer re-evaluates nested
				// literals per level (quadratic): slow, not non-terminating; skipped and counted
				rec.Exclude("deep-nesting-with-trace-or-optimizer(quadratic cost)")
				continue
			}
			rec.Case()
			src := []byte(b.src)
			t0 := time.Now()
			sig, what, _ := judge(rec, src, o, nil, nil, "boundary:"+b.name)
			if d := time.Since(t0); d > 2*time.Second {
				slow = append(slow, fmt.Sprintf("%s [%s] %.1fs", b.name, o, d.Seconds()))
			}
			if sig == "" && b.mustError {
				r := compile(src, o, nil, nil)
				if r.err == nil && r.pan == "" && !r.hang {
					sig = "limit-not-rejected:" + regexp.MustCompile(`-[0-9]+$`).ReplaceAllString(b.name, "")
					what = fmt.Sprintf("script beyond a capacity limit (%s) was not rejected with an error (%s)", b.name, o)
				}
			}
			if sig == "" && withinLimitRe.MatchString(b.name) {
				if r := compile(src, o, nil, nil); r.err != nil {
					sig = "within-documented-limit-rejected:" + regexp.MustCompile(`-[0-9]+$`).ReplaceAllString(b.name, "")
					what = fmt.Sprintf("script within the documented limit of 256 local symbols per function (%s) was rejected (%s): %v", b.name, o, r.err)
				} else {
					rec.Class("boundary-within-limit-compiles")
				}
			}
			if sig != "" {
				if !rec.Violation(sig, fmt.Sprintf("[%s, %s] %s", b.name, o, what), mkCase(src, o, nil, "boundary:"+b.name)) && !reported[sig] {
					reported[sig] = true
					t.Errorf("[%s, %s] %s: %s", b.name, o, sig, firstLines(what, 12))
				}
				continue
			}
			rec.NonTriv(b.name + o.String())
			rec.Class("boundary-ok")
		}
	}
	rec.Note("boundary_cases", len(boundaryCases()))
}

// collisions enumerates every pair (first binding form of a name, second binding / use form of the same
// name) x (same scope, nested block, nested function): symbols of different kinds (global, const literal,
// builtin cached in the root table, param, free variable ...) meeting in one scope.
func collisions(t *testing.T, rec *ev.Rec) {
	first := map[string]string{
		"global":       "global N",
		"const-lit":    "const N = 1",
		"const-expr":   "const N = [1]",
		"param":        "param N",
		"define":       "N := 1",
		"var":          "var N",
		"builtin-used": "len(\"a\")", // N = len
		"import":       "N := import(\"m0\")",
		"func":         "N := func() { return 1 }",
		"iota-const":   "const (N = iota; N2)",
	}
	second := map[string]string{
		"define":          "N := 2",
		"var":             "var N = 2",
		"const":           "const N = 2",
		"destruct-define": "N, zz := [1, 2]",
		"destruct-assign": "var zz; N, zz = [1, 2]",
		"destruct-all":    "N, N = [1, 2]",
		"assign":          "N = 3",
		"compound":        "N += 1",
		"incdec":          "N++",
		"forin-value":     "for _, N in [1] { N }",
		"forin-key":       "for N, _ in [1] { N }",
		"for-init":        "for N := 0; N < 1; N++ { }",
		"catch":           "try { throw 1 } catch N { N }",
		"try-const-catch": "try { const N = 1 } catch N { }",
		"func-param":      "func(N) { return N }(1)",
		"closure-use":     "func() { return N }()",
		"closure-assign":  "func() { N = 5 }()",
		"closure-define":  "func() { N, q := [1, 2]; return N }()",
		"global-again":    "global N",
		"index-assign":    "N.x = 1",
		"call":            "N(1)",
		"if-init":         "if N := 1; N > 0 { }",
	}
	wrap := map[string]func(a, b string) string{
		"same-scope":   func(a, b string) string { return a + "\n" + b + "\nreturn 1" },
		"nested-block": func(a, b string) string { return a + "\nif true {\n" + b + "\n}\nreturn 1" },
		"nested-func":  func(a, b string) string { return a + "\nf := func() {\n" + b + "\n}\nf()\nreturn 1" },
		"both-in-func": func(a, b string) string { return "f := func() {\n" + a + "\n" + b + "\n}\nreturn f()" },
		"second-first": func(a, b string) string { return b + "\n" + a + "\nreturn 1" },
	}
	reported := map[string]bool{}
	n := 0
	for fn, a := range first {
		name := "nm"
		if fn == "builtin-used" {
			name = "len"
		}
		for sn, b := range second {
			for wn, w := range wrap {
				if (fn == "global" || fn == "param") && wn == "both-in-func" {
					continue
				}
				src := strings.ReplaceAll(w(a, b), "N2", "nm2")
				src = strings.ReplaceAll(src, "N", name)
				for _, o := range []optSet{{Modules: true}, {NoOptimize: true, Modules: true}} {
					n++
					rec.Case()
					sig, what, _ := judge(rec, []byte(src), o, nil, nil, "collision")
					if sig != "" {
						sig = sig + ":collision"
						kind := fmt.Sprintf("collision:%s/%s/%s", fn, sn, wn)
						if !rec.Violation(sig, fmt.Sprintf("[%s, %s] %s\n--- input ---\n%s", kind, o, what, src), mkCase([]byte(src), o, nil, kind)) && !reported[sig] {
							reported[sig] = true
							t.Errorf("[%s, %s] %s: %s\n%s", kind, o, sig, firstLines(what, 6), src)
						}
						continue
					}
					rec.NonTriv(src + o.String())
					rec.Class("collision-ok")
				}
			}
		}
	}
	rec.Note("collision_cases", n)
}

var evalFragments = []string{
	"a := 1", "b := a + 1", "c := func() { return a }", "c()", "a = 5", "a, b2 := [1, 2]", "const k = 3", "k + 1",
	"m := import(\"m0\")", "m.f(1)", "import(\"m1\").v", "import(\"m0\")", "mm := import(\"m1\"); nosuch", "import(\"nope\")", "import(\"cyc1\")",
	"import(\"broken\")", "nosuch", "1 +", "x := 1 / 0", "throw \"e\"", "try { throw 1 } catch e { e } finally { }", "global g", "g = 1", "g, h := [1, 2]",
	"for i := 0; i < 2; i++ { a += i }", "if a > 0 { z := 1 }", "var (p, q = 2)", "len := 1", "len(\"x\")", "f := func(x, ...y) { return y }; f(1, 2)", "return 7", "param z",
	"const (k1 = iota; k2)", "k2", "a.b.c = 1", "undefined.x", "[1, 2][5]", "func() { return import(\"m0\") }()", "x, y := func() { return 1, 2 }()", "",
}

func runEvalFrags(frags []string, noopt bool) (pan, stack string, at int) {
	defer func() {
		if p := recover(); p != nil {
			pan = fmt.Sprint(p)
			stack = string(debug.Stack())
		}
	}()
	e := ugo.NewEval(ugo.CompilerOptions{ModuleMap: moduleMap(nil), NoOptimize: noopt}, nil)
	for i, f := range frags {
		at = i
		ctx, cancel := context.WithTimeout(context.Background(), 500*time.Millisecond)
		_, _, _ = e.Run(ctx, []byte(f))
		cancel()
	}
	return "", "", -1
}

func evalSession(rt *rapid.T, rec *ev.Rec) {
	n := 2 + gen.Uniform(rt, 6, "nfrag")
	var frags []string
	for i := 0; i < n; i++ {
		frags = append(frags, evalFragments[gen.Uniform(rt, len(evalFragments), "frag")])
	}
	noopt := gen.Uniform(rt, 2, "noopt") == 0
	rec.Case()
	type res struct {
		pan, stack string
		at         int
	}
	ch := make(chan res, 1)
	go func() {
		var r res
		defer func() {
			if p := recover(); p != nil {
				r.pan = fmt.Sprint(p)
				r.stack = string(debug.Stack())
			}
			ch <- r
		}()
		e := ugo.NewEval(ugo.CompilerOptions{ModuleMap: moduleMap(nil), NoOptimize: noopt}, nil)
		for i, f := range frags {
			r.at = i
			ctx, cancel := context.WithTimeout(context.Background(), 500*time.Millisecond)
			_, _, _ = e.Run(ctx, []byte(f))
			cancel()
		}
		r.at = -1
	}()
	select {
	case r := <-ch:
		if r.pan != "" {
			what := fmt.Sprintf("Eval session panicked at fragment %d: %s\nfragments: %q\n%s", r.at, r.pan, frags, firstLines(r.stack, 24))
			c := mkCase([]byte(strings.Join(frags, "\n---\n")), optSet{NoOptimize: noopt, Eval: true, Modules: true}, nil, "eval-session")
			if rec.Violation("eval-session:"+panicSig(r.pan, r.stack), what, c) {
				return
			}
			rt.Fatalf("%s", what)
		}
		rec.NonTriv(strings.Join(frags, "\x00"))
		rec.Class("eval-session")
	case <-time.After(20 * time.Second):
		rec.Inconcl("eval-session-watchdog")
	}
}

func min(a, b int) int {
	if a < b {
		return a
	}
	return b
}

func runReplays(t *testing.T, rec *ev.Rec) {
	for _, rf := range rec.Replays() {
		var c caseT
		if err := json.Unmarshal(rf.Case, &c); err != nil {
			t.Errorf("bad replay %s: %v", rf.Path, err)
			continue
		}
		src, err := base64.StdEncoding.DecodeString(c.SrcB64)
		if err != nil {
			t.Errorf("bad replay %s: %v", rf.Path, err)
			continue
		}
		rec.Case()
		if c.Kind == "eval-session" {
			pan, stack, at := runEvalFrags(strings.Split(string(src), "\n---\n"), c.Opt.NoOptimize)
			if pan != "" {
				what := fmt.Sprintf("replay %s: Eval session panicked at fragment %d: %s\n%s", rf.Path, at, pan, firstLines(stack, 24))
				if !rec.Violation("eval-session:"+panicSig(pan, stack), what, c) {
					t.Errorf("%s", what)
				}
			} else {
				rec.Class("replay-pass")
			}
			continue
		}
		if c.Kind == "table-session" {
			frags := strings.Split(string(src), "\n---\n")
			if sig, what, _ := runTableFrags(rec, frags, c.Opt); sig != "" {
				if !rec.Violation(sig, "replay "+rf.Path+": "+what, c) {
					t.Errorf("replay %s: %s: %s", rf.Path, sig, firstLines(what, 12))
				}
			} else {
				rec.Class("replay-pass")
			}
			continue
		}
		var st *ugo.SymbolTable
		if c.Opt.Reuse {
			st = ugo.NewSymbolTable()
			_ = compile([]byte(`a := 1; f := func(x) { return x + a }; const k = 5`), optSet{NoOptimize: c.Opt.NoOptimize}, nil, st)
		}
		sig, what, _ := judge(rec, src, c.Opt, c.Modules, st, c.Kind)
		if sig != "" {
			if !rec.Violation(sig, "replay "+rf.Path+": "+what, c) {
				t.Errorf("replay %s: %s: %s", rf.Path, sig, firstLines(what, 12))
			}
		} else {
			rec.Class("replay-pass")
		}
	}
}
