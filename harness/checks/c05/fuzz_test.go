package c05

import (
	"testing"

	"verif/internal/ev"
)

// FuzzCompile: coverage-guided bytes x option bits, same oracle (no panic, valid bytecode).
func FuzzCompile(f *testing.F) {
	seeds := []string{
		"return 1", "a := 1; b := a + 2; return b", "f := func(x, ...y) { return x }; return f(1, 2)",
		"try { throw 1 } catch e { return e } finally { }", "for i := 0; i < 3; i++ { if i == 1 { continue } }",
		"for k, v in {a: 1} { }", "const (a = iota; b; c)\nreturn [a, b, c]", "param (a, ...b)\nglobal g\nreturn a",
		"m := import(\"m0\"); return m.f(1)", "return import(\"cyc1\")", "x := [1, 2, 3][1:2]; return x", "return 1 % 0", "return 1 << -1",
		"return \"\\xff\" + 'a'", "var (a, b = 1)\na, b = [1, 2]\nreturn a ? b : 3", "x := 0.0; y := -0.0; return string(y)",
		"f := func() { return func() { return 1 } }; return f()()", "return {a: {b: [1, {c: 2}]}}.a.b[1].c",
	}
	for _, s := range seeds {
		f.Add([]byte(s), uint8(0))
		f.Add([]byte(s), uint8(0x21))
	}
	rec := ev.New("C05")
	f.Fuzz(func(t *testing.T, data []byte, bits uint8) {
		if len(data) > 1<<16 {
			t.Skip()
		}
		o := optSet{NoOptimize: bits&1 != 0, Limit: int(bits>>1) & 7, Modules: bits&0x20 != 0, Eval: bits&0x40 != 0}
		if bits&0x10 != 0 {
			o.Trace = 7
			if len(data) > 2000 {
				o.Trace = 0
			}
		}
		sig, what, _ := judge(rec, data, o, nil, nil, "fuzz")
		if sig != "" {
			t.Fatalf("%s\n%s\noptions: %s", sig, what, o)
		}
	})
}
