package c05

import (
	"fmt"
	"strings"

	"github.com/ozanh/ugo"
	"pgregory.net/rapid"

	"verif/internal/ev"
	"verif/internal/gen"
)

// table sessions: several scripts compiled one after another with ugo.Compile and ONE symbol table
// (CompilerOptions.SymbolTable), every compilation with its own fresh constants - a host that keeps a
// table around (e.g. to disable builtins once) and compiles independent scripts with it. The table
// remembers globals, locals, constants and cached builtins of the earlier scripts; whatever a later
// compilation makes of them, it must return an error or bytecode that is well formed by itself.
var tableFragments = append([]string{
	`x := "pad"; y := "pad2"; global g; return g`, "return g", "g = 2", "g += 1", "g++", "return func() { return g }", "global (g, h2)", "return [g, h2]",
	"g, w := [1, 2]; return w", "return h2", "for g in [1] { }", "try { throw 1 } catch g { return g }", "f2 := func(g) { return g }; return f2(1)", "return a", "a = 2", "return k",
	"return c", "return c()", "return m", "return m.f(1)", "return len", "return k2 + k1", "param q; return q", "return q", "return z", "return p + q",
}, evalFragments...)

func runTableFrags(rec *ev.Rec, frags []string, o optSet) (sig, what string, at int) {
	st := ugo.NewSymbolTable()
	o.Eval = false
	for i, f := range frags {
		s, w, _ := judge(rec, []byte(f), o, nil, st, "table-session")
		if s != "" {
			return "table-session:" + s, fmt.Sprintf("script %d of %d compiled with one re-used symbol table (fresh constants): %s", i+1, len(frags), w), i
		}
	}
	return "", "", -1
}

func tableSession(rt *rapid.T, rec *ev.Rec) {
	n := 2 + gen.Uniform(rt, 5, "nfrag")
	var frags []string
	for i := 0; i < n; i++ {
		frags = append(frags, tableFragments[gen.Uniform(rt, len(tableFragments), "frag")])
	}
	o := optSet{NoOptimize: gen.Uniform(rt, 2, "noopt") == 0, Modules: true, Reuse: true}
	rec.Case()
	sig, what, at := runTableFrags(rec, frags, o)
	if sig != "" {
		what += fmt.Sprintf("\nscripts: %q (failing: #%d)", frags, at+1)
		c := mkCase([]byte(strings.Join(frags, "\n---\n")), o, nil, "table-session")
		if rec.Violation(sig, what, c) {
			return
		}
		rt.Fatalf("%s", what)
	}
	rec.NonTriv("table\x00" + strings.Join(frags, "\x00"))
	rec.Class("table-session")
}
