package c05

import (
	"fmt"

	"github.com/ozanh/ugo"
)

// validate is an independent structural validator of compiled Bytecode:
// known opcodes, complete operands, jump / try targets inside the function and
// on an instruction boundary, constant / local / builtin / module indexes in
// range, function constants of the right kind, RETURN as last instruction.
func validate(bc *ugo.Bytecode) (problem string) {
	defer func() {
		if r := recover(); r != nil {
			problem = fmt.Sprintf("validator panic (malformed instruction stream): %v", r)
		}
	}()
	if bc == nil || bc.Main == nil {
		return "nil bytecode / main"
	}
	if p := validateFn(bc, bc.Main, "main"); p != "" {
		return p
	}
	for i, c := range bc.Constants {
		if c == nil {
			return fmt.Sprintf("constant %d is nil", i)
		}
		if f, ok := c.(*ugo.CompiledFunction); ok {
			if p := validateFn(bc, f, fmt.Sprintf("const %d", i)); p != "" {
				return p
			}
		}
	}
	return ""
}

func validateFn(bc *ugo.Bytecode, f *ugo.CompiledFunction, where string) string {
	insts := f.Instructions
	if len(insts) == 0 {
		return where + ": empty instructions"
	}
	if f.NumLocals > 256 {
		return fmt.Sprintf("%s: NumLocals %d > 256", where, f.NumLocals)
	}
	if f.NumParams > f.NumLocals || f.NumParams < 0 {
		return fmt.Sprintf("%s: NumParams %d vs NumLocals %d", where, f.NumParams, f.NumLocals)
	}
	// pass 1: instruction boundaries
	starts := map[int]bool{}
	type inst struct {
		pos int
		op  ugo.Opcode
		ops []int
	}
	var list []inst
	for i := 0; i < len(insts); {
		op := insts[i]
		if int(op) >= len(ugo.OpcodeOperands) || ugo.OpcodeNames[op] == "" {
			return fmt.Sprintf("%s: unknown opcode %d at %d", where, op, i)
		}
		widths := ugo.OpcodeOperands[op]
		need := 0
		for _, w := range widths {
			need += w
		}
		if i+1+need > len(insts) {
			return fmt.Sprintf("%s: truncated operands of %s at %d", where, ugo.OpcodeNames[op], i)
		}
		ops, _ := ugo.ReadOperands(widths, insts[i+1:], nil)
		starts[i] = true
		list = append(list, inst{i, op, append([]int{}, ops...)})
		i += 1 + need
	}
	last := list[len(list)-1]
	if last.op != ugo.OpReturn {
		return fmt.Sprintf("%s: last instruction is %s, not RETURN", where, ugo.OpcodeNames[last.op])
	}
	target := func(t int, name string, pos int, zeroOK bool) string {
		if zeroOK && t == 0 {
			return ""
		}
		if t < 0 || t >= len(insts) || !starts[t] {
			return fmt.Sprintf("%s: %s at %d targets %d which is not an instruction start (len %d)", where, name, pos, t, len(insts))
		}
		return ""
	}
	for _, in := range list {
		name := ugo.OpcodeNames[in.op]
		switch in.op {
		case ugo.OpJump, ugo.OpJumpFalsy, ugo.OpAndJump, ugo.OpOrJump:
			if p := target(in.ops[0], name, in.pos, false); p != "" {
				return p
			}
		case ugo.OpSetupTry:
			if p := target(in.ops[0], name+" catch", in.pos, true); p != "" {
				return p
			}
			if p := target(in.ops[1], name+" finally", in.pos, true); p != "" {
				return p
			}
		case ugo.OpConstant, ugo.OpGetGlobal, ugo.OpSetGlobal:
			if in.ops[0] >= len(bc.Constants) {
				return fmt.Sprintf("%s: %s at %d: constant index %d >= %d", where, name, in.pos, in.ops[0], len(bc.Constants))
			}
			if in.op != ugo.OpConstant {
				if _, ok := bc.Constants[in.ops[0]].(ugo.String); !ok {
					return fmt.Sprintf("%s: %s at %d: constant %d is not a string", where, name, in.pos, in.ops[0])
				}
			}
		case ugo.OpClosure:
			if in.ops[0] >= len(bc.Constants) {
				return fmt.Sprintf("%s: CLOSURE at %d: constant index %d >= %d", where, in.pos, in.ops[0], len(bc.Constants))
			}
			if _, ok := bc.Constants[in.ops[0]].(*ugo.CompiledFunction); !ok {
				return fmt.Sprintf("%s: CLOSURE at %d: constant %d is %T", where, in.pos, in.ops[0], bc.Constants[in.ops[0]])
			}
		case ugo.OpLoadModule:
			if in.ops[0] >= len(bc.Constants) {
				return fmt.Sprintf("%s: LOADMODULE at %d: constant index %d >= %d", where, in.pos, in.ops[0], len(bc.Constants))
			}
			if in.ops[1] >= bc.NumModules {
				return fmt.Sprintf("%s: LOADMODULE at %d: module index %d >= NumModules %d", where, in.pos, in.ops[1], bc.NumModules)
			}
		case ugo.OpStoreModule:
			if in.ops[0] >= bc.NumModules {
				return fmt.Sprintf("%s: STOREMODULE at %d: module index %d >= NumModules %d", where, in.pos, in.ops[0], bc.NumModules)
			}
		case ugo.OpGetLocal, ugo.OpSetLocal, ugo.OpDefineLocal, ugo.OpGetLocalPtr:
			if in.ops[0] >= f.NumLocals {
				return fmt.Sprintf("%s: %s at %d: local index %d >= NumLocals %d", where, name, in.pos, in.ops[0], f.NumLocals)
			}
		case ugo.OpGetBuiltin:
			if in.ops[0] >= len(ugo.BuiltinObjects) || ugo.BuiltinObjects[in.ops[0]] == nil {
				return fmt.Sprintf("%s: GETBUILTIN at %d: index %d names no builtin", where, in.pos, in.ops[0])
			}
		case ugo.OpReturn:
			if in.ops[0] > 1 {
				return fmt.Sprintf("%s: RETURN %d at %d", where, in.ops[0], in.pos)
			}
		case ugo.OpThrow:
			if in.ops[0] > 1 {
				return fmt.Sprintf("%s: THROW %d at %d", where, in.ops[0], in.pos)
			}
		}
	}
	return ""
}
