package c16

import (
	"fmt"
	"strings"

	"pgregory.net/rapid"
)

// expFrame is one expected stack-trace entry (line numbers for k = 0).
type expFrame struct {
	File string `json:"file"`         // "(main)" or "m"
	Lo   int    `json:"lo"`           // expected line, or first line of a multi-line call statement
	Hi   int    `json:"hi"`           // == Lo except for multi-line call statements
	CB   bool   `json:"cb,omitempty"` // the call statement is CALL(f, a) (Go callback + Invoker)
}

const (
	mainName = "(main)"
	modName  = "m"
)

// scen is one generated script (k = 0 layout) with its expected trace.
type scen struct {
	Main        string
	Mod         string
	HasMod      bool
	Callback    bool
	Exp         []expFrame
	Depth       int
	Forms       []string // call forms, outermost first (with wrapper suffixes)
	Fail        string
	CrossMod    int  // number of file boundary crossings along the chain
	Tries       int  // completed try statements among the filler
	ImportChain bool // the module body is part of the chain (fails while being imported)
	// recursive scenarios (generateRecursive): cycle length, two call sites per function, recursion levels
	RecCycle    int
	RecTwoSites bool
	RecRounds   int
}

type fileB struct {
	name  string
	lines []string
}

// add appends one physical line and returns its 1-based line number.
func (b *fileB) add(indent int, s string) int {
	b.lines = append(b.lines, strings.Repeat("  ", indent)+s)
	return len(b.lines)
}

func (b *fileB) raw(s string) int {
	b.lines = append(b.lines, s)
	return len(b.lines)
}

func (b *fileB) text(trailingNL bool) string {
	s := strings.Join(b.lines, "\n")
	if trailingNL {
		s += "\n"
	}
	return s
}

type gen struct {
	rt       *rapid.T
	n        int
	allowCB  bool // CALL(f, a) call forms (Go callback + Invoker)
	allowTry bool // filler: try statements that complete (a caught error, a finally that ran)
	tries    int
	noA      bool // the variable `a` is not declared (first statement of a module)
	consts   map[string]bool // files whose preamble declares the constants KI / KS
	curFile  string
}

func (g *gen) id(p string) string {
	g.n++
	return fmt.Sprintf("%s%d", p, g.n)
}

func (g *gen) pick(label string, n int) int {
	if n <= 1 {
		return 0
	}
	return rapid.IntRange(0, n-1).Draw(g.rt, label)
}

// fold returns a constant expression the optimizer replaces by a literal.
func (g *gen) fold() string {
	if g.consts[g.curFile] && g.pick("fold-const", 3) == 0 {
		// a constant identifier substituted by its literal at compile time
		return []string{"KI", "(KI + 1)", `(KS + "x")`, "(KI > 1)", "len(KS)"}[g.pick("foldc", 5)]
	}
	return []string{"(1+2)", `("x" + "y")`, "(2 > 1)", "(1.5 + 1.5)", `len("abc")`, "(!false)", "(2 * 3 - 1)", `string(12)`, "('a' + 1)"}[g.pick("fold", 9)]
}

// filler emits 0..max non-failing lines that never call a chain function.
func (g *gen) filler(b *fileB, ind, max int) {
	n := g.pick("fillers", max+1)
	for i := 0; i < n; i++ {
		nk := 14
		if g.allowTry {
			nk = 16
		}
		k := g.pick("filler", nk)
		if g.allowTry && g.pick("prefer-try", 3) == 0 {
			k = 14 + g.pick("tryfiller", 2)
		}
		switch k {
		case 0:
			b.add(0, "")
		case 1:
			b.add(ind, "// comment ünï ✓ (1+2) f0(a) throw")
		case 2:
			b.add(ind, g.id("v")+" := 7")
		case 3:
			b.add(ind, g.id("v")+" := (1+2) * 3")
		case 4:
			b.add(ind, g.id("v")+` := "sñ\n" + "x"`)
		case 5: // multi-line raw string
			b.add(ind, g.id("s")+" := `raw")
			for j, m := 0, g.pick("rawlines", 3); j < m; j++ {
				b.raw([]string{"  throw \"in string\"", "", "f0(a) // ✓"}[j])
			}
			b.raw("end`")
		case 6: // multi-line block comment
			b.add(ind, "/* block")
			for j, m := 0, g.pick("cmtlines", 3); j < m; j++ {
				b.raw([]string{"   f0(a)", "", "\t* / not yet"}[j])
			}
			b.raw("*/")
		case 7:
			b.add(ind, "if a == a {")
			b.add(ind+1, g.id("w")+" := 1")
			b.add(ind, "} else {")
			b.add(ind+1, g.id("w")+" := 2")
			b.add(ind, "}")
		case 8:
			iv := g.id("i")
			b.add(ind, "for "+iv+" := 0; "+iv+" < 2; "+iv+"++ {")
			b.add(ind+1, g.id("w")+" := "+iv+" + (2*3)")
			b.add(ind, "}")
		case 9: // local function, defined and called successfully
			u := g.id("u")
			b.add(ind, u+" := func(b) {")
			b.add(ind+1, "return b + (1+2)")
			b.add(ind, "}")
			b.add(ind, g.id("v")+" := "+u+"(1)")
		case 10:
			b.add(ind, g.id("v")+" := [1, 2][0]")
		case 11:
			b.raw("   \t ")
		case 12:
			b.raw("\t\t// tab-indented comment")
		case 13:
			b.add(ind, g.id("v")+" := {a: 1}.a")
		case 15: // a try-finally that completed normally
			g.tries++
			b.add(ind, "try {")
			b.add(ind+1, g.id("w")+" := 1")
			b.add(ind, "} finally {")
			b.add(ind+1, g.id("w")+" := 0")
			b.add(ind, "}")
		case 14: // a caught error must not leak into the trace of the later one
			g.tries++
			b.add(ind, "try {")
			b.add(ind+1, `throw "caught"`)
			b.add(ind, "} catch "+g.id("e")+" {")
			b.add(ind+1, g.id("w")+" := 0")
			b.add(ind, "}")
		}
	}
}

// wrap puts the action lines inside 0..2 taken blocks.
func (g *gen) wrap(b *fileB, ind, budget int, tag *string, inner func(ind int) []expFrame) []expFrame {
	k := 0
	if budget > 0 {
		k = g.pick("wrap", 11)
	}
	rec := func(ind int) []expFrame { return g.wrap(b, ind, budget-1, tag, inner) }
	switch k {
	default:
		return inner(ind)
	case 1:
		*tag += "/if"
		b.add(ind, "if a == a {")
		r := rec(ind + 1)
		b.add(ind, "}")
		return r
	case 2:
		*tag += "/else"
		b.add(ind, "if a != a {")
		b.add(ind+1, g.id("w")+" := 0")
		b.add(ind, "} else {")
		r := rec(ind + 1)
		b.add(ind, "}")
		return r
	case 3:
		*tag += "/for"
		i := g.id("i")
		b.add(ind, "for "+i+" := 0; "+i+" < 1; "+i+"++ {")
		r := rec(ind + 1)
		b.add(ind, "}")
		return r
	case 4:
		*tag += "/forin"
		b.add(ind, "for "+g.id("e")+" in [1] {")
		r := rec(ind + 1)
		b.add(ind, "}")
		return r
	case 5:
		*tag += "/try-finally"
		b.add(ind, "try {")
		r := rec(ind + 1)
		b.add(ind, "} finally {")
		b.add(ind+1, g.id("w")+" := 0")
		b.add(ind, "}")
		return r
	}
}

var callForms = []string{"stmt", "assign", "ret-plus", "ret-bare", "cond", "cond-block", "closure-var",
	"arg-of-builtin", "spread", "array-elt", "map-elt", "ternary", "compound", "selector-call", "logical",
	"unary", "index-of-result", "ml-args", "ml-array", "ml-iife", "callback", "callback-assign", "callback-stdlib"}

// emitCall writes the statement calling callee (an expression naming the next
// function) and returns the expected trace entries it contributes.
func (g *gen) emitCall(b *fileB, ind int, callee string, inMain bool, form *string) []expFrame {
	n := len(callForms)
	const nCB = 3
	if !(g.allowCB && inMain) {
		n -= nCB
	}
	k := g.pick("callform", n)
	if g.allowCB && inMain && g.pick("prefer-cb", 3) == 0 {
		k = len(callForms) - nCB + g.pick("cbform", nCB)
	}
	*form = callForms[k]
	one := func(l int) []expFrame { return []expFrame{{File: b.name, Lo: l, Hi: l}} }
	c := callee + "(a)"
	switch callForms[k] {
	case "stmt":
		return one(b.add(ind, c))
	case "assign":
		return one(b.add(ind, g.id("y")+" := "+c))
	case "ret-plus":
		return one(b.add(ind, "return "+c+" + "+g.fold()))
	case "ret-bare":
		return one(b.add(ind, "return "+c))
	case "cond":
		return one(b.add(ind, "if "+c+" == "+g.fold()+" { }"))
	case "cond-block":
		l := b.add(ind, "if "+c+" == 0 {")
		b.add(ind+1, g.id("w")+" := 1")
		b.add(ind, "}")
		return one(l)
	case "closure-var":
		f := g.id("g")
		b.add(ind, f+" := "+callee)
		return one(b.add(ind, g.id("y")+" := "+f+"(a)"))
	case "arg-of-builtin":
		return one(b.add(ind, g.id("y")+" := len(string("+c+"))"))
	case "spread":
		return one(b.add(ind, callee+"(...[a])"))
	case "array-elt":
		return one(b.add(ind, g.id("y")+" := ["+g.fold()+", "+c+", "+g.fold()+"]"))
	case "map-elt":
		return one(b.add(ind, g.id("y")+" := {k: "+c+"}"))
	case "ternary":
		return one(b.add(ind, g.id("y")+" := a == a ? "+c+" : "+g.fold()))
	case "compound":
		acc := g.id("acc")
		b.add(ind, acc+" := 0")
		return one(b.add(ind, acc+" += "+c))
	case "selector-call":
		t := g.id("t")
		b.add(ind, t+" := {f: "+callee+"}")
		return one(b.add(ind, t+".f(a)"))
	case "logical":
		return one(b.add(ind, g.id("y")+" := "+g.fold()+" != undefined && "+c+" == "+g.fold()))
	case "unary":
		return one(b.add(ind, g.id("y")+" := !"+c))
	case "index-of-result":
		return one(b.add(ind, g.id("y")+" := ["+c+"][0]"))
	case "ml-args":
		l := b.add(ind, callee+"(")
		b.add(ind+1, "a,")
		h := b.add(ind, ")")
		return []expFrame{{File: b.name, Lo: l, Hi: h}}
	case "ml-array":
		l := b.add(ind, g.id("y")+" := [1,")
		b.add(ind+1, c+",")
		h := b.add(ind+1, "3]")
		return []expFrame{{File: b.name, Lo: l, Hi: h}}
	case "ml-iife": // an anonymous function is active too: two entries
		l := b.add(ind, "func() {")
		in := b.add(ind+1, c)
		h := b.add(ind, "}()")
		return []expFrame{{File: b.name, Lo: l, Hi: h}, {File: b.name, Lo: in, Hi: in}}
	case "callback":
		l := b.add(ind, "CALL("+callee+", a)")
		return []expFrame{{File: b.name, Lo: l, Hi: l, CB: true}}
	case "callback-stdlib": // a stdlib function (Go) invoking a script closure: two entries
		l := b.add(ind, g.id("y")+` := strings.IndexFunc("xy", func(ch) {`)
		in := b.add(ind+1, "return "+c+" == "+g.fold())
		h := b.add(ind, "})")
		return []expFrame{{File: b.name, Lo: l, Hi: h, CB: true}, {File: b.name, Lo: in, Hi: in}}
	case "callback-assign":
		l := b.add(ind, g.id("y")+" := CALL("+callee+", a) + "+g.fold())
		return []expFrame{{File: b.name, Lo: l, Hi: l, CB: true}}
	}
	panic("unreachable")
}

var failKinds = []string{"throw-string", "throw-error", "throw-typed", "throw-var", "div-zero", "bad-operand",
	"builtin-int", "builtin-append", "argc-few", "argc-many", "not-callable", "index-oob", "not-indexable",
	"slice-oob", "not-iterable", "throw-folded", "const-div-zero", "const-bad-operand", "const-index",
	"go-plain-error", "go-runtime-error"}

func (g *gen) emitFail(b *fileB, ind int, kind *string) []expFrame {
	k := g.pick("failkind", len(failKinds))
	if g.noA {
		switch failKinds[k] {
		case "argc-many", "not-callable", "not-indexable", "not-iterable":
			k = 0
		}
	}
	if !g.consts[b.name] {
		switch failKinds[k] {
		case "const-div-zero", "const-bad-operand", "const-index":
			k = 4 // div-zero
		}
	}
	if g.allowCB && b.name == mainName && g.pick("prefer-go-fail", 4) == 0 {
		k = len(failKinds) - 2 + g.pick("go-fail", 2)
	}
	if !(g.allowCB && b.name == mainName) {
		switch failKinds[k] {
		case "go-plain-error", "go-runtime-error": // need the embedder function CALL (declared in main only)
			k = 0
		}
	}
	*kind = failKinds[k]
	one := func(l int) []expFrame { return []expFrame{{File: b.name, Lo: l, Hi: l}} }
	switch failKinds[k] {
	case "go-plain-error":
		return one(b.add(ind, g.id("y")+` := CALL("plain")`))
	case "go-runtime-error":
		return one(b.add(ind, `CALL("rt")`))
	case "const-div-zero": // the constant identifier is the LEFT operand (the expression takes its position from it)
		z := g.id("z")
		b.add(ind, z+" := 0")
		return one(b.add(ind, g.id("y")+" := KI / "+z))
	case "const-bad-operand":
		z := g.id("z")
		b.add(ind, z+" := 1")
		return one(b.add(ind, g.id("y")+" := KS - "+z))
	case "const-index":
		z := g.id("z")
		b.add(ind, z+" := 9")
		return one(b.add(ind, g.id("y")+" := KS["+z+"]"))
	case "throw-string":
		return one(b.add(ind, `throw "boom"`))
	case "throw-error":
		return one(b.add(ind, `throw error("e" + "x")`))
	case "throw-typed":
		return one(b.add(ind, `throw TypeError.New("t")`))
	case "throw-var":
		e := g.id("ev")
		b.add(ind, e+` := error("e")`)
		return one(b.add(ind, "throw "+e))
	case "throw-folded":
		return one(b.add(ind, `throw (1+2) * 3`))
	case "div-zero":
		z := g.id("z")
		b.add(ind, z+" := 0")
		return one(b.add(ind, g.id("y")+" := (1+2) / "+z))
	case "bad-operand":
		s := g.id("s")
		b.add(ind, s+` := "a"`)
		return one(b.add(ind, g.id("y")+" := "+s+" - (1+2)"))
	case "builtin-int":
		r := g.id("r")
		b.add(ind, r+" := []")
		return one(b.add(ind, g.id("y")+" := int("+r+")"))
	case "builtin-append":
		o := g.id("o")
		b.add(ind, o+" := 1")
		return one(b.add(ind, g.id("y")+" := append("+o+", (1+2))"))
	case "argc-few":
		h := g.id("h")
		b.add(ind, h+" := func(p) { return p }")
		return one(b.add(ind, h+"()"))
	case "argc-many":
		h := g.id("h")
		b.add(ind, h+" := func(p) { return p }")
		return one(b.add(ind, g.id("y")+" := "+h+"(a, (1+2))"))
	case "not-callable":
		n := g.id("n")
		b.add(ind, n+" := 1")
		return one(b.add(ind, n+"(a)"))
	case "index-oob":
		r, i := g.id("r"), g.id("i")
		b.add(ind, r+" := [1]")
		b.add(ind, i+" := 5")
		return one(b.add(ind, g.id("y")+" := "+r+"["+i+"]"))
	case "not-indexable":
		return one(b.add(ind, g.id("y")+" := a.b"))
	case "slice-oob":
		r, i := g.id("r"), g.id("i")
		b.add(ind, r+" := [1]")
		b.add(ind, i+" := 5")
		return one(b.add(ind, g.id("y")+" := "+r+"["+i+":]"))
	case "not-iterable":
		return one(b.add(ind, "for "+g.id("e")+" in a { }"))
	}
	panic("unreachable")
}

// generate draws one scenario.
func generate(rt *rapid.T, allowCB, allowTry bool) *scen {
	g := &gen{rt: rt, allowCB: allowCB, allowTry: allowTry}
	sc := &scen{Callback: allowCB}
	defer func() { sc.Tries = g.tries }()
	depth := rapid.IntRange(0, 13).Draw(rt, "depth")
	sc.Depth = depth
	useMod := g.pick("use-module", 2) == 1
	// import-chain: the module's top-level code is part of the chain: slot importAt
	// executes `x := import("m")` and the module body calls f<importAt> (or fails).
	importAt := -1
	if useMod && (depth == 0 || g.pick("import-chain", 4) == 0) {
		importAt = g.pick("import-at", depth+1)
	}
	inMod := make([]bool, depth)
	if importAt >= 0 {
		for i := range inMod {
			inMod[i] = i >= importAt
		}
	} else if useMod {
		any := false
		for i := range inMod {
			inMod[i] = g.pick("in-module", 3) == 0
			any = any || inMod[i]
		}
		if !any {
			inMod[depth-1] = true
		}
	}
	sc.HasMod = useMod
	sc.ImportChain = importAt >= 0
	mainB := &fileB{name: mainName}
	modB := &fileB{name: modName}
	name := func(i int) string { return fmt.Sprintf("f%d", i) }
	// expression naming function i as seen from a caller in the main file (callerMain) or the module
	calleeExpr := func(i int, callerMain bool) string {
		switch {
		case callerMain && inMod[i]:
			return "m." + name(i)
		case !callerMain && !inMod[i]:
			return "reg." + name(i)
		}
		return name(i)
	}

	// slot 0 = main, slot s = function s-1; slot s calls function s, slot depth fails
	exp := make([][]expFrame, depth+1)
	forms := make([]string, depth+1)
	var expTop []expFrame // module top level (import-chain)
	var formTop string
	next := func(b *fileB, ind, s int, form *string) []expFrame {
		g.curFile = b.name
		callerMain := b == mainB
		if s == depth {
			return g.emitFail(b, ind, &sc.Fail)
		}
		if !callerMain != inMod[s] {
			sc.CrossMod++
		}
		return g.emitCall(b, ind, calleeExpr(s, callerMain), callerMain, form)
	}
	action := func(b *fileB, ind, s int) {
		var tag, form string
		exp[s] = g.wrap(b, ind, 2, &tag, func(ind int) []expFrame {
			if s == importAt {
				form = "import"
				sc.CrossMod++
				l := b.add(ind, g.id("m")+` := import("m")`)
				return []expFrame{{File: b.name, Lo: l, Hi: l}}
			}
			return next(b, ind, s, &form)
		})
		if form == "" {
			form = sc.Fail
		}
		forms[s] = form + tag
	}

	// preambles
	g.consts = map[string]bool{}
	if g.pick("main-consts", 2) == 1 {
		g.consts[mainName] = true
		mainB.add(0, "const KI = 10")
		mainB.add(0, `const KS = "k"`)
	}
	g.curFile = mainName
	mainB.add(0, "a := 1")
	if allowCB {
		g.filler(mainB, 0, 1)
		mainB.add(0, "global CALL")
		mainB.add(0, `strings := import("strings")`)
	}
	g.filler(mainB, 0, 2)
	bareTop := importAt == depth && g.pick("bare-module-top", 2) == 1
	if useMod && importAt < 0 {
		mainB.add(0, `m := import("m")`)
	}
	if useMod && !bareTop {
		if g.pick("mod-consts", 2) == 1 {
			g.consts[modName] = true
			modB.add(0, "const (KI = 10; KS = \"k\")")
		}
		modB.add(0, "a := 1")
		g.filler(modB, 0, 3)
		if importAt < 0 {
			modB.add(0, "reg := {}")
		}
	}

	// functions innermost first
	for i := depth - 1; i >= 0; i-- {
		b := mainB
		if inMod[i] {
			b = modB
		}
		g.filler(b, 0, 2)
		switch g.pick("decl", 3) {
		case 0:
			b.add(0, name(i)+" := func(a) {")
		case 1:
			b.add(0, name(i)+" := func(a, ...rest) {")
		case 2:
			b.add(0, "var "+name(i)+" = func(a) {")
		}
		g.filler(b, 1, 3)
		action(b, 1, i+1)
		g.filler(b, 1, 2)
		if g.pick("tail-return", 2) == 1 {
			b.add(1, "return a + (1+2)")
		}
		b.add(0, "}")
	}
	switch {
	case importAt >= 0:
		// the module body continues the chain
		if !bareTop {
			g.filler(modB, 0, 2)
		}
		var tag, form string
		g.noA = bareTop
		budget := 2
		if bareTop {
			budget = 0 // the failing statement is the first byte of the module file
		}
		expTop = g.wrap(modB, 0, budget, &tag, func(ind int) []expFrame { return next(modB, ind, importAt, &form) })
		g.noA = false
		if form == "" {
			form = sc.Fail
		}
		formTop = form + tag
		if bareTop {
			modB.add(0, "a := 1")
		}
		g.filler(modB, 0, 2)
		if g.pick("module-return", 2) == 1 {
			modB.add(0, "return {}")
		}
	case useMod:
		g.filler(modB, 0, 2)
		exports := []string{"set: func(k, v) { reg[k] = v }"}
		for i := 0; i < depth; i++ {
			if inMod[i] {
				exports = append(exports, name(i)+": "+name(i))
			}
		}
		modB.add(0, "return {"+strings.Join(exports, ", ")+"}")
		// main functions called from the module are registered
		for i := 1; i < depth; i++ {
			if !inMod[i] && inMod[i-1] {
				mainB.add(0, `m.set("`+name(i)+`", `+name(i)+`)`)
			}
		}
	}
	g.filler(mainB, 0, 3)
	action(mainB, 0, 0)
	// the failing/calling statement of main is sometimes the very last line of the file
	if g.pick("main-tail", 3) != 0 {
		g.filler(mainB, 0, 2)
	}
	for s := range exp {
		sc.Exp = append(sc.Exp, exp[s]...)
		sc.Forms = append(sc.Forms, forms[s])
		if s == importAt {
			sc.Exp = append(sc.Exp, expTop...)
			sc.Forms = append(sc.Forms, formTop)
		}
	}
	sc.Main = mainB.text(g.pick("main-trailing-newline", 2) == 0)
	if useMod {
		sc.Mod = modB.text(g.pick("mod-trailing-newline", 2) == 0)
	}
	return sc
}
