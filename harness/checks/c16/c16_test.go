// C16 - runtime errors report the true source locations.
//
// Scripts are built line by line (gen_test.go) so that the line of every call
// statement along a chain of distinct functions and of the failing statement
// is known by construction; the reported stack trace is compared with it for
// optimizer on/off x encode/decode x k prepended blank lines, and every
// reported position is re-derived from the file text (line/column/offset).
package c16

import (
	"errors"
	"bytes"
	"encoding/json"
	"fmt"
	"os"
	"runtime/debug"
	"strings"
	"testing"
	"time"

	"github.com/ozanh/ugo"
	"github.com/ozanh/ugo/encoder"
	"github.com/ozanh/ugo/parser"
	ugostrings "github.com/ozanh/ugo/stdlib/strings"
	"pgregory.net/rapid"

	"verif/internal/ev"
)

var ks = []int{0, 1, 7, 100}

type replayCase struct {
	Kind     string     `json:"kind"` // "trace" | "compile"
	Main     string     `json:"main"` // without the k blank lines
	Mod      string     `json:"mod,omitempty"`
	HasMod   bool       `json:"has_mod,omitempty"`
	K        int        `json:"k"`
	NoOpt    bool       `json:"no_optimize"`
	RT       bool       `json:"roundtrip"`
	Callback bool       `json:"callback,omitempty"`
	Fail     string     `json:"fail,omitempty"`
	Expected []expFrame `json:"expected,omitempty"` // for k = 0
	Got      []string   `json:"got,omitempty"`
}

// callGlobal is the Go callback `CALL(f, args...)`: it calls f through an Invoker.
func callGlobal() *ugo.Function {
	return &ugo.Function{Name: "CALL", ValueEx: func(c ugo.Call) (ugo.Object, error) {
		if c.Len() < 1 {
			return ugo.Undefined, ugo.ErrWrongNumArguments.NewError("want>=1 got=0")
		}
		if s, ok := c.Get(0).(ugo.String); ok {
			// an embedder function that fails: with a plain Go error, or with a runtime error it built itself
			if s == "rt" {
				return ugo.Undefined, &ugo.RuntimeError{Err: &ugo.Error{Name: "EmbedderError", Message: "made in Go"}}
			}
			return ugo.Undefined, errors.New("plain go error")
		}
		args := make([]ugo.Object, 0, c.Len()-1)
		for i := 1; i < c.Len(); i++ {
			args = append(args, c.Get(i))
		}
		return ugo.NewInvoker(c.VM(), c.Get(0)).Invoke(args...)
	}}
}

func moduleMap(hasMod bool, mod string) *ugo.ModuleMap {
	mm := ugo.NewModuleMap()
	mm.AddBuiltinModule("strings", ugostrings.Module)
	if hasMod {
		mm.AddSourceModule(modName, []byte(mod))
	}
	return mm
}

type runResult struct {
	trace    ugo.StackTrace
	err      error
	noErr    bool
	panicked string
	timedOut bool
	infra    string // compile / encode / decode failure text
}

func compile(main, mod string, hasMod, noopt bool) (bc *ugo.Bytecode, mm *ugo.ModuleMap, err error, pan string) {
	defer func() {
		if p := recover(); p != nil {
			pan = fmt.Sprint(p)
		}
	}()
	mm = moduleMap(hasMod, mod)
	bc, err = ugo.Compile([]byte(main), ugo.CompilerOptions{NoOptimize: noopt, ModuleMap: mm})
	return
}

func roundTrip(bc *ugo.Bytecode, mm *ugo.ModuleMap) (out *ugo.Bytecode, err error) {
	defer func() {
		if p := recover(); p != nil {
			err = fmt.Errorf("panic: %v", p)
		}
	}()
	var buf bytes.Buffer
	if err = encoder.EncodeBytecodeTo(bc, &buf); err != nil {
		return nil, err
	}
	return encoder.DecodeBytecodeFrom(&buf, mm)
}

func execute(bc *ugo.Bytecode, callback bool) (r runResult) {
	vm := ugo.NewVM(bc)
	vm.SetRecover(true)
	g := ugo.Map{}
	if callback {
		g["CALL"] = callGlobal()
	}
	timer := time.AfterFunc(5*time.Second, func() { r.timedOut = true; vm.Abort() })
	defer timer.Stop()
	defer func() {
		if p := recover(); p != nil {
			r.panicked = fmt.Sprint(p)
		}
	}()
	_, err := vm.Run(g)
	r.err = err
	if err == nil {
		r.noErr = true
		return
	}
	if re, ok := err.(*ugo.RuntimeError); ok {
		r.trace = re.StackTrace()
	}
	return
}

// runVariant compiles and runs main (k blank lines prepended) and returns the trace.
func runVariant(main, mod string, hasMod bool, k int, noopt, rt, callback bool) runResult {
	src := strings.Repeat("\n", k) + main
	bc, mm, err, pan := compile(src, mod, hasMod, noopt)
	if pan != "" {
		return runResult{infra: "compile panic: " + pan}
	}
	if err != nil {
		return runResult{infra: "compile: " + err.Error()}
	}
	if rt {
		bc, err = roundTrip(bc, mm)
		if err != nil {
			return runResult{infra: "roundtrip: " + err.Error()}
		}
	}
	return execute(bc, callback)
}

// ---------------------------------------------------------------------------
// independent position model

// posInText re-derives line and column of a byte offset from the text alone.
func posInText(text string, off int) (line, col int) {
	pre := text[:off]
	line = 1 + strings.Count(pre, "\n")
	col = off - (strings.LastIndexByte(pre, '\n') + 1) + 1
	return
}

func numLines(text string) int {
	n := strings.Count(text, "\n")
	if !strings.HasSuffix(text, "\n") {
		n++
	}
	if n == 0 {
		n = 1
	}
	return n
}

// checkInside: the position names a known file and lies inside its text;
// line, column and offset agree with the text. allowEOF admits the position
// just behind the last byte (what parse errors at end of input report).
func checkInside(p parser.SourceFilePos, files map[string]string, allowEOF bool) string {
	text, ok := files[p.Filename]
	if !ok {
		return fmt.Sprintf("unknown file name %q", p.Filename)
	}
	if p.Offset < 0 || p.Offset > len(text) || (p.Offset == len(text) && !allowEOF) {
		return fmt.Sprintf("offset %d outside file %s of size %d", p.Offset, p.Filename, len(text))
	}
	nl := numLines(text)
	l, c := posInText(text, p.Offset)
	if p.Offset == len(text) {
		// end of input: either "line after the last newline, column 1" or
		// "behind the end of the last line" are inside-the-file readings.
		if p.Line == l && p.Column == c {
			return ""
		}
		if strings.HasSuffix(text, "\n") && p.Line == l-1 {
			pl, pc := posInText(text, p.Offset-1)
			if p.Line == pl && p.Column == pc+1 {
				return ""
			}
		}
		return fmt.Sprintf("EOF position %s:%d:%d (offset %d) does not match the text (expected %d:%d)", p.Filename, p.Line, p.Column, p.Offset, l, c)
	}
	if p.Line < 1 || p.Line > nl {
		return fmt.Sprintf("line %d outside 1..%d of %s", p.Line, nl, p.Filename)
	}
	lineText := strings.Split(text, "\n")[p.Line-1]
	if p.Column < 1 || p.Column > len(lineText)+1 {
		return fmt.Sprintf("column %d outside 1..%d on %s:%d", p.Column, len(lineText)+1, p.Filename, p.Line)
	}
	if p.Line != l || p.Column != c {
		return fmt.Sprintf("%s:%d:%d does not correspond to offset %d (text says %d:%d)", p.Filename, p.Line, p.Column, p.Offset, l, c)
	}
	return ""
}

func fmtTrace(st ugo.StackTrace) []string {
	out := make([]string, len(st))
	for i, p := range st {
		out[i] = fmt.Sprintf("%s:%d:%d@%d", p.Filename, p.Line, p.Column, p.Offset)
	}
	return out
}

func fmtExp(exp []expFrame, k int) string {
	var sb strings.Builder
	for i, e := range exp {
		if i > 0 {
			sb.WriteString(" ")
		}
		sh := 0
		if e.File == mainName {
			sh = k
		}
		if e.Lo == e.Hi {
			fmt.Fprintf(&sb, "%s:%d", e.File, e.Lo+sh)
		} else {
			fmt.Fprintf(&sb, "%s:%d..%d", e.File, e.Lo+sh, e.Hi+sh)
		}
		if e.CB {
			sb.WriteString("(CALL)")
		}
	}
	return sb.String()
}

type verdict int

const (
	vOK verdict = iota
	vOutside
	vWrongFile
	vWrongLines
	vCallbackLineMissing // exactly the CALL(...) statement lines are missing
)

// judge compares a trace with the expectation shifted by k.
func judge(st ugo.StackTrace, exp []expFrame, k int, files map[string]string) (verdict, string) {
	for _, p := range st {
		if msg := checkInside(p, files, false); msg != "" {
			return vOutside, msg
		}
	}
	match := func(exp []expFrame) (verdict, string) {
		if len(st) != len(exp) {
			return vWrongLines, fmt.Sprintf("trace has %d entries, expected %d", len(st), len(exp))
		}
		for i, e := range exp {
			sh := 0
			if e.File == mainName {
				sh = k
			}
			if st[i].Line < e.Lo+sh || st[i].Line > e.Hi+sh {
				return vWrongLines, fmt.Sprintf("entry %d is %s:%d", i, st[i].Filename, st[i].Line)
			}
		}
		for i, e := range exp {
			if st[i].Filename != e.File {
				return vWrongFile, fmt.Sprintf("entry %d names file %q, expected %q", i, st[i].Filename, e.File)
			}
		}
		return vOK, ""
	}
	v, msg := match(exp)
	if v == vOK {
		return v, ""
	}
	var sans []expFrame
	for _, e := range exp {
		if !e.CB {
			sans = append(sans, e)
		}
	}
	if len(sans) != len(exp) {
		if v2, _ := match(sans); v2 == vOK {
			return vCallbackLineMissing, "the line of the CALL(...) statement of a function that is still active is not listed"
		}
	}
	return v, msg
}

func lineKey(st ugo.StackTrace, k int) string {
	var sb strings.Builder
	for _, p := range st {
		l := p.Line
		if p.Filename == mainName {
			l -= k
		}
		fmt.Fprintf(&sb, "%s:%d ", p.Filename, l)
	}
	return sb.String()
}

func variantName(noopt, rt bool, k int) string {
	s := "opt"
	if noopt {
		s = "noopt"
	}
	if rt {
		s += "+roundtrip"
	}
	if k != 0 {
		s += "+shift"
	}
	return s
}

type failer interface {
	Fatalf(format string, args ...any)
	Errorf(format string, args ...any)
}

// checkScenario runs all variants of one scenario. fatal: use Fatalf (rapid) or Errorf (enumeration).
func checkScenario(f failer, rec *ev.Rec, sc *scen, fatal bool) {
	type key struct {
		noopt, rt bool
		k         int
	}
	res := map[key]runResult{}
	verd := map[key]verdict{}
	msgs := map[key]string{}
	var order []key
	for _, k := range ks {
		for _, noopt := range []bool{false, true} {
			for _, rt := range []bool{false, true} {
				order = append(order, key{noopt, rt, k})
			}
		}
	}
	report := func(sig, what string, c replayCase) bool {
		if rec.Violation(sig, what, c) {
			return false
		}
		if fatal {
			f.Fatalf("%s", what)
		} else {
			f.Errorf("%s", what)
		}
		return true
	}
	type ckey struct {
		noopt bool
		k     int
	}
	type compiled struct {
		bc    *ugo.Bytecode
		mm    *ugo.ModuleMap
		infra string
	}
	cache := map[ckey]compiled{}
	for _, kk := range order {
		// one compilation per (k, optimizer flag), run directly and after the round trip
		c, ok := cache[ckey{kk.noopt, kk.k}]
		if !ok {
			bc, mm, err, pan := compile(strings.Repeat("\n", kk.k)+sc.Main, sc.Mod, sc.HasMod, kk.noopt)
			c = compiled{bc: bc, mm: mm}
			if pan != "" {
				c.infra = "compile panic: " + pan
			} else if err != nil {
				c.infra = "compile: " + err.Error()
			}
			cache[ckey{kk.noopt, kk.k}] = c
		}
		var r runResult
		switch {
		case c.infra != "":
			r.infra = c.infra
		case kk.rt:
			if bc, err := roundTrip(c.bc, c.mm); err != nil {
				r.infra = "roundtrip: " + err.Error()
			} else {
				r = execute(bc, sc.Callback)
			}
		default:
			r = execute(c.bc, sc.Callback)
		}
		rec.Case()
		switch {
		case r.timedOut:
			rec.Inconcl("vm-watchdog")
			return
		case r.infra != "":
			f.Fatalf("HARNESS: generated script failed before running (%s): %s\n--- main ---\n%s\n--- m ---\n%s", variantName(kk.noopt, kk.rt, kk.k), r.infra, sc.Main, sc.Mod)
		case r.panicked != "":
			rec.Exclude("go-panic-escaped(C05)")
			return
		case r.noErr:
			f.Fatalf("HARNESS: generated script did not fail (%s)\n--- main ---\n%s\n--- m ---\n%s", variantName(kk.noopt, kk.rt, kk.k), sc.Main, sc.Mod)
		case r.trace == nil:
			f.Fatalf("HARNESS: error is not a *RuntimeError: %T %v\n--- main ---\n%s", r.err, r.err, sc.Main)
		}
		res[kk] = r
		files := map[string]string{mainName: strings.Repeat("\n", kk.k) + sc.Main}
		if sc.HasMod {
			files[modName] = sc.Mod
		}
		verd[kk], msgs[kk] = judge(r.trace, sc.Exp, kk.k, files)
	}
	mk := func(kk key) replayCase {
		return replayCase{Kind: "trace", Main: sc.Main, Mod: sc.Mod, HasMod: sc.HasMod, K: kk.k, NoOpt: kk.noopt, RT: kk.rt,
			Callback: sc.Callback, Fail: sc.Fail, Expected: sc.Exp, Got: fmtTrace(res[kk].trace)}
	}
	describe := func(kk key, head string) string {
		return fmt.Sprintf("%s [%s, k=%d]: %s\nexpected (outermost first): %s\ngot: %v\nerror: %v\n--- main (before prepending k=%d blank lines) ---\n%s\n--- module m ---\n%s",
			head, variantName(kk.noopt, kk.rt, kk.k), kk.k, msgs[kk], fmtExp(sc.Exp, kk.k), fmtTrace(res[kk].trace), res[kk].err, kk.k, numbered(sc.Main), numbered(sc.Mod))
	}
	base := key{false, false, 0}
	for _, kk := range order {
		v := verd[kk]
		if v == vOK {
			continue
		}
		var sig, head string
		switch {
		case v == vOutside:
			sig, head = "trace:position-outside-file", "a reported position does not lie inside the text of the file it names"
		case v == vWrongFile:
			sig, head = "trace:wrong-file", "a trace entry names the wrong file"
		case v == vCallbackLineMissing:
			sig, head = "trace:callback-caller-line-missing", "stack trace skips the function that called a Go callback which invoked a script function"
		case kk != base && verd[base] == vOK && kk.k != 0 && verd[key{kk.noopt, kk.rt, 0}] == vOK:
			sig, head = "trace:shift-by-k", "prepending k blank lines does not move every main-file line by exactly k"
		case kk != base && verd[base] == vOK && kk.rt && verd[key{kk.noopt, false, kk.k}] == vOK:
			sig, head = "trace:roundtrip-differs", "trace lines differ after an encode/decode round trip"
		case kk != base && verd[base] == vOK && kk.noopt != base.noopt:
			sig, head = "trace:optimizer-differs", "trace lines differ between optimizer on and off"
		case sc.Tries > 0:
			sig, head = "trace:wrong-lines-after-completed-try", "stack trace is wrong when a try statement completed earlier in a function that is still active"
		default:
			sig, head = "trace:wrong-lines:"+sc.Fail+":"+variantName(kk.noopt, kk.rt, kk.k), "stack trace does not list the lines of the active call statements and of the failing statement"
		}
		if report(sig, describe(kk, head), mk(kk)) {
			return
		}
	}
	// multi-line call statements have a line range: the reported lines must still agree between variants
	want := lineKey(res[base].trace, 0)
	for _, kk := range order {
		if verd[kk] != vOK || verd[base] != vOK {
			continue
		}
		if got := lineKey(res[kk].trace, kk.k); got != want {
			sig := "trace:optimizer-differs"
			if kk.k != 0 && lineKey(res[key{kk.noopt, kk.rt, 0}].trace, 0) == want {
				sig = "trace:shift-by-k"
			} else if kk.rt && lineKey(res[key{kk.noopt, false, kk.k}].trace, kk.k) == want {
				sig = "trace:roundtrip-differs"
			}
			msgs[kk] = fmt.Sprintf("lines (k removed) %q vs %q in the base variant", got, want)
			if report(sig, describe(kk, "the reported lines differ between variants"), mk(kk)) {
				return
			}
		}
	}
}

func numbered(s string) string {
	if s == "" {
		return "(none)"
	}
	var sb strings.Builder
	for i, l := range strings.Split(s, "\n") {
		fmt.Fprintf(&sb, "%3d| %s\n", i+1, l)
	}
	return sb.String()
}

func classify(rec *ev.Rec, sc *scen) {
	rec.Class(fmt.Sprintf("depth:%02d", sc.Depth))
	for _, f := range sc.Forms[:len(sc.Forms)-1] {
		parts := strings.Split(f, "/")
		rec.Class("call:" + parts[0])
		for _, w := range parts[1:] {
			rec.Class("wrapped-in:" + w)
		}
	}
	last := strings.Split(sc.Forms[len(sc.Forms)-1], "/")
	for _, w := range last[1:] {
		rec.Class("wrapped-in:" + w)
	}
	rec.Class("fail:" + sc.Fail)
	if sc.ImportChain {
		rec.Class("fails-during-import")
		if sc.Exp[len(sc.Exp)-1] == (expFrame{File: modName, Lo: 1, Hi: 1}) {
			rec.Class("fails-at-first-byte-of-module")
		}
	}
	if sc.HasMod {
		rec.Class("with-module")
		rec.Class(fmt.Sprintf("file-crossings:%d", min(sc.CrossMod, 4)))
		if sc.Exp[len(sc.Exp)-1].File == modName {
			rec.Class("fails-in-module")
		}
	}
	if !strings.HasSuffix(sc.Main, "\n") {
		rec.Class("main-no-trailing-newline")
	}
	if sc.Exp[0].Hi == numLines(sc.Main) {
		rec.Class("main-call-on-last-line")
	}
	if sc.Depth >= 1 {
		rec.NonTriv(sc.Main + "\x00" + sc.Mod)
		rec.Class("nontrivial")
	}
	rec.Sample(map[string]any{"main": sc.Main, "mod": sc.Mod, "expected": fmtExp(sc.Exp, 0), "fail": sc.Fail})
}

// ---------------------------------------------------------------------------
// hand-made scripts: the expectation model, fixed by hand

func handMade() []*scen {
	m := func(lines ...int) []expFrame {
		var e []expFrame
		for _, l := range lines {
			e = append(e, expFrame{File: mainName, Lo: l, Hi: l})
		}
		return e
	}
	return []*scen{
		{Fail: "hand:throw", Depth: 2, Forms: []string{"stmt", "stmt", "x"},
			Main: "f1 := func(a) {\n  x := 1\n  throw \"boom\"\n}\nf0 := func(a) {\n  // c\n\n  s := `a\nb\nc`\n  f1(a)\n  return 1\n}\nz := 1\nf0(z)\nreturn 0\n",
			Exp:  m(15, 11, 3)},
		{Fail: "hand:div-zero", Depth: 4, Forms: []string{"ret-plus", "closure-var", "cond", "ret-bare", "x"},
			Main: "zero := 0\nf3 := func(a) {\n  return (1+2) / zero\n}\nf2 := func(a) {\n  return f3(a)\n}\nf1 := func(a) {\n  if f2(a) == 0 { }\n  return 2\n}\nf0 := func(a) {\n  g := f1\n  y := g(a) + 1\n  return y\n}\nreturn f0(1) + 1",
			Exp:  m(17, 14, 9, 6, 3)},
		{Fail: "hand:bad-operand-in-module", Depth: 3, HasMod: true, Forms: []string{"stmt", "stmt", "assign", "x"},
			Main: "m := import(\"m\")\nf0 := func(a) {\n  m.f(a)\n}\nf0(1)\n",
			Mod:  "\n\nh := func(a) {\n  s := \"a\"\n  return s - (1+2)\n}\nreturn {f: func(a) {\n  x := h(a)\n  return x\n}}\n",
			Exp:  []expFrame{{mainName, 5, 5, false}, {mainName, 3, 3, false}, {modName, 8, 8, false}, {modName, 5, 5, false}}},
		{Fail: "hand:argc", Depth: 1, Forms: []string{"stmt", "x"},
			Main: "h := func(a) { return a }\nf0 := func(a) {\n  x := 1\n  h()\n  return 1\n}\n\nf0(1)\n",
			Exp:  m(8, 4)},
		{Fail: "hand:builtin", Depth: 1, Forms: []string{"stmt", "x"},
			Main: "f0 := func(a) {\n  x := []\n  y := int(x)\n  return 1\n}\n/* c\n c */\nf0(1)\n",
			Exp:  m(8, 3)},
		{Fail: "hand:index-try-finally", Depth: 2, Forms: []string{"stmt", "stmt", "x"},
			Main: "f1 := func(a) {\n  r := [1]\n  i := 5\n  try {\n    return r[i]\n  } finally {\n    i = 0\n  }\n}\nf0 := func(a) {\n  try {\n    f1(a)\n  } finally {\n    a = 2\n  }\n}\nif true {\n  f0(1)\n}\n",
			Exp:  m(18, 12, 5)},
		{Fail: "hand:depth0", Depth: 0, Forms: []string{"x"},
			Main: "x := 1\nthrow TypeError.New(\"t\")",
			Exp:  m(2)},
		{Fail: "hand:callback", Depth: 2, Callback: true, Forms: []string{"stmt", "callback", "x"},
			Main: "global CALL\nf1 := func(a) {\n  throw \"x\"\n}\nf0 := func(a) {\n  x := 1\n  y := CALL(f1, a)\n  return 1\n}\n\nf0(1)\n",
			Exp:  []expFrame{{mainName, 11, 11, false}, {mainName, 7, 7, true}, {mainName, 3, 3, false}}},
		{Fail: "hand:stdlib-callback", Depth: 2, Callback: true, Forms: []string{"stmt", "callback-stdlib", "x"},
			Main: "strings := import(\"strings\")\nf0 := func(s) {\n  x := 1\n  return strings.IndexFunc(s, func(c) {\n    throw \"boom\"\n  })\n}\nf0(\"abc\")\n",
			Exp:  []expFrame{{mainName, 8, 8, false}, {mainName, 4, 6, true}, {mainName, 5, 5, false}}},
		{Fail: "hand:fails-during-import", Depth: 1, HasMod: true, ImportChain: true, Forms: []string{"import", "stmt", "x"},
			Main: "x := 1\nf := func() {\n  y := 2\n  m := import(\"m\")\n  return m\n}\nf()\nreturn 1",
			Mod:  "g := func() {\n  throw \"top\"\n}\ng()\nreturn 1",
			Exp:  []expFrame{{mainName, 7, 7, false}, {mainName, 4, 4, false}, {modName, 4, 4, false}, {modName, 2, 2, false}}},
	}
}

// ---------------------------------------------------------------------------
// compile errors of deliberately broken variants

func errPositions(err error) (ps []parser.SourceFilePos, unknown string) {
	switch e := err.(type) {
	case parser.ErrorList:
		for _, x := range e {
			ps = append(ps, x.Pos)
		}
	case *parser.Error:
		ps = append(ps, e.Pos)
	case *ugo.CompilerError:
		if e.Node == nil || e.FileSet == nil {
			return nil, "CompilerError-without-node"
		}
		ps = append(ps, e.FileSet.Position(e.Node.Pos()))
	case *ugo.OptimizerError:
		ps = append(ps, e.FilePos)
	case interface{ Errors() []error }:
		for _, x := range e.Errors() {
			p, u := errPositions(x)
			ps = append(ps, p...)
			if u != "" {
				unknown = u
			}
		}
	default:
		return nil, fmt.Sprintf("%T", err)
	}
	return
}

var breakers = []string{"delete-punct", "insert-open", "insert-close", "truncate", "illegal-char", "open-string", "open-raw", "open-comment", "delete-line-end", "insert-keyword"}

// breakText damages one place of text.
func breakText(rt *rapid.T, text string) (string, string) {
	k := rapid.IntRange(0, len(breakers)-1).Draw(rt, "breaker")
	lines := strings.Split(text, "\n")
	li := rapid.IntRange(0, len(lines)-1).Draw(rt, "line")
	ins := func(s string) string {
		at := rapid.IntRange(0, len(lines[li])).Draw(rt, "col")
		lines[li] = lines[li][:at] + s + lines[li][at:]
		return strings.Join(lines, "\n")
	}
	switch breakers[k] {
	case "delete-punct":
		var idx []int
		for i := 0; i < len(lines[li]); i++ {
			if strings.IndexByte("(){}[]:=,\"`.+", lines[li][i]) >= 0 {
				idx = append(idx, i)
			}
		}
		if len(idx) == 0 {
			return ins(")"), "insert-close"
		}
		at := idx[rapid.IntRange(0, len(idx)-1).Draw(rt, "punct")]
		lines[li] = lines[li][:at] + lines[li][at+1:]
		return strings.Join(lines, "\n"), breakers[k]
	case "insert-open":
		return ins([]string{"{", "(", "["}[rapid.IntRange(0, 2).Draw(rt, "which")]), breakers[k]
	case "insert-close":
		return ins([]string{"}", ")", "]"}[rapid.IntRange(0, 2).Draw(rt, "which")]), breakers[k]
	case "truncate":
		at := rapid.IntRange(0, len(text)).Draw(rt, "at")
		return text[:at], breakers[k]
	case "illegal-char":
		return ins([]string{"@", "#", "\\", "$", "\x00", "\xff"}[rapid.IntRange(0, 5).Draw(rt, "which")]), breakers[k]
	case "open-string":
		return ins(`"`), breakers[k]
	case "open-raw":
		return ins("`"), breakers[k]
	case "open-comment":
		return ins("/*"), breakers[k]
	case "delete-line-end":
		if li+1 < len(lines) {
			lines[li] += " " + lines[li+1]
			lines = append(lines[:li+1], lines[li+2:]...)
		}
		return strings.Join(lines, "\n"), breakers[k]
	case "insert-keyword":
		return ins([]string{" func ", " return ", " := ", " else ", " catch ", " import ", " break ", " param x "}[rapid.IntRange(0, 7).Draw(rt, "which")]), breakers[k]
	}
	return text, "none"
}

func checkBroken(f failer, rec *ev.Rec, c replayCase, how string, fatal bool) {
	src := strings.Repeat("\n", c.K) + c.Main
	rec.Case()
	_, _, err, pan := compile(src, c.Mod, c.HasMod, c.NoOpt)
	if pan != "" {
		rec.Exclude("compile-panic(C05)")
		return
	}
	if err == nil {
		rec.Class("broken:still-compiles")
		return
	}
	ps, unknown := errPositions(err)
	if unknown != "" {
		rec.Exclude("compile-error-type:" + unknown)
	}
	files := map[string]string{mainName: src}
	if c.HasMod {
		files[modName] = c.Mod
	}
	rec.Class(fmt.Sprintf("broken:error:%s", strings.TrimPrefix(fmt.Sprintf("%T", err), "*")))
	if how != "" {
		rec.Class("broken-by:" + how)
	}
	for _, p := range ps {
		if p.Offset == len(files[p.Filename]) {
			rec.Class("broken:position-at-EOF")
		}
		if msg := checkInside(p, files, true); msg != "" {
			what := fmt.Sprintf("compile error position outside the file: %s\nerror: %v\n--- main ---\n%s\n--- module m ---\n%s", msg, err, numbered(src), numbered(c.Mod))
			if rec.Violation("compile-error-position-outside-file", what, c) {
				return
			}
			if fatal {
				f.Fatalf("%s", what)
			}
			f.Errorf("%s", what)
			return
		}
	}
	if len(ps) > 0 {
		rec.NonTriv("broken\x00" + src + "\x00" + c.Mod)
	}
}

// ---------------------------------------------------------------------------

func TestCheck(t *testing.T) {
	rec := ev.New("C16")
	rec.Rule = "own line-by-line script generator: chain of DISTINCT functions f0..fN (depth 0..13), each in the main file or in source module m (module->main calls through a registry map, main->module via m.f; or the module body itself is part of the chain and fails while being imported, down to a failing first byte of the module file), one statement per line, random non-failing filler (comments, blank/whitespace lines, multi-line raw strings and block comments, if/for blocks, caught errors), the call of the next function in one of 20 forms (+ Go callbacks that invoke a script function through ugo.Invoker - an embedder function CALL(f,a) and stdlib strings.IndexFunc - in a separate property; + completed try/catch and try/finally statements among the filler in a third one), optionally wrapped in taken if/else/for/for-in/try-finally blocks; innermost statement fails in one of 16 ways; x optimizer on/off x encode/decode x k in {0,1,7,100} blank lines prepended to main. Expected trace = the lines recorded while building the text (multi-line call statements: line range). Also broken variants (one damaged place) whose compile error positions must lie inside the file. Non-trivial = depth >= 1 (broken variants: an error with a position); distinct by script text"
	rec.Assumptions = []string{
		"only line numbers and file names are compared with the expectation; columns/offsets only for consistency with the file text (1<=line<=lines, 1<=col<=len(line)+1, offset<size, line/col re-derived from offset)",
		"functions are distinct and there is one statement per line (equal consecutive positions are de-duplicated by design; the saved position of a caller is that of the instruction after the call); for call statements spanning lines any line of the statement is accepted",
		"parse errors at end of input may report the position just behind the last byte, either as (last line, len+2) after a trailing newline or as (next line, 1)",
		"a Go panic escaping from a run belongs to C05 and is excluded",
	}
	defer func() { rec.Flush(!t.Failed() || rec.HasUnknown()) }()
	// every run allocates a fresh VM (~100 KiB) while the live heap is tiny: collect less often
	defer debug.SetGCPercent(debug.SetGCPercent(2000))

	runReplays(t, rec)
	if ev.ReplayOnly() {
		return
	}

	// hand-made scripts (shard 0 only would hide them from other shards' evidence; they are cheap)
	for _, sc := range handMade() {
		checkScenario(t, rec, sc, false)
		rec.Class("hand-made")
	}
	rec.Unfreeze()

	ev.RapidCheck(t, "chains", ev.N(2500, 30000), 1, func(rt *rapid.T) {
		sc := generate(rt, false, false)
		checkScenario(rt, rec, sc, true)
		classify(rec, sc)
	})
	rec.Unfreeze()
	ev.RapidCheck(t, "chains-callback", ev.N(400, 6000), 2, func(rt *rapid.T) {
		sc := generate(rt, true, false)
		checkScenario(rt, rec, sc, true)
		classify(rec, sc)
		rec.Class("callback-property")
	})
	rec.Unfreeze()
	ev.RapidCheck(t, "chains-after-try", ev.N(400, 6000), 4, func(rt *rapid.T) {
		sc := generate(rt, false, true)
		checkScenario(rt, rec, sc, true)
		classify(rec, sc)
		rec.Class("after-try-property")
	})
	rec.Unfreeze()
	ev.RapidCheck(t, "recursive", ev.N(600, 9000), 5, func(rt *rapid.T) {
		sc := generateRecursive(rt, rapid.Bool().Draw(rt, "allow-try"))
		checkScenario(rt, rec, sc, true)
		classify(rec, sc)
		rec.Class("recursive-property")
		rec.Class(fmt.Sprintf("recursive:cycle=%d", sc.RecCycle))
		if sc.RecTwoSites {
			rec.Class("recursive:two-call-sites-by-parity")
		}
		if sc.RecRounds >= 3 && (sc.RecCycle >= 2 || sc.RecTwoSites) {
			rec.Class("recursive:same-call-statement-active-again-non-adjacent")
		}
		if sc.RecRounds >= 2 && sc.RecCycle == 1 && !sc.RecTwoSites {
			rec.Class("recursive:single-site(adjacent-equal-positions-collapse)")
		}
	})
	rec.Unfreeze()
	ev.RapidCheck(t, "broken", ev.N(4000, 40000), 3, func(rt *rapid.T) {
		sc := generate(rt, false, true)
		c := replayCase{Kind: "compile", Main: sc.Main, Mod: sc.Mod, HasMod: sc.HasMod,
			K: ks[rapid.IntRange(0, len(ks)-1).Draw(rt, "k")], NoOpt: rapid.Bool().Draw(rt, "noopt")}
		var how string
		if sc.HasMod && rapid.Bool().Draw(rt, "break-module") {
			c.Mod, how = breakText(rt, sc.Mod)
			how += "(module)"
		} else {
			c.Main, how = breakText(rt, sc.Main)
		}
		checkBroken(rt, rec, c, how, true)
	})
}

func runReplays(t *testing.T, rec *ev.Rec) {
	for _, rf := range rec.Replays() {
		var c replayCase
		if err := json.Unmarshal(rf.Case, &c); err != nil {
			fmt.Fprintln(os.Stderr, "bad replay", rf.Path, err)
			continue
		}
		if c.Kind == "compile" {
			before := t.Failed()
			checkBroken(t, rec, c, "", false)
			if !t.Failed() || before {
				rec.Class("replay-pass")
			}
			continue
		}
		rec.Case()
		r := runVariant(c.Main, c.Mod, c.HasMod, c.K, c.NoOpt, c.RT, c.Callback)
		if r.infra != "" || r.noErr || r.trace == nil || r.timedOut || r.panicked != "" {
			t.Errorf("replay %s: cannot run: %+v", rf.Path, r)
			continue
		}
		files := map[string]string{mainName: strings.Repeat("\n", c.K) + c.Main}
		if c.HasMod {
			files[modName] = c.Mod
		}
		if v, msg := judge(r.trace, c.Expected, c.K, files); v != vOK {
			what := fmt.Sprintf("replay %s [%s k=%d]: %s\nexpected: %s\ngot: %v\n--- main ---\n%s\n--- module m ---\n%s", rf.Path,
				variantName(c.NoOpt, c.RT, c.K), c.K, msg, fmtExp(c.Expected, c.K), fmtTrace(r.trace), numbered(c.Main), numbered(c.Mod))
			c.Got = fmtTrace(r.trace)
			if !rec.Violation(rf.Sig, what, c) {
				t.Errorf("%s", what)
			}
		} else {
			rec.Class("replay-pass")
		}
	}
}
