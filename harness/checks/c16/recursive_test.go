package c16

import (
	"fmt"

	"pgregory.net/rapid"
)

// recCall writes a NON-tail call statement of the next function of the cycle, one recursion level down.
func (g *gen) recCall(b *fileB, ind int, next string, form *string) []expFrame {
	forms := []string{"assign", "stmt", "ret-plus", "array-elt", "ml-args", "closure-var", "compound", "cond"}
	k := g.pick("rec-callform", len(forms))
	*form = forms[k]
	one := func(l int) []expFrame { return []expFrame{{File: b.name, Lo: l, Hi: l}} }
	c := next + "(a, n - 1)"
	switch forms[k] {
	case "assign":
		return one(b.add(ind, g.id("y")+" := "+c))
	case "stmt":
		return one(b.add(ind, c))
	case "ret-plus":
		return one(b.add(ind, "return "+c+" + "+g.fold()))
	case "array-elt":
		return one(b.add(ind, g.id("y")+" := ["+g.fold()+", "+c+"]"))
	case "ml-args":
		l := b.add(ind, next+"(")
		b.add(ind+1, "a,")
		b.add(ind+1, "n - 1,")
		h := b.add(ind, ")")
		return []expFrame{{File: b.name, Lo: l, Hi: h}}
	case "closure-var":
		f := g.id("g")
		b.add(ind, f+" := "+next)
		return one(b.add(ind, g.id("y")+" := "+f+"(a, n - 1)"))
	case "compound":
		acc := g.id("acc")
		b.add(ind, acc+" := 0")
		return one(b.add(ind, acc+" += "+c))
	case "cond":
		return one(b.add(ind, "if "+c+" == "+g.fold()+" { }"))
	}
	panic("unreachable")
}

// generateRecursive draws a scenario in which the SAME call statements are active several times:
// a cycle of 1..3 functions r0 -> r1 -> .. -> r0 recursing n levels (non-tail calls), each function
// optionally with two call sites chosen by the parity of n; the function reached with n == 0 fails.
// The expected trace is obtained by walking the recursion: one entry per active call statement,
// equal CONSECUTIVE entries collapsed (the VM records a position equal to the previous one once).
func generateRecursive(rt *rapid.T, allowTry bool) *scen {
	g := &gen{rt: rt, allowTry: allowTry}
	sc := &scen{}
	defer func() { sc.Tries = g.tries }()
	cyc := 1 + g.pick("cycle", 3)
	twoSites := g.pick("two-sites", 2) == 1
	rounds := g.pick("rounds", 13)
	useMod := g.pick("use-module", 3) == 0
	sc.HasMod = useMod
	mainB := &fileB{name: mainName}
	modB := &fileB{name: modName}
	b := mainB
	if useMod {
		b = modB
		sc.CrossMod = 1
	}
	g.consts = map[string]bool{}
	if g.pick("main-consts", 2) == 1 {
		g.consts[mainName] = true
		mainB.add(0, "const KI = 10")
		mainB.add(0, `const KS = "k"`)
	}
	g.curFile = mainName
	mainB.add(0, "a := 1")
	g.filler(mainB, 0, 2)
	if useMod {
		mainB.add(0, `m := import("m")`)
		g.curFile = modName
		if g.pick("mod-consts", 2) == 1 {
			g.consts[modName] = true
			modB.add(0, "const (KI = 10; KS = \"k\")")
		}
		modB.add(0, "a := 1")
	}
	g.curFile = b.name
	for i := 0; i < cyc; i++ {
		b.add(0, fmt.Sprintf("var r%d", i))
	}
	sites := make([][2][]expFrame, cyc)
	fails := make([][]expFrame, cyc)
	kinds := make([]string, cyc)
	forms := make([][2]string, cyc)
	for i := 0; i < cyc; i++ {
		g.filler(b, 0, 2)
		b.add(0, fmt.Sprintf("r%d = func(a, n) {", i))
		g.filler(b, 1, 2)
		b.add(1, "if n <= 0 {")
		fails[i] = g.emitFail(b, 2, &kinds[i])
		b.add(1, "}")
		g.filler(b, 1, 2)
		next := fmt.Sprintf("r%d", (i+1)%cyc)
		if twoSites {
			b.add(1, "if n % 2 == 0 {")
			sites[i][0] = g.recCall(b, 2, next, &forms[i][0])
			b.add(1, "} else {")
			g.filler(b, 2, 1)
			sites[i][1] = g.recCall(b, 2, next, &forms[i][1])
			b.add(1, "}")
		} else {
			var tag string
			s := g.wrap(b, 1, 1, &tag, func(ind int) []expFrame { return g.recCall(b, ind, next, &forms[i][0]) })
			forms[i][0] += tag
			forms[i][1] = forms[i][0]
			sites[i][0], sites[i][1] = s, s
		}
		g.filler(b, 1, 2)
		b.add(1, "return a")
		b.add(0, "}")
	}
	if useMod {
		g.filler(modB, 0, 2)
		modB.add(0, "return {r0: r0}")
	}
	g.curFile = mainName
	g.filler(mainB, 0, 3)
	callee := "r0"
	if useMod {
		callee = "m.r0"
	}
	l := mainB.add(0, fmt.Sprintf("%s := %s(a, %d)", g.id("res"), callee, rounds))
	if g.pick("main-tail", 3) != 0 {
		g.filler(mainB, 0, 2)
	}
	exp := []expFrame{{File: mainName, Lo: l, Hi: l}}
	sc.Forms = []string{"assign"}
	cur := 0
	for n := rounds; n > 0; n-- {
		exp = append(exp, sites[cur][n%2]...)
		sc.Forms = append(sc.Forms, forms[cur][n%2])
		cur = (cur + 1) % cyc
	}
	exp = append(exp, fails[cur]...)
	sc.Fail = kinds[cur]
	sc.Forms = append(sc.Forms, sc.Fail)
	for _, e := range exp {
		if n := len(sc.Exp); n > 0 && sc.Exp[n-1] == e {
			continue
		}
		sc.Exp = append(sc.Exp, e)
	}
	sc.Depth = rounds + 1
	sc.Main = mainB.text(g.pick("main-trailing-newline", 2) == 0)
	if useMod {
		sc.Mod = modB.text(g.pick("mod-trailing-newline", 2) == 0)
	}
	sc.RecCycle, sc.RecTwoSites, sc.RecRounds = cyc, twoSites, rounds
	return sc
}
