// C08 - many VMs may run one Bytecode concurrently.
// A worker subprocess (race-instrumented binary, GORACE log file) runs N VMs over
// one Bytecode behind a barrier; the parent parses the race detector's reports.
package c08

import (
	"encoding/json"
	"fmt"
	"io"
	"os"
	"os/exec"
	"path/filepath"
	"regexp"
	"runtime"
	"sort"
	"strings"
	"sync"
	"testing"
	"time"

	"github.com/ozanh/ugo"
	ugostrings "github.com/ozanh/ugo/stdlib/strings"
	"pgregory.net/rapid"

	"verif/internal/canon"
	"verif/internal/ev"
	"verif/internal/gen"
	"verif/internal/prog"
	"verif/internal/run"
)

type caseT struct {
	prog.Case
	Goroutines int         `json:"goroutines"`
	Runs       int         `json:"runs"`
	Expected   run.Outcome `json:"expected"`
	Got        run.Outcome `json:"got"`
	Note       string      `json:"note,omitempty"`
}

func bmAttrs() map[string]ugo.Object {
	return map[string]ugo.Object{
		"k":   ugo.Int(1),
		"arr": ugo.Array{ugo.Int(1), ugo.Int(2)},
		"m":   ugo.Map{"x": ugo.Int(1)},
		"f":   &ugo.Function{Name: "f", Value: func(a ...ugo.Object) (ugo.Object, error) { return ugo.Int(len(a)), nil }},
		// compound values at every position of nested containers (first and later elements)
		"nested": ugo.Array{ugo.Map{"hits": ugo.Int(1)}, ugo.Array{ugo.Int(1)}, ugo.Map{"hits": ugo.Int(1)}, ugo.Bytes{1, 2}},
		// sync maps: empty (non-nil), non-empty and nil-valued, also nested
		"reg":    &ugo.SyncMap{Value: ugo.Map{}},
		"regs":   ugo.Array{&ugo.SyncMap{Value: ugo.Map{}}, &ugo.SyncMap{Value: ugo.Map{"n": ugo.Int(1)}}},
		"regnil": &ugo.SyncMap{},
		"emptym": ugo.Map{},
		"emptya": ugo.Array{},
		"deep":   ugo.Map{"list": ugo.Array{ugo.Array{ugo.Int(1), ugo.Array{ugo.Int(1)}}, ugo.Map{"a": ugo.Map{"b": ugo.Int(1)}}}, "by": ugo.Bytes{1}},
	}
}

var bmOriginal = bmAttrs()

func moduleMap(mods map[string]string, bm map[string]ugo.Object) *ugo.ModuleMap {
	mm := prog.ModuleMap(mods, nil)
	mm.AddBuiltinModule("strings", ugostrings.Module)
	mm.AddBuiltinModule("bm", bm)
	return mm
}

// stanza appended to generated programs: imports builtin modules, mutates the builtin
// module value, runs script callbacks on pooled child VMs, formats an error with its trace.
const stanza = `
zbm := import("bm")
zold := [zbm.k, zbm.arr[0], zbm.m.x, zbm.nested[0].hits, zbm.nested[1][0], zbm.nested[2].hits, zbm.nested[3][0], zbm.deep.list[0][0], zbm.deep.list[0][1][0], zbm.deep.list[1].a.b, zbm.deep.by[0]]
zbm.k = zbm.k + ZWHO
zbm.arr[0] = ZWHO
zbm.m.x = ZWHO
zbm.extra = ZWHO
zbm.nested[0].hits = ZWHO
zbm.nested[1][0] = ZWHO
zbm.nested[2].hits = ZWHO
zbm.nested[3][0] = 7
zbm.deep.list[0][0] = ZWHO
zbm.deep.list[0][1][0] = ZWHO
zbm.deep.list[1].a.b = ZWHO
zbm.deep.by[0] = 9
zold = append(zold, len(zbm.reg), len(zbm.regs[0]), zbm.regs[1].n, len(zbm.emptym), len(zbm.emptya))
zbm.reg.k = ZWHO
zbm.regs[0].k = ZWHO
zbm.regs[1].n = ZWHO
zbm.emptym.k = ZWHO
zs := import("strings")
zup := zs.Map(func(c) { return c + 1 }, "abc") + string(zs.IndexFunc("xxa", func(c) { return c == 'a' }))
zerr := undefined
try { [1][5] } catch ze { zerr = sprintf("%+v", ze) }
L([zold, zbm.k, zup, zerr])
`

func profiles() []gen.Config {
	a := gen.Config{MaxStmts: 16, MaxDepth: 3, MaxFnDepth: 3, MaxBlock: 3, Closures: true, Calls: true, Try: true, Failing: true, Log: true, Consts: true, Destruct: true, Recursion: true, Params: true}
	b := a
	b.Modules = 2
	return []gen.Config{a, b, b}
}

var harnessFailed bool

type outcomeX struct {
	run.Outcome
	ErrFull string
}

func execOne(bc *ugo.Bytecode, p *prog.P, who int) outcomeX {
	lg := &run.Logger{}
	g := run.Globals(p.Globals, lg)
	g["ZWHO"] = ugo.Int(who)
	vm := ugo.NewVM(bc).SetRecover(true)
	o := run.ExecVM(vm, g, lg, prog.CopyArgs(p.Args), run.Opts{Recover: true, WantLoc: true, Timeout: 20 * time.Second})
	x := outcomeX{Outcome: o}
	return x
}

// normalise: the stanza logs ZWHO-dependent values; strip them for comparison across VMs.
func normalise(o run.Outcome, who int) run.Outcome {
	o.Globals = strings.ReplaceAll(o.Globals, fmt.Sprintf(`"ZWHO":i%d`, who), `"ZWHO":iW`)
	for i, l := range o.Log {
		if strings.HasPrefix(l, "[[i") {
			o.Log[i] = strings.Replace(l, fmt.Sprintf("],i%d,", 1+who), "],iK,", 1)
		}
	}
	return o
}

func worker(t *testing.T, rec *ev.Rec) {
	ugo.PrintWriter = io.Discard
	profs := profiles()
	nprog := ev.N(150, 1200)
	ev.RapidCheck(t, "concurrent-vms", nprog, 1, func(rt *rapid.T) {
		gp := gen.Generate(rt, profs[gen.Uniform(rt, len(profs), "profile")])
		p := prog.Prepare(gp)
		// insert the stanza before the final top-level return (or append)
		src := p.Src
		if i := strings.LastIndex(src, "\nreturn "); i >= 0 && !strings.Contains(src[i+1:], "\n}") {
			src = src[:i] + "\n" + stanza + src[i:]
		} else {
			src = src + "\n" + stanza
		}
		if !strings.Contains(src, "global L") {
			src = "global L\n" + src
		}
		src = strings.Replace(src, "global L", "global (L, ZWHO)", 1)
		if strings.Count(src, "global (L, ZWHO)") != 1 {
			harnessFailed = true
			rt.Fatalf("HARNESS: cannot add the ZWHO global\n%s", src)
		}
		p.Src = src
		G := []int{2, 4, 8, 16}[gen.Uniform(rt, 4, "goroutines")]
		R := 3 + gen.Uniform(rt, 10, "runs")
		bm := bmAttrs()
		bc, err, pan := run.Compile(p.Src, ugo.CompilerOptions{ModuleMap: moduleMap(p.ModSrc, bm)})
		if pan != "" || err != nil {
			if err != nil && strings.Contains(err.Error(), "Optimizer Error") {
				rec.Exclude("optimizer-refused(C01)")
				return
			}
			harnessFailed = true
			rt.Fatalf("HARNESS: does not compile: %v %s\n%s", err, pan, p.Src)
		}
		rec.Case()
		dump0 := canon.Bytecode(bc)
		base := execOne(bc, p, 7)
		if base.TimedOut {
			rec.Inconcl("watchdog-baseline")
			return
		}
		want := normalise(base.Outcome, 7)
		c := caseT{Case: p.Case(), Goroutines: G, Runs: R, Expected: want}
		c.Src = p.Src

		var wg sync.WaitGroup
		start := make(chan struct{})
		type bad struct {
			got  run.Outcome
			diff string
		}
		var mu sync.Mutex
		var bads []bad
		overlap := int32(0)
		var maxOverlap int32
		for g := 0; g < G; g++ {
			wg.Add(1)
			go func(g int) {
				defer wg.Done()
				<-start
				for r := 0; r < R; r++ {
					who := 10 + g*100 + r
					mu.Lock()
					overlap++
					if overlap > maxOverlap {
						maxOverlap = overlap
					}
					mu.Unlock()
					o := execOne(bc, p, who)
					mu.Lock()
					overlap--
					mu.Unlock()
					if o.TimedOut {
						continue
					}
					got := normalise(o.Outcome, who)
					d := got.Diff(want, true)
					if d == "" && strings.Join(got.Trace, "|") != strings.Join(want.Trace, "|") {
						d = fmt.Sprintf("trace %v vs %v", got.Trace, want.Trace)
					}
					if d != "" {
						mu.Lock()
						bads = append(bads, bad{got, d})
						mu.Unlock()
					}
				}
			}(g)
		}
		close(start)
		wg.Wait()
		if len(bads) > 0 {
			c.Got = bads[0].got
			kind := strings.SplitN(bads[0].diff, " ", 2)[0]
			what := fmt.Sprintf("a VM running concurrently with %d others over one Bytecode returned something else than alone: %s\n--- script ---\n%s\nCONCURRENT: %s\nALONE     : %s", G-1, bads[0].diff, p.Src, bads[0].got, want)
			if rec.Violation("concurrent:outcome-differs:"+kind, what, c) {
				return
			}
			rt.Fatalf("%s", what)
		}
		if canon.Bytecode(bc) != dump0 {
			what := "the shared Bytecode was modified by running it\n" + p.Src
			if !rec.Violation("concurrent:bytecode-modified", what, c) {
				rt.Fatalf("%s", what)
			}
		}
		// the ModuleMap's own attribute map must be untouched by the scripts' writes
		if canon.Value(ugo.Map(stripFn(bm))) != canon.Value(ugo.Map(stripFn(bmOriginal))) {
			what := fmt.Sprintf("a script's writes to an imported builtin module changed the ModuleMap's attribute map: %s", canon.Value(ugo.Map(stripFn(bm))))
			if !rec.Violation("concurrent:builtin-module-attrs-modified", what, c) {
				rt.Fatalf("%s", what)
			}
		}
		rec.Class(fmt.Sprintf("goroutines-%d", G))
		f := gp.Features
		for _, k := range []string{"source-module", "funclit", "try", "throw"} {
			if f[k] > 0 {
				rec.Class(k)
			}
		}
		if maxOverlap >= 2 {
			rec.NonTriv(p.Src)
			rec.Class("overlapped")
		}
		rec.Sample(map[string]any{"src": p.Src, "goroutines": G, "runs_each": R, "max_overlap": maxOverlap, "outcome": want.String()})
	})
}

func stripFn(m map[string]ugo.Object) map[string]ugo.Object {
	out := map[string]ugo.Object{}
	for k, v := range m {
		if _, ok := v.(*ugo.Function); ok {
			continue
		}
		out[k] = v
	}
	return out
}

// ----------------------------------------------------------- race reports

var raceFrameRe = regexp.MustCompile(`^\s+(github\.com/ozanh/ugo[^\s(]*)\(`)

type raceReport struct {
	a, b string
	text string
}

func parseRaces(dir string) []raceReport {
	var out []raceReport
	files, _ := filepath.Glob(filepath.Join(dir, "race.*"))
	for _, f := range files {
		data, err := os.ReadFile(f)
		if err != nil {
			continue
		}
		for _, blk := range strings.Split(string(data), "==================") {
			if !strings.Contains(blk, "DATA RACE") {
				continue
			}
			// the two access stacks: sections starting with "Write at"/"Read at"/"Previous write"/"Previous read"
			var tops []string
			secs := regexp.MustCompile(`(?m)^(?:Write|Read|Previous write|Previous read|Atomic).*$`).Split(blk, -1)
			for _, sec := range secs[1:] {
				top := "?"
				for _, line := range strings.Split(sec, "\n") {
					if m := raceFrameRe.FindStringSubmatch(line); m != nil {
						top = strings.TrimPrefix(m[1], "github.com/ozanh/ugo")
						break
					}
					if strings.HasPrefix(line, "Goroutine") {
						break
					}
				}
				tops = append(tops, top)
				if len(tops) == 2 {
					break
				}
			}
			for len(tops) < 2 {
				tops = append(tops, "?")
			}
			sort.Strings(tops)
			out = append(out, raceReport{tops[0], tops[1], blk})
		}
	}
	return out
}

func TestCheck(t *testing.T) {
	rec := ev.New("C08")
	rec.Rule = "generated programs (closures, try, failing operations, source modules) extended with a stanza that imports builtin modules, mutates the builtin module value, runs script callbacks through pooled child VMs (strings.Map/IndexFunc) and formats a caught error with its stack trace; compiled ONCE, then G in {2,4,8,16} goroutines x R runs each on own VMs/globals start behind a barrier. Oracle: every concurrent outcome (value, L-log, globals, error, trace) equals the run-alone outcome; the race detector (worker built with -race) reports nothing; writes to builtin module values stay private to the VM and never reach the ModuleMap; the shared Bytecode's structural dump is unchanged. Non-trivial = >= 2 VMs overlapped on the bytecode; distinct by source"
	rec.Assumptions = []string{
		"the race detector only sees schedules that happen: absence of reports is evidence, not proof",
		"worker subprocess with GORACE=log_path; reports are classified by the pair of innermost ozanh/ugo frames",
	}
	if os.Getenv("C08_WORKER") == "1" {
		// a race report marks the test as failed; the parent reads the reports from the log file
		defer func() { rec.Flush(!harnessFailed) }()
		worker(t, rec)
		return
	}
	defer func() { rec.Flush(!t.Failed() || rec.HasUnknown()) }()

	dir, err := os.MkdirTemp("", "c08race")
	if err != nil {
		t.Fatal(err)
	}
	defer os.RemoveAll(dir)
	procs := []int{0}
	if ev.Tier() == "thorough" {
		procs = []int{2, 4, 0}
	}
	for i, gmp := range procs {
		wout := filepath.Join(dir, fmt.Sprintf("worker%d.json", i))
		cmd := exec.Command(os.Args[0], "-test.run", "^TestCheck$", "-test.timeout", "0")
		cmd.Env = append(os.Environ(), "C08_WORKER=1", "VERIF_OUT="+wout,
			"GORACE=log_path="+filepath.Join(dir, "race")+" halt_on_error=0 exitcode=0 history_size=3",
			fmt.Sprintf("VERIF_SEED=%d", ev.Seed()+int64(i)))
		if gmp > 0 {
			cmd.Env = append(cmd.Env, fmt.Sprintf("GOMAXPROCS=%d", gmp))
		}
		outb, err := cmd.CombinedOutput()
		if aerr := rec.Absorb(wout); aerr != nil {
			// the Go runtime kills the process on unsynchronised map access ("fatal error: concurrent map
			// writes"): that is direct evidence of state shared between VMs, not an infrastructure problem
			if m := regexp.MustCompile(`fatal error: (concurrent map[^\n]*)`).FindStringSubmatch(string(outb)); m != nil {
				rec.Case()
				first := ""
				for _, line := range strings.Split(string(outb), "\n") {
					if mm := raceFrameRe.FindStringSubmatch(line); mm != nil {
						first = strings.TrimPrefix(mm[1], "github.com/ozanh/ugo")
						break
					}
				}
				sig := "concurrent:fatal:" + strings.ReplaceAll(m[1], " ", "-") + ":" + first
				i := strings.Index(string(outb), "fatal error:")
				what := "the Go runtime aborted the process while several VMs ran one Bytecode: " + m[1] + "\n" + string(outb)[i:min(i+2500, len(outb))]
				if !rec.Violation(sig, what, map[string]string{"fatal": m[1], "frame": first}) {
					t.Errorf("%s", sig)
				}
				continue
			}
			t.Errorf("INFRA: worker failed: %v %v\n%s", err, aerr, tail(string(outb), 3000))
			return
		}
		_ = err
	}
	rec.Note("gomaxprocs", runtime.GOMAXPROCS(0))
	races := parseRaces(dir)
	rec.Note("race_reports", len(races))
	seen := map[string]bool{}
	for _, r := range races {
		sig := "race:" + r.a + "<->" + r.b
		known := rec.Violation(sig, "DATA RACE reported by the race detector between "+r.a+" and "+r.b+"\n"+tail(r.text, 2500), map[string]string{"a": r.a, "b": r.b})
		if !known && !seen[sig] {
			seen[sig] = true
			t.Errorf("%s", sig)
		}
	}
	if rec.HasUnknown() && !t.Failed() {
		t.Errorf("worker recorded violations")
	}
	_ = json.Marshal
}

func min(a, b int) int {
	if a < b {
		return a
	}
	return b
}

func tail(s string, n int) string {
	if len(s) > n {
		return s[len(s)-n:]
	}
	return s
}
