// C18 - decoding malformed bytecode returns an error, never a panic, and never
// allocates out of proportion to the input.
package c18

import (
	"encoding/base64"
	"encoding/binary"
	"encoding/json"
	"fmt"
	"os"
	"sort"
	"strconv"
	"strings"
	"sync"
	"testing"
	"time"

	"pgregory.net/rapid"

	"verif/internal/ev"
)

// caseData is the replayable form of one violating input.
type caseData struct {
	Entry    string `json:"Entry"`
	DataB64  string `json:"DataB64"`
	Seed     string `json:"Seed"`
	Mutation string `json:"Mutation"`
}

// mutation describes how an input was derived (formatted only when shown).
type mutation struct {
	Kind string
	A, B int
	S    string
}

func (m mutation) String() string {
	switch m.Kind {
	case "valid":
		return "none (valid encoding)"
	case "trunc":
		return fmt.Sprintf("truncated to %d bytes", m.A)
	case "byte5", "sweep256":
		return fmt.Sprintf("byte %d set to 0x%02x", m.A, m.B)
	case "lenrw":
		return fmt.Sprintf("length field at %d rewritten to %s", m.A, m.S)
	}
	return m.Kind + ": " + m.S
}

var lenValues = []int64{1 << 7, 1 << 15, 1 << 31, 1<<62 - 1, 1<<63 - 1, -1}

func clone(b []byte) []byte { return append(make([]byte, 0, len(b)), b...) }

func splice(d []byte, off, n int, repl []byte) []byte {
	out := make([]byte, 0, len(d)-n+len(repl))
	out = append(out, d[:off]...)
	out = append(out, repl...)
	return append(out, d[off+n:]...)
}

func gobUintBytes(v uint64) []byte {
	if v < 128 {
		return []byte{byte(v)}
	}
	var b [9]byte
	binary.BigEndian.PutUint64(b[1:], v)
	i := 1
	for b[i] == 0 {
		i++
	}
	b[i-1] = byte(-(9 - i))
	return b[i-1:]
}

// rewriteLen replaces a length field by the encoding of v.
func rewriteLen(d []byte, f field, v int64) []byte {
	switch f.Kind {
	case 'l', 'v':
		return splice(d, f.Off, f.Len, vcBytes(v))
	case 'i':
		return splice(d, f.Off, f.Len, intObjBytes(v))
	case 'g':
		return splice(d, f.Off, f.Len, gobUintBytes(uint64(v)))
	}
	return nil
}

func five(b byte) [5]byte { return [5]byte{b + 1, b - 1, b ^ 0x80, 0x00, 0xFF} }

// nonTrivial: the input still carries a valid signature and version (field
// decoding is reached); for DecodeObject a known type tag.
func nonTrivial(entry int, d []byte) bool {
	if entry == entObject || entry == entObjectPlain || entry == entTyped {
		return len(d) >= 1 && (d[0] <= 14 || d[0] == 255)
	}
	return len(d) > 6 && d[0] == 0 && d[1] == 0x75 && d[2] == 0x47 && d[3] == 0x4F && d[4] == 0 && (d[5] == 1 || d[5] == 2)
}

type runner struct {
	t    *testing.T
	rec  *ev.Rec
	pool *pool

	mu      sync.Mutex
	unknown map[string]int
	whats   map[string]string
	nJobs   int64
	byKind  map[string]int

	ch  chan []job
	wg  sync.WaitGroup
	cur []job
}

const batchSize = 256

var outcomeNames = map[int]string{stOK: "ok", stErr: "error", stPanic: "PANIC", stAlloc: "ALLOC", stGobSlop: "gob-read-buffer", stDeath: "DEATH", stInconcl: "inconclusive"}

func (r *runner) handle(j job, o outcome) {
	r.rec.Case()
	r.rec.Class(j.Kind + "|" + entryNames[j.Entry] + "|" + outcomeNames[o.Status])
	r.mu.Lock()
	r.nJobs++
	n := r.nJobs
	r.byKind[j.Kind]++
	r.mu.Unlock()
	if j.Kind != "sweep256" && nonTrivial(j.Entry, j.Data) {
		r.rec.NonTriv(string(j.Data))
	}
	if n%4099 == 1 {
		r.rec.Sample(map[string]string{"entry": entryNames[j.Entry], "seed": j.Seed, "mutation": j.Mut, "input_hex": hexPrefix(j.Data), "outcome": outcomeNames[o.Status]})
	}
	switch o.Status {
	case stInconcl:
		r.rec.Inconcl(o.Sig)
	case stGobSlop:
		r.rec.Exclude("allocation above the bound made inside encoding/gob (its 10 MiB read/slice chunks), not by the decoder")
	case stPanic, stAlloc, stDeath:
		what := o.What + "; seed " + j.Seed + "; mutation: " + j.Mut
		known := r.rec.Violation(o.Sig, what, caseData{Entry: entryNames[j.Entry], DataB64: base64.StdEncoding.EncodeToString(j.Data), Seed: j.Seed, Mutation: j.Mut})
		r.rec.Unfreeze() // nothing is shrunk here: keep counting
		if !known {
			r.mu.Lock()
			r.unknown[o.Sig]++
			if w, ok := r.whats[o.Sig]; !ok || len(what) < len(w) {
				r.whats[o.Sig] = what
			}
			r.mu.Unlock()
		}
	}
}

func (r *runner) start(workers int) {
	r.ch = make(chan []job, workers*2)
	for i := 0; i < workers; i++ {
		r.wg.Add(1)
		go func() {
			defer r.wg.Done()
			for b := range r.ch {
				r.pool.exec(b, r.handle)
			}
		}()
	}
}

func (r *runner) submit(j job) {
	r.cur = append(r.cur, j)
	if len(r.cur) >= batchSize {
		r.ch <- r.cur
		r.cur = nil
	}
}

func (r *runner) drain() {
	if len(r.cur) > 0 {
		r.ch <- r.cur
		r.cur = nil
	}
	close(r.ch)
	r.wg.Wait()
}

// entriesFor: which entry points an input derived from seed s goes through.
func entriesFor(s *seedEnc, kind string) []int {
	if s.IsObj {
		return []int{entObject, entObjectPlain, entTyped}
	}
	if kind == "sweep256" {
		return []int{entDecodeFrom}
	}
	return []int{entDecodeFrom, entUnmarshal}
}

func (r *runner) emit(s *seedEnc, m mutation, d []byte) {
	for _, e := range entriesFor(s, m.Kind) {
		r.submit(job{Entry: e, Data: d, Seed: s.Name, Mut: m.String(), Kind: m.Kind})
	}
}

// cheap: the valid encoding, all truncations, every position x {+1,-1,^0x80,0,0xFF}, all length rewrites.
func (r *runner) cheapMutations(s *seedEnc) {
	d := s.Data
	r.emit(s, mutation{Kind: "valid"}, clone(d))
	for n := 0; n < len(d); n++ {
		r.emit(s, mutation{Kind: "trunc", A: n}, clone(d[:n]))
	}
	for pos, b := range d {
		vs := five(b)
		for i, v := range vs {
			dup := v == b
			for _, w := range vs[:i] {
				dup = dup || w == v
			}
			if dup {
				continue
			}
			c := clone(d)
			c[pos] = v
			r.emit(s, mutation{Kind: "byte5", A: pos, B: int(v)}, c)
		}
	}
	for _, f := range s.Fields {
		if f.Kind == 'v' || f.Kind == 'c' || f.Kind == 't' || f.Kind == 's' {
			continue
		}
		for _, v := range lenValues {
			if f.Kind == 'g' && v < 0 {
				continue
			}
			r.emit(s, mutation{Kind: "lenrw", A: f.Off, S: strconv.FormatInt(v, 10)}, rewriteLen(d, f, v))
		}
	}
}

// sweepPositions: positions that get all 256 values: every byte of a tag /
// size / length / count field; for the version-1-headed twin (same layout,
// already swept as version 2) instead every instruction byte, the opcodes
// being what the v1 converter dispatches on.
func sweepPositions(s *seedEnc, rot int) []int {
	var ps []int
	if s.V1 && s.Fields != nil {
		for _, f := range s.Fields {
			if f.Kind == 'c' {
				for i := f.Off; i < f.Off+f.Len; i++ {
					ps = append(ps, i)
				}
			}
		}
		return ps
	}
	for pos := range s.Data {
		switch {
		case s.IsObj && len(s.Data) <= 64:
			ps = append(ps, pos)
		case s.Fields != nil:
			if s.Struct[pos] {
				ps = append(ps, pos)
			}
		default: // walker could not follow the encoding
			if pos < 64 || (pos-64)%7 == rot%7 {
				ps = append(ps, pos)
			}
		}
	}
	return ps
}

func (r *runner) sweepMutations(s *seedEnc, rot int) int {
	d := s.Data
	ps := sweepPositions(s, rot)
	for _, pos := range ps {
		b := d[pos]
		vs := five(b)
		for v := 0; v < 256; v++ {
			if byte(v) == b || byte(v) == vs[0] || byte(v) == vs[1] || byte(v) == vs[2] || byte(v) == vs[3] || byte(v) == vs[4] {
				continue
			}
			c := clone(d)
			c[pos] = byte(v)
			r.emit(s, mutation{Kind: "sweep256", A: pos, B: v}, c)
		}
	}
	return len(ps)
}

// ---------------------------------------------------------------------------
// sampled multi-mutations

var interesting = []byte{0, 1, 2, 3, 7, 8, 9, 10, 11, 12, 13, 14, 15, 16, 0x7F, 0x80, 0xFE, 0xFF}

func drawByte(rt *rapid.T, label string) byte {
	if rapid.Bool().Draw(rt, label+"-int") {
		return rapid.SampledFrom(interesting).Draw(rt, label)
	}
	return rapid.Byte().Draw(rt, label)
}

func drawPos(rt *rapid.T, s *seedEnc, label string) int {
	if len(s.Fields) > 0 && rapid.Bool().Draw(rt, label+"-struct") {
		f := s.Fields[rapid.IntRange(0, len(s.Fields)-1).Draw(rt, label+"-field")]
		if f.Len > 0 {
			return f.Off + rapid.IntRange(0, f.Len-1).Draw(rt, label+"-in")
		}
	}
	return rapid.IntRange(0, len(s.Data)-1).Draw(rt, label)
}

func lenFields(s *seedEnc) []field {
	var fs []field
	for _, f := range s.Fields {
		if f.Kind == 'l' || f.Kind == 'i' || f.Kind == 'g' || f.Kind == 'v' {
			fs = append(fs, f)
		}
	}
	return fs
}

func drawLen(rt *rapid.T, n int, label string) int64 {
	return rapid.OneOf(
		rapid.SampledFrom([]int64{0, 1, 2, 1 << 7, 1 << 15, 1 << 20, 1 << 24, 1 << 31, 1 << 40, 1<<62 - 1, 1<<63 - 1, -1, -(1 << 63), int64(n), int64(n) + 1, int64(n) - 1}),
		rapid.Int64Range(0, 70000),
		rapid.Int64(),
	).Draw(rt, label)
}

const magicV = "\x00\x75\x47\x4f\x00"

func genSampled(rt *rapid.T, bcs, objs []*seedEnc) job {
	kind := rapid.SampledFrom([]string{"double-byte", "double-byte", "multi-byte", "lenrw2", "lenrw2", "lenrw+byte", "splice", "splice",
		"insert-delete", "arbitrary", "header+arbitrary", "gob-payload", "tag+arbitrary"}).Draw(rt, "kind")
	pool := bcs
	isObj := rapid.IntRange(0, 3).Draw(rt, "obj") == 0
	if isObj {
		pool = objs
	}
	s := pool[rapid.IntRange(0, len(pool)-1).Draw(rt, "seed")]
	d := clone(s.Data)
	desc := ""
	switch kind {
	case "double-byte", "multi-byte":
		n := 2
		if kind == "multi-byte" {
			n = rapid.IntRange(3, 8).Draw(rt, "n")
		}
		for i := 0; i < n && len(d) > 0; i++ {
			p, v := drawPos(rt, s, "pos"), drawByte(rt, "val")
			d[p] = v
			desc += fmt.Sprintf("[%d]=0x%02x ", p, v)
		}
	case "lenrw2", "lenrw+byte":
		lf := lenFields(s)
		if len(lf) == 0 {
			kind = "arbitrary"
			d = rapid.SliceOfN(rapid.Byte(), 0, 64).Draw(rt, "bytes")
			break
		}
		i := rapid.IntRange(0, len(lf)-1).Draw(rt, "f1")
		k := i
		if kind == "lenrw2" {
			k = rapid.IntRange(0, len(lf)-1).Draw(rt, "f2")
		}
		if k < i {
			i, k = k, i
		}
		v1, v2 := drawLen(rt, len(d), "v1"), drawLen(rt, len(d), "v2")
		if k != i { // rewrite the later field first so that offsets stay valid
			d = rewriteLen(d, lf[k], v2)
			desc += fmt.Sprintf("len@%d=%d ", lf[k].Off, v2)
		}
		d = rewriteLen(d, lf[i], v1)
		desc += fmt.Sprintf("len@%d=%d ", lf[i].Off, v1)
		if kind == "lenrw+byte" && len(d) > 0 {
			p, v := rapid.IntRange(0, len(d)-1).Draw(rt, "pos"), drawByte(rt, "val")
			d[p] = v
			desc += fmt.Sprintf("[%d]=0x%02x", p, v)
		}
	case "splice":
		o := pool[rapid.IntRange(0, len(pool)-1).Draw(rt, "other")]
		ca, cb := drawPos(rt, s, "cutA"), drawPos(rt, o, "cutB")
		d = append(clone(s.Data[:ca]), o.Data[cb:]...)
		desc = fmt.Sprintf("%s[:%d] + %s[%d:]", s.Name, ca, o.Name, cb)
	case "insert-delete":
		p := rapid.IntRange(0, len(d)).Draw(rt, "at")
		switch rapid.IntRange(0, 2).Draw(rt, "op") {
		case 0:
			n := rapid.IntRange(0, len(d)-p).Draw(rt, "n")
			if n > 16 {
				n = 16
			}
			d = splice(d, p, n, nil)
			desc = fmt.Sprintf("deleted %d bytes at %d", n, p)
		case 1:
			ins := rapid.SliceOfN(rapid.Byte(), 1, 8).Draw(rt, "ins")
			d = splice(d, p, 0, ins)
			desc = fmt.Sprintf("inserted %x at %d", ins, p)
		default:
			n := rapid.IntRange(0, len(d)-p).Draw(rt, "n")
			if n > 32 {
				n = 32
			}
			d = splice(d, p, 0, d[p:p+n])
			desc = fmt.Sprintf("duplicated %d bytes at %d", n, p)
		}
	case "arbitrary":
		d = rapid.SliceOfN(rapid.Byte(), 0, 64).Draw(rt, "bytes")
	case "header+arbitrary":
		body := rapid.SliceOfN(rapid.OneOf(rapid.ByteRange(0, 15), rapid.Byte(), rapid.SampledFrom(interesting)), 0, 48).Draw(rt, "body")
		d = append([]byte(magicV+string(rune(rapid.IntRange(1, 2).Draw(rt, "ver")))), body...)
		isObj = false
	case "gob-payload":
		var pl []byte
		switch rapid.IntRange(0, 2).Draw(rt, "gobkind") {
		case 0: // a declared message length with little or nothing behind it
			pl = gobUintBytes(uint64(drawLen(rt, 0, "goblen")))
			pl = append(pl, rapid.SliceOfN(rapid.Byte(), 0, 16).Draw(rt, "gobtail")...)
		case 1:
			pl = rapid.SliceOfN(rapid.Byte(), 0, 40).Draw(rt, "gobraw")
		default: // a mutated valid gob payload
			for _, o := range objs {
				if strings.HasPrefix(o.Name, "obj:gob:") && rapid.Bool().Draw(rt, "pick") {
					i := indexByte(o.Data, 255)
					if i >= 0 {
						pl = clone(o.Data[i+1:])
					}
					break
				}
			}
			for i := 0; i < 3 && len(pl) > 0; i++ {
				pl[rapid.IntRange(0, len(pl)-1).Draw(rt, "gp")] = drawByte(rt, "gv")
			}
		}
		gobObj := append([]byte{255}, pl...)
		switch rapid.IntRange(0, 2).Draw(rt, "wrap") {
		case 0:
			d, isObj = gobObj, true
		case 1: // inside an array
			body := append(vcBytes(1), gobObj...)
			d, isObj = append(append([]byte{9}, vcBytes(int64(len(body)))...), body...), true
		default: // as the constants field of a Bytecode
			d, isObj = append([]byte(magicV+"\x02\x02"), gobObj...), false
		}
		desc = fmt.Sprintf("gob payload %x", pl)
	case "tag+arbitrary":
		tag := rapid.SampledFrom([]byte{3, 4, 5, 6, 7, 8, 9, 10, 11, 12, 13, 14, 255}).Draw(rt, "tag")
		body := rapid.SliceOfN(rapid.OneOf(rapid.ByteRange(0, 15), rapid.Byte()), 0, 40).Draw(rt, "body")
		size := int64(len(body))
		if rapid.Bool().Draw(rt, "lie") {
			size = drawLen(rt, len(body), "size")
		}
		d, isObj = append(append([]byte{tag}, vcBytes(size)...), body...), true
		if rapid.Bool().Draw(rt, "infield") {
			d, isObj = append([]byte(magicV+"\x02"+string(rune(rapid.IntRange(0, 3).Draw(rt, "fld")))), d...), false
		}
		desc = fmt.Sprintf("tag %d declared size %d body %x", tag, size, body)
	}
	var entry int
	switch {
	case rapid.IntRange(0, 9).Draw(rt, "anyentry") == 0:
		entry = rapid.IntRange(0, nEntries-1).Draw(rt, "entry")
	case isObj:
		entry = rapid.SampledFrom([]int{entObject, entObject, entObjectPlain, entTyped}).Draw(rt, "entry")
	default:
		entry = rapid.SampledFrom([]int{entDecodeFrom, entDecodeFrom, entUnmarshal, entDecodeFromNil}).Draw(rt, "entry")
	}
	return job{Entry: entry, Data: d, Seed: s.Name, Mut: mutation{Kind: kind, S: desc}.String(), Kind: kind}
}

func indexByte(b []byte, c byte) int {
	for i, x := range b {
		if x == c {
			return i
		}
	}
	return -1
}

// ---------------------------------------------------------------------------

func envInt(name string, def int) int {
	if v, err := strconv.Atoi(os.Getenv(name)); err == nil && v > 0 {
		return v
	}
	return def
}

// fuzzCorpusBytes reads a `go test fuzz v1` corpus file holding one []byte.
func fuzzCorpusBytes(path string) ([]byte, bool) {
	raw, err := os.ReadFile(path)
	if err != nil {
		return nil, false
	}
	lines := strings.Split(strings.TrimSpace(string(raw)), "\n")
	if len(lines) < 2 || !strings.HasPrefix(lines[0], "go test fuzz v1") {
		return nil, false
	}
	l := strings.TrimSpace(lines[1])
	if !strings.HasPrefix(l, "[]byte(") || !strings.HasSuffix(l, ")") {
		return nil, false
	}
	s, err := strconv.Unquote(l[len("[]byte(") : len(l)-1])
	if err != nil {
		return nil, false
	}
	return []byte(s), true
}

// replay runs stored inputs through the worker; reports whether any still violates.
func (r *runner) replay(files []ev.ReplayFile) {
	for _, rf := range files {
		var c caseData
		if json.Unmarshal(rf.Case, &c) != nil {
			r.t.Logf("replay %s: unreadable case", rf.Path)
			continue
		}
		data, err := base64.StdEncoding.DecodeString(c.DataB64)
		e := entryByName(c.Entry)
		if err != nil || e < 0 {
			r.t.Logf("replay %s: bad case (entry %q)", rf.Path, c.Entry)
			continue
		}
		var got outcome
		r.pool.exec([]job{{Entry: e, Data: data, Seed: c.Seed, Mut: c.Mutation, Kind: "replay"}}, func(j job, o outcome) {
			got = o
			r.handle(j, o)
		})
		if got.Status == stPanic || got.Status == stAlloc || got.Status == stDeath {
			r.t.Logf("replay %s: STILL VIOLATES: %s", rf.Path, got.Sig)
		} else {
			r.t.Logf("replay %s: no longer violates (%s)", rf.Path, outcomeNames[got.Status])
		}
	}
}

func TestCheck(t *testing.T) {
	rec := ev.New("C18")
	rec.Rule = "valid encodings (47+ hand-written programs with source and builtin modules, hand-built Bytecodes incl. genuine v1 instruction streams, gob-fallback constants and multi-file file sets; ~160 single objects), each as version 2 and version-1-headed; per encoding EXHAUSTIVELY: every truncation, every position x {+1,-1,^0x80,0x00,0xFF}, every tag/size/length/count field (located by walking the format) rewritten to 2^7, 2^15, 2^31, 2^62-1, 2^63-1, -1, and all 256 values at every byte of a tag/size/length field; then rapid-sampled double/multi-byte corruptions, two lengths rewritten, spliced encodings, insert/delete, arbitrary bytes, header+arbitrary, gob (tag 255) payloads. Oracle per input and entry point (DecodeBytecodeFrom with and without modules, (*Bytecode).UnmarshalBinary, DecodeObject from a bytes.Reader and from a plain io.Reader), run in a worker subprocess under RLIMIT_AS: returns value or error; no panic; bytes allocated during the call <= 64*len+1MiB; no process death. Non-trivial = valid signature+version (known type tag for DecodeObject), distinct by sha1 of the input (256-value sweeps counted in classes only)"
	rec.Assumptions = []string{
		"a returned error is always acceptable; a successfully decoded Bytecode is not required to be valid and is not run",
		"allocation = cumulative heap bytes allocated during the call (runtime/metrics /gc/heap/allocs:bytes, an excess is confirmed on a second run with runtime.MemStats.TotalAlloc)",
		"bytes allocated inside encoding/gob on behalf of the gob fallback (tag 255) are not judged: gob allocates message buffers and slices of a declared length in chunks of up to 10 MiB (internal/saferio) before the data is there; when the bound is exceeded the memory profile decides who allocated, and only bytes allocated outside encoding/gob are held against 64*len+1MiB (such cases are counted under excluded)",
		"a worker death counts only when it reproduces on that input alone in a fresh process and the runtime printed a fatal error (out of memory, stack overflow); anything else is inconclusive",
	}
	defer func() { rec.Flush(!t.Failed() || rec.HasUnknown()) }()

	seeds, err := buildSeeds()
	if err != nil {
		t.Fatalf("HARNESS: %v", err)
	}
	nowalk := []string{}
	for _, s := range seeds {
		if s.Fields == nil {
			nowalk = append(nowalk, s.Name)
		}
	}
	if len(nowalk) > 0 {
		rec.Note("seeds_without_structure_walk", nowalk)
	}

	p := newPool()
	defer p.close()
	r := &runner{t: t, rec: rec, pool: p, unknown: map[string]int{}, whats: map[string]string{}, byKind: map[string]int{}}
	finish := func() {
		p.mu.Lock()
		infra, unrepro, unlimited, restarts := p.infra, p.unrepro, p.unlimited, p.restarts
		p.mu.Unlock()
		rec.Note("worker_starts", restarts)
		if unlimited {
			rec.Note("rlimit_as", "could not be set: workers ran without an address-space limit")
		}
		for _, s := range unrepro {
			rec.Inconcl("death-not-reproduced:" + s)
		}
		sigs := make([]string, 0, len(r.unknown))
		for s := range r.unknown {
			sigs = append(sigs, s)
		}
		sort.Strings(sigs)
		for _, s := range sigs {
			t.Errorf("VIOLATION %s (x%d): %s", s, r.unknown[s], r.whats[s])
		}
		if len(infra) > 0 {
			t.Errorf("infrastructure: %d worker start failures, first: %s", len(infra), infra[0])
		}
	}

	if ev.ReplayOnly() {
		files := rec.Replays()
		if len(files) == 0 {
			if data, ok := fuzzCorpusBytes(os.Getenv("VERIF_REPLAY")); ok {
				for e := 0; e < nEntries; e++ {
					p.exec([]job{{Entry: e, Data: data, Seed: "fuzz-corpus", Mut: os.Getenv("VERIF_REPLAY"), Kind: "replay"}}, func(j job, o outcome) {
						r.handle(j, o)
						t.Logf("replay %s through %s: %s %s", j.Mut, entryNames[j.Entry], outcomeNames[o.Status], o.Sig)
					})
				}
			}
		}
		r.replay(files)
		finish()
		return
	}
	r.replay(rec.Replays()) // committed regression inputs first

	shard, shards := rec.Shard, rec.Shards
	if shards < 1 {
		shards = 1
	}
	workers := envInt("VERIF_C18_WORKERS", 6)
	if shards > 1 {
		workers = envInt("VERIF_C18_WORKERS", 1)
	}
	budget := time.Duration(envInt("VERIF_C18_BUDGET_S", map[string]int{"quick": 26, "thorough": 900}[ev.Tier()])) * time.Second
	start := time.Now()

	// this shard's seeds, rotated by the seed so that a budget cut hits different seeds in different runs
	var mine []*seedEnc
	for i := range seeds {
		if i%shards == shard {
			mine = append(mine, &seeds[i])
		}
	}
	if len(mine) > 0 {
		rot := int(rec.Seed%int64(len(mine))+int64(len(mine))) % len(mine)
		mine = append(mine[rot:], mine[:rot]...)
	}

	r.start(workers)
	for _, s := range mine {
		r.cheapMutations(s)
	}
	swept, sweptPos := 0, 0
	cut := false
	for _, s := range mine {
		if time.Since(start) > budget {
			cut = true
			break
		}
		sweptPos += r.sweepMutations(s, int(rec.Seed))
		swept++
	}
	r.drain()
	rec.Exhaustive = false
	rec.Note("seed_encodings_total", len(seeds))
	rec.Note("seed_encodings_this_shard", len(mine))
	rec.Note("seed_encodings_fully_swept", swept)
	rec.Note("positions_swept_256", sweptPos)
	rec.Note("sweep_cut_by_budget", cut)
	rec.Note("exhaustive_phase_s", time.Since(start).Seconds())
	if cut {
		t.Logf("256-value sweep stopped by the time budget after %d of %d encodings", swept, len(mine))
	}

	// sampled multi-mutations (all seeds, every shard with its own rapid seed)
	var bcs, objs []*seedEnc
	for i := range seeds {
		if seeds[i].IsObj {
			objs = append(objs, &seeds[i])
		} else {
			bcs = append(bcs, &seeds[i])
		}
	}
	ev.RapidCheck(t, "sampled", ev.N(20000, 400000), 1, func(rt *rapid.T) {
		j := genSampled(rt, bcs, objs)
		p.exec([]job{j}, r.handle)
	})
	r.mu.Lock()
	rec.Note("inputs_by_mutation_kind", r.byKind)
	r.mu.Unlock()
	finish()
}

// ---------------------------------------------------------------------------
// native fuzz targets: the same oracle in-process.

func fuzzOracle(t *testing.T, entries []int, data []byte) {
	for _, e := range entries {
		d := clone(data)
		if o := checkOne(e, d); o.Status == stPanic || o.Status == stAlloc {
			t.Fatalf("%s: %s", o.Sig, o.What)
		}
	}
}

func FuzzDecodeBytecode(f *testing.F) {
	seeds, err := buildSeeds()
	if err != nil {
		f.Fatalf("HARNESS: %v", err)
	}
	for _, s := range seeds {
		if !s.IsObj {
			f.Add(s.Data)
		}
	}
	f.Fuzz(func(t *testing.T, data []byte) {
		fuzzOracle(t, []int{entDecodeFrom, entUnmarshal, entDecodeFromNil}, data)
	})
}

func FuzzDecodeObject(f *testing.F) {
	seeds, err := buildSeeds()
	if err != nil {
		f.Fatalf("HARNESS: %v", err)
	}
	for _, s := range seeds {
		if s.IsObj {
			f.Add(s.Data)
		}
	}
	f.Fuzz(func(t *testing.T, data []byte) {
		fuzzOracle(t, []int{entObject, entObjectPlain, entTyped}, data)
	})
}
