package c18

import (
	"encoding/binary"
	"errors"
	"fmt"
)

// field is one structural element of a valid encoding, located by walking the
// version-2 layout (encoder/encoder.go). It is used only to aim mutations:
// every byte of a tag / size / length / count field gets all 256 values, and
// every length field is rewritten to boundary lengths.
type field struct {
	Off, Len int
	// 't' bytecode field id, object type tag or compiled-function field id
	// 's' one-byte size of an Int/Uint/Char/Float payload
	// 'l' varintConv (count byte + varint) holding a length or element count
	// 'v' varintConv holding a plain value (NumParams, line offsets, ...)
	// 'i' whole Int object holding the byte length of the file set
	// 'g' byte count of a gob message
	// 'c' the instruction bytes of a compiled function (opcodes are what the v1 converter dispatches on)
	Kind byte
}

var errWalk = errors.New("walk: malformed")

type walker struct {
	d []byte
	f []field
}

func (w *walker) add(off, n int, k byte) { w.f = append(w.f, field{off, n, k}) }

func (w *walker) vc(pos, end int, kind byte) (int64, int, error) {
	if pos >= end {
		return 0, 0, errWalk
	}
	n := int(w.d[pos])
	if n > binary.MaxVarintLen64 || pos+1+n > end {
		return 0, 0, errWalk
	}
	var v int64
	if n > 0 {
		var k int
		v, k = binary.Varint(w.d[pos+1 : pos+1+n])
		if k != n {
			return 0, 0, errWalk
		}
	}
	w.add(pos, 1+n, kind)
	return v, pos + 1 + n, nil
}

func (w *walker) gobUint(pos, end int) (uint64, int, error) {
	if pos >= end {
		return 0, 0, errWalk
	}
	b := w.d[pos]
	if b < 128 {
		return uint64(b), pos + 1, nil
	}
	n := int(-int8(b))
	if n < 1 || n > 8 || pos+1+n > end {
		return 0, 0, errWalk
	}
	var v uint64
	for _, c := range w.d[pos+1 : pos+1+n] {
		v = v<<8 | uint64(c)
	}
	return v, pos + 1 + n, nil
}

// gob skips one gob-encoded interface value: type-definition messages
// (negative type id) followed by the value message.
func (w *walker) gob(pos, end int) (int, error) {
	for {
		cnt, p, err := w.gobUint(pos, end)
		if err != nil {
			return 0, err
		}
		if cnt == 0 || uint64(end-p) < cnt {
			return 0, errWalk
		}
		w.add(pos, p-pos, 'g')
		u, _, err := w.gobUint(p, p+int(cnt))
		if err != nil {
			return 0, err
		}
		pos = p + int(cnt)
		if u&1 == 0 { // non-negative type id: the value itself
			return pos, nil
		}
	}
}

func (w *walker) object(pos, end int) (int, error) {
	if pos >= end {
		return 0, errWalk
	}
	tag := w.d[pos]
	w.add(pos, 1, 't')
	pos++
	switch {
	case tag <= 2:
		return pos, nil
	case tag <= 6:
		if pos >= end {
			return 0, errWalk
		}
		size := int(w.d[pos])
		w.add(pos, 1, 's')
		if pos+1+size > end {
			return 0, errWalk
		}
		return pos + 1 + size, nil
	case tag <= 14:
		size, p, err := w.vc(pos, end, 'l')
		if err != nil {
			return 0, err
		}
		if size < 0 || int64(end-p) < size {
			return 0, errWalk
		}
		bend := p + int(size)
		switch tag {
		case 9: // array
			if size > 0 {
				if _, p, err = w.vc(p, bend, 'l'); err != nil {
					return 0, err
				}
				for p < bend {
					if p, err = w.object(p, bend); err != nil {
						return 0, err
					}
				}
			}
		case 10, 11: // map, sync map
			for p < bend {
				var kl int64
				if kl, p, err = w.vc(p, bend, 'l'); err != nil {
					return 0, err
				}
				if kl < 0 || int64(bend-p) < kl {
					return 0, errWalk
				}
				if p, err = w.object(p+int(kl), bend); err != nil {
					return 0, err
				}
			}
		case 12: // compiled function
			for p < bend {
				fld := w.d[p]
				w.add(p, 1, 't')
				p++
				switch fld {
				case 0, 1:
					if _, p, err = w.vc(p, bend, 'v'); err != nil {
						return 0, err
					}
				case 2:
					q := p
					if p, err = w.object(p, bend); err != nil {
						return 0, err
					}
					// the instruction bytes: payload of the Bytes object at q
					if w.d[q] == 8 {
						hdr := 2 + int(w.d[q+1])
						w.add(q+hdr, p-q-hdr, 'c')
					}
				case 3:
				case 5:
					var n int64
					if n, p, err = w.vc(p, bend, 'l'); err != nil {
						return 0, err
					}
					for i := int64(0); i < n/2*2; i++ {
						if _, p, err = w.vc(p, bend, 'v'); err != nil {
							return 0, err
						}
					}
				default:
					return 0, errWalk
				}
			}
		case 13, 14: // function, builtin function: a String object
			if p, err = w.object(p, bend); err != nil {
				return 0, err
			}
			if p != bend {
				return 0, errWalk
			}
		}
		return bend, nil
	case tag == 255:
		return w.gob(pos, end)
	}
	return 0, errWalk
}

func (w *walker) sourceFile(p, end int) error {
	var err error
	if p, err = w.object(p, end); err != nil {
		return err
	}
	if _, p, err = w.vc(p, end, 'v'); err != nil {
		return err
	}
	if _, p, err = w.vc(p, end, 'v'); err != nil {
		return err
	}
	var n int64
	if n, p, err = w.vc(p, end, 'l'); err != nil {
		return err
	}
	for i := int64(0); i < n; i++ {
		if _, p, err = w.vc(p, end, 'v'); err != nil {
			return err
		}
	}
	if p != end {
		return errWalk
	}
	return nil
}

func (w *walker) fileSet(p, end int) error {
	var err error
	if _, p, err = w.vc(p, end, 'v'); err != nil {
		return err
	}
	var n int64
	if n, p, err = w.vc(p, end, 'l'); err != nil {
		return err
	}
	for i := int64(0); i < n; i++ {
		var dl int64
		if dl, p, err = w.vc(p, end, 'l'); err != nil {
			return err
		}
		if dl < 0 || int64(end-p) < dl {
			return errWalk
		}
		if err = w.sourceFile(p, p+int(dl)); err != nil {
			return err
		}
		p += int(dl)
	}
	if p != end {
		return errWalk
	}
	return nil
}

// walkBytecode returns the structural fields of a valid encoded Bytecode.
func walkBytecode(d []byte) (f []field, err error) {
	defer func() {
		if r := recover(); r != nil {
			f, err = nil, fmt.Errorf("walk: %v", r)
		}
	}()
	if len(d) < 6 {
		return nil, errWalk
	}
	w := &walker{d: d}
	end := len(d)
	for p := 6; p < end; {
		fld := d[p]
		w.add(p, 1, 't')
		p++
		switch fld {
		case 0:
			if p+2 > end || d[p] != 3 {
				return nil, errWalk
			}
			n := int(d[p+1])
			if p+2+n > end {
				return nil, errWalk
			}
			var sz int64
			if n > 0 {
				var k int
				if sz, k = binary.Varint(d[p+2 : p+2+n]); k != n {
					return nil, errWalk
				}
			}
			w.add(p, 2+n, 'i')
			p += 2 + n
			if sz < 0 || int64(end-p) < sz {
				return nil, errWalk
			}
			if sz > 0 {
				if err := w.fileSet(p, p+int(sz)); err != nil {
					return nil, err
				}
			}
			p += int(sz)
		case 1, 2, 3:
			var err error
			if p, err = w.object(p, end); err != nil {
				return nil, err
			}
		default:
			return nil, errWalk
		}
	}
	return w.f, nil
}

// walkObject returns the structural fields of one valid encoded object.
func walkObject(d []byte) (f []field, err error) {
	defer func() {
		if r := recover(); r != nil {
			f, err = nil, fmt.Errorf("walk: %v", r)
		}
	}()
	w := &walker{d: d}
	p, err := w.object(0, len(d))
	if err != nil {
		return nil, err
	}
	if p != len(d) {
		return nil, errWalk
	}
	return w.f, nil
}

// structural reports which byte positions belong to a tag / size / length
// field.
func structural(n int, fs []field) []bool {
	s := make([]bool, n)
	for _, f := range fs {
		if f.Kind == 'v' || f.Kind == 'c' {
			continue
		}
		for i := f.Off; i < f.Off+f.Len && i < n; i++ {
			s[i] = true
		}
	}
	return s
}

// vcBytes is varintConv.toBytes: count byte followed by the signed varint.
func vcBytes(v int64) []byte {
	var b [1 + binary.MaxVarintLen64]byte
	n := binary.PutVarint(b[1:], v)
	b[0] = byte(n)
	return b[:n+1]
}

// intObjBytes is Int.MarshalBinary.
func intObjBytes(v int64) []byte {
	if v == 0 {
		return []byte{3, 0}
	}
	b := vcBytes(v)
	return append([]byte{3}, b...)
}
