package c18

import (
	"bufio"
	"encoding/binary"
	"encoding/json"
	"errors"
	"fmt"
	"io"
	"os"
	"os/exec"
	"regexp"
	"runtime"
	"strconv"
	"strings"
	"sync"
	"syscall"
	"testing"
	"time"
)

// The code under test can kill the process (an allocation the OS refuses is a
// fatal runtime error, not a panic), so every decode runs in a worker
// subprocess: this test binary re-executed with VERIF_C18_WORKER=1 under an
// address-space limit. Protocol: parent -> worker frames
// [entry:1][len:4 LE][data]; worker -> parent one reply per frame, written
// immediately: [status:1] and, for status >= stPanic, [len:4 LE][json outcome].

const workerEnv = "VERIF_C18_WORKER"

func TestMain(m *testing.M) {
	// allocation sites are read from the memory profile: sample finely enough that an
	// allocation of 1 MiB is (practically) always in it (also in native-fuzz workers)
	runtime.MemProfileRate = 64 << 10
	if os.Getenv(workerEnv) == "1" {
		workerMain()
		return
	}
	os.Exit(m.Run())
}

func asLimitBytes() uint64 {
	gb := uint64(3)
	if v, err := strconv.ParseUint(os.Getenv("VERIF_C18_AS_GB"), 10, 64); err == nil && v > 0 {
		gb = v
	}
	return gb << 30
}

func workerMain() {
	runtime.GOMAXPROCS(2)
	hello := byte('R')
	lim := asLimitBytes()
	if err := syscall.Setrlimit(syscall.RLIMIT_AS, &syscall.Rlimit{Cur: lim, Max: lim}); err != nil {
		hello = 'L' // running without a limit
	}
	universe()
	_, _ = os.Stdout.Write([]byte{hello})
	in := bufio.NewReaderSize(os.Stdin, 1<<16)
	hdr := make([]byte, 5)
	for {
		if _, err := io.ReadFull(in, hdr); err != nil {
			os.Exit(0)
		}
		n := binary.LittleEndian.Uint32(hdr[1:])
		data := make([]byte, n)
		if _, err := io.ReadFull(in, data); err != nil {
			os.Exit(0)
		}
		tick()
		o := checkOne(int(hdr[0]), data)
		if o.Status < stPanic {
			_, _ = os.Stdout.Write([]byte{byte(o.Status)})
			continue
		}
		js, _ := json.Marshal(o)
		msg := make([]byte, 5, 5+len(js))
		msg[0] = byte(o.Status)
		binary.LittleEndian.PutUint32(msg[1:], uint32(len(js)))
		_, _ = os.Stdout.Write(append(msg, js...))
		if o.Retire {
			os.Exit(0)
		}
	}
}

// ---------------------------------------------------------------------------
// parent side

type job struct {
	Entry int
	Data  []byte
	Seed  string // name of the seed encoding
	Mut   string // mutation description
	Kind  string // mutation kind (class histogram)
}

type capBuf struct {
	mu sync.Mutex
	b  []byte
}

func (c *capBuf) Write(p []byte) (int, error) {
	c.mu.Lock()
	if room := 32<<10 - len(c.b); room > 0 {
		if len(p) < room {
			room = len(p)
		}
		c.b = append(c.b, p[:room]...)
	}
	c.mu.Unlock()
	return len(p), nil
}

func (c *capBuf) String() string { c.mu.Lock(); defer c.mu.Unlock(); return string(c.b) }

type workerProc struct {
	cmd     *exec.Cmd
	in      *os.File
	out     *os.File
	rd      *bufio.Reader
	stderr  *capBuf
	limited bool
}

var errInfra = errors.New("worker infrastructure")

func startWorker() (*workerProc, error) {
	cmd := exec.Command(os.Args[0])
	cmd.Env = append(os.Environ(), workerEnv+"=1")
	inR, inW, err := os.Pipe()
	if err != nil {
		return nil, err
	}
	outR, outW, err := os.Pipe()
	if err != nil {
		return nil, err
	}
	cmd.Stdin, cmd.Stdout = inR, outW
	w := &workerProc{cmd: cmd, in: inW, out: outR, stderr: &capBuf{}}
	cmd.Stderr = w.stderr
	if err := cmd.Start(); err != nil {
		inR.Close()
		inW.Close()
		outR.Close()
		outW.Close()
		return nil, err
	}
	inR.Close()
	outW.Close()
	w.rd = bufio.NewReader(outR)
	_ = outR.SetReadDeadline(time.Now().Add(30 * time.Second))
	h, err := w.rd.ReadByte()
	if err != nil || (h != 'R' && h != 'L') {
		w.kill()
		return nil, fmt.Errorf("worker handshake failed: %v (byte %q) stderr: %s", err, h, firstLines(w.stderr.String(), 5))
	}
	w.limited = h == 'R'
	return w, nil
}

func (w *workerProc) kill() {
	if w == nil {
		return
	}
	_ = w.in.Close()
	_ = w.cmd.Process.Kill()
	_ = w.cmd.Wait()
	_ = w.out.Close()
}

// wait collects the exit state after a death.
func (w *workerProc) wait() string {
	_ = w.in.Close()
	done := make(chan struct{})
	go func() { _ = w.cmd.Wait(); close(done) }()
	select {
	case <-done:
	case <-time.After(5 * time.Second):
		_ = w.cmd.Process.Kill()
		<-done
	}
	_ = w.out.Close()
	if w.cmd.ProcessState != nil {
		return w.cmd.ProcessState.String()
	}
	return "?"
}

// run sends the jobs and reads the replies. It returns the outcomes received;
// len(outs) < len(jobs) means the worker died (or timed out: timedOut) with
// jobs[len(outs)] in flight (replies are unbuffered, one per job).
func (w *workerProc) run(jobs []job) (outs []outcome, timedOut bool) {
	var buf []byte
	for _, j := range jobs {
		var h [5]byte
		h[0] = byte(j.Entry)
		binary.LittleEndian.PutUint32(h[1:], uint32(len(j.Data)))
		buf = append(buf, h[:]...)
		buf = append(buf, j.Data...)
	}
	deadline := time.Now().Add(60 * time.Second)
	_ = w.in.SetWriteDeadline(deadline)
	_ = w.out.SetReadDeadline(deadline)
	werr := make(chan error, 1)
	go func() { _, err := w.in.Write(buf); werr <- err }()
	outs = make([]outcome, 0, len(jobs))
	for len(outs) < len(jobs) {
		st, err := w.rd.ReadByte()
		if err != nil {
			timedOut = errors.Is(err, os.ErrDeadlineExceeded)
			break
		}
		o := outcome{Status: int(st)}
		if int(st) >= stPanic {
			var l [4]byte
			if _, err := io.ReadFull(w.rd, l[:]); err != nil {
				timedOut = errors.Is(err, os.ErrDeadlineExceeded)
				break
			}
			js := make([]byte, binary.LittleEndian.Uint32(l[:]))
			if _, err := io.ReadFull(w.rd, js); err != nil {
				timedOut = errors.Is(err, os.ErrDeadlineExceeded)
				break
			}
			if json.Unmarshal(js, &o) != nil {
				break
			}
		}
		outs = append(outs, o)
	}
	if len(outs) < len(jobs) {
		_ = w.in.SetWriteDeadline(time.Now()) // unblock the writer
	}
	<-werr
	return outs, timedOut
}

var ugoFrameRe = regexp.MustCompile(`(?m)^(github\.com/ozanh/ugo[^\s(]*(?:\([^)]*\))?[^\s(]*)\(`)

// deathSig classifies a dead worker from its stderr and exit state.
// conclusive=false: looks like the sandbox (SIGKILL, no runtime message).
func deathSig(stderr, state string) (sig string, conclusive bool) {
	class := ""
	switch {
	case strings.Contains(stderr, "out of memory"), strings.Contains(stderr, "cannot allocate memory"):
		class = "out-of-memory"
	case strings.Contains(stderr, "stack overflow"), strings.Contains(stderr, "stack exceeds"):
		class = "stack-overflow"
	default:
		for _, l := range strings.Split(stderr, "\n") {
			if strings.HasPrefix(l, "fatal error:") {
				class = strings.Join(strings.Fields(strings.TrimPrefix(l, "fatal error:")), "-")
				break
			}
		}
	}
	if class == "" {
		return "worker-death:unexplained(" + state + ")", false
	}
	fn := ""
	if m := ugoFrameRe.FindStringSubmatch(stderr); m != nil {
		fn = ":" + trimFn(m[1])
	}
	return "worker-death:" + class + fn, true
}

func firstLines(s string, n int) string {
	ls := strings.Split(strings.TrimSpace(s), "\n")
	if len(ls) > n {
		ls = ls[:n]
	}
	return strings.Join(ls, " | ")
}

// pool runs jobs on a fixed number of worker subprocesses.
type pool struct {
	mu        sync.Mutex
	idle      []*workerProc
	confirmed map[string]int // death signatures confirmed in a fresh worker
	infra     []string
	unrepro   []string // deaths that did not reproduce in isolation
	unlimited bool
	restarts  int
}

func newPool() *pool { return &pool{confirmed: map[string]int{}} }

func (p *pool) get() (*workerProc, error) {
	p.mu.Lock()
	if n := len(p.idle); n > 0 {
		w := p.idle[n-1]
		p.idle = p.idle[:n-1]
		p.mu.Unlock()
		return w, nil
	}
	p.restarts++
	p.mu.Unlock()
	w, err := startWorker()
	if err != nil {
		p.mu.Lock()
		p.infra = append(p.infra, err.Error())
		p.mu.Unlock()
		return nil, err
	}
	if !w.limited {
		p.mu.Lock()
		p.unlimited = true
		p.mu.Unlock()
	}
	return w, nil
}

func (p *pool) put(w *workerProc) {
	p.mu.Lock()
	p.idle = append(p.idle, w)
	p.mu.Unlock()
}

func (p *pool) close() {
	p.mu.Lock()
	ws := p.idle
	p.idle = nil
	p.mu.Unlock()
	for _, w := range ws {
		w.kill()
	}
}

// alone runs one job in a fresh worker. died: the worker died on it.
func (p *pool) alone(j job) (o outcome, died, timedOut bool, stderr, state string, err error) {
	p.mu.Lock()
	p.restarts++
	p.mu.Unlock()
	w, err := startWorker()
	if err != nil {
		return outcome{}, false, false, "", "", err
	}
	outs, to := w.run([]job{j})
	if len(outs) == 1 {
		if outs[0].Retire {
			w.kill()
		} else {
			p.put(w)
		}
		return outs[0], false, false, "", "", nil
	}
	if to {
		w.kill()
		return outcome{}, true, true, "", "timeout", nil
	}
	state = w.wait()
	return outcome{}, true, false, w.stderr.String(), state, nil
}

// exec runs the jobs and calls handle once per job (from this goroutine).
// A worker death is re-tried on the in-flight input alone in a fresh worker
// and is a violation only if it reproduces there.
func (p *pool) exec(jobs []job, handle func(job, outcome)) {
	i := 0
	for i < len(jobs) {
		w, err := p.get()
		if err != nil {
			for ; i < len(jobs); i++ {
				handle(jobs[i], outcome{Status: stInconcl, Sig: "worker-start-failed"})
			}
			return
		}
		outs, timedOut := w.run(jobs[i:])
		for k, o := range outs {
			handle(jobs[i+k], o)
		}
		i += len(outs)
		if n := len(outs); n > 0 && outs[n-1].Retire {
			w.kill() // it announced its exit (it was holding a huge dead block)
			continue
		}
		if i >= len(jobs) {
			p.put(w)
			return
		}
		// the worker died (or hung) with jobs[i] in flight
		var sig1 string
		var concl1 bool
		if timedOut {
			w.kill()
			sig1 = "worker-timeout"
		} else {
			state := w.wait()
			sig1, concl1 = deathSig(w.stderr.String(), state)
		}
		j := jobs[i]
		i++
		p.mu.Lock()
		seen := p.confirmed[sig1]
		p.mu.Unlock()
		if concl1 && seen >= 3 {
			// same root cause already reproduced in isolation three times
			handle(j, outcome{Status: stDeath, Sig: sig1, What: "worker process died (signature already confirmed in isolation): " + sig1})
			continue
		}
		o, died, to2, stderr2, state2, err := p.alone(j)
		switch {
		case err != nil:
			handle(j, outcome{Status: stInconcl, Sig: "worker-start-failed"})
		case !died:
			// did not reproduce alone: the death is inconclusive; report what the lone run saw
			p.mu.Lock()
			p.unrepro = append(p.unrepro, sig1)
			p.mu.Unlock()
			handle(j, o)
		case to2:
			handle(j, outcome{Status: stInconcl, Sig: "worker-timeout"})
		default:
			sig2, concl2 := deathSig(stderr2, state2)
			if concl2 {
				p.mu.Lock()
				p.confirmed[sig2]++
				p.mu.Unlock()
				handle(j, outcome{Status: stDeath, Sig: sig2,
					What: fmt.Sprintf("%s on %d bytes killed the worker process twice (in a batch: %s; alone in a fresh process: %s): %s; input %s",
						entryNames[j.Entry], len(j.Data), sig1, state2, firstLines(stderr2, 3), hexPrefix(j.Data))})
			} else {
				handle(j, outcome{Status: stInconcl, Sig: sig2})
			}
		}
	}
}
