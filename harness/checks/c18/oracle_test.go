package c18

import (
	"bytes"
	"fmt"
	"io"
	"runtime"
	"runtime/debug"
	"runtime/metrics"
	"strings"

	"github.com/ozanh/ugo"
	"github.com/ozanh/ugo/encoder"
)

// entry points
const (
	entDecodeFrom    = iota // encoder.DecodeBytecodeFrom(bytes.NewReader(data), universe())
	entUnmarshal            // (*encoder.Bytecode).UnmarshalBinary(data)
	entObject               // encoder.DecodeObject(bytes.NewReader(data))
	entDecodeFromNil        // encoder.DecodeBytecodeFrom(bytes.NewReader(data), nil)
	entObjectPlain          // encoder.DecodeObject(r) with r a plain io.Reader (no Len, no ReadByte)
	entTyped                // (*encoder.T).UnmarshalBinary(data) for every exported wrapper type T
	nEntries
)

var entryNames = [nEntries]string{"DecodeBytecodeFrom", "Bytecode.UnmarshalBinary", "DecodeObject", "DecodeBytecodeFrom(nil-modules)", "DecodeObject(plain-io.Reader)", "typed-UnmarshalBinary"}

func entryByName(s string) int {
	for i, n := range entryNames {
		if n == s {
			return i
		}
	}
	return -1
}

// outcome status
const (
	stOK      = iota // returned a value, nil error
	stErr            // returned an error
	stPanic          // violation: panicked
	stAlloc          // violation: allocation bound exceeded
	stGobSlop        // not judged: the excess was allocated inside encoding/gob (10 MiB chunks of internal/saferio)
	stDeath          // violation: reproducible death of the worker process (parent side only)
	stInconcl        // inconclusive (parent side only)
)

type outcome struct {
	Status int    `json:"st"`
	Sig    string `json:"sig,omitempty"`
	What   string `json:"what,omitempty"`
	Retire bool   `json:"retire,omitempty"` // the worker exits after this reply (it holds a huge dead block)
}

const (
	allocFactor = 64
	allocSlack  = 1 << 20
)

func allocBound(n int) uint64 { return allocFactor*uint64(n) + allocSlack }

func callEntry(entry int, data []byte) error {
	switch entry {
	case entDecodeFrom:
		_, err := encoder.DecodeBytecodeFrom(bytes.NewReader(data), universe())
		return err
	case entDecodeFromNil:
		_, err := encoder.DecodeBytecodeFrom(bytes.NewReader(data), nil)
		return err
	case entUnmarshal:
		var bc encoder.Bytecode
		return bc.UnmarshalBinary(data)
	case entObject:
		_, err := encoder.DecodeObject(bytes.NewReader(data))
		return err
	case entObjectPlain:
		_, err := encoder.DecodeObject(struct{ io.Reader }{bytes.NewReader(data)})
		return err
	case entTyped:
		// the per-type decoders are exported entry points of their own: each is handed the input
		// whatever its tag says (a wrong tag or a short input must be an error, not a panic)
		var firstErr error
		for _, u := range []interface{ UnmarshalBinary([]byte) error }{
			new(encoder.UndefinedType), new(encoder.Bool), new(encoder.Int), new(encoder.Uint), new(encoder.Char),
			new(encoder.Float), new(encoder.String), new(encoder.Bytes), new(encoder.Array), new(encoder.Map),
			new(encoder.SyncMap), new(encoder.CompiledFunction), new(encoder.BuiltinFunction), new(encoder.Function),
		} {
			if err := u.UnmarshalBinary(data); err != nil && firstErr == nil {
				firstErr = err
			}
		}
		return firstErr
	}
	panic("harness: bad entry")
}

// guarded calls the entry point and captures a panic with its stack.
func guarded(entry int, data []byte) (err error, pv any, pcs []uintptr) {
	defer func() {
		if r := recover(); r != nil {
			pv = r
			buf := make([]uintptr, 64)
			pcs = buf[:runtime.Callers(2, buf)]
		}
	}()
	err = callEntry(entry, data)
	return
}

var allocSample = []metrics.Sample{{Name: "/gc/heap/allocs:bytes"}}

// heapAllocs is the cumulative number of heap bytes allocated by the process
// (cheap; small allocations are accounted with a lag of at most one span per
// size class, which is why an excess is confirmed with ReadMemStats).
func heapAllocs() uint64 {
	metrics.Read(allocSample)
	if allocSample[0].Value.Kind() != metrics.KindUint64 {
		return 0
	}
	return allocSample[0].Value.Uint64()
}

const ugoPrefix = "github.com/ozanh/ugo"

func trimFn(name string) string {
	if strings.HasPrefix(name, ugoPrefix+"/") {
		return name[len(ugoPrefix)+1:]
	}
	if strings.HasPrefix(name, ugoPrefix+".") {
		return "ugo" + name[len(ugoPrefix):]
	}
	return name
}

// frames returns the first function outside package runtime (the caller of
// the allocator / the panicking statement), the first function inside
// ozanh/ugo with its file:line, and whether encoding/gob frames lie in between.
func frames(pcs []uintptr) (leaf, site, where string, viaGob bool) {
	if len(pcs) == 0 {
		return
	}
	it := runtime.CallersFrames(pcs)
	for {
		f, more := it.Next()
		if f.Function != "" {
			if leaf == "" && !strings.HasPrefix(f.Function, "runtime.") {
				leaf = f.Function
			}
			if strings.HasPrefix(f.Function, "encoding/gob.") {
				viaGob = true
			}
			if strings.HasPrefix(f.Function, ugoPrefix) {
				file := f.File
				if i := strings.Index(file, "/encoder/"); i >= 0 {
					file = file[i+1:]
				} else if i := strings.LastIndex(file, "/"); i >= 0 {
					file = file[i+1:]
				}
				return leaf, trimFn(f.Function), fmt.Sprintf("%s:%d", file, f.Line), viaGob
			}
		}
		if !more {
			return
		}
	}
}

func panicClass(pv any) string {
	msg := fmt.Sprint(pv)
	if _, ok := pv.(*runtime.TypeAssertionError); ok {
		tgt := msg
		if i := strings.LastIndex(msg, ", not "); i >= 0 {
			tgt = msg[i+6:]
		}
		if i := strings.Index(tgt, ":"); i >= 0 { // ": missing method ..."
			tgt = tgt[:i]
		}
		return "type-assertion:" + tgt
	}
	switch {
	case strings.Contains(msg, "index out of range"):
		return "index-out-of-range"
	case strings.Contains(msg, "slice bounds out of range"):
		return "slice-bounds"
	case strings.Contains(msg, "makeslice"):
		return "makeslice"
	case strings.Contains(msg, "assignment to entry in nil map"):
		return "nil-map"
	case strings.Contains(msg, "nil pointer dereference"):
		return "nil-deref"
	case strings.Contains(msg, "makemap"), strings.Contains(msg, "makechan"):
		return "make-size"
	case strings.Contains(msg, "out of memory"):
		return "out-of-memory"
	}
	return "other"
}

func hexPrefix(data []byte) string {
	n := len(data)
	if n > 48 {
		n = 48
	}
	s := fmt.Sprintf("%x", data[:n])
	if len(data) > 48 {
		s += "..."
	}
	return s
}

// memProfile returns cumulative allocated bytes per allocation site. Two
// collections publish every allocation made so far (the profile lags by two
// cycles); freeing to the OS afterwards keeps a huge dead block from being
// re-used (and zeroed, page by page) by the next big allocation.
func memProfile() map[[32]uintptr]int64 {
	runtime.GC()
	debug.FreeOSMemory()
	n, _ := runtime.MemProfile(nil, true)
	var recs []runtime.MemProfileRecord
	for {
		recs = make([]runtime.MemProfileRecord, n+64)
		n2, ok := runtime.MemProfile(recs, true)
		if ok {
			recs = recs[:n2]
			break
		}
		n = n2
	}
	m := make(map[[32]uintptr]int64, len(recs))
	for i := range recs {
		m[recs[i].Stack0] += recs[i].AllocBytes
	}
	return m
}

// growth summarises what was allocated between two profile snapshots: bytes
// allocated inside encoding/gob (on behalf of the gob fallback) and bytes
// allocated by everything else, with the biggest site of the latter.
type growth struct {
	Gob, Other        int64
	Best              int64 // biggest non-gob site
	Leaf, Site, Where string
}

func diffProfiles(before, after map[[32]uintptr]int64) (g growth) {
	for k, v := range after {
		d := v - before[k]
		if d <= 0 {
			continue
		}
		n := 0
		for n < len(k) && k[n] != 0 {
			n++
		}
		leaf, site, where, viaGob := frames(k[:n])
		if viaGob {
			g.Gob += d
			continue
		}
		g.Other += d
		if d > g.Best {
			g.Best, g.Leaf, g.Site, g.Where = d, leaf, site, where
		}
	}
	return
}

// attribute re-runs the call between two snapshots of the memory profile.
func attribute(entry int, data []byte) growth {
	before := memProfile()
	guarded(entry, data)
	after := memProfile()
	lastProfile, sinceProfile = after, 0
	return diffProfiles(before, after)
}

// Re-running a call that allocates hundreds of megabytes is slow (the block is
// re-used and must be zeroed page by page), so big excesses are attributed
// without a second run: the profile is diffed against a snapshot that is at
// most profileEvery calls old (legitimate allocations of so few calls cannot
// add up to half of a >= 32 MiB excess at one site).
const (
	profileEvery = 1000
	noRerunFrom  = 32 << 20
	retireFrom   = 64 << 20
)

var (
	lastProfile  map[[32]uintptr]int64
	sinceProfile int
)

// tick is called by the worker loop before every call.
func tick() {
	sinceProfile++
	if sinceProfile >= profileEvery {
		lastProfile, sinceProfile = memProfile(), 0
	}
}

// checkOne applies the totality oracle to one input: no panic, and bytes
// allocated during the call <= 64*len(data) + 1 MiB.
func checkOne(entry int, data []byte) outcome {
	bound := allocBound(len(data))
	a0 := heapAllocs()
	err, pv, pcs := guarded(entry, data)
	a1 := heapAllocs()
	if pv != nil {
		_, site, where, _ := frames(pcs)
		if site == "" {
			site = "?"
		}
		return outcome{Status: stPanic, Retire: a1-a0 >= retireFrom,
			Sig:  "panic:" + site + ":" + panicClass(pv),
			What: fmt.Sprintf("%s on %d bytes panicked: %v (at %s in %s); input %s", entryNames[entry], len(data), pv, where, site, hexPrefix(data))}
	}
	st := stOK
	if err != nil {
		st = stErr
	}
	if a1-a0 <= bound {
		return outcome{Status: st}
	}
	used := a1 - a0
	if used-bound < 4<<20 {
		// close to the bound: confirm with the exact counter on a second run
		var m0, m1 runtime.MemStats
		runtime.ReadMemStats(&m0)
		_, pv2, _ := guarded(entry, data)
		runtime.ReadMemStats(&m1)
		used = m1.TotalAlloc - m0.TotalAlloc
		if pv2 != nil || used <= bound {
			return outcome{Status: st}
		}
	}
	// Who allocated? encoding/gob reads a message of declared length n and
	// makes slices of declared length n in chunks of up to 10 MiB
	// (internal/saferio) before the data is there: that over-allocation belongs
	// to the standard library's own hardening and is not judged here.
	var g growth
	gobOnly := false
	if used >= noRerunFrom {
		after := memProfile()
		g = diffProfiles(lastProfile, after)
		lastProfile, sinceProfile = after, 0
		switch {
		case uint64(g.Best) >= used/2:
		case uint64(g.Gob) >= used/2:
			gobOnly = true
		default:
			g.Site = ""
		}
	} else {
		g = attribute(entry, data)
		if uint64(g.Other) <= bound {
			if g.Gob > 0 {
				gobOnly = true
			} else {
				g.Site = ""
			}
		}
	}
	if gobOnly {
		return outcome{Status: stGobSlop, Retire: used >= retireFrom}
	}
	site, where := g.Site, g.Where
	if site == "" {
		site, where = entryNames[entry], "unattributed"
	}
	return outcome{Status: stAlloc, Retire: used >= retireFrom,
		Sig: "alloc-bound:" + site,
		What: fmt.Sprintf("%s on %d bytes allocated %d bytes (bound %d = 64*len+1MiB) and returned err=%v; largest site %s (%s, %d bytes, allocator caller %s; profile: %d bytes outside encoding/gob, %d inside); input %s",
			entryNames[entry], len(data), used, bound, err, site, where, g.Best, g.Leaf, g.Other, g.Gob, hexPrefix(data))}
}

var _ = ugo.Undefined
