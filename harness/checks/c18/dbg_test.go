package c18

import (
	"testing"
	"time"
)

func TestDbgThroughput(t *testing.T) {
	seeds, err := buildSeeds()
	if err != nil {
		t.Fatal(err)
	}
	p := newPool()
	defer p.close()
	var jobs []job
	for i := range seeds {
		if !seeds[i].IsObj {
			for k := 0; k < 20 && k < len(seeds[i].Data)-1; k++ {
				jobs = append(jobs, job{Entry: entDecodeFrom, Data: seeds[i].Data[:len(seeds[i].Data)-1-k], Seed: seeds[i].Name})
			}
		}
	}
	t0 := time.Now()
	st := map[int]int{}
	for i := 0; i < len(jobs); i += 256 {
		e := i + 256
		if e > len(jobs) {
			e = len(jobs)
		}
		p.exec(jobs[i:e], func(j job, o outcome) { st[o.Status]++; if o.Status >= stPanic { t.Logf("%s %s", o.Sig, j.Seed) } })
	}
	t.Logf("%d jobs in %v: %v restarts=%d", len(jobs), time.Since(t0), st, p.restarts)
	t0 = time.Now()
	for _, j := range jobs {
		checkOne(j.Entry, j.Data)
	}
	t.Logf("in-process: %v", time.Since(t0))
}
