package c18

import (
	"bytes"
	"encoding/binary"
	"fmt"
	"strings"
	"sync"
	gotime "time"

	"github.com/ozanh/ugo"
	"github.com/ozanh/ugo/encoder"
	"github.com/ozanh/ugo/encoder/opv1"
	"github.com/ozanh/ugo/parser"
	ugojson "github.com/ozanh/ugo/stdlib/json"
	ugotime "github.com/ozanh/ugo/stdlib/time"

	"verif/internal/vals"
)

// seedEnc is one valid encoding the mutators start from.
type seedEnc struct {
	Name   string
	Data   []byte
	IsObj  bool    // decoded by DecodeObject (else: an encoded Bytecode)
	V1     bool    // version field rewritten to 1
	Fields []field // structural fields (nil when the walker could not follow the encoding)
	Struct []bool  // per position: part of a tag / size / length field
}

var (
	universeOnce sync.Once
	universeMap  *ugo.ModuleMap
)

// universe is the module map used for decoding: a superset of every module
// map a seed was compiled with (only builtin modules are looked up when
// decoding; a missing module is a returned error, never a violation).
func universe() *ugo.ModuleMap {
	universeOnce.Do(func() {
		m := modsMixed()
		src := modsSrc()
		m.Add("m1", src.Get("m1"))
		m.Add("m2", src.Get("m2"))
		universeMap = m
	})
	return universeMap
}

func withVersion(d []byte, v uint16) []byte {
	c := append([]byte(nil), d...)
	binary.BigEndian.PutUint16(c[4:6], v)
	return c
}

func encodeBC(bc *ugo.Bytecode) ([]byte, error) {
	var buf bytes.Buffer
	if err := encoder.EncodeBytecodeTo(bc, &buf); err != nil {
		return nil, err
	}
	return buf.Bytes(), nil
}

func inst(op byte, operands ...int) []byte {
	b := []byte{op}
	for i, w := range opv1.OpcodeOperands[op] {
		switch w {
		case 1:
			b = append(b, byte(operands[i]))
		case 2:
			b = binary.BigEndian.AppendUint16(b, uint16(operands[i]))
		}
	}
	return b
}

func cat(bs ...[]byte) []byte { return bytes.Join(bs, nil) }

// rawBytecodes are Bytecode values built by hand: genuine version-1
// instruction streams with every jump kind, constants that take the gob
// fallback, multi-file file sets.
func rawBytecodes() map[string]*ugo.Bytecode {
	v1main := cat(
		inst(opv1.OpNoOp), inst(opv1.OpConstant, 0), inst(opv1.OpJump, 9), inst(opv1.OpJumpFalsy, 12),
		inst(opv1.OpAndJump, 15), inst(opv1.OpOrJump, 18), inst(opv1.OpSetupTry, 25, 27), inst(opv1.OpSetupCatch),
		inst(opv1.OpSetupFinally), inst(opv1.OpClosure, 1, 0), inst(opv1.OpCall, 0, 0), inst(opv1.OpLoadModule, 2, 0),
		inst(opv1.OpCallName, 1, 0), inst(opv1.OpReturn, 1),
	)
	v1fn := cat(inst(opv1.OpGetLocal, 0), inst(opv1.OpJumpFalsy, 8), inst(opv1.OpTrue), inst(opv1.OpReturn, 1),
		inst(opv1.OpFalse), inst(opv1.OpReturn, 1))
	fs := parser.NewFileSet()
	f1 := fs.AddFile("(main)", -1, 30)
	f1.AddLine(0)
	f1.AddLine(10)
	f1.AddLine(20)
	f2 := fs.AddFile("mod/a.ugo", -1, 200)
	for i := 0; i < 200; i += 13 {
		f2.AddLine(i)
	}
	fs.AddFile("", -1, 0)
	var baz ugo.Object = ugo.String("baz")
	gobConsts := []ugo.Object{
		ugo.Undefined, ugo.Int(-1), ugo.Uint(7), ugo.Char('x'), ugo.True, ugo.Float(1.2), ugo.String("abc"), ugo.Bytes("foo"),
		ugo.ErrIndexOutOfBounds,
		&ugo.RuntimeError{Err: ugo.ErrInvalidIndex},
		&ugo.Error{Name: "E", Message: "m", Cause: ugo.ErrType},
		ugo.Map{"key": &ugo.Function{Name: "f"}},
		&ugo.SyncMap{Value: ugo.Map{"k": ugo.String("")}},
		ugo.Array{ugo.Undefined, ugo.True, ugo.False},
		&ugotime.Time{Value: gotime.Date(2024, 2, 29, 1, 2, 3, 4, gotime.UTC)},
		&ugojson.EncoderOptions{Value: ugo.Int(1)},
		&ugojson.RawMessage{Value: ugo.Bytes("bar")},
		&ugo.ObjectPtr{Value: &baz},
	}
	return map[string]*ugo.Bytecode{
		"raw-main-only": {Main: &ugo.CompiledFunction{}},
		"raw-v1-jumps": {
			Main: &ugo.CompiledFunction{Instructions: v1main, NumLocals: 2, SourceMap: map[int]int{0: 1, 1: 5, 4: 9, 7: 12, 25: 30}},
			Constants: []ugo.Object{
				ugo.Int(1),
				&ugo.CompiledFunction{Instructions: v1fn, NumParams: 1, NumLocals: 1, Variadic: true, SourceMap: map[int]int{0: 40, 2: 44}},
				ugo.Map{"x": ugo.Int(1)},
			},
			NumModules: 1,
		},
		"raw-gob-constants": {
			Main:      &ugo.CompiledFunction{Instructions: []byte("test instructions"), NumParams: 1, NumLocals: 4, Variadic: true, SourceMap: map[int]int{0: 1, 1: 2}},
			Constants: gobConsts,
		},
		"raw-fileset":      {FileSet: fs, Main: &ugo.CompiledFunction{Instructions: inst(opv1.OpReturn, 0)}, NumModules: 300},
		"raw-fileset-only": {FileSet: fs},
	}
}

// objectValues is the pool of single values encoded on their own.
func objectValues() []struct {
	Name string
	V    ugo.Object
} {
	type nv = struct {
		Name string
		V    ugo.Object
	}
	var out []nv
	add := func(n string, v ugo.Object) { out = append(out, nv{n, v}) }
	add("undefined", ugo.Undefined)
	add("true", ugo.True)
	add("false", ugo.False)
	for _, v := range vals.Ints {
		add(fmt.Sprintf("int:%d", v), ugo.Int(v))
	}
	for _, v := range vals.Uints {
		add(fmt.Sprintf("uint:%d", v), ugo.Uint(v))
	}
	for i, v := range vals.Floats {
		add(fmt.Sprintf("float#%d:%v", i, v), ugo.Float(v))
	}
	for _, v := range vals.Chars {
		add(fmt.Sprintf("char:%d", v), ugo.Char(v))
	}
	for _, v := range vals.Strings {
		add(fmt.Sprintf("string:%q", v), ugo.String(v))
	}
	add("string:200", ugo.String(strings.Repeat("ab", 100)))
	add("bytes:empty", ugo.Bytes{})
	add("bytes:foo", ugo.Bytes("foo"))
	add("bytes:300", ugo.Bytes(bytes.Repeat([]byte{0, 255, 7}, 100)))
	add("array:empty", ugo.Array{})
	add("array:scalars", ugo.Array{ugo.Undefined, ugo.True, ugo.False, ugo.Int(1), ugo.Uint(2), ugo.Float(3.5), ugo.Char('c'), ugo.String("s"), ugo.Bytes("b")})
	add("array:nested", ugo.Array{ugo.Array{ugo.Array{ugo.Array{ugo.Int(1)}, ugo.Map{"k": ugo.Array{}}}}, ugo.Map{}})
	long := make(ugo.Array, 70)
	for i := range long {
		long[i] = ugo.Int(i)
	}
	add("array:70", long)
	add("map:empty", ugo.Map{})
	add("map:one", ugo.Map{"a": ugo.Int(1)})
	add("map:nested", ugo.Map{"": ugo.Map{"é": ugo.Array{ugo.Map{"deep": ugo.Undefined}}}})
	add("map:module", ugo.Map{ugo.AttrModuleName: ugo.String("strings"), "ToUpper": &ugo.Function{Name: "ToUpper"}})
	add("syncmap:nil", &ugo.SyncMap{})
	add("syncmap:one", &ugo.SyncMap{Value: ugo.Map{"k": ugo.String("v")}})
	add("function", &ugo.Function{Name: "fname"})
	add("builtin:len", ugo.BuiltinObjects[ugo.BuiltinLen])
	add("builtin:append", ugo.BuiltinObjects[ugo.BuiltinAppend])
	add("compiled:empty", &ugo.CompiledFunction{})
	add("compiled:full", &ugo.CompiledFunction{NumParams: 2, NumLocals: 300, Variadic: true,
		Instructions: []byte{1, 0, 0, 39, 1}, SourceMap: map[int]int{0: 10, 3: 2000}})
	var baz ugo.Object = ugo.Int(5)
	add("gob:error", ugo.Array{ugo.ErrZeroDivision})
	add("gob:error-cause", ugo.Array{&ugo.Error{Name: "N", Message: "M", Cause: ugo.ErrType}})
	add("gob:runtime-error", ugo.Array{&ugo.RuntimeError{Err: ugo.ErrInvalidIndex}})
	add("gob:time", ugo.Map{"t": &ugotime.Time{Value: gotime.Date(2001, 2, 3, 4, 5, 6, 7, gotime.UTC)}})
	add("gob:json", ugo.Array{&ugojson.RawMessage{Value: ugo.Bytes("{}")}, &ugojson.EncoderOptions{Value: ugo.True}})
	add("gob:objectptr", ugo.Array{&ugo.ObjectPtr{Value: &baz}, ugo.Int(1)})
	return out
}

func marshalObject(o ugo.Object) ([]byte, error) {
	switch v := o.(type) {
	case *ugo.UndefinedType:
		return (*encoder.UndefinedType)(v).MarshalBinary()
	case ugo.Bool:
		return encoder.Bool(v).MarshalBinary()
	case ugo.Int:
		return encoder.Int(v).MarshalBinary()
	case ugo.Uint:
		return encoder.Uint(v).MarshalBinary()
	case ugo.Char:
		return encoder.Char(v).MarshalBinary()
	case ugo.Float:
		return encoder.Float(v).MarshalBinary()
	case ugo.String:
		return encoder.String(v).MarshalBinary()
	case ugo.Bytes:
		return encoder.Bytes(v).MarshalBinary()
	case ugo.Array:
		return encoder.Array(v).MarshalBinary()
	case ugo.Map:
		return encoder.Map(v).MarshalBinary()
	case *ugo.SyncMap:
		return (*encoder.SyncMap)(v).MarshalBinary()
	case *ugo.CompiledFunction:
		return (*encoder.CompiledFunction)(v).MarshalBinary()
	case *ugo.Function:
		return (*encoder.Function)(v).MarshalBinary()
	case *ugo.BuiltinFunction:
		return (*encoder.BuiltinFunction)(v).MarshalBinary()
	}
	return nil, fmt.Errorf("no marshaler for %T", o)
}

// buildSeeds compiles and encodes every seed. Any error here is a harness
// bug (or a tree that cannot encode at all), never a C18 violation.
func buildSeeds() ([]seedEnc, error) {
	var out []seedEnc
	addBC := func(name string, data []byte) error {
		fs, err := walkBytecode(data)
		if err != nil {
			fs = nil
		}
		for _, ver := range []uint16{2, 1} {
			d := data
			if ver == 1 {
				d = withVersion(data, 1)
			}
			out = append(out, seedEnc{Name: fmt.Sprintf("%s/v%d", name, ver), Data: d, V1: ver == 1, Fields: fs, Struct: structural(len(d), fs)})
		}
		return nil
	}
	for _, p := range seedPrograms() {
		var mm *ugo.ModuleMap
		if p.Mods != nil {
			mm = p.Mods()
		}
		bc, err := ugo.Compile([]byte(p.Src), ugo.CompilerOptions{ModuleMap: mm})
		if err != nil {
			return nil, fmt.Errorf("seed program %q does not compile: %v", p.Name, err)
		}
		data, err := encodeBC(bc)
		if err != nil {
			return nil, fmt.Errorf("seed program %q does not encode: %v", p.Name, err)
		}
		if _, err := encoder.DecodeBytecodeFrom(bytes.NewReader(data), universe()); err != nil {
			return nil, fmt.Errorf("seed program %q: its valid encoding does not decode: %v", p.Name, err)
		}
		_ = addBC("prog:"+p.Name, data)
		if p.Name == "closures" || p.Name == "maps" || p.Name == "std-fmt" {
			// its constants and main function also as single objects
			d, err := encoder.Array(bc.Constants).MarshalBinary()
			if err != nil {
				return nil, err
			}
			fs, _ := walkObject(d)
			out = append(out, seedEnc{Name: "obj:constants-of:" + p.Name, Data: d, IsObj: true, Fields: fs, Struct: structural(len(d), fs)})
			d, err = (*encoder.CompiledFunction)(bc.Main).MarshalBinary()
			if err != nil {
				return nil, err
			}
			fs, _ = walkObject(d)
			out = append(out, seedEnc{Name: "obj:main-of:" + p.Name, Data: d, IsObj: true, Fields: fs, Struct: structural(len(d), fs)})
		}
	}
	raws := rawBytecodes()
	for _, name := range []string{"raw-main-only", "raw-v1-jumps", "raw-gob-constants", "raw-fileset", "raw-fileset-only"} {
		data, err := encodeBC(raws[name])
		if err != nil {
			return nil, fmt.Errorf("raw bytecode %q does not encode: %v", name, err)
		}
		if _, err := encoder.DecodeBytecodeFrom(bytes.NewReader(data), universe()); err != nil {
			return nil, fmt.Errorf("raw bytecode %q: its valid encoding does not decode: %v", name, err)
		}
		_ = addBC(name, data)
	}
	for _, ov := range objectValues() {
		d, err := marshalObject(ov.V)
		if err != nil {
			return nil, fmt.Errorf("object %q does not encode: %v", ov.Name, err)
		}
		// (a valid *ugo.BuiltinFunction encoding is rejected by this tree's decoder: it asserts
		// the builtin to *encoder.BuiltinFunction; a round-trip matter (C04), an error is fine here)
		if _, err := encoder.DecodeObject(bytes.NewReader(d)); err != nil && !strings.HasPrefix(ov.Name, "builtin:") {
			return nil, fmt.Errorf("object %q: its valid encoding does not decode: %v", ov.Name, err)
		}
		fs, _ := walkObject(d)
		out = append(out, seedEnc{Name: "obj:" + ov.Name, Data: d, IsObj: true, Fields: fs, Struct: structural(len(d), fs)})
	}
	return out, nil
}
