package c18

import (
	"github.com/ozanh/ugo"
	ugofmt "github.com/ozanh/ugo/stdlib/fmt"
	ugojson "github.com/ozanh/ugo/stdlib/json"
	ugostrings "github.com/ozanh/ugo/stdlib/strings"
	ugotime "github.com/ozanh/ugo/stdlib/time"
)

// seedProg is one hand-written (later: generated) program whose encodings are
// the valid inputs that the mutators start from. Mods builds a fresh module
// map (nil = the program imports nothing); the same map must be used for
// compiling and for decoding.
type seedProg struct {
	Name string
	Src  string
	Mods func() *ugo.ModuleMap
}

func modsStd() *ugo.ModuleMap {
	return ugo.NewModuleMap().
		AddBuiltinModule("strings", ugostrings.Module).
		AddBuiltinModule("json", ugojson.Module).
		AddBuiltinModule("time", ugotime.Module).
		AddBuiltinModule("fmt", ugofmt.Module)
}

func modsSrc() *ugo.ModuleMap {
	return ugo.NewModuleMap().
		AddSourceModule("m1", []byte(`
counter := 0
return {
	incr: func(x) { counter++; return x + 1 },
	decr: func(x) { counter--; return x - 1 },
	count: func() { return counter },
}
`)).
		AddSourceModule("m2", []byte(`
m1 := import("m1")
const K = 40
return func(v) { return m1.incr(v) + K }
`))
}

// modsMixed holds builtin modules, source modules and a builtin module made of
// plain Go functions; the source module "strinhs" is one byte away from the
// builtin "strings" so that a single-byte corruption of the module-name
// constant resolves to a module of the other kind.
func modsMixed() *ugo.ModuleMap {
	return modsStd().
		AddSourceModule("strinhs", []byte(`return {ToUpper: func(s) { return s }}`)).
		AddSourceModule("util", []byte(`
return {
	twice: func(f, x) { return f(f(x)) },
	name: "util",
}
`)).
		AddBuiltinModule("gomod", map[string]ugo.Object{
			"answer": ugo.Int(42),
			"label":  ugo.String("go"),
			"run": &ugo.Function{
				Name:  "run",
				Value: func(args ...ugo.Object) (ugo.Object, error) { return ugo.Int(len(args)), nil },
			},
		})
}

// seedPrograms returns the hand-written seed programs. A program generator
// will append to this list later; keep it a plain function.
func seedPrograms() []seedProg {
	return []seedProg{
		{Name: "empty", Src: ``},
		{Name: "return-undefined", Src: `return undefined`},
		{Name: "ints", Src: `
a := [0, 1, -1, 2, 127, 128, 255, 256, 65535, 65536, 0x7fffffff, 0xFFFFFFFF]
b := [9223372036854775807, -9223372036854775807, 4611686018427387904]
min := -9223372036854775807 - 1
return [a, b, min]
`},
		{Name: "uints", Src: `
x := 1u
y := [0u, 2u, 255u, 4294967296u, 18446744073709551615u, 9223372036854775808u]
z := uint(7) + x
return [x, y, z]
`},
		{Name: "floats", Src: `
f := [0.0, 1.0, -1.5, 0.1, 3.141592653589793, 1e308, 5e-324, 1e-7, 2.5e10]
g := 1.0 / 3
h := -0.0
return [f, g, h, 1e21]
`},
		{Name: "chars", Src: `
c := ['a', 'Z', '0', ' ', '\n', '\t', '\\', '\'', 'é', '日', '😀']
d := char(0)
e := 'a' + 1
return [c, d, e]
`},
		{Name: "strings", Src: `
s := ["", "a", "abc", " ", "tab\tnl\n", "quote\"q\"", "back\\slash", "é", "日本語", "😀"]
r := ` + "`raw\\n string`" + `
t := "a" + "b"
u := "\x00\x7f"
return [s, r, t, u, "%d %s %v"]
`},
		{Name: "bools-undefined", Src: `
a := true
b := false
c := undefined
d := !a || (b && a)
e := c == undefined ? "u" : "d"
return [a, b, c, d, e]
`},
		{Name: "bytes", Src: `
b := bytes(0, 1, 2, 255)
c := bytes("héllo")
d := bytes()
b[0] = 7
return [b, c, d, b[1:3], len(c)]
`},
		{Name: "arrays", Src: `
a := []
b := [1, [2, [3, [4, []]]]]
c := [1, "two", 3.0, 'c', 5u, true, undefined, [1], {k: 1}]
b[1][0] = 9
d := append(a, 1, 2, 3)
return [a, b, c, d, c[1:4], len(c)]
`},
		{Name: "maps", Src: `
m := {}
n := {a: 1, "b c": 2, d: {e: {f: [1, 2, {g: undefined}]}}}
n.h = "x"
n["i"] = 1.5
delete(n, "a")
k := []
for key in n { k = append(k, key) }
return [m, n, len(k), n.d.e.f[2].g]
`},
		{Name: "func-literals", Src: `
add := func(a, b) { return a + b }
sub := func(a, b) { return a - b }
apply := func(f, x, y) { return f(x, y) }
noop := func() {}
id := func(x) { return x }
return [apply(add, 1, 2), apply(sub, 5, 3), noop(), id(id)(4)]
`},
		{Name: "closures", Src: `
counter := func() {
	n := 0
	return func() { n++; return n }
}
c1 := counter()
c2 := counter()
c1(); c1()
adder := func(a) { return func(b) { return func(c) { return a + b + c } } }
return [c1(), c2(), adder(1)(2)(3)]
`},
		{Name: "closure-loop", Src: `
fs := []
for i := 0; i < 3; i++ {
	j := i
	fs = append(fs, func() { return j * 10 })
}
out := []
for f in fs { out = append(out, f()) }
return out
`},
		{Name: "variadic", Src: `
sum := func(...xs) {
	t := 0
	for x in xs { t += x }
	return t
}
first := func(a, ...rest) { return [a, rest] }
return [sum(), sum(1), sum(1, 2, 3), sum(...[4, 5]), first(1), first(1, 2, 3), first(...[7, 8])]
`},
		{Name: "param-global", Src: `
param (a, b, ...rest)
global g
global (h, k)
g = a
h = len(rest)
return [a, b, rest, g, h, k]
`},
		{Name: "var-const", Src: `
var x
var (y = 2, z)
const c = 10
const (
	d = iota
	e
	f
)
x = c + y
return [x, y, z, c, d, e, f]
`},
		{Name: "try-catch", Src: `
r := []
try {
	throw "boom"
} catch err {
	r = append(r, string(err))
}
zero := len(r) - 1
try {
	x := 1 / zero
	r = append(r, x)
} catch e {
	r = append(r, isError(e))
}
return r
`},
		{Name: "try-finally", Src: `
log := []
f := func(v) {
	try {
		if v { throw error("bad") }
		return "ok"
	} catch err {
		log = append(log, err.Message)
		return "caught"
	} finally {
		log = append(log, "fin")
	}
}
return [f(false), f(true), log]
`},
		{Name: "try-nested", Src: `
out := []
try {
	try {
		throw TypeError.New("inner")
	} finally {
		out = append(out, 1)
	}
} catch e {
	out = append(out, isError(e, TypeError))
	try { throw e } catch { out = append(out, 2) } finally { out = append(out, 3) }
}
return out
`},
		{Name: "loops", Src: `
t := 0
for i := 0; i < 10; i++ {
	if i == 3 { continue }
	if i == 8 { break }
	t += i
}
n := 5
for n > 0 { n-- }
for { break }
k := 0
for k < 3 { k += 2 }
return [t, n, k]
`},
		{Name: "for-in", Src: `
acc := []
for i, v in [10, 20, 30] { acc = append(acc, i + v) }
for k, v in {a: 1} { acc = append(acc, k, v) }
for i, c in "héy" { acc = append(acc, c) }
for b in bytes(1, 2) { acc = append(acc, b) }
return acc
`},
		{Name: "if-else", Src: `
param n
r := ""
if n == undefined {
	r = "undef"
} else if n < 0 {
	r = "neg"
} else if n == 0 {
	r = "zero"
} else {
	r = "pos"
}
if x := 5; x > 3 { r += "!" }
return r
`},
		{Name: "operators", Src: `
param (a, b)
a = a || 7
b = b || 3
return [a + b, a - b, a * b, a / b, a % b, a & b, a | b, a ^ b, a &^ b, a << b, a >> b,
	a == b, a != b, a < b, a <= b, a > b, a >= b, -a, +a, ^a, !a, a && b, a || b]
`},
		{Name: "assign-ops", Src: `
x := 100
x += 5; x -= 3; x *= 2; x /= 4; x %= 13
x |= 8; x &= 0xff; x ^= 1; x <<= 2; x >>= 1; x &^= 2
x++
x--
y := "s"
y += "t"
return [x, y]
`},
		{Name: "ternary-logic", Src: `
param v
a := v ? 1 : 2
b := v == undefined ? (a > 1 ? "x" : "y") : "z"
c := v && v.field
d := v || {field: 1}
e := d.field != undefined ? d.field : 0
return [a, b, c, d, e]
`},
		{Name: "index-slice", Src: `
a := [0, 1, 2, 3, 4, 5]
s := "hello world"
m := {k: [1, 2, {z: "deep"}]}
return [a[0], a[len(a)-1], a[1:3], a[:2], a[4:], a[:], s[0], s[0:5], s[6:], m.k[2].z, m["k"][0], m.none]
`},
		{Name: "builtins", Src: `
x := [len("abc"), cap([1, 2]), typeName(1), string(12), int("34"), uint(5), float(2), char(65),
	bool(0), bytes("ab"), chars("ab"), contains("abc", "b"), copy([1]), repeat("a", 3),
	sort([3, 1, 2]), sortReverse([1, 2, 3]), isInt(1), isString(""), isArray([]), isMap({}),
	isFunction(len), isCallable(func(){}), isIterable(""), isUndefined(undefined)]
return x
`},
		{Name: "builtin-values", Src: `
fns := [len, append, delete, copy, error, string, printf, println, sprintf, globals]
errs := [WrongNumArgumentsError, InvalidOperatorError, IndexOutOfBoundsError, NotIterableError,
	NotIndexableError, NotIndexAssignableError, NotCallableError, NotImplementedError,
	ZeroDivisionError, TypeError]
return [len(fns), len(errs)]
`},
		{Name: "errors", Src: `
e1 := error("plain")
e2 := TypeError.New("typed")
e3 := e2.New("again")
r := [e1.Name, e1.Message, e2.Name, e3.Message, isError(e3, TypeError), string(e1)]
empty := []
nofn := e1.none
try { empty[1] } catch e { r = append(r, e.Name) }
try { nofn() } catch e { r = append(r, e.Name) }
try { throw e2 } catch e { r = append(r, e == e2) }
return r
`},
		{Name: "recursion", Src: `
var fib
fib = func(n) {
	if n < 2 { return n }
	return fib(n-1) + fib(n-2)
}
var (even, odd)
even = func(n) { return n == 0 ? true : odd(n-1) }
odd = func(n) { return n == 0 ? false : even(n-1) }
return [fib(10), even(10), odd(7)]
`},
		{Name: "callname-methods", Src: `
obj := {
	v: 3,
	get: func() { return 1 },
	add: func(a, b) { return a + b },
	cnt: func(...a) { return len(a) },
}
arr := [func(x) { return x * 2 }]
return [obj.get(), obj.add(1, 2), obj.cnt(1, 2, 3), obj.cnt(...[1, 2]), arr[0](4)]
`},
		{Name: "shadow-scopes", Src: `
x := 1
f := func() {
	x := 2
	g := func() {
		x := 3
		return x
	}
	return [x, g()]
}
if true {
	x := 4
	x++
}
for x := 0; x < 1; x++ {}
return [x, f()]
`},
		{Name: "free-vars-write", Src: `
a := 0
b := []
inc := func() { a += 1; b = append(b, a) }
dec := func() { a -= 1 }
inc(); inc(); dec(); inc()
mk := func(p) { return {get: func() { return p }, set: func(v) { p = v }} }
o := mk(5)
o.set(6)
return [a, b, o.get()]
`},
		{Name: "many-constants", Src: `
return [101, 102, 103, 104, 105, 106, 107, 108, 109, 110, 1.01, 1.02, 1.03, 1.04,
	"k01", "k02", "k03", "k04", "k05", "k06", 'q', 'r', 's', 201u, 202u, 203u,
	{k01: 101, k02: "k03"}, 101, "k01", 1.01]
`},
		{Name: "long-string", Src: `
s := "0123456789abcdef0123456789abcdef0123456789abcdef0123456789abcdef0123456789abcdef0123456789abcdef0123456789abcdef0123456789abcdef-128plus"
t := s + s
return [len(s), len(t), s[120:]]
`},
		{Name: "multi-line-funcs", Src: `
compose := func(...fns) {
	return func(x) {
		for f in fns {
			x = f(x)
		}
		return x
	}
}

double := func(x) {
	return x * 2
}

inc := func(x) {
	return x + 1
}

return compose(double, inc, double)(5)
`},
		{Name: "src-module", Mods: modsSrc, Src: `
m1 := import("m1")
a := m1.incr(1)
b := m1.decr(a)
return [a, b, m1.count()]
`},
		{Name: "src-modules-nested", Mods: modsSrc, Src: `
m2 := import("m2")
m1 := import("m1")
again := import("m1")
x := m2(1)
return [x, m1.count(), again.count(), m1 == again]
`},
		{Name: "std-strings", Mods: modsStd, Src: `
strings := import("strings")
a := strings.ToUpper("abc")
b := strings.Split("a,b,c", ",")
c := strings.Join(b, "-")
d := strings.Contains(c, "-")
return [a, b, c, d, strings.Repeat("x", 3), strings.TrimSpace("  y ")]
`},
		{Name: "std-json", Mods: modsStd, Src: `
json := import("json")
enc := json.Marshal({a: [1, 2.5, "s", true, undefined]})
dec := json.Unmarshal(enc)
ind := json.MarshalIndent([1], "", " ")
return [string(enc), dec, string(ind), json.Valid(enc), json.Quote("<>")]
`},
		{Name: "std-time", Mods: modsStd, Src: `
time := import("time")
d := 90 * time.Second
t := time.Date(2024, 2, 29, 23, 59, 59)
u := t.Add(d)
return [time.DurationString(d), t.Year, u.Month, time.Since(t) > 0, time.Hour / time.Minute, time.UTC]
`},
		{Name: "std-fmt", Mods: modsStd, Src: `
fmt := import("fmt")
a := fmt.Sprintf("%d-%s-%v", 1, "two", [3])
b := fmt.Sprint("x", 1, 2.5)
c := fmt.Sprintln("y")
return [a, b, c]
`},
		{Name: "std-all", Mods: modsStd, Src: `
fmt := import("fmt")
strings := import("strings")
time := import("time")
json := import("json")
v := int(json.Unmarshal(json.Marshal(1)))
v = int(strings.Join([v], ""))
v = int(fmt.Sprintf("%d", v))
return v * time.Second / time.Second
`},
		{Name: "mixed-modules", Mods: modsMixed, Src: `
strings := import("strings")
util := import("util")
gomod := import("gomod")
up := func(s) { return strings.ToUpper(s) + "!" }
return [util.twice(up, "a"), util.name, gomod.answer, gomod.label, gomod.run(1, 2)]
`},
		{Name: "near-miss-module", Mods: modsMixed, Src: `
s1 := import("strings")
s2 := import("strinhs")
return [s1.ToUpper("a"), s2.ToUpper("b")]
`},
		{Name: "module-in-func", Mods: modsMixed, Src: `
f := func() {
	u := import("util")
	return u.twice(func(x) { return x + 1 }, 0)
}
g := func() {
	try {
		return import("gomod").run()
	} finally {
		f()
	}
}
return [f(), g()]
`},
		{Name: "kitchen-sink", Mods: modsMixed, Src: `
param (n, ...opts)
global out
fmt := import("fmt")
util := import("util")
n = n || 4
acc := {total: 0, items: [], tag: 'x', ratio: 0.5, big: 1u}
step := func(i, ...extra) {
	try {
		if i % 3 == 0 { throw error(fmt.Sprintf("skip %d", i)) }
		acc.items = append(acc.items, i, ...extra)
		acc.total += i
	} catch e {
		acc.items = append(acc.items, e.Message)
	} finally {
		acc.ratio *= 2
	}
}
for i := 0; i < n; i++ { step(i, "e") }
out = util.twice(func(x) { return x + acc.total }, 1)
return [acc, out, opts]
`},
	}
}
