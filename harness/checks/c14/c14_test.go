// C14 - calling a script function from Go (ugo.Invoker) equals calling it inside the script.
//
// Metamorphic pair over generated scripts whose functions (closures over mutated cells, variadic,
// recursive, throwing, importing, global-using, function-returning, re-entering) are called only
// through a call operator CALL with accepted argument counts:
//
//	run 1: CALL is a script function `func(f, ...a) { return f(...a) }`; the Go-side plan is executed in-script;
//	run 2: CALL is a Go ExCallerObject using NewInvoker(c.VM(), f) in a mode (pooled, un-pooled, alternate,
//	       Acquire without Release, one Invoker for two Invokes, re-acquire); after vm.Run returned a plan of
//	       new/Acquire/Invoke/Release steps over the returned functions is executed from Go.
//
// Termination of generated scripts: in-VM recursion and self re-entry through CALL are guarded by
// `isInt(p0) && 0 < p0 <= 4` with a decreasing argument; other nested calls go to functions with a
// smaller index; function-valued arguments are created only by the main script and are called with
// literals only.
package c14

import (
	"encoding/json"
	"flag"
	"fmt"
	"strings"
	"testing"

	"pgregory.net/rapid"

	"verif/internal/ev"
	"verif/internal/gen"
	"verif/internal/prog"
	"verif/internal/run"
)

func newCase(sp *spec, mode string, noopt bool) *replayCase {
	c := &replayCase{
		Case:       prog.Case{Src: sp.Src, Globals: sp.Globals},
		Mode:       mode,
		Recover:    sp.Recover,
		NoOptimize: noopt,
		Ret:        sp.Ret,
		Shapes:     shapesOf(sp.Fns),
		FnShapes:   map[string]string{},
	}
	for _, f := range sp.Fns {
		c.FnShapes[f.Name] = shapesOf([]*fnInfo{f})
	}
	if len(sp.Modules) > 0 {
		c.Modules = sp.Modules
	}
	return c
}

// slotState tracks which invoker slots exist while a plan is drawn.
type slotState struct {
	fn [3]int // -1 = no invoker in the slot
}

func newSlots() *slotState { return &slotState{fn: [3]int{-1, -1, -1}} }

// drawOp draws the next valid plan step.
func drawOp(rt *rapid.T, sp *spec, st *slotState) op {
	var live []int
	for s, f := range st.fn {
		if f >= 0 {
			live = append(live, s)
		}
	}
	k := gen.Uniform(rt, 20, "opkind")
	if len(live) == 0 || k < 4 {
		s := gen.Uniform(rt, len(st.fn), "slot")
		// returned-function variables (the last two entries) are picked less often: they may be undefined
		f := gen.Uniform(rt, len(sp.Ret), "fn")
		if f >= len(sp.Fns) && gen.Uniform(rt, 2, "fnre") == 0 {
			f = gen.Uniform(rt, len(sp.Fns), "fn2")
		}
		st.fn[s] = f
		return op{Op: "new", Slot: s, Fn: f}
	}
	s := live[gen.Uniform(rt, len(live), "liveslot")]
	switch {
	case k < 8:
		return op{Op: "acquire", Slot: s}
	case k < 11:
		return op{Op: "release", Slot: s}
	}
	return op{Op: "invoke", Slot: s, Args: goArgs(rt, sp, st.fn[s], "ga")}
}

func interesting(shapes map[string]bool) bool {
	return shapes["closure"] || shapes["variadic"] || shapes["throwing"] || shapes["importing"]
}

// classify records classes and non-triviality of a judged pair.
func classify(rec *ev.Rec, sp *spec, c *replayCase, o1 run.Outcome, s *goSide, kind string) {
	st := s.e.st
	mode := c.Mode
	rec.Class("mode:" + mode)
	if c.History != "" {
		rec.Class("pool-history:" + c.History)
	}
	if c.Recover {
		rec.Class("recover:on")
	} else {
		rec.Class("recover:off")
	}
	// shapes of the functions actually invoked from Go (mapped through the returned function values)
	invoked := map[string]bool{}
	anyInteresting := false
	if s.fns != nil {
		for i, f := range sp.Fns {
			if i < len(s.fns) && st.invoked(s.fns[i]) {
				for sh := range f.Shapes {
					invoked[sh] = true
				}
				if len(f.Shapes) == 0 {
					invoked["plain"] = true
				}
				if interesting(f.Shapes) {
					anyInteresting = true
				}
			}
		}
		for i := len(sp.Fns); i < len(s.fns); i++ {
			if st.invoked(s.fns[i]) {
				invoked["returned-closure"] = true
				anyInteresting = true
			}
		}
	} else if st.goInvokes > 0 {
		invoked["unmapped(script-error)"] = true
	}
	for sh := range invoked {
		rec.Class("invoked:" + sh + " x " + mode)
	}
	for _, k := range sortedKeys(sp.Features) {
		if strings.HasPrefix(k, "ctx-") {
			rec.Class(k)
		}
	}
	switch {
	case st.goInvokes == 0:
		rec.Class("go-invokes:0")
	case st.goInvokes < 4:
		rec.Class("go-invokes:1-3")
	case st.goInvokes < 16:
		rec.Class("go-invokes:4-15")
	default:
		rec.Class("go-invokes:16+")
	}
	if st.nested > 0 {
		rec.Class("child-reentered(nested CALL)")
	}
	if st.maxDepth >= 3 {
		rec.Class("child-depth>=3")
	}
	if st.errs > 0 {
		rec.Class("invoke-returned-error")
	}
	if st.afterRun > 0 {
		rec.Class("after-run-invocations")
	}
	if r := st.recycled(); r > 0 {
		rec.Class("pooled-vm-recycled")
	}
	switch {
	case o1.IsErr:
		rec.Class("outcome:uncaught-error:" + o1.ErrName)
	default:
		rec.Class("outcome:value")
	}
	rec.Class(kind)
	if anyInteresting && st.recycled() > 0 {
		rec.Class("nontrivial")
		key, _ := json.Marshal(c.Plan)
		rec.NonTriv(c.Src + "\x00" + mode + "\x00" + string(key))
	}
	rec.Sample(map[string]any{"src2": c.src2(), "mode": mode, "plan": c.Plan, "shapes": c.Shapes,
		"go_invokes": st.goInvokes, "recycled_vms": st.recycled(), "outcome": o1.String()})
}

// judge compares the two runs. It returns "" when they agree, the signature + text otherwise.
func judge(c *replayCase, o1, o2 run.Outcome) (sig, what string) {
	d := o1.Diff(o2, true)
	if d == "" {
		return "", ""
	}
	mode := c.Mode
	if c.Stateful {
		mode += "+stateful"
	} else if len(c.Plan) > 0 {
		mode += "+after"
	}
	sig = "invoke:" + diffKind(d) + ":" + c.blame(o1, o2) + ":" + mode
	what = fmt.Sprintf("Go-side invocation (mode %s, recover=%v, NoOptimize=%v, pool history %q) differs from the in-script call: %s\n--- run 2 script (CALL = Go Invoker) ---\n%s\nplan after run: %+v\nrun 1 (in-script): %s\nrun 2 (Invoker)  : %s",
		c.Mode, c.Recover, c.NoOptimize, c.History, d, c.src2(), c.Plan, o1, o2)
	return sig, what
}

// inconclusive / excluded outcomes: never violations.
func notJudged(rec *ev.Rec, o1, o2 run.Outcome) bool {
	switch {
	case o1.TimedOut || o2.TimedOut:
		rec.Inconcl("watchdog")
		return true
	case o1.Panic != "":
		// the in-script call panics as well: not a difference between the two ways of calling
		rec.Exclude("in-script-run-panics-too")
		return true
	case len(o1.Log) >= 5000 || len(o2.Log) >= 5000:
		rec.Inconcl("log-cap")
		return true
	}
	return false
}

func TestCheck(t *testing.T) {
	rec := ev.New("C14")
	rec.Rule = "own generator on package gen's AST: 1-5 functions with shapes {closure over mutated cells, variadic, recursive (tail / non-tail / discarded, and self re-entry through CALL), throwing (throw values, builtin error constructors, failing operators), try/catch/finally incl. return inside try, importing (modules with load-time log and private state), globals read+write, returning closures, higher-order, nested CALL, caught Go panic (recover on)} called only through CALL(f, args...) with accepted argument counts from contexts {caught, uncaught, inside finally (also with a pending error), inside catch, loops, fresh loop closures, returned functions, functions exported by modules, direct calls interleaved}; x mode of the Go operator {pooled, unpooled, alternate, pooled-norelease, reuse2-pooled, reuse2-unpooled, reuse2-reacquire} x recover on/off x optimizer on/off x history of the process-wide VM pool before run 2 {none, children ended by Abort, by an escaping Go panic, by an error} x a plan of new/Acquire/Invoke/Release steps over 3 invoker slots executed from Go after vm.Run (in-script at the end of run 1). Stateful variant: rapid Repeat draws the plan step by step and after every step the Go side (per-invoke result + read-back through an Invoker) is compared with the in-script model of the plan so far. Non-trivial = >= 1 Go-side Invoke of a closure/variadic/throwing/importing function (identified by function value) and >= 1 child VM observed (pointer identity via Call.VM() in L) running under >= 2 different Invokers/acquisitions, i.e. a recycled pooled VM; distinct by source + mode + plan"
	rec.Assumptions = []string{
		"only accepted argument counts are passed (Go-side calls are lenient for wrong counts: out of scope)",
		"single goroutine per VM: the Invoker is never used concurrently",
		"compared: returned value, uncaught error Name+Message, caught errors' Name/Message as logged by the outer script, data globals, read-back of cells/globals/module state, L log; stack traces are not compared",
		"generated functions never mutate an argument array in place (the script-level CALL aliases its variadic array when spreading it; that is an artefact of the model, not of the callee)",
		"a Go panic raised in a callee (recover on) is always caught inside the callee, so no Go stack text reaches a compared message",
		"a run whose in-script variant panics too, hits the watchdog or the 5000 entry log cap is not judged",
	}
	defer func() { rec.Flush(!t.Failed() || rec.HasUnknown()) }()

	runReplays(t, rec)
	if ev.ReplayOnly() {
		return
	}

	ev.RapidCheck(t, "stdlib-callers", ev.N(4000, 60000), 3, func(rt *rapid.T) { stdlibCallers(rt, rec) })
	rec.Unfreeze()

	n := ev.N(2500, 30000)
	ev.RapidCheck(t, "pair", n, 1, func(rt *rapid.T) {
		recov := gen.Uniform(rt, 100, "recover") < 35
		noopt := gen.Uniform(rt, 100, "noopt") < 30
		mode := modes[gen.Uniform(rt, len(modes), "mode")]
		sp := genSpec(rt, recov, 1, 6)
		c := newCase(sp, mode, noopt)
		c.History = pollutions[gen.Uniform(rt, len(pollutions), "history")]
		if gen.Uniform(rt, 100, "hasplan") < 60 {
			st := newSlots()
			for i, np := 0, 1+gen.Uniform(rt, 10, "planlen"); i < np; i++ {
				c.Plan = append(c.Plan, drawOp(rt, sp, st))
			}
		}
		rec.Case()
		o1, err := c.run1()
		if err != nil {
			rt.Fatalf("HARNESS: %v", err)
		}
		o2, s, err := c.run2()
		if err != nil {
			rt.Fatalf("HARNESS: %v", err)
		}
		if notJudged(rec, o1, o2) {
			return
		}
		if sig, what := judge(c, o1, o2); sig != "" {
			c.Run1, c.Run2 = o1.String(), o2.String()
			if rec.Violation(sig, what, c) {
				return
			}
			rt.Fatalf("%s", what)
		}
		classify(rec, sp, c, o1, s, "variant:pair")
	})

	rec.Unfreeze()
	ns := ev.N(500, 6000)
	_ = flag.Set("rapid.steps", "14")
	ev.RapidCheck(t, "stateful", ns, 2, func(rt *rapid.T) {
		recov := gen.Uniform(rt, 100, "recover") < 50
		noopt := gen.Uniform(rt, 100, "noopt") < 30
		mode := modes[gen.Uniform(rt, len(modes), "mode")]
		sp := genSpec(rt, recov, 0, 2)
		c := newCase(sp, mode, noopt)
		c.History = pollutions[gen.Uniform(rt, len(pollutions), "history")]
		c.Stateful = true
		rec.Case()
		s, err := c.start2()
		if err != nil {
			rt.Fatalf("HARNESS: %v", err)
		}
		st := newSlots()
		var o1 run.Outcome
		stop := false
		check := func(rt *rapid.T) {
			if stop {
				return
			}
			var err error
			o1, err = c.run1()
			if err != nil {
				rt.Fatalf("HARNESS: %v", err)
			}
			o2 := s.outcome()
			if notJudged(rec, o1, o2) {
				stop = true
				return
			}
			if sig, what := judge(c, o1, o2); sig != "" {
				c.Run1, c.Run2 = o1.String(), o2.String()
				if rec.Violation(sig, what, c) {
					stop = true
					return
				}
				rt.Fatalf("%s", what)
			}
		}
		rt.Repeat(map[string]func(*rapid.T){
			"step": func(rt *rapid.T) {
				if stop || len(c.Plan) >= 24 {
					return
				}
				o := drawOp(rt, sp, st)
				c.Plan = append(c.Plan, o)
				if err := s.apply(o); err != nil {
					rt.Fatalf("%v", err)
				}
			},
			"": check,
		})
		if stop {
			return
		}
		rec.ClassN("stateful-steps", len(c.Plan))
		classify(rec, sp, c, o1, s, "variant:stateful")
	})
}

// runReplays re-executes both runs of every committed replay file.
func runReplays(t *testing.T, rec *ev.Rec) {
	for _, rf := range rec.Replays() {
		var probe struct {
			Kind string `json:"kind"`
		}
		if json.Unmarshal(rf.Case, &probe) == nil && probe.Kind == "stdlib-caller" {
			var sc stdCase
			if err := json.Unmarshal(rf.Case, &sc); err != nil {
				t.Errorf("replay %s: %v", rf.Path, err)
				continue
			}
			rec.Case()
			if sig, what := sc.judge(rec); sig != "" {
				if !rec.Violation(sig, "replay "+rf.Path+": "+what, &sc) {
					t.Errorf("replay %s: %s", rf.Path, what)
				}
			}
			continue
		}
		var c replayCase
		if err := json.Unmarshal(rf.Case, &c); err != nil {
			t.Errorf("bad replay %s: %v", rf.Path, err)
			continue
		}
		rec.Case()
		if sig, what, err := replayOne(&c); err != nil {
			t.Errorf("replay %s: %v", rf.Path, err)
		} else if sig != "" {
			if rf.Sig != "" {
				sig = rf.Sig
			}
			if !rec.Violation(sig, "replay "+rf.Path+": "+what, &c) {
				t.Errorf("replay %s: %s", rf.Path, what)
			}
		} else {
			rec.Class("replay-pass")
		}
	}
}

// replayOne re-executes a stored case; for stateful cases every prefix of the plan is compared.
func replayOne(c *replayCase) (sig, what string, err error) {
	if !c.Stateful {
		o1, err := c.run1()
		if err != nil {
			return "", "", err
		}
		o2, _, err := c.run2()
		if err != nil {
			return "", "", err
		}
		if o1.TimedOut || o2.TimedOut {
			return "", "", nil
		}
		sig, what = judge(c, o1, o2)
		return sig, what, nil
	}
	full := c.Plan
	defer func() { c.Plan = full }()
	c.Plan = nil
	s, err := c.start2()
	if err != nil {
		return "", "", err
	}
	for i := 0; i <= len(full); i++ {
		if i > 0 {
			c.Plan = full[:i]
			if err := s.apply(full[i-1]); err != nil {
				return "", "", err
			}
		}
		o1, err := c.run1()
		if err != nil {
			return "", "", err
		}
		o2 := s.outcome()
		if o1.TimedOut || o2.TimedOut {
			return "", "", nil
		}
		if sig, what = judge(c, o1, o2); sig != "" {
			return sig, what, nil
		}
	}
	return "", "", nil
}
