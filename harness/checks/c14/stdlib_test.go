package c14

// The Go callers of script functions that ship with uGO: strings.Map / IndexFunc / LastIndexFunc /
// FieldsFunc / TrimFunc / TrimLeftFunc / TrimRightFunc invoke a script function per character through
// a pooled Invoker. Model: Go's own strings functions driven by a Go predicate built from the SAME
// behaviour table the script predicate is rendered from (per character: truthy / falsy values of
// several types, or throw; optionally a throw at the k-th call). Expected: if the predicate threw,
// the call of the strings function raises exactly that error (catchable in the script, or returned
// from Run); otherwise its value equals Go's, and the predicate saw the same characters in the same
// order. Calls made after a throw are not compared.

import (
	"fmt"
	"strings"
	"unicode/utf8"

	"github.com/ozanh/ugo"
	ugostrings "github.com/ozanh/ugo/stdlib/strings"
	"pgregory.net/rapid"

	"verif/internal/canon"
	"verif/internal/ev"
	"verif/internal/gen"
	"verif/internal/run"
)

type sbeh struct {
	Kind string `json:"kind"` // true false one zero str empty undef throw | map: char drop str1 undef throw
	R    rune   `json:"r,omitempty"`
}

type stdCase struct {
	Kind    string          `json:"kind"` // "stdlib-caller"
	Fn      string          `json:"fn"`
	S       string          `json:"s"`
	Table   map[string]sbeh `json:"table"`
	Default sbeh            `json:"default"`
	ThrowAt int             `json:"throw_at"` // 0 = never, k = the k-th call throws
	Caught  bool            `json:"caught"`
	NoOpt   bool            `json:"no_optimize"`
	Src     string          `json:"src"`
	Want    string          `json:"want"`
	Got     string          `json:"got"`
}

var stdFns = []string{"IndexFunc", "LastIndexFunc", "FieldsFunc", "TrimFunc", "TrimLeftFunc", "TrimRightFunc", "Map"}
var stdAlphabet = []rune{'a', 'b', 'c', ' ', 'é', '✓', 'z'}
var predKinds = []string{"true", "false", "one", "zero", "str", "empty", "undef", "throw"}
var mapKinds = []string{"char", "char", "drop", "str1", "undef", "same", "throw"}

func charLit(r rune) string { return gen.ExprSrc(&gen.Lit{Kind: gen.LChar, I: int64(r)}) }

func (b sbeh) stmt(isMap bool, c rune) string {
	switch b.Kind {
	case "true":
		return "return true"
	case "false":
		return "return false"
	case "one":
		return "return 1"
	case "zero":
		return "return 0"
	case "str":
		return `return "x"`
	case "empty":
		return `return ""`
	case "undef":
		return "return"
	case "throw":
		return `throw error("bad " + string(c))`
	case "char":
		return "return " + charLit(b.R)
	case "drop":
		return "return -1"
	case "str1":
		return `return "` + string(b.R) + `q"`
	case "same":
		return "return c"
	}
	panic("bad behaviour " + b.Kind)
}

func (c *stdCase) render() string {
	isMap := c.Fn == "Map"
	var sb strings.Builder
	sb.WriteString("strings := import(\"strings\")\nglobal L\nn := 0\npred := func(c) {\n  n++\n  L(string(c))\n")
	if c.ThrowAt > 0 {
		fmt.Fprintf(&sb, "  if n == %d { throw error(\"call \" + string(n)) }\n", c.ThrowAt)
	}
	for _, r := range stdAlphabet {
		if b, ok := c.Table[string(r)]; ok {
			fmt.Fprintf(&sb, "  if c == %s { %s }\n", charLit(r), b.stmt(isMap, r))
		}
	}
	fmt.Fprintf(&sb, "  %s\n}\n", c.Default.stmt(isMap, 0))
	lit := gen.ExprSrc(gen.StrLit(c.S))
	call := fmt.Sprintf("strings.%s(%s, pred)", c.Fn, lit)
	if isMap {
		call = fmt.Sprintf("strings.Map(pred, %s)", lit)
	}
	if c.Caught {
		fmt.Fprintf(&sb, "res := undefined\ntry {\n  res = %s\n} catch e {\n  return [\"error\", e.Message, n >= 0]\n} finally {\n  L(\"fin\")\n}\nreturn [\"ok\", res]\n", call)
	} else {
		fmt.Fprintf(&sb, "res := %s\nreturn [\"ok\", res]\n", call)
	}
	return sb.String()
}

// model runs Go's strings function with a Go predicate built from the table.
func (c *stdCase) model() (val ugo.Object, errMsg string, log []string) {
	calls := 0
	thrown := ""
	beh := func(r rune) sbeh {
		if b, ok := c.Table[string(r)]; ok {
			return b
		}
		return c.Default
	}
	step := func(r rune) (sbeh, bool) {
		if thrown != "" {
			return sbeh{}, false
		}
		calls++
		log = append(log, canon.Value(ugo.String(string(r))))
		if c.ThrowAt > 0 && calls == c.ThrowAt {
			thrown = fmt.Sprintf("call %d", calls)
			return sbeh{}, false
		}
		b := beh(r)
		if b.Kind == "throw" {
			thrown = "bad " + string(r)
			return sbeh{}, false
		}
		return b, true
	}
	truthy := func(r rune) bool {
		b, ok := step(r)
		if !ok {
			return false
		}
		switch b.Kind {
		case "true", "one", "str":
			return true
		}
		return false
	}
	switch c.Fn {
	case "IndexFunc":
		val = ugo.Int(strings.IndexFunc(c.S, truthy))
	case "LastIndexFunc":
		val = ugo.Int(strings.LastIndexFunc(c.S, truthy))
	case "TrimFunc":
		val = ugo.String(strings.TrimFunc(c.S, truthy))
	case "TrimLeftFunc":
		val = ugo.String(strings.TrimLeftFunc(c.S, truthy))
	case "TrimRightFunc":
		val = ugo.String(strings.TrimRightFunc(c.S, truthy))
	case "FieldsFunc":
		arr := ugo.Array{}
		for _, f := range strings.FieldsFunc(c.S, truthy) {
			arr = append(arr, ugo.String(f))
		}
		val = arr
	case "Map":
		val = ugo.String(strings.Map(func(r rune) rune {
			b, ok := step(r)
			if !ok {
				return utf8.RuneError
			}
			switch b.Kind {
			case "char", "str1":
				return b.R
			case "drop":
				return -1
			case "same":
				return r
			}
			return utf8.RuneError // undefined is not convertible to a char
		}, c.S))
	}
	return val, thrown, log
}

func stdlibCallers(rt *rapid.T, rec *ev.Rec) {
	c := &stdCase{Kind: "stdlib-caller", Table: map[string]sbeh{}}
	c.Fn = stdFns[gen.Uniform(rt, len(stdFns), "fn")]
	isMap := c.Fn == "Map"
	n := gen.Uniform(rt, 9, "len")
	var sb strings.Builder
	for i := 0; i < n; i++ {
		sb.WriteRune(stdAlphabet[gen.Uniform(rt, len(stdAlphabet), "ch")])
	}
	c.S = sb.String()
	draw := func(label string, allowThrow bool) sbeh {
		kinds := predKinds
		if isMap {
			kinds = mapKinds
		}
		for {
			k := kinds[gen.Uniform(rt, len(kinds), label)]
			if k == "throw" && !allowThrow {
				k = kinds[0]
			}
			b := sbeh{Kind: k}
			if k == "char" || k == "str1" {
				b.R = stdAlphabet[gen.Uniform(rt, len(stdAlphabet), label+"-r")]
			}
			return b
		}
	}
	for _, r := range stdAlphabet {
		if gen.Uniform(rt, 100, "has") < 60 {
			c.Table[string(r)] = draw("beh", true)
		}
	}
	c.Default = draw("default", false)
	if gen.Uniform(rt, 100, "throwat?") < 25 {
		c.ThrowAt = 1 + gen.Uniform(rt, 6, "throwat")
	}
	c.Caught = gen.Uniform(rt, 2, "caught") == 0
	c.NoOpt = gen.Uniform(rt, 3, "noopt") == 0
	c.Src = c.render()
	rec.Case()
	sig, what := c.judge(rec)
	if sig != "" {
		if rec.Violation(sig, what, c) {
			return
		}
		rt.Fatalf("%s", what)
	}
}

func (c *stdCase) judge(rec *ev.Rec) (sig, what string) {
	mm := ugo.NewModuleMap()
	mm.AddBuiltinModule("strings", ugostrings.Module)
	bc, err := ugo.Compile([]byte(c.Src), ugo.CompilerOptions{ModuleMap: mm, NoOptimize: c.NoOpt})
	if err != nil {
		rec.Inconcl("stdlib-caller-script-does-not-compile")
		return "", ""
	}
	lg := &run.Logger{}
	out := run.Exec(bc, run.Globals(nil, lg), lg, nil, run.Opts{Recover: false})
	if out.TimedOut {
		rec.Inconcl("vm-watchdog")
		return "", ""
	}
	wantVal, wantErr, wantLog := c.model()
	c.Got = out.String()
	head := fmt.Sprintf("strings.%s over %q (caught=%v, optimizer off=%v)", c.Fn, c.S, c.Caught, c.NoOpt)
	tail := "\n--- script ---\n" + c.Src
	if out.Panic != "" {
		return "stdlib:" + c.Fn + ":go-panic", head + ": a Go panic escaped: " + out.Panic + tail
	}
	// the log up to the throw (all of it when nothing is thrown); "fin" is the finally marker
	var gotLog []string
	fin := 0
	for _, l := range out.Log {
		if l == canon.Value(ugo.String("fin")) {
			fin++
			continue
		}
		gotLog = append(gotLog, l)
	}
	if c.Caught && fin != 1 {
		return "stdlib:" + c.Fn + ":finally-count", fmt.Sprintf("%s: the finally block around the call ran %d times", head, fin) + tail
	}
	if wantErr != "" {
		c.Want = "error " + wantErr
		rec.Class("stdlib-caller:predicate-throws")
		if len(wantLog) < len(strings.Split(c.S, "")) {
			rec.Class("stdlib-caller:throw-before-last-char")
		}
		gotMsg, isErr := "", false
		if c.Caught {
			isErr = strings.HasPrefix(out.Value, `[s"error"`)
			gotMsg = out.Value
		} else {
			isErr = out.IsErr
			gotMsg = out.ErrMsg
		}
		if !isErr {
			return "stdlib:" + c.Fn + ":thrown-error-lost", fmt.Sprintf("%s: the predicate threw %q at call %d, but the call returned normally: %s", head, wantErr, len(wantLog), out.String()) + tail
		}
		if !strings.Contains(gotMsg, wantErr) {
			return "stdlib:" + c.Fn + ":wrong-error", fmt.Sprintf("%s: the predicate threw %q, the caller got %s", head, wantErr, out.String()) + tail
		}
		if len(gotLog) < len(wantLog) || strings.Join(gotLog[:len(wantLog)], ",") != strings.Join(wantLog, ",") {
			return "stdlib:" + c.Fn + ":calls-differ", fmt.Sprintf("%s: calls up to the throw %v, expected %v", head, gotLog, wantLog) + tail
		}
		if len(gotLog) > len(wantLog) {
			rec.Class("stdlib-caller:called-again-after-throw(not judged)")
		}
		rec.NonTriv(c.Src)
		return "", ""
	}
	want := canon.Value(ugo.Array{ugo.String("ok"), wantVal})
	c.Want = want
	rec.Class("stdlib-caller:" + c.Fn)
	if out.IsErr {
		return "stdlib:" + c.Fn + ":unexpected-error", fmt.Sprintf("%s: expected %s, got %s", head, want, out.String()) + tail
	}
	if out.Value != want {
		return "stdlib:" + c.Fn + ":value-differs", fmt.Sprintf("%s: expected %s, got %s", head, want, out.Value) + tail
	}
	if strings.Join(gotLog, ",") != strings.Join(wantLog, ",") {
		return "stdlib:" + c.Fn + ":calls-differ", fmt.Sprintf("%s: the predicate was called with %v, expected %v", head, gotLog, wantLog) + tail
	}
	if len(wantLog) >= 2 {
		rec.NonTriv(c.Src)
	}
	return "", ""
}
