package c14

// Execution of the metamorphic pair: run 1 (CALL is a script function, the
// Go-side plan is executed in-script) and run 2 (CALL is a Go ExCallerObject
// using ugo.Invoker in a mode, the plan is executed from Go after vm.Run).

import (
	"fmt"
	"regexp"
	"sort"
	"strings"
	"time"

	"github.com/ozanh/ugo"

	"verif/internal/canon"
	"verif/internal/prog"
	"verif/internal/run"
)

// Modes of the Go-side CALL operator. Each has a semantically identical script definition.
var modes = []string{"pooled", "unpooled", "alternate", "pooled-norelease", "reuse2-pooled", "reuse2-unpooled", "reuse2-reacquire"}

func modeTwice(mode string) bool { return strings.HasPrefix(mode, "reuse2") }

// scriptCALL is run 1's definition of the operator.
func scriptCALL(mode string) string {
	if modeTwice(mode) {
		return "CALL := func(f, ...a) { f(...a); return f(...a) }"
	}
	return "CALL := func(f, ...a) { return f(...a) }"
}

// replayCase is the replayable form: {prog.Case, mode, call plan}.
type replayCase struct {
	prog.Case
	Mode       string            `json:"mode"`
	Recover    bool              `json:"recover"`
	NoOptimize bool              `json:"no_optimize"`
	Ret        []string          `json:"ret"`            // identifiers handed to Go after the run
	Plan       []op              `json:"plan,omitempty"` // Go-side plan after vm.Run (run 1: in-script at the end)
	Stateful   bool              `json:"stateful,omitempty"`
	History    string            `json:"history,omitempty"` // what happened to pooled VMs before run 2 (see history_test.go)
	Shapes     string            `json:"shapes"`
	FnShapes   map[string]string `json:"fn_shapes,omitempty"` // shape of every function by name
	Run1       string            `json:"run1,omitempty"`
	Run2       string            `json:"run2,omitempty"`
}

// src1 / src2 render the two variants of the shared source.
func (c *replayCase) src1() string {
	var sb strings.Builder
	sb.WriteString("ar := []\n")
	slotFn := map[int]int{}
	n := 0
	for _, o := range c.Plan {
		switch o.Op {
		case "new":
			slotFn[o.Slot] = o.Fn
		case "invoke":
			n++
			fmt.Fprintf(&sb, "try { ar = append(ar, [\"ok\", %s(%s)]) } catch e%d { ar = append(ar, [\"err\", e%d]) }\n",
				c.Ret[slotFn[o.Slot]], strings.Join(o.Args, ", "), n, n)
			if c.Stateful {
				sb.WriteString("ar = append(ar, rb())\n")
			}
		}
	}
	if c.Stateful {
		sb.WriteString("return [out, ar]\n")
	} else {
		sb.WriteString("return [out, ar, rb()]\n")
	}
	s := strings.Replace(c.Src, markCall, scriptCALL(c.Mode), 1)
	return strings.Replace(s, markEnd, sb.String(), 1)
}

func (c *replayCase) src2() string {
	s := strings.Replace(c.Src, markCall, "global (CALL, KEEP)", 1)
	return strings.Replace(s, markEnd, "KEEP(out, ["+strings.Join(c.Ret, ", ")+"], rb)\nreturn undefined\n", 1)
}

// stats of one Go-side run (evidence of non-triviality).
type stats struct {
	goInvokes  int                      // Invoke calls on compiled functions from Go
	byVM       map[*ugo.VM]map[int]bool // child VM -> invoker ids that ran on it
	root       *ugo.VM
	nested     int // CALL entered while another Go-side invocation was running
	maxDepth   int
	errs       int // Invoke returned an error
	afterRun   int
	invokedFns map[*ugo.CompiledFunction]bool
}

func (s *stats) invoked(o ugo.Object) bool {
	cf, ok := o.(*ugo.CompiledFunction)
	return ok && s.invokedFns[cf]
}

func (s *stats) recycled() int {
	n := 0
	for vm, ids := range s.byVM {
		if vm != s.root && len(ids) >= 2 {
			n++
		}
	}
	return n
}

// env is the Go side of one run.
type env struct {
	mode    string
	lg      *run.Logger
	st      *stats
	invSeq  int   // invoker ids
	cur     []int // stack of invoker ids currently invoking
	calls   int   // CALL invocations (for mode alternate)
	kept    []ugo.Object
	hasKept bool
}

func newEnv(mode string) *env {
	return &env{mode: mode, lg: &run.Logger{}, st: &stats{byVM: map[*ugo.VM]map[int]bool{}, invokedFns: map[*ugo.CompiledFunction]bool{}}}
}

// logFn is the global L: run.Logger's function, additionally noting on which VM it was called.
func (e *env) logFn() *ugo.Function {
	inner := e.lg.Func()
	return &ugo.Function{Name: "L", ValueEx: func(c ugo.Call) (ugo.Object, error) {
		if vm := c.VM(); vm != nil && len(e.cur) > 0 {
			m := e.st.byVM[vm]
			if m == nil {
				m = map[int]bool{}
				e.st.byVM[vm] = m
			}
			m[e.cur[len(e.cur)-1]] = true
		}
		args := make([]ugo.Object, 0, c.Len())
		for i := 0; i < c.Len(); i++ {
			args = append(args, c.Get(i))
		}
		return inner.Value(args...)
	}}
}

func (e *env) invoke(inv *ugo.Invoker, id int, callee ugo.Object, args []ugo.Object) (ugo.Object, error) {
	e.cur = append(e.cur, id)
	if len(e.cur) > e.st.maxDepth {
		e.st.maxDepth = len(e.cur)
	}
	if cf, ok := callee.(*ugo.CompiledFunction); ok {
		e.st.goInvokes++
		e.st.invokedFns[cf] = true
	}
	// a Go caller may re-use its argument buffer for the next call: what the callee keeps of its
	// arguments (the array packed for a variadic parameter, say) must not alias that buffer
	buf := make([]ugo.Object, len(args))
	copy(buf, args)
	v, err := inv.Invoke(buf...)
	for i := range buf {
		buf[i] = ugo.String("<the caller re-used its argument buffer>")
	}
	e.cur = e.cur[:len(e.cur)-1]
	if err != nil {
		e.st.errs++
	}
	return v, err
}

// callFn is run 2's CALL: an ExCallerObject invoking its first argument through an Invoker.
// The error of Invoke is returned unchanged so that it propagates like an in-script throw.
func (e *env) callFn() *ugo.Function {
	return &ugo.Function{Name: "CALL", ValueEx: func(c ugo.Call) (ugo.Object, error) {
		if c.Len() < 1 {
			return ugo.Undefined, ugo.ErrWrongNumArguments.NewError("want>=1 got=0")
		}
		f := c.Get(0)
		// c's arguments alias the VM stack: copy them out
		args := make([]ugo.Object, 0, c.Len()-1)
		for i := 1; i < c.Len(); i++ {
			args = append(args, c.Get(i))
		}
		if len(e.cur) > 0 {
			e.st.nested++
		}
		e.calls++
		e.invSeq++
		id := e.invSeq
		inv := ugo.NewInvoker(c.VM(), f)
		switch e.mode {
		case "pooled":
			inv.Acquire()
			defer inv.Release()
			return e.invoke(inv, id, f, args)
		case "unpooled":
			return e.invoke(inv, id, f, args)
		case "alternate":
			if e.calls%2 == 0 {
				inv.Acquire()
				defer inv.Release()
			}
			return e.invoke(inv, id, f, args)
		case "pooled-norelease":
			// Acquire without Release: allowed, the child is simply not recycled
			if e.calls%3 != 0 {
				inv.Acquire()
				defer inv.Release()
			} else {
				inv.Acquire()
			}
			return e.invoke(inv, id, f, args)
		case "reuse2-pooled":
			inv.Acquire()
			defer inv.Release()
			if _, err := e.invoke(inv, id, f, args); err != nil {
				return ugo.Undefined, err
			}
			return e.invoke(inv, id, f, args)
		case "reuse2-unpooled":
			if _, err := e.invoke(inv, id, f, args); err != nil {
				return ugo.Undefined, err
			}
			return e.invoke(inv, id, f, args)
		case "reuse2-reacquire":
			// same Invoker: Acquire/Invoke/Release, then Acquire again for the second Invoke
			inv.Acquire()
			_, err := e.invoke(inv, id, f, args)
			inv.Release()
			if err != nil {
				return ugo.Undefined, err
			}
			e.invSeq++
			inv.Acquire()
			defer inv.Release()
			return e.invoke(inv, e.invSeq, f, args)
		}
		panic("HARNESS: unknown mode " + e.mode)
	}}
}

func (e *env) keepFn() *ugo.Function {
	return &ugo.Function{Name: "KEEP", Value: func(args ...ugo.Object) (ugo.Object, error) {
		e.kept = append([]ugo.Object{}, args...)
		e.hasKept = true
		return ugo.Undefined, nil
	}}
}

func panicFn() *ugo.Function {
	return &ugo.Function{Name: "PANIC", Value: func(args ...ugo.Object) (ugo.Object, error) {
		msg := "panic"
		if len(args) > 0 {
			msg = args[0].String()
		}
		panic(msg)
	}}
}

// dumpGlobals: canonical dump of the data globals (the Go operators excluded).
func dumpGlobals(g ugo.Map) string {
	c := ugo.Map{}
	for k, v := range g {
		switch k {
		case "L", "CALL", "KEEP", "PANIC":
			continue
		}
		c[k] = v
	}
	return canon.Value(c)
}

// errObj: the error returned by Invoke in the form a script catch clause sees it (a runtime error
// carrying Name and Message), so that canon dumps of both runs are comparable.
func errObj(err error) ugo.Object {
	n, m := canon.ErrName(err)
	return &ugo.RuntimeError{Err: &ugo.Error{Name: n, Message: m}}
}

const runTimeout = 4 * time.Second

// guard runs f on its own goroutine with a watchdog and panic capture.
func guard(vm *ugo.VM, f func()) (pan string, timedOut bool) {
	done := make(chan string, 1)
	go func() {
		defer func() {
			if p := recover(); p != nil {
				s := run.FirstLine(fmt.Sprint(p))
				if s == "" {
					s = "panic"
				}
				done <- s
				return
			}
			done <- ""
		}()
		f()
	}()
	select {
	case pan = <-done:
		return pan, false
	case <-time.After(runTimeout):
		if vm != nil {
			vm.Abort()
		}
		select {
		case <-done:
		case <-time.After(10 * time.Second):
		}
		return "", true
	}
}

func (c *replayCase) compile(src string) (*ugo.Bytecode, error) {
	opts := ugo.CompilerOptions{NoOptimize: c.NoOptimize}
	if len(c.Modules) > 0 {
		opts.ModuleMap = prog.ModuleMap(c.Modules, nil)
	}
	bc, err, pan := run.Compile(src, opts)
	if pan != "" {
		return nil, fmt.Errorf("compile panic: %s", pan)
	}
	return bc, err
}

func (c *replayCase) baseGlobals() (ugo.Map, error) {
	_, g, err := prog.CaseInputs(c.Case)
	return g, err
}

// run1 executes the in-script variant.
func (c *replayCase) run1() (run.Outcome, error) {
	bc, err := c.compile(c.src1())
	if err != nil {
		return run.Outcome{}, fmt.Errorf("run1: %v\n%s", err, c.src1())
	}
	base, err := c.baseGlobals()
	if err != nil {
		return run.Outcome{}, err
	}
	e := newEnv(c.Mode)
	g := run.Globals(base, e.lg)
	g["L"] = e.logFn()
	if c.Recover {
		g["PANIC"] = panicFn()
	}
	o := run.Exec(bc, g, e.lg, nil, run.Opts{Recover: c.Recover, Timeout: runTimeout})
	o.Globals = dumpGlobals(g)
	return o, nil
}

// goSide is a live run 2: the VM after Run plus the kept objects; steps can be applied one by one.
type goSide struct {
	c       *replayCase
	e       *env
	vm      *ugo.VM
	g       ugo.Map
	o       run.Outcome // outcome of vm.Run
	fns     []ugo.Object
	rb      ugo.Object
	invs    map[int]*ugo.Invoker
	invID   map[int]int
	invFn   map[int]ugo.Object
	hasCh   map[int]bool // slot currently holds a child VM
	ar      ugo.Array    // the plan's results so far (same structure as run 1's `ar`)
	pan     string
	timeout bool
}

func (c *replayCase) start2() (*goSide, error) {
	bc, err := c.compile(c.src2())
	if err != nil {
		return nil, fmt.Errorf("run2: %v\n%s", err, c.src2())
	}
	base, err := c.baseGlobals()
	if err != nil {
		return nil, err
	}
	pollute(c.History)
	e := newEnv(c.Mode)
	g := run.Globals(base, e.lg)
	g["L"] = e.logFn()
	g["CALL"] = e.callFn()
	g["KEEP"] = e.keepFn()
	if c.Recover {
		g["PANIC"] = panicFn()
	}
	s := &goSide{c: c, e: e, g: g, invs: map[int]*ugo.Invoker{}, invID: map[int]int{}, invFn: map[int]ugo.Object{}, hasCh: map[int]bool{}}
	s.o = run.Exec(bc, g, e.lg, nil, run.Opts{Recover: c.Recover, Timeout: runTimeout, KeepVM: func(vm *ugo.VM) { s.vm = vm; e.st.root = vm }})
	if e.hasKept {
		if len(e.kept) != 3 {
			return nil, fmt.Errorf("HARNESS: KEEP got %d values", len(e.kept))
		}
		fa, ok := e.kept[1].(ugo.Array)
		if !ok {
			return nil, fmt.Errorf("HARNESS: KEEP fns is %T", e.kept[1])
		}
		s.fns = fa
		s.rb = e.kept[2]
	}
	return s, nil
}

func (s *goSide) live() bool {
	return s.e.hasKept && !s.o.IsErr && s.o.Panic == "" && !s.o.TimedOut && s.pan == "" && !s.timeout
}

// apply executes one plan step from Go (after vm.Run returned).
func (s *goSide) apply(o op) error {
	if !s.live() {
		return nil
	}
	var herr error
	pan, to := guard(s.vm, func() {
		switch o.Op {
		case "new":
			if o.Fn < 0 || o.Fn >= len(s.fns) {
				herr = fmt.Errorf("HARNESS: plan refers to fn %d of %d", o.Fn, len(s.fns))
				return
			}
			s.e.invSeq++
			s.invs[o.Slot] = ugo.NewInvoker(s.vm, s.fns[o.Fn])
			s.invID[o.Slot] = s.e.invSeq
			s.invFn[o.Slot] = s.fns[o.Fn]
			s.hasCh[o.Slot] = false
		case "acquire":
			if !s.hasCh[o.Slot] {
				// a newly acquired child counts as a new use of the pool
				s.e.invSeq++
				s.invID[o.Slot] = s.e.invSeq
				s.hasCh[o.Slot] = true
			}
			s.invs[o.Slot].Acquire()
		case "release":
			s.invs[o.Slot].Release()
			s.hasCh[o.Slot] = false
		case "invoke":
			args := make([]ugo.Object, 0, len(o.Args))
			for _, a := range o.Args {
				v, err := prog.EvalLiteral(a)
				if err != nil {
					herr = fmt.Errorf("HARNESS: plan argument %q: %v", a, err)
					return
				}
				args = append(args, v)
			}
			s.e.st.afterRun++
			s.hasCh[o.Slot] = true
			v, err := s.e.invoke(s.invs[o.Slot], s.invID[o.Slot], s.invFn[o.Slot], args)
			if err != nil {
				s.ar = append(s.ar, ugo.Array{ugo.String("err"), errObj(err)})
			} else {
				s.ar = append(s.ar, ugo.Array{ugo.String("ok"), v})
			}
			if s.c.Stateful {
				s.ar = append(s.ar, s.readback())
			}
		default:
			herr = fmt.Errorf("HARNESS: unknown op %q", o.Op)
		}
	})
	s.pan, s.timeout = pan, to
	return herr
}

// readback invokes the script's read-back closure from Go (un-pooled, so that the pool history is the plan's).
func (s *goSide) readback() ugo.Object {
	s.e.invSeq++
	v, err := s.e.invoke(ugo.NewInvoker(s.vm, s.rb), s.e.invSeq, s.rb, nil)
	if err != nil {
		return ugo.Array{ugo.String("read-back failed"), errObj(err)}
	}
	return v
}

// outcome assembles run 2's outcome in the same form as run 1's.
func (s *goSide) outcome() run.Outcome {
	o := s.o
	o.Value = ""
	if s.live() && s.c.Stateful {
		// per-step read-backs are part of ar; no final one (outcome() is called after every step)
		o.Value = canon.Value(ugo.Array{s.e.kept[0], s.ar})
	} else if s.live() {
		var rb ugo.Object
		pan, to := guard(s.vm, func() { rb = s.readback() })
		if pan != "" || to {
			s.pan, s.timeout = pan, to
		} else {
			o.Value = canon.Value(ugo.Array{s.e.kept[0], s.ar, rb})
		}
	}
	if s.pan != "" {
		o.Panic = s.pan
	}
	if s.timeout {
		o.TimedOut = true
	}
	if !s.e.hasKept && !o.IsErr && o.Panic == "" && !o.TimedOut {
		o.Value = "HARNESS: script ended without KEEP"
	}
	o.Log = append([]string{}, s.e.lg.Log...)
	o.Globals = dumpGlobals(s.g)
	return o
}

// run2 executes the Go-side variant completely.
func (c *replayCase) run2() (run.Outcome, *goSide, error) {
	s, err := c.start2()
	if err != nil {
		return run.Outcome{}, nil, err
	}
	for _, o := range c.Plan {
		if err := s.apply(o); err != nil {
			return run.Outcome{}, nil, err
		}
	}
	return s.outcome(), s, nil
}

// diffKind classifies the first difference for the signature.
func diffKind(d string) string {
	switch {
	case strings.HasPrefix(d, "panic"):
		return "panic"
	case strings.HasPrefix(d, "error"):
		return "error"
	case strings.HasPrefix(d, "log"):
		return "log"
	case strings.HasPrefix(d, "globals"):
		return "globals"
	}
	return "value"
}

func sortedKeys(m map[string]int) []string {
	out := make([]string, 0, len(m))
	for k := range m {
		out = append(out, k)
	}
	sort.Strings(out)
	return out
}

var fnNameRe = regexp.MustCompile(`^\[s"(f[0-9]+)[."]`)

// blame names the function shape for the signature: the shape of the function that wrote the first
// diverging log entry (every function body logs under its own name), else the union of all shapes.
func (c *replayCase) blame(o1, o2 run.Outcome) string {
	return primaryShape(c.blameFn(o1, o2))
}

// shapePriority: the signature names ONE shape per function so that a root cause does not fan out
// into one signature per combination of incidental shapes.
var shapePriority = []string{"importing", "variadic", "panicking", "globals", "closure", "recursive", "throwing", "retfn", "nested", "hof", "try", "tryret", "plain"}

func primaryShape(shapes string) string {
	have := map[string]bool{}
	for _, s := range strings.Split(shapes, "+") {
		have[s] = true
	}
	for _, s := range shapePriority {
		if have[s] {
			return s
		}
	}
	return shapes
}

func (c *replayCase) blameFn(o1, o2 run.Outcome) string {
	i := 0
	for i < len(o1.Log) && i < len(o2.Log) && o1.Log[i] == o2.Log[i] {
		i++
	}
	for _, lg := range [][]string{o2.Log, o1.Log} {
		if i < len(lg) {
			if strings.HasPrefix(lg[i], `s"load m`) || strings.HasPrefix(lg[i], `[s"m0.`) || strings.HasPrefix(lg[i], `[s"m1.`) {
				return "importing" // a module body / module function logged here
			}
			if m := fnNameRe.FindStringSubmatch(lg[i]); m != nil {
				if sh, ok := c.FnShapes[m[1]]; ok {
					return sh
				}
			}
		}
	}
	// logs agree (or diverge in the main script): the last function that logged
	for j := i - 1; j >= 0 && j < len(o1.Log); j-- {
		if m := fnNameRe.FindStringSubmatch(o1.Log[j]); m != nil {
			if sh, ok := c.FnShapes[m[1]]; ok {
				return sh
			}
		}
	}
	return c.Shapes
}
