package c14

// Generator of C14 scripts: functions of every shape called only through the
// call operator CALL (with accepted argument counts), built on package gen's
// AST nodes and renderer.

import (
	"fmt"
	"sort"
	"strings"

	"pgregory.net/rapid"

	"verif/internal/gen"
)

const (
	markCall = "//@CALL@"
	markEnd  = "//@END@"
)

// fnInfo is what callers need to know about a generated function.
type fnInfo struct {
	Name     string
	NP       int // declared params including the variadic one
	Variadic bool
	Shapes   map[string]bool
}

func (f *fnInfo) fixed() int {
	if f.Variadic {
		return f.NP - 1
	}
	return f.NP
}

func (f *fnInfo) shapeList() []string {
	out := make([]string, 0, len(f.Shapes))
	for k := range f.Shapes {
		out = append(out, k)
	}
	sort.Strings(out)
	return out
}

// op is one step of the Go-side plan executed after vm.Run returned (run 2) or
// in-script at the end of the script (run 1).
type op struct {
	Op   string   `json:"op"`             // new | acquire | invoke | release
	Slot int      `json:"slot"`           // invoker slot
	Fn   int      `json:"fn,omitempty"`   // index into Ret (op new)
	Args []string `json:"args,omitempty"` // literal sources (op invoke)
}

// spec is a generated case before rendering variants.
type spec struct {
	Src      string // shared source with the two markers
	Modules  map[string]string
	Globals  map[string]string // literal sources
	Ret      []string          // expressions (identifiers) returned for Go-side invocation
	RetSig   []*fnInfo         // signature per Ret entry (nil = returned-function var taking one arg)
	Fns      []*fnInfo
	Recover  bool
	Features map[string]int
}

type cg struct {
	t       *rapid.T
	recover bool
	ncell   int
	nglob   int
	nmod    int
	fns     []*fnInfo
	uniq    int
	feat    map[string]int
	nret    int // number of r<k> variables
}

func (g *cg) u(n int, label string) int       { return gen.Uniform(g.t, n, label) }
func (g *cg) chance(p int, label string) bool { return g.u(100, label) < p }
func (g *cg) name(prefix string) string {
	g.uniq++
	return fmt.Sprintf("%s%d", prefix, g.uniq)
}

// ---- AST helpers

func id(n string) gen.Expr        { return gen.Id(n) }
func ilit(i int) gen.Expr         { return gen.IntLit(int64(i)) }
func slit(s string) gen.Expr      { return gen.StrLit(s) }
func arr(xs ...gen.Expr) gen.Expr { return &gen.ArrayLit{Elems: xs} }
func call(fn gen.Expr, args ...gen.Expr) gen.Expr {
	return &gen.Call{Fn: fn, Args: args}
}
func callN(name string, args ...gen.Expr) gen.Expr { return call(id(name), args...) }
func bin(op string, l, r gen.Expr) gen.Expr        { return &gen.Binary{Op: op, L: l, R: r} }
func sel(x gen.Expr, n string) gen.Expr            { return &gen.Selector{X: x, Name: n} }
func es(x gen.Expr) gen.Stmt                       { return &gen.ExprStmt{X: x} }
func set(name string, x gen.Expr) gen.Stmt {
	return &gen.Assign{Targets: []gen.Expr{id(name)}, Op: "=", X: x}
}
func def(name string, x gen.Expr) gen.Stmt { return &gen.Define{Names: []string{name}, X: x} }
func logS(xs ...gen.Expr) gen.Stmt         { return es(callN("L", arr(xs...))) }
func ret(xs ...gen.Expr) gen.Stmt          { return &gen.Return{Xs: xs} }
func and(l, r gen.Expr) gen.Expr           { return bin("&&", l, r) }

// smallIntGuard: isInt(x) && x > 0 && x <= hi
func smallIntGuard(x gen.Expr, hi int) gen.Expr {
	return and(and(callN("isInt", x), bin(">", x, ilit(0))), bin("<=", x, ilit(hi)))
}

// ---- literals / arguments

// lit draws an argument literal: mostly small ints.
func (g *cg) lit(label string) gen.Expr {
	switch k := g.u(20, label); {
	case k < 12:
		return ilit(g.u(6, label+"i") - 1) // -1..4
	case k < 14:
		return slit([]string{"", "a", "bc"}[g.u(3, label+"s")])
	case k == 14:
		return gen.BoolLit(g.chance(50, label+"b"))
	case k == 15:
		return gen.UndefLit()
	case k == 16:
		return arr(ilit(g.u(4, label+"a0")), ilit(g.u(4, label+"a1")))
	case k == 17:
		return &gen.MapLit{Keys: []string{"k"}, Elems: []gen.Expr{ilit(g.u(4, label+"m"))}}
	case k == 18:
		return gen.FloatLit(float64(g.u(5, label+"f")) + 0.5)
	default:
		return arr()
	}
}

// argsFor draws an ACCEPTED argument list for f from literals plus pool.
func (g *cg) argsFor(f *fnInfo, pool []gen.Expr, label string) []gen.Expr {
	n := f.fixed()
	if f.Variadic {
		n += g.u(4, label+"extra") // 0..3 packed values
	}
	args := make([]gen.Expr, 0, n)
	for i := 0; i < n; i++ {
		if len(pool) > 0 && g.chance(30, label+"pool") {
			args = append(args, pool[g.u(len(pool), label+"pi")])
		} else {
			args = append(args, g.lit(label+"lit"))
		}
	}
	return args
}

func (g *cg) cell(label string) string { return fmt.Sprintf("c%d", g.u(g.ncell, label)) }
func (g *cg) glob(label string) string { return fmt.Sprintf("G%d", g.u(g.nglob, label)) }

// ---- functions

type fctx struct {
	f      *fnInfo
	idx    int
	params []string   // all param names
	vals   []gen.Expr // non-variadic params as expressions
	inTry  bool
}

func (c *fctx) p0() gen.Expr {
	if len(c.vals) > 0 {
		return c.vals[0]
	}
	return nil
}

// throwStmt: a statement that raises (conditionally or not) a script error or a builtin error.
func (g *cg) throwStmt(c *fctx) []gen.Stmt {
	c.f.Shapes["throwing"] = true
	g.feat["fn-throw"]++
	var val gen.Expr
	switch g.u(6, "throwval") {
	case 0:
		val = slit("boom-" + c.f.Name)
	case 1:
		val = callN("error", slit("err-"+c.f.Name))
	case 2:
		val = call(sel(id("TypeError"), "New"), slit("te-"+c.f.Name))
	case 3:
		val = arr(slit(c.f.Name), id(g.cell("tc")))
	case 4:
		val = id(g.cell("tc"))
	default:
		val = call(sel(id("IndexOutOfBoundsError"), "New"), slit("ix-"+c.f.Name))
	}
	thr := &gen.Throw{X: val}
	p := c.p0()
	switch k := g.u(8, "throwkind"); {
	case k == 0:
		return []gen.Stmt{thr}
	case k <= 2 && p != nil:
		return []gen.Stmt{&gen.If{Cond: bin("==", p, ilit(g.u(4, "thrlit"))), Then: []gen.Stmt{thr}}}
	case k == 3:
		cn := g.cell("thrc")
		return []gen.Stmt{&gen.If{Cond: bin(">", bin("%", id(cn), ilit(3)), ilit(0)), Then: []gen.Stmt{thr}}}
	case k == 4 && p != nil:
		// failing operator: ZeroDivisionError for 0, TypeError for non-numeric
		return []gen.Stmt{logS(slit(c.f.Name+".div"), bin("/", ilit(12), p))}
	case k == 5 && p != nil:
		// failing index: IndexOutOfBoundsError / invalid index type
		return []gen.Stmt{logS(slit(c.f.Name+".idx"), &gen.Index{X: arr(ilit(7), ilit(8)), I: p})}
	case k == 6 && p != nil:
		// failing builtin call / not callable
		return []gen.Stmt{logS(slit(c.f.Name+".call"), call(p, ilit(1)))}
	case k == 7 && c.f.Variadic:
		return []gen.Stmt{&gen.If{Cond: bin(">", callN("len", id("va")), ilit(1)), Then: []gen.Stmt{thr}}}
	}
	return []gen.Stmt{&gen.If{Cond: bin("==", id(g.cell("thrc2")), ilit(g.u(4, "thrlit2"))), Then: []gen.Stmt{thr}}}
}

func (g *cg) cellEffect(c *fctx) []gen.Stmt {
	c.f.Shapes["closure"] = true
	g.feat["fn-cell"]++
	cn := g.cell("cell")
	var s gen.Stmt
	switch g.u(4, "cellop") {
	case 0:
		s = &gen.IncDec{Target: id(cn), Inc: true}
	case 1:
		s = &gen.Assign{Targets: []gen.Expr{id(cn)}, Op: "+=", X: ilit(g.u(5, "celladd") + 1)}
	case 2:
		s = set(cn, bin("+", bin("*", id(cn), ilit(2)), ilit(1)))
	default:
		if p := c.p0(); p != nil {
			// may fail for non-int arguments: a failing operator after partial side effects
			s = set(cn, bin("+", id(cn), p))
		} else {
			s = &gen.IncDec{Target: id(cn), Inc: false}
		}
	}
	return []gen.Stmt{s, logS(slit(c.f.Name+".c"), id(cn))}
}

func (g *cg) globEffect(c *fctx) []gen.Stmt {
	c.f.Shapes["globals"] = true
	g.feat["fn-global"]++
	gn := g.glob("glob")
	var s gen.Stmt
	switch g.u(3, "globop") {
	case 0:
		s = set(gn, bin("+", id(gn), ilit(g.u(4, "globadd")+1)))
	case 1:
		if p := c.p0(); p != nil {
			s = set(gn, arr(id(gn), p))
		} else {
			s = set(gn, slit("set-by-"+c.f.Name))
		}
	default:
		s = set(gn, bin("+", id(g.glob("glob2")), id(g.cell("globc"))))
	}
	return []gen.Stmt{s, logS(slit(c.f.Name+".g"), id(gn))}
}

func (g *cg) importEffect(c *fctx) []gen.Stmt {
	c.f.Shapes["importing"] = true
	g.feat["fn-import"]++
	mv := g.name("mv")
	if g.nmod > 1 && g.chance(40, "usem1") {
		return []gen.Stmt{
			def(mv, &gen.Import{Name: "m1"}),
			logS(slit(c.f.Name+".m1"), call(sel(id(mv), "bump")), call(sel(id(mv), "get"))),
		}
	}
	var d gen.Expr = ilit(g.u(4, "incd") + 1)
	if p := c.p0(); p != nil && g.chance(30, "incp") {
		d = p
	}
	return []gen.Stmt{
		def(mv, &gen.Import{Name: "m0"}),
		logS(slit(c.f.Name+".m0"), call(sel(id(mv), "inc"), d), call(sel(id(mv), "get"))),
	}
}

func (g *cg) nestedEffect(c *fctx) []gen.Stmt {
	var pool []gen.Expr
	pool = append(pool, c.vals...)
	pool = append(pool, id(g.cell("npc")))
	p := c.p0()
	if c.idx > 0 && (p == nil || g.chance(70, "nestlower")) {
		j := g.u(c.idx, "nestj")
		callee := g.fns[j]
		c.f.Shapes["nested"] = true
		g.feat["fn-nested"]++
		return []gen.Stmt{logS(slit(c.f.Name+".n"), callN("CALL", append([]gen.Expr{id(callee.Name)}, g.argsFor(callee, pool, "nest")...)...))}
	}
	if p == nil {
		return nil
	}
	// self re-entry through CALL with a decreasing small int
	c.f.Shapes["nested"] = true
	c.f.Shapes["recursive"] = true
	g.feat["fn-nested-self"]++
	args := []gen.Expr{id(c.f.Name), bin("-", p, ilit(1))}
	for i := 1; i < c.f.fixed(); i++ {
		args = append(args, c.vals[i])
	}
	if c.f.Variadic && g.chance(50, "selfextra") {
		args = append(args, ilit(9))
	}
	return []gen.Stmt{&gen.If{Cond: smallIntGuard(p, 3), Then: []gen.Stmt{
		logS(slit(c.f.Name+".self"), callN("CALL", args...)),
	}}}
}

func (g *cg) hofEffect(c *fctx) []gen.Stmt {
	p := c.p0()
	if p == nil {
		return nil
	}
	c.f.Shapes["hof"] = true
	g.feat["fn-hof"]++
	var x gen.Expr
	if g.chance(50, "hofcall") {
		x = call(p, g.lit("hofarg"))
	} else {
		x = callN("CALL", p, g.lit("hofarg"))
	}
	return []gen.Stmt{&gen.If{Cond: callN("isFunction", p), Then: []gen.Stmt{logS(slit(c.f.Name+".h"), x)}}}
}

func (g *cg) loopEffect(c *fctx) []gen.Stmt {
	g.feat["fn-loop"]++
	s := g.name("s")
	v := g.name("v")
	var over gen.Expr
	if c.f.Variadic {
		over = id("va")
	} else {
		over = arr(ilit(1), ilit(2), id(g.cell("loopc")))
	}
	return []gen.Stmt{
		def(s, ilit(0)),
		&gen.ForIn{Value: v, X: over, Body: []gen.Stmt{
			&gen.If{Cond: callN("isInt", id(v)), Then: []gen.Stmt{&gen.Assign{Targets: []gen.Expr{id(s)}, Op: "+=", X: id(v)}}},
		}},
		logS(slit(c.f.Name+".sum"), id(s)),
	}
}

func (g *cg) panicEffect(c *fctx) []gen.Stmt {
	c.f.Shapes["panicking"] = true
	g.feat["fn-panic"]++
	// the Go panic is caught inside the callee, so both runs observe the same script-level error
	e := g.name("e")
	return []gen.Stmt{&gen.Try{
		Body:     []gen.Stmt{logS(slit(c.f.Name + ".pre-panic")), es(callN("PANIC", slit("pan-"+c.f.Name)))},
		HasCatch: true, CatchIdent: e,
		Catch: []gen.Stmt{logS(slit(c.f.Name+".recovered"), sel(id(e), "Message"))},
	}}
}

func (g *cg) simpleEffect(c *fctx) []gen.Stmt {
	for try := 0; try < 4; try++ {
		var out []gen.Stmt
		switch k := g.u(10, "effect"); {
		case k <= 1:
			out = g.cellEffect(c)
		case k == 2:
			out = g.globEffect(c)
		case k == 3 && g.nmod > 0:
			out = g.importEffect(c)
		case k == 4:
			out = g.throwStmt(c)
		case k == 5:
			out = g.nestedEffect(c)
		case k == 6:
			out = g.hofEffect(c)
		case k == 7:
			out = g.loopEffect(c)
		case k == 8 && g.recover:
			out = g.panicEffect(c)
		default:
			out = g.cellEffect(c)
		}
		if out != nil {
			return out
		}
	}
	return g.cellEffect(c)
}

func (g *cg) tryEffect(c *fctx) []gen.Stmt {
	c.f.Shapes["try"] = true
	g.feat["fn-try"]++
	t := &gen.Try{}
	t.Body = append(t.Body, g.simpleEffect(c)...)
	if g.chance(60, "trythrow") {
		t.Body = append(t.Body, g.throwStmt(c)...)
	}
	if g.chance(25, "tryreturn") {
		c.f.Shapes["tryret"] = true
		g.feat["fn-return-in-try"]++
		t.Body = append(t.Body, ret(arr(slit(c.f.Name+".tryret"), id(g.cell("trc")))))
	}
	hasCatch := g.chance(65, "hascatch")
	hasFinally := !hasCatch || g.chance(55, "hasfinally")
	if hasCatch {
		e := g.name("e")
		t.HasCatch, t.CatchIdent = true, e
		t.Catch = []gen.Stmt{logS(slit(c.f.Name+".catch"), sel(id(e), "Name"), sel(id(e), "Message"))}
		if g.chance(25, "rethrow") {
			t.Catch = append(t.Catch, &gen.Throw{X: id(e)})
		} else if g.chance(20, "catchret") {
			t.Catch = append(t.Catch, ret(arr(slit(c.f.Name+".catchret"), sel(id(e), "Message"))))
		}
	}
	if hasFinally {
		t.HasFinally = true
		t.Finally = append(t.Finally, logS(slit(c.f.Name+".finally")))
		t.Finally = append(t.Finally, g.cellEffect(c)...)
		if g.chance(20, "finnested") && c.idx > 0 {
			t.Finally = append(t.Finally, g.nestedEffect(c)...)
		}
	}
	return []gen.Stmt{t}
}

// genFn builds function number idx.
func (g *cg) genFn(idx int) gen.Expr {
	f := &fnInfo{Name: fmt.Sprintf("f%d", idx), Shapes: map[string]bool{}}
	np := g.u(4, "np") // 0..3
	if g.chance(40, "variadic") {
		f.Variadic = true
		if np == 0 {
			np = 1
		}
		f.Shapes["variadic"] = true
		g.feat["fn-variadic"]++
	}
	f.NP = np
	c := &fctx{f: f, idx: idx}
	for i := 0; i < np; i++ {
		if f.Variadic && i == np-1 {
			c.params = append(c.params, "va")
		} else {
			n := fmt.Sprintf("p%d", i)
			c.params = append(c.params, n)
			c.vals = append(c.vals, id(n))
		}
	}
	var body []gen.Stmt
	// entry log: observes parameter binding and variadic packing
	entry := []gen.Expr{slit(f.Name)}
	for _, p := range c.params {
		entry = append(entry, id(p))
	}
	if f.Variadic {
		entry = append(entry, callN("len", id("va")))
	}
	body = append(body, logS(entry...))

	// optional local that is captured by a returned function / mutated later
	local := ""
	if g.chance(40, "local") {
		local = g.name("k")
		var init gen.Expr = ilit(g.u(5, "localinit"))
		if p := c.p0(); p != nil && g.chance(60, "localp") {
			init = p
		}
		body = append(body, def(local, init))
	}

	// direct recursion (inside the same VM) in three positions
	recKind := -1
	if p := c.p0(); p != nil && g.chance(30, "rec") {
		recKind = g.u(3, "reckind")
		f.Shapes["recursive"] = true
		g.feat[fmt.Sprintf("fn-rec-%d", recKind)]++
	}

	n := 1 + g.u(3, "neffects")
	for i := 0; i < n; i++ {
		if g.chance(30, "wraptry") {
			body = append(body, g.tryEffect(c)...)
		} else {
			body = append(body, g.simpleEffect(c)...)
		}
	}

	if recKind >= 0 {
		p := c.p0()
		args := []gen.Expr{bin("-", p, ilit(1))}
		for i := 1; i < f.fixed(); i++ {
			args = append(args, c.vals[i])
		}
		if f.Variadic {
			args = append(args, slit("r"))
		}
		rc := callN(f.Name, args...)
		var then []gen.Stmt
		switch recKind {
		case 0: // tail call
			then = []gen.Stmt{ret(rc)}
		case 1: // non-tail
			then = []gen.Stmt{ret(arr(p, rc))}
		default: // value discarded as last statement of the branch
			then = []gen.Stmt{es(rc), ret()}
		}
		body = append(body, &gen.If{Cond: smallIntGuard(p, 4), Then: then})
	}

	// result
	switch k := g.u(10, "retkind"); {
	case k <= 2:
		// returning a function that captures a param / local / cell
		f.Shapes["retfn"] = true
		f.Shapes["closure"] = true
		g.feat["fn-retfn"]++
		capt := local
		if capt == "" {
			capt = g.name("k")
			var init gen.Expr = ilit(1)
			if p := c.p0(); p != nil {
				init = p
			}
			body = append(body, def(capt, init))
		}
		cn := g.cell("rfc")
		inner := &gen.FuncLit{Params: []string{"x"}, Body: []gen.Stmt{
			&gen.IncDec{Target: id(cn), Inc: true},
			logS(slit(f.Name+".inner"), id(capt), id("x"), id(cn)),
			set(capt, arr(id(capt), id("x"))),
			ret(arr(id(capt), id(cn))),
		}}
		body = append(body, ret(inner))
	case k == 9:
		// no return statement: undefined
	case k == 3 && f.Variadic:
		body = append(body, ret(id("va")))
	case k == 4 && len(c.vals) > 0:
		body = append(body, ret(c.vals[len(c.vals)-1]))
	case k == 5:
		body = append(body, ret())
	default:
		xs := []gen.Expr{slit(f.Name + ".ret"), id(g.cell("retc"))}
		xs = append(xs, c.vals...)
		if local != "" {
			xs = append(xs, id(local))
		}
		if f.Variadic {
			xs = append(xs, id("va"))
		}
		body = append(body, ret(arr(xs...)))
	}
	g.fns = append(g.fns, f)
	return &gen.FuncLit{Params: c.params, Variadic: f.Variadic, Body: body}
}

// ---- main script plan

func (g *cg) mainPool() []gen.Expr {
	pool := []gen.Expr{id(g.cell("mpc")), id(g.glob("mpg"))}
	// function-valued arguments appear only in the main script (termination: see notes in c14_test.go) and
	// always accept exactly one argument, because callees call them with one literal (accepted counts only)
	var one []string
	for _, f := range g.fns {
		if (!f.Variadic && f.NP == 1) || (f.Variadic && f.fixed() <= 1) {
			one = append(one, f.Name)
		}
	}
	one = append(one, "r0", "r1")
	pool = append(pool, id(one[g.u(len(one), "mpf")]))
	return pool
}

func (g *cg) callExpr(label string) (gen.Expr, *fnInfo) {
	f := g.fns[g.u(len(g.fns), label+"f")]
	return callN("CALL", append([]gen.Expr{id(f.Name)}, g.argsFor(f, g.mainPool(), label)...)...), f
}

func pushOut(x gen.Expr) gen.Stmt { return set("out", callN("append", id("out"), x)) }

func (g *cg) caught(body ...gen.Stmt) gen.Stmt {
	e := g.name("e")
	return &gen.Try{Body: body, HasCatch: true, CatchIdent: e,
		Catch: []gen.Stmt{pushOut(callN("L", arr(slit("E"), sel(id(e), "Name"), sel(id(e), "Message"))))}}
}

func (g *cg) planStmt() []gen.Stmt {
	switch k := g.u(17, "plan"); {
	case k <= 3:
		g.feat["ctx-caught"]++
		x, _ := g.callExpr("pc")
		return []gen.Stmt{g.caught(pushOut(x))}
	case k == 4:
		g.feat["ctx-uncaught"]++
		x, _ := g.callExpr("pu")
		return []gen.Stmt{pushOut(x)}
	case k <= 6:
		g.feat["ctx-finally"]++
		x, _ := g.callExpr("pf")
		t := &gen.Try{HasFinally: true, Finally: []gen.Stmt{logS(slit("main.finally")), pushOut(x)}}
		switch g.u(4, "finbody") {
		case 0:
			t.Body = []gen.Stmt{&gen.Throw{X: slit("pending")}}
			g.feat["ctx-finally-pending-error"]++
		case 1:
			y, _ := g.callExpr("pfb")
			t.Body = []gen.Stmt{pushOut(y)}
		case 2:
			t.Body = []gen.Stmt{logS(slit("main.try"))}
		default:
			y, _ := g.callExpr("pfb2")
			t.Body = []gen.Stmt{pushOut(y), &gen.Throw{X: callN("error", slit("pending2"))}}
			g.feat["ctx-finally-pending-error"]++
		}
		if g.chance(80, "fincaught") {
			return []gen.Stmt{g.caught(t)}
		}
		return []gen.Stmt{t}
	case k == 7:
		g.feat["ctx-catch"]++
		x, _ := g.callExpr("pk")
		e := g.name("e")
		inner := &gen.Try{Body: []gen.Stmt{&gen.Throw{X: slit("to-catch")}}, HasCatch: true, CatchIdent: e,
			Catch: []gen.Stmt{pushOut(x), logS(slit("main.catch"), sel(id(e), "Message"))}}
		return []gen.Stmt{g.caught(inner)}
	case k <= 9:
		g.feat["ctx-loop"]++
		f := g.fns[g.u(len(g.fns), "plf")]
		i := g.name("i")
		args := g.argsFor(f, append(g.mainPool(), id(i)), "pl")
		if len(args) > 0 && g.chance(70, "loopi") {
			args[0] = id(i)
		}
		x := callN("CALL", append([]gen.Expr{id(f.Name)}, args...)...)
		return []gen.Stmt{&gen.For{
			Init: def(i, ilit(0)), Cond: bin("<", id(i), ilit(2+g.u(3, "loopn"))), Post: &gen.IncDec{Target: id(i), Inc: true},
			Body: []gen.Stmt{g.caught(pushOut(x))},
		}}
	case k == 10 || k == 15:
		// call a function that returns a function, then call the result through CALL as well
		var cands []*fnInfo
		for _, f := range g.fns {
			if f.Shapes["retfn"] {
				cands = append(cands, f)
			}
		}
		if len(cands) == 0 {
			x, _ := g.callExpr("pr0")
			return []gen.Stmt{g.caught(pushOut(x))}
		}
		g.feat["ctx-retfn"]++
		f := cands[g.u(len(cands), "prf")]
		r := fmt.Sprintf("r%d", g.u(2, "rvar"))
		x := callN("CALL", append([]gen.Expr{id(f.Name)}, g.argsFor(f, g.mainPool(), "pr")...)...)
		use := func(l string) gen.Stmt {
			return &gen.If{Cond: callN("isFunction", id(r)), Then: []gen.Stmt{g.caught(pushOut(callN("CALL", id(r), g.lit(l))))}}
		}
		out := []gen.Stmt{g.caught(set(r, x)), use("pra")}
		if g.chance(50, "pruse2") {
			out = append(out, use("prb"))
		}
		return out
	case k == 11:
		// plain in-script call (same in both runs) interleaved with Go-side invocations
		g.feat["ctx-direct"]++
		f := g.fns[g.u(len(g.fns), "pdf")]
		return []gen.Stmt{g.caught(pushOut(callN(f.Name, g.argsFor(f, g.mainPool(), "pd")...)))}
	case k == 12:
		// fresh closure over the loop variable passed to CALL
		g.feat["ctx-loopclosure"]++
		i := g.name("i")
		cn := g.cell("lcc")
		fl := &gen.FuncLit{Params: []string{"x"}, Body: []gen.Stmt{
			&gen.Assign{Targets: []gen.Expr{id(cn)}, Op: "+=", X: id(i)},
			logS(slit("anon"), id("x"), id(i), id(cn)),
			ret(arr(id("x"), id(i), id(cn))),
		}}
		return []gen.Stmt{&gen.For{
			Init: def(i, ilit(0)), Cond: bin("<", id(i), ilit(2+g.u(2, "lcn"))), Post: &gen.IncDec{Target: id(i), Inc: true},
			Body: []gen.Stmt{g.caught(pushOut(callN("CALL", fl, g.lit("lca"))))},
		}}
	case k == 13 && g.nmod > 0:
		// the parent run touches the shared module between calls
		g.feat["ctx-main-import"]++
		mv := g.name("mm")
		return []gen.Stmt{def(mv, &gen.Import{Name: "m0"}), pushOut(callN("L", arr(slit("main.m0"), call(sel(id(mv), "inc"), ilit(100)))))}
	case k == 16 && g.nmod > 0:
		// a function exported by a module (closure over the module's private state) invoked from Go
		g.feat["ctx-module-fn"]++
		var fn gen.Expr = sel(&gen.Import{Name: "m0"}, "inc")
		args := []gen.Expr{g.lit("mfa")}
		if g.nmod > 1 && g.chance(40, "mfm1") {
			fn, args = sel(&gen.Import{Name: "m1"}, "bump"), nil
		}
		return []gen.Stmt{g.caught(pushOut(callN("CALL", append([]gen.Expr{fn}, args...)...)))}
	case k == 14:
		// state mutated by the parent between calls
		g.feat["ctx-main-mutate"]++
		cn := g.cell("mmc")
		gn := g.glob("mmg")
		return []gen.Stmt{
			&gen.Assign{Targets: []gen.Expr{id(cn)}, Op: "+=", X: ilit(10)},
			set(gn, bin("+", id(gn), ilit(1000))),
			logS(slit("main.mut"), id(cn), id(gn)),
		}
	default:
		g.feat["ctx-caught"]++
		x, _ := g.callExpr("pc2")
		return []gen.Stmt{g.caught(pushOut(x))}
	}
}

// genSpec draws a whole case. planLen = number of main plan statements (0 allowed).
func genSpec(t *rapid.T, recover bool, minPlan, maxPlan int) *spec {
	g := &cg{t: t, recover: recover, feat: map[string]int{}}
	g.ncell = 1 + g.u(3, "ncell")
	g.nglob = 1 + g.u(2, "nglob")
	g.nmod = g.u(3, "nmod")
	sp := &spec{Recover: recover, Modules: map[string]string{}, Globals: map[string]string{}, Features: g.feat}

	// header
	gl := []string{"L"}
	if recover {
		gl = append(gl, "PANIC")
	}
	for i := 0; i < g.nglob; i++ {
		n := fmt.Sprintf("G%d", i)
		gl = append(gl, n)
		sp.Globals[n] = fmt.Sprint(g.u(5, "ginit"))
	}
	var body []gen.Stmt
	body = append(body, &gen.GlobalDecl{Names: gl})
	body = append(body, &gen.Raw{Text: markCall})
	for i := 0; i < g.ncell; i++ {
		body = append(body, def(fmt.Sprintf("c%d", i), ilit(g.u(5, "cinit"))))
	}
	nf := 1 + g.u(4, "nfns")
	vd := &gen.VarDecl{}
	for i := 0; i < nf; i++ {
		vd.Names = append(vd.Names, fmt.Sprintf("f%d", i))
		vd.Values = append(vd.Values, nil)
	}
	vd.Names = append(vd.Names, "r0", "r1")
	vd.Values = append(vd.Values, nil, nil)
	body = append(body, vd)
	for i := 0; i < nf; i++ {
		body = append(body, set(fmt.Sprintf("f%d", i), g.genFn(i)))
	}
	body = append(body, def("out", arr()))

	// read-back of captured state, globals and module state
	var rbx []gen.Expr
	for i := 0; i < g.ncell; i++ {
		rbx = append(rbx, id(fmt.Sprintf("c%d", i)))
	}
	for i := 0; i < g.nglob; i++ {
		rbx = append(rbx, id(fmt.Sprintf("G%d", i)))
	}
	if g.nmod > 0 {
		rbx = append(rbx, call(sel(&gen.Import{Name: "m0"}, "get")))
	}
	if g.nmod > 1 {
		rbx = append(rbx, call(sel(&gen.Import{Name: "m1"}, "get")))
	}
	body = append(body, def("rb", &gen.FuncLit{Body: []gen.Stmt{ret(arr(rbx...))}}))

	np := minPlan + g.u(maxPlan-minPlan+1, "nplan")
	for i := 0; i < np; i++ {
		body = append(body, g.planStmt()...)
	}
	body = append(body, &gen.Raw{Text: markEnd})
	sp.Src = gen.Src(body)
	sp.Fns = g.fns

	// modules with load-time log and private state
	if g.nmod > 0 {
		sp.Modules["m0"] = fmt.Sprintf(`global L
L("load m0")
cnt := %d
return {
  inc: func(d) { cnt += d; L(["m0.inc", cnt]); return cnt },
  get: func() { return cnt },
}
`, g.u(4, "m0init"))
	}
	if g.nmod > 1 {
		sp.Modules["m1"] = `global L
L("load m1")
m0 := import("m0")
k := 0
return {
  bump: func() { k++; return [k, m0.inc(10)] },
  get: func() { return [k, m0.get()] },
}
`
	}

	for _, f := range g.fns {
		sp.Ret = append(sp.Ret, f.Name)
		sp.RetSig = append(sp.RetSig, f)
	}
	sp.Ret = append(sp.Ret, "r0", "r1")
	sp.RetSig = append(sp.RetSig, nil, nil)
	return sp
}

// litSrc renders argument literals to source text (replayable form).
func litSrcs(xs []gen.Expr) []string {
	out := make([]string, len(xs))
	for i, x := range xs {
		out[i] = gen.ExprSrc(x)
	}
	return out
}

// goArgs draws an accepted literal-only argument list for Ret entry k.
func goArgs(t *rapid.T, sp *spec, k int, label string) []string {
	g := &cg{t: t, feat: map[string]int{}, ncell: 1, nglob: 1}
	sig := sp.RetSig[k]
	if sig == nil {
		return litSrcs([]gen.Expr{g.lit(label)})
	}
	return litSrcs(g.argsFor(sig, nil, label))
}

func shapesOf(fns []*fnInfo) string {
	set := map[string]bool{}
	for _, f := range fns {
		for s := range f.Shapes {
			set[s] = true
		}
	}
	out := make([]string, 0, len(set))
	for s := range set {
		out = append(out, s)
	}
	sort.Strings(out)
	if len(out) == 0 {
		return "plain"
	}
	return strings.Join(out, "+")
}
