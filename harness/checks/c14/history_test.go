package c14

// Histories of the process-wide VM pool: before run 2 an unrelated root VM uses pooled children
// that end by abort (the usual watchdog), by a Go panic escaping (recover off), or by an error,
// and releases them. A recycled child must not remember any of it.

import (
	"github.com/ozanh/ugo"

	"verif/internal/run"
)

var pollutions = []string{"", "", "abort", "panic", "error"}

const polluteSrc = `
global (CALL, STOP, PANIC, K)
c := 0
f := func(a, ...b) {
  c++
  try {
    x := [a, b, c]
    if a == "abort" { STOP() }
    if a == "panic" { PANIC("history") }
    if a == "error" { throw x }
    for i := 0; i < 3; i++ { c += i }
  } finally {
    c++
  }
  return c
}
g := func(k) { return [CALL(f, k, 1, 2), c] }
return CALL(g, K)
`

var polluteBC *ugo.Bytecode

// pollute runs the history script of the given kind on its own root VM (panic-safe).
func pollute(kind string) {
	if kind == "" {
		return
	}
	if polluteBC == nil {
		bc, err, pan := run.Compile(polluteSrc, ugo.CompilerOptions{})
		if err != nil || pan != "" {
			panic("HARNESS: pollute script: " + pan)
		}
		polluteBC = bc
	}
	e := newEnv("pooled")
	vm := ugo.NewVM(polluteBC)
	g := ugo.Map{
		"CALL":  e.callFn(),
		"PANIC": panicFn(),
		"K":     ugo.String(kind),
		"STOP": &ugo.Function{Name: "STOP", Value: func(...ugo.Object) (ugo.Object, error) {
			vm.Abort()
			return ugo.Undefined, nil
		}},
	}
	guard(vm, func() {
		defer func() { _ = recover() }()
		_, _ = vm.Run(g)
	})
}
