package c10

import (
	"fmt"
	"reflect"
	"strings"

	"github.com/ozanh/ugo"
	"github.com/ozanh/ugo/parser"
)

// refusal: position (within the refused text) and message of an optimizer error.
type refusal struct {
	Line int    `json:"line"`
	Col  int    `json:"col"`
	Err  string `json:"err"`
}

// unjustifiedRefusal is consulted when exactly one of the two sides was refused by the optimizer.
// The liberty C01 grants is to report AT COMPILE TIME the run-time error of a constant sub-expression;
// it is not a liberty to report an error the expression does not have. The refused expression is
// looked up by position in the freshly parsed text; when it belongs to a top-level simple statement
// (not inside a block or function body, so every name in it means what it means at top level) each
// expression containing that position is evaluated by itself - `return (<expr>)` - in an unoptimized
// session that replayed everything before the statement. If every one of them yields a value, no
// constant sub-expression at that position fails, and the refusal misrepresents the session's state
// (e.g. a name declared by an earlier fragment resolved to the builtin again). Anything else - a
// candidate that fails, a position that cannot be matched, a failing replay - keeps the exclusion.
func unjustifiedRefusal(c *Case, globals ugo.Map, i int, a, b snap) string {
	var ref *refusal
	var prefix []string
	var text, side string
	ra := a.last()
	if ra.Kind == "cerr" && ra.CKind == "optimizer" {
		ref, prefix, text, side = a.Ref, c.Fragments[:i], c.Fragments[i], "the session"
	} else {
		ref, text, side = b.Ref, strings.Join(c.Fragments[:i+1], "\n"), "the batch run"
	}
	if ref == nil || c.NoOptimize {
		return ""
	}
	before, cands := refusedCandidates(text, ref)
	if len(cands) == 0 {
		return ""
	}
	c2 := *c
	c2.NoOptimize, c2.OptLimit = true, 0
	var got []string
	for _, cand := range cands {
		s := newSession(&c2, globals)
		for _, f := range prefix {
			if r := s.run(f); r.failed() {
				return ""
			}
		}
		if strings.TrimSpace(before) != "" {
			if r := s.run(before); r.failed() {
				return ""
			}
		}
		r := s.run("return (" + cand + ")")
		if r.Kind != "value" {
			return ""
		}
		got = append(got, fmt.Sprintf("`%s` = %s", cand, r.Val))
	}
	return fmt.Sprintf("fragment %d: %s was refused by the optimizer with %q at %d:%d, but every expression at that position evaluates without error in an unoptimized session in the same state: %s",
		i+1, side, ref.Err, ref.Line, ref.Col, strings.Join(got, "; "))
}

// refusedCandidates parses text and returns the source before the top-level statement containing the
// refused position, and the expressions (rendered) of that statement that start at the position.
// Returns no candidates when the position is inside a block / function body or cannot be matched.
func refusedCandidates(text string, ref *refusal) (before string, cands []string) {
	defer func() {
		if recover() != nil {
			before, cands = "", nil
		}
	}()
	fs := parser.NewFileSet()
	sf := fs.AddFile("(main)", -1, len(text))
	pf, err := parser.NewParser(sf, []byte(text), nil).ParseFile()
	if err != nil || pf == nil {
		return "", nil
	}
	// the optimizer rewrites the tree before it evaluates (it drops parentheses, so a node may report the
	// position of what used to be its operand): every expression whose text CONTAINS the refused position
	// is a candidate, not only those starting there
	at := func(n parser.Node) bool {
		p, q := fs.Position(n.Pos()), fs.Position(n.End())
		if p.Line > ref.Line || (p.Line == ref.Line && p.Column > ref.Col) {
			return false
		}
		if q.Line < ref.Line || (q.Line == ref.Line && q.Column < ref.Col) {
			return false
		}
		return true
	}
	for _, st := range pf.Stmts {
		switch st.(type) {
		case *parser.ExprStmt, *parser.AssignStmt, *parser.ReturnStmt, *parser.DeclStmt:
		default:
			continue
		}
		var found []string
		nested := false
		var walk func(v reflect.Value, inFn bool)
		seen := map[string]bool{}
		walk = func(v reflect.Value, inFn bool) {
			if !v.IsValid() {
				return
			}
			switch v.Kind() {
			case reflect.Interface, reflect.Ptr:
				if v.IsNil() {
					return
				}
				if n, ok := v.Interface().(parser.Node); ok && v.Kind() == reflect.Ptr {
					switch n.(type) {
					case *parser.FuncLit, *parser.BlockStmt:
						inFn = true
					}
					if e, ok := n.(parser.Expr); ok && at(e) {
						if inFn {
							nested = true
						} else {
							switch e.(type) {
							case *parser.BinaryExpr, *parser.UnaryExpr, *parser.CallExpr, *parser.IndexExpr,
								*parser.SelectorExpr, *parser.CondExpr, *parser.SliceExpr, *parser.ParenExpr, *parser.ArrayLit:
								if src := e.String(); !seen[src] {
									seen[src] = true
									found = append(found, src)
								}
							}
						}
					}
				}
				walk(v.Elem(), inFn)
			case reflect.Struct:
				for k := 0; k < v.NumField(); k++ {
					if v.Type().Field(k).IsExported() {
						walk(v.Field(k), inFn)
					}
				}
			case reflect.Slice:
				for k := 0; k < v.Len(); k++ {
					walk(v.Index(k), inFn)
				}
			}
		}
		walk(reflect.ValueOf(st), false)
		if nested {
			return "", nil
		}
		if len(found) > 0 {
			return text[:sf.Offset(st.Pos())], found
		}
	}
	return "", nil
}
