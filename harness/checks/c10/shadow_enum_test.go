package c10

import (
	"fmt"
	"testing"
)

// shadowEnum: a builtin name re-declared by one fragment keeps its new meaning in every later
// fragment. Enumerated (not sampled): builtin names (those the optimizer may evaluate at compile
// time and some it may not) x every declaration form x use forms the optimizer would fold if it
// took the name for the builtin again x fragment shapes x optimizer on / off / budget 1.
func shadowEnum(t *testing.T, ck *checker) {
	names := []string{"len", "int", "uint", "char", "float", "string", "bool", "bytes", "chars", "error", "contains",
		"typeName", "sprintf", "isInt", "isError", "append", "copy", "repeat"}
	type decl struct {
		name    string
		src     func(n string) string
		fn      bool
		globals bool
	}
	decls := []decl{
		{"define", func(n string) string { return n + " := 5" }, false, false},
		{"var", func(n string) string { return "var " + n + " = 5" }, false, false},
		{"const-literal", func(n string) string { return "const " + n + " = 5" }, false, false},
		{"const-folded", func(n string) string { return "const " + n + " = 2 + 3" }, false, false},
		{"const-iota", func(n string) string { return "const (\n zq = iota + 4\n " + n + "\n)" }, false, false},
		{"const-alias", func(n string) string { return "const zk = 5\nconst " + n + " = zk" }, false, false},
		{"destructuring", func(n string) string { return n + ", zz := [5, 6]" }, false, false},
		{"global", func(n string) string { return "global " + n }, false, true},
		{"define-func", func(n string) string { return n + " := func(...a) { return 5 }" }, true, false},
		{"const-func", func(n string) string { return "const " + n + " = func(...a) { return 5 }" }, true, false},
	}
	type use struct {
		name string
		src  func(n string) string
		fn   bool
	}
	uses := []use{
		{"binary", func(n string) string { return n + " + 1" }, false},
		{"compare", func(n string) string { return n + " == 5" }, false},
		{"array-unary", func(n string) string { return "[" + n + ", -" + n + "]" }, false},
		{"ternary", func(n string) string { return n + ` > 4 ? "big" : "small"` }, false},
		{"in-closure", func(n string) string { return "zf := func() { return " + n + " * 2 }\nzf()" }, false},
		{"bound-first", func(n string) string { return "zx := " + n + "\nzx" }, false},
		{"call-noncallable", func(n string) string { return n + `("abc")` }, false},
		{"call", func(n string) string { return n + `("abc")` }, true},
		{"call-in-array", func(n string) string { return "[" + n + "(1, 2), 3]" }, true},
		{"call-in-closure", func(n string) string { return "zf := func() { return " + n + "(1) + 1 }\nzf()" }, true},
	}
	lastExpr := func(src string) string {
		// RetForm: the fragment with its last (expression) line turned into a return
		i := len(src) - 1
		for i >= 0 && src[i] != '\n' {
			i--
		}
		return src[:i+1] + "return " + src[i+1:]
	}
	n := 0
	for _, name := range names {
		for _, d := range decls {
			for _, u := range uses {
				if u.fn != d.fn {
					continue
				}
				for shape := 0; shape < 2; shape++ {
					frags := []string{d.src(name), u.src(name)}
					noValue := []bool{true, false}
					retForm := []string{"", lastExpr(u.src(name))}
					if shape == 1 {
						// an unrelated fragment in between, and the use repeated in a further fragment
						frags = []string{d.src(name), "zy := 1", u.src(name), "zy + 1"}
						noValue = []bool{true, true, false, false}
						retForm = []string{"", "", lastExpr(u.src(name)), "return zy + 1"}
					}
					for _, o := range options {
						c := &Case{Fragments: frags, NoValue: noValue, RetForm: retForm, NoOptimize: o.NoOptimize, OptLimit: o.OptLimit,
							Class: "shadow-enum", Classes: []string{"shadow-enum", "shadow-enum:decl:" + d.name, "shadow-enum:use:" + u.name}}
						if d.globals {
							c.Globals = map[string]string{name: "5"}
						}
						for range frags {
							c.Probes = append(c.Probes, nil)
						}
						n++
						if msg := ck.runCase(c, nil, true); msg != "" {
							t.Errorf("%s", msg)
							if n > 0 && t.Failed() {
								return // one report is enough, the rest of the family fails alike
							}
						}
					}
				}
			}
		}
	}
	ck.rec.Note("shadow-enum-cases", fmt.Sprint(n))
}
