package c10

import (
	"fmt"

	"pgregory.net/rapid"

	"verif/internal/gen"
)

// ---------------------------------------------------------------------------
// Directed top-level scripts: every template is a short list of TOP-LEVEL
// statements over its own (suffixed) names that plants one of the situations
// the property names; 1-3 templates are interleaved (keeping each template's
// own order) so that slot numbers, constant indexes and module indexes of one
// template depend on what the others declared before.
// ---------------------------------------------------------------------------

type script struct {
	Stmts       []gen.Stmt
	Modules     map[string][]gen.Stmt
	Globals     map[string]gen.Expr
	BuiltinMods []string
	Disabled    []string
	Templates   []string
}

type dg struct {
	t   *rapid.T
	sc  *script
	sfx string
}

func (g *dg) u(n int, label string) int       { return gen.Uniform(g.t, n, label) }
func (g *dg) chance(p int, label string) bool { return g.u(100, label) < p }
func (g *dg) n(base string) string            { return base + g.sfx }
func (g *dg) k(label string) gen.Expr         { return gen.IntLit(int64(g.u(9, label) + 1)) }

func id(n string) *gen.Ident                  { return gen.Id(n) }
func il(i int64) gen.Expr                     { return gen.IntLit(i) }
func sl(s string) gen.Expr                    { return gen.StrLit(s) }
func def(n string, x gen.Expr) gen.Stmt       { return &gen.Define{Names: []string{n}, X: x} }
func defs(ns []string, x gen.Expr) gen.Stmt   { return &gen.Define{Names: ns, X: x} }
func vardecl(n string, x gen.Expr) gen.Stmt   { return &gen.VarDecl{Names: []string{n}, Values: []gen.Expr{x}} }
func constdecl(n string, x gen.Expr) gen.Stmt { return &gen.ConstDecl{Names: []string{n}, Values: []gen.Expr{x}} }
func asg(t gen.Expr, op string, x gen.Expr) gen.Stmt {
	return &gen.Assign{Targets: []gen.Expr{t}, Op: op, X: x}
}
func es(x gen.Expr) gen.Stmt                   { return &gen.ExprStmt{X: x} }
func ret(x ...gen.Expr) gen.Stmt               { return &gen.Return{Xs: x} }
func bin(op string, l, r gen.Expr) gen.Expr    { return &gen.Binary{Op: op, L: l, R: r} }
func call(f gen.Expr, a ...gen.Expr) gen.Expr  { return &gen.Call{Fn: f, Args: a} }
func calln(f string, a ...gen.Expr) gen.Expr   { return &gen.Call{Fn: id(f), Args: a} }
func arr(x ...gen.Expr) gen.Expr               { return &gen.ArrayLit{Elems: x} }
func sel(x gen.Expr, n string) gen.Expr        { return &gen.Selector{X: x, Name: n} }
func fn(params []string, body ...gen.Stmt) *gen.FuncLit {
	return &gen.FuncLit{Params: params, Body: body}
}

var intOps = []string{"+", "-", "*", "|", "^"}

func (g *dg) op(label string) string { return intOps[g.u(len(intOps), label)] }

// tClosure: function created, captured variable assigned later, function called after that.
func (g *dg) tClosure() []gen.Stmt {
	x, f, s, r := g.n("x"), g.n("f"), g.n("s"), g.n("r")
	var out []gen.Stmt
	if g.chance(30, "cl-var") {
		out = append(out, vardecl(x, g.k("cl-k0")))
	} else {
		out = append(out, def(x, g.k("cl-k0")))
	}
	switch g.u(3, "cl-form") {
	case 0:
		out = append(out, def(f, fn(nil, ret(bin(g.op("cl-op"), id(x), g.k("cl-k1"))))))
	case 1:
		out = append(out, def(f, fn(nil, asg(id(x), "+=", g.k("cl-k1")), ret(id(x)))))
	default:
		// closure inside a block of an earlier fragment, stored in a top-level variable
		out = append(out, vardecl(f, nil),
			&gen.If{Cond: bin(">", id(x), il(0)), Then: []gen.Stmt{
				def(g.n("t"), bin("*", id(x), il(2))),
				asg(id(f), "=", fn(nil, ret(arr(id(x), id(g.n("t")))))),
			}})
	}
	hasSetter := g.chance(40, "cl-setter")
	if hasSetter {
		out = append(out, def(s, fn([]string{"v"}, asg(id(x), "=", id("v")))))
	}
	nAsg := 1 + g.u(2, "cl-nasg")
	for i := 0; i < nAsg; i++ {
		switch g.u(5, "cl-asg") {
		case 0:
			out = append(out, asg(id(x), "=", g.k("cl-k2")))
		case 1:
			out = append(out, asg(id(x), g.op("cl-cop")+"=", g.k("cl-k2")))
		case 2:
			out = append(out, &gen.IncDec{Target: id(x), Inc: g.chance(50, "cl-inc")})
		case 3:
			if hasSetter {
				out = append(out, es(calln(s, g.k("cl-k3"))))
			} else {
				out = append(out, asg(id(x), "=", bin("+", id(x), il(10))))
			}
		default:
			out = append(out, &gen.If{Cond: gen.BoolLit(true), Then: []gen.Stmt{asg(id(x), "=", sl("s"))}})
		}
	}
	if g.chance(70, "cl-bind") {
		out = append(out, def(r, calln(f)))
	} else {
		out = append(out, es(calln(f)))
	}
	return out
}

// tCounter: closure factory; every counter has its own captured variable.
func (g *dg) tCounter() []gen.Stmt {
	mk, n1, n2 := g.n("mk"), g.n("na"), g.n("nb")
	out := []gen.Stmt{
		def(mk, fn(nil, def("c", g.k("ct-k")), ret(fn(nil, &gen.IncDec{Target: id("c"), Inc: true}, ret(id("c")))))),
		def(n1, calln(mk)),
		es(calln(n1)),
		def(n2, calln(mk)),
		es(arr(calln(n1), calln(n2))),
	}
	return out
}

// tConst: const / iota groups, constants built from earlier constants, non-literal constants.
func (g *dg) tConst() []gen.Stmt {
	a, b, c, k, k2, v, fc := g.n("ca"), g.n("cb"), g.n("cc"), g.n("ck"), g.n("cm"), g.n("cv"), g.n("cf")
	var out []gen.Stmt
	var first gen.Expr
	switch g.u(3, "co-iota") {
	case 0:
		first = id("iota")
	case 1:
		first = bin("<<", il(1), id("iota"))
	default:
		first = bin("+", id("iota"), g.k("co-k0"))
	}
	grp := &gen.ConstDecl{Names: []string{a, b, c}, Values: []gen.Expr{first, nil, nil}}
	if g.chance(30, "co-skip") {
		grp.Names[1] = "_"
	}
	out = append(out, grp)
	out = append(out, constdecl(k, g.k("co-k1")))
	out = append(out, constdecl(k2, bin("+", bin("*", id(k), il(2)), id(a))))
	if g.chance(50, "co-use") {
		out = append(out, def(v, bin("+", id(k2), id(c))))
	} else {
		out = append(out, es(arr(id(a), id(c), id(k2))))
	}
	if g.chance(50, "co-fn") {
		out = append(out, constdecl(fc, fn(nil, ret(arr(id(k), id(c))))))
		out = append(out, es(calln(fc)))
	}
	if g.chance(40, "co-second") {
		out = append(out, &gen.ConstDecl{Names: []string{g.n("cd"), g.n("ce")}, Values: []gen.Expr{bin("+", id("iota"), id(k)), nil}})
		out = append(out, es(arr(id(g.n("cd")), id(g.n("ce")))))
	}
	return out
}

// tSlot: blocks that declare variables (their slots are re-used by later top-level declarations).
func (g *dg) tSlot() []gen.Stmt {
	gg, acc, y, z := g.n("g"), g.n("acc"), g.n("y"), g.n("z")
	out := []gen.Stmt{vardecl(gg, nil), def(acc, il(0))}
	blk := func(i int) gen.Stmt {
		t, u := fmt.Sprintf("t%d%s", i, g.sfx), fmt.Sprintf("u%d%s", i, g.sfx)
		switch g.u(4, "sl-blk") {
		case 0:
			return &gen.If{Cond: bin("==", id(acc), id(acc)), Then: []gen.Stmt{
				def(t, g.k("sl-k")), def(u, g.k("sl-k2")),
				asg(id(gg), "=", fn(nil, ret(bin("+", id(t), id(u))))),
			}}
		case 1:
			return &gen.For{Init: def("i", il(0)), Cond: bin("<", id("i"), il(3)), Post: &gen.IncDec{Target: id("i"), Inc: true},
				Body: []gen.Stmt{def(t, bin("*", id("i"), il(2))), asg(id(acc), "+=", id(t))}}
		case 2:
			return &gen.ForIn{Key: "_", Value: "e", X: arr(g.k("sl-e1"), g.k("sl-e2")), Body: []gen.Stmt{
				def(t, id("e")), asg(id(acc), "+=", id(t)),
				asg(id(gg), "=", fn(nil, ret(id(t)))),
			}}
		default:
			return &gen.If{Init: def(t, g.k("sl-k3")), Cond: bin(">", id(t), il(100)), Then: []gen.Stmt{def(u, il(1))},
				HasElse: true, Else: []gen.Stmt{def(u, il(2)), asg(id(acc), "+=", bin("+", id(t), id(u)))}}
		}
	}
	out = append(out, blk(0))
	if g.chance(50, "sl-decl1") {
		out = append(out, def(y, g.k("sl-y")))
	} else {
		out = append(out, defs([]string{y, g.n("y2")}, arr(g.k("sl-y"), g.k("sl-y2"))))
	}
	if g.chance(60, "sl-blk2") {
		out = append(out, blk(1))
	}
	out = append(out, def(z, arr(id(y), id(acc), &gen.Cond{C: id(gg), A: calln(gg), B: il(-1)})))
	return out
}

// tImport: source module with state imported in several fragments, builtin module, nested import.
func (g *dg) tImport() []gen.Stmt {
	if g.sc.Modules == nil {
		g.sc.Modules = map[string][]gen.Stmt{}
	}
	if _, ok := g.sc.Modules["m0"]; !ok {
		g.sc.Modules["m0"] = []gen.Stmt{
			&gen.GlobalDecl{Names: []string{"L"}},
			es(calln("L", sl("load m0"))),
			def("cnt", il(0)),
			ret(&gen.MapLit{Keys: []string{"f", "v"}, Elems: []gen.Expr{
				fn([]string{"x"}, asg(id("cnt"), "+=", id("x")), ret(id("cnt"))), il(1)}}),
		}
		g.sc.Modules["m1"] = []gen.Stmt{
			&gen.GlobalDecl{Names: []string{"L"}},
			es(calln("L", sl("load m1"))),
			def("inner", &gen.Import{Name: "m0"}),
			ret(&gen.MapLit{Keys: []string{"g", "w"}, Elems: []gen.Expr{
				fn([]string{"x"}, ret(call(sel(id("inner"), "f"), id("x")))), sel(id("inner"), "v")}}),
		}
	}
	m, n2 := g.n("m"), g.n("n")
	var out []gen.Stmt
	first := []string{"m0", "m0", "m1"}[g.u(3, "im-first")]
	callOf := func(v, mod string, k gen.Expr) gen.Expr {
		if mod == "m1" {
			return call(sel(id(v), "g"), k)
		}
		return call(sel(id(v), "f"), k)
	}
	out = append(out, def(m, &gen.Import{Name: first}))
	out = append(out, es(callOf(m, first, g.k("im-k1"))))
	second := []string{"m0", "m0", "m1"}[g.u(3, "im-second")]
	out = append(out, def(n2, &gen.Import{Name: second}))
	if g.chance(50, "im-set") && first == "m0" {
		out = append(out, asg(sel(id(m), "v"), "=", g.k("im-v")))
	}
	out = append(out, es(arr(callOf(n2, second, g.k("im-k2")), callOf(m, first, il(0)))))
	if g.chance(40, "im-builtin") {
		has := false
		for _, b := range g.sc.BuiltinMods {
			has = has || b == "strings"
		}
		if !has {
			g.sc.BuiltinMods = append(g.sc.BuiltinMods, "strings")
		}
		st := g.n("st")
		out = append(out, def(st, &gen.Import{Name: "strings"}))
		out = append(out, es(call(sel(id(st), "ToUpper"), sl("ab"))))
		if g.chance(50, "im-builtin2") {
			out = append(out, asg(sel(id(st), "Extra"), "=", g.k("im-x")))
			out = append(out, es(sel(&gen.Import{Name: "strings"}, "Extra")))
		}
	}
	return out
}

var shadowable = []string{"typeName", "isInt", "chars", "contains", "repeat", "len", "int", "string", "bool"}

// tShadow: a builtin name declared in one fragment keeps that meaning later.
func (g *dg) tShadow() []gen.Stmt {
	name := shadowable[g.u(len(shadowable), "sh-name")]
	if g.sc.usedShadow(name) {
		return g.tClosure()
	}
	g.sc.Templates = append(g.sc.Templates, "shadow:"+name)
	r, h := g.n("r"), g.n("h")
	var out []gen.Stmt
	fnForm := g.chance(60, "sh-fn")
	var val gen.Expr
	if fnForm {
		val = &gen.FuncLit{Params: []string{"a"}, Variadic: true, Body: []gen.Stmt{ret(arr(sl("S"), id("a")))}}
	} else {
		val = g.k("sh-k")
	}
	switch g.u(3, "sh-decl") {
	case 0:
		out = append(out, def(name, val))
	case 1:
		out = append(out, vardecl(name, val))
	default:
		out = append(out, constdecl(name, val))
	}
	if fnForm {
		out = append(out, def(r, calln(name, g.k("sh-arg"))))
		out = append(out, def(h, fn(nil, ret(calln(name, sl("q"))))))
	} else {
		// uses the optimizer would fold if it took the name for the builtin again
		switch g.u(4, "sh-use") {
		case 0:
			out = append(out, def(r, bin("+", id(name), il(1))))
		case 1:
			out = append(out, def(r, bin("==", id(name), g.k("sh-k2"))))
		case 2:
			out = append(out, def(r, arr(id(name), &gen.Unary{Op: "-", X: id(name)})))
		default:
			out = append(out, def(r, &gen.Cond{C: bin(">", id(name), il(4)), A: sl("big"), B: sl("small")}))
		}
		out = append(out, def(h, fn(nil, ret(bin("*", id(name), il(2))))))
	}
	out = append(out, es(arr(id(r), calln(h))))
	return out
}

func (sc *script) usedShadow(name string) bool {
	for _, t := range sc.Templates {
		if t == "shadow:"+name {
			return true
		}
	}
	return false
}

// tGlobal: global declarations, assignments to globals, closures over globals.
func (g *dg) tGlobal() []gen.Stmt {
	ga, gb, gf := g.n("ga"), g.n("gb"), g.n("gf")
	if g.sc.Globals == nil {
		g.sc.Globals = map[string]gen.Expr{}
	}
	g.sc.Globals[gb] = g.k("gl-init")
	var out []gen.Stmt
	if g.chance(50, "gl-group") {
		out = append(out, &gen.GlobalDecl{Names: []string{ga, gb}})
	} else {
		out = append(out, &gen.GlobalDecl{Names: []string{ga}}, &gen.GlobalDecl{Names: []string{gb}})
	}
	out = append(out, asg(id(ga), "=", g.k("gl-k1")))
	out = append(out, def(gf, fn(nil, ret(arr(id(ga), id(gb))))))
	out = append(out, asg(id(gb), "+=", g.k("gl-k2")))
	if g.chance(50, "gl-again") {
		// declaring the same global again in a later fragment is allowed
		out = append(out, &gen.GlobalDecl{Names: []string{ga}})
	}
	out = append(out, es(calln(gf)))
	return out
}

// tTry: try statements at the top level (one scope per statement) before / after cuts.
func (g *dg) tTry() []gen.Stmt {
	tr, w, h := g.n("tr"), g.n("w"), g.n("h")
	out := []gen.Stmt{def(tr, il(0)), vardecl(h, nil)}
	t := &gen.Try{
		Body:     []gen.Stmt{def(g.n("tv"), g.k("tr-k")), &gen.Throw{X: bin("+", sl("x"), sl("y"))}},
		HasCatch: true, CatchIdent: g.n("e"),
		Catch: []gen.Stmt{asg(id(tr), "=", sel(id(g.n("e")), "Message")),
			asg(id(h), "=", fn(nil, ret(arr(id(g.n("e")), id(g.n("tv"))))))},
	}
	if g.chance(60, "tr-fin") {
		t.HasFinally = true
		t.Finally = []gen.Stmt{asg(id(tr), "=", arr(id(tr)))}
	}
	out = append(out, t)
	out = append(out, def(w, id(tr)))
	if g.chance(50, "tr-second") {
		out = append(out, &gen.Try{Body: []gen.Stmt{def(g.n("q"), g.k("tr-q")), asg(id(w), "=", arr(id(w), id(g.n("q"))))},
			HasFinally: true, Finally: []gen.Stmt{asg(id(tr), "=", il(-1))}})
	}
	out = append(out, es(arr(id(w), &gen.Cond{C: id(h), A: calln(h), B: il(0)})))
	return out
}

// tDestruct: destructuring definitions / assignments.
func (g *dg) tDestruct() []gen.Stmt {
	a, b, c, d := g.n("da"), g.n("db"), g.n("dc"), g.n("dd")
	out := []gen.Stmt{
		defs([]string{a, b}, arr(g.k("de-1"), g.k("de-2"))),
		&gen.Assign{Targets: []gen.Expr{id(a), id(b)}, Op: "=", X: arr(id(b), id(a))},
		defs([]string{c, d}, call(fn(nil, &gen.Return{Xs: []gen.Expr{g.k("de-3"), id(a)}}))),
	}
	if g.chance(50, "de-short") {
		out = append(out, &gen.Assign{Targets: []gen.Expr{id(c), id(d)}, Op: "=", X: g.k("de-4")})
	}
	out = append(out, es(arr(id(a), id(b), id(c), id(d))))
	return out
}

// tPrint: output from several fragments.
func (g *dg) tPrint() []gen.Stmt {
	p := g.n("p")
	return []gen.Stmt{
		def(p, g.k("pr-k")),
		es(calln("println", sl("p"+g.sfx), id(p))),
		asg(id(p), "*=", il(3)),
		es(calln("printf", sl("%v;"), id(p))),
	}
}

// tLast: what the last statement of a fragment evaluates to.
func (g *dg) tLast() []gen.Stmt {
	q := g.n("q")
	out := []gen.Stmt{def(q, g.k("la-k"))}
	for i := 0; i < 2+g.u(2, "la-n"); i++ {
		switch g.u(6, "la-kind") {
		case 0:
			out = append(out, es(bin("+", id(q), g.k("la-e"))))
		case 1:
			out = append(out, es(id(q)))
		case 2:
			out = append(out, es(gen.UndefLit()))
		case 3:
			out = append(out, asg(id(q), "+=", il(1)))
		case 4:
			out = append(out, es(call(fn(nil, ret(id(q))))))
		default:
			out = append(out, es(&gen.Cond{C: bin(">", id(q), il(4)), A: sl("big"), B: arr(id(q))}))
		}
	}
	return out
}

// tFail: a statement that fails at run time (what follows it is not compared).
func (g *dg) tFail() []gen.Stmt {
	z, d := g.n("z"), g.n("zd")
	out := []gen.Stmt{def(z, g.k("fa-k")), def(d, bin("-", id(z), id(z)))}
	switch g.u(6, "fa-kind") {
	case 0:
		out = append(out, def(g.n("zq"), bin("/", id(z), id(d))))
	case 1:
		out = append(out, &gen.Throw{X: calln("error", sl("boom"))})
	case 2:
		out = append(out, es(&gen.Index{X: arr(il(1)), I: bin("+", id(z), il(5))}))
	case 3:
		out = append(out, es(call(id(z))))
	case 4:
		out = append(out, es(call(fn(nil, &gen.Throw{X: sl("deep")}))))
	default:
		out = append(out, &gen.Try{Body: []gen.Stmt{&gen.Throw{X: sl("tf")}}, HasFinally: true,
			Finally: []gen.Stmt{asg(id(z), "=", sl("fin"))}})
	}
	out = append(out, def(g.n("after"), il(2)))
	return out
}

// tCErr: a statement that does not compile.
func (g *dg) tCErr() []gen.Stmt {
	a := g.n("ea")
	out := []gen.Stmt{def(a, g.k("ce-k"))}
	switch g.u(5, "ce-kind") {
	case 0:
		out = append(out, def(g.n("eb"), bin("+", id("nope"+g.sfx), il(1))))
	case 1:
		out = append(out, def(a, il(2))) // redeclared in the session's root scope
	case 2:
		out = append(out, constdecl(g.n("ec"), il(1)), asg(id(g.n("ec")), "=", il(2)))
	case 3:
		out = append(out, &gen.Raw{Text: "zz" + g.sfx + " := )"})
	default:
		if g.chance(50, "ce-fold") {
			out = append(out, es(calln("isUint", il(1)))) // foldable builtin, disabled in some sessions
		} else {
			out = append(out, es(calln("delete", il(1)))) // disabled in some sessions, a run-time error otherwise
		}
	}
	out = append(out, def(g.n("eafter"), il(3)))
	return out
}

// tPool: literals that meet again in the constant pool the session carries over
// (equal values of different types, 0.0 and -0.0, equal strings).
func (g *dg) tPool() []gen.Stmt {
	a, b, c, d := g.n("ka"), g.n("kb"), g.n("kc"), g.n("kd")
	lits := []gen.Expr{gen.FloatLit(0), &gen.Unary{Op: "-", X: gen.FloatLit(0)}, il(0), il(1), gen.FloatLit(1),
		gen.BoolLit(true), gen.BoolLit(false), &gen.Lit{Kind: gen.LChar, I: 1}, &gen.Lit{Kind: gen.LUint, U: 1},
		&gen.Lit{Kind: gen.LUint, U: 0}, sl("1"), sl(""), gen.UndefLit(), bin("*", gen.FloatLit(0), &gen.Unary{Op: "-", X: gen.FloatLit(1)})}
	pickLit := func(label string) gen.Expr { return lits[g.u(len(lits), label)] }
	out := []gen.Stmt{}
	if g.chance(50, "po-const") {
		out = append(out, constdecl(a, pickLit("po-a")))
	} else {
		out = append(out, def(a, pickLit("po-a")))
	}
	out = append(out, def(b, pickLit("po-b")))
	out = append(out, def(c, arr(pickLit("po-c1"), pickLit("po-c2"))))
	out = append(out, def(d, fn(nil, ret(arr(pickLit("po-d1"), id(a), pickLit("po-d2"))))))
	out = append(out, es(arr(id(a), id(b), id(c), calln(d), bin("/", gen.FloatLit(1), pickLit("po-div")))))
	return out
}

type tmpl struct {
	name string
	w    int
	fn   func(*dg) []gen.Stmt
}

var templates = []tmpl{
	{"closure", 6, (*dg).tClosure},
	{"counter", 2, (*dg).tCounter},
	{"const", 5, (*dg).tConst},
	{"slot", 6, (*dg).tSlot},
	{"import", 5, (*dg).tImport},
	{"shadow", 4, (*dg).tShadow},
	{"global", 3, (*dg).tGlobal},
	{"try", 3, (*dg).tTry},
	{"destruct", 2, (*dg).tDestruct},
	{"print", 2, (*dg).tPrint},
	{"last", 2, (*dg).tLast},
	{"pool", 4, (*dg).tPool},
	{"fail", 3, (*dg).tFail},
	{"cerr", 2, (*dg).tCErr},
}

// genDirected builds one directed script.
func genDirected(t *rapid.T) *script {
	sc := &script{}
	nT := 1 + gen.Uniform(t, 3, "ntemplates")
	total := 0
	for _, tp := range templates {
		total += tp.w
	}
	var lists [][]gen.Stmt
	for i := 0; i < nT; i++ {
		r := gen.Uniform(t, total, "template")
		var tp tmpl
		for _, c := range templates {
			if r < c.w {
				tp = c
				break
			}
			r -= c.w
		}
		g := &dg{t: t, sc: sc, sfx: fmt.Sprintf("%d", i)}
		sc.Templates = append(sc.Templates, tp.name)
		lists = append(lists, tp.fn(g))
	}
	// interleave keeping each list's order
	idx := make([]int, len(lists))
	for {
		var live []int
		for i := range lists {
			if idx[i] < len(lists[i]) {
				live = append(live, i)
			}
		}
		if len(live) == 0 {
			break
		}
		i := live[gen.Uniform(t, len(live), "interleave")]
		// keep runs: take 1-2 statements
		sc.Stmts = append(sc.Stmts, lists[i][idx[i]])
		idx[i]++
	}
	if gen.Uniform(t, 100, "disable") < 25 {
		sc.Disabled = []string{"delete", "repeat", "isUint"}
	}
	return sc
}
