package c10

import (
	"sort"

	"verif/internal/gen"
)

// ---------------------------------------------------------------------------
// Small static analysis over the harness' own AST (package gen): which names a
// list of TOP-LEVEL statements declares, which outer names it reads / assigns /
// calls (scope aware), used to build the probe fragment and to classify cases.
// ---------------------------------------------------------------------------

type declKind int

const (
	dVar declKind = iota
	dConst
	dGlobal
)

type topDecl struct {
	Name     string
	Kind     declKind
	ZeroCall bool         // bound to a function literal callable without arguments
	Fn       *gen.FuncLit // the literal (when bound to one)
	Module   string       // bound to import("...")
	Stmt     int          // index of the declaring statement
}

// topDecls returns the names declared at the top level by stmts (in order).
func topDecls(stmts []gen.Stmt) []topDecl {
	var out []topDecl
	add := func(i int, name string, k declKind, x gen.Expr) {
		if name == "_" || name == "" {
			return
		}
		d := topDecl{Name: name, Kind: k, Stmt: i}
		switch v := x.(type) {
		case *gen.FuncLit:
			d.Fn = v
			if len(v.Params) == 0 || (len(v.Params) == 1 && v.Variadic) {
				d.ZeroCall = true
			}
		case *gen.Import:
			d.Module = v.Name
		}
		out = append(out, d)
	}
	for i, s := range stmts {
		switch s := s.(type) {
		case *gen.Define:
			if len(s.Names) == 1 {
				add(i, s.Names[0], dVar, s.X)
			} else {
				for _, n := range s.Names {
					add(i, n, dVar, nil)
				}
			}
		case *gen.VarDecl:
			for j, n := range s.Names {
				add(i, n, dVar, s.Values[j])
			}
		case *gen.ConstDecl:
			for j, n := range s.Names {
				add(i, n, dConst, s.Values[j])
			}
		case *gen.GlobalDecl:
			for _, n := range s.Names {
				add(i, n, dGlobal, nil)
			}
		}
	}
	return out
}

// uses is what a statement list does with names that it does not bind itself.
type uses struct {
	Reads   map[string]bool
	Assigns map[string]bool
	Calls   map[string]bool
	Imports map[string]int
	// BlockDecls counts variables declared inside nested blocks (not functions)
	BlockDecls int
	HasTry     bool
}

func newUses() *uses {
	return &uses{Reads: map[string]bool{}, Assigns: map[string]bool{}, Calls: map[string]bool{}, Imports: map[string]int{}}
}

type walker struct {
	u      *uses
	scopes []map[string]bool
	fnDep  int
	blkDep int
}

func (w *walker) push() { w.scopes = append(w.scopes, map[string]bool{}) }
func (w *walker) pop()  { w.scopes = w.scopes[:len(w.scopes)-1] }
func (w *walker) bind(n string) {
	if n == "" || n == "_" {
		return
	}
	w.scopes[len(w.scopes)-1][n] = true
	if w.blkDep > 0 && w.fnDep == 0 {
		w.u.BlockDecls++
	}
}
func (w *walker) bound(n string) bool {
	for i := len(w.scopes) - 1; i >= 0; i-- {
		if w.scopes[i][n] {
			return true
		}
	}
	return false
}

// analyse walks stmts as a top-level statement list; declarations of the list
// itself bind from their position on (so only uses of OUTER names are reported).
func analyse(stmts []gen.Stmt) *uses {
	w := &walker{u: newUses()}
	w.push()
	w.stmts(stmts)
	return w.u
}

// captured returns the outer names a function literal refers to.
func captured(fl *gen.FuncLit) *uses {
	w := &walker{u: newUses()}
	w.push()
	w.expr(fl)
	return w.u
}

func (w *walker) stmts(ss []gen.Stmt) {
	for _, s := range ss {
		w.stmt(s)
	}
}

func (w *walker) block(ss []gen.Stmt) {
	w.push()
	w.blkDep++
	w.stmts(ss)
	w.blkDep--
	w.pop()
}

func (w *walker) target(e gen.Expr) {
	if id, ok := e.(*gen.Ident); ok {
		if !w.bound(id.Name) {
			w.u.Assigns[id.Name] = true
		}
		return
	}
	w.expr(e)
}

func (w *walker) stmt(s gen.Stmt) {
	switch s := s.(type) {
	case nil:
	case *gen.Define:
		w.expr(s.X)
		for _, n := range s.Names {
			w.bind(n)
		}
	case *gen.VarDecl:
		for i, n := range s.Names {
			if s.Values[i] != nil {
				w.expr(s.Values[i])
			}
			w.bind(n)
		}
	case *gen.ConstDecl:
		for i, n := range s.Names {
			if s.Values[i] != nil {
				w.expr(s.Values[i])
			}
			w.bind(n)
		}
	case *gen.GlobalDecl:
		for _, n := range s.Names {
			w.bind(n)
		}
	case *gen.ParamDecl:
		for _, n := range s.Names {
			w.bind(n)
		}
	case *gen.Assign:
		w.expr(s.X)
		for _, t := range s.Targets {
			w.target(t)
			if s.Op != "=" {
				w.expr(t)
			}
		}
	case *gen.IncDec:
		w.target(s.Target)
		w.expr(s.Target)
	case *gen.ExprStmt:
		w.expr(s.X)
	case *gen.If:
		w.push()
		w.blkDep++
		if s.Init != nil {
			w.stmt(s.Init)
		}
		w.expr(s.Cond)
		w.block(s.Then)
		if s.HasElse || len(s.Else) > 0 {
			w.block(s.Else)
		}
		w.blkDep--
		w.pop()
	case *gen.For:
		w.push()
		w.blkDep++
		if s.Init != nil {
			w.stmt(s.Init)
		}
		if s.Cond != nil {
			w.expr(s.Cond)
		}
		if s.Post != nil {
			w.stmt(s.Post)
		}
		w.block(s.Body)
		w.blkDep--
		w.pop()
	case *gen.ForIn:
		w.expr(s.X)
		w.push()
		w.blkDep++
		w.bind(s.Key)
		w.bind(s.Value)
		w.block(s.Body)
		w.blkDep--
		w.pop()
	case *gen.Try:
		if w.fnDep == 0 {
			w.u.HasTry = true
		}
		w.push()
		w.blkDep++
		w.block(s.Body)
		if s.HasCatch {
			w.push()
			w.bind(s.CatchIdent)
			w.block(s.Catch)
			w.pop()
		}
		if s.HasFinally {
			w.block(s.Finally)
		}
		w.blkDep--
		w.pop()
	case *gen.Return:
		for _, x := range s.Xs {
			w.expr(x)
		}
	case *gen.Throw:
		w.expr(s.X)
	case *gen.Break, *gen.Continue, *gen.Raw:
	}
}

func (w *walker) expr(e gen.Expr) {
	switch e := e.(type) {
	case nil:
	case *gen.Lit:
	case *gen.Ident:
		if !w.bound(e.Name) {
			w.u.Reads[e.Name] = true
		}
	case *gen.Unary:
		w.expr(e.X)
	case *gen.Binary:
		w.expr(e.L)
		w.expr(e.R)
	case *gen.Cond:
		w.expr(e.C)
		w.expr(e.A)
		w.expr(e.B)
	case *gen.ArrayLit:
		for _, x := range e.Elems {
			w.expr(x)
		}
	case *gen.MapLit:
		for _, x := range e.Elems {
			w.expr(x)
		}
	case *gen.Index:
		w.expr(e.X)
		w.expr(e.I)
	case *gen.Selector:
		w.expr(e.X)
	case *gen.Slice:
		w.expr(e.X)
		w.expr(e.Lo)
		w.expr(e.Hi)
	case *gen.Call:
		if id, ok := e.Fn.(*gen.Ident); ok && !w.bound(id.Name) {
			w.u.Calls[id.Name] = true
		}
		w.expr(e.Fn)
		for _, a := range e.Args {
			w.expr(a)
		}
	case *gen.FuncLit:
		w.push()
		w.fnDep++
		saved := w.blkDep
		w.blkDep = 0
		for _, p := range e.Params {
			w.bind(p)
		}
		w.push()
		w.stmts(e.Body)
		w.pop()
		w.blkDep = saved
		w.fnDep--
		w.pop()
	case *gen.Import:
		w.u.Imports[e.Name]++
	case *gen.Paren:
		w.expr(e.X)
	}
}

func sortedKeys(m map[string]bool) []string {
	out := make([]string, 0, len(m))
	for k := range m {
		out = append(out, k)
	}
	sort.Strings(out)
	return out
}
