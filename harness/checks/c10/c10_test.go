// C10 - evaluating fragments one by one in one Eval session equals evaluating
// their concatenation as one script (differential: Eval session vs fresh Eval
// sessions given the concatenated prefixes, plus read-only probe fragments).
package c10

import (
	"bytes"
	"context"
	"encoding/json"
	"errors"
	"fmt"
	"os"
	"sort"
	"strings"
	"testing"
	"time"

	"github.com/ozanh/ugo"
	"github.com/ozanh/ugo/parser"
	ugostrings "github.com/ozanh/ugo/stdlib/strings"
	"pgregory.net/rapid"

	"verif/internal/canon"
	"verif/internal/ev"
	"verif/internal/gen"
	"verif/internal/prog"
	"verif/internal/run"
)

// Case is the replayable form: everything is text.
type Case struct {
	Fragments   []string          `json:"fragments"`
	Probes      [][]string        `json:"probes,omitempty"` // Probes[i]: probe fragments evaluated (in clones) after fragment i
	// NoValue[i]: the last statement of fragment i is not an expression statement / return, so
	// the "last value on the stack" Eval returns for it is not specified and is not compared.
	NoValue []bool `json:"no_value,omitempty"`
	// RetForm[i]: fragment i with its last expression statement X rewritten to `return X` ("" when
	// it does not end in one): the concatenation ending in it is also run WITHOUT Eval (Compile + VM).
	RetForm []string `json:"ret_form,omitempty"`
	Modules     map[string]string `json:"modules,omitempty"`
	BuiltinMods []string          `json:"builtin_modules,omitempty"`
	Globals     map[string]string `json:"globals,omitempty"` // name -> literal source
	NoOptimize  bool              `json:"no_optimize,omitempty"`
	OptLimit    int               `json:"optimizer_limit,omitempty"`
	Disabled    []string          `json:"disabled_builtins,omitempty"`
	Class       string            `json:"class,omitempty"`
	Classes     []string          `json:"classes,omitempty"`
	Diff        string            `json:"diff,omitempty"`
}

func (c *Case) key() string {
	return strings.Join(c.Fragments, "\x00|\x00") + fmt.Sprintf("\x00%v/%d/%v", c.NoOptimize, c.OptLimit, c.Disabled)
}

type option struct {
	NoOptimize bool
	OptLimit   int
}

var options = []option{{false, 0}, {true, 0}, {false, 1}}

func (o option) String() string {
	switch {
	case o.NoOptimize:
		return "noopt"
	case o.OptLimit > 0:
		return fmt.Sprintf("limit%d", o.OptLimit)
	}
	return "opt"
}

// ------------------------------------------------------------------ sessions

var printBuf bytes.Buffer // ugo.PrintWriter for the whole (sequential) test process

type result struct {
	Kind  string `json:"kind"`            // value | rterr | cerr | timeout | panic
	Val   string `json:"val,omitempty"`   // canonical dump
	CKind string `json:"ckind,omitempty"` // parse | compile | optimizer | other
	Name  string `json:"name,omitempty"`
	Msg   string `json:"msg,omitempty"`
}

func (r result) failed() bool { return r.Kind != "value" }

func (r result) String() string {
	switch r.Kind {
	case "value":
		return "VALUE " + r.Val
	case "rterr":
		return fmt.Sprintf("RUNTIME-ERROR %s: %q", r.Name, r.Msg)
	case "cerr":
		return fmt.Sprintf("COMPILE-ERROR(%s) %q", r.CKind, r.Msg)
	case "panic":
		return "GO-PANIC " + r.Msg
	}
	return strings.ToUpper(r.Kind)
}

type session struct {
	lastRef *refusal // set by run when the optimizer refused the fragment
	ev      *ugo.Eval
	globals ugo.Map
	lg      *run.Logger
	out     strings.Builder
}

func newSession(c *Case, globals ugo.Map) *session {
	opts := ugo.CompilerOptions{NoOptimize: c.NoOptimize, OptimizerLimit: c.OptLimit}
	var builtin map[string]map[string]ugo.Object
	for _, b := range c.BuiltinMods {
		if b == "strings" {
			builtin = map[string]map[string]ugo.Object{"strings": ugostrings.Module}
		}
	}
	opts.ModuleMap = prog.ModuleMap(c.Modules, builtin) // a fresh module map per session
	if len(c.Disabled) > 0 {
		st := ugo.NewSymbolTable()
		st.DisableBuiltin(c.Disabled...)
		opts.SymbolTable = st
	}
	lg := &run.Logger{}
	g := run.Globals(globals, lg) // deep copy + L
	return &session{ev: ugo.NewEval(opts, g), globals: g, lg: lg}
}

const fragTimeout = 4 * time.Second

func (s *session) run(src string) (res result) {
	printBuf.Reset()
	s.lastRef = nil
	ctx, cancel := context.WithTimeout(context.Background(), fragTimeout)
	defer cancel()
	var ret ugo.Object
	var bc *ugo.Bytecode
	var err error
	func() {
		defer func() {
			if p := recover(); p != nil {
				res = result{Kind: "panic", Msg: run.FirstLine(fmt.Sprint(p))}
			}
		}()
		ret, bc, err = s.ev.Run(ctx, []byte(src))
	}()
	s.out.WriteString(printBuf.String())
	if res.Kind == "panic" {
		return res
	}
	if err == nil {
		return result{Kind: "value", Val: safeValue(ret)}
	}
	if errors.Is(err, context.DeadlineExceeded) || errors.Is(err, context.Canceled) || errors.Is(err, ugo.ErrVMAborted) {
		return result{Kind: "timeout"}
	}
	if bc == nil {
		res = result{Kind: "cerr", CKind: "other", Msg: run.FirstLine(err.Error())}
		var pe parser.ErrorList
		var pe1 *parser.Error
		var ce *ugo.CompilerError
		var oe *ugo.OptimizerError
		switch {
		case errors.As(err, &ce):
			res.CKind, res.Msg = "compile", ce.Err.Error()
		case errors.As(err, &oe) || strings.Contains(err.Error(), "Optimizer Error"):
			res.CKind, res.Msg = "optimizer", ""
			if oe != nil && oe.Err != nil {
				s.lastRef = &refusal{Line: oe.FilePos.Line, Col: oe.FilePos.Column, Err: oe.Err.Error()}
			}
		case errors.As(err, &pe) || errors.As(err, &pe1) || strings.Contains(err.Error(), "Parse Error"):
			res.CKind, res.Msg = "parse", ""
		}
		return res
	}
	res = result{Kind: "rterr"}
	res.Name, res.Msg = canon.ErrName(err)
	res.Msg = run.FirstLine(res.Msg)
	return res
}

var unprintable = map[string]int{}

// safeValue: canon.Value panics on objects whose TypeName is not implemented.
func safeValue(o ugo.Object) (s string) {
	defer func() {
		if p := recover(); p != nil {
			s = fmt.Sprintf("<unprintable %T>", o)
			defer func() { unprintable[s]++ }()
			if a, ok := o.(ugo.Array); ok {
				s = "<unprintable ["
				for _, e := range a {
					s += fmt.Sprintf("%T,", e)
				}
				s += "]>"
			}
		}
	}()
	return canon.Value(o)
}

func (s *session) dumpGlobals() string {
	c := make(ugo.Map, len(s.globals))
	for k, v := range s.globals {
		if k != "L" {
			c[k] = v
		}
	}
	return canon.Value(c)
}

func (s *session) logCopy() []string {
	return append([]string{}, s.lg.Log...)
}

// snap is what one session looked like after its fragments, and after the probes.
type snap struct {
	Results      []result `json:"results"`
	Out          string   `json:"out,omitempty"`
	Log          []string `json:"log,omitempty"`
	Globals      string   `json:"globals,omitempty"`
	Probes       []result `json:"probes,omitempty"`
	ProbeOut     string   `json:"probe_out,omitempty"`
	ProbeLog     []string `json:"probe_log,omitempty"`
	ProbeGlobals string   `json:"probe_globals,omitempty"`
	EarlyFail    bool     `json:"early_fail,omitempty"` // a fragment before the last one failed
	Ref          *refusal `json:"refusal,omitempty"`    // where and why the optimizer refused the last fragment
	Timeout      bool     `json:"timeout,omitempty"`
}

func (s snap) last() result { return s.Results[len(s.Results)-1] }

// runSession evaluates frags one after another in a fresh session, then the probes.
func runSession(c *Case, globals ugo.Map, frags []string, probes []string) snap {
	s := newSession(c, globals)
	var sn snap
	for i, f := range frags {
		r := s.run(f)
		sn.Results = append(sn.Results, r)
		if r.Kind == "timeout" {
			sn.Timeout = true
			return sn
		}
		if r.failed() && i < len(frags)-1 {
			sn.EarlyFail = true
			return sn
		}
	}
	sn.Out = s.out.String()
	sn.Log = s.logCopy()
	sn.Globals = s.dumpGlobals()
	sn.Ref = s.lastRef
	if k := sn.last().Kind; k == "cerr" || k == "panic" {
		return sn // nothing ran (in the batch session not even the earlier statements): no state to compare
	}
	for _, p := range probes {
		r := s.run(p)
		if r.Kind == "timeout" {
			sn.Timeout = true
			return sn
		}
		sn.Probes = append(sn.Probes, r)
	}
	sn.ProbeOut = s.out.String()[len(sn.Out):]
	sn.ProbeLog = s.logCopy()[len(sn.Log):]
	sn.ProbeGlobals = s.dumpGlobals()
	return sn
}

// runPlain compiles text with ugo.Compile and runs it on a fresh VM (no Eval involved).
func runPlain(c *Case, globals ugo.Map, text string) (res result) {
	defer func() {
		if p := recover(); p != nil { // canon.Value on an internal object
			res = result{Kind: "panic", Msg: run.FirstLine(fmt.Sprint(p))}
		}
	}()
	s := newSession(c, globals) // same options, fresh module map / symbol table / globals
	bc, err, pan := run.Compile(text, s.ev.Opts)
	if pan != "" {
		return result{Kind: "panic", Msg: pan}
	}
	if err != nil {
		return result{Kind: "cerr", CKind: "other", Msg: run.FirstLine(err.Error())}
	}
	o := run.Exec(bc, s.globals, s.lg, nil, run.Opts{Recover: true, Timeout: fragTimeout})
	switch {
	case o.TimedOut:
		return result{Kind: "timeout"}
	case o.Panic != "":
		return result{Kind: "panic", Msg: o.Panic}
	case o.IsErr:
		return result{Kind: "rterr", Name: o.ErrName, Msg: o.ErrMsg}
	}
	return result{Kind: "value", Val: o.Value}
}

// ------------------------------------------------------------------ oracle

type verdict struct {
	Sig  string
	What string
	// evidence
	FailKind string // kind of the first failing fragment ("" = none)
	FailMsg  string
	Excluded string
	Judged   int    // number of prefixes judged
	Inconcl  string
}

type bcache map[string]snap

// judge runs the differential for one case. cache (optional) memoises the
// batch sessions by (concatenated text) - they do not depend on the cutting.
func judge(c *Case, cache bcache) verdict {
	var v verdict
	globals, err := literalGlobals(c.Globals)
	if err != nil {
		v.Inconcl = "bad-globals-literal"
		return v
	}
	var prevA []result
	for i := range c.Fragments {
		var probes []string
		if i < len(c.Probes) {
			probes = c.Probes[i]
		}
		a := runSession(c, globals, c.Fragments[:i+1], probes)
		if a.Timeout {
			v.Inconcl = "watchdog"
			return v
		}
		// the replayed session must behave like the previous replay did (determinism of the case)
		for j := range prevA {
			if j < len(a.Results) && a.Results[j] != prevA[j] {
				v.Inconcl = "nondeterministic-replay"
				return v
			}
		}
		if a.EarlyFail {
			return v // cannot happen: we stop after the first failing fragment
		}
		prevA = a.Results
		text := strings.Join(c.Fragments[:i+1], "\n")
		ckey := text + "\x00" + strings.Join(probes, "\x00")
		b, ok := cache[ckey]
		if !ok {
			b = runSession(c, globals, []string{text}, probes)
			if cache != nil {
				cache[ckey] = b
			}
		}
		if b.Timeout {
			v.Inconcl = "watchdog"
			return v
		}
		v.Judged++
		if sig, _ := compare(c, i, a, b); sig == excludeRefusal {
			if d := unjustifiedRefusal(c, globals, i, a, b); d != "" {
				v.Sig = "eval:optimizer-refusal-unjustified"
				c.Diff = d
				v.What = describe(c, i, a, b, d)
				return v
			}
			v.Excluded = strings.TrimPrefix(sig, "EXCLUDE:")
			return v
		}
		if sig, d := compare(c, i, a, b); sig != "" {
			if s2, _ := compare(c, i, normSnap(a), normSnap(b)); s2 == "" {
				sig = "eval:value-differs:negative-zero-constant" // the only difference is -0.0 vs 0.0
			}
			v.Sig = sig
			c.Diff = d
			v.What = describe(c, i, a, b, d)
			return v
		}
		if ra := a.last(); ra.Kind == "value" && i < len(c.RetForm) && c.RetForm[i] != "" {
			// independent of Eval's rewriting of the trailing POP: the same script ending in `return X`
			ptext := strings.Join(append(append([]string{}, c.Fragments[:i]...), c.RetForm[i]), "\n")
			pkey := "plain\x00" + ptext
			ps, ok := cache[pkey]
			if !ok {
				ps = snap{Results: []result{runPlain(c, globals, ptext)}}
				if cache != nil {
					cache[pkey] = ps
				}
			}
			switch pr := ps.last(); {
			case pr.Kind == "value" && pr.Val != ra.Val:
				cls := c.Class
				if cls == "" {
					cls = "plain"
				}
				d := fmt.Sprintf("fragment %d: the session returned %s for its last expression statement, the concatenation ending in `return <that expression>` compiled and run without Eval returns %s", i+1, ra.Val, pr.Val)
				v.Sig = "eval:value-differs:" + cls
				c.Diff = d
				v.What = describe(c, i, a, b, d)
				return v
			case pr.Kind == "timeout":
				v.Inconcl = "watchdog"
				return v
			case pr.Kind != "value":
				v.Inconcl = "plain-run-failed"
				return v
			}
		}
		if ra := a.last(); ra.failed() {
			v.FailKind = ra.Kind
			v.FailMsg = ra.String()
			switch ra.Kind {
			case "rterr":
				v.FailKind += ":" + ra.Name
			case "cerr":
				v.FailKind += ":" + ra.CKind
			}
			return v
		}
	}
	return v
}

// normZero rewrites the canonical dump of -0.0 ("f-0") to that of 0.0 ("f0").
func normZero(s string) string {
	if !strings.Contains(s, "f-0") {
		return s
	}
	var sb strings.Builder
	for i := 0; i < len(s); i++ {
		if strings.HasPrefix(s[i:], "f-0") {
			j := i + 3
			if j >= len(s) || !(s[j] == '.' || s[j] == 'e' || (s[j] >= '0' && s[j] <= '9')) {
				sb.WriteString("f0")
				i += 2
				continue
			}
		}
		sb.WriteByte(s[i])
	}
	return sb.String()
}

func normSnap(s snap) snap {
	nr := func(rs []result) []result {
		out := make([]result, len(rs))
		for i, r := range rs {
			r.Val = normZero(r.Val)
			out[i] = r
		}
		return out
	}
	nl := func(l []string) []string {
		out := make([]string, len(l))
		for i, x := range l {
			out[i] = normZero(x)
		}
		return out
	}
	s.Results, s.Probes = nr(s.Results), nr(s.Probes)
	s.Log, s.ProbeLog = nl(s.Log), nl(s.ProbeLog)
	s.Globals, s.ProbeGlobals = normZero(s.Globals), normZero(s.ProbeGlobals)
	return s
}

const excludeRefusal = "EXCLUDE:optimizer-refusal-timing(C01-liberty)"

func compare(c *Case, i int, a, b snap) (sig, diff string) {
	ra, rb := a.last(), b.last()
	cls := c.Class
	if cls == "" {
		cls = "plain"
	}
	if (ra.Kind == "cerr" && ra.CKind == "optimizer") != (rb.Kind == "cerr" && rb.CKind == "optimizer") {
		// The optimizer may refuse a script by reporting the run-time error of one of its constant
		// sub-expressions at compile time (C01 allows that liberty); whether it gets to that
		// sub-expression depends on its budget and on the statements before it, so the session and
		// the batch run may legitimately disagree on compile-time vs run-time reporting.
		return excludeRefusal, ""
	}
	if (ra.Kind == "cerr") != (rb.Kind == "cerr") {
		return "eval:compile-error-only-in-one", fmt.Sprintf("fragment %d: session %s, batch %s", i+1, ra, rb)
	}
	if ra.Kind == "cerr" {
		if ra.CKind != rb.CKind || (ra.CKind == "compile" && ra.Msg != rb.Msg) {
			return "eval:error-differs", fmt.Sprintf("fragment %d: session %s, batch %s", i+1, ra, rb)
		}
		return "", ""
	}
	if ra.Kind != rb.Kind || (ra.Kind == "rterr" && (ra.Name != rb.Name || ra.Msg != rb.Msg)) || (ra.Kind == "panic" && ra.Msg != rb.Msg) {
		return "eval:error-differs", fmt.Sprintf("fragment %d: session %s, batch %s", i+1, ra, rb)
	}
	if ra.Kind == "panic" {
		return "", ""
	}
	if ra.Kind == "value" && ra.Val != rb.Val && !(i < len(c.NoValue) && c.NoValue[i]) {
		return "eval:value-differs:" + cls, fmt.Sprintf("fragment %d: session value %s, batch value %s", i+1, ra.Val, rb.Val)
	}
	if a.Out != b.Out {
		return "eval:output-differs", fmt.Sprintf("after fragment %d: printed %q vs %q", i+1, a.Out, b.Out)
	}
	if strings.Join(a.Log, "\x00") != strings.Join(b.Log, "\x00") {
		return "eval:output-differs", fmt.Sprintf("after fragment %d: L-log %v vs %v", i+1, a.Log, b.Log)
	}
	if a.Globals != b.Globals {
		return "eval:globals-differ", fmt.Sprintf("after fragment %d: globals %s vs %s", i+1, a.Globals, b.Globals)
	}
	for k := range a.Probes {
		if k >= len(b.Probes) || a.Probes[k] != b.Probes[k] {
			var pb result
			if k < len(b.Probes) {
				pb = b.Probes[k]
			}
			return "eval:probe-differs:" + cls, fmt.Sprintf("after fragment %d: probe %q gives %s in the session, %s after the batch run", i+1, strings.TrimSpace(c.Probes[i][k]), a.Probes[k], pb)
		}
	}
	if a.ProbeOut != b.ProbeOut || strings.Join(a.ProbeLog, "\x00") != strings.Join(b.ProbeLog, "\x00") {
		return "eval:probe-differs:" + cls, fmt.Sprintf("after fragment %d: probes printed %q %v vs %q %v", i+1, a.ProbeOut, a.ProbeLog, b.ProbeOut, b.ProbeLog)
	}
	if a.ProbeGlobals != b.ProbeGlobals {
		return "eval:globals-differ", fmt.Sprintf("after the probes of fragment %d: globals %s vs %s", i+1, a.ProbeGlobals, b.ProbeGlobals)
	}
	return "", ""
}

func describe(c *Case, i int, a, b snap, d string) string {
	var sb strings.Builder
	opt := option{c.NoOptimize, c.OptLimit}
	fmt.Fprintf(&sb, "Eval session differs from evaluating the concatenation as one script (%s", opt)
	if len(c.Disabled) > 0 {
		fmt.Fprintf(&sb, ", disabled builtins %v", c.Disabled)
	}
	fmt.Fprintf(&sb, "): %s\n", d)
	for k, f := range c.Fragments {
		if k > i {
			break
		}
		fmt.Fprintf(&sb, "--- fragment %d ---\n%s\n", k+1, f)
	}
	names := make([]string, 0, len(c.Modules))
	for n := range c.Modules {
		names = append(names, n)
	}
	sort.Strings(names)
	for _, n := range names {
		fmt.Fprintf(&sb, "--- module %s ---\n%s\n", n, c.Modules[n])
	}
	if len(c.Globals) > 0 {
		fmt.Fprintf(&sb, "globals: %v\n", c.Globals)
	}
	fmt.Fprintf(&sb, "SESSION: %s out=%q log=%v\nBATCH  : %s out=%q log=%v", a.last(), a.Out, a.Log, b.last(), b.Out, b.Log)
	return sb.String()
}

func literalGlobals(m map[string]string) (ugo.Map, error) {
	g := ugo.Map{}
	for k, s := range m {
		v, err := prog.EvalLiteral(s)
		if err != nil {
			return nil, err
		}
		g[k] = v
	}
	return g, nil
}

// ------------------------------------------------------- building cases

func stmtSrc(ss []gen.Stmt) string { return strings.TrimRight(gen.Src(ss), "\n") }

// probesFor builds the read-only probe fragments for the state after stmts.
func probesFor(sc *script, stmts []gen.Stmt) []string {
	decls := topDecls(stmts)
	seen := map[string]bool{}
	var names, calls []gen.Expr
	for i := len(decls) - 1; i >= 0; i-- { // the latest declaration of a name decides what it is
		d := decls[i]
		if seen[d.Name] || d.Name == "L" {
			continue
		}
		seen[d.Name] = true
		names = append(names, id(d.Name))
		if d.ZeroCall {
			calls = append(calls, calln(d.Name))
		}
	}
	var out []string
	if len(names) > 0 {
		out = append(out, stmtSrc([]gen.Stmt{ret(arr(names...))}))
	}
	if len(calls) > 0 {
		out = append(out, stmtSrc([]gen.Stmt{ret(arr(calls...))}))
		// the functions may have changed what they captured
		out = append(out, stmtSrc([]gen.Stmt{ret(arr(names...))}))
	}
	var mods []string
	for m := range sc.Modules {
		mods = append(mods, m)
	}
	mods = append(mods, sc.BuiltinMods...)
	sort.Strings(mods)
	if len(mods) > 0 {
		var imps []gen.Expr
		for _, m := range mods {
			if m == "strings" {
				imps = append(imps, sel(&gen.Import{Name: m}, "Extra"))
				continue
			}
			imps = append(imps, &gen.Import{Name: m})
		}
		out = append(out, stmtSrc([]gen.Stmt{ret(arr(imps...))}))
	}
	return out
}

// buildCase renders the script cut at the given fragment starts (cuts[0] == 0).
func buildCase(sc *script, cuts []int, o option) *Case {
	c := &Case{NoOptimize: o.NoOptimize, OptLimit: o.OptLimit, Disabled: sc.Disabled, BuiltinMods: sc.BuiltinMods}
	for k, start := range cuts {
		end := len(sc.Stmts)
		if k+1 < len(cuts) {
			end = cuts[k+1]
		}
		c.Fragments = append(c.Fragments, stmtSrc(sc.Stmts[start:end]))
		c.Probes = append(c.Probes, probesFor(sc, sc.Stmts[:end]))
		noValue := true
		switch sc.Stmts[end-1].(type) {
		case *gen.ExprStmt, *gen.Return:
			noValue = false
		}
		c.NoValue = append(c.NoValue, noValue)
		rf := ""
		if x, ok := sc.Stmts[end-1].(*gen.ExprStmt); ok {
			rf = stmtSrc(append(append([]gen.Stmt{}, sc.Stmts[start:end-1]...), ret(x.X)))
		}
		c.RetForm = append(c.RetForm, rf)
	}
	if len(sc.Modules) > 0 {
		c.Modules = map[string]string{}
		for n, b := range sc.Modules {
			c.Modules[n] = gen.Src(b)
		}
	}
	if len(sc.Globals) > 0 {
		c.Globals = map[string]string{}
		for n, e := range sc.Globals {
			c.Globals[n] = gen.ExprSrc(e)
		}
	}
	c.Classes, _ = classify(sc, cuts)
	c.Class = primaryClass(c.Classes)
	return c
}

var classPriority = []string{"import-cut", "closure-cut", "const-cut", "slot-reuse-cut", "shadow-cut", "global-cut", "try-cut", "uses-earlier-name"}

func primaryClass(cs []string) string {
	for _, p := range classPriority {
		for _, c := range cs {
			if c == p {
				return p
			}
		}
	}
	return "plain"
}

// classify returns the cut classes of a cutting and whether it is non-trivial
// (>= 2 fragments and a later fragment uses a name an earlier one declared).
func classify(sc *script, cuts []int) ([]string, bool) {
	if len(cuts) < 2 {
		return nil, false
	}
	set := map[string]bool{}
	type fragInfo struct {
		u     *uses
		decls []topDecl
	}
	var fr []fragInfo
	for k, start := range cuts {
		end := len(sc.Stmts)
		if k+1 < len(cuts) {
			end = cuts[k+1]
		}
		fr = append(fr, fragInfo{u: analyse(sc.Stmts[start:end]), decls: topDecls(sc.Stmts[start:end])})
	}
	declared := map[string]topDecl{} // declared by earlier fragments
	declFrag := map[string]int{}
	importedIn := map[string]int{}
	blockDeclsBefore := false
	for k, f := range fr {
		touched := map[string]bool{}
		for n := range f.u.Reads {
			touched[n] = true
		}
		for n := range f.u.Assigns {
			touched[n] = true
		}
		for n := range f.u.Calls {
			touched[n] = true
		}
		for n := range touched {
			d, ok := declared[n]
			if !ok || n == "L" {
				continue
			}
			set["uses-earlier-name"] = true
			switch d.Kind {
			case dConst:
				set["const-cut"] = true
			case dGlobal:
				set["global-cut"] = true
			}
			if _, isBuiltin := ugo.BuiltinsMap[n]; isBuiltin {
				set["shadow-cut"] = true
			}
		}
		for m := range f.u.Imports {
			if prev, ok := importedIn[m]; ok && prev != k {
				set["import-cut"] = true
			}
			if _, ok := importedIn[m]; !ok {
				importedIn[m] = k
			}
		}
		if blockDeclsBefore && (f.u.BlockDecls > 0 || len(f.decls) > 0) {
			set["slot-reuse-cut"] = true
		}
		if f.u.BlockDecls > 0 {
			blockDeclsBefore = true
		}
		if f.u.HasTry && k < len(fr)-1 {
			set["try-cut"] = true
		}
		for _, d := range f.decls {
			declared[d.Name] = d
			declFrag[d.Name] = k
		}
	}
	// closure-cut: function created in fragment j capturing v, v assigned in fragment k > j,
	// function called in a fragment l > k (or by the probe after k when callable without arguments)
	for j, f := range fr {
		fns := map[string]*gen.FuncLit{}
		zero := map[string]bool{}
		for _, d := range f.decls {
			if d.Fn != nil {
				fns[d.Name] = d.Fn
				zero[d.Name] = d.ZeroCall
			}
		}
		collectAssignedFuncs(scFragStmts(sc, cuts, j), fns, zero)
		for name, fl := range fns {
			cap := captured(fl)
			for v := range merge(cap.Reads, cap.Assigns) {
				if fk, ok := declFrag[v]; !ok || fk > j {
					continue
				}
				for k := j + 1; k < len(fr); k++ {
					if !fr[k].u.Assigns[v] {
						continue
					}
					if zero[name] {
						set["closure-cut"] = true
					}
					for l := k + 1; l < len(fr); l++ {
						if fr[l].u.Calls[name] {
							set["closure-cut"] = true
						}
					}
				}
			}
		}
	}
	var out []string
	for k := range set {
		out = append(out, k)
	}
	sort.Strings(out)
	return out, set["uses-earlier-name"]
}

func scFragStmts(sc *script, cuts []int, k int) []gen.Stmt {
	end := len(sc.Stmts)
	if k+1 < len(cuts) {
		end = cuts[k+1]
	}
	return sc.Stmts[cuts[k]:end]
}

// collectAssignedFuncs finds `name = func(){...}` assignments (also inside blocks) to outer names.
func collectAssignedFuncs(ss []gen.Stmt, fns map[string]*gen.FuncLit, zero map[string]bool) {
	var visit func(ss []gen.Stmt)
	visit = func(ss []gen.Stmt) {
		for _, s := range ss {
			switch s := s.(type) {
			case *gen.Assign:
				if fl, ok := s.X.(*gen.FuncLit); ok && len(s.Targets) == 1 {
					if t, ok := s.Targets[0].(*gen.Ident); ok {
						fns[t.Name] = fl
						zero[t.Name] = len(fl.Params) == 0
					}
				}
			case *gen.If:
				visit(s.Then)
				visit(s.Else)
			case *gen.For:
				visit(s.Body)
			case *gen.ForIn:
				visit(s.Body)
			case *gen.Try:
				visit(s.Body)
				visit(s.Catch)
				visit(s.Finally)
			}
		}
	}
	visit(ss)
}

func merge(a, b map[string]bool) map[string]bool {
	out := map[string]bool{}
	for k := range a {
		out[k] = true
	}
	for k := range b {
		out[k] = true
	}
	return out
}

// allCuttings enumerates every way of cutting n statements into >= 2 consecutive fragments.
func allCuttings(n int) [][]int {
	var out [][]int
	for mask := 1; mask < 1<<(n-1); mask++ {
		cuts := []int{0}
		for b := 0; b < n-1; b++ {
			if mask&(1<<b) != 0 {
				cuts = append(cuts, b+1)
			}
		}
		if len(cuts) <= 8 {
			out = append(out, cuts)
		}
	}
	return out
}

// randomCutting draws 2-8 fragments.
func randomCutting(t *rapid.T, n int) []int {
	if n < 2 {
		return []int{0}
	}
	cuts := []int{0}
	for b := 1; b < n; b++ {
		if len(cuts) < 8 && gen.Uniform(t, 100, "cut") < 40 {
			cuts = append(cuts, b)
		}
	}
	if len(cuts) == 1 {
		cuts = append(cuts, 1+gen.Uniform(t, n-1, "cutpos"))
	}
	return cuts
}

// ------------------------------------------------------------------ the check

var dumpFile *os.File

func init() {
	if p := os.Getenv("VERIF_C10_DUMP"); p != "" {
		dumpFile, _ = os.Create(p)
	}
}

type checker struct {
	rec *ev.Rec
}

// runCase judges one case and records evidence. It returns a non-empty
// message when an unlisted violation was found.
func (ck *checker) runCase(c *Case, cache bcache, nontrivial bool) string {
	ck.rec.Case()
	v := judge(c, cache)
	if v.Inconcl != "" {
		ck.rec.Inconcl(v.Inconcl)
		return ""
	}
	if v.Sig != "" {
		if ck.rec.Violation(v.Sig, v.What, c) {
			return ""
		}
		return v.What
	}
	if v.Excluded != "" {
		ck.rec.Exclude(v.Excluded)
		return ""
	}
	if dumpFile != nil {
		b, _ := json.Marshal(map[string]any{"c": c, "fail": v.FailKind, "judged": v.Judged, "msg": v.FailMsg})
		dumpFile.Write(append(b, '\n'))
	}
	for _, cl := range c.Classes {
		ck.rec.Class(cl)
	}
	ck.rec.Class(fmt.Sprintf("fragments:%d", len(c.Fragments)))
	ck.rec.Class("option:" + option{c.NoOptimize, c.OptLimit}.String())
	if v.FailKind != "" {
		ck.rec.Class("first-failure:" + v.FailKind)
	} else {
		ck.rec.Class("no-failure")
	}
	if len(c.Disabled) > 0 {
		ck.rec.Class("disabled-builtins")
	}
	for i := 0; i < v.Judged && i < len(c.NoValue); i++ {
		if c.NoValue[i] {
			ck.rec.Exclude("value-of-fragment-not-ending-in-expression-statement(unspecified,not-compared)")
			break
		}
	}
	if nontrivial {
		ck.rec.Class("nontrivial")
		ck.rec.NonTriv(c.key())
	}
	ck.rec.Sample(map[string]any{"fragments": c.Fragments, "classes": c.Classes, "first_failure": v.FailKind,
		"option": option{c.NoOptimize, c.OptLimit}.String(), "prefixes_judged": v.Judged})
	return ""
}

func profiles() []gen.Config {
	base := gen.Config{MaxStmts: 16, MaxDepth: 3, MaxFnDepth: 3, MaxBlock: 3,
		Closures: true, Calls: true, Log: true, Globals: true, Destruct: true, Consts: true, MapIter: true,
		Try: true, Print: true, Modules: 2, NoTopReturnValue: true}
	failing := base
	failing.Failing = true
	shadow := base
	shadow.Shadow = true
	ch := base
	ch.ConstHeavy = true
	ch.Floats = true
	rec := failing
	rec.Recursion = true
	rec.Modules = 0
	return []gen.Config{base, failing, shadow, ch, rec}
}

// genRandom builds a script from the shared scope-aware generator.
func genRandom(t *rapid.T) *script {
	profs := profiles()
	cfg := profs[gen.Uniform(t, len(profs), "profile")]
	gp := gen.Generate(t, cfg)
	sc := &script{Stmts: gp.Body, Modules: gp.Modules, Globals: gp.Globals}
	// a statement that does not compile, somewhere after the first statement
	if len(sc.Stmts) >= 2 && gen.Uniform(t, 100, "cerr") < 10 {
		pos := 1 + gen.Uniform(t, len(sc.Stmts)-1, "cerrpos")
		var bad gen.Stmt
		switch gen.Uniform(t, 3, "cerrkind") {
		case 0:
			bad = def("zzq", bin("+", id("zznope"), il(1)))
		case 1:
			bad = &gen.Raw{Text: "zzq := )"}
		default:
			bad = &gen.Break{}
		}
		rest := append([]gen.Stmt{bad}, sc.Stmts[pos:]...)
		sc.Stmts = append(append([]gen.Stmt{}, sc.Stmts[:pos]...), rest...)
	}
	// the value of the last fragment: an expression over declared names, sometimes returned
	decls := topDecls(sc.Stmts)
	if len(decls) > 0 {
		var xs []gen.Expr
		seen := map[string]bool{}
		for i := len(decls) - 1; i >= 0 && len(xs) < 5; i-- {
			if !seen[decls[i].Name] && decls[i].Name != "L" {
				seen[decls[i].Name] = true
				xs = append(xs, id(decls[i].Name))
			}
		}
		switch gen.Uniform(t, 4, "laststmt") {
		case 0:
			sc.Stmts = append(sc.Stmts, ret(arr(xs...)))
		case 1:
			sc.Stmts = append(sc.Stmts, es(arr(xs...)))
		}
	}
	return sc
}

func TestCheck(t *testing.T) {
	rec := ev.New("C10")
	rec.Rule = "scripts of TOP-LEVEL statements (a: 1-3 interleaved directed templates: closure created / captured variable assigned later / called after that, closure factories, const+iota groups and constants built from earlier constants, blocks declaring variables whose slots later declarations re-use, source modules with state + nested import + builtin module imported in several fragments, builtin names declared then used, disabled builtins, globals, try statements, destructuring, prints, last-statement values, run-time failures, statements that do not compile; b: programs of the shared scope-aware generator without param/top-level return, 5 profiles incl. failing, shadowing, const-heavy, recursion) cut into 2-8 consecutive fragments (every cutting for scripts of <= 6 statements, random cuttings otherwise) x optimizer on / off / budget 1. Session A (one Eval, fragment by fragment, replayed for every prefix) vs a fresh Eval given the concatenation of the prefix: value or error of the fragment, cumulative printed output and L-log, globals, then read-only probe fragments (all declared names; calls of zero-argument functions; the names again; re-import of every module) in both. Non-trivial = >= 2 fragments and a later fragment reads/assigns/calls a name declared at top level by an earlier fragment; distinct by fragments + options"
	rec.Assumptions = []string{
		"judged up to and including the first failing fragment; after a fragment that does not compile only the error kind is compared (the batch session ran nothing, so there is no state to compare)",
		"run-time errors compared by Name and Message, compile errors by kind (parse/compile/optimizer) and, for compiler errors, message without position",
		"function values compare as opaque <fn>; what they compute is observed by calling the zero-argument ones in the probe",
		"a top-level return appears only as the last statement of the last fragment; param declarations are excluded (Eval passes the session's locals as arguments)",
		"the value Eval returns for a fragment is compared only when the fragment ends in an expression statement or return (then also against the concatenation ending in `return <expr>` run through Compile+VM without Eval); for other last statements Eval returns whatever the last POP before the final RETURN left (e.g. `1` then `global g` as one script gives 1, as two fragments undefined) - treated as unspecified",
		"when exactly one of the two sides is refused by the optimizer (compile-time report of a constant sub-expression's run-time error, a liberty C01 grants) the case is excluded from that fragment on: whether the optimizer reaches that sub-expression depends on its budget and on the statements before it",
		"watchdog expiry and non-reproducible replays are inconclusive, never violations",
	}
	defer func() { rec.Flush(!t.Failed() || rec.HasUnknown()) }()

	old := ugo.PrintWriter
	ugo.PrintWriter = &printBuf
	defer func() { ugo.PrintWriter = old }()

	ck := &checker{rec: rec}
	runReplays(t, ck)
	if ev.ReplayOnly() {
		return
	}
	runFixed(t, ck)
	shadowEnum(t, ck)

	defer func() { rec.Note("unprintable-values", unprintable) }()

	// a) directed scripts, every option, every cutting when small
	nDir := ev.N(300, 9000)
	ev.RapidCheck(t, "directed", nDir, 1, func(rt *rapid.T) {
		sc := genDirected(rt)
		n := len(sc.Stmts)
		var cuttings [][]int
		if n <= 6 {
			cuttings = allCuttings(n)
			rec.Class("all-cuttings")
		} else {
			for i := 0; i < 3; i++ {
				cuttings = append(cuttings, randomCutting(rt, n))
			}
		}
		for _, tp := range sc.Templates {
			if !strings.Contains(tp, ":") {
				rec.Class("template:" + tp)
			}
		}
		for _, o := range options {
			cache := bcache{}
			for _, cuts := range cuttings {
				c := buildCase(sc, cuts, o)
				_, nt := classify(sc, cuts)
				if msg := ck.runCase(c, cache, nt); msg != "" {
					rt.Fatalf("%s", msg)
				}
			}
		}
	})

	// b) generated programs, random cutting, drawn option
	nRnd := ev.N(900, 26000)
	ev.RapidCheck(t, "generated", nRnd, 2, func(rt *rapid.T) {
		sc := genRandom(rt)
		o := options[gen.Uniform(rt, len(options), "option")]
		n := len(sc.Stmts)
		if n < 2 {
			rec.Exclude("single-statement-script")
			return
		}
		cuts := randomCutting(rt, n)
		c := buildCase(sc, cuts, o)
		_, nt := classify(sc, cuts)
		if msg := ck.runCase(c, nil, nt); msg != "" {
			rt.Fatalf("%s", msg)
		}
	})
}

// runFixed: hand-written transcripts (the suite's own plus the situations the property names).
func runFixed(t *testing.T, ck *checker) {
	fixed := []Case{
		{Fragments: []string{"var a", "1", "a = 10", "a", "a*a"}},
		{Fragments: []string{"x := 1", "f := func() { return x }", "x = 5", "f()"}, Probes: [][]string{nil, nil, {"return [x, f()]"}, {"return [x, f()]"}}},
		{Fragments: []string{"var g\nif true { t := 3; g = func() { return t } }", "y := 7", "[y, g()]"}},
		{Fragments: []string{"const (\n a = iota\n b\n c\n)", "const k = b + c", "x := k * a + c", "return [a, b, c, k, x]"}},
		{Fragments: []string{"len := 3", "x := len + 1", "f := func() { return len }", "[x, f()]"}},
		{Fragments: []string{"global g", "g = 4", "return g"}, Globals: map[string]string{"g": "1"}},
		{Fragments: []string{"m := import(\"m0\")", "m.f(2)", "n := import(\"m0\")", "[n.f(1), m.v]"},
			Modules: map[string]string{"m0": "global L\nL(\"load\")\nc := 0\nreturn {f: func(x) { c += x; return c }, v: 1}\n"},
			Probes:  [][]string{nil, nil, nil, {"return [import(\"m0\")]"}}},
		{Fragments: []string{"x := 1", "println(x)", "y := x / 0", "z := 3"}, NoOptimize: true},
		{Fragments: []string{"x := 1", "y := nope", "z := 3"}},
		{Fragments: []string{"x := 1", "delete({}, \"a\")", "3"}, Disabled: []string{"delete"}},
		// constant pool carried over: a later 0.0 literal must not be served an earlier -0.0 constant
		{Fragments: []string{"nz := -0.0", "pz := 0.0", "[pz, nz, 1.0 / pz]"}, Probes: [][]string{{"return [nz]"}, {"return [nz, pz]"}, {"return [nz, pz]"}},
			RetForm: []string{"", "", "return [pz, nz, 1.0 / pz]"}},
	}
	for i := range fixed {
		for _, o := range options {
			c := fixed[i]
			if c.NoOptimize && !o.NoOptimize {
				continue
			}
			c.NoOptimize, c.OptLimit = o.NoOptimize, o.OptLimit
			c.Class = "fixed"
			if msg := ck.runCase(&c, nil, false); msg != "" {
				t.Errorf("%s", msg)
			}
			ck.rec.Class("fixed-transcript")
		}
	}
}

func runReplays(t *testing.T, ck *checker) {
	for _, rf := range ck.rec.Replays() {
		var c Case
		if err := json.Unmarshal(rf.Case, &c); err != nil {
			fmt.Fprintln(os.Stderr, "bad replay", rf.Path, err)
			continue
		}
		ck.rec.Case()
		v := judge(&c, nil)
		switch {
		case v.Inconcl != "":
			ck.rec.Inconcl(v.Inconcl)
		case v.Excluded != "":
			ck.rec.Exclude(v.Excluded)
		case v.Sig != "":
			what := fmt.Sprintf("replay %s: %s", rf.Path, v.What)
			if !ck.rec.Violation(v.Sig, what, &c) {
				t.Errorf("%s", what)
			}
		default:
			ck.rec.Class("replay-pass")
			if ev.ReplayOnly() {
				fmt.Printf("replay %s: holds (%d prefixes judged, first failure %q)\n", rf.Path, v.Judged, v.FailKind)
			}
		}
	}
}
