package c11

// Harness-side down-conversion of version-2 bytecode into the version-1
// instruction layout. Deliberately independent of encoder/v1.go: it only uses
// the two operand-width tables (opv1.OpcodeOperands, ugo.OpcodeOperands).
//
// Three independent formulations are used so that a mistake in one of them is
// a loud HARNESS failure, not a false alarm:
//   narrow  : v2 -> v1, offset-table based (old offset -> new offset)
//   widen   : v1 -> v2, own inverse, "count the narrow operands before the target"
//   sameProg: ordinal based - both streams decode to the same instruction list
//             and every target / source-map key names the same instruction ORDINAL

import (
	"bytes"
	"encoding/binary"
	"fmt"

	"github.com/ozanh/ugo"
	"github.com/ozanh/ugo/encoder"
	"github.com/ozanh/ugo/encoder/opv1"
)

// jumpClass[op][i] == true: operand i of op is an absolute instruction offset
// that is 2 bytes wide in v1 and 4 bytes wide in v2.
var jumpClass = map[byte][]bool{}

// tablesErr != "" : the two operand tables differ in a way this check does not understand.
var tablesErr string

// harnessV1 is the version-1 operand table as this check defines the (frozen) format: the current table
// with the documented position operands 2 bytes wide. It does not depend on the tree's own opv1 table,
// which is part of the code under test (the converter walks version-1 instructions with it).
var harnessV1 [][]int

// tableNote records where the tree's opv1 table differs from harnessV1 (evidence note; the consequences
// are found by decoding and running programs).
var tableNote string

func init() {
	want := map[byte][]bool{ugo.OpJump: {true}, ugo.OpJumpFalsy: {true}, ugo.OpAndJump: {true}, ugo.OpOrJump: {true}, ugo.OpSetupTry: {true, true}}
	harnessV1 = make([][]int, len(ugo.OpcodeOperands))
	for op := range ugo.OpcodeOperands {
		b := ugo.OpcodeOperands[op]
		a := append([]int{}, b...)
		if tg, ok := want[byte(op)]; ok {
			if len(tg) != len(b) {
				tablesErr = fmt.Sprintf("opcode %s has %d operands in the current table, %d position operands expected", ugo.OpcodeNames[op], len(b), len(tg))
				return
			}
			for i := range tg {
				if b[i] != 4 {
					tablesErr = fmt.Sprintf("opcode %s operand %d is %d bytes wide in the current table, 4 expected", ugo.OpcodeNames[op], i, b[i])
					return
				}
				a[i] = 2
			}
			jumpClass[byte(op)] = tg
		}
		harnessV1[op] = a
	}
	for op := range harnessV1 {
		if op >= len(opv1.OpcodeOperands) {
			tableNote = fmt.Sprintf("the tree's version-1 table has %d entries, %d expected", len(opv1.OpcodeOperands), len(harnessV1))
			break
		}
		if fmt.Sprint(opv1.OpcodeOperands[op]) != fmt.Sprint(harnessV1[op]) && !(len(opv1.OpcodeOperands[op]) == 0 && len(harnessV1[op]) == 0) {
			tableNote = fmt.Sprintf("opcode %s: the tree's version-1 table says %v, the format is %v", ugo.OpcodeNames[op], opv1.OpcodeOperands[op], harnessV1[op])
			break
		}
	}
}

func width(tbl []int) int {
	w := 0
	for _, x := range tbl {
		w += x
	}
	return w
}

type inst struct {
	pos      int
	op       byte
	operands []int
}

// decode splits a stream laid out per tbl (indexed by opcode).
func decode(code []byte, tbl func(op byte) []int) ([]inst, error) {
	var out []inst
	for pos := 0; pos < len(code); {
		op := code[pos]
		if int(op) >= len(ugo.OpcodeOperands) {
			return nil, fmt.Errorf("unknown opcode %d at %d", op, pos)
		}
		ws := tbl(op)
		if pos+1+width(ws) > len(code) {
			return nil, fmt.Errorf("truncated instruction at %d", pos)
		}
		in := inst{pos: pos, op: op}
		p := pos + 1
		for _, w := range ws {
			v := 0
			for k := 0; k < w; k++ {
				v = v<<8 | int(code[p+k])
			}
			in.operands = append(in.operands, v)
			p += w
		}
		out = append(out, in)
		pos = p
	}
	return out, nil
}

func v1tbl(op byte) []int { return harnessV1[op] }
func v2tbl(op byte) []int { return ugo.OpcodeOperands[op] }

func put(out []byte, v, w int) []byte {
	switch w {
	case 1:
		return append(out, byte(v))
	case 2:
		return binary.BigEndian.AppendUint16(out, uint16(v))
	case 4:
		return binary.BigEndian.AppendUint32(out, uint32(v))
	}
	panic("c11: operand width")
}

// errNoFit: a relocated target does not fit into 16 bits (program skipped).
var errNoFit = fmt.Errorf("target does not fit 16 bits")

// narrow rewrites one function from the v2 layout into the v1 layout.
func narrow(cf *ugo.CompiledFunction) (*ugo.CompiledFunction, error) {
	ins, err := decode(cf.Instructions, v2tbl)
	if err != nil {
		return nil, fmt.Errorf("v2 stream: %w", err)
	}
	// pass 1: old offset -> new offset for every instruction start and the end
	table := make(map[int]int, len(ins)+1)
	np := 0
	for _, in := range ins {
		table[in.pos] = np
		np += 1 + width(v1tbl(in.op))
	}
	table[len(cf.Instructions)] = np
	// pass 2
	out := make([]byte, 0, np)
	for _, in := range ins {
		out = append(out, in.op)
		tg := jumpClass[in.op]
		for i, v := range in.operands {
			if tg != nil && tg[i] {
				nv, ok := table[v]
				if !ok {
					return nil, fmt.Errorf("%s at %d: target %d is not an instruction boundary", ugo.OpcodeNames[in.op], in.pos, v)
				}
				if nv > 0xFFFF {
					return nil, errNoFit
				}
				v = nv
			}
			out = put(out, v, v1tbl(in.op)[i])
		}
	}
	res := &ugo.CompiledFunction{NumParams: cf.NumParams, NumLocals: cf.NumLocals, Variadic: cf.Variadic, Instructions: out}
	if cf.SourceMap != nil {
		res.SourceMap = make(map[int]int, len(cf.SourceMap))
		for k, pos := range cf.SourceMap {
			nk, ok := table[k]
			if !ok || k == len(cf.Instructions) {
				return nil, fmt.Errorf("source map key %d is not an instruction start", k)
			}
			res.SourceMap[nk] = pos
		}
	}
	return res, nil
}

// widen is the harness's own inverse of narrow, written differently on purpose:
// a v1 offset grows by 2 bytes for every narrow operand located before it.
func widen(cf *ugo.CompiledFunction) (*ugo.CompiledFunction, error) {
	ins, err := decode(cf.Instructions, v1tbl)
	if err != nil {
		return nil, fmt.Errorf("v1 stream: %w", err)
	}
	// ends[i] = v1 offset just after instruction i, grow[i] = narrow operands in it
	reloc := func(off int) int {
		g := 0
		for _, in := range ins {
			if in.pos >= off {
				break
			}
			for _, b := range jumpClass[in.op] {
				if b {
					g += 2
				}
			}
		}
		return off + g
	}
	var out []byte
	for _, in := range ins {
		out = append(out, in.op)
		tg := jumpClass[in.op]
		for i, v := range in.operands {
			if tg != nil && tg[i] {
				v = reloc(v)
			}
			out = put(out, v, v2tbl(in.op)[i])
		}
	}
	res := &ugo.CompiledFunction{NumParams: cf.NumParams, NumLocals: cf.NumLocals, Variadic: cf.Variadic, Instructions: out}
	if cf.SourceMap != nil {
		res.SourceMap = make(map[int]int, len(cf.SourceMap))
		for k, pos := range cf.SourceMap {
			res.SourceMap[reloc(k)] = pos
		}
	}
	return res, nil
}

// sameProg: a (v1 layout) and b (v2 layout) are the same program when read as
// instruction lists with targets / source-map keys expressed as ordinals.
func sameProg(a, b *ugo.CompiledFunction) error {
	ia, err := decode(a.Instructions, v1tbl)
	if err != nil {
		return err
	}
	ib, err := decode(b.Instructions, v2tbl)
	if err != nil {
		return err
	}
	if len(ia) != len(ib) {
		return fmt.Errorf("instruction count %d vs %d", len(ia), len(ib))
	}
	ord := func(ins []inst, end int) map[int]int {
		m := make(map[int]int, len(ins)+1)
		for i, in := range ins {
			m[in.pos] = i
		}
		m[end] = len(ins)
		return m
	}
	oa, ob := ord(ia, len(a.Instructions)), ord(ib, len(b.Instructions))
	for i := range ia {
		x, y := ia[i], ib[i]
		if x.op != y.op || len(x.operands) != len(y.operands) {
			return fmt.Errorf("instruction #%d: opcode %d vs %d", i, x.op, y.op)
		}
		tg := jumpClass[x.op]
		for k := range x.operands {
			if tg != nil && tg[k] {
				p, ok1 := oa[x.operands[k]]
				q, ok2 := ob[y.operands[k]]
				if !ok1 || !ok2 || p != q {
					return fmt.Errorf("instruction #%d (%s) operand %d: target ordinal %d(%v) vs %d(%v)", i, ugo.OpcodeNames[x.op], k, p, ok1, q, ok2)
				}
			} else if x.operands[k] != y.operands[k] {
				return fmt.Errorf("instruction #%d operand %d: %d vs %d", i, k, x.operands[k], y.operands[k])
			}
		}
	}
	if len(a.SourceMap) != len(b.SourceMap) {
		return fmt.Errorf("source map size %d vs %d", len(a.SourceMap), len(b.SourceMap))
	}
	byOrd := map[int]int{}
	for k, v := range a.SourceMap {
		o, ok := oa[k]
		if !ok {
			return fmt.Errorf("v1 source map key %d not an instruction start", k)
		}
		byOrd[o] = v
	}
	for k, v := range b.SourceMap {
		o, ok := ob[k]
		if !ok || byOrd[o] != v {
			return fmt.Errorf("source map entry %d:%d has no counterpart", k, v)
		}
		if _, ok := byOrd[o]; !ok {
			return fmt.Errorf("source map entry %d:%d missing in v1", k, v)
		}
	}
	return nil
}

func sameMap(a, b map[int]int) bool {
	if len(a) != len(b) {
		return false
	}
	for k, v := range a {
		if w, ok := b[k]; !ok || w != v {
			return false
		}
	}
	return true
}

// fnStats describes the jump structure of one function (v2 layout).
type fnStats struct {
	jumps     int  // jump-class instructions
	logical   int  // AndJump / OrJump
	tries     int  // SetupTry
	backward  int  // targets below the instruction
	straddled bool // some jump has another jump-class instruction strictly between itself and its target
}

func statsOf(cf *ugo.CompiledFunction) fnStats {
	var st fnStats
	ins, err := decode(cf.Instructions, v2tbl)
	if err != nil {
		return st
	}
	var jpos []int
	for _, in := range ins {
		if jumpClass[in.op] != nil {
			jpos = append(jpos, in.pos)
		}
	}
	for _, in := range ins {
		tg := jumpClass[in.op]
		if tg == nil {
			continue
		}
		st.jumps++
		switch in.op {
		case ugo.OpAndJump, ugo.OpOrJump:
			st.logical++
		case ugo.OpSetupTry:
			st.tries++
		}
		for k, v := range in.operands {
			if !tg[k] {
				continue
			}
			if in.op == ugo.OpSetupTry && v == 0 {
				continue // "no catch block"
			}
			lo, hi := in.pos, v
			if v < in.pos {
				st.backward++
				lo, hi = v-1, in.pos // a jump-class instruction AT the target counts: it moves what follows
			}
			for _, p := range jpos {
				if p > lo && p < hi {
					st.straddled = true
				}
			}
		}
	}
	return st
}

// downConvert builds the v1-shaped copy of bc (FileSet shared, constants that
// are not functions shared) and verifies it with the two other formulations.
// harness != nil: the harness itself is wrong (never a violation).
func downConvert(bc *ugo.Bytecode) (v1 *ugo.Bytecode, fit bool, harness error) {
	if tablesErr != "" {
		return nil, false, fmt.Errorf("%s", tablesErr)
	}
	conv := func(cf *ugo.CompiledFunction, what string) (*ugo.CompiledFunction, error) {
		n, err := narrow(cf)
		if err != nil {
			return nil, err
		}
		if err := sameProg(n, cf); err != nil {
			return nil, fmt.Errorf("%s: narrowed function is not the same program: %v", what, err)
		}
		w, err := widen(n)
		if err != nil {
			return nil, fmt.Errorf("%s: %v", what, err)
		}
		if !bytes.Equal(w.Instructions, cf.Instructions) {
			return nil, fmt.Errorf("%s: widen(narrow(f)) != f\n orig %v\n v1   %v\n back %v", what, cf.Instructions, n.Instructions, w.Instructions)
		}
		if !sameMap(w.SourceMap, cf.SourceMap) {
			return nil, fmt.Errorf("%s: widen(narrow(f)) source map differs\n orig %v\n v1   %v\n back %v", what, cf.SourceMap, n.SourceMap, w.SourceMap)
		}
		return n, nil
	}
	out := &ugo.Bytecode{FileSet: bc.FileSet, NumModules: bc.NumModules}
	var err error
	if out.Main, err = conv(bc.Main, "main"); err != nil {
		if err == errNoFit {
			return nil, false, nil
		}
		return nil, false, err
	}
	if bc.Constants != nil {
		out.Constants = make([]ugo.Object, len(bc.Constants))
	}
	for i, c := range bc.Constants {
		switch v := c.(type) {
		case *ugo.CompiledFunction:
			n, err := conv(v, fmt.Sprintf("constant #%d", i))
			if err == errNoFit {
				return nil, false, nil
			}
			if err != nil {
				return nil, false, err
			}
			out.Constants[i] = n
		case ugo.Array, ugo.Map:
			if holdsFunc(v) {
				return nil, false, fmt.Errorf("constant #%d: a function nested in a %s constant (the down-converter only knows top-level function constants)", i, v.TypeName())
			}
			out.Constants[i] = c
		default:
			out.Constants[i] = c
		}
	}
	return out, true, nil
}

func holdsFunc(o ugo.Object) bool {
	switch v := o.(type) {
	case *ugo.CompiledFunction:
		return true
	case ugo.Array:
		for _, e := range v {
			if holdsFunc(e) {
				return true
			}
		}
	case ugo.Map:
		for _, e := range v {
			if holdsFunc(e) {
				return true
			}
		}
	}
	return false
}

// encodeV1 serialises a v1-shaped bytecode with a version-1 header:
// header = 4 bytes signature (big endian) + 2 bytes version (big endian).
func encodeV1(v1 *ugo.Bytecode) ([]byte, error) {
	var buf bytes.Buffer
	if err := encoder.EncodeBytecodeTo(v1, &buf); err != nil {
		return nil, fmt.Errorf("encode: %w", err)
	}
	data := buf.Bytes()
	if len(data) < 6 || binary.BigEndian.Uint32(data[0:4]) != encoder.BytecodeSignature ||
		binary.BigEndian.Uint16(data[4:6]) != encoder.BytecodeVersion2 {
		return nil, fmt.Errorf("unexpected header % x", data[:min(6, len(data))])
	}
	binary.BigEndian.PutUint16(data[4:6], encoder.BytecodeVersion1)
	return data, nil
}
