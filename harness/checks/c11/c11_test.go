// C11 - bytecode in the previous (version 1) format still runs the same program.
//
// Generated programs are compiled (v2), down-converted by the harness into the
// version-1 instruction layout (v1conv.go), encoded with a version-1 header and
// decoded with encoder.DecodeBytecodeFrom. The decoded program must run to the
// same outcome (value, L log, globals, output, error name+message, stack-trace
// lines) as the original.
package c11

import (
	"bytes"
	"encoding/json"
	"fmt"
	"os"
	"strings"
	"testing"
	"time"

	"github.com/ozanh/ugo"
	"github.com/ozanh/ugo/encoder"
	"pgregory.net/rapid"

	"verif/internal/canon"
	"verif/internal/ev"
	"verif/internal/gen"
	"verif/internal/prog"
	"verif/internal/run"
)

type replayCase struct {
	prog.Case
	NoOptimize bool        `json:"no_optimize"`
	Expected   run.Outcome `json:"expected"`
	Got        run.Outcome `json:"got"`
	DecodeErr  string      `json:"decode_err,omitempty"`
	// diagnostics only (never the verdict): structural dump of decoded vs original
	CanonEqual bool     `json:"canon_equal"`
	CanonDiff  []string `json:"canon_diff,omitempty"`
}

// result of judging one program
type result struct {
	harness string // harness bug
	excl    string
	inconcl string
	sig     string // violation signature
	what    string
	c       replayCase
	bc      *ugo.Bytecode
	want    run.Outcome

	optRefused bool
}

const vmTimeout = 2 * time.Second

func exec(bc *ugo.Bytecode, args []ugo.Object, globals ugo.Map) run.Outcome {
	lg := &run.Logger{}
	return run.Exec(bc, run.Globals(globals, lg), lg, prog.CopyArgs(args), run.Opts{Recover: true, WantLoc: true, Timeout: vmTimeout})
}

func decodeSafe(data []byte, mm *ugo.ModuleMap) (bc *ugo.Bytecode, err error, pan string) {
	defer func() {
		if p := recover(); p != nil {
			pan = run.FirstLine(fmt.Sprint(p))
			if pan == "" {
				pan = "panic"
			}
		}
	}()
	bc, err = encoder.DecodeBytecodeFrom(bytes.NewReader(data), mm)
	return
}

func isOptimizerErr(err error) bool {
	tn := fmt.Sprintf("%T", err)
	return strings.Contains(tn, "OptimizerError") || strings.Contains(tn, "multipleErr") || strings.Contains(err.Error(), "Optimizer Error")
}

func fullDiff(got, want run.Outcome) (d string, traceOnly bool) {
	if d = got.Diff(want, true); d != "" {
		return d, false
	}
	if strings.Join(got.Trace, "\n") != strings.Join(want.Trace, "\n") {
		return fmt.Sprintf("stack trace %v vs %v", got.Trace, want.Trace), true
	}
	return "", false
}

func canonDiff(a, b string) []string {
	la, lb := strings.Split(a, "\n"), strings.Split(b, "\n")
	var out []string
	for i := 0; i < len(la) || i < len(lb); i++ {
		var x, y string
		if i < len(la) {
			x = la[i]
		}
		if i < len(lb) {
			y = lb[i]
		}
		if x != y {
			out = append(out, fmt.Sprintf("line %d: decoded %q | original %q", i+1, x, y))
			if len(out) >= 12 {
				break
			}
		}
	}
	return out
}

// judge runs the whole pipeline for one program text + inputs.
func judge(c prog.Case, args []ugo.Object, globals ugo.Map, noopt bool) (r result) {
	r.c = replayCase{Case: c, NoOptimize: noopt}
	mods := func() *ugo.ModuleMap {
		if len(c.Modules) == 0 {
			return nil
		}
		return prog.ModuleMap(c.Modules, nil)
	}
	bc, cerr, pan := run.Compile(c.Src, ugo.CompilerOptions{NoOptimize: noopt, ModuleMap: mods()})
	if pan == "" && cerr != nil && !noopt && isOptimizerErr(cerr) {
		// the optimizer refuses the script (constant sub-expression that raises; C01's domain): use it unoptimized
		noopt, r.c.NoOptimize, r.optRefused = true, true, true
		bc, cerr, pan = run.Compile(c.Src, ugo.CompilerOptions{NoOptimize: true, ModuleMap: mods()})
	}
	if pan != "" {
		r.excl = "compile-panic(C05)"
		return
	}
	if cerr != nil {
		r.harness = fmt.Sprintf("generated program does not compile: %v", cerr)
		return
	}
	r.bc = bc

	// the original v2 program
	want := exec(bc, args, globals)
	r.want, r.c.Expected = want, want
	if want.TimedOut {
		r.inconcl = "original-watchdog"
		return
	}
	if want.Panic != "" {
		r.excl = "original-go-panic"
		return
	}

	// baseline: the same program through the CURRENT format (encode v2, decode, run). A difference
	// here is not caused by the version-1 path (decided by C04) -> not judged.
	var v2buf bytes.Buffer
	if err := encoder.EncodeBytecodeTo(bc, &v2buf); err != nil {
		r.excl = "v2-encode-error(C04)"
		return
	}
	bc2, err2, pan2 := decodeSafe(v2buf.Bytes(), mods())
	if err2 != nil || pan2 != "" {
		r.excl = "v2-decode-failed(C04)"
		return
	}
	base := exec(bc2, args, globals)
	if base.TimedOut {
		r.inconcl = "baseline-watchdog"
		return
	}
	if d, _ := fullDiff(base, want); d != "" {
		r.excl = "v2-roundtrip-differs(C04)"
		return
	}

	// harness-side down-conversion + version-1 header
	v1bc, fit, herr := downConvert(bc)
	if herr != nil {
		r.harness = "down-converter: " + herr.Error()
		return
	}
	if !fit {
		r.excl = "target-over-16-bits"
		return
	}
	data, err := encodeV1(v1bc)
	if err != nil {
		r.harness = "encoding the v1-shaped program: " + err.Error()
		return
	}

	// code under test
	dec, derr, dpan := decodeSafe(data, mods())
	if dpan != "" {
		r.c.DecodeErr = "panic: " + dpan
		r.sig = "v1:decode-panic"
		r.what = fmt.Sprintf("DecodeBytecodeFrom panicked on version-1 bytecode: %s\n--- script (NoOptimize=%v) ---\n%s", dpan, noopt, c.Src)
		return
	}
	if derr != nil {
		r.c.DecodeErr = derr.Error()
		r.sig = "v1:decode-error"
		r.what = fmt.Sprintf("DecodeBytecodeFrom failed on version-1 bytecode: %v\n--- script (NoOptimize=%v) ---\n%s", derr, noopt, c.Src)
		return
	}
	co, cd := canon.Bytecode(bc), canon.Bytecode(dec)
	r.c.CanonEqual = co == cd
	if !r.c.CanonEqual {
		r.c.CanonDiff = canonDiff(cd, co)
	}
	got := exec(dec, args, globals)
	r.c.Got = got
	if got.TimedOut {
		// a mis-relocated backward jump loops forever; still only a watchdog observation
		r.inconcl = "v1-watchdog"
		if !r.c.CanonEqual {
			r.inconcl = "v1-watchdog(decoded-program-differs-structurally)"
		}
		return
	}
	if d, traceOnly := fullDiff(got, want); d != "" {
		r.sig = "v1:outcome-differs"
		if traceOnly {
			r.sig = "v1:trace-differs"
		}
		r.what = fmt.Sprintf("program decoded from version-1 bytecode behaves differently: %s\n--- script (NoOptimize=%v) ---\n%s\nv1 decoded: %s trace=%v\noriginal  : %s trace=%v\nstructural dump equal: %v %v",
			d, noopt, c.Src, got, got.Trace, want, want.Trace, r.c.CanonEqual, r.c.CanonDiff)
	}
	return
}

func profiles() []gen.Config {
	base := gen.Config{MaxStmts: 26, MaxDepth: 3, MaxFnDepth: 3, MaxBlock: 4,
		Closures: true, Calls: true, Try: true, Log: true, Consts: true, Destruct: true, Recursion: true, Params: true, Globals: true}
	failing := base
	failing.Failing = true
	mod := failing
	mod.Modules = 1
	big := failing
	big.MaxStmts = 45
	return []gen.Config{base, failing, failing, mod, big}
}

func TestCheck(t *testing.T) {
	rec := ev.New("C11")
	rec.Rule = "programs from the scope-aware generator (if/else chains, && / ||, ternaries, for / for-in with break/continue, try/catch/finally, throw, failing operations, nested function constants, recursion, 0..1 source modules) x optimizer on/off, compiled to v2, down-converted by the harness to the version-1 layout (2-byte jump/try operands, targets and source-map keys relocated through an old->new offset table; verified by an ordinal-based comparison and by the harness's own inverse), encoded with a version-1 header, decoded with encoder.DecodeBytecodeFrom and run; outcome (value, L-log, globals, output, error name+message, stack-trace lines) compared with the original program on the same inputs. Non-trivial = some function has >= 2 jump-class instructions and a jump with another jump-class instruction between itself and its target; distinct by source text"
	rec.Assumptions = []string{
		"the reference is the program as compiled; it is judged only when the same program also survives a round trip through the current (version 2) format unchanged (otherwise the difference belongs to C04)",
		"version-1 bytecode is obtained by narrowing, not from an old compiler: opcode numbering and all non-jump operand widths are identical in both tables (checked at start-up)",
		"a watchdog expiry of the decoded program is inconclusive (counted), never a violation",
		"programs with a relocated target above 65535 are skipped (cannot be expressed in version 1)",
	}
	defer func() { rec.Flush(!t.Failed() || rec.HasUnknown()) }()

	if tablesErr != "" {
		t.Fatalf("HARNESS: %s", tablesErr)
	}
	if tableNote != "" {
		rec.Note("v1-table-differs", tableNote)
	}
	if os.Getenv("VERIF_SHRINKTIME") == "" {
		// every mis-converted loop costs a watchdog period while shrinking
		os.Setenv("VERIF_SHRINKTIME", "10s")
	}
	runReplays(t, rec)
	if ev.ReplayOnly() {
		return
	}

	largeFunctions(t, rec)

	profs := profiles()
	n := ev.N(3000, 40000)
	ev.RapidCheck(t, "v1-decode-runs-same", n, 1, func(rt *rapid.T) {
		cfg := profs[rapid.IntRange(0, len(profs)-1).Draw(rt, "profile")]
		gp := gen.Generate(rt, cfg)
		noopt := rapid.Bool().Draw(rt, "noopt")
		p := prog.Prepare(gp)
		rec.Case()
		r := judge(p.Case(), p.Args, p.Globals, noopt)
		switch {
		case r.harness != "":
			rt.Fatalf("HARNESS: %s\n%s", r.harness, p.Src)
		case r.excl != "":
			rec.Exclude(r.excl)
			return
		case r.inconcl != "":
			rec.Inconcl(r.inconcl)
			return
		case r.sig != "":
			if rec.Violation(r.sig, r.what, r.c) {
				return
			}
			rt.Fatalf("%s", r.what)
		}
		classify(rec, gp, p, r)
	})
}

func classify(rec *ev.Rec, gp *gen.GenProgram, p *prog.P, r result) {
	bc := r.bc
	main := statsOf(bc.Main)
	nontriv := main.jumps >= 2 && main.straddled
	all := main
	nestedJumps := false
	for _, c := range bc.Constants {
		cf, ok := c.(*ugo.CompiledFunction)
		if !ok {
			continue
		}
		st := statsOf(cf)
		if st.jumps > 0 {
			nestedJumps = true
		}
		if st.jumps >= 2 && st.straddled {
			nontriv = true
		}
		all.jumps += st.jumps
		all.logical += st.logical
		all.tries += st.tries
		all.backward += st.backward
	}
	f := gp.Features
	if all.tries > 0 {
		rec.Class("has-try")
	}
	if f["for"]+f["forin"]+f["for-infinite-break"] > 0 {
		rec.Class("has-loop")
	}
	if all.backward > 0 {
		rec.Class("has-backward-jump")
	}
	if nestedJumps {
		rec.Class("has-nested-function-with-jumps")
	}
	if all.logical > 0 {
		rec.Class("has-logical-op")
	}
	if f["finally"] > 0 {
		rec.Class("has-finally")
	}
	if f["import"] > 0 {
		rec.Class("has-module")
	}
	if f["break"]+f["continue"] > 0 {
		rec.Class("has-break-continue")
	}
	switch {
	case all.jumps == 0:
		rec.Class("jumps:0")
	case all.jumps < 5:
		rec.Class("jumps:1-4")
	case all.jumps < 20:
		rec.Class("jumps:5-19")
	default:
		rec.Class("jumps:20+")
	}
	if r.optRefused {
		rec.Class("optimizer-refused-compiled-unoptimized")
	}
	if r.c.NoOptimize {
		rec.Class("optimizer-off")
	} else {
		rec.Class("optimizer-on")
	}
	if r.want.IsErr {
		rec.Class("outcome-error:" + r.want.ErrName)
		if len(r.want.Trace) > 0 {
			rec.Class("trace-compared")
		}
		if len(r.want.Trace) > 1 {
			rec.Class("trace-compared-multi-frame")
		}
	} else {
		rec.Class("outcome-value")
	}
	if !r.c.CanonEqual {
		rec.Class("diagnostic:structural-dump-differs-but-same-outcome")
	}
	if nontriv {
		rec.NonTriv(p.Src)
		rec.Class("nontrivial")
	}
	rec.Sample(map[string]any{"src": p.Src, "args": p.Case().Args, "no_optimize": r.c.NoOptimize, "jumps": all.jumps, "outcome": r.want.String(), "trace": r.want.Trace})
}

func runReplays(t *testing.T, rec *ev.Rec) {
	for _, rf := range rec.Replays() {
		var c replayCase
		if err := json.Unmarshal(rf.Case, &c); err != nil {
			fmt.Fprintln(os.Stderr, "bad replay", rf.Path, err)
			continue
		}
		rec.Case()
		args, globals, err := prog.CaseInputs(c.Case)
		if err != nil {
			t.Errorf("replay %s: %v", rf.Path, err)
			continue
		}
		r := judge(c.Case, args, globals, c.NoOptimize)
		switch {
		case r.harness != "":
			t.Errorf("HARNESS: replay %s: %s", rf.Path, r.harness)
		case r.excl != "":
			rec.Exclude("replay:" + r.excl)
		case r.inconcl != "":
			rec.Inconcl("replay:" + r.inconcl)
		case r.sig != "":
			what := fmt.Sprintf("replay %s: %s", rf.Path, r.what)
			if !rec.Violation(r.sig, what, r.c) {
				t.Errorf("%s", what)
			}
		default:
			rec.Class("replay-pass")
		}
	}
}


// largeFunctions: version-1 functions that still fit 2-byte positions but whose widened (version-2)
// layout exceeds 65535 bytes, with jumps across that boundary that are taken: the relocation table must
// hold positions wider than 16 bits. Sizes around the boundary, in the main function and in a function
// constant, with plain jumps and with try statements.
func largeFunctions(t *testing.T, rec *ev.Rec) {
	stmt := map[string]string{
		"if":  "if n < 0 { n += 100 }\n",
		"try": "try { n += 1 } finally { n -= 1 }\n",
		"and": "n = n >= 0 && n + 1\n",
	}
	counts := []int{3350}
	if ev.Tier() == "thorough" {
		counts = []int{2900, 3200, 3350, 3500}
	}
	if rec.Shard != 0 {
		return // deterministic family: one shard runs it
	}
	for _, kind := range []string{"if", "try", "and"} {
		for _, count := range counts {
			for _, inFn := range []bool{false, true} {
				body := strings.Repeat(stmt[kind], count)
				src := "n := 7\n" + body + "return n\n"
				if inFn {
					src = "f := func(n) {\n" + body + "return n\n}\nreturn f(7)\n"
				}
				rec.Case()
				r := judge(prog.Case{Src: src, Note: fmt.Sprintf("large function: %d x %s, in function %v", count, kind, inFn)}, nil, nil, true)
				name := fmt.Sprintf("large-v1-function:%s:%d:fn=%v", kind, count, inFn)
				switch {
				case r.harness != "":
					// too large for the version-1 layout or for the compiler: not expressible, counted
					rec.Exclude("large-function-not-expressible-in-v1")
				case r.excl != "":
					rec.Exclude(r.excl)
				case r.inconcl != "":
					rec.Inconcl(r.inconcl)
				case r.sig != "":
					r.c.Src = fmt.Sprintf("(%d repetitions of %q, in function: %v)", count, stmt[kind], inFn)
					if !rec.Violation(r.sig+":large-function", name+": "+r.what[:min(len(r.what), 600)], r.c) {
						t.Errorf("%s: %s", name, r.what[:min(len(r.what), 600)])
					}
				default:
					rec.Class(name)
					rec.Class("large-v1-function")
					rec.NonTriv(name)
				}
			}
		}
	}
}
