// C20 - values cross the Go boundary without change.
package c20

import (
	"encoding/json"
	"errors"
	"fmt"
	"math"
	"reflect"
	"testing"
	gotime "time"

	"github.com/ozanh/ugo"
	ugojson "github.com/ozanh/ugo/stdlib/json"
	ugotime "github.com/ozanh/ugo/stdlib/time"
	"pgregory.net/rapid"

	"verif/internal/canon"
	"verif/internal/ev"
	"verif/internal/vals"
)

var _ = ugojson.Marshal

// safe runs f and converts a panic into an error string.
func safe(f func()) (p string) {
	defer func() {
		if r := recover(); r != nil {
			p = fmt.Sprint(r)
		}
	}()
	f()
	return ""
}

// eqObj: deep equality with identical types, NaN == NaN, -0 != +0, nil and
// empty containers interchangeable. charAsInt: a Char on the left may be an
// Int with the same numeric value on the right (ToObjectAlt).
func eqObj(a, b ugo.Object, charAsInt bool) bool {
	switch x := a.(type) {
	case ugo.Int:
		y, ok := b.(ugo.Int)
		return ok && x == y
	case ugo.Uint:
		y, ok := b.(ugo.Uint)
		return ok && x == y
	case ugo.Float:
		y, ok := b.(ugo.Float)
		return ok && (math.Float64bits(float64(x)) == math.Float64bits(float64(y)) || (math.IsNaN(float64(x)) && math.IsNaN(float64(y))))
	case ugo.Bool:
		y, ok := b.(ugo.Bool)
		return ok && x == y
	case ugo.Char:
		if charAsInt {
			y, ok := b.(ugo.Int)
			return ok && int64(x) == int64(y)
		}
		y, ok := b.(ugo.Char)
		return ok && x == y
	case ugo.String:
		y, ok := b.(ugo.String)
		return ok && x == y
	case ugo.Bytes:
		y, ok := b.(ugo.Bytes)
		return ok && string(x) == string(y)
	case *ugo.UndefinedType:
		return b == ugo.Undefined
	case ugo.Array:
		y, ok := b.(ugo.Array)
		if !ok || len(x) != len(y) {
			return false
		}
		for i := range x {
			if !eqObj(x[i], y[i], charAsInt) {
				return false
			}
		}
		return true
	case ugo.Map:
		y, ok := b.(ugo.Map)
		if !ok || len(x) != len(y) {
			return false
		}
		for k, v := range x {
			w, ok := y[k]
			if !ok || !eqObj(v, w, charAsInt) {
				return false
			}
		}
		return true
	}
	return false
}

// canonicalGo reports whether g is made only of the canonical Go counterparts.
func canonicalGo(g any) bool {
	switch v := g.(type) {
	case nil, int64, uint64, float64, bool, rune, string, []byte:
		return true
	case []any:
		for _, e := range v {
			if !canonicalGo(e) {
				return false
			}
		}
		return true
	case map[string]any:
		for _, e := range v {
			if !canonicalGo(e) {
				return false
			}
		}
		return true
	}
	return false
}

// eqGo: DeepEqual modulo nil/empty containers and NaN.
func eqGo(a, b any) bool {
	switch x := a.(type) {
	case nil:
		return b == nil
	case float64:
		y, ok := b.(float64)
		return ok && (math.Float64bits(x) == math.Float64bits(y) || (math.IsNaN(x) && math.IsNaN(y)))
	case []byte:
		y, ok := b.([]byte)
		return ok && string(x) == string(y)
	case []any:
		y, ok := b.([]any)
		if !ok || len(x) != len(y) {
			return false
		}
		for i := range x {
			if !eqGo(x[i], y[i]) {
				return false
			}
		}
		return true
	case map[string]any:
		y, ok := b.(map[string]any)
		if !ok || len(x) != len(y) {
			return false
		}
		for k, v := range x {
			w, ok := y[k]
			if !ok || !eqGo(v, w) {
				return false
			}
		}
		return true
	}
	return reflect.TypeOf(a) == reflect.TypeOf(b) && reflect.DeepEqual(a, b)
}

// goValue generates a canonical Go value.
func goValue(t *rapid.T, depth int) any {
	kinds := []string{"nil", "int64", "uint64", "float64", "bool", "rune", "string", "bytes", "nilbytes"}
	if depth < 5 {
		kinds = append(kinds, "slice", "map", "slice", "map", "nilslice", "nilmap")
	}
	switch rapid.SampledFrom(kinds).Draw(t, "gokind") {
	case "int64":
		return vals.Int().Draw(t, "i")
	case "uint64":
		return vals.Uint().Draw(t, "u")
	case "float64":
		return vals.Float().Draw(t, "f")
	case "bool":
		return rapid.Bool().Draw(t, "b")
	case "rune":
		return rune(vals.Char().Draw(t, "c"))
	case "string":
		return vals.Str().Draw(t, "s")
	case "bytes":
		b := rapid.SliceOfN(rapid.Byte(), 0, 6).Draw(t, "bs")
		if b == nil {
			b = []byte{}
		}
		return b
	case "nilbytes":
		return []byte(nil)
	case "nilslice":
		return []any(nil)
	case "nilmap":
		return map[string]any(nil)
	case "slice":
		n := rapid.IntRange(0, 4).Draw(t, "n")
		s := make([]any, 0, n)
		for i := 0; i < n; i++ {
			s = append(s, goValue(t, depth+1))
		}
		return s
	case "map":
		n := rapid.IntRange(0, 4).Draw(t, "n")
		m := make(map[string]any, n)
		for i := 0; i < n; i++ {
			m[vals.Key().Draw(t, "k")] = goValue(t, depth+1)
		}
		return m
	}
	return nil
}

func goDepth(g any) int {
	d := 0
	switch v := g.(type) {
	case []any:
		d = 1
		for _, e := range v {
			if x := goDepth(e) + 1; x > d {
				d = x
			}
		}
	case map[string]any:
		d = 1
		for _, e := range v {
			if x := goDepth(e) + 1; x > d {
				d = x
			}
		}
	}
	return d
}

type caseA struct {
	Kind  string `json:"kind"`
	Value string `json:"value"` // canonical dump (diagnostic)
}

type unsupportedStruct struct{ A int }

// widths: every other accepted Go numeric type with its expected numeric value.
type widthCase struct {
	name string
	in   any
	i    int64   // expected as signed (when !isU && !isF)
	u    uint64  // expected as unsigned
	f    float64 // expected as float
	isU  bool
	isF  bool
}

func widthCases(t *rapid.T) []widthCase {
	i64 := vals.Int().Draw(t, "wi")
	u64 := vals.Uint().Draw(t, "wu")
	f32 := float32(vals.Float().Draw(t, "wf"))
	return []widthCase{
		{name: "int", in: int(i64), i: int64(int(i64))},
		{name: "int8", in: int8(i64), i: int64(int8(i64))},
		{name: "int16", in: int16(i64), i: int64(int16(i64))},
		{name: "int32", in: int32(i64), i: int64(int32(i64))},
		{name: "uint", in: uint(u64), u: uint64(uint(u64)), isU: true},
		{name: "uint8", in: uint8(u64), u: uint64(uint8(u64)), isU: true},
		{name: "uint16", in: uint16(u64), u: uint64(uint16(u64)), isU: true},
		{name: "uint32", in: uint32(u64), u: uint64(uint32(u64)), isU: true},
		{name: "uintptr", in: uintptr(u64), u: uint64(uintptr(u64)), isU: true},
		{name: "float32", in: f32, f: float64(f32), isF: true},
	}
}

// numericValue extracts the numeric value of a uGO number as (kind, i, u, f).
func numericOK(o ugo.Object, w widthCase) bool {
	switch v := o.(type) {
	case ugo.Int:
		if w.isU {
			return w.u <= math.MaxInt64 && int64(v) == int64(w.u)
		}
		return !w.isF && int64(v) == w.i
	case ugo.Uint:
		if w.isU {
			return uint64(v) == w.u
		}
		return !w.isF && w.i >= 0 && uint64(v) == uint64(w.i)
	case ugo.Char:
		if w.isU {
			return w.u <= math.MaxInt32 && int64(v) == int64(w.u)
		}
		return !w.isF && int64(v) == w.i
	case ugo.Float:
		return w.isF && (math.Float64bits(float64(v)) == math.Float64bits(w.f) || (math.IsNaN(float64(v)) && math.IsNaN(w.f)))
	}
	return false
}

func TestCheck(t *testing.T) {
	rec := ev.New("C20")
	rec.Rule = "rapid-generated nested values (depth<=6): (a) plain uGO value x: ToObject(ToInterface(x)) and ToObjectAlt(ToInterface(x)) deep-equal x with identical types (Char->Int numeric for Alt), Go side made of canonical types only; (b) canonical Go value g: ToInterface(ToObject(g)) and via ToObjectAlt deep-equal g modulo nil/empty; (c) every other accepted integer/float width keeps its numeric value or is rejected with an error; (d) unsupported types -> error; no panic anywhere. Non-trivial = nested container or boundary scalar; distinct by canonical dump"
	rec.Assumptions = []string{
		"oracle equality is written independently of ugo's Equal methods (bitwise floats, NaN==NaN, nil==empty containers)",
		"registry types (time.Time, *time.Location, time.Duration, json.RawMessage) are checked against the converters' documented targets",
	}
	defer func() { rec.Flush(!t.Failed() || rec.HasUnknown()) }()

	fail := func(rt *rapid.T, sig, what string, c any) {
		if rec.Violation(sig, what, c) {
			return
		}
		rt.Fatalf("%s: %s", sig, what)
	}

	n := ev.N(20000, 400000)

	// (a) uGO -> Go -> uGO
	ev.RapidCheck(t, "ugo-go-ugo", n, 1, func(rt *rapid.T) {
		x := vals.Plain(vals.Opts{MaxDepth: 6}).Draw(rt, "x")
		// values are graphs, not trees: the same map / array instance may be reachable several times
		// (as siblings, not as a cycle), and several nil containers are the same (nil) instance
		switch rapid.IntRange(0, 9).Draw(rt, "sharing") {
		case 0:
			x = ugo.Array{x, x}
			rec.Class("a:shared-instance")
		case 1:
			x = ugo.Map{"first": x, "list": ugo.Array{x, ugo.String("s"), x}}
			rec.Class("a:shared-instance")
		case 2:
			if m := firstMap(x); m != nil {
				x = ugo.Array{x, m, ugo.Map{"again": m}}
				rec.Class("a:shared-inner-map")
			}
		case 3:
			x = ugo.Array{ugo.Map(nil), x, ugo.Map(nil), ugo.Array(nil), ugo.Map{"n": ugo.Map(nil), "a": ugo.Array(nil)}, ugo.Bytes(nil)}
			rec.Class("a:several-nil-containers")
		}
		rec.Case()
		dump := canon.Value(x)
		c := caseA{"a", dump}
		var g any
		if p := safe(func() { g = ugo.ToInterface(x) }); p != "" {
			fail(rt, "a:panic:ToInterface", p, c)
			return
		}
		if !canonicalGo(g) {
			fail(rt, "a:noncanonical-go-type", fmt.Sprintf("ToInterface(%s) = %T %#v is not made of canonical Go types", dump, g, g), c)
			return
		}
		var y, y2 ugo.Object
		var err, err2 error
		if p := safe(func() { y, err = ugo.ToObject(g) }); p != "" {
			fail(rt, "a:panic:ToObject", p, c)
			return
		}
		if p := safe(func() { y2, err2 = ugo.ToObjectAlt(g) }); p != "" {
			fail(rt, "a:panic:ToObjectAlt", p, c)
			return
		}
		if err != nil || !eqObj(x, y, false) {
			fail(rt, "a:roundtrip:ToObject", fmt.Sprintf("x=%s ToObject(ToInterface(x))=%s err=%v", dump, canon.Value(y), err), c)
			return
		}
		if err2 != nil || !eqObj(x, y2, true) {
			fail(rt, "a:roundtrip:ToObjectAlt", fmt.Sprintf("x=%s ToObjectAlt(ToInterface(x))=%s err=%v", dump, canon.Value(y2), err2), c)
			return
		}
		if vals.Depth(x) >= 1 {
			rec.NonTriv("a" + dump)
			rec.Class(fmt.Sprintf("a:depth%d", vals.Depth(x)))
		} else {
			rec.Class("a:scalar")
		}
		rec.Sample(map[string]string{"dir": "ugo->go->ugo", "value": trunc(dump)})
	})

	// (b) Go -> uGO -> Go
	ev.RapidCheck(t, "go-ugo-go", n, 2, func(rt *rapid.T) {
		g := goValue(rt, 0)
		rec.Case()
		desc := fmt.Sprintf("%#v", g)
		c := caseA{"b", desc}
		for _, alt := range []bool{false, true} {
			var o ugo.Object
			var err error
			name := "ToObject"
			if alt {
				name = "ToObjectAlt"
			}
			if p := safe(func() {
				if alt {
					o, err = ugo.ToObjectAlt(g)
				} else {
					o, err = ugo.ToObject(g)
				}
			}); p != "" {
				fail(rt, "b:panic:"+name, p, c)
				return
			}
			if err != nil || o == nil {
				fail(rt, "b:error:"+name, fmt.Sprintf("%s(%s) err=%v obj=%v", name, desc, err, o), c)
				return
			}
			var g2 any
			if p := safe(func() { g2 = ugo.ToInterface(o) }); p != "" {
				fail(rt, "b:panic:ToInterface", p, c)
				return
			}
			want := g
			if alt {
				want = runesToInt64(g) // ToObjectAlt maps int32 to Int, which comes back as int64
			}
			if !eqGo(want, g2) {
				fail(rt, "b:roundtrip:"+name, fmt.Sprintf("g=%s back=%#v", desc, g2), c)
				return
			}
		}
		if goDepth(g) >= 1 {
			rec.NonTriv("b" + desc)
			rec.Class(fmt.Sprintf("b:depth%d", goDepth(g)))
		} else {
			rec.Class("b:scalar")
		}
		rec.Sample(map[string]string{"dir": "go->ugo->go", "value": trunc(desc)})
	})

	// (c) other widths, (d) unsupported types, registry types
	ev.RapidCheck(t, "widths-unsupported", ev.N(5000, 100000), 3, func(rt *rapid.T) {
		for _, w := range widthCases(rt) {
			rec.Case()
			c := caseA{"c", fmt.Sprintf("%s(%v)", w.name, w.in)}
			for _, alt := range []bool{false, true} {
				var o ugo.Object
				var err error
				if p := safe(func() {
					if alt {
						o, err = ugo.ToObjectAlt(w.in)
					} else {
						o, err = ugo.ToObject(w.in)
					}
				}); p != "" {
					fail(rt, "c:panic:"+w.name, p, c)
					return
				}
				if err != nil {
					// rejected with an error: allowed ("unsupported types are reported as errors")
					rec.Class(fmt.Sprintf("c:rejected:%s:alt=%v", w.name, alt))
					continue
				}
				if o == nil || !numericOK(o, w) {
					fail(rt, fmt.Sprintf("c:value:%s:alt=%v", w.name, alt), fmt.Sprintf("%s(%v) converted to %s", w.name, w.in, canon.Value(o)), c)
					return
				}
				if alt {
					// documented: ToObjectAlt always maps signed to Int and unsigned to Uint
					_, isInt := o.(ugo.Int)
					_, isUint := o.(ugo.Uint)
					if (!w.isU && !w.isF && !isInt) || (w.isU && !isUint) {
						fail(rt, "c:alt-kind:"+w.name, fmt.Sprintf("ToObjectAlt(%s(%v)) = %s", w.name, w.in, canon.Value(o)), c)
						return
					}
				}
				rec.NonTriv(c.Value)
			}
			// nested inside containers: same result as at top level or an error, no panic
			var err error
			var nested ugo.Object
			if p := safe(func() { nested, err = ugo.ToObject([]any{w.in, map[string]any{"k": w.in}, int64(1)}) }); p != "" {
				fail(rt, "c:panic-nested:"+w.name, p, c)
				return
			}
			if err == nil && hasNil(nested) {
				fail(rt, "c:nil-object-nested:"+w.name, fmt.Sprintf("ToObject of a slice holding %s(%v) returned no error and a value containing a nil Object", w.name, w.in), c)
				return
			}
		}
		// (d) unsupported
		uns := []any{
			unsupportedStruct{1}, &unsupportedStruct{2}, make(chan int), complex(1, 2), []int{1}, map[int]any{1: 2},
			(*int)(nil), []string{"a"}, map[string]int{"a": 1}, [2]int{1, 2}, struct{}{}, func() {}, new(int),
			(*unsupportedStruct)(nil), []float64{1}, map[any]any{},
		}
		u := rapid.SampledFrom(uns).Draw(rt, "unsupported")
		wrap := rapid.SampledFrom([]string{"top", "slice", "slice-first", "slice-mid", "map", "deep", "deep-first", "random"}).Draw(rt, "wrap")
		var in any = u
		switch wrap {
		case "slice":
			in = []any{int64(1), u}
		case "slice-first":
			in = []any{u, int64(1), "x"}
		case "slice-mid":
			in = []any{int64(1), u, []any{"y"}}
		case "map":
			in = map[string]any{"a": "x", "b": u}
		case "deep":
			in = []any{map[string]any{"k": []any{u}}}
		case "deep-first":
			in = map[string]any{"k": []any{[]any{u, int64(2)}, int64(3)}, "z": int64(1)}
		case "random":
			// a generated canonical value with the unsupported leaf injected at a random slice position
			n := rapid.IntRange(2, 5).Draw(rt, "n")
			at := rapid.IntRange(0, n-1).Draw(rt, "at")
			sl := make([]any, n)
			for i := range sl {
				if i == at {
					sl[i] = u
				} else {
					sl[i] = goValue(rt, 3)
				}
			}
			in = sl
			if rapid.Bool().Draw(rt, "nestmore") {
				in = []any{goValue(rt, 4), map[string]any{"k": sl}, goValue(rt, 4)}
			}
		}
		rec.Case()
		c := caseA{"d", fmt.Sprintf("%s:%T", wrap, u)}
		for _, alt := range []bool{false, true} {
			var o ugo.Object
			var err error
			if p := safe(func() {
				if alt {
					o, err = ugo.ToObjectAlt(in)
				} else {
					o, err = ugo.ToObject(in)
				}
			}); p != "" {
				fail(rt, fmt.Sprintf("d:panic:%T", u), p, c)
				return
			}
			if err == nil {
				fail(rt, fmt.Sprintf("d:no-error:%T", u), fmt.Sprintf("unsupported %T (%s) converted without error to %s", u, wrap, canon.Value(o)), c)
				return
			}
		}
		rec.NonTriv(c.Value)
		rec.Class("d:unsupported-rejected")

		// (e) pointers (nil and non-nil) to supported and registry types, named types over supported kinds:
		// whether such a type is supported is the implementation's choice, so the oracle is only
		// "no panic, and either an error or a value without a nil Object inside".
		{
			i64, str, dur, raw, tm, bs, sl, mp, f64, bl := int64(3), "x", gotime.Duration(5), json.RawMessage("1"), gotime.Unix(0, 0), []byte("b"), []any{int64(1)}, map[string]any{"a": int64(1)}, 1.5, true
			ptm := &tm
			var ierr error
			ptrs := []any{
				&i64, &str, &dur, &raw, &ptm, &bs, &sl, &mp, &f64, &bl, &ierr,
				(*int64)(nil), (*string)(nil), (*gotime.Duration)(nil), (*json.RawMessage)(nil), (**gotime.Time)(nil), (*[]byte)(nil),
				(*[]any)(nil), (*map[string]any)(nil), (*float64)(nil), (*bool)(nil), (*error)(nil), (*gotime.Month)(nil), (*ugo.Int)(nil),
				(*ugo.Array)(nil), (*ugo.Map)(nil), (*ugo.String)(nil), gotime.Month(3), gotime.Weekday(2), (*any)(nil), new(any),
			}
			pv := rapid.SampledFrom(ptrs).Draw(rt, "pointer")
			var pin any = pv
			switch rapid.SampledFrom([]string{"top", "slice", "map", "deep"}).Draw(rt, "pwrap") {
			case "slice":
				pin = []any{int64(1), pv, "x"}
			case "map":
				pin = map[string]any{"a": "x", "b": pv}
			case "deep":
				pin = []any{map[string]any{"k": []any{pv, int64(2)}}}
			}
			rec.Case()
			pc := caseA{"e", fmt.Sprintf("%T nil=%v", pv, fmt.Sprint(pv) == "<nil>")}
			for _, alt := range []bool{false, true} {
				var o ugo.Object
				var err error
				if p := safe(func() {
					if alt {
						o, err = ugo.ToObjectAlt(pin)
					} else {
						o, err = ugo.ToObject(pin)
					}
				}); p != "" {
					fail(rt, fmt.Sprintf("e:panic:%T", pv), p, pc)
					return
				}
				if err == nil && hasNil(o) {
					fail(rt, fmt.Sprintf("e:nil-object:%T", pv), fmt.Sprintf("ToObject of %T returned no error and a value containing a nil Object", pv), pc)
					return
				}
				if err != nil {
					rec.Class("e:pointer-rejected")
				} else {
					rec.Class("e:pointer-converted")
				}
			}
			rec.NonTriv(pc.Value + fmt.Sprintf("%T", pin))
		}
	})

	// registry + special cases: enumerated
	t.Run("registry", func(t *testing.T) {
		now := gotime.Date(2024, 2, 29, 23, 59, 59, 999, gotime.UTC)
		loc := gotime.FixedZone("X", 3600)
		type tc struct {
			name string
			in   any
			ok   func(o ugo.Object, back any) bool
		}
		var nilFn ugo.CallableFunc
		cases := []tc{
			{"time.Time", now, func(o ugo.Object, b any) bool { tt, ok := b.(gotime.Time); return ok && tt.Equal(now) }},
			{"*time.Time", &now, func(o ugo.Object, b any) bool { tt, ok := b.(gotime.Time); return ok && tt.Equal(now) }},
			{"nil *time.Time", (*gotime.Time)(nil), func(o ugo.Object, b any) bool { return o == ugo.Undefined }},
			{"*time.Location", loc, func(o ugo.Object, b any) bool { l, ok := b.(*gotime.Location); return ok && l == loc }},
			{"nil *time.Location", (*gotime.Location)(nil), func(o ugo.Object, b any) bool { return o == ugo.Undefined }},
			{"time.Duration", gotime.Duration(1500), func(o ugo.Object, b any) bool { return o == ugo.Int(1500) }},
			{"json.RawMessage", json.RawMessage(`{"a":1}`), func(o ugo.Object, b any) bool {
				r, ok := b.(json.RawMessage)
				return ok && string(r) == `{"a":1}`
			}},
			{"nil json.RawMessage", json.RawMessage(nil), func(o ugo.Object, b any) bool {
				r, ok := b.(json.RawMessage)
				return ok && len(r) == 0
			}},
			{"nil CallableFunc", nilFn, func(o ugo.Object, b any) bool { return o == ugo.Undefined }},
			{"CallableFunc", ugo.CallableFunc(func(...ugo.Object) (ugo.Object, error) { return ugo.Int(7), nil }), func(o ugo.Object, b any) bool {
				f, ok := o.(*ugo.Function)
				if !ok {
					return false
				}
				r, err := f.Call()
				return err == nil && r == ugo.Int(7)
			}},
			{"error", errors.New("boom"), func(o ugo.Object, b any) bool {
				e, ok := o.(*ugo.Error)
				return ok && e.Message == "boom"
			}},
			{"Object", ugo.Array{ugo.Int(1)}, func(o ugo.Object, b any) bool { return canon.Value(o) == "[i1]" }},
			{"[]Object nil", []ugo.Object(nil), func(o ugo.Object, b any) bool { a, ok := o.(ugo.Array); return ok && len(a) == 0 && a != nil }},
			{"[]Object", []ugo.Object{ugo.Int(1), ugo.String("x")}, func(o ugo.Object, b any) bool { return canon.Value(o) == `[i1,s"x"]` }},
			{"map[string]Object nil", map[string]ugo.Object(nil), func(o ugo.Object, b any) bool { m, ok := o.(ugo.Map); return ok && len(m) == 0 && m != nil }},
			{"map[string]Object", map[string]ugo.Object{"a": ugo.True}, func(o ugo.Object, b any) bool { return canon.Value(o) == `{"a":true}` }},
			{"nil SyncMap", (*ugo.SyncMap)(nil), func(o ugo.Object, b any) bool { m, ok := b.(map[string]any); return ok && len(m) == 0 }},
			{"ugo time object", &ugotime.Time{Value: now}, func(o ugo.Object, b any) bool { tt, ok := b.(gotime.Time); return ok && tt.Equal(now) }},
		}
		for _, c := range cases {
			for _, alt := range []bool{false, true} {
				rec.Case()
				var o ugo.Object
				var err error
				var back any
				p := safe(func() {
					if alt {
						o, err = ugo.ToObjectAlt(c.in)
					} else {
						o, err = ugo.ToObject(c.in)
					}
					if err == nil {
						back = ugo.ToInterface(o)
					}
				})
				cs := caseA{"registry", fmt.Sprintf("%s alt=%v", c.name, alt)}
				switch {
				case p != "":
					if !rec.Violation("r:panic:"+c.name, p, cs) {
						t.Errorf("panic %s: %s", c.name, p)
					}
				case err != nil || o == nil:
					if !rec.Violation("r:error:"+c.name, fmt.Sprint(err), cs) {
						t.Errorf("error %s: %v", c.name, err)
					}
				case !c.ok(o, back):
					if !rec.Violation("r:value:"+c.name, fmt.Sprintf("obj=%s back=%#v", canon.Value(o), back), cs) {
						t.Errorf("value %s: obj=%s back=%#v", c.name, canon.Value(o), back)
					}
				default:
					rec.NonTriv(cs.Value)
					rec.Class("registry-ok")
				}
			}
		}
	})
}

// firstMap returns the first non-empty map found inside o (depth first), or nil.
func firstMap(o ugo.Object) ugo.Map {
	switch v := o.(type) {
	case ugo.Map:
		if len(v) > 0 {
			return v
		}
	case ugo.Array:
		for _, e := range v {
			if m := firstMap(e); m != nil {
				return m
			}
		}
	}
	return nil
}

// hasNil reports whether a converted value contains a nil Object anywhere.
func hasNil(o ugo.Object) bool {
	switch v := o.(type) {
	case nil:
		return true
	case ugo.Array:
		for _, e := range v {
			if hasNil(e) {
				return true
			}
		}
	case ugo.Map:
		for _, e := range v {
			if hasNil(e) {
				return true
			}
		}
	}
	return false
}

func runesToInt64(g any) any {
	switch v := g.(type) {
	case rune:
		return int64(v)
	case []any:
		out := make([]any, len(v))
		for i, e := range v {
			out[i] = runesToInt64(e)
		}
		return out
	case map[string]any:
		out := make(map[string]any, len(v))
		for k, e := range v {
			out[k] = runesToInt64(e)
		}
		return out
	}
	return g
}

func trunc(s string) string {
	if len(s) > 300 {
		return s[:300] + "..."
	}
	return s
}
