// C12 - a module is loaded once per run and every import sees the same object.
//
// Positive graphs: generated import graphs (own generator, gen_test.go) are run
// on the VM in several configurations and compared with the reference
// interpreter; additionally the VM's own L-log is checked directly (every
// "load mK" at most once, identity probes report "ok").
// Negative graphs: import cycles of length 1-4 and unknown modules must be
// reported by ugo.Compile (error naming the module), never hang.
package c12

import (
	"bytes"
	"encoding/json"
	"errors"
	"fmt"
	"os"
	"path/filepath"
	"sort"
	"strconv"
	"strings"
	"testing"
	"time"

	"github.com/ozanh/ugo"
	"github.com/ozanh/ugo/encoder"
	"github.com/ozanh/ugo/importers"
	"pgregory.net/rapid"

	"verif/internal/canon"
	"verif/internal/ev"
	"verif/internal/prog"
	"verif/internal/ref"
	"verif/internal/run"
)

// ------------------------------------------------------------ replay format

type config struct {
	NoOptimize   bool   `json:"no_optimize"`
	FileImporter bool   `json:"file_importer,omitempty"`
	Mode         string `json:"mode,omitempty"` // configuration in which the finding appeared (informational)
}

type replayCase struct {
	Kind string `json:"kind"` // positive | cycle | unknown | scope
	prog.Case
	Builtins []string     `json:"builtins,omitempty"`
	Config   config       `json:"config"`
	Expected *run.Outcome `json:"expected,omitempty"` // reference outcome (positive cases)
	Got      *run.Outcome `json:"got,omitempty"`
	Names    []string     `json:"names,omitempty"` // cycle members / unknown module name
	CycleLen int          `json:"cycle_len,omitempty"`
	Edges    []string     `json:"edges,omitempty"`
	Compile  string       `json:"compile,omitempty"` // what Compile reported
}

type finding struct {
	sig, what string
	mode      string
	got       *run.Outcome
	compile   string
}

// ------------------------------------------------------------ module maps

const importGuardLimit = 400

var errImportGuard = errors.New("C12-GUARD: unbounded import recursion")

type guardedSource struct {
	src   []byte
	count *int
}

func (g *guardedSource) Import(string) (any, error) {
	*g.count++
	if *g.count > importGuardLimit {
		return nil, errImportGuard
	}
	return g.src, nil
}

type moduleEnv struct {
	mm      *ugo.ModuleMap
	attrs   map[string]map[string]ugo.Object
	imports *int // number of source-module Import calls (guard against runaway compile recursion)
}

// newModuleEnv builds the module map: source modules either as (guarded)
// in-memory modules or served by importers.FileImporter from the virtual
// directory /w; builtin modules with fresh attribute maps.
func newModuleEnv(mods map[string]string, builtins []string, fileImp bool) *moduleEnv {
	env := &moduleEnv{mm: ugo.NewModuleMap(), attrs: map[string]map[string]ugo.Object{}, imports: new(int)}
	names := make([]string, 0, len(mods))
	for n := range mods {
		names = append(names, n)
	}
	sort.Strings(names)
	if fileImp {
		files := map[string]string{}
		for _, n := range names {
			files["/w/"+n] = mods[n]
		}
		env.mm.SetExtImporter(&importers.FileImporter{WorkDir: "/w", FileReader: func(p string) ([]byte, error) {
			*env.imports++
			if *env.imports > importGuardLimit {
				return nil, errImportGuard
			}
			s, ok := files[filepath.Clean(p)]
			if !ok {
				return nil, fmt.Errorf("open %s: file does not exist", p)
			}
			return []byte(s), nil
		}})
	} else {
		for _, n := range names {
			env.mm.Add(n, &guardedSource{src: []byte(mods[n]), count: env.imports})
		}
	}
	for _, b := range builtins {
		env.attrs[b] = builtinAttrs(b)
		env.mm.AddBuiltinModule(b, env.attrs[b])
	}
	return env
}

func (e *moduleEnv) dumpAttrs() string {
	m := ugo.Map{}
	for n, a := range e.attrs {
		m[n] = ugo.Map(a)
	}
	return canon.Value(m)
}

// ------------------------------------------------------------ compile watchdog

type compileResult struct {
	bc    *ugo.Bytecode
	err   error
	pan   string
	hang  bool
	guard bool
}

func compileWatch(src string, opts ugo.CompilerOptions, env *moduleEnv, timeout time.Duration) compileResult {
	ch := make(chan compileResult, 1)
	go func() {
		var r compileResult
		r.bc, r.err, r.pan = run.Compile(src, opts)
		ch <- r
	}()
	select {
	case r := <-ch:
		if r.err != nil && strings.Contains(r.err.Error(), "C12-GUARD") {
			r.guard = true
		}
		return r
	case <-time.After(timeout):
		return compileResult{hang: true}
	}
}

// ------------------------------------------------------------ reference run

func runRef(p *prog.P, builtins []string) (run.Outcome, error) {
	lg := &run.Logger{}
	g := run.Globals(p.Globals, lg)
	bm := map[string]ugo.Object{}
	for _, b := range builtins {
		cp := ugo.Map(builtinAttrs(b)).Copy().(ugo.Map)
		cp[ugo.AttrModuleName] = ugo.String(b)
		bm[b] = cp
	}
	in := &ref.Interp{Globals: g, Modules: p.G.Modules, BuiltinModules: bm, MaxSteps: 400000}
	res := in.Run(p.G.Body, prog.CopyArgs(p.Args))
	var out run.Outcome
	if res.Abort != nil {
		return out, res.Abort
	}
	out.Log = lg.Log
	gc := ugo.Map{}
	for k, v := range g {
		if k != "L" {
			gc[k] = v
		}
	}
	out.Globals = canon.Value(gc)
	if res.Err != nil {
		out.IsErr = true
		out.ErrName, out.ErrMsg = canon.ErrName(res.Err)
	} else {
		out.Value = canon.Value(res.Value)
	}
	return out, nil
}

// ------------------------------------------------------------ direct log checks

// logString decodes a canonical log entry of a string value (canon renders s"...").
func logString(l string) (string, bool) {
	if !strings.HasPrefix(l, `s"`) {
		return "", false
	}
	v, err := strconv.Unquote(l[1:])
	return v, err == nil
}

// loads lists the module names of the "load mK" entries in log order.
func loads(log []string) []string {
	var out []string
	for _, l := range log {
		if v, ok := logString(l); ok && strings.HasPrefix(v, "load ") {
			out = append(out, strings.TrimPrefix(v, "load "))
		}
	}
	return out
}

// loadedTwice returns the first module whose body ran more than once.
func loadedTwice(log []string) string {
	seen := map[string]bool{}
	for _, m := range loads(log) {
		if seen[m] {
			return m
		}
		seen[m] = true
	}
	return ""
}

// identityLost returns the site kind of the first identity probe that failed.
func identityLost(log []string) string {
	for _, l := range log {
		if v, ok := logString(l); ok && strings.HasPrefix(v, "id:") && strings.HasSuffix(v, ":lost") {
			return strings.TrimSuffix(strings.TrimPrefix(v, "id:"), ":lost")
		}
	}
	return ""
}

func withMsg(o run.Outcome) bool { return o.ErrName == "" || o.ErrName == "error" }

// ------------------------------------------------------------ positive pipeline

type posInput struct {
	src      string
	mods     map[string]string
	args     []ugo.Object
	globals  ugo.Map
	builtins []string
	fileImp  bool
}

type sink interface {
	Exclude(string)
	Inconcl(string)
	Class(string)
}

func encodeDecode(bc *ugo.Bytecode, mm *ugo.ModuleMap) (out *ugo.Bytecode, err error) {
	defer func() {
		if p := recover(); p != nil {
			err = fmt.Errorf("panic: %v", p)
		}
	}()
	var buf bytes.Buffer
	if err = encoder.EncodeBytecodeTo(bc, &buf); err != nil {
		return nil, err
	}
	return encoder.DecodeBytecodeFrom(bytes.NewReader(buf.Bytes()), mm)
}

// errHarness marks problems of the generated case itself.
type errHarness struct{ msg string }

func (e *errHarness) Error() string { return e.msg }

// runPositive runs one compiler setting through all run configurations and
// returns the first finding (nil = held).
func runPositive(rec sink, in posInput, noopt bool, want run.Outcome) (*finding, error) {
	env := newModuleEnv(in.mods, in.builtins, in.fileImp)
	before := env.dumpAttrs()
	opts := ugo.CompilerOptions{ModuleMap: env.mm, NoOptimize: noopt}
	cr := compileWatch(in.src, opts, env, 5*time.Second)
	switch {
	case cr.hang:
		rec.Inconcl("compile-watchdog")
		return nil, nil
	case cr.pan != "":
		rec.Exclude("compile-panic(C05)")
		return nil, nil
	case cr.guard:
		return &finding{sig: "module:compile-hang", what: "compiling an ACYCLIC import graph imported the same module more than " + fmt.Sprint(importGuardLimit) + " times (unbounded recursion)", mode: "compile"}, nil
	case cr.err != nil:
		return nil, &errHarness{fmt.Sprintf("HARNESS: generated acyclic graph does not compile: %v", cr.err)}
	}
	bc := cr.bc
	ro := run.Opts{Recover: true}

	exec := func(vm *ugo.VM) run.Outcome {
		lg := &run.Logger{}
		return run.ExecVM(vm, run.Globals(in.globals, lg), lg, prog.CopyArgs(in.args), ro)
	}
	judge := func(mode string, got run.Outcome, diffSig string) (*finding, bool) {
		g := got
		if got.TimedOut {
			rec.Inconcl("vm-watchdog")
			return nil, true
		}
		if m := loadedTwice(got.Log); m != "" {
			return &finding{sig: "module:loaded-twice", mode: mode, got: &g,
				what: fmt.Sprintf("[%s] the body of module %s executed more than once in one run; VM log %v", mode, m, got.Log)}, true
		}
		if k := identityLost(got.Log); k != "" {
			return &finding{sig: "module:identity-lost:" + k, mode: mode, got: &g,
				what: fmt.Sprintf("[%s] two imports of one module did not yield the same object (probe kind %s); VM log %v", mode, k, got.Log)}, true
		}
		if d := got.Diff(want, withMsg(want)); d != "" {
			return &finding{sig: diffSig, mode: mode, got: &g,
				what: fmt.Sprintf("[%s] VM differs from the reference semantics: %s\nVM : %s\nREF: %s", mode, d, got, want)}, true
		}
		return nil, false
	}

	vmA := ugo.NewVM(bc).SetRecover(true)
	if f, stop := judge("fresh", exec(vmA), "module:outcome-differs-from-ref"); stop {
		return f, nil
	}
	// a second VM made from the same Bytecode, run after the first
	sig2 := "module:state-shared-between-vms"
	if len(in.builtins) > 0 {
		sig2 = "module:builtin-shared-between-vms"
	}
	if f, stop := judge("second-vm", exec(ugo.NewVM(bc).SetRecover(true)), sig2); stop {
		return f, nil
	}
	rec.Class("second-vm")
	// second Run on the first VM after Clear(): modules load again, once
	vmA.Clear()
	if f, stop := judge("clear-rerun", exec(vmA), "module:clear-rerun-differs"); stop {
		return f, nil
	}
	rec.Class("clear-rerun")
	// encoder round trip with the same module map
	if bc2, err := encodeDecode(bc, env.mm); err != nil {
		rec.Exclude("roundtrip-encode-decode-error(C04)")
	} else {
		if f, stop := judge("roundtrip", exec(ugo.NewVM(bc2).SetRecover(true)), "module:roundtrip-differs"); stop {
			return f, nil
		}
		rec.Class("roundtrip")
		// and the original bytecode is still intact after the decoded one ran
		if len(in.builtins) > 0 {
			if f, stop := judge("after-roundtrip-run", exec(ugo.NewVM(bc).SetRecover(true)), "module:builtin-shared-between-vms"); stop {
				return f, nil
			}
		}
	}
	if len(in.builtins) > 0 {
		// a new Compile with the same ModuleMap after VMs mutated their module values
		cr2 := compileWatch(in.src, opts, env, 5*time.Second)
		if cr2.bc != nil {
			if f, stop := judge("recompile-same-modulemap", exec(ugo.NewVM(cr2.bc).SetRecover(true)), "module:builtin-shared-between-vms"); stop {
				return f, nil
			}
			rec.Class("recompile-same-modulemap")
		}
		if after := env.dumpAttrs(); after != before {
			return &finding{sig: "module:builtin-shared-between-vms", mode: "modulemap-attrs",
				what: fmt.Sprintf("the ModuleMap's own attribute maps changed after running VMs\nbefore: %s\nafter : %s", before, after)}, nil
		}
	}
	return nil, nil
}

// ------------------------------------------------------------ negative pipeline

func runNegative(rec sink, g *negGraph, cfg config) *finding {
	var cr compileResult
	for attempt := 0; ; attempt++ {
		env := newModuleEnv(g.Modules, nil, cfg.FileImporter)
		cr = compileWatch(g.Src, ugo.CompilerOptions{ModuleMap: env.mm, NoOptimize: cfg.NoOptimize}, env, 4*time.Second)
		if !cr.hang {
			break
		}
		if attempt == 1 {
			return &finding{sig: "module:compile-hang", what: "ugo.Compile did not return within 4 s (twice)", compile: "hang"}
		}
	}
	if cr.hang {
		rec.Inconcl("compile-watchdog")
		return nil
	}
	what := "an import cycle"
	notReported := fmt.Sprintf("module:cycle-not-reported:len%d", g.CycleLen)
	switch g.Kind {
	case "unknown":
		what = "an unknown module"
		notReported = "module:unknown-not-reported"
	case "scope":
		what = "a reference to a local variable of an imported module"
		notReported = "module:locals-leak"
	}
	switch {
	case cr.pan != "":
		rec.Exclude("compile-panic(C05)")
		return nil
	case cr.guard:
		return &finding{sig: "module:compile-hang", compile: "import guard tripped",
			what: fmt.Sprintf("compiling %s %v: the compiler kept importing the same modules (> %d imports) - unbounded recursion stopped by the harness guard", what, g.Names, importGuardLimit)}
	case cr.err == nil:
		// describe what happens at run time (informational)
		lg := &run.Logger{}
		got := run.Exec(cr.bc, run.Globals(ugo.Map{"g0": ugo.False, "g1": ugo.True}, lg), lg, nil, run.Opts{Recover: true, Timeout: 2 * time.Second})
		return &finding{sig: notReported, compile: "no error", got: &got,
			what: fmt.Sprintf("ugo.Compile accepted a program with %s %v; running it gave: %s", what, g.Names, got)}
	}
	text := cr.err.Error()
	named := false
	for _, n := range g.Names {
		if g.Kind == "scope" {
			if strings.Contains(text, `unresolved reference "`+n+`"`) {
				named = true
			}
		} else if g.Kind == "cycle" {
			if strings.Contains(text, "cyclic module import: "+n) || (cfg.FileImporter && strings.Contains(text, "cyclic module import: /w/"+n)) {
				named = true
			}
		} else if strings.Contains(text, n) {
			named = true
		}
	}
	if !named {
		return &finding{sig: notReported, compile: text,
			what: fmt.Sprintf("ugo.Compile failed but the error does not report %s %v: %s", what, g.Names, run.FirstLine(text))}
	}
	return nil
}

// ------------------------------------------------------------ TestCheck

func TestCheck(t *testing.T) {
	rec := ev.New("C12")
	rec.Rule = "own import-graph generator: 1-6 source modules m0..m5 (module mi imports only lower-numbered ones: eagerly at top level, under a data condition, in a loop, lazily inside functions stored in its returned map, relayed through another module's lazy import) + 0-2 builtin modules; every module logs 'load mK' through L, keeps a counter n captured by inc/get, returns a map of functions and constants (some modules have params or no return). Main: imports bound to variables, identity probes (write a field through one import path, read it through another: direct / variable / function / IIFE / view function of another module / callback invoked from a Go function on a child VM), inc through one path and get through another, two imports in one expression, imports under param/global conditions, in loops, in try/finally, in functions called 0..n times, builtin reads/writes (top-level keys, nested map/array, new keys), optional error ending. Each graph x optimizer on/off x {fresh VM, second VM from the same Bytecode, Run after vm.Clear(), encoder round trip, recompile with the same ModuleMap} x plain ModuleMap / importers.FileImporter (with path aliases of the same file). Oracle: reference interpreter outcome + direct checks on the VM log. Negative: cycles of length 1-4 and unknown names in every placement must be compile errors naming the module; a main script naming a module-level variable of an imported module must be an unresolved reference. Non-trivial = some module imported from >= 2 sites, a diamond (>= 2 importing files) or a cycle; distinct by rendered sources + inputs"
	rec.Assumptions = []string{
		"a module never returns a container it also keeps a reference to (only functions closing over its locals and constants): the VM deep-copies Copier values when storing the module, closures keep sharing their cells; that aliasing corner is excluded by construction",
		"a module's locals are reachable only through its returned value: implied by construction (module variables are only touched by the module's own functions) and by the compiler rejecting unresolved names (TestVMSourceModules)",
		"module bodies never fail (a failed load is not cached and would legitimately run again on the next import)",
		"cyclic/unknown imports under a condition use data-dependent (param/global) conditions; imports in code removed as constant-dead are not judged",
		"a second Run on the same VM without Clear() keeps the module cache (REPL design) and is not judged; concurrent VMs are C08",
		"compile panics belong to C05, encoder errors to C04; value-level operations are delegated to uGO objects (C15/C19)",
		"a runaway compile recursion is cut by a counting Importable (> 400 imports of source modules in one Compile) and reported as module:compile-hang",
	}
	defer func() { rec.Flush(!t.Failed() || rec.HasUnknown()) }()

	if err := selfTest(); err != nil {
		t.Fatal(err)
	}
	runReplays(t, rec)
	if ev.ReplayOnly() {
		return
	}

	t.Run("many-modules", func(t *testing.T) { manyModules(t, rec) })

	positive := func(name string, n int, salt int64, forceBuiltin bool) {
		ev.RapidCheck(t, name, n, salt, func(rt *rapid.T) {
			g := genPositive(rt, forceBuiltin)
			p := prog.Prepare(g.gp)
			fileImp := rapid.IntRange(0, 3).Draw(rt, "fileimporter") == 0
			in := posInput{src: p.Src, mods: p.ModSrc, args: p.Args, globals: p.Globals, builtins: g.builtins, fileImp: fileImp}
			if fileImp {
				in.src = aliasImports(rt, p.Src)
				in.mods = map[string]string{}
				names := make([]string, 0, len(p.ModSrc))
				for n := range p.ModSrc {
					names = append(names, n)
				}
				sort.Strings(names)
				for _, n := range names {
					in.mods[n] = aliasImports(rt, p.ModSrc[n])
				}
			}
			rec.Case()
			if os.Getenv("C12_DUMP") != "" {
				fmt.Printf("=== main (fileImp=%v)\n%s\n%s", fileImp, in.src, modText(in.mods))
			}
			want, rerr := runRef(p, g.builtins)
			if rerr != nil {
				if errors.Is(rerr, ref.ErrValuePanic) {
					rec.Exclude("value-op-go-panic(C15)")
				} else {
					rec.Inconcl("ref-step-budget")
				}
				return
			}
			if m := loadedTwice(want.Log); m != "" {
				rt.Fatalf("HARNESS: reference interpreter loaded %s twice\n%s", m, p.Src)
			}
			if k := identityLost(want.Log); k != "" {
				rt.Fatalf("HARNESS: reference interpreter lost identity (%s)\n%s", k, p.Src)
			}
			pc := p.Case()
			pc.Src, pc.Modules = in.src, in.mods
			for _, noopt := range []bool{false, true} {
				f, herr := runPositive(rec, in, noopt, want)
				if herr != nil {
					rt.Fatalf("%v\n--- main ---\n%s\n--- modules ---\n%v", herr, in.src, in.mods)
				}
				if f == nil {
					continue
				}
				w := want
				c := replayCase{Kind: "positive", Case: pc, Builtins: g.builtins, Expected: &w, Got: f.got,
					Config: config{NoOptimize: noopt, FileImporter: fileImp, Mode: f.mode}, Edges: edgeList(g.edges)}
				what := fmt.Sprintf("NoOptimize=%v FileImporter=%v %s\n--- main ---\n%s\n--- modules ---\n%s", noopt, fileImp, f.what, in.src, modText(in.mods))
				if rec.Violation(f.sig, what, c) {
					return
				}
				rt.Fatalf("%s", what)
			}
			// classes
			for k := range g.classes {
				rec.Class(k)
			}
			if fileImp {
				rec.Class("via-file-importer")
			}
			if len(g.builtins) > 0 {
				rec.Class("builtin-private")
			}
			if want.IsErr {
				rec.Class("outcome-error:" + want.ErrName)
			} else {
				rec.Class("outcome-value")
			}
			rec.Class(fmt.Sprintf("modules-loaded:%d", len(loads(want.Log))))
			if g.nontriv {
				rec.Class("nontrivial")
				rec.NonTriv(in.src + "\x00" + modText(in.mods) + "\x00" + fmt.Sprint(pc.Args, pc.Globals))
			}
			rec.Sample(map[string]any{"edges": edgeList(g.edges), "args": pc.Args, "globals": pc.Globals, "file_importer": fileImp, "outcome": want.String()})
		})
	}
	positive("graphs", ev.N(2500, 25000), 1, false)
	rec.Unfreeze()
	positive("builtin-private", ev.N(500, 5000), 2, true)
	rec.Unfreeze()

	negative := func(kind string, n int, salt int64) {
		ev.RapidCheck(t, kind, n, salt, func(rt *rapid.T) {
			g := genNegative(rt, kind)
			rec.Case()
			fileImp := rapid.IntRange(0, 3).Draw(rt, "fileimporter") == 0
			for _, noopt := range []bool{false, true} {
				cfg := config{NoOptimize: noopt, FileImporter: fileImp}
				f := runNegative(rec, g, cfg)
				if f == nil {
					continue
				}
				c := replayCase{Kind: g.Kind, Case: prog.Case{Src: g.Src, Modules: g.Modules}, Config: cfg, Names: g.Names,
					CycleLen: g.CycleLen, Edges: g.Edges, Compile: f.compile, Got: f.got}
				what := fmt.Sprintf("NoOptimize=%v FileImporter=%v %s\n--- main ---\n%s\n--- modules ---\n%s", noopt, fileImp, f.what, g.Src, modText(g.Modules))
				if rec.Violation(f.sig, what, c) {
					return
				}
				rt.Fatalf("%s", what)
			}
			if kind == "cycle" {
				rec.Class(fmt.Sprintf("cycle-len-%d", g.CycleLen))
			} else {
				rec.Class(kind)
			}
			for _, e := range g.Edges {
				if i := strings.LastIndex(e, "("); i >= 0 {
					rec.Class("neg-place:" + strings.TrimSuffix(e[i+1:], ")"))
				}
			}
			if fileImp {
				rec.Class("via-file-importer")
			}
			// non-trivial: a cycle, or some module imported from >= 2 sites
			sites := map[string]int{}
			multi := false
			for _, e := range g.Edges {
				if i, j := strings.Index(e, "->"), strings.LastIndex(e, "("); i >= 0 && j > i {
					sites[e[i+2:j]]++
					multi = multi || sites[e[i+2:j]] >= 2
				}
			}
			if kind == "cycle" || multi {
				rec.Class("nontrivial")
				rec.NonTriv(g.Src + "\x00" + modText(g.Modules))
			}
			rec.Sample(map[string]any{"kind": kind, "edges": g.Edges, "names": g.Names})
		})
	}
	negative("cycle", ev.N(500, 6000), 3)
	rec.Unfreeze()
	negative("unknown", ev.N(300, 3000), 4)
	rec.Unfreeze()
	negative("scope", ev.N(150, 1500), 5)
}

func modText(m map[string]string) string {
	names := make([]string, 0, len(m))
	for n := range m {
		names = append(names, n)
	}
	sort.Strings(names)
	var sb strings.Builder
	for _, n := range names {
		sb.WriteString("## " + n + "\n" + m[n] + "\n")
	}
	return sb.String()
}

// ------------------------------------------------------------ replay

type nullSink struct{ rec *ev.Rec }

func (n nullSink) Exclude(s string) { n.rec.Exclude(s) }
func (n nullSink) Inconcl(s string) { n.rec.Inconcl(s) }
func (n nullSink) Class(string)     {}

func runReplays(t *testing.T, rec *ev.Rec) {
	for _, rf := range rec.Replays() {
		var c replayCase
		if err := json.Unmarshal(rf.Case, &c); err != nil {
			fmt.Fprintln(os.Stderr, "bad replay", rf.Path, err)
			continue
		}
		rec.Case()
		var f *finding
		switch c.Kind {
		case "positive":
			if c.Expected == nil {
				t.Errorf("replay %s: no expected outcome", rf.Path)
				continue
			}
			args, globals, err := prog.CaseInputs(c.Case)
			if err != nil {
				t.Errorf("replay %s: %v", rf.Path, err)
				continue
			}
			in := posInput{src: c.Src, mods: c.Modules, args: args, globals: globals, builtins: c.Builtins, fileImp: c.Config.FileImporter}
			var herr error
			f, herr = runPositive(nullSink{rec}, in, c.Config.NoOptimize, *c.Expected)
			if herr != nil {
				t.Errorf("replay %s: %v", rf.Path, herr)
				continue
			}
		case "cycle", "unknown", "scope":
			g := &negGraph{Kind: c.Kind, Src: c.Src, Modules: c.Modules, Names: c.Names, CycleLen: c.CycleLen, Edges: c.Edges}
			f = runNegative(nullSink{rec}, g, c.Config)
		default:
			t.Errorf("replay %s: unknown kind %q", rf.Path, c.Kind)
			continue
		}
		if f == nil {
			rec.Class("replay-pass")
			continue
		}
		c.Got = f.got
		c.Compile = f.compile
		c.Config.Mode = f.mode
		sig := f.sig
		what := fmt.Sprintf("replay %s: %s\n--- main ---\n%s\n--- modules ---\n%s", rf.Path, f.what, c.Src, modText(c.Modules))
		if !rec.Violation(sig, what, c) {
			t.Errorf("%s", what)
		}
	}
}

// TestLogHelpers pins the log decoding helpers to canon's rendering.
func TestLogHelpers(t *testing.T) {
	if err := selfTest(); err != nil {
		t.Fatal(err)
	}
}

func selfTest() error {
	lg := &run.Logger{}
	f := lg.Func()
	for _, s := range []string{"load m1", "id:loop:ok", "load m2", "load m1", "id:via-module:lost"} {
		_, _ = f.Value(ugo.String(s))
	}
	if got := loads(lg.Log); fmt.Sprint(got) != "[m1 m2 m1]" {
		return fmt.Errorf("HARNESS: loads: %v from %v", got, lg.Log)
	}
	if loadedTwice(lg.Log) != "m1" || identityLost(lg.Log) != "via-module" {
		return fmt.Errorf("HARNESS: log helpers: %q %q", loadedTwice(lg.Log), identityLost(lg.Log))
	}
	return nil
}
