package c12

import (
	"fmt"
	"strings"
	"testing"

	"github.com/ozanh/ugo"
	"github.com/ozanh/ugo/encoder"

	"bytes"

	"verif/internal/canon"
	"verif/internal/ev"
	"verif/internal/run"
)

// manyModules: programs at and beyond the operand-width boundaries of the module index
// (255/256/257/300 modules in one compile): every module is loaded once and every import,
// first or repeated, at top level or inside a function, yields the same object.
// The expected values are known by construction.
func manyModules(t *testing.T, rec *ev.Rec) {
	reported := map[string]bool{}
	for _, n := range []int{3, 255, 256, 257, 300} {
		for _, variant := range []string{"top-level", "in-function", "builtin-mixed"} {
			mm := ugo.NewModuleMap()
			for i := 0; i < n; i++ {
				mm.AddSourceModule(fmt.Sprintf("m%d", i), []byte(fmt.Sprintf("global L\nL(\"load m%d\")\nn := %d\nreturn {id: %d, inc: func() { n++; return n }}", i, i*10, i)))
			}
			if variant == "builtin-mixed" {
				for i := 0; i < n; i += 7 {
					mm.AddBuiltinModule(fmt.Sprintf("b%d", i), map[string]ugo.Object{"id": ugo.Int(-i)})
				}
			}
			var sb strings.Builder
			sb.WriteString("global L\nout := []\n")
			imp := func(i int) string { return fmt.Sprintf("import(\"m%d\")", i) }
			body := func(ind string) {
				for i := 0; i < n; i++ {
					fmt.Fprintf(&sb, "%sa%d := %s\n", ind, i, imp(i))
					if variant == "builtin-mixed" && i%7 == 0 {
						fmt.Fprintf(&sb, "%sout = append(out, import(\"b%d\").id)\n", ind, i)
					}
				}
				for i := 0; i < n; i++ {
					fmt.Fprintf(&sb, "%sa%d.mark = %d\n", ind, i, 1000+i)
				}
				// read back through a second import, bump the counter through a third
				for i := 0; i < n; i++ {
					fmt.Fprintf(&sb, "%sout = append(out, %s.mark, %s.id, %s.inc(), a%d.inc())\n", ind, imp(i), imp(i), imp(i), i)
				}
			}
			if variant == "in-function" {
				sb.WriteString("f := func() {\n")
				// too many locals for one function: use a map instead of locals inside the function
				sb.WriteString("  var t\n")
				for i := 0; i < n; i++ {
					fmt.Fprintf(&sb, "  t = %s\n  t.mark = %d\n", imp(i), 1000+i)
				}
				for i := 0; i < n; i++ {
					fmt.Fprintf(&sb, "  out = append(out, %s.mark, %s.id, %s.inc(), %s.inc())\n", imp(i), imp(i), imp(i), imp(i))
				}
				sb.WriteString("}\nf()\n")
			} else if n <= 250 {
				body("")
			} else {
				// more than 250 locals do not fit: no local per import
				sb.WriteString("var t\n")
				for i := 0; i < n; i++ {
					if variant == "builtin-mixed" && i%7 == 0 {
						fmt.Fprintf(&sb, "out = append(out, import(\"b%d\").id)\n", i)
					}
					fmt.Fprintf(&sb, "t = %s\nt.mark = %d\n", imp(i), 1000+i)
				}
				for i := 0; i < n; i++ {
					fmt.Fprintf(&sb, "out = append(out, %s.mark, %s.id, %s.inc(), %s.inc())\n", imp(i), imp(i), imp(i), imp(i))
				}
			}
			sb.WriteString("return out\n")
			src := sb.String()
			var want []string
			if variant == "builtin-mixed" {
				for i := 0; i < n; i += 7 {
					want = append(want, fmt.Sprintf("i%d", -i))
				}
			}
			for i := 0; i < n; i++ {
				want = append(want, fmt.Sprintf("i%d", 1000+i), fmt.Sprintf("i%d", i), fmt.Sprintf("i%d", i*10+1), fmt.Sprintf("i%d", i*10+2))
			}
			wantDump := "[" + strings.Join(want, ",") + "]"
			for _, cfg := range []string{"opt", "noopt", "roundtrip"} {
				rec.Case()
				name := fmt.Sprintf("many-modules:%d:%s:%s", n, variant, cfg)
				bc, err, pan := run.Compile(src, ugo.CompilerOptions{ModuleMap: mm, NoOptimize: cfg == "noopt"})
				if err != nil || pan != "" {
					t.Fatalf("HARNESS: %s does not compile: %v %s", name, err, pan)
				}
				if cfg == "roundtrip" {
					var buf bytes.Buffer
					if err := encoder.EncodeBytecodeTo(bc, &buf); err != nil {
						rec.Exclude("encode-error(C04)")
						continue
					}
					dec, err := encoder.DecodeBytecodeFrom(&buf, mm)
					if err != nil {
						rec.Exclude("decode-error(C04)")
						continue
					}
					bc = dec
				}
				lg := &run.Logger{}
				out := run.Exec(bc, run.Globals(nil, lg), lg, nil, run.Opts{Recover: true})
				loads := map[string]int{}
				for _, l := range out.Log {
					loads[l]++
				}
				sig, what := "", ""
				for l, c := range loads {
					if c > 1 {
						sig, what = "module:loaded-twice:many-modules", fmt.Sprintf("%s: %s logged %d times", name, l, c)
						break
					}
				}
				if sig == "" && (out.IsErr || out.Panic != "" || out.Value != wantDump) {
					got := out.String()
					if len(got) > 400 {
						got = got[:400] + "..."
					}
					sig, what = "module:identity-lost:many-modules", fmt.Sprintf("%s: every import of a module must yield the same object (mark written through one import, read through another; counters shared): got %s", name, got)
					if !out.IsErr && out.Panic == "" {
						// first differing element
						gv := strings.Split(strings.Trim(out.Value, "[]"), ",")
						for i := range want {
							if i >= len(gv) || gv[i] != want[i] {
								what += fmt.Sprintf("\nfirst difference at element %d (module m%d): want %s", i, i/4, want[i])
								break
							}
						}
					}
				}
				if sig != "" {
					if !rec.Violation(sig, what, map[string]any{"modules": n, "variant": variant, "config": cfg}) && !reported[sig] {
						reported[sig] = true
						t.Errorf("%s", what)
					}
					continue
				}
				rec.NonTriv(name)
				rec.Class("many-modules")
			}
		}
	}
	_ = canon.Value
}
