// Import-graph generator of the C12 check. It builds main scripts and source
// modules as package gen AST (so that the reference interpreter can execute
// exactly what is rendered for the VM).
package c12

import (
	"fmt"
	"regexp"
	"sort"
	"strings"

	"github.com/ozanh/ugo"
	"pgregory.net/rapid"

	"verif/internal/gen"
)

// ------------------------------------------------------------ AST helpers

func id(n string) gen.Expr    { return &gen.Ident{Name: n} }
func str(s string) gen.Expr   { return &gen.Lit{Kind: gen.LString, S: s} }
func num(i int64) gen.Expr    { return &gen.Lit{Kind: gen.LInt, I: i} }
func boolean(b bool) gen.Expr { return &gen.Lit{Kind: gen.LBool, B: b} }
func undef() gen.Expr         { return &gen.Lit{Kind: gen.LUndefined} }
func call(f gen.Expr, args ...gen.Expr) gen.Expr {
	return &gen.Call{Fn: f, Args: args}
}
func sel(x gen.Expr, n string) gen.Expr { return &gen.Selector{X: x, Name: n} }
func bin(op string, l, r gen.Expr) gen.Expr {
	return &gen.Binary{Op: op, L: l, R: r}
}
func not(x gen.Expr) gen.Expr { return &gen.Unary{Op: "!", X: x} }
func fn(params []string, body ...gen.Stmt) gen.Expr {
	return &gen.FuncLit{Params: params, Body: body}
}
func def(n string, x gen.Expr) gen.Stmt { return &gen.Define{Names: []string{n}, X: x} }
func set(t, x gen.Expr) gen.Stmt {
	return &gen.Assign{Targets: []gen.Expr{t}, Op: "=", X: x}
}
func ret(x gen.Expr) gen.Stmt  { return &gen.Return{Xs: []gen.Expr{x}} }
func expr(x gen.Expr) gen.Stmt { return &gen.ExprStmt{X: x} }
func push(x gen.Expr) gen.Stmt { return set(id("out"), call(id("append"), id("out"), x)) }
func logS(x gen.Expr) gen.Stmt { return expr(call(id("L"), x)) }
func inc(n string) gen.Stmt    { return &gen.IncDec{Target: id(n), Inc: true} }
func ifs(c gen.Expr, then []gen.Stmt, els []gen.Stmt) gen.Stmt {
	return &gen.If{Cond: c, Then: then, Else: els, HasElse: els != nil}
}
func loop(v string, k gen.Expr, body []gen.Stmt) gen.Stmt {
	return &gen.For{Init: def(v, num(0)), Cond: bin("<", id(v), k), Post: inc(v), Body: body}
}

// ------------------------------------------------------------ builtin modules

// builtinAttrs returns the (fixed, by name) attribute map of a builtin module.
// Every call builds fresh objects.
func builtinAttrs(name string) map[string]ugo.Object {
	base := int64(10)
	if name != "b0" {
		base = 20
	}
	return map[string]ugo.Object{
		"k":   ugo.Int(base),
		"s":   ugo.String(name + "-s"),
		"tbl": ugo.Map{"x": ugo.Int(base + 1), "y": ugo.Array{ugo.Int(base + 4)}},
		"arr": ugo.Array{ugo.Int(base + 2), ugo.Int(base + 3)},
		"fn": &ugo.Function{Name: "fn", Value: func(args ...ugo.Object) (ugo.Object, error) {
			return ugo.Int(base*100 + int64(len(args))), nil
		}},
		// call(f, args...) calls f back from Go (compiled functions run on a child VM of the caller)
		"call": &ugo.Function{Name: "call", ValueEx: func(c ugo.Call) (ugo.Object, error) {
			if c.Len() < 1 {
				return ugo.Undefined, ugo.ErrWrongNumArguments.NewError("want>=1 got=0")
			}
			rest := make([]ugo.Object, 0, c.Len())
			for i := 1; i < c.Len(); i++ {
				rest = append(rest, c.Get(i))
			}
			inv := ugo.NewInvoker(c.VM(), c.Get(0))
			inv.Acquire()
			defer inv.Release()
			return inv.Invoke(rest...)
		}},
	}
}

// ------------------------------------------------------------ graph model

type edge struct {
	From string `json:"from"`
	To   string `json:"to"`
	Kind string `json:"kind"` // top | cond | loop | fn
}

type modSpec struct {
	name    string
	noRet   bool
	params  int
	views   []string    // lazy view_<dep>
	dviews  []string    // eager dep_<dep>
	incdeps []string    // incdep_<dep>
	sumdeps []string    // sumdep_<dep>(k)
	relays  [][2]string // relay_<u>_<t>
	bdeps   []string    // bget_<b>/bset_<b>
}

type boundVar struct{ name, mod string }

type mainFn struct {
	name, kind, mod string
}

type builder struct {
	rt       *rapid.T
	mods     []*modSpec
	byName   map[string]*modSpec
	builtins []string
	edges    []edge
	classes  map[string]bool
	file     string
	ctx      []string // enclosing contexts of the statement being generated
	uniq     int
	vars     []boundVar
	fns      []mainFn
	bWeight  int
	modules  map[string][]gen.Stmt
}

func (b *builder) fresh(prefix string) string {
	b.uniq++
	return fmt.Sprintf("%s%d", prefix, b.uniq)
}

func (b *builder) in(ctx string, f func()) {
	b.ctx = append(b.ctx, ctx)
	f()
	b.ctx = b.ctx[:len(b.ctx)-1]
}

func (b *builder) innermost() string {
	if len(b.ctx) == 0 {
		return "top"
	}
	return b.ctx[len(b.ctx)-1]
}

// imp creates an import expression and records the edge and its contexts.
func (b *builder) imp(name string) gen.Expr {
	b.edges = append(b.edges, edge{From: b.file, To: name, Kind: b.innermost()})
	for _, c := range b.ctx {
		switch c {
		case "cond":
			b.classes["conditional"] = true
		case "loop":
			b.classes["in-loop"] = true
		case "fn":
			b.classes["in-function"] = true
		case "callback":
			b.classes["in-callback"] = true
		case "try":
			b.classes["in-try"] = true
		}
	}
	if strings.HasPrefix(name, "b") {
		b.classes["builtin-import"] = true
	}
	return &gen.Import{Name: name}
}

// exprCond wraps an import of t in expression-level control flow (short-circuit operator or an arm of ?:)
// under condition c: whether the import executes is decided while the expression is evaluated.
func (b *builder) exprCond(t string, c gen.Expr) gen.Expr {
	var im gen.Expr
	b.in("cond", func() { im = b.imp(t) })
	b.classes["expr-conditional"] = true
	switch rapid.IntRange(0, 4).Draw(b.rt, "exprcond") {
	case 0:
		return bin("&&", c, im)
	case 1:
		return bin("||", c, im)
	case 2:
		return &gen.Cond{C: c, A: im, B: num(0)}
	case 3:
		return &gen.Cond{C: c, A: num(0), B: im}
	}
	return &gen.ArrayLit{Elems: []gen.Expr{bin("&&", c, im), num(1)}}
}

func (b *builder) pick(label string, xs []string) string {
	return xs[rapid.IntRange(0, len(xs)-1).Draw(b.rt, label)]
}

func (b *builder) chance(label string, pct int) bool {
	return rapid.IntRange(0, 99).Draw(b.rt, label) < pct
}

// modCond is a data-dependent condition usable inside modules (globals only).
func (b *builder) modCond() gen.Expr {
	switch rapid.IntRange(0, 3).Draw(b.rt, "mcond") {
	case 0:
		return id("g0")
	case 1:
		return id("g1")
	case 2:
		return not(id("g0"))
	}
	return bin("&&", id("g0"), id("g1"))
}

func (b *builder) mainCond() gen.Expr {
	switch rapid.IntRange(0, 8).Draw(b.rt, "cond") {
	case 0:
		return id("p0")
	case 1:
		return not(id("p0"))
	case 2:
		return id("p1")
	case 3:
		return bin(">", id("p2"), num(1))
	case 4:
		return id("g0")
	case 5:
		return not(id("g1"))
	case 6:
		return bin("&&", id("p0"), id("g1"))
	case 7:
		return boolean(true)
	}
	return boolean(false)
}

// rich reports whether module name returns the standard map.
func (b *builder) rich(name string) bool {
	m := b.byName[name]
	return m != nil && !m.noRet
}

// ------------------------------------------------------------ source modules

func (b *builder) buildModule(i int) {
	m := &modSpec{name: fmt.Sprintf("m%d", i)}
	b.file = m.name
	b.ctx = nil
	m.noRet = b.chance("noret", 10)
	m.params = 0
	if b.chance("modparam", 25) {
		m.params = rapid.IntRange(1, 3).Draw(b.rt, "nparams")
	}
	var body []gen.Stmt
	switch m.params {
	case 1:
		body = append(body, &gen.ParamDecl{Names: []string{"q0"}})
	case 2:
		body = append(body, &gen.ParamDecl{Names: []string{"q0", "q1"}})
	case 3:
		body = append(body, &gen.ParamDecl{Names: []string{"q0", "qs"}, Variadic: true})
	}
	body = append(body, &gen.GlobalDecl{Names: []string{"L", "g0", "g1"}})
	body = append(body, logS(str("load "+m.name)))
	body = append(body, def("n", num(0)))

	keys := []string{"name", "k"}
	vals := []gen.Expr{str(m.name), num(int64(100 + i))}
	add := func(k string, v gen.Expr) { keys = append(keys, k); vals = append(vals, v) }
	if m.params > 0 {
		add("q", id("q0"))
	}
	if m.params == 3 {
		add("nq", call(id("len"), id("qs")))
	}
	add("inc", fn(nil, inc("n"), ret(id("n"))))
	add("get", fn(nil, ret(id("n"))))

	// dependencies on lower-numbered source modules
	var lower []string
	for j := 0; j < i; j++ {
		lower = append(lower, fmt.Sprintf("m%d", j))
	}
	ndeps := 0
	if len(lower) > 0 {
		ndeps = rapid.IntRange(0, min(len(lower), 3)).Draw(b.rt, "ndeps")
	}
	seen := map[string]bool{}
	for d := 0; d < ndeps; d++ {
		dep := b.pick("dep", lower)
		rich := b.rich(dep)
		role := rapid.IntRange(0, 7).Draw(b.rt, "role")
		if seen[dep+fmt.Sprint(role)] {
			continue
		}
		seen[dep+fmt.Sprint(role)] = true
		switch role {
		case 0: // eager, unconditional, kept in a module variable
			v := "d_" + dep
			if !seen["var"+dep] {
				seen["var"+dep] = true
				body = append(body, def(v, b.imp(dep)))
				if rich && b.chance("incatload", 50) {
					body = append(body, expr(call(sel(id(v), "inc"))))
				}
				if !m.noRet {
					m.dviews = append(m.dviews, dep)
					add("dep_"+dep, fn(nil, ret(id(v))))
				}
			}
		case 1: // eager under a data condition
			if b.chance("exprcond", 35) {
				t := b.fresh("t")
				body = append(body, def(t, b.exprCond(dep, b.modCond())), logS(call(id("typeName"), id(t))))
				break
			}
			var blk []gen.Stmt
			c := b.modCond()
			b.in("cond", func() {
				t := b.fresh("t")
				blk = append(blk, def(t, b.imp(dep)))
				if rich {
					blk = append(blk, expr(call(sel(id(t), "inc"))))
				}
			})
			body = append(body, ifs(c, blk, nil))
		case 2: // eager inside a loop
			var blk []gen.Stmt
			b.in("loop", func() {
				t := b.fresh("t")
				blk = append(blk, def(t, b.imp(dep)))
				if rich {
					blk = append(blk, expr(call(sel(id(t), "inc"))))
				}
			})
			body = append(body, loop(b.fresh("i"), num(int64(rapid.IntRange(0, 2).Draw(b.rt, "mloop"))), blk))
		case 3, 4: // lazy view
			if !m.noRet && !seen["view"+dep] {
				seen["view"+dep] = true
				b.in("fn", func() {
					m.views = append(m.views, dep)
					add("view_"+dep, fn(nil, ret(b.imp(dep))))
				})
			}
		case 5: // lazy inc through
			if !m.noRet && rich && !seen["incdep"+dep] {
				seen["incdep"+dep] = true
				b.in("fn", func() {
					m.incdeps = append(m.incdeps, dep)
					add("incdep_"+dep, fn(nil, ret(call(sel(b.imp(dep), "inc")))))
				})
			}
		case 6: // lazy, in a loop in a function
			if !m.noRet && rich && !seen["sumdep"+dep] {
				seen["sumdep"+dep] = true
				b.in("fn", func() {
					b.in("loop", func() {
						m.sumdeps = append(m.sumdeps, dep)
						add("sumdep_"+dep, fn([]string{"c"},
							def("s", num(0)),
							loop("i", id("c"), []gen.Stmt{
								&gen.Assign{Targets: []gen.Expr{id("s")}, Op: "+=", X: call(sel(b.imp(dep), "inc"))},
							}),
							ret(id("s"))))
					})
				})
			}
		case 7: // relay through dep's own lazy import
			dm := b.byName[dep]
			if !m.noRet && dm != nil && len(dm.incdeps) > 0 {
				t := b.pick("relayt", dm.incdeps)
				if !seen["relay"+dep+t] {
					seen["relay"+dep+t] = true
					b.in("fn", func() {
						m.relays = append(m.relays, [2]string{dep, t})
						add("relay_"+dep+"_"+t, fn(nil, ret(call(sel(b.imp(dep), "incdep_"+t)))))
					})
				}
			}
		}
	}
	// builtin dependencies
	if len(b.builtins) > 0 && !m.noRet && b.chance("modbuiltin", 30) {
		bm := b.pick("mb", b.builtins)
		m.bdeps = append(m.bdeps, bm)
		b.in("fn", func() {
			add("bget_"+bm, fn(nil, ret(sel(b.imp(bm), "k"))))
			add("bset_"+bm, fn([]string{"v"}, def("t", b.imp(bm)), set(sel(id("t"), "k"), id("v")), ret(id("v"))))
		})
	}
	if !m.noRet {
		body = append(body, ret(&gen.MapLit{Keys: keys, Elems: vals}))
	}
	b.mods = append(b.mods, m)
	b.byName[m.name] = m
	b.modules[m.name] = body
}

// ------------------------------------------------------------ main script

var kindRank = map[string]int{"same-scope": 0, "var": 1, "conditional": 2, "loop": 3, "function": 4, "via-module": 5, "callback": 6}

func exotic(ks ...string) string {
	best := "same-scope"
	for _, k := range ks {
		if kindRank[k] > kindRank[best] {
			best = k
		}
	}
	return best
}

func (b *builder) ctxKind() string {
	k := "same-scope"
	for _, c := range b.ctx {
		switch c {
		case "cond":
			k = exotic(k, "conditional")
		case "loop":
			k = exotic(k, "loop")
		case "fn":
			k = exotic(k, "function")
		case "callback":
			k = exotic(k, "callback")
		}
	}
	return k
}

// path returns an expression evaluating to the object of module t.
func (b *builder) path(t string, depth int) (gen.Expr, string) {
	type opt struct {
		kind string
		mk   func() gen.Expr
	}
	opts := []opt{
		{"same-scope", func() gen.Expr { return b.imp(t) }},
		{"same-scope", func() gen.Expr { return b.imp(t) }},
		{"function", func() gen.Expr {
			var e gen.Expr
			b.in("fn", func() { e = call(fn(nil, ret(b.imp(t)))) })
			return e
		}},
	}
	if b.file == "main" {
		for _, v := range b.vars {
			v := v
			if v.mod == t {
				opts = append(opts, opt{"var", func() gen.Expr { return id(v.name) }})
			}
		}
		for _, f := range b.fns {
			f := f
			if f.mod == t && (f.kind == "retmod" || f.kind == "nested") {
				opts = append(opts, opt{"function", func() gen.Expr { return call(id(f.name)) }})
			}
		}
	}
	if len(b.builtins) > 0 {
		opts = append(opts, opt{"callback", func() gen.Expr {
			bm := b.pick("cbmod", b.builtins)
			var e gen.Expr
			bi := b.imp(bm)
			b.in("callback", func() { e = call(sel(bi, "call"), fn(nil, ret(b.imp(t)))) })
			return e
		}})
	}
	if depth == 0 {
		for _, u := range b.mods {
			u := u
			if u.noRet {
				continue
			}
			for _, d := range u.views {
				if d == t {
					o := opt{"via-module", func() gen.Expr {
						pu, _ := b.path(u.name, 1)
						return call(sel(pu, "view_"+t))
					}}
					opts = append(opts, o, o)
				}
			}
			for _, d := range u.dviews {
				if d == t {
					opts = append(opts, opt{"via-module", func() gen.Expr {
						pu, _ := b.path(u.name, 1)
						return call(sel(pu, "dep_"+t))
					}})
				}
			}
		}
	}
	o := opts[rapid.IntRange(0, len(opts)-1).Draw(b.rt, "path")]
	return o.mk(), o.kind
}

func (b *builder) richMods() []string {
	var out []string
	for _, m := range b.mods {
		if !m.noRet {
			out = append(out, m.name)
		}
	}
	return out
}

func (b *builder) allMods() []string {
	var out []string
	for _, m := range b.mods {
		out = append(out, m.name)
	}
	return out
}

func (b *builder) declareFns() []gen.Stmt {
	var out []gen.Stmt
	rm := b.richMods()
	if len(rm) == 0 {
		return nil
	}
	n := rapid.IntRange(0, 3).Draw(b.rt, "nfns")
	for i := 0; i < n; i++ {
		t := b.pick("fnmod", rm)
		kind := b.pick("fnkind", []string{"retmod", "incget", "nested", "condf", "loopf"})
		name := fmt.Sprintf("f%d", i)
		var lit gen.Expr
		b.in("fn", func() {
			switch kind {
			case "retmod":
				lit = fn(nil, ret(b.imp(t)))
			case "incget":
				lit = fn(nil, def("m", b.imp(t)), expr(call(sel(id("m"), "inc"))), ret(call(sel(id("m"), "get"))))
			case "nested":
				b.in("fn", func() { lit = fn(nil, ret(call(fn(nil, ret(b.imp(t)))))) })
			case "condf":
				b.in("cond", func() {
					lit = fn([]string{"c"}, ifs(id("c"), []gen.Stmt{ret(call(sel(b.imp(t), "inc")))}, nil), ret(num(-1)))
				})
			case "loopf":
				b.in("loop", func() {
					lit = fn([]string{"c"}, def("s", num(0)),
						loop("i", id("c"), []gen.Stmt{
							&gen.Assign{Targets: []gen.Expr{id("s")}, Op: "+=", X: call(sel(b.imp(t), "inc"))},
						}), ret(id("s")))
				})
			}
		})
		out = append(out, def(name, lit))
		b.fns = append(b.fns, mainFn{name: name, kind: kind, mod: t})
	}
	return out
}

func (b *builder) loopCount() gen.Expr {
	if b.chance("loopparam", 30) {
		return id("p2")
	}
	return num(int64(rapid.IntRange(0, 3).Draw(b.rt, "loopk")))
}

func (b *builder) actions(depth, n int) []gen.Stmt {
	var out []gen.Stmt
	for i := 0; i < n; i++ {
		out = append(out, b.action(depth)...)
	}
	return out
}

func (b *builder) action(depth int) []gen.Stmt {
	rm := b.richMods()
	type act struct {
		w  int
		mk func() []gen.Stmt
	}
	var acts []act
	top := len(b.ctx) == 0
	if len(rm) > 0 {
		acts = append(acts,
			act{3, func() []gen.Stmt { // bind / local variable
				t := b.pick("t", rm)
				p, _ := b.path(t, 0)
				v := b.fresh("v")
				st := []gen.Stmt{def(v, p)}
				if top {
					b.vars = append(b.vars, boundVar{v, t})
					if b.chance("bindinc", 40) {
						st = append(st, push(call(sel(id(v), "inc"))))
					}
				} else {
					st = append(st, push(call(sel(id(v), "inc"))), push(call(sel(id(v), "get"))))
				}
				return st
			}},
			act{5, func() []gen.Stmt { // identity probe
				t := b.pick("t", rm)
				pa, ka := b.path(t, 0)
				pb, kb := b.path(t, 0)
				kind := exotic(ka, kb, b.ctxKind())
				f := b.fresh("x")
				v := num(int64(rapid.IntRange(1, 99).Draw(b.rt, "idv")))
				b.classes["id:"+kind] = true
				tmp := b.fresh("w")
				return []gen.Stmt{
					def(tmp, pa), // an assignment target must start with an identifier
					set(sel(id(tmp), f), v),
					logS(&gen.Cond{C: bin("==", sel(pb, f), v), A: str("id:" + kind + ":ok"), B: str("id:" + kind + ":lost")}),
				}
			}},
			act{4, func() []gen.Stmt {
				p, _ := b.path(b.pick("t", rm), 0)
				return []gen.Stmt{push(call(sel(p, "inc")))}
			}},
			act{4, func() []gen.Stmt {
				p, _ := b.path(b.pick("t", rm), 0)
				return []gen.Stmt{push(call(sel(p, "get")))}
			}},
			act{1, func() []gen.Stmt {
				t := b.pick("t", rm)
				p, _ := b.path(t, 0)
				k := "k"
				if b.byName[t].params == 3 && b.chance("nq", 50) {
					k = "nq" // number of values the module's variadic parameter received
				} else if b.byName[t].params > 0 && b.chance("q", 50) {
					k = "q"
				} else if b.chance("name", 30) {
					k = "name"
				}
				return []gen.Stmt{push(sel(p, k))}
			}},
		)
		acts = append(acts,
			act{2, func() []gen.Stmt { // two imports inside one expression
				pa, _ := b.path(b.pick("t", rm), 0)
				pb, _ := b.path(b.pick("t", rm), 0)
				if b.chance("pairarr", 50) {
					return []gen.Stmt{push(&gen.ArrayLit{Elems: []gen.Expr{call(sel(pa, "inc")), sel(pb, "k"), call(sel(pb, "get"))}})}
				}
				return []gen.Stmt{push(bin("+", call(sel(pa, "inc")), bin("*", num(10), call(sel(pb, "inc")))))}
			}},
		)
		if len(b.builtins) > 0 {
			acts = append(acts, act{2, func() []gen.Stmt { // import inside a callback invoked from Go
				bi := b.imp(b.pick("cbmod", b.builtins))
				var e gen.Expr
				b.in("callback", func() {
					p, _ := b.path(b.pick("t", rm), 0)
					e = call(sel(bi, "call"), fn([]string{"d"}, ret(bin("+", call(sel(p, "inc")), id("d")))), num(100))
				})
				return []gen.Stmt{push(e)}
			}})
		}
		// functions exposed by modules
		type mf struct {
			u, f string
			arg  bool
		}
		var mfs []mf
		for _, u := range b.mods {
			for _, d := range u.incdeps {
				mfs = append(mfs, mf{u.name, "incdep_" + d, false})
			}
			for _, d := range u.sumdeps {
				mfs = append(mfs, mf{u.name, "sumdep_" + d, true})
			}
			for _, r := range u.relays {
				mfs = append(mfs, mf{u.name, "relay_" + r[0] + "_" + r[1], false})
			}
			for _, d := range u.bdeps {
				mfs = append(mfs, mf{u.name, "bget_" + d, false}, mf{u.name, "bset_" + d, true})
			}
		}
		if len(mfs) > 0 {
			acts = append(acts, act{4, func() []gen.Stmt {
				m := mfs[rapid.IntRange(0, len(mfs)-1).Draw(b.rt, "mf")]
				p, _ := b.path(m.u, 0)
				if m.arg {
					return []gen.Stmt{push(call(sel(p, m.f), num(int64(rapid.IntRange(0, 3).Draw(b.rt, "mfarg")))))}
				}
				return []gen.Stmt{push(call(sel(p, m.f)))}
			}})
		}
		if len(b.fns) > 0 && b.file == "main" {
			acts = append(acts, act{4, func() []gen.Stmt {
				f := b.fns[rapid.IntRange(0, len(b.fns)-1).Draw(b.rt, "callfn")]
				switch f.kind {
				case "retmod", "nested":
					return []gen.Stmt{push(call(sel(call(id(f.name)), "inc")))}
				case "incget":
					return []gen.Stmt{push(call(id(f.name)))}
				case "condf":
					return []gen.Stmt{push(call(id(f.name), b.mainCond()))}
				}
				return []gen.Stmt{push(call(id(f.name), b.loopCount()))}
			}})
		}
	}
	if am := b.allMods(); len(am) > 0 {
		acts = append(acts, act{3, func() []gen.Stmt { // import decided by expression-level control flow
			w := b.fresh("w")
			return []gen.Stmt{def(w, b.exprCond(b.pick("t", am), b.mainCond())), push(call(id("typeName"), id(w)))}
		}})
	}
	// modules without return value
	var noret []string
	for _, m := range b.mods {
		if m.noRet {
			noret = append(noret, m.name)
		}
	}
	if len(noret) > 0 {
		acts = append(acts, act{2, func() []gen.Stmt {
			return []gen.Stmt{push(bin("==", b.imp(b.pick("nr", noret)), undef()))}
		}})
	}
	if len(b.builtins) > 0 {
		acts = append(acts, act{b.bWeight, func() []gen.Stmt {
			bm := b.pick("bm", b.builtins)
			v := num(int64(rapid.IntRange(1, 9).Draw(b.rt, "bv")))
			w := b.fresh("w")
			switch rapid.IntRange(0, 8).Draw(b.rt, "bop") {
			case 0:
				return []gen.Stmt{push(sel(b.imp(bm), "k"))}
			case 1:
				return []gen.Stmt{def(w, b.imp(bm)), set(sel(id(w), "k"), v)}
			case 2:
				return []gen.Stmt{push(sel(sel(b.imp(bm), "tbl"), "x"))}
			case 3:
				return []gen.Stmt{def(w, b.imp(bm)), set(sel(sel(id(w), "tbl"), "x"), v)}
			case 4:
				return []gen.Stmt{push(&gen.Index{X: sel(b.imp(bm), "arr"), I: num(0)})}
			case 5:
				return []gen.Stmt{def(w, b.imp(bm)), set(&gen.Index{X: sel(id(w), "arr"), I: num(0)}, v)}
			case 6:
				return []gen.Stmt{push(call(sel(b.imp(bm), "fn"), v))}
			case 7:
				return []gen.Stmt{def(w, b.imp(bm)), set(sel(id(w), "fresh"), v), push(sel(b.imp(bm), "fresh"))}
			}
			return []gen.Stmt{push(sel(b.imp(bm), "__module_name__")), push(&gen.Index{X: sel(sel(b.imp(bm), "tbl"), "y"), I: num(0)}),
				def(w, b.imp(bm)), set(&gen.Index{X: sel(sel(id(w), "tbl"), "y"), I: num(0)}, v)}
		}})
	}
	if depth < 2 {
		acts = append(acts,
			act{4, func() []gen.Stmt {
				c := b.mainCond()
				var then, els []gen.Stmt
				b.in("cond", func() {
					then = b.actions(depth+1, rapid.IntRange(1, 3).Draw(b.rt, "nthen"))
					if b.chance("else", 40) {
						els = b.actions(depth+1, rapid.IntRange(1, 2).Draw(b.rt, "nelse"))
					}
				})
				return []gen.Stmt{ifs(c, then, els)}
			}},
			act{2, func() []gen.Stmt {
				var body, fin []gen.Stmt
				b.in("try", func() {
					body = b.actions(depth+1, rapid.IntRange(1, 2).Draw(b.rt, "ntry"))
					fin = b.actions(depth+1, 1)
				})
				return []gen.Stmt{&gen.Try{Body: body, HasCatch: b.chance("catch", 50), CatchIdent: "e", Catch: []gen.Stmt{push(num(-1))}, HasFinally: true, Finally: fin}}
			}},
			act{3, func() []gen.Stmt {
				k := b.loopCount()
				var body []gen.Stmt
				b.in("loop", func() { body = b.actions(depth+1, rapid.IntRange(1, 2).Draw(b.rt, "nloop")) })
				return []gen.Stmt{loop(b.fresh("i"), k, body)}
			}},
		)
	}
	if len(acts) == 0 {
		return []gen.Stmt{push(num(0))}
	}
	total := 0
	for _, a := range acts {
		total += a.w
	}
	r := rapid.IntRange(0, total-1).Draw(b.rt, "act")
	for _, a := range acts {
		if r < a.w {
			return a.mk()
		}
		r -= a.w
	}
	return nil
}

// posGraph is one generated positive case.
type posGraph struct {
	gp       *gen.GenProgram
	builtins []string
	edges    []edge
	classes  map[string]bool
	nontriv  bool
}

func genPositive(rt *rapid.T, forceBuiltin bool) *posGraph {
	b := &builder{rt: rt, byName: map[string]*modSpec{}, classes: map[string]bool{}, modules: map[string][]gen.Stmt{}, bWeight: 3}
	nb := rapid.IntRange(0, 2).Draw(rt, "nbuiltin")
	if forceBuiltin {
		nb = max(nb, 1)
		b.bWeight = 14
	}
	for i := 0; i < nb; i++ {
		b.builtins = append(b.builtins, fmt.Sprintf("b%d", i))
	}
	nm := rapid.IntRange(1, 6).Draw(rt, "nmods")
	for i := 0; i < nm; i++ {
		b.buildModule(i)
	}
	b.file = "main"
	b.ctx = nil
	body := []gen.Stmt{
		&gen.ParamDecl{Names: []string{"p0", "p1", "p2"}},
		&gen.GlobalDecl{Names: []string{"L", "g0", "g1"}},
		def("out", &gen.ArrayLit{}),
	}
	body = append(body, b.declareFns()...)
	body = append(body, b.actions(0, rapid.IntRange(3, 10).Draw(rt, "nactions"))...)
	switch rapid.IntRange(0, 11).Draw(rt, "ending") {
	case 0:
		body = append(body, &gen.Throw{X: call(id("error"), str("stop"))})
	case 1:
		if rm := b.richMods(); len(rm) > 0 {
			body = append(body, expr(call(sel(b.imp(b.pick("t", rm)), "nope"))))
		}
	default:
		for _, m := range b.richMods() {
			if b.chance("finalget", 50) {
				body = append(body, push(call(sel(b.imp(m), "get"))))
			}
		}
	}
	body = append(body, ret(id("out")))

	gp := &gen.GenProgram{
		Program: gen.Program{Body: body, Modules: b.modules},
		Args: []gen.Expr{boolean(rapid.Bool().Draw(rt, "p0")), boolean(rapid.Bool().Draw(rt, "p1")),
			num(int64(rapid.IntRange(0, 3).Draw(rt, "p2")))},
		Globals: map[string]gen.Expr{"g0": boolean(rapid.Bool().Draw(rt, "g0")), "g1": boolean(rapid.Bool().Draw(rt, "g1"))},
		UsesL:   true,
	}
	g := &posGraph{gp: gp, builtins: b.builtins, edges: b.edges, classes: b.classes}
	g.classify()
	return g
}

// classify derives graph classes from the recorded edges.
func (g *posGraph) classify() {
	sites := map[string]int{}
	perFile := map[string]int{}
	importers := map[string]map[string]bool{}
	for _, e := range g.edges {
		sites[e.To]++
		perFile[e.From+">"+e.To]++
		if importers[e.To] == nil {
			importers[e.To] = map[string]bool{}
		}
		importers[e.To][e.From] = true
		if e.From != "main" && strings.HasPrefix(e.To, "m") {
			g.classes["chain"] = true
		}
	}
	for _, n := range sites {
		if n >= 2 {
			g.nontriv = true
		}
	}
	for _, n := range perFile {
		if n >= 2 {
			g.classes["repeat"] = true
		}
	}
	for _, fs := range importers {
		if len(fs) >= 2 {
			g.classes["diamond"] = true
			g.nontriv = true
		}
	}
}

func edgeList(es []edge) []string {
	seen := map[string]bool{}
	var out []string
	for _, e := range es {
		s := e.From + "->" + e.To + "(" + e.Kind + ")"
		if !seen[s] {
			seen[s] = true
			out = append(out, s)
		}
	}
	sort.Strings(out)
	return out
}

// ------------------------------------------------------------ file importer aliases

var importRe = regexp.MustCompile(`import\("(m\d)"\)`)

// aliasImports rewrites import names of source modules to equivalent relative
// or absolute paths below the FileImporter's work directory /w.
func aliasImports(rt *rapid.T, src string) string {
	return importRe.ReplaceAllStringFunc(src, func(s string) string {
		name := importRe.FindStringSubmatch(s)[1]
		switch rapid.IntRange(0, 5).Draw(rt, "alias") {
		case 0:
			return `import("./` + name + `")`
		case 1:
			return `import("sub/../` + name + `")`
		case 2:
			return `import("/w/` + name + `")`
		}
		return s
	})
}

// ------------------------------------------------------------ negative graphs

type negGraph struct {
	Kind     string            `json:"kind"` // cycle | unknown | scope
	Src      string            `json:"src"`
	Modules  map[string]string `json:"modules"`
	Names    []string          `json:"names"` // cycle members / the unknown name
	CycleLen int               `json:"cycle_len,omitempty"`
	Edges    []string          `json:"edges"`
}

// placed wraps an import expression statement into a placement. The returned
// statements are module/main top-level statements; fnKeys/fnVals receive a
// function when the placement is "function stored in the returned map".
func placeImport(rt *rapid.T, file, name string, inModule bool, add func(k string, v gen.Expr), uniq *int, edges *[]string) []gen.Stmt {
	*uniq++
	im := &gen.Import{Name: name}
	kinds := []string{"top", "top", "fn-uncalled", "fn-called", "cond-false", "cond-true", "loop", "fn-cond-false"}
	if inModule {
		kinds = append(kinds, "fn-in-map")
	}
	kind := kinds[rapid.IntRange(0, len(kinds)-1).Draw(rt, "place")]
	*edges = append(*edges, file+"->"+name+"("+kind+")")
	v := fmt.Sprintf("u%d", *uniq)
	falseCond, trueCond := id("g0"), id("g1") // g0 = false, g1 = true in negative cases
	switch kind {
	case "top":
		return []gen.Stmt{def(v, im)}
	case "fn-uncalled":
		return []gen.Stmt{def(v, fn(nil, ret(im)))}
	case "fn-called":
		return []gen.Stmt{def(v, fn(nil, ret(im))), expr(call(id(v)))}
	case "cond-false":
		return []gen.Stmt{ifs(falseCond, []gen.Stmt{def(v, im)}, nil)}
	case "cond-true":
		return []gen.Stmt{ifs(trueCond, []gen.Stmt{def(v, im)}, nil)}
	case "loop":
		return []gen.Stmt{loop(v, num(2), []gen.Stmt{expr(im)})}
	case "fn-cond-false":
		return []gen.Stmt{def(v, fn(nil, ifs(falseCond, []gen.Stmt{ret(im)}, nil), ret(num(0))))}
	}
	add("lazy_"+v, fn(nil, ret(im)))
	return nil
}

// liteModule renders a module body around the given import placements.
func liteModule(name string, stmts []gen.Stmt, keys []string, vals []gen.Expr) string {
	body := []gen.Stmt{
		&gen.GlobalDecl{Names: []string{"L", "g0", "g1"}},
		logS(str("load " + name)),
		def("n", num(0)),
	}
	body = append(body, stmts...)
	k := append([]string{"name", "inc", "get"}, keys...)
	v := append([]gen.Expr{str(name), fn(nil, inc("n"), ret(id("n"))), fn(nil, ret(id("n")))}, vals...)
	body = append(body, ret(&gen.MapLit{Keys: k, Elems: v}))
	return gen.Src(body)
}

func genNegative(rt *rapid.T, kind string) *negGraph {
	g := &negGraph{Kind: kind, Modules: map[string]string{}}
	uniq := 0
	n := rapid.IntRange(1, 6).Draw(rt, "nmods")
	k := 0
	if kind == "cycle" {
		k = rapid.IntRange(1, 4).Draw(rt, "len")
		if n < k {
			n = k
		}
	}
	names := make([]string, n)
	for i := range names {
		names[i] = fmt.Sprintf("m%d", i)
	}
	perm := rapid.Permutation(names).Draw(rt, "perm")
	members := perm[:k] // cycle members in cycle order
	rest := perm[k:]    // acyclic: rest[i] may import rest[j], j < i ("leaf side"), or (prefix side) a member
	isMember := map[string]bool{}
	for _, m := range members {
		isMember[m] = true
	}
	// split rest into leaves (imported by anyone, import only earlier leaves) and
	// prefixes (import members / leaves / earlier prefixes; imported by main only or later prefixes)
	nleaf := 0
	if len(rest) > 0 {
		nleaf = rapid.IntRange(0, len(rest)).Draw(rt, "nleaf")
	}
	leaves, prefixes := rest[:nleaf], rest[nleaf:]

	type mod struct {
		stmts []gen.Stmt
		keys  []string
		vals  []gen.Expr
	}
	mods := map[string]*mod{}
	for _, nme := range names {
		mods[nme] = &mod{}
	}
	addImport := func(file, to string) {
		m := mods[file]
		st := placeImport(rt, file, to, true, func(k string, v gen.Expr) { m.keys = append(m.keys, k); m.vals = append(m.vals, v) }, &uniq, &g.Edges)
		m.stmts = append(m.stmts, st...)
	}
	for i, l := range leaves {
		if i > 0 && rapid.Bool().Draw(rt, "leafdep") {
			addImport(l, leaves[rapid.IntRange(0, i-1).Draw(rt, "leafto")])
		}
	}
	unknown := "zz" + fmt.Sprint(rapid.IntRange(0, 9).Draw(rt, "unk"))
	// cycle edges (with optional leaf imports before / after)
	for i, m := range members {
		next := members[(i+1)%k]
		if len(leaves) > 0 && rapid.IntRange(0, 3).Draw(rt, "pre") == 0 {
			addImport(m, leaves[rapid.IntRange(0, len(leaves)-1).Draw(rt, "preleaf")])
		}
		addImport(m, next)
		if len(leaves) > 0 && rapid.IntRange(0, 3).Draw(rt, "post") == 0 {
			addImport(m, leaves[rapid.IntRange(0, len(leaves)-1).Draw(rt, "postleaf")])
		}
	}
	// prefixes
	reach := append([]string{}, leaves...)
	reach = append(reach, members...)
	for i, p := range prefixes {
		cands := append(append([]string{}, reach...), prefixes[:i]...)
		if len(cands) > 0 {
			nd := rapid.IntRange(1, 2).Draw(rt, "prefdeps")
			for d := 0; d < nd; d++ {
				addImport(p, cands[rapid.IntRange(0, len(cands)-1).Draw(rt, "prefto")])
			}
		}
	}
	// main
	var main []gen.Stmt
	main = append(main, &gen.GlobalDecl{Names: []string{"L", "g0", "g1"}})
	mainImport := func(to string) {
		main = append(main, placeImport(rt, "main", to, false, nil, &uniq, &g.Edges)...)
	}
	if kind == "cycle" {
		g.CycleLen = k
		g.Names = append([]string{}, members...)
		// extra imports first (sometimes), then a guaranteed entry into the cycle
		if len(names) > 0 && rapid.Bool().Draw(rt, "extra") {
			mainImport(names[rapid.IntRange(0, len(names)-1).Draw(rt, "extrato")])
		}
		entry := members[rapid.IntRange(0, k-1).Draw(rt, "entry")]
		// optionally through a prefix module that imports the entry
		if len(prefixes) > 0 && rapid.Bool().Draw(rt, "viaprefix") {
			p := prefixes[rapid.IntRange(0, len(prefixes)-1).Draw(rt, "prefix")]
			addImport(p, entry)
			mainImport(p)
		} else {
			mainImport(entry)
		}
	} else if kind == "scope" {
		// main imports a module and then names the module's own local variable
		g.Names = []string{"n"}
		if len(names) > 1 && rapid.Bool().Draw(rt, "extra") {
			mainImport(names[rapid.IntRange(0, len(names)-1).Draw(rt, "extrato")])
		}
		sm := names[rapid.IntRange(0, len(names)-1).Draw(rt, "scopemod")]
		main = append(main, def("first", &gen.Import{Name: sm}))
		g.Edges = append(g.Edges, "main->"+sm+"(top)")
		switch rapid.IntRange(0, 2).Draw(rt, "leak") {
		case 0:
			main = append(main, def("leak", id("n")))
		case 1:
			main = append(main, def("leak", fn(nil, ret(id("n")))))
		default:
			main = append(main, ifs(id("g0"), []gen.Stmt{inc("n")}, nil))
		}
	} else {
		g.Names = []string{unknown}
		// the unknown import sits in main or in a module that main imports
		holder := "main"
		if rapid.IntRange(0, 2).Draw(rt, "holder") > 0 {
			holder = names[rapid.IntRange(0, len(names)-1).Draw(rt, "holdermod")]
		}
		if len(names) > 0 && rapid.Bool().Draw(rt, "extra") {
			mainImport(names[rapid.IntRange(0, len(names)-1).Draw(rt, "extrato")])
		}
		if holder == "main" {
			mainImport(unknown)
		} else {
			addImport(holder, unknown)
			mainImport(holder)
		}
	}
	main = append(main, ret(num(1)))
	g.Src = gen.Src(main)
	for nme, m := range mods {
		g.Modules[nme] = liteModule(nme, m.stmts, m.keys, m.vals)
	}
	sort.Strings(g.Edges)
	return g
}
