package c03

import (
	"fmt"

	"pgregory.net/rapid"

	"verif/internal/ev"
	"verif/internal/gen"
)

// Repetition: the statements under observation of the grammar generator (function f0, after its two
// variable definitions, before its final return) become the body of a loop that runs repeatTimes times
// inside that function. A try statement - entered, left by any kind of exit, its handler record popped
// or not - that leaves one value-stack slot or one handler behind is invisible after a few executions
// and exhausts the 2048-slot stack (or lets a stale handler catch a later error) after many.
const repeatTimes = 2500

func repeatedGrammar(rt *rapid.T) *gen.GenProgram {
	gp := generate(rt, gen.Uniform(rt, 2, "avoid-history") == 0)
	for _, s := range gp.Body {
		d, ok := s.(*gen.Define)
		if !ok || len(d.Names) != 1 || d.Names[0] != "f0" {
			continue
		}
		fl := d.X.(*gen.FuncLit)
		n := len(fl.Body)
		if n < 4 {
			return nil
		}
		inner := append([]gen.Stmt{}, fl.Body[2:n-1]...)
		loop := &gen.For{
			Init: &gen.Define{Names: []string{"rEp"}, X: gen.IntLit(0)},
			Cond: &gen.Binary{Op: "<", L: gen.Id("rEp"), R: gen.IntLit(repeatTimes)},
			Post: &gen.IncDec{Target: gen.Id("rEp"), Inc: true},
			Body: inner,
		}
		fl.Body = []gen.Stmt{fl.Body[0], fl.Body[1], loop, fl.Body[n-1]}
		gp.Features["repeated"] = 1
		return gp
	}
	return nil
}

func repeatProp(rt *rapid.T, rec *ev.Rec) {
	gp := repeatedGrammar(rt)
	if gp == nil {
		rec.Exclude("nothing-to-repeat")
		return
	}
	check(rt, rec, gp, fmt.Sprintf("repeated-%d", repeatTimes))
}
