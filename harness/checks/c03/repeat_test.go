package c03

import (
	"fmt"

	"pgregory.net/rapid"

	"verif/internal/ev"
	"verif/internal/gen"
)

// Repetition: the statements under observation of the grammar generator (function f0, after its two
// variable definitions, before its final return) become the body of a loop that runs repeatTimes times
// inside that function. A try statement - entered, left by any kind of exit, its handler record popped
// or not - that leaves one value-stack slot or one handler behind is invisible after a few executions
// and exhausts the 2048-slot stack (or lets a stale handler catch a later error) after many.
const repeatTimes = 2500

func repeatedGrammar(rt *rapid.T) *gen.GenProgram {
	gp := generate(rt, gen.Uniform(rt, 2, "avoid-history") == 0)
	for _, s := range gp.Body {
		d, ok := s.(*gen.Define)
		if !ok || len(d.Names) != 1 || d.Names[0] != "f0" {
			continue
		}
		fl := d.X.(*gen.FuncLit)
		n := len(fl.Body)
		if n < 4 {
			return nil
		}
		inner := append([]gen.Stmt{}, fl.Body[2:n-1]...)
		loop := &gen.For{
			Init: &gen.Define{Names: []string{"rEp"}, X: gen.IntLit(0)},
			Cond: &gen.Binary{Op: "<", L: gen.Id("rEp"), R: gen.IntLit(repeatTimes)},
			Post: &gen.IncDec{Target: gen.Id("rEp"), Inc: true},
			Body: inner,
		}
		fl.Body = []gen.Stmt{fl.Body[0], fl.Body[1], loop, fl.Body[n-1]}
		gp.Features["repeated"] = 1
		return gp
	}
	return nil
}

func repeatProp(rt *rapid.T, rec *ev.Rec) {
	gp := repeatedGrammar(rt)
	if gp == nil {
		rec.Exclude("nothing-to-repeat")
		return
	}
	check(rt, rec, gp, fmt.Sprintf("repeated-%d", repeatTimes))
}

// pendingBranch: every kind of pending completion (return with one / no / several values, thrown value,
// failing operator, none) abandoned by a break or continue in a finally (or catch) block, in four
// placements, executed repeatTimes times. Enumerated, not sampled: found as a genuine defect by the
// sampled property above only in the thorough tier (a pending return value stayed on the stack).
func pendingBranch(t interface{ Fatalf(string, ...any) }, rec *ev.Rec) {
	lgN := 0
	lg := func() gen.Stmt {
		lgN++
		return &gen.ExprStmt{X: &gen.Call{Fn: gen.Id("L"), Args: []gen.Expr{gen.StrLit(fmt.Sprintf("p%d", lgN))}}}
	}
	pendings := map[string]func() []gen.Stmt{
		"return-1":    func() []gen.Stmt { return []gen.Stmt{&gen.Return{Xs: []gen.Expr{gen.IntLit(1)}}} },
		"return-bare": func() []gen.Stmt { return []gen.Stmt{&gen.Return{}} },
		"return-2":    func() []gen.Stmt { return []gen.Stmt{&gen.Return{Xs: []gen.Expr{gen.IntLit(1), gen.IntLit(2)}}} },
		"throw":       func() []gen.Stmt { return []gen.Stmt{&gen.Throw{X: gen.StrLit("x")}} },
		"div0":        func() []gen.Stmt { return []gen.Stmt{&gen.ExprStmt{X: &gen.Binary{Op: "/", L: gen.IntLit(1), R: gen.Id("zero")}}} },
		"none":        func() []gen.Stmt { return nil },
	}
	names := []string{"return-1", "return-bare", "return-2", "throw", "div0", "none"}
	for _, pn := range names {
		for _, br := range []string{"continue", "break"} {
			for place := 0; place < 4; place++ {
				var branch gen.Stmt = &gen.Continue{}
				if br == "break" {
					branch = &gen.Break{}
				}
				pend := pendings[pn]()
				var core gen.Stmt
				switch place {
				case 0: // try { P } finally { branch }
					core = &gen.Try{Body: pend, HasFinally: true, Finally: []gen.Stmt{branch}}
				case 1: // try { try { P } finally { } } finally { branch }
					core = &gen.Try{Body: []gen.Stmt{&gen.Try{Body: pend, HasFinally: true, Finally: []gen.Stmt{lg()}}}, HasFinally: true, Finally: []gen.Stmt{branch}}
				case 2: // try { try { P } finally { branch } } finally { log }
					core = &gen.Try{Body: []gen.Stmt{&gen.Try{Body: pend, HasFinally: true, Finally: []gen.Stmt{branch}}}, HasFinally: true, Finally: []gen.Stmt{lg()}}
				default: // try { P } catch e { branch } finally { log }   (the branch runs only when P throws)
					core = &gen.Try{Body: pend, HasCatch: true, CatchIdent: "e", Catch: []gen.Stmt{branch}, HasFinally: true, Finally: []gen.Stmt{lg()}}
				}
				// break leaves the loop at once: wrap it in an inner loop so that it is repeated too
				body := []gen.Stmt{&gen.IncDec{Target: gen.Id("n"), Inc: true}, core}
				if br == "break" {
					body = []gen.Stmt{&gen.IncDec{Target: gen.Id("n"), Inc: true},
						&gen.For{Init: &gen.Define{Names: []string{"j"}, X: gen.IntLit(0)}, Cond: &gen.Binary{Op: "<", L: gen.Id("j"), R: gen.IntLit(1)},
							Post: &gen.IncDec{Target: gen.Id("j"), Inc: true}, Body: []gen.Stmt{core}}}
				}
				loop := &gen.For{Init: &gen.Define{Names: []string{"rEp"}, X: gen.IntLit(0)},
					Cond: &gen.Binary{Op: "<", L: gen.Id("rEp"), R: gen.IntLit(repeatTimes)},
					Post: &gen.IncDec{Target: gen.Id("rEp"), Inc: true}, Body: body}
				fb := []gen.Stmt{
					&gen.Define{Names: []string{"zero"}, X: gen.IntLit(0)},
					&gen.Define{Names: []string{"n"}, X: gen.IntLit(0)},
					loop,
					&gen.Return{Xs: []gen.Expr{gen.Id("n")}},
				}
				prog := []gen.Stmt{
					&gen.GlobalDecl{Names: []string{"L"}},
					&gen.Define{Names: []string{"f0"}, X: &gen.FuncLit{Params: []string{"a"}, Body: fb}},
					&gen.Return{Xs: []gen.Expr{&gen.Call{Fn: gen.Id("f0"), Args: []gen.Expr{gen.IntLit(1)}}}},
				}
				gp := &gen.GenProgram{Program: gen.Program{Body: prog}, Features: gen.Features{"try": 1, "repeated": 1, "exit-" + br: 1, "exit-in-finally": 1}, UsesL: true}
				check(t, rec, gp, "pending-"+pn+"-abandoned-by-"+br)
			}
		}
	}
}
