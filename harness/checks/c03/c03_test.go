// C03 - finally runs exactly once on every exit path and the pending outcome survives it.
// Oracle: reference interpreter (completion-record semantics) over generated nestings of
// try/catch/finally x loops x calls x exit kinds x histories of completed try statements.
package c03

import (
	"encoding/json"
	"errors"
	"fmt"
	"strings"
	"testing"
	"time"

	"github.com/ozanh/ugo"
	"pgregory.net/rapid"

	"verif/internal/ev"
	"verif/internal/gen"
	"verif/internal/prog"
	"verif/internal/ref"
	"verif/internal/run"
)

type replayCase struct {
	prog.Case
	NoOptimize bool        `json:"no_optimize"`
	Expected   run.Outcome `json:"expected"`
	Got        run.Outcome `json:"got"`
}

// ---------------------------------------------------------------- generator

type tg struct {
	t            *rapid.T
	tag          int
	uniq         int
	nfn          int // number of functions
	feat         gen.Features
	budget       int
	avoidHistory bool
}

func (g *tg) u(n int, label string) int       { return gen.Uniform(g.t, n, label) }
func (g *tg) chance(p int, label string) bool { return g.u(100, label) < p }

func (g *tg) log() gen.Stmt {
	g.tag++
	return &gen.ExprStmt{X: &gen.Call{Fn: gen.Id("L"), Args: []gen.Expr{gen.StrLit(fmt.Sprintf("t%d", g.tag))}}}
}

type ctx struct {
	fn        int // index of the current function (callees have larger index)
	loops     int // loop nesting inside the current function
	depth     int // statement nesting
	tryD      int // try nesting in the current function
	inFinally bool
	loopVar   string
}

func (g *tg) exit(c ctx) gen.Stmt {
	kinds := []string{"return", "throw", "throwerr", "div0", "index"}
	if c.loops > 0 {
		kinds = append(kinds, "break", "continue", "break", "continue")
	}
	k := kinds[g.u(len(kinds), "exitkind")]
	g.feat["exit-"+k]++
	if c.inFinally {
		g.feat["exit-in-finally"]++
	}
	g.tag++
	switch k {
	case "return":
		if g.chance(30, "bare-return") {
			g.feat["exit-bare-return"]++
			return &gen.Return{} // `return` without a value: compiled separately from `return x`
		}
		if g.chance(12, "multi-return") {
			return &gen.Return{Xs: []gen.Expr{gen.IntLit(int64(100 + g.tag)), gen.IntLit(1)}}
		}
		return &gen.Return{Xs: []gen.Expr{gen.IntLit(int64(100 + g.tag))}}
	case "throw":
		return &gen.Throw{X: gen.StrLit(fmt.Sprintf("x%d", g.tag))}
	case "throwerr":
		return &gen.Throw{X: &gen.Call{Fn: gen.Id("error"), Args: []gen.Expr{gen.StrLit(fmt.Sprintf("e%d", g.tag))}}}
	case "div0":
		return &gen.ExprStmt{X: &gen.Binary{Op: "/", L: gen.IntLit(int64(g.tag)), R: gen.Id("zero")}}
	case "index":
		return &gen.ExprStmt{X: &gen.Index{X: gen.Id("arr"), I: gen.IntLit(5)}}
	case "break":
		return &gen.Break{}
	}
	return &gen.Continue{}
}

func (g *tg) stmts(c ctx, max int) []gen.Stmt {
	n := g.u(max+1, "nstmts")
	var out []gen.Stmt
	for i := 0; i < n && g.budget > 0; i++ {
		g.budget--
		out = append(out, g.stmt(c))
	}
	return out
}

func (g *tg) cond(c ctx) gen.Expr {
	if c.loopVar != "" && g.chance(50, "loopcond") {
		return &gen.Binary{Op: "==", L: gen.Id(c.loopVar), R: gen.IntLit(int64(g.u(2, "iterno")))}
	}
	return gen.BoolLit(g.chance(65, "condtrue"))
}

func (g *tg) tryStmt(c ctx) gen.Stmt {
	t := &gen.Try{}
	g.feat["try"]++
	if c.tryD >= 1 {
		g.feat["nested-try"]++
	}
	if c.inFinally {
		g.feat["try-inside-finally"]++
	}
	inner := c
	inner.depth++
	inner.tryD++
	inner.inFinally = false
	t.Body = g.stmts(inner, 3)
	t.HasCatch = g.chance(65, "hascatch")
	t.HasFinally = !t.HasCatch || g.chance(70, "hasfinally")
	if t.HasCatch {
		if g.chance(75, "catchident") {
			g.uniq++
			t.CatchIdent = fmt.Sprintf("e%d", g.uniq)
			t.Catch = append(t.Catch, &gen.ExprStmt{X: &gen.Call{Fn: gen.Id("L"), Args: []gen.Expr{
				&gen.Binary{Op: "+", L: &gen.Binary{Op: "+", L: &gen.Selector{X: gen.Id(t.CatchIdent), Name: "Name"}, R: gen.StrLit(":")}, R: &gen.Selector{X: gen.Id(t.CatchIdent), Name: "Message"}}}}})
		} else {
			t.Catch = append(t.Catch, g.log())
		}
		t.Catch = append(t.Catch, g.stmts(inner, 2)...)
	}
	if t.HasFinally {
		fin := inner
		fin.inFinally = true
		fin.tryD = c.tryD // the finally block belongs to the enclosing level
		t.Finally = append([]gen.Stmt{g.log()}, g.stmts(fin, 2)...)
	}
	return t
}

func (g *tg) stmt(c ctx) gen.Stmt {
	type ch struct {
		w  int
		fn func() gen.Stmt
	}
	cs := []ch{{20, func() gen.Stmt { return g.log() }}}
	if c.depth < 5 {
		cs = append(cs, ch{30, func() gen.Stmt { return g.tryStmt(c) }})
		cs = append(cs, ch{10, func() gen.Stmt {
			inner := c
			inner.depth++
			s := &gen.If{Cond: g.cond(c), Then: g.stmts(inner, 2)}
			if g.chance(30, "else") {
				s.HasElse = true
				s.Else = g.stmts(inner, 2)
			}
			return s
		}})
		if c.loops < 2 {
			cs = append(cs, ch{12, func() gen.Stmt {
				g.uniq++
				iv := fmt.Sprintf("i%d", g.uniq)
				inner := c
				inner.depth++
				inner.loops++
				inner.loopVar = iv
				// a loop inside a finally block is its own jump target region
				inner.inFinally = c.inFinally
				g.feat["loop"]++
				if c.tryD > 0 {
					g.feat["loop-inside-try"]++
				}
				return &gen.For{
					Init: &gen.Define{Names: []string{iv}, X: gen.IntLit(0)},
					Cond: &gen.Binary{Op: "<", L: gen.Id(iv), R: gen.IntLit(2)},
					Post: &gen.IncDec{Target: gen.Id(iv), Inc: true},
					Body: g.stmts(inner, 3),
				}
			}})
		}
	}
	if c.fn+1 < g.nfn {
		cs = append(cs, ch{10, func() gen.Stmt {
			callee := c.fn + 1 + g.u(g.nfn-c.fn-1, "callee")
			g.feat["call"]++
			return &gen.ExprStmt{X: &gen.Call{Fn: gen.Id("L"), Args: []gen.Expr{&gen.Call{Fn: gen.Id(fmt.Sprintf("f%d", callee)), Args: []gen.Expr{gen.IntLit(1)}}}}}
		}})
	}
	exitW := 18
	cs = append(cs, ch{exitW, func() gen.Stmt {
		e := g.exit(c)
		if g.chance(35, "guardexit") {
			return &gen.If{Cond: g.cond(c), Then: []gen.Stmt{e}}
		}
		return e
	}})
	total := 0
	for _, x := range cs {
		total += x.w
	}
	r := g.u(total, "stmtkind")
	for _, x := range cs {
		if r < x.w {
			return x.fn()
		}
		r -= x.w
	}
	return g.log()
}

// completedTry is a try statement that completes (normally or after catching) - a "history" entry.
func (g *tg) completedTry() gen.Stmt {
	t := &gen.Try{}
	g.feat["history"]++
	switch g.u(4, "histshape") {
	case 0: // try {} finally {}
		t.HasFinally = true
		t.Body = []gen.Stmt{g.log()}
		t.Finally = []gen.Stmt{g.log()}
	case 1: // thrown and caught
		t.HasCatch = true
		g.tag++
		t.Body = []gen.Stmt{g.log(), &gen.Throw{X: gen.StrLit(fmt.Sprintf("h%d", g.tag))}}
		t.Catch = []gen.Stmt{g.log()}
	case 2: // catch + finally, nothing thrown
		t.HasCatch, t.HasFinally = true, true
		t.Body = []gen.Stmt{g.log()}
		t.Catch = []gen.Stmt{g.log()}
		t.Finally = []gen.Stmt{g.log()}
	default: // thrown, caught, finally
		t.HasCatch, t.HasFinally = true, true
		g.tag++
		t.Body = []gen.Stmt{&gen.ExprStmt{X: &gen.Binary{Op: "/", L: gen.IntLit(1), R: gen.Id("zero")}}}
		g.uniq++
		t.CatchIdent = fmt.Sprintf("e%d", g.uniq)
		t.Catch = []gen.Stmt{g.log()}
		t.Finally = []gen.Stmt{g.log()}
	}
	return t
}

func generate(t *rapid.T, avoidHistory bool) *gen.GenProgram {
	g := &tg{t: t, feat: gen.Features{}, budget: 26, avoidHistory: avoidHistory}
	g.nfn = 1 + g.u(3, "nfn")
	body := []gen.Stmt{&gen.GlobalDecl{Names: []string{"L"}}}
	for i := g.nfn - 1; i >= 0; i-- {
		fb := []gen.Stmt{
			&gen.Define{Names: []string{"zero"}, X: gen.IntLit(0)},
			&gen.Define{Names: []string{"arr"}, X: &gen.ArrayLit{Elems: []gen.Expr{gen.IntLit(1)}}},
		}
		nh := 0
		if !avoidHistory {
			nh = []int{0, 0, 1, 1, 2, 3}[g.u(6, "nhist")]
		}
		for h := 0; h < nh; h++ {
			fb = append(fb, g.completedTry())
		}
		c := ctx{fn: i}
		fb = append(fb, g.stmts(c, 4)...)
		// make sure the function under observation has at least one try statement
		if i == 0 && g.feat["try"] == 0 {
			fb = append(fb, g.tryStmt(c))
		}
		fb = append(fb, g.log())
		g.tag++
		fb = append(fb, &gen.Return{Xs: []gen.Expr{gen.IntLit(int64(g.tag))}})
		body = append(body, &gen.Define{Names: []string{fmt.Sprintf("f%d", i)}, X: &gen.FuncLit{Params: []string{"a"}, Body: fb}})
	}
	body = append(body,
		&gen.Define{Names: []string{"r"}, X: &gen.Call{Fn: gen.Id("f0"), Args: []gen.Expr{gen.IntLit(1)}}},
		&gen.ExprStmt{X: &gen.Call{Fn: gen.Id("L"), Args: []gen.Expr{gen.Id("r")}}},
		&gen.Return{Xs: []gen.Expr{gen.Id("r")}},
	)
	return &gen.GenProgram{Program: gen.Program{Body: body}, Features: g.feat, UsesL: true}
}

// ------------------------------------------------------------------- oracle

func withMsg(o run.Outcome) bool { return true }

func sigOf(d string, f gen.Features) string {
	kind := strings.SplitN(d, " ", 2)[0]
	var fam []string
	for _, k := range []string{"history", "nested-try", "try-inside-finally", "exit-in-finally", "loop-inside-try", "call"} {
		if f[k] > 0 {
			fam = append(fam, k)
		}
	}
	return "try:" + kind + ":" + strings.Join(fam, "+")
}

func check(rt interface{ Fatalf(string, ...any) }, rec *ev.Rec, gp *gen.GenProgram, kind string) {
	p := prog.Prepare(gp)
	rec.Case()
	want, rerr := prog.RunRefErr(p, refBudget(gp))
	if rerr != nil {
		if errors.Is(rerr, ref.ErrValuePanic) {
			rec.Exclude("value-op-go-panic(C15)")
		} else {
			rec.Inconcl("ref-step-budget")
		}
		return
	}
	for _, noopt := range []bool{true, false} {
		got, _, err, pan := prog.RunVM(p, ugo.CompilerOptions{NoOptimize: noopt}, run.Opts{Recover: true})
		if pan != "" {
			rec.Exclude("compile-panic(C05)")
			return
		}
		if err != nil {
			if strings.Contains(err.Error(), "Optimizer Error") {
				rec.Exclude("optimizer-refused(C01)")
				continue
			}
			rt.Fatalf("HARNESS: generated program does not compile: %v\n%s", err, p.Src)
			return
		}
		if got.TimedOut {
			// the reference model finished this program within its step budget; the VM did not within 5 s
			// (>= 10^4 x the typical run). Confirm alone with a longer budget before calling it non-termination.
			got2, _, _, _ := prog.RunVM(p, ugo.CompilerOptions{NoOptimize: noopt}, run.Opts{Recover: true, Timeout: 25 * time.Second})
			if !got2.TimedOut {
				rec.Inconcl("vm-watchdog-slow")
				return
			}
			what := fmt.Sprintf("the VM (NoOptimize=%v) does not terminate on a program the reference semantics finishes (aborted after 5 s and again after 25 s)\n--- script ---\n%s\nREF: %s", noopt, p.Src, want)
			if rec.Violation("semantics:vm-does-not-terminate", what, replayCase{Case: p.Case(), NoOptimize: noopt, Expected: want, Got: got2}) {
				return
			}
			rt.Fatalf("%s", what)
			return
		}
		// VM-raised runtime errors: name only; thrown values: name and message
		cmpMsg := want.ErrName == "" || want.ErrName == "error"
		if d := got.Diff(want, cmpMsg); d != "" {
			c := replayCase{Case: p.Case(), NoOptimize: noopt, Expected: want, Got: got}
			what := fmt.Sprintf("VM (NoOptimize=%v) differs from the reference try/catch/finally semantics: %s\n--- script ---\n%s\nVM : %s\nREF: %s", noopt, d, p.Src, got, want)
			if rec.Violation(sigOf(d, gp.Features), what, c) {
				return
			}
			rt.Fatalf("%s", what)
			return
		}
	}
	if gp.Features["repeated"] > 0 && len(want.Log) >= 1000 {
		rec.Class(kind + ":ran-many-iterations")
	}
	f := gp.Features
	for _, k := range []string{"history", "nested-try", "try-inside-finally", "exit-in-finally", "loop-inside-try", "call", "exit-return", "exit-break", "exit-continue", "exit-throw", "exit-div0"} {
		if f[k] > 0 {
			rec.Class(kind + ":" + k)
		}
	}
	// non-trivial: at least one finally block was entered while a non-normal completion was pending.
	// Approximated by construction: the program has a finally and an exit statement executed
	// (log shows a finally tag after fewer tags than a straight-line run would give); we use the
	// measured proxy "a finally exists and the run logged >= 3 events and some exit statement exists".
	if f["try"] > 0 && len(want.Log) >= 3 && (f["exit-return"]+f["exit-break"]+f["exit-continue"]+f["exit-throw"]+f["exit-throwerr"]+f["exit-div0"]+f["exit-index"]) > 0 {
		rec.NonTriv(p.Src)
		rec.Class(kind + ":nontrivial")
	}
	rec.Sample(map[string]any{"src": p.Src, "outcome": want.String()})
}

func refBudget(gp *gen.GenProgram) int {
	if gp.Features["repeated"] > 0 {
		return 40_000_000
	}
	return 400000
}

func TestCheck(t *testing.T) {
	rec := ev.New("C03")
	rec.Rule = "dedicated statement generator S ::= log | try{S*}[catch [id]{S*}][finally{S*}] | counter-loop{S*} | if c {S*} | call of a later function | return | break | continue | throw value/error | failing operator, nesting <= 5, inside 1-3 functions calling each other, with histories of 0-3 completed try statements (every shape) before the statements under observation; plus general generated programs with try/closures/failing operations. Every body logs a unique tag through L so order and multiplicity are observable; VM outcome (log, value, error name+message, caught error name:message) compared with the reference interpreter's completion-record semantics. Non-trivial = has a try statement, an exit statement and >= 3 logged events; distinct by source"
	rec.Assumptions = []string{
		"one scope per try statement (suite-blessed); finally blocks never read the catch identifier (unset on paths that skipped it)",
		"stack overflow is documented as not catchable and is not generated",
		"value-level operations delegated to uGO's Object methods",
	}
	defer func() { rec.Flush(!t.Failed() || rec.HasUnknown()) }()

	runReplays(t, rec)
	if ev.ReplayOnly() {
		return
	}
	t.Run("small-shapes", func(t *testing.T) { enumerate(t, rec) })
	t.Run("pending-abandoned-by-branch", func(t *testing.T) { pendingBranch(&tfail{t: t}, rec) })
	n := ev.N(4000, 80000)
	ev.RapidCheck(t, "try-grammar", n, 1, func(rt *rapid.T) {
		gp := generate(rt, false)
		check(rt, rec, gp, "grammar")
	})
	ev.RapidCheck(t, "try-grammar-repeated", ev.N(400, 8000), 3, func(rt *rapid.T) { repeatProp(rt, rec) })
	general := gen.Config{MaxStmts: 26, MaxDepth: 3, MaxFnDepth: 3, MaxBlock: 4,
		Closures: true, Calls: true, Log: true, Try: true, Failing: true, Destruct: true, Consts: true, Recursion: true, Params: true}
	ev.RapidCheck(t, "general-with-try", ev.N(1500, 30000), 2, func(rt *rapid.T) {
		gp := gen.Generate(rt, general)
		check(rt, rec, gp, "general")
	})
}

// enumerate: bounded exhaustive enumeration of small shapes: an outer try (catch / finally /
// both) optionally containing an inner try (same three forms) at one of three positions, one exit
// statement of every kind at every position, x history of 0/1 completed try x inside a loop or not
// x the whole thing in the called function or in its caller's callee.
func enumerate(t *testing.T, rec *ev.Rec) {
	forms := [][2]bool{{true, false}, {false, true}, {true, true}} // hasCatch, hasFinally
	exits := []string{"none", "return", "bare-return", "throw", "div0", "break", "continue", "call-throws"}
	tag := 0
	lg := func() gen.Stmt {
		tag++
		return &gen.ExprStmt{X: &gen.Call{Fn: gen.Id("L"), Args: []gen.Expr{gen.StrLit(fmt.Sprintf("t%d", tag))}}}
	}
	mkExit := func(kind string) []gen.Stmt {
		switch kind {
		case "return":
			return []gen.Stmt{&gen.Return{Xs: []gen.Expr{gen.IntLit(77)}}}
		case "bare-return":
			return []gen.Stmt{&gen.Return{}}
		case "throw":
			return []gen.Stmt{&gen.Throw{X: gen.StrLit("boom")}}
		case "div0":
			return []gen.Stmt{&gen.ExprStmt{X: &gen.Binary{Op: "/", L: gen.IntLit(1), R: gen.Id("zero")}}}
		case "break":
			return []gen.Stmt{&gen.Break{}}
		case "continue":
			return []gen.Stmt{&gen.Continue{}}
		case "call-throws":
			return []gen.Stmt{&gen.ExprStmt{X: &gen.Call{Fn: gen.Id("thrower"), Args: nil}}}
		}
		return nil
	}
	mkTry := func(form [2]bool, body, catch, fin []gen.Stmt, ident string) *gen.Try {
		tr := &gen.Try{Body: append([]gen.Stmt{lg()}, body...), HasCatch: form[0], HasFinally: form[1]}
		if form[0] {
			tr.CatchIdent = ident
			tr.Catch = append([]gen.Stmt{&gen.ExprStmt{X: &gen.Call{Fn: gen.Id("L"), Args: []gen.Expr{&gen.Selector{X: gen.Id(ident), Name: "Message"}}}}}, catch...)
		}
		if form[1] {
			tr.Finally = append([]gen.Stmt{lg()}, fin...)
		}
		return tr
	}
	count, reported := 0, map[string]bool{}
	shard, shards := rec.Shard, rec.Shards
	for _, of := range forms {
		for innerPos := -1; innerPos < 3; innerPos++ { // -1: no inner try; 0 body, 1 catch, 2 finally of the outer
			if innerPos == 1 && !of[0] || innerPos == 2 && !of[1] {
				continue
			}
			innerForms := forms
			if innerPos < 0 {
				innerForms = forms[:1]
			}
			for _, inf := range innerForms {
				for _, ek := range exits {
					for exitPos := 0; exitPos < 6; exitPos++ { // 0..2 inner body/catch/finally, 3..5 outer body(after inner)/catch/finally
						if exitPos < 3 && innerPos < 0 {
							continue
						}
						if exitPos == 1 && !inf[0] || exitPos == 2 && !inf[1] || exitPos == 4 && !of[0] || exitPos == 5 && !of[1] {
							continue
						}
						if ek == "none" && exitPos != 3 {
							continue
						}
						for hist := 0; hist < 2; hist++ {
							for loop := 0; loop < 2; loop++ {
								if (ek == "break" || ek == "continue") && loop == 0 {
									continue
								}
								// a second exit that makes the catch blocks reachable: the try bodies throw first when the exit sits in a catch
								count++
								if shards > 1 && count%shards != shard {
									continue
								}
								tag = 0
								ex := mkExit(ek)
								var ib, ic, ifin, ob, oc, ofin []gen.Stmt
								switch exitPos {
								case 0:
									ib = ex
								case 1:
									ib = []gen.Stmt{&gen.Throw{X: gen.StrLit("pre")}}
									ic = ex
								case 2:
									ifin = ex
								case 3:
									ob = ex
								case 4:
									ob = []gen.Stmt{&gen.Throw{X: gen.StrLit("pre")}}
									oc = ex
								case 5:
									ofin = ex
								}
								var outer *gen.Try
								if innerPos >= 0 {
									inner := mkTry(inf, ib, ic, ifin, "e2")
									switch innerPos {
									case 0:
										outer = mkTry(of, append([]gen.Stmt{inner, lg()}, ob...), oc, ofin, "e1")
									case 1:
										// the outer body must throw for the catch (holding the inner try) to run
										body := ob
										if exitPos != 3 && exitPos != 4 {
											body = []gen.Stmt{&gen.Throw{X: gen.StrLit("pre")}}
										}
										outer = mkTry(of, body, append([]gen.Stmt{inner, lg()}, oc...), ofin, "e1")
									default:
										outer = mkTry(of, ob, oc, append([]gen.Stmt{inner, lg()}, ofin...), "e1")
									}
								} else {
									outer = mkTry(of, ob, oc, ofin, "e1")
								}
								fb := []gen.Stmt{
									&gen.Define{Names: []string{"zero"}, X: gen.IntLit(0)},
								}
								if hist == 1 {
									fb = append(fb, &gen.Try{Body: []gen.Stmt{lg()}, HasFinally: true, Finally: []gen.Stmt{lg()}})
								}
								var core gen.Stmt = outer
								if loop == 1 {
									core = &gen.For{Init: &gen.Define{Names: []string{"i"}, X: gen.IntLit(0)}, Cond: &gen.Binary{Op: "<", L: gen.Id("i"), R: gen.IntLit(2)},
										Post: &gen.IncDec{Target: gen.Id("i"), Inc: true}, Body: []gen.Stmt{outer, lg()}}
								}
								fb = append(fb, core, lg(), &gen.Return{Xs: []gen.Expr{gen.IntLit(5)}})
								body := []gen.Stmt{
									&gen.GlobalDecl{Names: []string{"L"}},
									&gen.Define{Names: []string{"thrower"}, X: &gen.FuncLit{Body: []gen.Stmt{&gen.Throw{X: gen.StrLit("from-callee")}}}},
									&gen.Define{Names: []string{"f0"}, X: &gen.FuncLit{Params: []string{"a"}, Body: fb}},
									&gen.Define{Names: []string{"r"}, X: &gen.Call{Fn: gen.Id("f0"), Args: []gen.Expr{gen.IntLit(1)}}},
									&gen.ExprStmt{X: &gen.Call{Fn: gen.Id("L"), Args: []gen.Expr{gen.Id("r")}}},
									&gen.Return{Xs: []gen.Expr{gen.Id("r")}},
								}
								gp := &gen.GenProgram{Program: gen.Program{Body: body}, Features: gen.Features{"try": 1, "exit-" + ek: 1}, UsesL: true}
								if hist == 1 {
									gp.Features["history"] = 1
								}
								if innerPos >= 0 {
									gp.Features["nested-try"] = 1
								}
								f := &tfail{t: t}
								f.quiet = reported
								check(f, rec, gp, "enum")
							}
						}
					}
				}
			}
		}
	}
	rec.Note("enumerated_small_shapes", count)
}

type tfail struct {
	t      *testing.T
	failed bool
	quiet  map[string]bool // report each first line once
}

func (f *tfail) Fatalf(format string, args ...any) {
	f.failed = true
	msg := fmt.Sprintf(format, args...)
	if f.quiet != nil {
		key := strings.SplitN(msg, "\n", 2)[0]
		if len(key) > 60 {
			key = key[:60]
		}
		if f.quiet[key] {
			return
		}
		f.quiet[key] = true
	}
	f.t.Errorf("%s", msg)
}

func runReplays(t *testing.T, rec *ev.Rec) {
	for _, rf := range rec.Replays() {
		var c replayCase
		if err := json.Unmarshal(rf.Case, &c); err != nil {
			t.Errorf("bad replay %s: %v", rf.Path, err)
			continue
		}
		rec.Case()
		args, globals, err := prog.CaseInputs(c.Case)
		if err != nil {
			t.Errorf("replay %s: %v", rf.Path, err)
			continue
		}
		opts := ugo.CompilerOptions{NoOptimize: c.NoOptimize}
		if len(c.Modules) > 0 {
			opts.ModuleMap = prog.ModuleMap(c.Modules, nil)
		}
		bc, cerr, pan := run.Compile(c.Src, opts)
		if cerr != nil || pan != "" {
			t.Errorf("replay %s: compile: %v %s", rf.Path, cerr, pan)
			continue
		}
		lg := &run.Logger{}
		got := run.Exec(bc, run.Globals(globals, lg), lg, args, run.Opts{Recover: true})
		cmpMsg := c.Expected.ErrName == "" || c.Expected.ErrName == "error"
		if d := got.Diff(c.Expected, cmpMsg); d != "" {
			what := fmt.Sprintf("replay %s: %s\n--- script ---\n%s\nVM : %s\nREF: %s", rf.Path, d, c.Src, got, c.Expected)
			if !rec.Violation(rf.Sig, what, c) {
				t.Errorf("%s", what)
			}
		} else {
			rec.Class("replay-pass")
		}
	}
}
