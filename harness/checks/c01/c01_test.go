// C01 - the optimizer never changes what a script does.
// Oracle: differential (NoOptimize vs every optimizer budget) + legitimacy of refusals.
package c01

import (
	"encoding/json"
	"errors"
	"fmt"
	"math"
	"regexp"
	"strconv"
	"strings"
	"testing"

	"github.com/ozanh/ugo"
	"github.com/ozanh/ugo/parser"
	"pgregory.net/rapid"

	"verif/internal/canon"
	"verif/internal/ev"
	"verif/internal/gen"
	"verif/internal/prog"
	"verif/internal/run"
)

type replayCase struct {
	prog.Case
	Limit int    `json:"optimizer_limit"`
	Kind  string `json:"kind"`
}

var budgets = []int{1, 2, 3, 4, 5, 8, 13, 50}

func profiles() []gen.Config {
	base := gen.Config{MaxStmts: 24, MaxDepth: 4, MaxFnDepth: 3, MaxBlock: 4,
		Shadow: true, ConstHeavy: true, Closures: true, Calls: true, Try: true, Failing: true,
		Globals: true, Params: true, Print: true, Log: true, Floats: true, Consts: true, Destruct: true, DeepParen: true}
	noFail := base
	noFail.Failing = false
	mods := noFail
	mods.Modules = 1
	small := base
	small.MaxStmts = 8
	return []gen.Config{base, noFail, noFail, mods, small}
}

// optimizerErrors flattens err into optimizer errors; ok=false if any member is something else.
func optimizerErrors(err error) ([]*ugo.OptimizerError, bool) {
	var list []error
	if m, ok := err.(interface{ Errors() []error }); ok {
		list = m.Errors()
	} else {
		list = []error{err}
	}
	var out []*ugo.OptimizerError
	for _, e := range list {
		oe, ok := e.(*ugo.OptimizerError)
		if !ok {
			return nil, false
		}
		out = append(out, oe)
	}
	return out, len(out) > 0
}

var identRe = regexp.MustCompile(`[A-Za-z_][A-Za-z0-9_]*`)

// selfContained: the text uses no identifiers except builtin names and literals keywords.
func selfContained(text string) bool {
	// strip string and char literals
	stripped := regexp.MustCompile("\"(\\\\.|[^\"\\\\])*\"|'(\\\\.|[^'\\\\])*'|`[^`]*`").ReplaceAllString(text, "0")
	for _, id := range identRe.FindAllString(stripped, -1) {
		switch id {
		case "true", "false", "undefined", "u", "e", "x", "E":
			continue
		}
		if _, ok := ugo.BuiltinsMap[id]; ok {
			continue
		}
		// numeric suffixes like 1u, 1e5 are matched as identifiers after digits: accept pure suffixes
		if regexp.MustCompile(`^[eEuxX][0-9a-fA-F+-]*$`).MatchString(id) {
			continue
		}
		return false
	}
	return true
}

func TestCheck(t *testing.T) {
	rec := ev.New("C01")
	rec.Rule = "programs from the scope-aware generator with builtin-name shadowing through every binding form, constant-heavy expressions (all literal kinds/operators, whitelisted builtin calls on constants, const/iota, literal conditions, deep parentheses), closures, try, failing operations, params/globals/print x optimizer budgets {1,2,3,4,5,8,13,50,default}; outcome (value, output, globals, L-log, error name+message, panic) of the optimized bytecode compared with the unoptimized one; optimizer refusals must be OptimizerErrors whose sub-expression raises the same runtime error unoptimized. Non-trivial = the optimized bytecode differs structurally from the unoptimized one and both ran; distinct by (source, budget)"
	rec.Assumptions = []string{
		"error positions and compile-time vs run-time reporting of a constant sub-expression's error are not compared (allowed by the statement)",
		"map stringification / iteration order excluded by construction",
	}
	defer func() { rec.Flush(!t.Failed() || rec.HasUnknown()) }()

	runReplays(t, rec)
	if ev.ReplayOnly() {
		return
	}
	profs := profiles()
	n := ev.N(4000, 40000)
	ev.RapidCheck(t, "opt-vs-noopt", n, 1, func(rt *rapid.T) {
		cfg := profs[rapid.IntRange(0, len(profs)-1).Draw(rt, "profile")]
		gp := gen.Generate(rt, cfg)
		p := prog.Prepare(gp)
		// budgets for this case: default + 3 drawn
		lims := []int{0}
		for i := 0; i < 3; i++ {
			lims = append(lims, budgets[rapid.IntRange(0, len(budgets)-1).Draw(rt, "budget")])
		}
		checkProgram(rt, rec, p, gp.Features, lims)
	})
}

type failer interface {
	Fatalf(format string, args ...any)
}

func checkProgram(rt failer, rec *ev.Rec, p *prog.P, feat gen.Features, lims []int) {
	rec.Case()
	c := p.Case()
	ro := run.Opts{Recover: true, Capture: true}
	base, bc0, err0, pan0 := prog.RunVM(p, ugo.CompilerOptions{NoOptimize: true}, ro)
	if pan0 != "" {
		rec.Exclude("unoptimized-compile-panic(C05)")
		return
	}
	if err0 != nil {
		rt.Fatalf("HARNESS: generated program does not compile without optimizer: %v\n%s", err0, p.Src)
		return
	}
	if base.TimedOut {
		rec.Inconcl("watchdog-unoptimized")
		return
	}
	dump0 := canon.Bytecode(bc0)
	seen := map[int]bool{}
	for _, lim := range lims {
		if seen[lim] {
			continue
		}
		seen[lim] = true
		rc := replayCase{Case: c, Limit: lim}
		got, bcL, errL, panL := prog.RunVM(p, ugo.CompilerOptions{OptimizerLimit: lim}, ro)
		if panL != "" {
			rc.Kind = "compile-panic"
			what := fmt.Sprintf("Compile with optimizer (limit %d) panicked: %s\n--- script ---\n%s", lim, panL, p.Src)
			if rec.Violation("optimizer:compile-panic:"+panicClass(panL), what, rc) {
				continue
			}
			rt.Fatalf("%s", what)
			return
		}
		if errL != nil {
			oes, ok := optimizerErrors(errL)
			if !ok {
				rc.Kind = "foreign-compile-error"
				what := fmt.Sprintf("script compiles unoptimized but with optimizer (limit %d) fails with a non-optimizer error: %v\n--- script ---\n%s", lim, errL, p.Src)
				if rec.Violation("optimizer:foreign-compile-error", what, rc) {
					continue
				}
				rt.Fatalf("%s", what)
				return
			}
			rec.Class("refusal")
			for _, oe := range oes {
				if bad := checkRefusal(rec, p, oe); bad != "" {
					rc.Kind = "bad-refusal"
					what := fmt.Sprintf("optimizer (limit %d) refused the script illegitimately: %s\n--- script ---\n%s", lim, bad, p.Src)
					if rec.Violation("optimizer:bad-refusal", what, rc) {
						continue
					}
					rt.Fatalf("%s", what)
					return
				}
			}
			continue
		}
		if got.TimedOut {
			rec.Inconcl("watchdog-optimized")
			continue
		}
		if d := got.Diff(base, true); d != "" {
			rc.Kind = "outcome"
			what := fmt.Sprintf("optimizer (limit %d) changed the outcome: %s\n--- script ---\n%s\nargs=%v globals=%v\nOPT  : %s\nNOOPT: %s", lim, d, p.Src, c.Args, c.Globals, got, base)
			if rec.Violation(sigOf(d, feat), what, rc) {
				continue
			}
			rt.Fatalf("%s", what)
			return
		}
		if canon.Bytecode(bcL) != dump0 {
			rec.NonTriv(fmt.Sprintf("%d\x00%s", lim, p.Src))
			rec.Class("folded")
			if lim != 0 && lim < feat["const-expr"] {
				rec.Class("budget-smaller-than-foldable-sites")
			}
		} else {
			rec.Class("nothing-folded")
		}
	}
	for _, k := range []string{"call-shadowed-builtin", "shadow-define", "shadow-var", "shadow-const", "shadow-param", "shadow-forin", "shadow-scalar", "call-shadowed-catch-ident", "if-const-cond", "deep-paren", "const-group", "iota", "source-module", "try"} {
		if feat[k] > 0 {
			rec.Class(k)
		}
	}
	if base.IsErr {
		rec.Class("outcome-error")
	}
	rec.Sample(map[string]any{"src": p.Src, "args": c.Args, "budgets": lims, "outcome": base.String()})
}

func panicClass(s string) string {
	s = regexp.MustCompile(`[0-9]+`).ReplaceAllString(s, "N")
	if len(s) > 60 {
		s = s[:60]
	}
	return s
}

func sigOf(d string, f gen.Features) string {
	kind := strings.SplitN(d, " ", 2)[0]
	var fam []string
	for _, k := range []string{"call-shadowed-builtin", "call-shadowed-catch-ident", "shadow-forin", "shadow-param", "shadow-const", "const-group", "if-const-cond", "deep-paren", "source-module"} {
		if f[k] > 0 {
			fam = append(fam, k)
		}
	}
	return "optimizer:outcome:" + kind + ":" + strings.Join(fam, "+")
}

// checkRefusal verifies "the optimizer may refuse a script only by reporting the
// runtime error one of the script's own constant sub-expressions raises".
func checkRefusal(rec *ev.Rec, p *prog.P, oe *ugo.OptimizerError) string {
	var re *ugo.RuntimeError
	var ue *ugo.Error
	if !errors.As(oe.Err, &re) && !errors.As(oe.Err, &ue) {
		return fmt.Sprintf("optimizer error does not wrap a uGO runtime error: %T %v", oe.Err, oe.Err)
	}
	wantName, wantMsg := canon.ErrName(oe.Err)
	if oe.Node == nil {
		return ""
	}
	// the node rendered back to source by the parser's own String() (UnaryExpr.Pos() points at
	// the operand, so slicing the script by Pos/End would lose the operator)
	if oe.FilePos.Filename != "(main)" && oe.FilePos.Filename != "" {
		rec.Exclude("refusal-in-module(re-evaluation skipped)")
		return ""
	}
	// render the node from the VALUES held in the AST (the Literal fields of folded or substituted
	// literals are not faithful: "-0" for a float, "5" for a uint, "" for a const literal)
	text, ok := renderNode(oe.Node)
	if !ok {
		rec.Exclude("refusal-node-kind-not-rendered(re-evaluation skipped)")
		return ""
	}
	if !selfContained(text) {
		rec.Exclude("refusal-not-self-contained(re-evaluation skipped)")
		return ""
	}
	bc, err, pan := run.Compile("return "+text, ugo.CompilerOptions{NoOptimize: true})
	if err != nil || pan != "" {
		rec.Exclude("refusal-text-not-compilable-alone")
		return ""
	}
	out := run.Exec(bc, nil, nil, nil, run.Opts{Recover: true})
	if !out.IsErr {
		return fmt.Sprintf("sub-expression %q evaluates fine unoptimized (%s) but the optimizer reported %s: %s", text, out, wantName, wantMsg)
	}
	if out.ErrName != wantName || out.ErrMsg != wantMsg {
		return fmt.Sprintf("sub-expression %q raises %s: %q unoptimized but the optimizer reported %s: %q", text, out.ErrName, out.ErrMsg, wantName, wantMsg)
	}
	rec.Class("refusal-confirmed")
	return ""
}

// renderNode renders an expression node back to source from the values in the AST.
func renderNode(n parser.Node) (string, bool) {
	switch e := n.(type) {
	case *parser.IntLit:
		if e.Value == math.MinInt64 {
			return "(-9223372036854775807 - 1)", true
		}
		if e.Value < 0 {
			return "(" + strconv.FormatInt(e.Value, 10) + ")", true
		}
		return strconv.FormatInt(e.Value, 10), true
	case *parser.UintLit:
		return strconv.FormatUint(e.Value, 10) + "u", true
	case *parser.FloatLit:
		f := e.Value
		if math.IsNaN(f) || math.IsInf(f, 0) {
			return "", false
		}
		if math.Signbit(f) {
			return "(-" + gen.FloatText(-f) + ")", true
		}
		return gen.FloatText(f), true
	case *parser.StringLit:
		return gen.ExprSrc(gen.StrLit(e.Value)), true
	case *parser.CharLit:
		return gen.ExprSrc(&gen.Lit{Kind: gen.LChar, I: int64(e.Value)}), true
	case *parser.BoolLit:
		return strconv.FormatBool(e.Value), true
	case *parser.UndefinedLit:
		return "undefined", true
	case *parser.Ident:
		return e.Name, true
	case *parser.ParenExpr:
		x, ok := renderNode(e.Expr)
		return "(" + x + ")", ok
	case *parser.UnaryExpr:
		x, ok := renderNode(e.Expr)
		return "(" + e.Token.String() + "(" + x + "))", ok
	case *parser.BinaryExpr:
		l, ok1 := renderNode(e.LHS)
		r, ok2 := renderNode(e.RHS)
		return "((" + l + ") " + e.Token.String() + " (" + r + "))", ok1 && ok2
	case *parser.CondExpr:
		c, ok1 := renderNode(e.Cond)
		a, ok2 := renderNode(e.True)
		b, ok3 := renderNode(e.False)
		return "((" + c + ") ? (" + a + ") : (" + b + "))", ok1 && ok2 && ok3
	case *parser.CallExpr:
		f, ok := renderNode(e.Func)
		if !ok || e.Ellipsis.IsValid() {
			return "", false
		}
		var args []string
		for _, a := range e.Args {
			x, ok := renderNode(a)
			if !ok {
				return "", false
			}
			args = append(args, x)
		}
		return f + "(" + strings.Join(args, ", ") + ")", true
	case *parser.IndexExpr:
		x, ok1 := renderNode(e.Expr)
		i, ok2 := renderNode(e.Index)
		return "(" + x + ")[" + i + "]", ok1 && ok2
	case *parser.ArrayLit:
		var el []string
		for _, a := range e.Elements {
			x, ok := renderNode(a)
			if !ok {
				return "", false
			}
			el = append(el, x)
		}
		return "[" + strings.Join(el, ", ") + "]", true
	}
	return "", false
}

type tfail struct {
	t      *testing.T
	failed bool
}

func (f *tfail) Fatalf(format string, args ...any) {
	f.failed = true
	f.t.Errorf(format, args...)
}

func runReplays(t *testing.T, rec *ev.Rec) {
	for _, rf := range rec.Replays() {
		var c replayCase
		if err := json.Unmarshal(rf.Case, &c); err != nil {
			t.Errorf("bad replay %s: %v", rf.Path, err)
			continue
		}
		args, globals, err := prog.CaseInputs(c.Case)
		if err != nil {
			t.Errorf("replay %s: %v", rf.Path, err)
			continue
		}
		p := &prog.P{G: &gen.GenProgram{}, Src: c.Src, ModSrc: c.Modules, Args: args, Globals: globals}
		p.G.Features = gen.Features{}
		rp := &replayProg{P: p, c: c.Case}
		_ = rp
		f := &tfail{t: t}
		checkProgramCase(f, rec, p, c.Case, []int{c.Limit, 0})
		if !f.failed {
			rec.Class("replay-pass")
		}
	}
}

type replayProg struct {
	*prog.P
	c prog.Case
}

// checkProgramCase is checkProgram for a program given as text (no generator AST).
func checkProgramCase(rt failer, rec *ev.Rec, p *prog.P, c prog.Case, lims []int) {
	// prog.P.Case() needs the generator AST; replay programs carry their Case already.
	pp := *p
	pp.G = &gen.GenProgram{Features: gen.Features{}}
	checkProgramWithCase(rt, rec, &pp, c, lims)
}

func checkProgramWithCase(rt failer, rec *ev.Rec, p *prog.P, c prog.Case, lims []int) {
	// same as checkProgram but with a fixed Case (duplicated minimal logic through a shim)
	shim := &caseShim{P: p, c: c}
	checkProgramShim(rt, rec, shim, lims)
}

type caseShim struct {
	*prog.P
	c prog.Case
}

func checkProgramShim(rt failer, rec *ev.Rec, s *caseShim, lims []int) {
	// Build a GenProgram whose Args/Globals render to the stored literals is not possible without
	// the AST, so run the core with a P whose Case() is bypassed: temporarily wrap by copying fields.
	rec.Case()
	ro := run.Opts{Recover: true, Capture: true}
	p := s.P
	base, _, err0, pan0 := prog.RunVM(p, ugo.CompilerOptions{NoOptimize: true}, ro)
	if pan0 != "" || err0 != nil {
		rt.Fatalf("replay: unoptimized compile failed: %v %s", err0, pan0)
		return
	}
	for _, lim := range lims {
		got, _, errL, panL := prog.RunVM(p, ugo.CompilerOptions{OptimizerLimit: lim}, ro)
		rc := replayCase{Case: s.c, Limit: lim}
		switch {
		case panL != "":
			what := fmt.Sprintf("replay: Compile with optimizer (limit %d) panicked: %s\n%s", lim, panL, p.Src)
			if !rec.Violation("optimizer:compile-panic:"+panicClass(panL), what, rc) {
				rt.Fatalf("%s", what)
			}
		case errL != nil:
			oes, ok := optimizerErrors(errL)
			if !ok {
				what := fmt.Sprintf("replay: non-optimizer compile error with limit %d: %v\n%s", lim, errL, p.Src)
				if !rec.Violation("optimizer:foreign-compile-error", what, rc) {
					rt.Fatalf("%s", what)
				}
				continue
			}
			for _, oe := range oes {
				if bad := checkRefusal(rec, p, oe); bad != "" {
					what := fmt.Sprintf("replay: illegitimate refusal (limit %d): %s\n%s", lim, bad, p.Src)
					if !rec.Violation("optimizer:bad-refusal", what, rc) {
						rt.Fatalf("%s", what)
					}
				}
			}
		default:
			if d := got.Diff(base, true); d != "" {
				what := fmt.Sprintf("replay: optimizer (limit %d) changed the outcome: %s\n--- script ---\n%s\nOPT  : %s\nNOOPT: %s", lim, d, p.Src, got, base)
				if !rec.Violation(sigOf(d, gen.Features{}), what, rc) {
					rt.Fatalf("%s", what)
				}
			}
		}
	}
}
