// C07 - a run's outcome depends only on bytecode, globals and arguments.
//
// Rapid state machine over ONE long-lived VM: a pool of 8..12 scripts with known
// termination kinds (generated programs + templates that panic in Go callbacks,
// overflow the value stack / the frame stack, are aborted from another
// goroutine, import stateful source modules and a builtin module, leave
// closures and pointer boxes in high stack slots, call back through Invoker).
// Model = the outcome of the same bytecode and inputs on a brand-new VM.
package c07

import (
	"bytes"
	"encoding/json"
	"flag"
	"fmt"
	"io"
	"os"
	"sort"
	"strings"
	"testing"
	"time"

	"github.com/ozanh/ugo"
	"github.com/ozanh/ugo/encoder"
	"pgregory.net/rapid"

	"verif/internal/canon"
	"verif/internal/ev"
	"verif/internal/gen"
	"verif/internal/prog"
	"verif/internal/run"
)

const maxActions = 25

// action is one replayable step on the long-lived VM.
type action struct {
	Op   string `json:"op"` // newVM | run | abortRun | clear | setBytecode | setRecover | encode | observe | runNew
	I    int    `json:"i"`
	B    bool   `json:"b,omitempty"`
	Mode string `json:"mode,omitempty"` // observe: clear | set | clear+set | set+clear
}

func (a action) String() string {
	switch a.Op {
	case "clear":
		return "clear"
	case "setRecover":
		return fmt.Sprintf("setRecover(%v)", a.B)
	case "newVM", "runNew":
		return fmt.Sprintf("%s(%d,%v)", a.Op, a.I, a.B)
	case "observe":
		return fmt.Sprintf("observe[%s](%d)", a.Mode, a.I)
	}
	return fmt.Sprintf("%s(%d)", a.Op, a.I)
}

type replayCase struct {
	Scripts  []scriptCase `json:"scripts"`
	Actions  []action     `json:"actions"`
	Full     bool         `json:"full"`     // canon dumps compared in addition to the fingerprints
	Observed int          `json:"observed"` // index of the failing action
	Script   int          `json:"script"`   // pool index of the script under observation
	Expected *run.Outcome `json:"expected,omitempty"`
	Got      *run.Outcome `json:"got,omitempty"`
}

type viol struct {
	sig, what string
	script    int
	exp, got  *run.Outcome
}

// script is a compiled pool entry.
type script struct {
	scriptCase
	bc       *ugo.Bytecode
	args     []ugo.Object
	globals  ugo.Map
	imports  bool
	fp0      fingerprint
	dump0    string
	encFp0   fingerprint // of the program decoded from the encoding taken before any run
	encDump0 string
	encOK    bool
	model    [2]*run.Outcome // by recover setting; nil = no verdict (yet)
	noModel  [2]bool         // no verdict possible (nondeterministic script, watchdog)
	kind     [2]string       // termination kind of the model outcome
}

func b2i(b bool) int {
	if b {
		return 1
	}
	return 0
}

var errExcluded = fmt.Errorf("excluded")

func compileCase(c scriptCase) (*ugo.Bytecode, error, string) {
	opts := ugo.CompilerOptions{NoOptimize: c.NoOptimize, ModuleMap: prog.ModuleMap(c.Modules, builtinMod())}
	return run.Compile(c.Src, opts)
}

// ------------------------------------------------------------------ execution

func finishOutcome(o *run.Outcome, e *runEnv) {
	o.Log = append([]string{}, e.lg.Log...)
	g := make(ugo.Map, len(e.globals))
	for k, v := range e.globals {
		switch k {
		case "L", "STARTED", "PANIC", "GOERR", "INVOKE", "INVOKE2": // the harness' own callbacks
		default:
			g[k] = v
		}
	}
	o.Globals = canon.Value(g)
}

// execAbort runs an endless-loop script and aborts it from this goroutine once
// the script signalled (through the STARTED callback) that it is running.
func execAbort(vm *ugo.VM, e *runEnv, timeout time.Duration) run.Outcome {
	type res struct {
		v   ugo.Object
		err error
		pan string
	}
	ch := make(chan res, 1)
	go func() {
		var r res
		defer func() {
			if p := recover(); p != nil {
				r.pan = run.FirstLine(fmt.Sprint(p))
				if r.pan == "" {
					r.pan = "panic"
				}
			}
			ch <- r
		}()
		r.v, r.err = vm.Run(e.globals, e.args...)
	}()
	var out run.Outcome
	var r res
	done := false
	tm := time.NewTimer(timeout)
	defer tm.Stop()
	select {
	case <-e.started:
		vm.Abort()
	case r = <-ch:
		done = true // terminated before reaching the loop
	case <-tm.C:
		vm.Abort()
	}
	if !done {
		tm2 := time.NewTimer(timeout)
		defer tm2.Stop()
		select {
		case r = <-ch:
		case <-tm2.C:
			out.TimedOut = true
			return out
		}
	}
	finishOutcome(&out, e)
	switch {
	case r.pan != "":
		out.Panic = r.pan
	case r.err != nil:
		out.IsErr = true
		out.ErrName, out.ErrMsg = canon.ErrName(r.err)
		out.ErrMsg = cutGoStack(out.ErrMsg)
		if out.ErrName == "VMAbortedError" {
			out.ErrMsg = "" // where the abort arrived is not part of the outcome
		}
	default:
		out.Value = canon.Value(r.v)
	}
	return out
}

func (s *script) exec(vm *ugo.VM, timeout time.Duration) run.Outcome {
	e := newEnv(s.globals, s.args)
	if s.Abort {
		return execAbort(vm, e, timeout)
	}
	if s.NilGlobals {
		o := run.ExecVM(vm, nil, e.lg, e.args, run.Opts{Timeout: timeout, WantLoc: true})
		o.ErrMsg = cutGoStack(o.ErrMsg)
		if !o.TimedOut {
			o.Log = nil
			if g, ok := vm.GetGlobals().(ugo.Map); ok {
				o.Globals = canon.Value(g)
			} else {
				o.Globals = fmt.Sprintf("%T", vm.GetGlobals())
			}
		}
		return o
	}
	o := run.ExecVM(vm, e.globals, e.lg, e.args, run.Opts{Timeout: timeout, WantLoc: true})
	o.ErrMsg = cutGoStack(o.ErrMsg)
	if !o.TimedOut {
		finishOutcome(&o, e)
	}
	return o
}

// cutGoStack removes the Go stack dump (goroutine ids, addresses) that the VM
// appends to the message of a recovered panic; it is not part of the outcome.
func cutGoStack(s string) string {
	if i := strings.Index(s, "\nGo Stack:"); i >= 0 {
		return s[:i]
	}
	return s
}

func (s *script) execFresh(rec bool, timeout time.Duration) run.Outcome {
	vm := ugo.NewVM(s.bc)
	if rec {
		vm.SetRecover(true)
	}
	return s.exec(vm, timeout)
}

func diffOutcome(got, exp run.Outcome) string {
	if d := got.Diff(exp, true); d != "" {
		return d
	}
	if a, b := strings.Join(got.Trace, " "), strings.Join(exp.Trace, " "); a != b {
		return fmt.Sprintf("stack trace [%s] vs [%s]", a, b)
	}
	return ""
}

// termKind classifies how a run ended.
func termKind(o run.Outcome, s *script, rec bool) string {
	const ovf = "index out of range [2048"
	switch {
	case o.TimedOut:
		return "timeout"
	case o.Panic != "":
		if strings.Contains(o.Panic, ovf) {
			return "vstack-overflow-escaped"
		}
		return "escaped-panic"
	case o.ErrName == "VMAbortedError":
		return "abort"
	case o.ErrName == "StackOverflowError":
		return "frame-overflow"
	case o.ErrName == "goerror" && strings.Contains(o.ErrMsg, ovf):
		return "vstack-overflow-recovered"
	case o.ErrName == "goerror" && strings.HasPrefix(o.ErrMsg, "panic:"):
		return "recovered-panic"
	case o.IsErr:
		return "error"
	}
	if rec {
		switch {
		case s.Kind == "cb-panic" && (s.Tag == "caught" || s.Tag == "caught-in-callee"):
			return "recovered-panic-caught"
		case (s.Kind == "invoker" || s.Kind == "highslots") && strings.HasPrefix(strings.TrimPrefix(strings.TrimPrefix(s.Tag, "INVOKE2:"), "INVOKE:"), "panic+caught"):
			return "recovered-panic-caught"
		case s.Kind == "frames" && s.Tag == "caught":
			return "frame-overflow-caught"
		}
	}
	if s.Kind == "frames" && s.Tag == "caught" {
		return "frame-overflow-caught"
	}
	return "return"
}

// likelyAbnormal: the template is meant to end abnormally (used only to steer
// the choice of scripts before the model outcome is known).
func likelyAbnormal(c scriptCase) bool {
	switch c.Kind {
	case "cb-panic", "vstack", "frames":
		return true
	case "highslots":
		return !strings.HasPrefix(c.Tag, "none")
	case "tryscope":
		return strings.HasPrefix(c.Tag, "panic:")
	case "modules":
		return c.Tag == "fail-after-import"
	case "invoker":
		return !strings.HasSuffix(c.Tag, ":none") && !strings.HasSuffix(c.Tag, "+caught")
	}
	return false
}

// -------------------------------------------------------------------- machine

type machine struct {
	rec     *ev.Rec
	timeout time.Duration
	cases   []scriptCase
	pool    []*script

	vm      *ugo.VM
	cur     int
	recover bool
	fresh   bool // no run since NewVM / Clear / SetBytecode
	dead    bool // watchdog fired: the VM was abandoned
	dirty   bool // something happened since the last invariant check
	full    bool // canon dumps in addition to fingerprints

	hist        []action
	kinds       []string // abnormal termination kinds seen on the long-lived VM, in order
	lastAbn     string
	compared    int
	comparedAbn int
	classes     map[string]int
}

func decodeDump(bc *ugo.Bytecode, full bool) (fp fingerprint, dump string, err error) {
	defer func() {
		if p := recover(); p != nil {
			err = fmt.Errorf("panic: %v", p)
		}
	}()
	var buf bytes.Buffer
	if err = encoder.EncodeBytecodeTo(bc, &buf); err != nil {
		return fp, "", fmt.Errorf("encode: %w", err)
	}
	back, err := encoder.DecodeBytecodeFrom(bytes.NewReader(buf.Bytes()), prog.ModuleMap(nil, builtinMod()))
	if err != nil {
		return fp, "", fmt.Errorf("decode: %w", err)
	}
	if full {
		dump = canon.Bytecode(back)
	}
	return fingerprintOf(back), dump, nil
}

// newMachine compiles the pool. full: canon dumps are compared in addition to
// the fingerprints. Model outcomes are computed on first use (see model).
func newMachine(rec *ev.Rec, cases []scriptCase, full bool, timeout time.Duration) (*machine, error) {
	m := &machine{rec: rec, timeout: timeout, cases: cases, full: full, classes: map[string]int{}, lastAbn: "none"}
	for ci := range cases {
		c := cases[ci]
		bc, err, pan := compileCase(c)
		if err != nil && pan == "" && c.Kind == "gen" && !c.NoOptimize && strings.Contains(err.Error(), "ptimizer") {
			// the optimizer reports constant expressions that fail (by design, C01): run the unoptimized program
			rec.Class("gen-script-recompiled-with-NoOptimize(optimizer reports a failing constant expression)")
			cases[ci].NoOptimize = true
			c = cases[ci]
			bc, err, pan = compileCase(c)
		}
		if pan != "" {
			rec.Exclude("compile-panic(C05)")
			return nil, errExcluded
		}
		if err != nil {
			return nil, fmt.Errorf("HARNESS: %s script (%s) does not compile: %v\n%s", c.Kind, c.Tag, err, c.Src)
		}
		args, globals, err := prog.CaseInputs(c.Case)
		if err != nil {
			return nil, fmt.Errorf("HARNESS: inputs of %s script: %v", c.Kind, err)
		}
		s := &script{scriptCase: c, bc: bc, args: args, globals: globals, imports: bc.NumModules > 0}
		s.fp0 = fingerprintOf(bc)
		if full {
			s.dump0 = canon.Bytecode(bc)
		}
		if c.Enc {
			// baseline of the encode action, taken before the bytecode ever ran
			if fp, d, err := decodeDump(bc, full); err == nil {
				s.encFp0, s.encDump0, s.encOK = fp, d, true
			}
		}
		m.pool = append(m.pool, s)
	}
	return m, nil
}

// model returns the outcome of script i on a brand-new VM (computed at first
// use from two brand-new VMs that must agree).
func (m *machine) model(i int, rc bool) (*run.Outcome, *viol) {
	s := m.pool[i]
	r := b2i(rc)
	if s.model[r] != nil || s.noModel[r] {
		return s.model[r], nil
	}
	m.dirty = true
	o1 := s.execFresh(rc, m.timeout)
	o2 := s.execFresh(rc, m.timeout)
	if o1.TimedOut || o2.TimedOut {
		m.rec.Inconcl("model-watchdog")
		s.noModel[r] = true
		return nil, nil
	}
	if d := diffOutcome(o2, o1); d != "" {
		s.noModel[r] = true
		return nil, m.triageNondet(i, rc, o1, o2, d)
	}
	if s.Abort && o1.ErrName != "VMAbortedError" {
		s.noModel[r] = true
		return nil, &viol{sig: "HARNESS", what: fmt.Sprintf("HARNESS: abort script did not end with VMAbortedError on a new VM: %s\n%s", o1, s.Src)}
	}
	s.model[r] = &o1
	s.kind[r] = termKind(o1, s, rc)
	return s.model[r], nil
}

// triageNondet decides whether two differing fresh-VM runs of ONE bytecode are
// the script's own nondeterminism (excluded) or caused by re-using the bytecode.
func (m *machine) triageNondet(i int, rc bool, o1, o2 run.Outcome, d string) *viol {
	s := m.pool[i]
	var firsts []run.Outcome
	for k := 0; k < 3; k++ {
		bc, err, pan := compileCase(s.scriptCase)
		if err != nil || pan != "" {
			m.rec.Exclude("nondeterministic-script:" + s.Kind)
			return nil
		}
		t := *s
		t.bc = bc
		firsts = append(firsts, t.execFresh(rc, m.timeout))
	}
	for _, f := range firsts {
		if f.TimedOut || diffOutcome(f, firsts[0]) != "" {
			m.rec.Exclude("nondeterministic-script:" + s.Kind)
			return nil
		}
	}
	return &viol{sig: "reuse:same-bytecode-nondeterministic", script: i, exp: &o1, got: &o2,
		what: fmt.Sprintf("the same Bytecode run on two brand-new VMs (recover=%v) gives different outcomes although three fresh compilations of the script agree on their first run: %s\nhistory: %s\n--- script [%s %s] ---\n%s\nfirst : %s\nsecond: %s", rc, d, histString(m.hist), s.Kind, s.Tag, s.Src, o1, o2)}
}

// check is the invariant: no Bytecode of the pool was modified by executing it.
// final: also compare the canon dumps (when the machine keeps them).
func (m *machine) check(final bool) *viol {
	if !m.dirty && !final {
		return nil
	}
	m.dirty = false
	for i, s := range m.pool {
		fp := fingerprintOf(s.bc)
		what := s.fp0.diff(fp)
		if what == "" && final && m.full {
			if canon.Bytecode(s.bc) != s.dump0 {
				what = "other"
			}
		}
		if what != "" {
			return &viol{sig: "reuse:bytecode-modified:" + what, script: i,
				what: fmt.Sprintf("executing Bytecode modified it (%s differ from the state right after compilation; function constants with Free!=nil before/after: %d/%d)\nhistory: %s\n--- script %d [%s %s] ---\n%s", what, s.fp0.Free, fp.Free, histString(m.hist), i, s.Kind, s.Tag, s.Src)}
		}
	}
	return nil
}

func (m *machine) noteKind(k string) {
	if k != "return" {
		m.kinds = append(m.kinds, k)
		m.lastAbn = k
	}
}

// runOn executes script i on the long-lived VM (which must hold its bytecode)
// and compares with the model when the run is judged.
func (m *machine) runOn(i int, judged bool, how string) *viol {
	s := m.pool[i]
	exp, mv := m.model(i, m.recover)
	if mv != nil {
		return mv
	}
	got := s.exec(m.vm, m.timeout)
	m.fresh = false
	if got.TimedOut {
		m.rec.Inconcl("vm-watchdog")
		m.vm.Abort()
		m.dead = true
		return nil
	}
	k := termKind(got, s, m.recover)
	defer m.noteKind(k)
	if exp == nil {
		m.rec.Exclude("no-model")
		return nil
	}
	if !judged {
		m.rec.Exclude("rerun-keeps-module-cache")
		return nil
	}
	m.compared++
	m.classes["after:"+m.lastAbn]++
	m.classes["observed-kind:"+k]++
	m.classes["observed-script:"+s.Kind]++
	m.classes["observed-how:"+how]++
	if len(m.kinds) > 0 {
		m.comparedAbn++
	}
	if d := diffOutcome(got, *exp); d != "" {
		return &viol{sig: "reuse:outcome-differs-after:" + m.lastAbn, script: i, exp: exp, got: &got,
			what: fmt.Sprintf("outcome on a re-used VM (%s, recover=%v) differs from the outcome on a brand-new VM: %s\nhistory: %s\nabnormal terminations before: %v\n--- script %d [%s %s] ---\n%s\nused VM: %s\nnew VM : %s",
				how, m.recover, d, histString(m.hist), m.kinds, i, s.Kind, s.Tag, s.Src, got, *exp)}
	}
	return nil
}

func histString(h []action) string {
	parts := make([]string, len(h))
	for i, a := range h {
		parts[i] = a.String()
	}
	return strings.Join(parts, " ")
}

// apply executes one action.
func (m *machine) apply(a action) *viol {
	if a.I < 0 || a.I >= len(m.pool) {
		return nil
	}
	if a.Op != "newVM" && m.vm == nil {
		return nil
	}
	m.hist = append(m.hist, a)
	m.dirty = true
	s := m.pool[a.I]
	switch a.Op {
	case "newVM":
		m.vm = ugo.NewVM(s.bc)
		m.vm.SetRecover(a.B)
		m.cur, m.recover, m.fresh = a.I, a.B, true
	case "clear":
		m.vm.Clear()
		m.fresh = true
	case "setBytecode":
		m.vm.SetBytecode(s.bc)
		m.cur, m.fresh = a.I, true
	case "setRecover":
		m.vm.SetRecover(a.B)
		m.recover = a.B
	case "run", "abortRun":
		how := "re-run without Clear/SetBytecode"
		if m.fresh {
			how = "run after Clear/SetBytecode"
		}
		if m.cur != a.I {
			m.vm.SetBytecode(s.bc)
			m.cur, m.fresh = a.I, true
			how = "run after SetBytecode"
		}
		return m.runOn(a.I, m.fresh || !s.imports, how)
	case "observe":
		switch a.Mode {
		case "clear":
			if m.cur != a.I { // Clear alone keeps the bytecode
				m.vm.SetBytecode(s.bc)
			}
			m.vm.Clear()
		case "set":
			m.vm.SetBytecode(s.bc)
		case "set+clear":
			m.vm.SetBytecode(s.bc)
			m.vm.Clear()
		default:
			m.vm.Clear()
			m.vm.SetBytecode(s.bc)
		}
		m.cur, m.fresh = a.I, true
		return m.runOn(a.I, true, "observed run after "+a.Mode)
	case "runNew":
		exp, mv := m.model(a.I, a.B)
		if mv != nil {
			return mv
		}
		got := s.execFresh(a.B, m.timeout)
		if got.TimedOut {
			m.rec.Inconcl("vm-watchdog")
			return nil
		}
		if exp == nil {
			m.rec.Exclude("no-model")
			return nil
		}
		m.classes["rerun-on-new-vm"]++
		if d := diffOutcome(got, *exp); d != "" {
			return &viol{sig: "reuse:same-bytecode-nondeterministic", script: a.I, exp: exp, got: &got,
				what: fmt.Sprintf("running the same Bytecode again on a brand-new VM (recover=%v) gives a different outcome than its first run: %s\nhistory: %s\n--- script %d [%s %s] ---\n%s\nnow  : %s\nfirst: %s", a.B, d, histString(m.hist), a.I, s.Kind, s.Tag, s.Src, got, *exp)}
		}
	case "encode":
		if !s.Enc {
			return nil
		}
		if !s.encOK {
			m.rec.Exclude("encode-baseline-fails(C04)")
			return nil
		}
		m.classes["encode-after-run"]++
		fp, d, err := decodeDump(s.bc, m.full)
		if err != nil || fp != s.encFp0 || d != s.encDump0 {
			return &viol{sig: "reuse:encode-after-run-differs", script: a.I,
				what: fmt.Sprintf("Bytecode encoded after it was executed does not decode to the program it decoded to before any run (err=%v)\nhistory: %s\n--- script %d [%s %s] ---\n%s", err, histString(m.hist), a.I, s.Kind, s.Tag, s.Src)}
		}
	}
	return nil
}

func (m *machine) poolKey() string {
	var sb strings.Builder
	for _, c := range m.cases {
		sb.WriteString(c.Src)
		sb.WriteByte(0)
	}
	return sb.String()
}

// finish records the evidence of one sequence.
func (m *machine) finish() {
	rec := m.rec
	for k, n := range m.classes {
		rec.ClassN(k, n)
	}
	seen := map[string]bool{}
	for _, k := range m.kinds {
		if !seen[k] {
			seen[k] = true
			rec.Class("history-has:" + k)
		}
	}
	rec.ClassN("observed-runs", m.compared)
	rec.ClassN("observed-runs-after-abnormal", m.comparedAbn)
	rec.Class(fmt.Sprintf("distinct-abnormal-kinds-in-history:%d", len(seen)))
	if m.comparedAbn > 0 {
		rec.Class("nontrivial")
		rec.NonTriv(histString(m.hist) + "|" + m.poolKey())
	}
	var pk []string
	for i, c := range m.cases {
		k0, k1 := m.pool[i].kind[0], m.pool[i].kind[1]
		pk = append(pk, fmt.Sprintf("%d:%s/%s[%s|%s]", i, c.Kind, c.Tag, k0, k1))
	}
	rec.Sample(map[string]any{"pool(kind/tag[model kind recover off|on])": pk, "history": histString(m.hist), "abnormal": m.kinds,
		"observed_runs": m.compared, "observed_after_abnormal": m.comparedAbn})
}

func (m *machine) replayOf(v *viol) replayCase {
	return replayCase{Scripts: m.cases, Full: m.full, Actions: append([]action{}, m.hist...), Observed: len(m.hist) - 1, Script: v.script, Expected: v.exp, Got: v.got}
}

// ----------------------------------------------------------------------- test

func TestCheck(t *testing.T) {
	ugo.PrintWriter = io.Discard
	rec := ev.New("C07")
	rec.Rule = "rapid state machine: per case a pool of 8-12 scripts compiled once (generated programs with closures/try/failing ops/0-2 source modules/consts/destructuring/recursion + templates: Go callback panic, value-stack overflow, frame overflow, endless loop aborted from another goroutine after it signalled STARTED, stateful source modules + builtin module, closures and pointer boxes in high slots, Invoker callbacks), then <= 25 actions on ONE VM (run, re-run, runAbnormal, abortRun, clear, setBytecode, setRecover, encode, runNew, observe = Clear and/or SetBytecode then run k) + one final observe; every judged run is compared (value, error name+message, escaped panic, globals, L-log, stack trace) with the outcome of the same bytecode+inputs+recover setting on a brand-new VM; after every action every Bytecode of the pool must equal its state at compile time (fingerprint each step, canon dump at the end; Free==nil). Non-trivial = a judged run whose VM history contains >= 1 abnormal termination (error, recovered/escaped panic, value-stack/frame overflow, abort); distinct by action sequence + pool sources"
	rec.Assumptions = []string{
		"model outcome = first run on a brand-new VM; a script whose two first runs on new VMs differ is excluded when fresh compilations disagree too (script nondeterminism), otherwise reported as same-bytecode nondeterminism",
		"re-running without Clear/SetBytecode keeps the module cache by design: such runs are judged only for import-free scripts",
		"an aborted run's outcome is VMAbortedError + log + globals (the loops do not touch either); the abort is sent only after the script called STARTED, so C09's abort-before-reset window is not exercised",
		"encode-after-run is compared with the encode->decode dump taken before any run (encoder round-trip fidelity itself belongs to C04)",
		"every run gets deep-copied globals/args and brand-new Go callbacks; ugo.PrintWriter = io.Discard; watchdog expiry is inconclusive and the VM is abandoned",
	}
	defer func() { rec.Flush(!t.Failed() || rec.HasUnknown()) }()

	timeout := 10 * time.Second
	runReplays(t, rec, timeout)
	if ev.ReplayOnly() {
		return
	}

	_ = flag.Set("rapid.steps", "20")
	n := ev.N(1500, 20000)
	ev.RapidCheck(t, "vm-reuse", n, 1, func(rt *rapid.T) {
		cases := drawPool(rt)
		full := gen.Uniform(rt, 4, "fulldump") == 0
		rec.Case()
		m, err := newMachine(rec, cases, full, timeout)
		if err == errExcluded {
			return
		}
		if err != nil {
			rt.Fatalf("%v", err)
		}
		report := func(v *viol) {
			if v == nil {
				return
			}
			if v.sig == "HARNESS" {
				rt.Fatalf("%s", v.what)
			}
			c := m.replayOf(v)
			if rec.Violation(v.sig, v.what, c) {
				return
			}
			rt.Fatalf("%s", v.what)
		}

		var aborts, nonAbort []int
		for i, s := range m.pool {
			if s.Abort {
				aborts = append(aborts, i)
			} else {
				nonAbort = append(nonAbort, i)
			}
		}
		// scripts expected to end abnormally under the current recover setting:
		// the model's verdict when it is known already, else the template's intent
		abnormalNow := func() []int {
			var xs []int
			for _, i := range nonAbort {
				s := m.pool[i]
				if k := s.kind[b2i(m.recover)]; k != "" {
					if k != "return" {
						xs = append(xs, i)
					}
				} else if likelyAbnormal(s.scriptCase) {
					xs = append(xs, i)
				}
			}
			return xs
		}
		pick := func(xs []int, label string) int { return xs[gen.Uniform(rt, len(xs), label)] }
		step := func(a action) {
			if m.dead || len(m.hist) >= maxActions {
				return
			}
			report(m.apply(a))
		}
		modes := []string{"clear", "set", "clear+set", "set+clear"}
		observe := func() {
			mode := modes[gen.Uniform(rt, len(modes), "mode")]
			k := m.cur
			if mode != "clear" || gen.Uniform(rt, 4, "other") == 0 {
				k = gen.Uniform(rt, len(m.pool), "k")
				if m.pool[k].Abort && gen.Uniform(rt, 3, "keepabort") != 0 {
					k = pick(nonAbort, "k2")
				}
			}
			op := action{Op: "observe", I: k, Mode: mode}
			if m.dead {
				return
			}
			report(m.apply(op))
		}

		step(action{Op: "newVM", I: gen.Uniform(rt, len(m.pool), "first"), B: gen.Uniform(rt, 2, "recover") == 1})
		rt.Repeat(map[string]func(*rapid.T){
			"run": func(rt *rapid.T) { step(action{Op: "run", I: pick(nonAbort, "i")}) },
			"runAbnormal": func(rt *rapid.T) {
				xs := abnormalNow()
				if len(xs) == 0 {
					xs = nonAbort
				}
				step(action{Op: "run", I: pick(xs, "i")})
			},
			"rerun": func(rt *rapid.T) {
				if m.pool[m.cur].Abort {
					if gen.Uniform(rt, 3, "again") == 0 {
						step(action{Op: "abortRun", I: m.cur})
					} else {
						step(action{Op: "run", I: pick(nonAbort, "i")})
					}
				} else {
					step(action{Op: "run", I: m.cur})
				}
			},
			"abortRun":    func(rt *rapid.T) { step(action{Op: "abortRun", I: pick(aborts, "i")}) },
			"clear":       func(rt *rapid.T) { step(action{Op: "clear", I: m.cur}) },
			"setBytecode": func(rt *rapid.T) { step(action{Op: "setBytecode", I: gen.Uniform(rt, len(m.pool), "j")}) },
			"setRecover":  func(rt *rapid.T) { step(action{Op: "setRecover", I: m.cur, B: gen.Uniform(rt, 2, "b") == 1}) },
			"encode":      func(rt *rapid.T) { step(action{Op: "encode", I: gen.Uniform(rt, len(m.pool), "j")}) },
			"runNew": func(rt *rapid.T) {
				step(action{Op: "runNew", I: gen.Uniform(rt, len(m.pool), "j"), B: gen.Uniform(rt, 2, "b") == 1})
			},
			"observe": func(rt *rapid.T) {
				if len(m.hist) < maxActions {
					observe()
				}
			},
			"": func(rt *rapid.T) { report(m.check(false)) },
		})
		observe()
		report(m.check(true))
		// the bytecode under the VM's hands must still encode to the same program
		if s := m.pool[m.cur]; s.encOK && !m.dead {
			report(m.apply(action{Op: "encode", I: m.cur}))
		}
		m.finish()
	})
}

// runReplays re-executes stored action lists.
func runReplays(t *testing.T, rec *ev.Rec, timeout time.Duration) {
	for _, rf := range rec.Replays() {
		var c replayCase
		if err := json.Unmarshal(rf.Case, &c); err != nil {
			fmt.Fprintln(os.Stderr, "bad replay", rf.Path, err)
			continue
		}
		rec.Case()
		var found []*viol
		m, err := newMachine(rec, c.Scripts, true, timeout)
		if err != nil {
			if err != errExcluded {
				t.Errorf("replay %s: %v", rf.Path, err)
			}
			continue
		}
		{
			for _, a := range c.Actions {
				if m.dead {
					break
				}
				if v := m.apply(a); v != nil {
					found = append(found, v)
					break
				}
				if v := m.check(false); v != nil {
					found = append(found, v)
					break
				}
			}
			if len(found) == 0 {
				if v := m.check(true); v != nil {
					found = append(found, v)
				}
			}
		}
		if len(found) == 0 {
			rec.Class("replay-pass")
			continue
		}
		for _, v := range found {
			what := fmt.Sprintf("replay %s: %s", rf.Path, v.what)
			if !rec.Violation(v.sig, what, m.replayOf(v)) {
				t.Errorf("%s", what)
			}
		}
	}
}

var _ = sort.Strings
