package c07

// Script pool: generated programs + hand-written templates with a known
// termination kind. Every script is described by a replayable scriptCase and
// compiled exactly once per pool.

import (
	"errors"
	"fmt"
	"strings"
	"sync"

	"github.com/ozanh/ugo"
	"pgregory.net/rapid"

	"verif/internal/gen"
	"verif/internal/prog"
	"verif/internal/run"
)

// scriptCase is the replayable text form of one pool entry.
type scriptCase struct {
	Kind       string `json:"kind"`          // gen | cb-panic | vstack | frames | abort | modules | highslots | tryscope | invoker
	Tag        string `json:"tag,omitempty"` // template variant
	Abort      bool   `json:"abort,omitempty"`
	NoOptimize bool   `json:"no_optimize,omitempty"`
	Enc        bool   `json:"enc,omitempty"` // target of encode actions (baseline encoding taken before any run)
	// NilGlobals: the script is run with Run(nil, args...): the VM makes a globals map of its own for the run
	NilGlobals bool `json:"nil_globals,omitempty"`
	prog.Case
}

// tNilGlobals: scripts run without a globals object that read a global before writing it, count in it,
// and leave values behind: a later run without globals (of this or another script using the same
// names) must start from undefined again.
func tNilGlobals(rt *rapid.T) scriptCase {
	name := []string{"ng", "ng", "counter"}[gen.Uniform(rt, 3, "ngname")]
	var sb strings.Builder
	fmt.Fprintf(&sb, "global (%s, other)\n", name)
	fmt.Fprintf(&sb, "seen := [%s, other]\n", name)
	switch gen.Uniform(rt, 3, "ngform") {
	case 0:
		fmt.Fprintf(&sb, "%s = (%s == undefined) ? 1 : %s + 1\n", name, name, name)
	case 1:
		fmt.Fprintf(&sb, "%s = {k: seen}\nother = \"left behind\"\n", name)
	default:
		fmt.Fprintf(&sb, "f := func() { %s = [%s]; return %s }\nf()\n", name, name, name)
	}
	tag := "returns"
	if gen.Uniform(rt, 3, "ngfail") == 0 {
		tag = "fails"
		fmt.Fprintf(&sb, "throw error(string(seen))\n")
	}
	fmt.Fprintf(&sb, "return [seen, %s, other]\n", name)
	return scriptCase{Kind: "nilglobals", Tag: tag, NilGlobals: true, Case: prog.Case{Src: sb.String()}}
}

// ---------------------------------------------------------------- environment

// builtinMod is the synthetic builtin module "bm" (a fresh map per compilation).
func builtinMod() map[string]map[string]ugo.Object {
	return map[string]map[string]ugo.Object{
		"bm": {
			"k":   ugo.Int(7),
			"s":   ugo.String("bm"),
			"arr": ugo.Array{ugo.Int(1), ugo.Int(2), ugo.Array{ugo.Int(3)}},
			"m":   ugo.Map{"x": ugo.Int(1)},
			"twice": &ugo.Function{Name: "twice", Value: func(args ...ugo.Object) (ugo.Object, error) {
				if len(args) != 1 {
					return nil, ugo.ErrWrongNumArguments.NewError("want=1")
				}
				if v, ok := args[0].(ugo.Int); ok {
					return v * 2, nil
				}
				return nil, ugo.ErrType.NewError("int wanted")
			}},
		},
	}
}

// runEnv is the per-run set of inputs: deep-copied globals and arguments and
// brand-new Go callbacks (no state survives a run).
type runEnv struct {
	globals ugo.Map
	lg      *run.Logger
	args    []ugo.Object
	started chan struct{}
}

func invoke(pooled bool) func(c ugo.Call) (ugo.Object, error) {
	return func(c ugo.Call) (ugo.Object, error) {
		if c.Len() < 1 {
			return nil, ugo.ErrWrongNumArguments.NewError("want>=1")
		}
		args := make([]ugo.Object, 0, c.Len()-1)
		for i := 1; i < c.Len(); i++ {
			args = append(args, c.Get(i))
		}
		inv := ugo.NewInvoker(c.VM(), c.Get(0))
		if pooled {
			inv.Acquire()
			defer inv.Release()
		}
		return inv.Invoke(args...)
	}
}

func newEnv(globals ugo.Map, args []ugo.Object) *runEnv {
	e := &runEnv{lg: &run.Logger{}, started: make(chan struct{})}
	e.globals = run.Globals(globals, e.lg)
	e.args = prog.CopyArgs(args)
	var once sync.Once
	e.globals["STARTED"] = &ugo.Function{Name: "STARTED", Value: func(args ...ugo.Object) (ugo.Object, error) {
		once.Do(func() { close(e.started) })
		return ugo.Undefined, nil
	}}
	e.globals["PANIC"] = &ugo.Function{Name: "PANIC", Value: func(args ...ugo.Object) (ugo.Object, error) {
		if len(args) > 0 {
			panic("PANIC " + args[0].String())
		}
		panic("PANIC")
	}}
	e.globals["GOERR"] = &ugo.Function{Name: "GOERR", Value: func(args ...ugo.Object) (ugo.Object, error) {
		return nil, errors.New("goerr")
	}}
	e.globals["INVOKE"] = &ugo.Function{Name: "INVOKE", ValueEx: invoke(true)}
	e.globals["INVOKE2"] = &ugo.Function{Name: "INVOKE2", ValueEx: invoke(false)}
	return e
}

// ------------------------------------------------------------------ templates

func pickS(rt *rapid.T, label string, xs ...string) string {
	return xs[gen.Uniform(rt, len(xs), label)]
}

func intIn(rt *rapid.T, lo, hi int, label string) int {
	return lo + gen.Uniform(rt, hi-lo+1, label)
}

// failure statements used by several templates
func failStmt(kind string) string {
	switch kind {
	case "throw":
		return `throw "thrown"`
	case "throw-error":
		return `throw error("custom")`
	case "zerodiv":
		return `zz := 0; zz = 1 / zz`
	case "index":
		return `zz := [1]; zz = zz[5]`
	case "notcallable":
		return `zz := 1; zz()`
	case "goerr":
		return `GOERR()`
	case "panic":
		return `PANIC("tmpl")`
	}
	return `L("no failure")`
}

var failKinds = []string{"throw", "throw-error", "zerodiv", "index", "notcallable", "goerr", "panic", "none"}

// tCbPanic: a Go callback global panics inside nested calls of closures.
func tCbPanic(rt *rapid.T) scriptCase {
	depth := intIn(rt, 0, 12, "depth")
	caught := pickS(rt, "caught", "uncaught", "caught", "finally", "caught-in-callee", "finally-each-frame")
	var sb strings.Builder
	sb.WriteString("global (L, PANIC)\n")
	sb.WriteString("x := 10\nr := 0\n")
	sb.WriteString("var f\n")
	sb.WriteString("f = func(n, acc) {\n y := n + x\n g := func() { x++; return y + acc }\n")
	switch caught {
	case "caught-in-callee":
		sb.WriteString(" if n == 0 { try { PANIC(\"deep\") } catch e { L(string(e)); return g() } }\n")
		sb.WriteString(" return f(n-1, g()) + 1\n}\n")
	case "finally-each-frame":
		sb.WriteString(" try {\n  if n == 0 { PANIC(\"deep\"); return g() }\n  return f(n-1, g()) + 1\n } finally { x++ }\n}\n")
	default:
		sb.WriteString(" if n == 0 { PANIC(\"deep\"); return g() }\n")
		sb.WriteString(" return f(n-1, g()) + 1\n}\n")
	}
	call := fmt.Sprintf("r = f(%d, 1)", depth)
	switch caught {
	case "caught":
		sb.WriteString("try { " + call + " } catch e { L(\"caught\"); r = string(e) }\n")
	case "finally":
		sb.WriteString("try { " + call + " } finally { L(\"fin\"); x = -1 }\n")
	default:
		sb.WriteString(call + "\n")
	}
	sb.WriteString("return [r, x]\n")
	return scriptCase{Kind: "cb-panic", Tag: caught, Case: prog.Case{Src: sb.String()}}
}

// tVStack: value-stack overflow.
func tVStack(rt *rapid.T) scriptCase {
	v := pickS(rt, "variant", "recursion", "recursion-locals", "wide-array", "recursion-try", "recursion-try-each-frame")
	var src string
	switch v {
	case "recursion":
		src = "var f\nf = func(n) { return 1 + f(n+1) }\nreturn f(0)\n"
	case "recursion-locals":
		src = "global L\nvar f\nf = func(n) { a := n; b := [a]; c := func() { return a + len(b) }; return c() + f(n+1) }\nreturn f(0)\n"
	case "recursion-try-each-frame":
		src = "var f\nf = func(n) { try { return 1 + f(n+1) } catch e { throw e } finally { n = 0 } }\nreturn f(0)\n"
	case "recursion-try":
		src = "global L\nvar f\nf = func(n) { return 1 + f(n+1) }\nr := 0\ntry { r = f(0) } catch e { L(\"caught\"); r = -1 } finally { L(\"fin\") }\nreturn r\n"
	default:
		n := intIn(rt, 2100, 2300, "width")
		var sb strings.Builder
		sb.WriteString("n := 1\nreturn [")
		for i := 0; i < n; i++ {
			if i > 0 {
				sb.WriteByte(',')
			}
			sb.WriteString("n")
		}
		sb.WriteString("]\n")
		src = sb.String()
	}
	return scriptCase{Kind: "vstack", Tag: v, Case: prog.Case{Src: src}}
}

// tFrames: more than 1023 nested calls with one stack slot each.
func tFrames(rt *rapid.T) scriptCase {
	v := pickS(rt, "variant", "plain", "caught", "finally", "closure")
	var src string
	switch v {
	case "plain":
		src = "var f\nf = func() { f(); return 1 }\nreturn f()\n"
	case "caught":
		src = "global L\nvar f\nf = func() { f(); return 1 }\nr := 0\ntry { r = f() } catch e { L(\"caught\"); r = string(e) }\nreturn r\n"
	case "finally":
		src = "global L\nvar f\nf = func() { f(); return 1 }\nr := 0\ntry { r = f() } finally { L(\"fin\") }\nreturn r\n"
	default:
		src = "c := 0\nvar f\nf = func() { c++; f(); return c }\nreturn f()\n"
	}
	return scriptCase{Kind: "frames", Tag: v, Case: prog.Case{Src: src}}
}

// tAbort: reaches an endless loop (after calling STARTED) and never leaves it.
// The loops do not touch globals or the log, so that the outcome of an aborted
// run does not depend on when the abort arrives.
func tAbort(rt *rapid.T) scriptCase {
	v := pickS(rt, "variant", "plain", "deep", "deep-try", "try", "closure", "invoke", "invoke2", "churn", "module")
	depth := intIn(rt, 1, 200, "depth")
	var src string
	c := prog.Case{}
	switch v {
	case "plain":
		src = "global (STARTED, L)\nL(\"before\")\nSTARTED()\nfor {}\n"
	case "deep":
		src = fmt.Sprintf("global (STARTED, L)\nvar f\nf = func(n) { a := [n]; if n == 0 { STARTED(); for {} }; return len(a) + f(n-1) }\nreturn f(%d)\n", depth)
	case "deep-try":
		src = fmt.Sprintf("global (STARTED, L)\nvar f\nf = func(n) { try { if n == 0 { STARTED(); for {} }; return 1 + f(n-1) } catch e { L(\"catch\"); return -1 } finally { L(\"finally\") } }\nreturn f(%d)\n", depth)
	case "try":
		src = "global (STARTED, L)\nx := 0\ntry { try { STARTED(); for { x = x + 1; if x > 1000 { x = 0 } } } finally { L(\"inner-finally\") } } catch e { L(\"catch\") } finally { L(\"outer-finally\") }\nreturn x\n"
	case "closure":
		src = "global (STARTED, L)\na := 1; b := [2]\nf := func() { g := func() { STARTED(); for { a = a + 1; if a > 100 { a = 0 } } }; return g() }\nreturn f() + b[0]\n"
	case "invoke":
		src = "global (STARTED, L, INVOKE)\na := 1\nreturn INVOKE(func(x) { STARTED(); for { a = x } }, 5)\n"
	case "invoke2":
		src = "global (STARTED, L, INVOKE2)\na := 1\ntry { return INVOKE2(func(x) { STARTED(); for { a = x } }, 5) } finally { a = 2 }\n"
	case "churn":
		src = fmt.Sprintf("global (STARTED, L)\nfs := []\nmk := func(i) { return func() { return i } }\nSTARTED()\nfor { fs = append(fs, mk(len(fs))); if len(fs) > %d { fs = [] } }\n", depth)
	default:
		c.Modules = map[string]string{"cnt": counterModule}
		src = "global (STARTED, L)\nc := import(\"cnt\")\nb := import(\"bm\")\nc.inc()\nSTARTED()\nfor { b.k = c.inc() }\n"
	}
	c.Src = src
	return scriptCase{Kind: "abort", Tag: v, Abort: true, Case: c}
}

const counterModule = "global L\nL(\"load cnt\")\nn := 0\nreturn {inc: func() { n++; return n }, get: func() { return n }, box: [0]}\n"

const outerModule = "global L\nL(\"load outer\")\nc := import(\"cnt\")\nc.inc()\nreturn {get: func() { return c.get() * 100 }, c: c}\n"

// tModules: source modules with module-level state + the builtin module; the
// script mutates what it imported.
func tModules(rt *rapid.T) scriptCase {
	v := pickS(rt, "variant", "counter", "nested", "mutate-builtin", "fail-after-import", "import-in-func")
	incs := intIn(rt, 1, 4, "incs")
	c := prog.Case{Modules: map[string]string{"cnt": counterModule}}
	var sb strings.Builder
	sb.WriteString("global (L, PANIC, GOERR)\n")
	switch v {
	case "counter":
		sb.WriteString("c := import(\"cnt\")\n")
		for i := 0; i < incs; i++ {
			sb.WriteString("c.inc()\n")
		}
		sb.WriteString("c.box[0] = c.box[0] + 1\nreturn [c.get(), c.box]\n")
	case "nested":
		c.Modules["outer"] = outerModule
		sb.WriteString("o := import(\"outer\")\nc := import(\"cnt\")\n")
		for i := 0; i < incs; i++ {
			sb.WriteString("c.inc()\n")
		}
		sb.WriteString("return [o.get(), c.get(), o.c.get()]\n")
	case "mutate-builtin":
		sb.WriteString("b := import(\"bm\")\nc := import(\"cnt\")\nb.k = b.k + c.inc()\nb.arr[0] = b.arr[0] + 1\nb.arr[2][0] = \"changed\"\nb.m.x = b.m.x + 1\nb.added = 1\nreturn [b.k, b.arr, b.m, b.twice(b.k), b.s]\n")
	case "fail-after-import":
		sb.WriteString("c := import(\"cnt\")\nb := import(\"bm\")\nc.inc()\nb.k = 100\n")
		sb.WriteString(failStmt(pickS(rt, "fail", failKinds[:7]...)) + "\nreturn c.get()\n")
	default:
		sb.WriteString("f := func() { c := import(\"cnt\"); return c.inc() }\nr := []\n")
		for i := 0; i < incs; i++ {
			sb.WriteString("r = append(r, f())\n")
		}
		sb.WriteString("b := import(\"bm\")\nreturn [r, b.k]\n")
	}
	c.Src = sb.String()
	return scriptCase{Kind: "modules", Tag: v, Case: c}
}

// tHighSlots: many locals, closures and pointer boxes in high stack slots, then
// (maybe) a failure deep in a call chain.
func tHighSlots(rt *rapid.T) scriptCase {
	nloc := intIn(rt, 10, 120, "nlocals")
	depth := intIn(rt, 0, 60, "depth")
	fail := pickS(rt, "fail", failKinds...)
	var sb strings.Builder
	sb.WriteString("global (L, PANIC, GOERR)\n")
	for i := 0; i < nloc; i++ {
		fmt.Fprintf(&sb, "a%d := %d\n", i, i)
	}
	// closures capturing (boxing) every third local
	sb.WriteString("fs := []\n")
	for i := 0; i < nloc; i += 3 {
		fmt.Fprintf(&sb, "fs = append(fs, func() { a%d++; return a%d })\n", i, i)
	}
	sb.WriteString("var deep\n")
	tryEach := gen.Uniform(rt, 3, "try-each-frame") == 0
	open, close := "", ""
	if tryEach {
		open, close = " try {\n", " } finally { x = 0 }\n"
	}
	sb.WriteString("deep = func(n, ...rest) {\n x := n; y := [n, rest]\n g := func() { x++; return x + len(y) }\n" + open + " if n == 0 {\n  " + failStmt(fail) + "\n  return g()\n }\n return deep(n-1, g, x) + g() + fs[n % len(fs)]()\n" + close + "}\n")
	fmt.Fprintf(&sb, "r := deep(%d)\n", depth)
	fmt.Fprintf(&sb, "return [r, a0, a%d, fs[0]()]\n", nloc-1)
	if tryEach {
		fail += "+try-each-frame"
	}
	return scriptCase{Kind: "highslots", Tag: fail, Case: prog.Case{Src: sb.String()}}
}

// tTryScope: variables declared in a try block are visible in its catch and
// finally blocks (documented); when the try block fails before the declaration
// they read as undefined - i.e. whatever Run initialised the main locals to.
func tTryScope(rt *rapid.T) scriptCase {
	nloc := intIn(rt, 0, 40, "nlocals")
	fail := pickS(rt, "fail", failKinds...)
	retIn := pickS(rt, "return-in", "finally", "catch", "after")
	var sb strings.Builder
	sb.WriteString("global (L, PANIC, GOERR)\n")
	for i := 0; i < nloc; i++ {
		fmt.Fprintf(&sb, "a%d := %d\n", i, i)
	}
	sb.WriteString("r := []\n")
	sb.WriteString("try {\n  " + failStmt(fail) + "\n  total := 42\n  other := func() { total++; return total }\n  third := [other()]\n  L(third)\n")
	sb.WriteString("} catch err {\n  L(\"caught\")\n  r = append(r, typeName(total), typeName(other), typeName(third))\n")
	if retIn == "catch" {
		sb.WriteString("  return [r, total, third]\n")
	}
	sb.WriteString("} finally {\n  r = append(r, typeName(err), typeName(total), typeName(third))\n")
	if retIn == "finally" {
		sb.WriteString("  return [r, total, third]\n")
	}
	sb.WriteString("}\nreturn r\n")
	return scriptCase{Kind: "tryscope", Tag: fail + ":" + retIn, Case: prog.Case{Src: sb.String()}}
}

// tInvoker: script callbacks run on child VMs through ugo.Invoker.
func tInvoker(rt *rapid.T) scriptCase {
	inv := pickS(rt, "invoker", "INVOKE", "INVOKE2")
	fail := pickS(rt, "fail", failKinds...)
	catch := gen.Uniform(rt, 2, "catch") == 1
	var sb strings.Builder
	sb.WriteString("global (L, PANIC, GOERR, INVOKE, INVOKE2)\n")
	sb.WriteString("x := 1\nadd := func(a, b) { x++; return a + b + x }\n")
	fmt.Fprintf(&sb, "r := [%s(add, 1, 2), %s(add, 3, 4)]\n", inv, inv)
	body := fmt.Sprintf("%s(func(a) { y := a; h := func() { return y + x }; %s; return h() }, 7)", inv, failStmt(fail))
	if catch {
		sb.WriteString("try { r = append(r, " + body + ") } catch e { L(\"caught\"); r = append(r, typeName(e)) }\n")
	} else {
		sb.WriteString("r = append(r, " + body + ")\n")
	}
	sb.WriteString("return [r, x]\n")
	tag := fail
	if catch {
		tag += "+caught"
	}
	return scriptCase{Kind: "invoker", Tag: inv + ":" + tag, Case: prog.Case{Src: sb.String()}}
}

// ------------------------------------------------------------------ generated

func genProfiles() []gen.Config {
	base := gen.Config{MaxStmts: 22, MaxDepth: 3, MaxFnDepth: 3, MaxBlock: 4,
		Closures: true, Calls: true, Log: true, Params: true, Globals: true, Destruct: true, Consts: true,
		Recursion: true, MapIter: true, Try: true}
	failing := base
	failing.Failing = true
	m1 := failing
	m1.Modules = 1
	m2 := base
	m2.Modules = 2
	return []gen.Config{base, failing, failing, m1, m2}
}

func tGen(rt *rapid.T, profile int) scriptCase {
	profs := genProfiles()
	if profile < 0 {
		profile = gen.Uniform(rt, len(profs), "profile")
	}
	gp := gen.Generate(rt, profs[profile])
	p := prog.Prepare(gp)
	return scriptCase{Kind: "gen", Tag: fmt.Sprintf("profile%d", profile), NoOptimize: gen.Uniform(rt, 4, "noopt") == 0, Case: p.Case()}
}

// tDiscardThrow: the run ends with an error that unwinds through frames re-used by discarded self tail
// calls (at one or two depths); a companion function returning a value is called first at those depths.
func tDiscardThrow(rt *rapid.T) scriptCase {
	depth := 1 + gen.Uniform(rt, 4, "dtdepth")
	var sb strings.Builder
	sb.WriteString("global L\nvar f\n")
	sb.WriteString("val := func(x) { return x + 1 }\n")
	sb.WriteString("t := func(x) { throw error(\"deep\") }\n")
	sb.WriteString("f = func(n) {\n  if n == 0 { t(n) }\n  f(n - 1)\n}\n")
	tag := "plain"
	if gen.Uniform(rt, 2, "dtwrap") == 0 {
		tag = "nested"
		sb.WriteString("g := func() { L(val(1)); f(" + fmt.Sprint(depth) + "); return 7 }\nL(val(41))\nL(g())\n")
	} else {
		sb.WriteString("L(val(41))\nf(" + fmt.Sprint(depth) + ")\n")
	}
	sb.WriteString("return val(2)\n")
	return scriptCase{Kind: "discard-throw", Tag: tag, Case: prog.Case{Src: sb.String()}}
}

// drawPool draws 8..12 script cases: at least one abort script, one module
// template and one generated program with source modules; the rest is a mix.
func drawPool(rt *rapid.T) []scriptCase {
	n := intIn(rt, 8, 12, "poolsize")
	pool := []scriptCase{tAbort(rt), tModules(rt), tGen(rt, 3+gen.Uniform(rt, 2, "modprofile"))}
	for len(pool) < n {
		switch gen.Uniform(rt, 18, "kind") {
		case 0, 1, 2, 3, 4, 5:
			pool = append(pool, tGen(rt, -1))
		case 6, 7:
			pool = append(pool, tCbPanic(rt))
		case 8:
			pool = append(pool, tVStack(rt))
		case 9:
			pool = append(pool, tFrames(rt))
		case 10:
			pool = append(pool, tAbort(rt))
		case 11, 12:
			pool = append(pool, tModules(rt))
		case 13, 14:
			pool = append(pool, tHighSlots(rt))
		case 15, 16:
			pool = append(pool, tTryScope(rt))
		default:
			pool = append(pool, tInvoker(rt))
		}
	}
	// two scripts run without a globals object (they share names)
	pool[len(pool)-1] = tNilGlobals(rt)
	pool[len(pool)-2] = tNilGlobals(rt)
	pool[len(pool)-3] = tDiscardThrow(rt)
	for i := range pool {
		pool[i].Enc = gen.Uniform(rt, 3, "enc") == 0
	}
	// a drawn permutation so that indices carry no meaning
	for i := len(pool) - 1; i > 0; i-- {
		j := gen.Uniform(rt, i+1, "perm")
		pool[i], pool[j] = pool[j], pool[i]
	}
	return pool
}
