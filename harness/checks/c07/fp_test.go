package c07

// Cheap structural fingerprints of a Bytecode (checked after every action; the
// full canon.Bytecode dump is compared at pool creation and at the end of every
// sequence) and the "no function constant carries Free variables" walk.

import (
	"hash/fnv"
	"math"

	"github.com/ozanh/ugo"

	"verif/internal/canon"
)

type fingerprint struct {
	Instr   uint64
	SrcMap  uint64
	Consts  uint64
	FileSet uint64
	Free    int // number of function constants (incl. Main) whose Free != nil
}

func (a fingerprint) diff(b fingerprint) string {
	switch {
	case a.Instr != b.Instr:
		return "instructions"
	case a.Free != b.Free:
		return "free"
	case a.Consts != b.Consts:
		return "constants"
	case a.SrcMap != b.SrcMap:
		return "sourcemap"
	case a.FileSet != b.FileSet:
		return "fileset"
	}
	return ""
}

const (
	fnvOff   = 14695981039346656037
	fnvPrime = 1099511628211
)

type hasher struct{ h uint64 }

func (h *hasher) u64(v uint64) {
	x := (h.h ^ v) * 0x9e3779b97f4a7c15
	x ^= x >> 29
	x *= fnvPrime
	x ^= x >> 32
	h.h = x
}
func (h *hasher) bytes(b []byte) {
	h.u64(uint64(len(b)))
	for len(b) >= 8 {
		h.u64(uint64(b[0]) | uint64(b[1])<<8 | uint64(b[2])<<16 | uint64(b[3])<<24 |
			uint64(b[4])<<32 | uint64(b[5])<<40 | uint64(b[6])<<48 | uint64(b[7])<<56)
		b = b[8:]
	}
	for _, c := range b {
		h.h ^= uint64(c)
		h.h *= fnvPrime
	}
}
func (h *hasher) str(s string) {
	h.u64(uint64(len(s)))
	for i := 0; i < len(s); i++ {
		h.h ^= uint64(s[i])
		h.h *= fnvPrime
	}
}

func strHash(s string) uint64 {
	f := fnv.New64a()
	_, _ = f.Write([]byte(s))
	return f.Sum64()
}

type fpState struct {
	instr, consts hasher
	srcmap        uint64
	free          int
}

func (s *fpState) fn(f *ugo.CompiledFunction) {
	if f == nil {
		s.instr.u64(0xdead)
		return
	}
	s.instr.u64(uint64(f.NumParams))
	s.instr.u64(uint64(f.NumLocals))
	if f.Variadic {
		s.instr.u64(1)
	} else {
		s.instr.u64(0)
	}
	s.instr.bytes(f.Instructions)
	// order independent sum over the map, chained with the function's position
	var sum uint64
	for k, v := range f.SourceMap {
		x := hasher{h: fnvOff}
		x.u64(uint64(k))
		x.u64(uint64(v))
		sum += x.h
	}
	x := hasher{h: s.srcmap ^ fnvOff}
	x.u64(sum)
	x.u64(uint64(len(f.SourceMap)))
	s.srcmap = x.h
	if f.Free != nil {
		s.free++
	}
}

func (s *fpState) obj(o ugo.Object, depth int) {
	h := &s.consts
	if depth > 32 {
		h.u64(0xdeef)
		return
	}
	switch v := o.(type) {
	case nil:
		h.u64(1)
	case ugo.Int:
		h.u64(2)
		h.u64(uint64(v))
	case ugo.Uint:
		h.u64(3)
		h.u64(uint64(v))
	case ugo.Float:
		h.u64(4)
		h.u64(math.Float64bits(float64(v)))
	case ugo.Bool:
		h.u64(5)
		if v {
			h.u64(1)
		} else {
			h.u64(0)
		}
	case ugo.Char:
		h.u64(6)
		h.u64(uint64(v))
	case ugo.String:
		h.u64(7)
		h.str(string(v))
	case ugo.Bytes:
		h.u64(8)
		h.bytes(v)
	case *ugo.UndefinedType:
		h.u64(9)
	case *ugo.CompiledFunction:
		h.u64(10)
		s.fn(v)
	case ugo.Array:
		h.u64(11)
		h.u64(uint64(len(v)))
		for _, e := range v {
			s.obj(e, depth+1)
		}
	case ugo.Map:
		h.u64(12)
		h.u64(uint64(len(v)))
		// order independent: hash every entry separately (canonical dump), add up
		var sum uint64
		for k, e := range v {
			sum += strHash(k + "\x00" + canon.Value(e))
			// functions nested in module maps
			if cf, ok := e.(*ugo.CompiledFunction); ok {
				s.fn(cf)
			}
		}
		h.u64(sum)
	default:
		h.u64(13)
		h.str(canon.Value(o))
	}
}

func fingerprintOf(bc *ugo.Bytecode) fingerprint {
	s := fpState{instr: hasher{h: fnvOff}, consts: hasher{h: fnvOff}}
	s.consts.u64(uint64(bc.NumModules))
	s.consts.u64(uint64(len(bc.Constants)))
	s.fn(bc.Main)
	for _, c := range bc.Constants {
		s.obj(c, 0)
	}
	var fs hasher
	fs.h = fnvOff
	if bc.FileSet != nil {
		fs.u64(uint64(bc.FileSet.Base))
		fs.u64(uint64(len(bc.FileSet.Files)))
		for _, f := range bc.FileSet.Files {
			fs.str(f.Name)
			fs.u64(uint64(f.Base))
			fs.u64(uint64(f.Size))
			fs.u64(uint64(len(f.Lines)))
			for _, l := range f.Lines {
				fs.u64(uint64(l))
			}
		}
	}
	return fingerprint{Instr: s.instr.h, SrcMap: s.srcmap, Consts: s.consts.h, FileSet: fs.h, Free: s.free}
}
