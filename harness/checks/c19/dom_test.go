// C19 - domain: live VM, argument pool, enumeration of script-reachable callables.
package c19

import (
	"fmt"
	"math"
	"sort"
	"strings"
	gotime "time"

	"github.com/ozanh/ugo"
	ugofmt "github.com/ozanh/ugo/stdlib/fmt"
	ugojson "github.com/ozanh/ugo/stdlib/json"
	ugostrings "github.com/ozanh/ugo/stdlib/strings"
	ugotime "github.com/ozanh/ugo/stdlib/time"

	"verif/internal/canon"
)

// env is the live VM every direct call is made with, and the values that
// belong to it (compiled functions must be invoked through the VM whose
// bytecode owns them).
type env struct {
	vm    *ugo.VM
	fnVar *ugo.CompiledFunction // func(...a) { return a }
	fnID  *ugo.CompiledFunction // func(c) { return c }
	rterr *ugo.RuntimeError
}

func newEnv() (*env, error) {
	// both functions are constant-free, so they can also be invoked by the
	// script-mode VMs, whose bytecode has a different constant table.
	bc, err := ugo.Compile([]byte(`return [func(...a) { return a }, func(c) { return c }]`), ugo.CompilerOptions{})
	if err != nil {
		return nil, fmt.Errorf("compile env script: %v", err)
	}
	vm := ugo.NewVM(bc)
	ret, err := vm.Run(ugo.Map{}) // a VM that has run: globals are set, pool root is itself
	if err != nil {
		return nil, fmt.Errorf("run env script: %v", err)
	}
	arr, ok := ret.(ugo.Array)
	if !ok || len(arr) != 2 {
		return nil, fmt.Errorf("env script returned %v", ret)
	}
	e := &env{vm: vm}
	if e.fnVar, ok = arr[0].(*ugo.CompiledFunction); !ok {
		return nil, fmt.Errorf("env: not a compiled function: %T", arr[0])
	}
	if e.fnID, ok = arr[1].(*ugo.CompiledFunction); !ok {
		return nil, fmt.Errorf("env: not a compiled function: %T", arr[1])
	}
	bc2, err := ugo.Compile([]byte(`param x; return 1/x`), ugo.CompilerOptions{})
	if err != nil {
		return nil, fmt.Errorf("compile rterr script: %v", err)
	}
	if _, err = ugo.NewVM(bc2).Run(nil, ugo.Int(0)); err != nil {
		e.rterr, _ = err.(*ugo.RuntimeError)
	}
	if e.rterr == nil {
		return nil, fmt.Errorf("env: could not obtain a *RuntimeError (got %v)", err)
	}
	return e, nil
}

var (
	leapTime = gotime.Date(2024, 2, 29, 23, 59, 59, 999, gotime.FixedZone("X", 3600))
	farTime  = gotime.Unix(1<<62, 0).UTC()
	longStr  = strings.Repeat("xy", 500)
)

// pval is one pool entry; mk returns a FRESH value each time (callees such as
// sort, delete, append, Sscan mutate their arguments).
type pval struct {
	name string
	mk   func(e *env) ugo.Object
}

func k(o ugo.Object) func(*env) ugo.Object { return func(*env) ugo.Object { return o } }

var goFn = &ugo.Function{
	Name: "gofn",
	Value: func(args ...ugo.Object) (ugo.Object, error) {
		if len(args) > 0 {
			return args[0], nil
		}
		return ugo.Undefined, nil
	},
}

// pool: boundary values of every built-in type. At most 64 entries (accept
// sets are uint64 bit sets).
var pool = []pval{
	{"undefined", k(ugo.Undefined)},
	{"true", k(ugo.True)},
	{"false", k(ugo.False)},
	// ints
	{"i0", k(ugo.Int(0))},
	{"i1", k(ugo.Int(1))},
	{"i-1", k(ugo.Int(-1))},
	{"i255", k(ugo.Int(255))},
	{"i256", k(ugo.Int(256))},
	{"iMin", k(ugo.Int(math.MinInt64))},
	{"iMax", k(ugo.Int(math.MaxInt64))},
	{"i2^62", k(ugo.Int(1 << 62))},
	{"i-2^62", k(ugo.Int(-(1 << 62)))},
	// uints
	{"u0", k(ugo.Uint(0))},
	{"u1", k(ugo.Uint(1))},
	{"u255", k(ugo.Uint(255))},
	{"u2^63", k(ugo.Uint(1 << 63))},
	{"uMax", k(ugo.Uint(math.MaxUint64))},
	// floats
	{"f1.5", k(ugo.Float(1.5))},
	{"fNaN", k(ugo.Float(math.NaN()))},
	{"f+Inf", k(ugo.Float(math.Inf(1)))},
	{"f-Inf", k(ugo.Float(math.Inf(-1)))},
	{"f1e300", k(ugo.Float(1e300))},
	// chars
	{"c'a'", k(ugo.Char('a'))},
	{"c0", k(ugo.Char(0))},
	{"cMaxRune", k(ugo.Char(0x10FFFF))},
	// strings
	{"s-empty", k(ugo.String(""))},
	{"s-a", k(ugo.String("a"))},
	{"s-long", k(ugo.String(longStr))},
	{"s-badutf8", k(ugo.String("a\xffb"))},
	{"s-verbs", k(ugo.String("%d %s %v %!"))},
	{"s-verbs2", k(ugo.String("%5d|%-3s|%x|%q|%T|%+v|%#v|%*d"))},
	{"s-layout", k(ugo.String(gotime.RFC3339))},
	{"s-timeval", k(ugo.String("2024-02-29T12:00:00Z"))},
	{"s-UTC", k(ugo.String("UTC"))},
	{"s-3", k(ugo.String("3"))},
	{"s-int", k(ugo.String("int"))},
	// bytes
	{"b-empty", func(*env) ugo.Object { return ugo.Bytes{} }},
	{"b-a", func(*env) ugo.Object { return ugo.Bytes("a") }},
	{"b-ff00", func(*env) ugo.Object { return ugo.Bytes{0xff, 0x00} }},
	{"b-json", func(*env) ugo.Object { return ugo.Bytes(`{"a":[1,2.5,"x",null]}`) }},
	// arrays
	{"a-empty", func(*env) ugo.Object { return ugo.Array{} }},
	{"a-1", func(*env) ugo.Object { return ugo.Array{ugo.Int(1)} }},
	{"a-nested", func(*env) ugo.Object {
		return ugo.Array{ugo.String("b"), ugo.Int(2), ugo.Array{ugo.Undefined}}
	}},
	{"a-312", func(*env) ugo.Object { return ugo.Array{ugo.Int(3), ugo.Int(1), ugo.Int(2)} }},
	// maps
	{"m-empty", func(*env) ugo.Object { return ugo.Map{} }},
	{"m-a1", func(*env) ugo.Object { return ugo.Map{"a": ugo.Int(1)} }},
	{"m-nested", func(*env) ugo.Object {
		return ugo.Map{"k": ugo.Map{"n": ugo.Array{ugo.Int(1), ugo.Map{}}}, "": ugo.Undefined}
	}},
	{"syncmap", func(*env) ugo.Object { return &ugo.SyncMap{Value: ugo.Map{"a": ugo.Int(1)}} }},
	// errors
	{"e-error", func(*env) ugo.Object { return &ugo.Error{Name: "error", Message: "x"} }},
	{"e-TypeError", k(ugo.ErrType)},
	{"e-runtime", func(e *env) ugo.Object { return e.rterr }},
	// functions
	{"fn-variadic", func(e *env) ugo.Object { return e.fnVar }},
	{"fn-identity", func(e *env) ugo.Object { return e.fnID }},
	{"fn-go", k(goFn)},
	{"fn-builtin-len", k(ugo.BuiltinObjects[ugo.BuiltinLen])},
	// stdlib values
	{"time", func(*env) ugo.Object { return &ugotime.Time{Value: leapTime} }},
	{"location", func(*env) ugo.Object { return &ugotime.Location{Value: gotime.FixedZone("Y", -7200)} }},
	// values whose own marshalling FAILS (error paths of the callers): a time outside the year range
	// MarshalJSON / MarshalText accept, raw JSON messages that are not JSON, and such values nested
	{"time-far", func(*env) ugo.Object { return &ugotime.Time{Value: farTime} }},
	{"time-year10000", func(*env) ugo.Object { return &ugotime.Time{Value: gotime.Date(10000, 1, 1, 0, 0, 0, 0, gotime.UTC)} }},
	{"b-cut-rune", func(*env) ugo.Object { return ugo.Bytes("\"\xe2\x80") }}, // ends in the middle of a 3-byte character
	{"raw-invalid", func(*env) ugo.Object { return &ugojson.RawMessage{Value: []byte(`{`)} }},
	{"a-raw-invalid", func(*env) ugo.Object {
		return ugo.Array{ugo.Int(1), ugo.Map{"k": &ugojson.RawMessage{Value: []byte(`x`)}}, &ugotime.Time{Value: farTime}}
	}},
	{"encopts-raw-invalid", func(*env) ugo.Object {
		return &ugojson.EncoderOptions{Value: &ugojson.RawMessage{Value: []byte(`[1,`)}, Quote: true, EscapeHTML: true}
	}},
	{"scanArg", func(*env) ugo.Object {
		o, err := ugofmt.Module["ScanArg"].(*ugo.Function).Value(ugo.String("int"))
		if err != nil || o == nil {
			return ugo.Undefined
		}
		return o
	}},
}

// poolDumps are the canonical dumps of the pool values (diagnostics, keys).
func poolDumps(e *env) []string {
	out := make([]string, len(pool))
	for i, p := range pool {
		d := canon.Value(p.mk(e))
		if len(d) > 60 {
			d = d[:60] + "..."
		}
		out[i] = p.name + "=" + d
	}
	return out
}

// ---------------------------------------------------------------------------

const (
	kFunc   = iota // a function object: f(args)
	kNew           // error value: e.New(args) through IndexGet("New")
	kMethod        // receiver.method(args) through CallName or IndexGet-then-call
)

type callable struct {
	Name   string // unique
	Sig    string // name used in violation signatures (receiver variant stripped)
	Family string
	kind   int
	obj    func(e *env) ugo.Object // function object / error value / receiver
	method string
	// exclusion rules
	sleep   bool // position 0 is a duration that is slept
	sizePos int  // position of a size/count-like int argument, -1 if none
	privN   bool // :makeArray - the count is emitted by the compiler only
}

var timeMethods = []string{
	"Add", "Sub", "AddDate", "After", "Before", "Format", "AppendFormat", "In", "Round", "Truncate", "Equal",
	"Date", "Clock", "UTC", "Unix", "UnixNano", "Year", "Month", "Day", "Hour", "Minute", "Second", "Nanosecond",
	"IsZero", "Local", "Location", "YearDay", "Weekday", "ISOWeek", "Zone",
	"NoSuchMethod",
}

func buildCallables(e *env) []*callable {
	var cs []*callable
	add := func(c *callable) { cs = append(cs, c) }

	// builtins, in table order
	for i := range ugo.BuiltinObjects {
		o := ugo.BuiltinObjects[i]
		if o == nil {
			continue
		}
		obj := o
		switch v := o.(type) {
		case *ugo.BuiltinFunction:
			c := &callable{Name: "builtin:" + v.Name, Family: "builtin", kind: kFunc, obj: k(obj), sizePos: -1}
			switch v.Name {
			case "repeat":
				c.sizePos = 1
			case ":makeArray":
				c.sizePos = 0
				c.privN = true
			}
			add(c)
		case *ugo.Error:
			add(&callable{Name: "builtin:" + v.Name + ".New", Family: "error.New", kind: kNew, obj: k(obj), sizePos: -1})
		default:
			if o.CanCall() {
				add(&callable{Name: fmt.Sprintf("builtin:#%d", i), Family: "builtin", kind: kFunc, obj: k(obj), sizePos: -1})
			}
		}
	}
	// error values made by scripts
	add(&callable{Name: "error(x).New", Family: "error.New", kind: kNew, sizePos: -1,
		obj: func(*env) ugo.Object { return &ugo.Error{Name: "error", Message: "x"} }})
	add(&callable{Name: "runtimeError.New", Family: "error.New", kind: kNew, sizePos: -1,
		obj: func(e *env) ugo.Object { return e.rterr }})

	// modules
	mods := []struct {
		name string
		m    map[string]ugo.Object
	}{
		{"fmt", ugofmt.Module}, {"json", ugojson.Module}, {"strings", ugostrings.Module}, {"time", ugotime.Module},
	}
	for _, md := range mods {
		keys := make([]string, 0, len(md.m))
		for key := range md.m {
			keys = append(keys, key)
		}
		sort.Strings(keys)
		for _, key := range keys {
			o := md.m[key]
			if o == nil || !o.CanCall() {
				continue
			}
			obj := o
			c := &callable{Name: md.name + "." + key, Family: md.name, kind: kFunc, obj: k(obj), sizePos: -1}
			switch c.Name {
			case "strings.Repeat", "strings.PadLeft", "strings.PadRight":
				c.sizePos = 1
			case "time.Sleep":
				c.sleep = true
			}
			add(c)
		}
	}

	// methods of time values
	recv := []struct {
		tag string
		t   gotime.Time
	}{{"zero", gotime.Time{}}, {"leap", leapTime}, {"far", farTime}}
	for _, r := range recv {
		tv := r.t
		for _, m := range timeMethods {
			add(&callable{Name: "time.Time." + m + "#" + r.tag, Sig: "time.Time." + m, Family: "time.method",
				kind: kMethod, method: m, sizePos: -1,
				obj: func(*env) ugo.Object { return &ugotime.Time{Value: tv} }})
		}
	}
	// location values have no methods; calling a name on them must be an error, not a panic
	for _, m := range []string{"String", "NoSuchMethod"} {
		add(&callable{Name: "time.Location." + m, Family: "location.method", kind: kMethod, method: m, sizePos: -1,
			obj: func(*env) ugo.Object { return &ugotime.Location{Value: gotime.UTC} }})
	}
	for _, c := range cs {
		if c.Sig == "" {
			c.Sig = c.Name
		}
	}
	return cs
}

// callEx makes the call the way the VM makes it.
func (c *callable) callEx(e *env, args []ugo.Object) (ugo.Object, error) {
	o := c.obj(e)
	switch c.kind {
	case kFunc:
		return callObject(e, o, args)
	case kNew:
		f, err := o.IndexGet(ugo.String("New"))
		if err != nil {
			return nil, err
		}
		return callObject(e, f, args)
	default:
		if nc, ok := o.(ugo.NameCallerObject); ok {
			return nc.CallName(c.method, ugo.NewCall(e.vm, args))
		}
		f, err := o.IndexGet(ugo.String(c.method))
		if err != nil {
			return nil, err
		}
		return callObject(e, f, args)
	}
}

func callObject(e *env, f ugo.Object, args []ugo.Object) (ugo.Object, error) {
	if f == nil {
		return nil, nil
	}
	if !f.CanCall() {
		return nil, ugo.ErrNotCallable.NewError(f.TypeName())
	}
	if ex, ok := f.(ugo.ExCallerObject); ok {
		return ex.CallEx(ugo.NewCall(e.vm, args))
	}
	return f.Call(args...)
}

// hasPlain reports whether the plain-Call observation differs from callEx.
func (c *callable) hasPlain(nargs int) bool {
	switch c.kind {
	case kFunc:
		return true
	case kMethod:
		return nargs == 0 // IndexGet(name): the index path of 0-argument methods
	}
	return false
}

// callPlain goes through Object.Call (the Value adapter) / plain IndexGet.
func (c *callable) callPlain(e *env, args []ugo.Object) (ugo.Object, error) {
	o := c.obj(e)
	if c.kind == kMethod {
		return o.IndexGet(ugo.String(c.method))
	}
	return o.Call(args...)
}

// scriptSource: the program that performs the call on a VM.
func (c *callable) scriptSource(nargs int) string {
	ps := make([]string, nargs)
	for i := range ps {
		ps[i] = fmt.Sprintf("a%d", i)
	}
	params := strings.Join(append([]string{"f"}, ps...), ", ")
	al := strings.Join(ps, ", ")
	switch c.kind {
	case kNew:
		return fmt.Sprintf("param (%s); return f.New(%s)", params, al)
	case kMethod:
		return fmt.Sprintf("param (%s); return f.%s(%s)", params, c.method, al)
	}
	return fmt.Sprintf("param (%s); return f(%s)", params, al)
}

func (c *callable) scriptKey(nargs int) string {
	switch c.kind {
	case kNew:
		return fmt.Sprintf("new/%d", nargs)
	case kMethod:
		return fmt.Sprintf("m:%s/%d", c.method, nargs)
	}
	return fmt.Sprintf("f/%d", nargs)
}

// excluded reports whether the tuple is outside the domain by construction.
func (c *callable) excluded(args []ugo.Object) string {
	if c.sleep && len(args) > 0 {
		if v, ok := ugo.ToGoInt64(args[0]); ok && v > int64(gotime.Millisecond) {
			return "sleep-duration>1ms"
		}
	}
	if c.sizePos >= 0 && c.sizePos < len(args) {
		if v, ok := ugo.ToGoInt(args[c.sizePos]); ok {
			if v > 1<<20 && v < 1<<60 {
				return "size-in-memory-dependent-band"
			}
			if c.privN && v >= 1<<60 {
				return "makeArray-count-is-compiler-emitted"
			}
		}
	}
	return ""
}
