// C19 - worker: runs in a child process of the check (address space limited,
// hang monitor), performs the calls and writes its results as JSON.
package c19

import (
	"encoding/binary"
	"encoding/json"
	"errors"
	"fmt"
	"hash/fnv"
	"io"
	"os"
	"regexp"
	"runtime/debug"
	"strings"
	"sync"
	"sync/atomic"
	"syscall"
	"testing"
	"time"

	"github.com/ozanh/ugo"
	"pgregory.net/rapid"

	"verif/internal/ev"
)

const (
	mEx     = 0 // CallEx(NewCall(vm,args)) / CallName / Call for plain objects: what the VM does
	mPlain  = 1 // Object.Call(args...) (Value adapter) / IndexGet(name)
	mScript = 2 // compiled script on a VM without SetRecover
	nModes  = 3

	hangAfter = 2 * time.Second
)

var modeNames = [nModes]string{"callex", "call", "script"}

// pos identifies one call: callable k of the spec's list, tuple ordinal ti, mode.
type pos struct {
	K    int `json:"k"`
	TI   int `json:"ti"`
	Mode int `json:"mode"`
}

type spec struct {
	Kind      string   `json:"kind"` // "exh" | "rapid"
	Callables []int    `json:"callables"`
	MaxLen    []int    `json:"max_len"` // per entry of Callables
	Start     pos      `json:"start"`
	Counted   bool     `json:"counted"` // the unit at Start was already counted
	Skip      []string `json:"skip"`    // call keys that killed an earlier worker
	ScriptMod int      `json:"script_mod"`
	Seed      int64    `json:"seed"`
	// rapid
	N      int                  `json:"n"`
	Salt   int64                `json:"salt"`
	Accept map[string][4]uint64 `json:"accept"`
}

type vcase struct {
	Callable string   `json:"callable"`
	Args     []string `json:"args"`
	Mode     string   `json:"mode"`
}

type wviol struct {
	Sig   string `json:"sig"`
	What  string `json:"what"`
	Count int    `json:"count"`
	Case  vcase  `json:"case"`
	// Msgs: panic message classes seen under this signature (the signature is the site, not the message)
	Msgs map[string]int `json:"msgs"`
}

type wres struct {
	Final     bool                 `json:"final"`
	Hang      bool                 `json:"hang"`
	HangKey   string               `json:"hang_key"`
	Resume    pos                  `json:"resume"`
	RapidDone int                  `json:"rapid_done"`
	Evals     int64                `json:"evals"`
	Calls     int64                `json:"calls"`
	Classes   map[string]int       `json:"classes"`
	Excluded  map[string]int       `json:"excluded"`
	Inconcl   map[string]int       `json:"inconcl"`
	NT        []string             `json:"nt"`
	Samples   []any                `json:"samples"`
	Viol      map[string]*wviol    `json:"viol"`
	Accept    map[string][4]uint64 `json:"accept"`
	Error     string               `json:"error"`
	// Succ: per callable, number of calls that returned a value
	Succ map[string]int `json:"succ"`
}

func newRes() *wres {
	return &wres{Classes: map[string]int{}, Excluded: map[string]int{}, Inconcl: map[string]int{},
		Viol: map[string]*wviol{}, Accept: map[string][4]uint64{}, Succ: map[string]int{}}
}

// cursor: 64 bytes in a shared mapping, survives the death of the process.
// layout: [0]=valid, [1]=mode, [2]=nargs, [3..6]=pool indices, [8:12]=callable index, [16:24]=ordinal
type cursor struct{ b []byte }

func openCursor(path string, create bool) (*cursor, error) {
	flag := os.O_RDWR
	if create {
		flag |= os.O_CREATE | os.O_TRUNC
	}
	f, err := os.OpenFile(path, flag, 0o644)
	if err != nil {
		return nil, err
	}
	defer f.Close()
	if create {
		if err := f.Truncate(64); err != nil {
			return nil, err
		}
	}
	b, err := syscall.Mmap(int(f.Fd()), 0, 64, syscall.PROT_READ|syscall.PROT_WRITE, syscall.MAP_SHARED)
	if err != nil {
		return nil, err
	}
	return &cursor{b}, nil
}

func (c *cursor) set(cidx int, idx []int, mode int, ord int64) {
	b := c.b
	b[0] = 1
	b[1] = byte(mode)
	b[2] = byte(len(idx))
	for i, v := range idx {
		b[3+i] = byte(v)
	}
	binary.LittleEndian.PutUint32(b[8:], uint32(cidx))
	binary.LittleEndian.PutUint64(b[16:], uint64(ord))
}

func readCursor(path string) (valid bool, cidx int, idx []int, mode int, ord int64) {
	b, err := os.ReadFile(path)
	if err != nil || len(b) < 24 || b[0] != 1 {
		return false, 0, nil, 0, 0
	}
	n := int(b[2])
	if n > 4 {
		return false, 0, nil, 0, 0
	}
	for i := 0; i < n; i++ {
		idx = append(idx, int(b[3+i]))
	}
	return true, int(binary.LittleEndian.Uint32(b[8:])), idx, int(b[1]), int64(binary.LittleEndian.Uint64(b[16:]))
}

func callKey(cidx int, idx []int, mode int) string {
	return fmt.Sprintf("%d:%v:%d", cidx, idx, mode)
}

// ---------------------------------------------------------------------------

type worker struct {
	t       *testing.T
	e       *env
	cs      []*callable
	dumps   []string
	sp      *spec
	outPath string
	cur     *cursor

	mu         sync.Mutex // guards res, nt
	res        *wres
	nt         map[uint64]struct{}
	skip       map[string]bool
	scripts    map[string]*ugo.Bytecode
	callStart  atomic.Int64 // unix nano of the running call, 0 when idle
	curKey     atomic.Value // string: description of the running call
	curPos     pos
	rapidDone  int
	nsamples   int
	nextSample int64
	accept     [][4]uint64 // by callable index
}

func tupleCount(maxLen int) int {
	p := len(pool)
	n := 1
	if maxLen >= 1 {
		n += p
	}
	if maxLen >= 2 {
		n += p * p
	}
	return n
}

// tupleAt decodes ordinal ti: 0 = (), 1..P = (i), then (i,j) row-major.
func tupleAt(ti int, buf []int) []int {
	p := len(pool)
	switch {
	case ti == 0:
		return buf[:0]
	case ti <= p:
		buf = buf[:1]
		buf[0] = ti - 1
	default:
		x := ti - 1 - p
		buf = buf[:2]
		buf[0], buf[1] = x/p, x%p
	}
	return buf
}

func (w *worker) write(final, hang bool) {
	// caller holds w.mu
	w.res.Final = final
	w.res.Hang = hang
	w.res.Resume = w.curPos
	w.res.RapidDone = w.rapidDone
	w.res.NT = w.res.NT[:0]
	for h := range w.nt {
		w.res.NT = append(w.res.NT, fmt.Sprintf("%016x", h))
	}
	for i, a := range w.accept {
		if a != [4]uint64{} {
			w.res.Accept[w.cs[i].Name] = a
		}
	}
	data, err := json.Marshal(w.res)
	if err != nil {
		data = []byte(fmt.Sprintf(`{"final":true,"error":%q}`, err.Error()))
	}
	tmp := w.outPath + ".tmp"
	if os.WriteFile(tmp, data, 0o644) == nil {
		_ = os.Rename(tmp, w.outPath)
	}
}

// monitor turns a call that does not return into an inconclusive result: it
// writes what was collected, marks the hang, and ends the process (the stuck
// goroutine cannot be stopped, and may be growing memory).
func (w *worker) monitor() {
	for {
		time.Sleep(50 * time.Millisecond)
		st := w.callStart.Load()
		if st == 0 || time.Duration(time.Now().UnixNano()-st) < hangAfter {
			continue
		}
		w.mu.Lock()
		if w.callStart.Load() != st { // returned meanwhile
			w.mu.Unlock()
			continue
		}
		key, _ := w.curKey.Load().(string)
		w.res.HangKey = key
		w.write(true, true)
		os.Exit(3)
	}
}

var (
	reHex    = regexp.MustCompile(`0x[0-9a-fA-F]+`)
	reDigits = regexp.MustCompile(`-?[0-9]+`)
)

func msgClass(msg string) string {
	if i := strings.IndexByte(msg, '\n'); i >= 0 {
		msg = msg[:i]
	}
	msg = reHex.ReplaceAllString(msg, "0xN")
	msg = reDigits.ReplaceAllString(msg, "N")
	if len(msg) > 90 {
		msg = msg[:90]
	}
	return msg
}

// panicFrame: the innermost function of ozanh/ugo on the panicking stack.
func panicFrame(stack string) string {
	lines := strings.Split(stack, "\n")
	start := 0
	for i, l := range lines {
		if strings.HasPrefix(l, "panic(") {
			start = i // the last panic( line is not wanted: take the first (innermost)
			break
		}
	}
	for _, l := range lines[start:] {
		if strings.HasPrefix(l, "\t") || !strings.Contains(l, "github.com/ozanh/ugo") {
			continue
		}
		if i := strings.LastIndex(l, "("); i > 0 {
			l = l[:i]
		}
		l = strings.TrimPrefix(l, "github.com/ozanh/ugo/stdlib/")
		l = strings.TrimPrefix(l, "github.com/ozanh/ugo/")
		l = strings.TrimPrefix(l, "github.com/ozanh/")
		return l
	}
	return "?"
}

// panicSig: the root cause is the callable and the innermost ugo function on
// the panicking stack; the message class only stands in when no frame is found.
func panicSig(name, frame, msg string) string {
	if frame == "?" || frame == "" {
		return "panic:" + name + ":" + msgClass(msg)
	}
	return "panic:" + name + ":" + frame
}

type outcome struct {
	panicked bool
	pmsg     string
	stack    string
	ret      ugo.Object
	err      error
}

func (w *worker) script(c *callable, nargs int) (*ugo.Bytecode, error) {
	key := c.scriptKey(nargs)
	if bc, ok := w.scripts[key]; ok {
		return bc, nil
	}
	bc, err := ugo.Compile([]byte(c.scriptSource(nargs)), ugo.CompilerOptions{})
	if err != nil {
		return nil, fmt.Errorf("harness: compile %q: %v", c.scriptSource(nargs), err)
	}
	w.scripts[key] = bc
	return bc, nil
}

func (w *worker) invoke(c *callable, args []ugo.Object, mode int) (out outcome) {
	defer func() {
		if r := recover(); r != nil {
			out.panicked = true
			out.pmsg = fmt.Sprint(r)
			out.stack = string(debug.Stack())
		}
	}()
	switch mode {
	case mEx:
		out.ret, out.err = c.callEx(w.e, args)
	case mPlain:
		out.ret, out.err = c.callPlain(w.e, args)
	default:
		bc, err := w.script(c, len(args))
		if err != nil {
			panic(err) // harness problem: surfaces as its own signature
		}
		all := make([]ugo.Object, 0, len(args)+1)
		all = append(all, c.obj(w.e))
		all = append(all, args...)
		out.ret, out.err = ugo.NewVM(bc).Run(nil, all...)
	}
	return
}

func (w *worker) mkArgs(idx []int) []ugo.Object {
	args := make([]ugo.Object, len(idx))
	for i, v := range idx {
		args[i] = pool[v].mk(w.e)
	}
	return args
}

func scriptSampled(seed int64, cidx int, idx []int, mod int) bool {
	if len(idx) <= 1 || mod <= 1 {
		return true
	}
	h := fnv.New64a()
	var b [8]byte
	binary.LittleEndian.PutUint64(b[:], uint64(seed))
	h.Write(b[:])
	binary.LittleEndian.PutUint32(b[:], uint32(cidx))
	h.Write(b[:4])
	for _, v := range idx {
		h.Write([]byte{byte(v)})
	}
	return h.Sum64()%uint64(mod) == 0
}

// unit executes one (callable, tuple) in the requested modes starting at
// mode m0. It returns false when the tuple was excluded by construction.
func (w *worker) unit(k int, cidx int, idx []int, m0 int, count bool, script bool, ord int64) {
	c := w.cs[cidx]
	probe := w.mkArgs(idx)
	if why := c.excluded(probe); why != "" {
		w.mu.Lock()
		w.res.Excluded[why]++
		w.mu.Unlock()
		return
	}
	nontrivial := false
	var lastClass string
	for mode := m0; mode < nModes; mode++ {
		if mode == mPlain && !c.hasPlain(len(idx)) {
			continue
		}
		if mode == mScript && !script {
			continue
		}
		if len(w.skip) > 0 && w.skip[callKey(cidx, idx, mode)] {
			continue // killed an earlier worker: already recorded as inconclusive by the parent
		}
		args := probe
		if mode != m0 {
			args = w.mkArgs(idx)
		}
		w.curPos = pos{k, int(ord), mode}
		w.cur.set(cidx, idx, mode, ord)
		w.curKey.Store(c.Name)
		w.callStart.Store(time.Now().UnixNano())
		out := w.invoke(c, args, mode)
		w.callStart.Store(0)

		w.mu.Lock()
		w.res.Calls++
		w.res.Classes["mode:"+modeNames[mode]]++
		switch {
		case out.panicked:
			lastClass = "panic"
			frame := panicFrame(out.stack)
			sig := panicSig(c.Sig, frame, out.pmsg)
			w.violation(sig, msgClass(out.pmsg), c, idx, mode, fmt.Sprintf("%s(%s) [%s] panicked: %s\n%s", c.Name, strings.Join(w.argDumps(idx), ", "),
				modeNames[mode], firstLine(out.pmsg), trimStack(out.stack)))
		case out.err == nil && out.ret == nil:
			lastClass = "nil-nil"
			w.violation("nilnil:"+c.Sig+":"+modeNames[mode], "(nil, nil)", c, idx, mode,
				fmt.Sprintf("%s(%s) [%s] returned (nil, nil)", c.Name, strings.Join(w.argDumps(idx), ", "), modeNames[mode]))
		case out.err != nil:
			switch {
			case errors.Is(out.err, ugo.ErrWrongNumArguments):
				lastClass = "err:wrong-num-args"
			case errors.Is(out.err, ugo.ErrType):
				lastClass = "err:type"
				nontrivial = true
			default:
				lastClass = "err:other"
				nontrivial = true
			}
		default:
			lastClass = "value"
			nontrivial = true
			w.res.Succ[c.Name]++
			if len(idx) >= 3 {
				w.res.Succ["len>=3:"+c.Name]++
			}
			if mode != mScript && cidx < len(w.accept) {
				for p, v := range idx {
					w.accept[cidx][p] |= 1 << uint(v)
				}
			}
		}
		w.res.Classes[c.Family+":"+lastClass]++
		w.mu.Unlock()
	}
	w.mu.Lock()
	if count {
		w.res.Evals++
		w.res.Classes[fmt.Sprintf("len%d", len(idx))]++
	}
	if nontrivial {
		h := fnv.New64a()
		h.Write([]byte(c.Name))
		for _, v := range idx {
			h.Write([]byte{0, byte(v)})
		}
		w.nt[h.Sum64()] = struct{}{}
		if w.nsamples < 8 && w.res.Evals >= w.nextSample {
			w.nsamples++
			w.nextSample = w.res.Evals*4 + 97
			w.res.Samples = append(w.res.Samples, map[string]any{"callable": c.Name, "args": w.argDumps(idx), "outcome": lastClass})
		}
	}
	w.mu.Unlock()
}

func firstLine(s string) string {
	if i := strings.IndexByte(s, '\n'); i >= 0 {
		s = s[:i]
	}
	if len(s) > 300 {
		s = s[:300]
	}
	return s
}

// trimStack keeps the frames from the panic down to the first harness frame.
func trimStack(st string) string {
	lines := strings.Split(st, "\n")
	start := 0
	for i, l := range lines {
		if strings.HasPrefix(l, "panic(") {
			start = i
			break
		}
	}
	var out []string
	for _, l := range lines[start:] {
		if strings.HasPrefix(l, "verif/") {
			break
		}
		out = append(out, l)
		if len(out) >= 24 {
			break
		}
	}
	return strings.Join(out, "\n")
}

func (w *worker) argDumps(idx []int) []string {
	out := make([]string, len(idx))
	for i, v := range idx {
		out[i] = w.dumps[v]
	}
	return out
}

// violation: caller holds w.mu. Keeps the smallest case per signature.
func (w *worker) violation(sig, msg string, c *callable, idx []int, mode int, what string) {
	v := w.res.Viol[sig]
	cs := vcase{Callable: c.Name, Args: w.argDumps(idx), Mode: modeNames[mode]}
	if v == nil {
		w.res.Viol[sig] = &wviol{Sig: sig, What: what, Count: 1, Case: cs, Msgs: map[string]int{msg: 1}}
		return
	}
	v.Count++
	v.Msgs[msg]++
	if len(cs.Args) < len(v.Case.Args) {
		v.Case, v.What = cs, what
	}
}

func (w *worker) checkpoint(last *time.Time, next pos) {
	if time.Since(*last) < time.Second {
		return
	}
	w.mu.Lock()
	w.curPos = next
	w.write(false, false)
	w.mu.Unlock()
	*last = time.Now()
}

func (w *worker) runExh() {
	sp := w.sp
	last := time.Now()
	var buf [4]int
	for k := sp.Start.K; k < len(sp.Callables); k++ {
		cidx := sp.Callables[k]
		n := tupleCount(sp.MaxLen[k])
		ti0 := 0
		if k == sp.Start.K {
			ti0 = sp.Start.TI
		}
		for ti := ti0; ti < n; ti++ {
			idx := tupleAt(ti, buf[:])
			m0, count := 0, true
			if k == sp.Start.K && ti == sp.Start.TI {
				m0, count = sp.Start.Mode, !sp.Counted
			}
			w.unit(k, cidx, idx, m0, count, scriptSampled(sp.Seed, cidx, idx, sp.ScriptMod), int64(ti))
			w.checkpoint(&last, pos{k, ti + 1, 0})
		}
	}
}

// runRapid: tuples of length 3-4 with type-directed bias. The property never
// fails inside rapid: panics are collected with their signature (grouped, the
// smallest case kept) and judged by the parent, so that one shallow defect does
// not end the search.
func (w *worker) runRapid() {
	sp := w.sp
	if sp.N <= 0 || len(sp.Callables) == 0 {
		return
	}
	// accept sets learnt by the exhaustive phase
	for _, cidx := range sp.Callables {
		if a, ok := sp.Accept[w.cs[cidx].Name]; ok {
			w.accept[cidx] = a
		}
	}
	// which callables take more than two arguments at all? (probe with ints)
	one := -1
	for i, p := range pool {
		if p.name == "i1" {
			one = i
		}
	}
	var weighted []int
	for _, cidx := range sp.Callables {
		c := w.cs[cidx]
		wide := false
		for _, n := range []int{3, 4} {
			idx := make([]int, n)
			for i := range idx {
				idx[i] = one
			}
			if c.excluded(w.mkArgs(idx)) != "" {
				continue
			}
			w.cur.set(cidx, idx, mEx, -1)
			w.curKey.Store(c.Name)
			w.callStart.Store(time.Now().UnixNano())
			out := w.invoke(c, w.mkArgs(idx), mEx)
			w.callStart.Store(0)
			if out.panicked || out.err == nil || !errors.Is(out.err, ugo.ErrWrongNumArguments) {
				wide = true
			}
		}
		weighted = append(weighted, cidx)
		if wide {
			for i := 0; i < 11; i++ {
				weighted = append(weighted, cidx)
			}
		}
	}
	last := time.Now()
	full := uint64(1)<<uint(len(pool)) - 1
	pick := func(rt *rapid.T, set uint64, label string) int {
		if set == 0 {
			set = full
		}
		// n-th set bit
		cnt := 0
		for s := set; s != 0; s &= s - 1 {
			cnt++
		}
		n := rapid.IntRange(0, cnt-1).Draw(rt, label)
		for i := 0; i < len(pool); i++ {
			if set&(1<<uint(i)) != 0 {
				if n == 0 {
					return i
				}
				n--
			}
		}
		return 0
	}
	ev.RapidCheck(w.t, "tuples-3-4", sp.N, sp.Salt, func(rt *rapid.T) {
		cidx := rapid.SampledFrom(weighted).Draw(rt, "callable")
		n := rapid.IntRange(3, 4).Draw(rt, "len")
		acc := w.accept[cidx]
		union := acc[0] | acc[1] | acc[2] | acc[3]
		idx := make([]int, n)
		for p := 0; p < n; p++ {
			switch rapid.IntRange(0, 9).Draw(rt, "src") {
			case 0, 1, 2, 3, 4:
				idx[p] = pick(rt, acc[p], "accepted")
			case 5, 6:
				idx[p] = pick(rt, union, "union")
			default:
				idx[p] = pick(rt, full, "any")
			}
		}
		script := rapid.IntRange(0, 3).Draw(rt, "script") == 0
		w.rapidDone++
		w.unit(0, cidx, idx, 0, true, script, int64(w.rapidDone))
		w.checkpoint(&last, pos{})
	})
}

// TestWorker is the entry point of the child process.
func TestWorker(t *testing.T) {
	specPath := os.Getenv("C19_SPEC")
	if os.Getenv("C19_WORKER") == "" || specPath == "" {
		t.Skip("worker mode only")
	}
	// memory guard: a runaway allocation kills this process, not the check
	lim := uint64(4 << 30)
	_ = syscall.Setrlimit(syscall.RLIMIT_AS, &syscall.Rlimit{Cur: lim, Max: lim})
	debug.SetMaxStack(256 << 20)
	ugo.PrintWriter = io.Discard
	if null, err := os.OpenFile(os.DevNull, os.O_WRONLY, 0); err == nil {
		os.Stdout = null // fmt.Print* of the fmt module write to os.Stdout
	}

	w := &worker{t: t, res: newRes(), nt: map[uint64]struct{}{}, skip: map[string]bool{}, scripts: map[string]*ugo.Bytecode{},
		outPath: os.Getenv("C19_OUT")}
	fail := func(format string, a ...any) {
		w.res.Error = fmt.Sprintf(format, a...)
		w.res.Final = true
		data, _ := json.Marshal(w.res)
		_ = os.WriteFile(w.outPath, data, 0o644)
		t.Fatalf("%s", w.res.Error)
	}
	data, err := os.ReadFile(specPath)
	if err != nil {
		fail("read spec: %v", err)
	}
	var sp spec
	if err := json.Unmarshal(data, &sp); err != nil {
		fail("parse spec: %v", err)
	}
	w.sp = &sp
	for _, s := range sp.Skip {
		w.skip[s] = true
	}
	if w.e, err = newEnv(); err != nil {
		fail("env: %v", err)
	}
	w.cs = buildCallables(w.e)
	w.accept = make([][4]uint64, len(w.cs))
	w.dumps = poolDumps(w.e)
	if w.cur, err = openCursor(os.Getenv("C19_CUR"), false); err != nil {
		fail("cursor: %v", err)
	}
	w.curPos = sp.Start
	go w.monitor()

	switch sp.Kind {
	case "exh":
		w.runExh()
	case "rapid":
		w.runRapid()
	default:
		fail("unknown spec kind %q", sp.Kind)
	}
	w.mu.Lock()
	w.write(true, false)
	w.mu.Unlock()
}
