// C19 - builtin and standard-library functions are total over their arguments:
// a call returns a value or a uGO error, never a Go panic.
//
// The check (TestCheck) enumerates every script-reachable callable and drives
// worker child processes (TestWorker, worker_test.go) that make the calls under
// an address-space limit and a hang monitor. A worker that hangs or dies makes
// the tuple in flight inconclusive, never a violation - unless it died with a
// Go panic / fatal error that is not about memory.
package c19

import (
	"encoding/json"
	"fmt"
	"os"
	"os/exec"
	"path/filepath"
	"regexp"
	"runtime"
	"sort"
	"strings"
	"sync"
	"testing"
	"time"

	"verif/internal/ev"
)

type runner struct {
	t       *testing.T
	dir     string
	exe     string
	cs      []*callable
	dumps   []string
	timeout time.Duration

	mu         sync.Mutex
	seq        int
	incomplete []string
}

// merged is what the parent accumulates from all workers.
type merged struct {
	res *wres
	nt  map[string]struct{}
}

func newMerged() *merged { return &merged{res: newRes(), nt: map[string]struct{}{}} }

func (m *merged) add(r *wres) {
	if r == nil {
		return
	}
	m.res.Evals += r.Evals
	m.res.Calls += r.Calls
	for k, v := range r.Classes {
		m.res.Classes[k] += v
	}
	for k, v := range r.Excluded {
		m.res.Excluded[k] += v
	}
	for k, v := range r.Inconcl {
		m.res.Inconcl[k] += v
	}
	for _, h := range r.NT {
		m.nt[h] = struct{}{}
	}
	for _, s := range r.Samples {
		if len(m.res.Samples) < 12 {
			m.res.Samples = append(m.res.Samples, s)
		}
	}
	for sig, v := range r.Viol {
		cur := m.res.Viol[sig]
		if cur == nil {
			cp := *v
			cp.Msgs = map[string]int{}
			for k, n := range v.Msgs {
				cp.Msgs[k] = n
			}
			m.res.Viol[sig] = &cp
			continue
		}
		cur.Count += v.Count
		for k, n := range v.Msgs {
			cur.Msgs[k] += n
		}
		if len(v.Case.Args) < len(cur.Case.Args) {
			cur.Case, cur.What = v.Case, v.What
		}
	}
	for name, n := range r.Succ {
		m.res.Succ[name] += n
	}
	for name, a := range r.Accept {
		cur := m.res.Accept[name]
		for i := range cur {
			cur[i] |= a[i]
		}
		m.res.Accept[name] = cur
	}
}

func (m *merged) merge(o *merged) {
	m.add(o.res)
	for h := range o.nt {
		m.nt[h] = struct{}{}
	}
}

var reMem = regexp.MustCompile(`(?i)out of memory|cannot allocate memory|failed to reserve|mmap|VirtualAlloc|errno=12|newosproc`)
var reFatal = regexp.MustCompile(`(?m)^(panic: .*|fatal error: .*)$`)

// runJob runs one spec to completion, restarting the worker after a hang or
// a death. It never fails the test for a hang, a timeout or a memory kill.
func (r *runner) runJob(sp spec) *merged {
	m := newMerged()
	r.mu.Lock()
	r.seq++
	id := r.seq
	r.mu.Unlock()
	base := filepath.Join(r.dir, fmt.Sprintf("job%d", id))
	const maxRestarts = 40
	for attempt := 0; ; attempt++ {
		if attempt >= maxRestarts {
			r.giveUp(fmt.Sprintf("job %d: more than %d worker restarts", id, maxRestarts))
			return m
		}
		specPath, outPath, curPath, logPath := base+".spec", base+".out", base+".cur", fmt.Sprintf("%s.%d.log", base, attempt)
		data, _ := json.Marshal(sp)
		if err := os.WriteFile(specPath, data, 0o644); err != nil {
			r.giveUp("write spec: " + err.Error())
			return m
		}
		_ = os.Remove(outPath)
		if _, err := openCursor(curPath, true); err != nil {
			r.giveUp("cursor: " + err.Error())
			return m
		}
		logf, err := os.Create(logPath)
		if err != nil {
			r.giveUp("log: " + err.Error())
			return m
		}
		cmd := exec.Command(r.exe, "-test.run", "^TestWorker$", "-test.timeout", "0", "-test.count", "1")
		cmd.Env = append(filterEnv(os.Environ(), "VERIF_OUT", "VERIF_REPLAY"),
			"C19_WORKER=1", "C19_SPEC="+specPath, "C19_OUT="+outPath, "C19_CUR="+curPath, "GOMAXPROCS=2", "GOTRACEBACK=single")
		cmd.Stdout, cmd.Stderr = logf, logf
		cmd.Stdin = nil // /dev/null: nothing can block on stdin
		cmd.Dir = r.dir
		timedOut := false
		if err := cmd.Start(); err != nil {
			logf.Close()
			r.giveUp("start worker: " + err.Error())
			return m
		}
		done := make(chan error, 1)
		go func() { done <- cmd.Wait() }()
		var werr error
		select {
		case werr = <-done:
		case <-time.After(r.timeout):
			timedOut = true
			_ = cmd.Process.Kill()
			werr = <-done
		}
		logf.Close()

		var res *wres
		if data, err := os.ReadFile(outPath); err == nil {
			var x wres
			if json.Unmarshal(data, &x) == nil {
				res = &x
			}
		}
		if res != nil && res.Error != "" {
			r.giveUp("worker: " + res.Error)
			return m
		}
		m.add(res)
		if res != nil && res.Final && !res.Hang {
			if werr != nil {
				r.giveUp(fmt.Sprintf("worker finished but exited with %v (see %s)", werr, logPath))
			}
			return m
		}
		// hang or death: the cursor names the call in flight
		valid, cidx, idx, mode, _ := readCursor(curPath)
		name := "?"
		if valid && cidx < len(r.cs) {
			name = r.cs[cidx].Sig
		}
		switch {
		case res != nil && res.Final && res.Hang:
			m.res.Inconcl["hang:"+name]++
		default:
			logTail := tail(logPath, 6000)
			fatal := reFatal.FindString(logTail)
			switch {
			case timedOut:
				m.res.Inconcl["worker-timeout:"+name]++
			case fatal != "" && !reMem.MatchString(logTail) && valid:
				// the process was taken down by an unrecoverable Go error inside the call
				c := r.cs[cidx]
				sig := panicSig(c.Sig, panicFrame(logTail), strings.TrimPrefix(strings.TrimPrefix(fatal, "panic: "), "fatal error: "))
				v := m.res.Viol[sig]
				args := make([]string, len(idx))
				for i, x := range idx {
					if x < len(r.dumps) {
						args[i] = r.dumps[x]
					}
				}
				if v == nil {
					v = &wviol{Sig: sig, Msgs: map[string]int{}, Case: vcase{Callable: c.Name, Args: args, Mode: modeNames[mode%nModes]},
						What: fmt.Sprintf("%s(%s) [%s] killed the process: %s\n%s", c.Name, strings.Join(args, ", "), modeNames[mode%nModes], fatal, firstLines(logTail, 30))}
					m.res.Viol[sig] = v
				}
				v.Count++
				v.Msgs[msgClass(fatal)]++
			default:
				m.res.Inconcl["worker-died:"+name]++
				r.t.Logf("worker died (%v) in %s%v mode %d: inconclusive; log tail:\n%s", werr, name, idx, mode, firstLines(logTail, 12))
			}
		}
		if !valid {
			r.giveUp(fmt.Sprintf("worker stopped without a cursor (err=%v, see %s)", werr, logPath))
			return m
		}
		sp.Skip = append(sp.Skip, callKey(cidx, idx, mode))
		if sp.Kind == "rapid" {
			if res != nil {
				sp.N -= res.RapidDone
			}
			sp.Salt += 1000
			if sp.N <= 0 {
				return m
			}
		} else if res != nil {
			sp.Start = res.Resume
		}
	}
}

func (r *runner) giveUp(why string) {
	r.mu.Lock()
	r.incomplete = append(r.incomplete, why)
	r.mu.Unlock()
}

func filterEnv(env []string, drop ...string) []string {
	out := env[:0:0]
outer:
	for _, e := range env {
		for _, d := range drop {
			if strings.HasPrefix(e, d+"=") {
				continue outer
			}
		}
		out = append(out, e)
	}
	return out
}

func tail(path string, n int) string {
	data, err := os.ReadFile(path)
	if err != nil {
		return ""
	}
	// the head carries the panic message, the tail little: keep the head
	if len(data) > n {
		data = data[:n]
	}
	return string(data)
}

func firstLines(s string, n int) string {
	lines := strings.Split(s, "\n")
	if len(lines) > n {
		lines = lines[:n]
	}
	return strings.Join(lines, "\n")
}

// parallel runs the specs with at most p workers at a time.
func (r *runner) parallel(specs []spec, p int) *merged {
	out := make([]*merged, len(specs))
	sem := make(chan struct{}, p)
	var wg sync.WaitGroup
	for i := range specs {
		wg.Add(1)
		go func(i int) {
			defer wg.Done()
			sem <- struct{}{}
			defer func() { <-sem }()
			out[i] = r.runJob(specs[i])
		}(i)
	}
	wg.Wait()
	m := newMerged()
	for _, o := range out {
		m.merge(o)
	}
	return m
}

func TestCheck(t *testing.T) {
	if os.Getenv("C19_WORKER") != "" {
		t.Skip("worker process")
	}
	rec := ev.New("C19")
	rec.Rule = "every script-reachable callable (BuiltinObjects functions, New of builtin/script/runtime error values, callable entries of the fmt/json/strings/time module maps, every method name of time values (3 receivers) and names on location values) x argument tuples from a 58-value boundary pool of every type: lengths 0..2 exhaustively, lengths 3..4 by a rapid property biased to values accepted at that position. Each tuple is observed as the VM makes the call (CallEx/CallName with a live VM), through the plain Call/Value adapter, and (all tuples of length<=1, a seed-hashed sample of the rest) from a compiled script on a VM without recovery. Oracle: no Go panic, result is (object, nil) or a non-nil error. Non-trivial = the call got past the argument-count check (value, or an error that is not WrongNumArgumentsError); distinct by (callable, pool indices)"
	rec.Assumptions = []string{
		"excluded by construction (counted): Sleep with a duration > 1ms; size/count arguments in the band 2^20 < n < 2^60 for repeat/Repeat/PadLeft/PadRight/:makeArray (outcome depends on machine memory; uGO documents no allocation limit); counts >= 2^60 for the private :makeArray builtin, whose count is only ever emitted by the compiler (number of assignment targets)",
		"a call that does not return within 2s, or that kills the worker process through memory exhaustion / timeout, is inconclusive (counted), not a violation",
		"stdout writers (print*, fmt.Print*) write to a discarded stream; stdin of the workers is /dev/null (no module function reads stdin)",
		"method names of time values are taken from the method table in stdlib/time/time.go (30 names + one unknown name)",
	}
	incomplete := false
	defer func() { rec.Flush((!t.Failed() || rec.HasUnknown()) && !incomplete) }()

	e, err := newEnv()
	if err != nil {
		incomplete = true
		t.Fatalf("env: %v", err)
	}
	cs := buildCallables(e)
	fam := map[string]int{}
	for _, c := range cs {
		fam[c.Family]++
	}
	rec.Note("callables", len(cs))
	rec.Note("callables_by_family", fam)
	rec.Note("pool_size", len(pool))
	rec.Note("tuples_per_callable_len<=2", tupleCount(2))
	if len(pool) > 64 {
		incomplete = true
		t.Fatalf("pool too large for bit sets: %d", len(pool))
	}

	dir, err := os.MkdirTemp("", "c19-")
	if err != nil {
		incomplete = true
		t.Fatalf("tempdir: %v", err)
	}
	defer os.RemoveAll(dir)
	exe, err := os.Executable()
	if err != nil {
		exe = os.Args[0]
	}
	r := &runner{t: t, dir: dir, exe: exe, cs: cs, dumps: poolDumps(e), timeout: 5 * time.Minute}
	if ev.Tier() == "thorough" {
		r.timeout = 40 * time.Minute
	}
	byName := map[string][]int{}
	for i, c := range cs {
		byName[c.Name] = append(byName[c.Name], i)
		if c.Sig != c.Name {
			byName[c.Sig] = append(byName[c.Sig], i)
		}
	}

	var mine []int // this shard's callables
	report := func(m *merged) {
		for k, v := range m.res.Classes {
			rec.ClassN(k, v)
		}
		for k, v := range m.res.Excluded {
			for i := 0; i < v; i++ {
				rec.Exclude(k)
			}
		}
		for k, v := range m.res.Inconcl {
			for i := 0; i < v; i++ {
				rec.Inconcl(k)
			}
		}
		rec.Cases(int(m.res.Evals))
		for h := range m.nt {
			rec.NonTriv(h)
		}
		for _, s := range m.res.Samples {
			rec.Sample(s)
		}
		rec.Note("calls", m.res.Calls)
		var never []string
		for _, i := range mine {
			if m.res.Succ[cs[i].Name] == 0 {
				never = append(never, cs[i].Name)
			}
		}
		rec.Note("callables_that_never_returned_a_value", never)
		wide := map[string]int{}
		for k, v := range m.res.Succ {
			if strings.HasPrefix(k, "len>=3:") {
				wide[strings.TrimPrefix(k, "len>=3:")] = v
			}
		}
		rec.Note("value_returns_with_3_or_4_arguments", wide)
		sigs := make([]string, 0, len(m.res.Viol))
		for s := range m.res.Viol {
			sigs = append(sigs, s)
		}
		sort.Strings(sigs)
		for _, s := range sigs {
			v := m.res.Viol[s]
			v.What = fmt.Sprintf("%d calls panicked at this site; message classes: %s\n%s", v.Count, msgSummary(v.Msgs), v.What)
			known := rec.Violation(s, v.What, v.Case)
			for _, rv := range rec.Violations {
				if rv.Sig == s {
					rv.Count += v.Count - 1
				}
			}
			if !known {
				rec.Unfreeze()
				t.Errorf("%s (x%d)\n%s", s, v.Count, v.What)
			}
		}
		if len(r.incomplete) > 0 {
			incomplete = true
			rec.Note("incomplete", r.incomplete)
			for _, w := range r.incomplete {
				t.Logf("INCOMPLETE: %s", w)
			}
		}
	}

	// replay: all pool tuples (len <= 2) of the callable named in the case
	if ev.ReplayOnly() {
		m := newMerged()
		for _, rf := range rec.Replays() {
			var c vcase
			_ = json.Unmarshal(rf.Case, &c)
			idxs := byName[c.Callable]
			if len(idxs) == 0 {
				t.Logf("replay %s: callable %q no longer exists", rf.Path, c.Callable)
				continue
			}
			sp := spec{Kind: "exh", Callables: idxs, ScriptMod: 1, Seed: ev.Seed()}
			for range idxs {
				sp.MaxLen = append(sp.MaxLen, 2)
			}
			got := r.runJob(sp)
			if _, ok := got.res.Viol[rf.Sig]; ok {
				t.Logf("replay %s: signature still occurs: %s", rf.Path, rf.Sig)
			} else {
				t.Logf("replay %s: signature %s no longer occurs", rf.Path, rf.Sig)
				// only the recorded signature is judged in replay mode
			}
			for s := range got.res.Viol {
				if s != rf.Sig {
					delete(got.res.Viol, s)
				}
			}
			m.merge(got)
		}
		report(m)
		return
	}

	// this shard's callables
	shard, shards := rec.Shard, rec.Shards
	if shards < 1 {
		shards = 1
	}
	for i := range cs {
		if i%shards == shard {
			mine = append(mine, i)
		}
	}
	// callables of committed replays always get the full length-2 enumeration
	forced := map[int]bool{}
	for _, rf := range rec.Replays() {
		var c vcase
		if json.Unmarshal(rf.Case, &c) == nil {
			for _, i := range byName[c.Callable] {
				forced[i] = true
			}
		}
	}
	full2 := ev.Tier() == "thorough" || os.Getenv("C19_FULL") != "0"
	workers := 1
	if shards == 1 {
		workers = runtime.NumCPU() / 2
		if workers > 6 {
			workers = 6
		}
		if workers < 1 {
			workers = 1
		}
	}
	rot := int(ev.Seed() % 3)
	exhaustive := true
	specs := make([]spec, workers)
	for n, ci := range mine {
		sp := &specs[n%workers]
		sp.Kind, sp.ScriptMod, sp.Seed = "exh", 16, ev.Seed()
		ml := 2
		if !full2 && !forced[ci] && ci%3 != rot {
			ml = 1
			exhaustive = false
		}
		sp.Callables = append(sp.Callables, ci)
		sp.MaxLen = append(sp.MaxLen, ml)
	}
	rec.Exhaustive = exhaustive
	total := newMerged()
	t0 := time.Now()
	total.merge(r.parallel(nonEmpty(specs), workers))
	rec.Note("exhaustive_phase_s", time.Since(t0).Seconds())

	// lengths 3..4: rapid, biased by what the exhaustive phase saw accepted
	n := ev.N(50000, 1300000)
	rspecs := make([]spec, workers)
	for n2, ci := range mine {
		sp := &rspecs[n2%workers]
		sp.Kind, sp.Seed, sp.Salt = "rapid", ev.Seed(), int64(7+n2%workers)
		sp.N = (n + workers - 1) / workers
		sp.Callables = append(sp.Callables, ci)
		if sp.Accept == nil {
			sp.Accept = map[string][4]uint64{}
		}
		if a, ok := total.res.Accept[cs[ci].Name]; ok {
			sp.Accept[cs[ci].Name] = a
		}
	}
	t1 := time.Now()
	total.merge(r.parallel(nonEmpty(rspecs), workers))
	rec.Note("rapid_phase_s", time.Since(t1).Seconds())
	report(total)
}

func msgSummary(m map[string]int) string {
	keys := make([]string, 0, len(m))
	for k := range m {
		keys = append(keys, k)
	}
	sort.Strings(keys)
	var sb strings.Builder
	for i, k := range keys {
		if i > 0 {
			sb.WriteString("; ")
		}
		fmt.Fprintf(&sb, "%q x%d", k, m[k])
	}
	return sb.String()
}

func nonEmpty(specs []spec) []spec {
	var out []spec
	for _, s := range specs {
		if len(s.Callables) > 0 {
			out = append(out, s)
		}
	}
	return out
}
