package c04

// Builtin module maps supplied to Compile and Decode, and the small generator
// of statements that make every constant kind and every builtin module reach
// the constant pool of a generated program.

import (
	"errors"
	"fmt"
	"math"
	"strconv"
	"strings"

	"github.com/ozanh/ugo"
	ugofmt "github.com/ozanh/ugo/stdlib/fmt"
	ugojson "github.com/ozanh/ugo/stdlib/json"
	ugostrings "github.com/ozanh/ugo/stdlib/strings"
	ugotime "github.com/ozanh/ugo/stdlib/time"
	"pgregory.net/rapid"

	"verif/internal/gen"
	"verif/internal/vals"
)

func negZero() float64 { return math.Copysign(0, -1) }

// valsModule is a synthetic builtin module whose attribute map holds every
// value type the encoder knows (plus *ugo.Error which goes through gob).
// Fixed content: replay cases only need the module name.
func valsModule() map[string]ugo.Object {
	return map[string]ugo.Object{
		"i0": ugo.Int(0), "i1": ugo.Int(1), "imin": ugo.Int(math.MinInt64), "imax": ugo.Int(math.MaxInt64), "ineg": ugo.Int(-64),
		"u0": ugo.Uint(0), "umax": ugo.Uint(math.MaxUint64), "u63": ugo.Uint(1 << 63),
		"f0": ugo.Float(0), "fneg0": ugo.Float(negZero()), "fnan": ugo.Float(math.NaN()), "finf": ugo.Float(math.Inf(1)),
		"fninf": ugo.Float(math.Inf(-1)), "fsmall": ugo.Float(5e-324), "f15": ugo.Float(1.5),
		"t": ugo.True, "f": ugo.False, "undef": ugo.Undefined,
		"c0": ugo.Char(0), "cmax": ugo.Char(0x10ffff), "cneg": ugo.Char(-1), "cmin": ugo.Char(math.MinInt32), "ca": ugo.Char('a'),
		"s0": ugo.String(""), "sbad": ugo.String("\xff"), "s": ugo.String("héllo"), "slong": ugo.String(strings.Repeat("x", 8193)),
		"b0": ugo.Bytes{}, "bnil": ugo.Bytes(nil), "b": ugo.Bytes{0, 255, 1},
		"arr":  ugo.Array{ugo.Int(1), ugo.String("a"), ugo.Array{}, ugo.Map{"k": ugo.Float(negZero())}, ugo.Undefined, ugo.Bytes{7}},
		"arr0": ugo.Array{}, "arrnil": ugo.Array(nil),
		"map": ugo.Map{"a": ugo.Int(1), "": ugo.String(""), "nested": ugo.Map{"deep": ugo.Array{ugo.Uint(1), ugo.Bytes{1}, ugo.Char(0)}},
			"z": ugo.Float(0)},
		"map0": ugo.Map{},
		"sync": &ugo.SyncMap{Value: ugo.Map{"a": ugo.Int(1), "b": ugo.Array{ugo.False}}},
		"err":  &ugo.Error{Name: "E", Message: "m"},
		"err0": &ugo.Error{},
		"":     ugo.Int(7),
		// attribute names that are not ASCII / not UTF-8 / longer than one length byte
		"ключ": ugo.String("cyrillic"), "\xff\xfe": ugo.Int(255), strings.Repeat("k", 70): ugo.Int(70),
		"fn": &ugo.Function{Name: "fn", Value: func(args ...ugo.Object) (ugo.Object, error) {
			if len(args) != 1 {
				return nil, ugo.ErrWrongNumArguments.NewError("want=1 got=" + strconv.Itoa(len(args)))
			}
			if i, ok := args[0].(ugo.Int); ok {
				return i*2 + 1, nil
			}
			return ugo.String("fn:" + args[0].String()), nil
		}},
		// no Name
		"anon": &ugo.Function{Value: func(args ...ugo.Object) (ugo.Object, error) {
			return ugo.Array(append([]ugo.Object{ugo.String("anon")}, args...)), nil
		}},
		// Name differs from the attribute key
		"alias": &ugo.Function{Name: "fn", Value: func(args ...ugo.Object) (ugo.Object, error) {
			return ugo.String("alias"), nil
		}},
		"fnex": &ugo.Function{Name: "fnex", ValueEx: func(c ugo.Call) (ugo.Object, error) {
			out := ugo.Array{ugo.Int(c.Len())}
			for i := 0; i < c.Len(); i++ {
				out = append(out, c.Get(i))
			}
			return out, nil
		}},
		// calls back into the VM
		"cb": &ugo.Function{Name: "cb", ValueEx: func(c ugo.Call) (ugo.Object, error) {
			if c.Len() < 1 {
				return ugo.Undefined, nil
			}
			var rest []ugo.Object
			for i := 1; i < c.Len(); i++ {
				rest = append(rest, c.Get(i))
			}
			inv := ugo.NewInvoker(c.VM(), c.Get(0))
			inv.Acquire()
			defer inv.Release()
			return inv.Invoke(rest...)
		}},
		"fail": &ugo.Function{Name: "fail", Value: func(args ...ugo.Object) (ugo.Object, error) {
			msg := "fail"
			if len(args) > 0 {
				msg = args[0].String()
			}
			return nil, &ugo.Error{Name: "ValsError", Message: msg}
		}},
		"gofail": &ugo.Function{Name: "gofail", Value: func(args ...ugo.Object) (ugo.Object, error) {
			return nil, errors.New("plain go error")
		}},
		"nestedfn": ugo.Map{"g": &ugo.Function{Name: "g", Value: func(args ...ugo.Object) (ugo.Object, error) {
			return ugo.Int(len(args) + 100), nil
		}}, "list": ugo.Array{&ugo.Function{Name: "h", Value: func(args ...ugo.Object) (ugo.Object, error) {
			return ugo.String("h"), nil
		}}}},
	}
}

// bfnModule re-exports builtin function objects (a *ugo.BuiltinFunction is one
// of the object types the encoder supports by name).
func bfnModule() map[string]ugo.Object {
	return map[string]ugo.Object{
		"len":    ugo.BuiltinObjects[ugo.BuiltinLen],
		"append": ugo.BuiltinObjects[ugo.BuiltinAppend],
		"k":      ugo.Int(1),
	}
}

func builtinModules() map[string]map[string]ugo.Object {
	return map[string]map[string]ugo.Object{
		"strings": ugostrings.Module,
		"json":    ugojson.Module,
		"time":    ugotime.Module,
		"fmt":     ugofmt.Module,
		"vals":    valsModule(),
		"bfn":     bfnModule(),
	}
}

// ------------------------------------------------------------ import stanzas

// A stanza is an import line plus statements using the module through variable
// `<v>` (the variable name differs between main script and source modules only
// for readability).
type stanza struct {
	mod   string
	uses  []string // %s = variable
	fails []string // statements raising an uncaught runtime error (only placed last)
}

var stanzas = []stanza{
	{mod: "strings", uses: []string{
		`L(%s.ToUpper("ab"))`,
		`L(%s.Repeat("ab", 3))`,
		`L(%s.Split("a,b,,c", ","))`,
		`L(%s.Contains("abc", "b"))`,
		`L(%s.Join(["a", "b"], "-"))`,
		`L(%s.Index("chicken", "ken"))`,
		`L(%s.TrimSpace(" x "))`,
		`L(%s.TrimFunc("xxhixx", func(c) { return c == 'x' }))`,
		`L(%s.Map(func(c) { return c + 1 }, "abc"))`,
		`L(%s.Fields(" a  b "))`,
		`L(%s.PadLeft("7", 3, "0"))`,
	}, fails: []string{
		`%s.Repeat("a")`,
		`%s.ToUpper()`,
		`%s.TrimFunc("abc", func(c) { return c / 0 })`,
	}},
	{mod: "json", uses: []string{
		`L(string(%s.Marshal({a: 1, b: [1.5, "x", undefined, true]})))`,
		`L(%s.Unmarshal(bytes("[1, 2.5, \"a\", {\"k\": null}]")))`,
		`L(%s.Valid(bytes("{}")))`,
		`L(string(%s.MarshalIndent([1, {x: "y"}], "", " ")))`,
		`L(string(%s.Marshal(%[1]s.RawMessage(bytes("[1]")))))`,
		`L(string(%s.Marshal(%[1]s.Quote(5))))`,
		`L(isError(%s.Unmarshal(bytes("{"))))`,
	}, fails: []string{
		`%s.Valid()`,
	}},
	{mod: "fmt", uses: []string{
		`L(%s.Sprintf("%%d-%%s-%%v", 5, "x", [1, 2.5]))`,
		`L(%s.Sprint(1, "a", 'c'))`,
		`L(%s.Sprintln("x", 2))`,
		`L(%s.Sprintf("%%05.1f|%%q|%%x|%%c", 2.5, "s", 255, 'c'))`,
	}, fails: []string{
		`%s.Sprintf()`,
	}},
	{mod: "time", uses: []string{
		`L(%s.January)`,
		`L(%s.Second * 90)`,
		`L(%s.DurationString(%[1]s.Second * 90))`,
		`L(%s.MonthString(%[1]s.March))`,
		`L(%s.WeekdayString(%[1]s.Friday))`,
		`L(%s.ParseDuration("1h2m"))`,
		`L(%s.DurationHours(%[1]s.Hour * 3))`,
		`L(%s.Kitchen)`,
		`L(string(%s.Unix(86400).In(%[1]s.UTC())))`,
		`L(%s.Format(%[1]s.Date(2020, 2, 3, 4, 5, 6, 7, %[1]s.UTC()), %[1]s.StampNano))`,
		`L(%s.IsTime(%[1]s.Unix(0)))`,
		`L(string(%s.FixedZone("X", 3600)))`,
	}, fails: []string{
		`%s.MonthString()`,
		`%s.ParseDuration(1, 2, 3)`,
	}},
	{mod: "vals", uses: []string{
		`L(%s.fn(2))`,
		`L(%s.fn("s"))`,
		`L(%s.arr)`,
		`L(%s.fneg0)`,
		`L(string(%s.fneg0))`,
		`L([%s.fnan, %[1]s.finf, %[1]s.fninf, %[1]s.fsmall, %[1]s.f0, %[1]s.f15])`,
		`L([%s.imin, %[1]s.imax, %[1]s.i0, %[1]s.ineg, %[1]s.umax, %[1]s.u0, %[1]s.u63])`,
		`L([%s.c0, %[1]s.cmax, %[1]s.cneg, %[1]s.cmin, %[1]s.ca])`,
		`L([%s.s0, %[1]s.sbad, %[1]s.s, len(%[1]s.slong)])`,
		`L([%s.b0, %[1]s.bnil, %[1]s.b, %[1]s.t, %[1]s.f, %[1]s.undef])`,
		`L(%s.map.nested)`,
		`L([%s.map, %[1]s.map0, %[1]s.arr0, %[1]s.arrnil])`,
		`L(%s.nestedfn.g(4, 5))`,
		`L(%s.nestedfn.list[0]())`,
		`L([%s.err, %[1]s.err0, isError(%[1]s.err)])`,
		`L(%s.sync)`,
		`L(%s.anon(1, "b"))`,
		`L(%s.alias())`,
		`L(%s.fnex(1, 2.5, "x"))`,
		`L(%s[""])`,
		`L([%s["ключ"], %[1]s["\xff\xfe"], %[1]s["kkkkkkkkkkkkkkkkkkkkkkkkkkkkkkkkkkkkkkkkkkkkkkkkkkkkkkkkkkkkkkkkkkkkkk"]])`,
		`L(%s.cb(func(x, y) { return [y, x * 2] }, 21, "q"))`,
		`L(%s.cb(%[1]s.fn, 20))`,
		`L(%s)`,
		`L(%s.__module_name__)`,
		// the module value is a per-VM copy: mutations must stay local to one run
		`%s.arr[0] = 99; L(%[1]s.arr)`,
		`%s.map.nested.deep = "changed"; L(%[1]s.map)`,
		`%s.sync.a = "changed"; L(%[1]s.sync)`,
		`%s.i0 = "changed"; L(%[1]s.i0)`,
		`try { %s.fail("caught") } catch zerr { L(zerr) }`,
		`try { %s.gofail() } catch zerr { L(string(zerr)) }`,
	}, fails: []string{
		`%s.fail("boom")`,
		`%s.gofail()`,
		`%s.fn()`,
		`%s.cb(func(z) { return 1 / z }, 0)`,
		`func() { return %s.cb(func(z) { throw error("in callback") }, 0) }()`,
	}},
	{mod: "bfn", uses: []string{
		`L(%s.len([1, 2]))`,
		`L(%s.append([], %[1]s.k))`,
	}},
}

func stanzaOf(mod string) *stanza {
	for i := range stanzas {
		if stanzas[i].mod == mod {
			return &stanzas[i]
		}
	}
	return nil
}

func sprintfStmt(format, v string) string {
	if strings.Contains(format, "%[1]s") {
		return fmt.Sprintf(format, v)
	}
	return fmt.Sprintf(format, v)
}

// importStmts draws the statements of one import stanza.
func importStmts(rt *rapid.T, st *stanza, prefix string, maxUses int) (stmts []string, v string) {
	v = prefix + st.mod
	stmts = append(stmts, fmt.Sprintf(`%s := import(%q)`, v, st.mod))
	n := rapid.IntRange(1, maxUses).Draw(rt, "nuses")
	for i := 0; i < n; i++ {
		u := rapid.SampledFrom(st.uses).Draw(rt, "use")
		stmts = append(stmts, sprintfStmt(u, v))
	}
	return stmts, v
}

// ------------------------------------------------------- constant expressions

func intSrc(i int64) string {
	switch {
	case i == math.MinInt64:
		return "(-9223372036854775807 - 1)"
	case i < 0:
		return "(-" + strconv.FormatInt(-i, 10) + ")"
	}
	return strconv.FormatInt(i, 10)
}

func floatSrc(f float64) string {
	switch {
	case math.IsNaN(f):
		return "((1e308*10.0)-(1e308*10.0))"
	case math.IsInf(f, 1):
		return "(1e308*10.0)"
	case math.IsInf(f, -1):
		return "(-1e308*10.0)"
	case f == 0 && math.Signbit(f):
		return "(-0.0)"
	case f < 0:
		return "(-" + gen.FloatText(-f) + ")"
	}
	return gen.FloatText(f)
}

func charSrc(c int32) string {
	switch {
	case c >= 0 && c <= 0x10FFFF && !(c >= 0xD800 && c <= 0xDFFF):
		return gen.ExprSrc(&gen.Lit{Kind: gen.LChar, I: int64(c)})
	case c < 0:
		return "('\\x00' - " + strconv.FormatInt(-int64(c), 10) + ")"
	}
	return "('\\x00' + " + strconv.FormatInt(int64(c), 10) + ")"
}

func strSrc(s string) string { return gen.ExprSrc(gen.StrLit(s)) }

var longLens = []int{63, 64, 65, 127, 128, 129, 255, 256, 8191, 8192, 8193}

var fnPool = []string{
	`func() { return func(...a) { return func(x, y) { return [x, y, a] } } }()(1)(2, 3)`,
	`func(a, ...b) { return [a, b] }(1, 2, 3)`,
	`func(...b) { return b }()`,
	`func() { q := 5; return func() { q++; return func() { q += 2; return q } } }()()()`,
	`func() { }()`,
	`func(a, b, c, d, e, f, g, h) { return [h, a] }(1, 2, 3, 4, 5, 6, 7, 8)`,
	`func() { a := 1; b := 2u; c := 'c'; d := 4.5; e := "e"; f := true; g := undefined; h := func() { return [a, b, c, d, e, f, g] }; return h() }()`,
	`func() { try { throw error("x") } catch e { return func() { return e.Message }() } finally { L("fin") } }()`,
	`func() { r := []; for i := 0; i < 3; i++ { r = append(r, func() { return i }) }; return [r[0](), r[2]()] }()`,
}

var failPool = []string{
	`func() { return func(z) { return 1 / z }(0) }()`,
	`func(...a) { return a[3] }(1)`,
	`func() { return func() { return func() { throw error("deep") }() }() }()`,
	`func(a) { return a }()`,
	`func(u) { u.x.y = 1 }(undefined)`,
	`throw (-0.0)`,
	`throw ""`,
}

// constExpr draws the source of one constant expression; kind labels the class.
func constExpr(rt *rapid.T) (src, kind string) {
	switch rapid.SampledFrom([]string{"int", "uint", "float", "float", "char", "string", "string", "bytes", "fn", "bool"}).Draw(rt, "ckind") {
	case "int":
		if rapid.IntRange(0, 3).Draw(rt, "extint") == 0 {
			return intSrc(rapid.SampledFrom([]int64{math.MinInt64, math.MaxInt64, 0, -1, 63, 64, -64, -65}).Draw(rt, "cie")), "int"
		}
		return intSrc(vals.Int().Draw(rt, "ci")), "int"
	case "uint":
		if rapid.IntRange(0, 3).Draw(rt, "extuint") == 0 {
			return strconv.FormatUint(rapid.SampledFrom([]uint64{math.MaxUint64, 0, 1 << 63, 127, 128}).Draw(rt, "cue"), 10) + "u", "uint"
		}
		return strconv.FormatUint(vals.Uint().Draw(rt, "cu"), 10) + "u", "uint"
	case "float":
		if rapid.IntRange(0, 2).Draw(rt, "extfloat") == 0 {
			return floatSrc(rapid.SampledFrom([]float64{math.NaN(), math.Inf(1), math.Inf(-1), negZero(), 0, 5e-324, math.MaxFloat64, -math.MaxFloat64}).Draw(rt, "cfe")), "float"
		}
		return floatSrc(vals.Float().Draw(rt, "cf")), "float"
	case "char":
		return charSrc(vals.Char().Draw(rt, "cc")), "char"
	case "string":
		if rapid.IntRange(0, 39).Draw(rt, "hugestr") == 0 {
			// pushes the source positions of everything behind it beyond 2^15 / 2^16
			n := rapid.SampledFrom([]int{33000, 66000}).Draw(rt, "hugelen")
			return "len(" + strSrc(strings.Repeat("h", n)) + ")", "string"
		}
		if rapid.IntRange(0, 5).Draw(rt, "longstr") == 0 {
			n := rapid.SampledFrom(longLens).Draw(rt, "strlen")
			return strSrc(strings.Repeat("s", n)), "string"
		}
		return strSrc(vals.Str().Draw(rt, "cs")), "string"
	case "bytes":
		return rapid.SampledFrom([]string{`bytes(1, 2)`, `bytes()`, `bytes("\xff\x00")`, `bytes("")`, `bytes(0)`}).Draw(rt, "cb"), "bytes"
	case "bool":
		return rapid.SampledFrom([]string{`true`, `false`, `undefined`}).Draw(rt, "cbool"), "bool"
	}
	if rapid.IntRange(0, 24).Draw(rt, "bigfn") == 0 {
		// a function whose instructions / source map need multi-byte size prefixes
		n := rapid.SampledFrom([]int{22, 300, 3000}).Draw(rt, "bigfnlen")
		return "len(func() { return " + bigArray(n) + " }())", "fn"
	}
	return rapid.SampledFrom(fnPool).Draw(rt, "cfn"), "fn"
}

func bigArray(n int) string {
	var sb strings.Builder
	sb.WriteByte('[')
	for i := 0; i < n; i++ {
		if i > 0 {
			sb.WriteString(", ")
		}
		sb.WriteString(strconv.Itoa(i % 7))
	}
	sb.WriteByte(']')
	return sb.String()
}

// constStmts draws a few statements logging constant expressions.
func constStmts(rt *rapid.T, maxN int) []string {
	n := rapid.IntRange(1, maxN).Draw(rt, "nconst")
	var out []string
	for i := 0; i < n; i++ {
		e, _ := constExpr(rt)
		switch rapid.IntRange(0, 5).Draw(rt, "cform") {
		case 0:
			e2, _ := constExpr(rt)
			out = append(out, "L(["+e+", "+e2+"])")
		case 1:
			out = append(out, "L({k: "+e+"})")
		case 2:
			out = append(out, "L(string("+e+"))")
		case 3:
			out = append(out, fmt.Sprintf("zc%d := %s; L(zc%d)", i, e, i))
		default:
			out = append(out, "L("+e+")")
		}
	}
	return out
}

// insertStmts places raw statements at the head (after leading param/global
// declarations) or at the tail (before a final return) of a statement list.
func insertStmts(body []gen.Stmt, raw []string, head bool) []gen.Stmt {
	if len(raw) == 0 {
		return body
	}
	var rs []gen.Stmt
	for _, r := range raw {
		rs = append(rs, &gen.Raw{Text: r})
	}
	pos := len(body)
	if head {
		pos = 0
		for pos < len(body) {
			switch body[pos].(type) {
			case *gen.ParamDecl, *gen.GlobalDecl:
				pos++
				continue
			}
			break
		}
	} else if len(body) > 0 {
		if _, ok := body[len(body)-1].(*gen.Return); ok {
			pos = len(body) - 1
		}
	}
	out := make([]gen.Stmt, 0, len(body)+len(rs))
	out = append(out, body[:pos]...)
	out = append(out, rs...)
	out = append(out, body[pos:]...)
	return out
}
