package c04

import (
	"fmt"
	"strings"
	"testing"

	"github.com/ozanh/ugo"

	"verif/internal/ev"
	"verif/internal/prog"
	"verif/internal/run"
)

// boundary programs: sizes at the limits of the operand widths of the instruction set and of the
// counters the encoding stores (locals / params are one byte wide in instructions: 256 of them is
// the largest valid function; constants and jump targets are two bytes wide). Whatever the compiler
// accepts must survive the round trip; what it refuses is counted, not judged.
type boundary struct {
	shape string
	n     int
	src   string
	mods  map[string]string
}

func seqLines(n int, f func(i int) string) string {
	var sb strings.Builder
	for i := 0; i < n; i++ {
		sb.WriteString(f(i))
		sb.WriteByte('\n')
	}
	return sb.String()
}

func joinN(n int, sep string, f func(i int) string) string {
	parts := make([]string, n)
	for i := range parts {
		parts[i] = f(i)
	}
	return strings.Join(parts, sep)
}

func boundaryPrograms() []boundary {
	var out []boundary
	add := func(shape string, n int, src string) { out = append(out, boundary{shape: shape, n: n, src: src}) }
	v := func(i int) string { return fmt.Sprintf("v%d", i) }
	decl := func(i int) string { return fmt.Sprintf("v%d := %d", i, i*3) }
	for _, n := range []int{1, 127, 128, 255, 256, 257} {
		add("main-locals", n, seqLines(n, decl)+fmt.Sprintf("return [v0, v%d]", n-1))
		add("fn-locals", n, "f := func() {\n"+seqLines(n, decl)+fmt.Sprintf("return [v0, v%d]\n}\nreturn f()", n-1))
		// one parameter + n-1 locals, the last local captured by a closure
		if n > 1 {
			add("fn-param+locals+closure", n, "f := func(p) {\n"+seqLines(n-1, decl)+fmt.Sprintf("return func() { return [p, v%d] }\n}\nreturn f(9)()", n-2))
		}
		add("fn-params-spread-call", n, "f := func("+joinN(n, ", ", v)+fmt.Sprintf(") { return [v0, v%d] }\n", n-1)+
			fmt.Sprintf("a := []\nfor i := 0; i < %d; i++ { a = append(a, i) }\nreturn f(...a)", n))
		add("fn-params-variadic", n, "f := func("+joinN(n, ", ", func(i int) string {
			if i == n-1 {
				return "...rest"
			}
			return v(i)
		})+") { return [rest] }\n"+fmt.Sprintf("a := []\nfor i := 0; i < %d; i++ { a = append(a, i) }\nreturn f(...a)", n+3))
		if n <= 255 {
			add("call-args", n, "f := func(...a) { return [len(a), a[0], a[len(a)-1]] }\nreturn f("+joinN(n, ", ", func(i int) string { return fmt.Sprint(i) })+")")
		}
		// closure capturing n variables of the enclosing function
		add("free-variables", n, "f := func() {\n"+seqLines(n, decl)+"return func() { return "+joinN(n, " + ", v)+" }\n}\nreturn f()()")
		add("array-literal", n, "return ["+joinN(n, ", ", func(i int) string { return fmt.Sprint(i % 7) })+"]")
		add("map-literal", n, "return {"+joinN(n, ", ", func(i int) string { return fmt.Sprintf("k%d: %d", i, i) })+"}")
	}
	for _, n := range []int{255, 256, 257, 65534, 65535, 65536, 65537} {
		// n distinct integer constants
		add("constants", n, "x := 0\n"+seqLines(n, func(i int) string { return fmt.Sprintf("x = %d", 1000000+i) })+"return x")
	}
	for _, n := range []int{65535, 65536} {
		add("array-literal", n, "return len(["+joinN(n, ",", func(i int) string { return "1" })+"])")
	}
	for _, n := range []int{8000, 16500, 33000} {
		// a jump over more than 2^15 / 2^16 bytes of instructions
		body := seqLines(n, func(i int) string { return "x = x + 1" })
		add("long-jump-if", n, "x := 0\nif x == 0 {\n"+body+"} else {\nx = -1\n}\nreturn x")
		add("long-jump-fn-try", n, "f := func(x) {\ntry {\n"+body+"throw x\n} catch e {\nreturn string(e)\n} finally {\nx = 0\n}\n}\nreturn f(0)")
	}
	// an uncaught error raised by the very first byte of a file (position == the file's base in the file
	// set): in the main script, in the only module, in the last and in the first of two modules
	out = append(out,
		boundary{shape: "error-at-first-byte", n: 0, src: `throw "boom"`},
		boundary{shape: "error-at-first-byte", n: 1, src: "nope := 1\nreturn import(\"m\")", mods: map[string]string{"m": `throw error("in module")`}},
		boundary{shape: "error-at-first-byte", n: 2, src: "a := import(\"ma\")\nreturn import(\"mb\")", mods: map[string]string{"ma": "return 1", "mb": `[1][5]`}},
		boundary{shape: "error-at-first-byte", n: 3, src: "a := import(\"ma\")\nreturn a", mods: map[string]string{"ma": `throw "first"`, "mb": "return 2"}},
		boundary{shape: "error-at-first-byte", n: 4, src: "f := func() { throw \"x\" }\nf()"},
		boundary{shape: "error-at-first-byte", n: 5, src: `import("m")()`, mods: map[string]string{"m": "return func() {\n  return 1 / 0\n}"}},
	)
	for _, n := range []int{255, 256, 65535, 65536, 1 << 20} {
		add("string-constant", n, `s := "`+strings.Repeat("a", n)+`"`+"\nreturn len(s)")
	}
	return out
}

func boundaryCheck(t *testing.T, rec *ev.Rec) {
	for _, b := range boundaryPrograms() {
		name := fmt.Sprintf("%s/%d", b.shape, b.n)
		in := input{c: prog.Case{Src: b.src, Modules: b.mods, Note: "boundary " + name}}
		for _, noopt := range []bool{true, false} {
			if !noopt && len(b.src) > 200000 {
				continue // the optimizer is slow on huge scripts and adds nothing to the encoding question
			}
			bc, cerr, pan := run.Compile(b.src, ugo.CompilerOptions{NoOptimize: noopt, ModuleMap: moduleMap(b.mods)})
			if pan != "" || cerr != nil || bc == nil {
				rec.Class("boundary-refused-by-compiler:" + b.shape)
				rec.Exclude("boundary-refused-by-compiler")
				continue
			}
			rec.Case()
			v := judge(in, noopt)
			switch {
			case v.harness != "":
				t.Errorf("HARNESS: boundary %s: %s", name, firstWords(v.harness, 30))
			case v.excl != "":
				rec.Exclude(v.excl)
			case v.inconcl != "":
				rec.Inconcl(v.inconcl)
			case v.sig != "":
				v.c.Expected, v.c.Got = run.Outcome{}, run.Outcome{}
				what := fmt.Sprintf("boundary program %s (NoOptimize=%v): %s", name, noopt, firstWords(v.what, 60))
				if !rec.Violation(v.sig+":boundary:"+b.shape, what, v.c) {
					t.Errorf("%s", what)
				}
			default:
				rec.Class("boundary:" + b.shape)
				rec.Class(fmt.Sprintf("boundary:%s", name))
				if v.out.IsErr || v.out.Panic != "" {
					rec.Class("boundary-runs-to-error:" + b.shape)
				} else {
					rec.NonTriv("boundary " + name + fmt.Sprint(noopt))
				}
			}
		}
	}
}
