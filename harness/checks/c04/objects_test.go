package c04

// Object-level round trip: MarshalBinary of the encoder's object types and
// encoder.DecodeObject.

import (
	"bytes"
	"encoding"
	"encoding/json"
	"fmt"
	"math"
	"runtime/debug"
	"strings"
	"testing"

	"github.com/ozanh/ugo"
	"github.com/ozanh/ugo/encoder"
	"pgregory.net/rapid"

	"verif/internal/canon"
	"verif/internal/ev"
	"verif/internal/run"
	"verif/internal/vals"
)

// topMarshaler returns the encoder's marshaler of a value that has a type of
// its own in the encoder package (nil: only encodable inside a container).
func topMarshaler(o ugo.Object) encoding.BinaryMarshaler {
	switch v := o.(type) {
	case ugo.Bool:
		return encoder.Bool(v)
	case ugo.Int:
		return encoder.Int(v)
	case ugo.Uint:
		return encoder.Uint(v)
	case ugo.Char:
		return encoder.Char(v)
	case ugo.Float:
		return encoder.Float(v)
	case ugo.String:
		return encoder.String(v)
	case ugo.Bytes:
		return encoder.Bytes(v)
	case ugo.Array:
		return encoder.Array(v)
	case ugo.Map:
		return encoder.Map(v)
	case *ugo.SyncMap:
		return (*encoder.SyncMap)(v)
	case *ugo.CompiledFunction:
		return (*encoder.CompiledFunction)(v)
	case *ugo.Function:
		return (*encoder.Function)(v)
	case *ugo.BuiltinFunction:
		return (*encoder.BuiltinFunction)(v)
	case *ugo.UndefinedType:
		return (*encoder.UndefinedType)(v)
	}
	return nil
}

// objDump is canon.Value with compiled functions dumped structurally.
func objDump(o ugo.Object) string {
	switch v := o.(type) {
	case *ugo.CompiledFunction:
		return "fn{" + fnDump(v) + "}"
	case *ugo.BuiltinFunction:
		if v == nil {
			return "<nil builtin>"
		}
		return fmt.Sprintf("<builtin %s live=%v>", v.Name, v.Value != nil || v.ValueEx != nil)
	case ugo.Array:
		parts := make([]string, len(v))
		for i, e := range v {
			parts[i] = objDump(e)
		}
		return "[" + strings.Join(parts, ",") + "]"
	case ugo.Map:
		c := make(ugo.Map, len(v))
		var fns []string
		for k, e := range v {
			switch e.(type) {
			case *ugo.CompiledFunction, *ugo.BuiltinFunction, ugo.Array, ugo.Map:
				fns = append(fns, fmt.Sprintf("%q:%s", k, objDump(e)))
			default:
				c[k] = e
			}
		}
		sortStrings(fns)
		return canon.Value(c) + "+{" + strings.Join(fns, ",") + "}"
	}
	return canon.Value(o)
}

func sortStrings(s []string) {
	for i := 1; i < len(s); i++ {
		for j := i; j > 0 && s[j] < s[j-1]; j-- {
			s[j], s[j-1] = s[j-1], s[j]
		}
	}
}

func leafClass(o ugo.Object) string {
	switch v := o.(type) {
	case ugo.Float:
		f := float64(v)
		switch {
		case f == 0 && math.Signbit(f):
			return "float-negzero"
		case math.IsNaN(f):
			return "float-nan"
		case math.IsInf(f, 0):
			return "float-inf"
		}
		return "float"
	case *ugo.Error:
		return "error"
	case *ugo.SyncMap:
		return "syncMap"
	case *ugo.Function:
		return "function"
	case *ugo.BuiltinFunction:
		return "builtin-function"
	case *ugo.CompiledFunction:
		return "compiled-function"
	}
	return constKind(o)
}

// findCulprit names the class of the first leaf (depth first, sorted keys) that
// does not survive on its own; "" if every leaf does.
func findCulprit(o ugo.Object) string {
	switch v := o.(type) {
	case ugo.Array:
		for _, e := range v {
			if c := findCulprit(e); c != "" {
				return c
			}
		}
		if len(v) > 0 {
			return ""
		}
	case ugo.Map:
		for _, e := range v {
			if c := findCulprit(e); c != "" {
				return c
			}
		}
		if len(v) > 0 {
			return ""
		}
	}
	if _, _, bad := roundTrip(ugo.Array{o, ugo.Int(42)}); bad != "" {
		return leafClass(o)
	}
	return ""
}

type objCase struct {
	Dump    string `json:"value"` // canonical dump of the value
	Mode    string `json:"mode"`  // top / in-array / in-map
	Decoded string `json:"decoded"`
	Err     string `json:"err,omitempty"`
	Hex     string `json:"encoded_hex,omitempty"`
}

// roundTrip encodes o with its own marshaler and decodes it again.
// bad: "" ok, else "encode-error:..", "decode-error:..", "decode-panic:..", "value".
func roundTrip(o ugo.Object) (back ugo.Object, data []byte, bad string) {
	m := topMarshaler(o)
	if m == nil {
		return nil, nil, "no-marshaler"
	}
	var err error
	func() {
		defer func() {
			if p := recover(); p != nil {
				bad = "encode-panic:" + panicSite(string(debug.Stack()))
			}
		}()
		data, err = m.MarshalBinary()
	}()
	if bad != "" {
		return
	}
	if err != nil {
		return nil, nil, "encode-error:" + firstWords(err.Error(), 5)
	}
	rd := bytes.NewReader(data)
	func() {
		defer func() {
			if p := recover(); p != nil {
				bad = "decode-panic:" + panicSite(string(debug.Stack()))
			}
		}()
		back, err = encoder.DecodeObject(rd)
	}()
	if bad != "" {
		return
	}
	if err != nil {
		return nil, data, "decode-error:" + firstWords(err.Error(), 5)
	}
	if objDump(back) != objDump(o) {
		return back, data, "value"
	}
	return back, data, ""
}

// checkObject judges one value in the three positions; returns sig/what.
func checkObject(o ugo.Object) (sig, what string, c objCase) {
	type mode struct {
		name string
		wrap func(ugo.Object) ugo.Object
	}
	modes := []mode{
		{"top", func(o ugo.Object) ugo.Object { return o }},
		// a sentinel follows the value so that a wrong length prefix is noticed
		{"in-array", func(o ugo.Object) ugo.Object { return ugo.Array{o, ugo.Int(42)} }},
		{"in-map", func(o ugo.Object) ugo.Object { return ugo.Map{"k": o, "z": ugo.Int(42)} }},
	}
	for _, m := range modes {
		w := m.wrap(o)
		if topMarshaler(w) == nil {
			continue // e.g. *ugo.Error has no marshaler of its own
		}
		back, data, bad := roundTrip(w)
		if bad == "" {
			continue
		}
		cls := findCulprit(o)
		if cls == "" {
			cls = "container:" + leafClass(o)
		}
		c = objCase{Dump: objDump(w), Mode: m.name, Hex: fmt.Sprintf("%x", data)}
		if len(c.Hex) > 400 {
			c.Hex = c.Hex[:400] + "..."
		}
		if back != nil {
			c.Decoded = objDump(back)
		}
		if bad == "value" {
			sig = "object:" + cls
			what = fmt.Sprintf("object round trip (%s) changes the value: %s -> %s", m.name, c.Dump, c.Decoded)
		} else {
			c.Err = bad
			sig = "object:" + cls + ":" + bad
			what = fmt.Sprintf("object round trip (%s) of %s fails: %s", m.name, c.Dump, bad)
		}
		return
	}
	return "", "", c
}

func sampleFunctions() []ugo.Object {
	cf := func(np, nl int, insts []byte, variadic bool, sm map[int]int) ugo.Object {
		return &ugo.CompiledFunction{NumParams: np, NumLocals: nl, Instructions: insts, Variadic: variadic, SourceMap: sm}
	}
	ret := []byte{byte(ugo.OpReturn), 0}
	return []ugo.Object{
		cf(0, 0, ret, false, nil),
		cf(0, 0, ret, false, map[int]int{}),
		cf(0, 0, ret, false, map[int]int{0: 0}),
		cf(1, 1, ret, true, map[int]int{0: 1, 1: 70000}),
		cf(0, 3, ret, false, map[int]int{1: 5}),
		cf(255, 255, ret, true, map[int]int{0: 64, 64: 0}),
		cf(2, 2, nil, false, nil),
		cf(0, 0, []byte{}, false, nil),
		cf(0, 0, nil, false, nil),
		cf(0, 0, nil, true, nil),
		cf(3, 4, bytes.Repeat([]byte{byte(ugo.OpNoOp)}, 8200), false, map[int]int{8199: 3}),
		&ugo.Function{Name: "f"},
		&ugo.Function{Name: ""},
		&ugo.Function{Name: strings.Repeat("n", 70)},
		ugo.BuiltinObjects[ugo.BuiltinLen],
		ugo.BuiltinObjects[ugo.BuiltinAppend],
	}
}

func specialLeaves() []ugo.Object {
	return []ugo.Object{
		&ugo.Error{Name: "E", Message: "m"},
		&ugo.Error{},
		&ugo.Error{Name: "", Message: "\xff"},
		&ugo.SyncMap{},
		&ugo.SyncMap{Value: ugo.Map{}},
		&ugo.SyncMap{Value: ugo.Map{"a": ugo.Float(1.5), "": ugo.Array{}}},
		ugo.Bytes(nil), ugo.Bytes{}, ugo.Array(nil), ugo.Array{}, ugo.Map{}, ugo.Map(nil),
		ugo.True, ugo.False, ugo.Undefined,
		ugo.String(strings.Repeat("s", 63)), ugo.String(strings.Repeat("s", 64)), ugo.String(strings.Repeat("s", 8192)),
		ugo.Bytes(bytes.Repeat([]byte{0}, 64)), ugo.Bytes(bytes.Repeat([]byte{0xff}, 8192)),
		ugo.Map{"": ugo.Undefined}, ugo.Map{strings.Repeat("k", 64): ugo.Map{"": ugo.Map{}}},
		ugo.Array{ugo.Array{ugo.Array{ugo.Array{}}}},
	}
}

// objectEnum: every boundary value of the pools, in every position.
func objectEnum(t *testing.T, rec *ev.Rec) {
	var pool []ugo.Object
	for _, i := range vals.Ints {
		pool = append(pool, ugo.Int(i))
	}
	for _, u := range vals.Uints {
		pool = append(pool, ugo.Uint(u))
	}
	for _, f := range vals.Floats {
		pool = append(pool, ugo.Float(f))
	}
	for _, c := range vals.Chars {
		pool = append(pool, ugo.Char(c))
	}
	for _, s := range vals.Strings {
		pool = append(pool, ugo.String(s), ugo.Bytes(s))
	}
	pool = append(pool, specialLeaves()...)
	pool = append(pool, sampleFunctions()...)
	reported := map[string]bool{}
	for _, o := range pool {
		rec.Case()
		rec.Class("object-enum:" + leafClass(o))
		sig, what, c := checkObject(o)
		if sig == "" {
			continue
		}
		if !rec.Violation(sig, what, c) && !reported[sig] {
			reported[sig] = true
			t.Errorf("%s", what)
		}
	}
	rec.Note("object_enum_pool", len(pool))
}

// objGen: vals.Plain values mixed with errors, sync maps and functions.
func objGen(rt *rapid.T, depth int) ugo.Object {
	k := rapid.IntRange(0, 9).Draw(rt, "okind")
	switch {
	case k <= 4 || depth >= 3:
		if k == 0 {
			sp := specialLeaves()
			return sp[rapid.IntRange(0, len(sp)-1).Draw(rt, "special")]
		}
		if k == 1 {
			fs := sampleFunctions()
			return fs[rapid.IntRange(0, len(fs)-1).Draw(rt, "fn")]
		}
		return vals.Plain(vals.Opts{MaxDepth: 4 - depth, MaxWidth: 3}).Draw(rt, "plain")
	case k <= 6:
		n := rapid.IntRange(0, 3).Draw(rt, "alen")
		a := make(ugo.Array, 0, n)
		for i := 0; i < n; i++ {
			a = append(a, objGen(rt, depth+1))
		}
		return a
	case k <= 8:
		n := rapid.IntRange(0, 3).Draw(rt, "mlen")
		m := make(ugo.Map, n)
		for i := 0; i < n; i++ {
			m[vals.Key().Draw(rt, "key")] = objGen(rt, depth+1)
		}
		return m
	}
	n := rapid.IntRange(0, 2).Draw(rt, "smlen")
	m := make(ugo.Map, n)
	for i := 0; i < n; i++ {
		m[vals.Key().Draw(rt, "key")] = objGen(rt, depth+1)
	}
	return &ugo.SyncMap{Value: m}
}

func objectProp(rt *rapid.T, rec *ev.Rec) {
	o := objGen(rt, 0)
	rec.Case()
	sig, what, c := checkObject(o)
	if sig != "" {
		if rec.Violation(sig, what, c) {
			return
		}
		rt.Logf("%s", what)
		rt.Fatalf("C04 violated: %s", sig)
	}
	d := vals.Depth(o)
	rec.Class(fmt.Sprintf("object-depth:%d", d))
	rec.Class("object:" + leafClass(o))
	if d >= 2 {
		rec.NonTriv("obj:" + objDump(o))
		rec.Class("nontrivial-object")
	}
}

// replayObject re-checks a stored object-level violation by class: the stored
// case is a dump, so the class' boundary values are enumerated again.
func replayObject(t *testing.T, rec *ev.Rec, rf ev.ReplayFile) {
	var c objCase
	_ = json.Unmarshal(rf.Case, &c)
	rec.Case()
	var pool []ugo.Object
	for _, f := range vals.Floats {
		pool = append(pool, ugo.Float(f))
	}
	pool = append(pool, specialLeaves()...)
	pool = append(pool, sampleFunctions()...)
	for _, o := range pool {
		sig, what, cc := checkObject(o)
		if sig == rf.Sig {
			if !rec.Violation(sig, fmt.Sprintf("replay %s: %s", rf.Path, what), cc) {
				t.Errorf("replay %s: %s", rf.Path, what)
			}
			return
		}
	}
	rec.Class("replay-pass")
}

var _ = run.FirstLine
