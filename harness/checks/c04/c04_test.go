// C04 - encoding bytecode and decoding it again preserves behaviour.
//
// Oracle (round trip, differential): B -> bytes -> B' (same module map) ->
// bytes' -> B”. The three programs must have equal canonical dumps (Free is
// not encoded) and must run to equal outcomes (value, L-log, globals, output,
// error name+message and stack trace positions) on equal inputs.
package c04

import (
	"bytes"
	"encoding/json"
	"flag"
	"fmt"
	"math"
	"os"
	"regexp"
	"runtime/debug"
	"sort"
	"strings"
	"testing"
	"time"
	"unicode/utf8"

	"github.com/ozanh/ugo"
	"github.com/ozanh/ugo/encoder"
	"pgregory.net/rapid"

	"verif/internal/canon"
	"verif/internal/ev"
	"verif/internal/gen"
	"verif/internal/prog"
	"verif/internal/run"
)

type replayCase struct {
	prog.Case
	NoOptimize bool        `json:"no_optimize"`
	Stage      string      `json:"stage,omitempty"`     // which decoded program differed: B' or B''
	Expected   run.Outcome `json:"expected"`            // outcome of the original bytecode
	Got        run.Outcome `json:"got"`                 // outcome of the decoded bytecode
	DumpDiff   string      `json:"dump_diff,omitempty"` // first differing dump line (original / decoded)
}

// ---------------------------------------------------------------- primitives

var digitsRe = regexp.MustCompile(`[0-9]+`)

func firstWords(s string, n int) string {
	s = run.FirstLine(s)
	// drop quoted / variable parts so that the signature names the error class
	for _, q := range []string{"'", "\""} {
		for {
			i := strings.Index(s, q)
			if i < 0 {
				break
			}
			j := strings.Index(s[i+1:], q)
			if j < 0 {
				break
			}
			s = s[:i] + "_" + s[i+1+j+1:]
		}
	}
	// numbers are case data, not part of the class
	s = digitsRe.ReplaceAllString(s, "N")
	f := strings.Fields(s)
	if len(f) > n {
		f = f[:n]
	}
	return strings.Join(f, "-")
}

// panicSite names the innermost encoder function on the panicking stack.
func panicSite(stack string) string {
	for _, ln := range strings.Split(stack, "\n") {
		ln = strings.TrimSpace(ln)
		if strings.HasPrefix(ln, "github.com/ozanh/ugo/encoder.") {
			s := strings.TrimPrefix(ln, "github.com/ozanh/ugo/encoder.")
			if i := strings.LastIndex(s, "("); i > 0 {
				s = s[:i]
			}
			return s
		}
	}
	return "unknown"
}

func encodeBC(bc *ugo.Bytecode) (data []byte, err error, pan, site string) {
	defer func() {
		if p := recover(); p != nil {
			pan = run.FirstLine(fmt.Sprint(p))
			site = panicSite(string(debug.Stack()))
		}
	}()
	var buf bytes.Buffer
	err = encoder.EncodeBytecodeTo(bc, &buf)
	return buf.Bytes(), err, "", ""
}

func decodeBC(data []byte, mm *ugo.ModuleMap) (bc *ugo.Bytecode, err error, pan, site string) {
	defer func() {
		if p := recover(); p != nil {
			pan = run.FirstLine(fmt.Sprint(p))
			site = panicSite(string(debug.Stack()))
		}
	}()
	bc, err = encoder.DecodeBytecodeFrom(bytes.NewReader(data), mm)
	return
}

// ------------------------------------------------------------ dump comparison

func constKind(o ugo.Object) string {
	switch v := o.(type) {
	case ugo.Int:
		return "int"
	case ugo.Uint:
		return "uint"
	case ugo.Float:
		return "float"
	case ugo.Char:
		return "char"
	case ugo.String:
		return "string"
	case ugo.Bytes:
		return "bytes"
	case ugo.Bool:
		return "bool"
	case *ugo.UndefinedType:
		return "undefined"
	case *ugo.CompiledFunction:
		return "fn"
	case ugo.Map:
		if _, ok := v[ugo.AttrModuleName]; ok {
			return "module"
		}
		return "map"
	case ugo.Array:
		return "array"
	case nil:
		return "nil"
	}
	return o.TypeName()
}

func fnDump(f *ugo.CompiledFunction) string {
	return canon.Bytecode(&ugo.Bytecode{Main: f})
}

func fnField(a, b *ugo.CompiledFunction) string {
	switch {
	case a == nil || b == nil:
		return "nil"
	case a.NumParams != b.NumParams:
		return "numparams"
	case a.NumLocals != b.NumLocals:
		return "numlocals"
	case a.Variadic != b.Variadic:
		return "variadic"
	case !bytes.Equal(a.Instructions, b.Instructions):
		return "instructions"
	}
	return "sourcemap"
}

// dumpClass names the first structural difference between two programs whose
// canonical dumps differ.
func dumpClass(a, b *ugo.Bytecode) string {
	if a.NumModules != b.NumModules {
		return "nummodules"
	}
	if fnDump(a.Main) != fnDump(b.Main) {
		return "main:" + fnField(a.Main, b.Main)
	}
	if len(a.Constants) != len(b.Constants) {
		return "constants:len"
	}
	for i := range a.Constants {
		ka, kb := constKind(a.Constants[i]), constKind(b.Constants[i])
		if ka != kb {
			return "constants:type:" + ka + "->" + kb
		}
		switch x := a.Constants[i].(type) {
		case *ugo.CompiledFunction:
			y := b.Constants[i].(*ugo.CompiledFunction)
			if fnDump(x) != fnDump(y) {
				return "constants:fn:" + fnField(x, y)
			}
		case ugo.Map:
			if canon.Value(x) != canon.Value(b.Constants[i]) {
				y := b.Constants[i].(ugo.Map)
				keys := make([]string, 0, len(x))
				for k := range x {
					keys = append(keys, k)
				}
				sort.Strings(keys)
				if len(x) != len(y) {
					return "constants:" + ka + ":len"
				}
				for _, k := range keys {
					if w, ok := y[k]; !ok {
						return "constants:" + ka + ":missing-attr"
					} else if canon.Value(x[k]) != canon.Value(w) {
						return "constants:" + ka + ":attr:" + constKind(x[k])
					}
				}
				return "constants:" + ka
			}
		default:
			if canon.Value(x) != canon.Value(b.Constants[i]) {
				return "constants:" + ka
			}
		}
	}
	return "fileset"
}

func firstDiffLine(a, b string) string {
	la, lb := strings.Split(a, "\n"), strings.Split(b, "\n")
	for i := 0; i < len(la) || i < len(lb); i++ {
		var x, y string
		if i < len(la) {
			x = la[i]
		}
		if i < len(lb) {
			y = lb[i]
		}
		if x != y {
			if len(x) > 300 {
				x = x[:300] + "..."
			}
			if len(y) > 300 {
				y = y[:300] + "..."
			}
			return fmt.Sprintf("line %d: %q / %q", i+1, x, y)
		}
	}
	return ""
}

// outcomeDiff compares two outcomes including message and trace; kind names
// the differing component.
func outcomeDiff(orig, dec run.Outcome) (kind, d string) {
	if d = dec.Diff(orig, true); d != "" {
		kind = "value"
		for _, k := range []string{"panic", "error", "value", "output", "globals", "log"} {
			if strings.HasPrefix(d, k) {
				kind = k
				break
			}
		}
		return kind, d
	}
	if strings.Join(orig.Trace, "|") != strings.Join(dec.Trace, "|") {
		return "trace", fmt.Sprintf("stack trace %v (decoded) vs %v (original)", dec.Trace, orig.Trace)
	}
	return "", ""
}

// -------------------------------------------------------------------- oracle

type verdict struct {
	sig, what string // violation
	excl      string // not judged (belongs to another property)
	inconcl   string
	harness   string // harness bug
	c         replayCase

	bc  *ugo.Bytecode
	out run.Outcome
	enc int
}

type input struct {
	c       prog.Case
	args    []ugo.Object
	globals ugo.Map
}

func moduleMap(mods map[string]string) *ugo.ModuleMap {
	return prog.ModuleMap(mods, builtinModules())
}

func isOptimizerErr(err error) bool {
	if _, ok := err.(*ugo.OptimizerError); ok {
		return true
	}
	return strings.Contains(fmt.Sprintf("%T", err), "multipleErr") || strings.Contains(err.Error(), "Optimizer Error")
}

func exec(bc *ugo.Bytecode, in input) run.Outcome {
	lg := &run.Logger{}
	return run.Exec(bc, run.Globals(in.globals, lg), lg, prog.CopyArgs(in.args),
		run.Opts{Recover: true, WantLoc: true, Capture: true, Timeout: 5 * time.Second})
}

func judge(in input, noopt bool) (v verdict) {
	v.c = replayCase{Case: in.c, NoOptimize: noopt}
	mm := moduleMap(in.c.Modules)
	bc, cerr, pan := run.Compile(in.c.Src, ugo.CompilerOptions{NoOptimize: noopt, ModuleMap: mm})
	if pan != "" {
		v.excl = "compile-panic(C05)"
		return
	}
	if cerr != nil {
		if isOptimizerErr(cerr) {
			v.excl = "optimizer-refused(C01)"
			return
		}
		v.harness = fmt.Sprintf("generated program does not compile (NoOptimize=%v): %v\n%s", noopt, cerr, in.c.Src)
		return
	}
	v.bc = bc
	d0 := canon.Bytecode(bc)

	stages := []string{"B'", "B''"}
	decoded := make([]*ugo.Bytecode, 0, 2)
	cur := bc
	defer func() {
		if v.sig != "" && v.c.Expected.String() == (run.Outcome{}).String() && !strings.HasPrefix(v.sig, "roundtrip:") {
			v.c.Expected = exec(bc, in) // information only: what the original does
		}
	}()
	for _, st := range stages {
		data, err, pan, site := encodeBC(cur)
		if pan != "" {
			v.sig = "encode-panic:" + site
			v.what = fmt.Sprintf("encoding %s panicked: %s", strings.TrimSuffix(st, "'"), pan)
			v.c.Stage = st
			return
		}
		if err != nil {
			v.sig = "encode-error:" + firstWords(err.Error(), 5)
			v.what = fmt.Sprintf("encoding the program that decodes to %s failed: %v", st, err)
			v.c.Stage = st
			return
		}
		if st == "B'" {
			v.enc = len(data)
		}
		next, err, pan, site := decodeBC(data, mm)
		if pan != "" {
			v.sig = "decode-panic:" + site
			v.what = fmt.Sprintf("decoding a valid encoding (%s) panicked: %s", st, pan)
			v.c.Stage = st
			return
		}
		if err != nil {
			v.sig = "decode-error:" + firstWords(err.Error(), 5)
			v.what = fmt.Sprintf("decoding a valid encoding (%s) with the module map used to compile failed: %v", st, err)
			v.c.Stage = st
			return
		}
		decoded = append(decoded, next)
		cur = next
	}

	if v.sig != "" {
		return
	}
	// run the original first, then the decoded programs (no shared state allowed)
	o0 := exec(bc, in)
	v.out = o0
	v.c.Expected = o0
	if o0.TimedOut {
		v.inconcl = "vm-watchdog"
		return
	}
	for i, st := range stages {
		di := canon.Bytecode(decoded[i])
		oi := exec(decoded[i], in)
		if oi.TimedOut {
			v.inconcl = "vm-watchdog"
			return
		}
		kind, od := outcomeDiff(o0, oi)
		if di != d0 {
			cls := dumpClass(bc, decoded[i])
			v.sig = "roundtrip:dump:" + cls
			v.c.Stage, v.c.Got = st, oi
			v.c.DumpDiff = firstDiffLine(d0, di)
			beh := "the run outcomes are equal on this input"
			if od != "" {
				beh = "behaviour differs too: " + od
			}
			v.what = fmt.Sprintf("%s (NoOptimize=%v) is structurally different from the original (%s): %s; %s", st, noopt, cls, v.c.DumpDiff, beh)
			return
		}
		if od != "" {
			v.sig = "roundtrip:outcome:" + kind
			v.c.Stage, v.c.Got = st, oi
			v.what = fmt.Sprintf("%s (NoOptimize=%v) runs differently from the original although the dumps are equal: %s", st, noopt, od)
			return
		}
	}
	// the original must be unaffected by decoding / running the decoded programs
	if o0b := exec(bc, in); !o0b.TimedOut {
		if kind, od := outcomeDiff(o0, o0b); od != "" {
			v.sig = "roundtrip:shared-state:" + kind
			v.c.Stage, v.c.Got = "B-again", o0b
			v.what = fmt.Sprintf("re-running the original (NoOptimize=%v) after the decoded programs ran gives another outcome: %s", noopt, od)
			return
		}
	}
	return
}

func describe(v verdict) string {
	var sb strings.Builder
	sb.WriteString(v.what)
	sb.WriteString("\n--- script ---\n" + v.c.Src)
	names := make([]string, 0, len(v.c.Modules))
	for n := range v.c.Modules {
		names = append(names, n)
	}
	sort.Strings(names)
	for _, n := range names {
		sb.WriteString("\n--- module " + n + " ---\n" + v.c.Modules[n])
	}
	fmt.Fprintf(&sb, "\nargs=%v globals=%v\noriginal: %s trace=%v\ndecoded : %s trace=%v", v.c.Args, v.c.Globals, v.c.Expected, v.c.Expected.Trace, v.c.Got, v.c.Got.Trace)
	return sb.String()
}

// --------------------------------------------------------------- classification

func classify(rec *ev.Rec, v verdict, noopt bool, src string, extra map[string]any) {
	bc := v.bc
	kinds := map[string]bool{}
	fns := 0
	for _, c := range bc.Constants {
		k := constKind(c)
		kinds[k] = true
		switch x := c.(type) {
		case *ugo.CompiledFunction:
			fns++
			if x.Variadic {
				rec.Class("const:fn-variadic")
			}
			if x.NumParams == 0 {
				rec.Class("const:fn-noparams")
			}
		case ugo.Float:
			f := float64(x)
			switch {
			case math.IsNaN(f):
				rec.Class("const:float-nan")
			case math.IsInf(f, 0):
				rec.Class("const:float-inf")
			case f == 0 && math.Signbit(f):
				rec.Class("const:float-negzero")
			case f == 0:
				rec.Class("const:float-zero")
			}
		case ugo.Int:
			if x == math.MinInt64 || x == math.MaxInt64 {
				rec.Class("const:int-extreme")
			} else if x == 0 {
				rec.Class("const:int-zero")
			}
		case ugo.Uint:
			if x == math.MaxUint64 {
				rec.Class("const:uint-max")
			} else if x == 0 {
				rec.Class("const:uint-zero")
			}
		case ugo.Char:
			switch {
			case x == 0:
				rec.Class("const:char-zero")
			case x < 0:
				rec.Class("const:char-negative")
			case x >= 0x10ffff:
				rec.Class("const:char-max+")
			}
		case ugo.String:
			switch {
			case x == "":
				rec.Class("const:string-empty")
			case !validUTF8(string(x)):
				rec.Class("const:string-nonutf8")
			case len(x) >= 64:
				rec.Class("const:string-long")
			}
		case ugo.Map:
			if n, ok := x[ugo.AttrModuleName].(ugo.String); ok {
				rec.Class("const:builtin-module:" + string(n))
			}
		}
	}
	for k := range kinds {
		rec.Class("kind:" + k)
	}
	if bc.NumModules > 0 {
		rec.Class("modules>0")
	}
	if bc.FileSet != nil && len(bc.FileSet.Files) > 1 {
		rec.Class("fileset-multi-file")
	}
	if noopt {
		rec.Class("optimizer-off")
	} else {
		rec.Class("optimizer-on")
	}
	o := v.out
	executed := false
	switch {
	case o.Panic != "":
		rec.Class("outcome-go-panic")
	case o.IsErr:
		executed = true
		rec.Class("outcome-error:" + o.ErrName)
		switch {
		case len(o.Trace) > 1:
			rec.Class("trace-depth>1")
		case len(o.Trace) == 1:
			rec.Class("trace-depth=1")
		}
		files := map[string]bool{}
		for _, t := range o.Trace {
			files[strings.SplitN(t, ":", 2)[0]] = true
		}
		if len(files) > 1 {
			rec.Class("trace-multi-file")
		}
	default:
		executed = true
		rec.Class("outcome-value")
	}
	if (fns > 0 || bc.NumModules > 0) && len(kinds) >= 3 && executed {
		rec.NonTriv(src)
		rec.Class("nontrivial")
	}
	s := map[string]any{"src": src, "no_optimize": noopt, "outcome": o.String(), "encoded_bytes": v.enc, "constants": len(bc.Constants)}
	for k, x := range extra {
		s[k] = x
	}
	rec.Sample(s)
}

func validUTF8(s string) bool { return utf8.ValidString(s) }

// ------------------------------------------------------------------ programs

func profiles() []gen.Config {
	base := gen.Config{MaxStmts: 22, MaxDepth: 3, MaxFnDepth: 3, MaxBlock: 4,
		Closures: true, Calls: true, Log: true, Params: true, Globals: true, Destruct: true, Consts: true, Floats: true}
	failing := base
	failing.Failing, failing.Try = true, true
	heavy := base
	heavy.ConstHeavy, heavy.Print, heavy.Try = true, true, true
	mods1 := failing
	mods1.Modules = 1
	mods2 := heavy
	mods2.Modules = 2
	mods2.Failing = true
	small := gen.Config{MaxStmts: 6, MaxDepth: 2, MaxFnDepth: 2, MaxBlock: 3, Closures: true, Calls: true, Log: true, Floats: true, Failing: true, Try: true, Modules: 1}
	return []gen.Config{base, failing, heavy, mods1, mods2, small}
}

var mainImportable = []string{"strings", "json", "fmt", "time", "vals"}

// decorate adds the constant-kind statements and builtin-module import stanzas
// to a generated program (main script and source modules).
func decorate(rt *rapid.T, gp *gen.GenProgram, cfg gen.Config) (imports []string) {
	var head, tail []string
	add := func(s []string) {
		if rapid.Bool().Draw(rt, "athead") {
			head = append(head, s...)
		} else {
			tail = append(tail, s...)
		}
	}
	if rapid.IntRange(0, 9).Draw(rt, "withconsts") < 8 {
		add(constStmts(rt, 5))
	}
	pool := mainImportable
	nimp := rapid.SampledFrom([]int{0, 0, 1, 1, 1, 2, 3}).Draw(rt, "nimports")
	seen := map[string]bool{}
	var failCands []string
	for i := 0; i < nimp; i++ {
		m := rapid.SampledFrom(pool).Draw(rt, "import")
		if seen[m] {
			continue
		}
		seen[m] = true
		imports = append(imports, m)
		st := stanzaOf(m)
		stmts, v := importStmts(rt, st, "z", 4)
		// the import itself always at the position of its uses
		add(stmts)
		for _, f := range st.fails {
			failCands = append(failCands, fmt.Sprintf(f, v))
		}
	}
	if cfg.Failing && rapid.IntRange(0, 3).Draw(rt, "failtail") == 0 {
		// an uncaught error with a deep / cross-module stack, placed last
		cands := append(append([]string{}, failPool...), failCands...)
		f := rapid.SampledFrom(cands).Draw(rt, "fail")
		// imports used by f must be in scope: force all stanzas to the head
		head = append(head, tail...)
		tail = []string{f}
	}
	gp.Body = insertStmts(gp.Body, head, true)
	gp.Body = insertStmts(gp.Body, tail, false)

	// source modules may import builtin modules and hold constants as well
	names := make([]string, 0, len(gp.Modules))
	for n := range gp.Modules {
		names = append(names, n)
	}
	sort.Strings(names)
	for _, n := range names {
		if rapid.IntRange(0, 2).Draw(rt, "moddecor") != 0 {
			continue
		}
		var ms []string
		if rapid.Bool().Draw(rt, "modconsts") {
			ms = append(ms, constStmts(rt, 2)...)
		}
		if rapid.Bool().Draw(rt, "modimport") {
			m := rapid.SampledFrom(mainImportable).Draw(rt, "modimp")
			stmts, _ := importStmts(rt, stanzaOf(m), "zm", 2)
			ms = append(ms, stmts...)
			imports = append(imports, n+":"+m)
		}
		gp.Modules[n] = insertStmts(gp.Modules[n], ms, true)
	}
	return imports
}

func TestCheck(t *testing.T) {
	rec := ev.New("C04")
	rec.Rule = "programs from the scope-aware generator (closures, calls, try, failing operations, floats, const groups, destructuring, print, params, globals, 0..2 source modules) decorated with (a) statements logging constant expressions of every kind (extreme ints/uints, -0.0/NaN/Inf/denormal floats via folding, chars 0/max/negative, empty/long/non-UTF-8 strings, bytes, nested/variadic function literals) and (b) import stanzas of builtin modules (real strings/json/fmt/time and a synthetic `vals` module holding every value type, Go functions and VM callbacks) in the main script and in source modules; x optimizer on/off. Compile -> encode -> decode (same module map) -> encode -> decode; the three programs are run in that order on fresh VMs with equal inputs. Non-trivial = the bytecode has >= 1 compiled-function constant or module, >= 3 constant kinds, and ran to a value or a runtime error; distinct by source text. Plus an object-level round trip (MarshalBinary / DecodeObject) over boundary pools and random nested values."
	rec.Assumptions = []string{
		"outcome = returned value, L-log, globals, printed output, error name+message, stack trace (file:line:col) of uncaught errors",
		"canonical dumps ignore Free (not encoded by design) and print Go functions opaquely by name; their liveness is decided by running them",
		"the module map given to DecodeBytecodeFrom is the one used by Compile",
		"compile panics (C05) and optimizer refusals (C01) are not judged here",
	}
	defer func() { rec.Flush(!t.Failed() || rec.HasUnknown()) }()

	selfTest(t)
	if t.Failed() {
		return
	}
	runReplays(t, rec)
	if ev.ReplayOnly() {
		return
	}

	objectEnum(t, rec)
	rec.Unfreeze()
	boundaryCheck(t, rec)
	rec.Unfreeze()
	ev.RapidCheck(t, "objects", ev.N(3000, 40000), 3, func(rt *rapid.T) { objectProp(rt, rec) })
	rec.Unfreeze()

	if os.Getenv("VERIF_SHRINKTIME") == "" {
		// shrinking generated programs is slow; keep a falsified quick run inside its budget
		st := "6s"
		if ev.Tier() == "thorough" {
			st = "25s"
		}
		_ = flag.Set("rapid.shrinktime", st)
	}
	profs := profiles()
	check := func(rt *rapid.T, gp *gen.GenProgram, extra map[string]any) {
		p := prog.Prepare(gp)
		rec.Case()
		in := input{c: p.Case(), args: p.Args, globals: p.Globals}
		for _, noopt := range []bool{false, true} {
			v := judge(in, noopt)
			switch {
			case v.harness != "":
				rt.Fatalf("HARNESS: %s", v.harness)
			case v.excl != "":
				rec.Exclude(v.excl)
				continue
			case v.inconcl != "":
				rec.Inconcl(v.inconcl)
				return
			case v.sig != "":
				what := describe(v)
				if rec.Violation(v.sig, what, v.c) {
					continue
				}
				// the fatal message must be identical on re-execution or rapid stops shrinking
				// (encoder output and thus error texts depend on map iteration order)
				rt.Logf("%s", what)
				rt.Fatalf("C04 violated: %s", v.sig)
			}
			extra["modules"] = len(p.ModSrc)
			classify(rec, v, noopt, p.Src, extra)
		}
	}
	// the main search
	ev.RapidCheck(t, "programs", ev.N(3000, 40000), 1, func(rt *rapid.T) {
		cfg := profs[rapid.IntRange(0, len(profs)-1).Draw(rt, "profile")]
		gp := gen.Generate(rt, cfg)
		imports := decorate(rt, gp, cfg)
		check(rt, gp, map[string]any{"imports": imports})
	})
	rec.Unfreeze()
	// small hand-shaped programs centred on builtin modules (incl. re-exported builtin functions)
	ev.RapidCheck(t, "builtin-modules", ev.N(1000, 12000), 2, func(rt *rapid.T) {
		gp, imports := modProgram(rt)
		check(rt, gp, map[string]any{"imports": imports, "shape": "builtin-modules"})
	})
}

// modProgram builds a small program around builtin modules: imports in the
// main script, inside function literals and inside a source module that
// re-exports module functions; optionally ending in an uncaught error.
func modProgram(rt *rapid.T) (*gen.GenProgram, []string) {
	gp := &gen.GenProgram{Features: gen.Features{}, Globals: map[string]gen.Expr{}}
	gp.Modules = map[string][]gen.Stmt{}
	all := []string{"strings", "json", "fmt", "time", "vals", "bfn"}
	var imports, body, fails []string
	body = append(body, "global L")
	n := rapid.IntRange(1, 3).Draw(rt, "nimports")
	seen := map[string]bool{}
	for i := 0; i < n; i++ {
		m := rapid.SampledFrom(all).Draw(rt, "import")
		if seen[m] {
			continue
		}
		seen[m] = true
		imports = append(imports, m)
		st := stanzaOf(m)
		stmts, v := importStmts(rt, st, "z", 4)
		if rapid.IntRange(0, 3).Draw(rt, "infn") == 0 {
			// import and uses inside a (variadic) closure
			body = append(body, "func(...zargs) {\n  "+strings.Join(stmts, "\n  ")+"\n}(1, 2)")
		} else {
			body = append(body, stmts...)
			for _, f := range st.fails {
				fails = append(fails, fmt.Sprintf(f, v))
			}
		}
	}
	switch rapid.IntRange(0, 11).Draw(rt, "emptymod") {
	case 0:
		// a source module with empty source (file of size 0 in the file set)
		gp.Modules["e0"] = nil
		body = append(body, `L(import("e0"))`)
	case 1:
		gp.Modules["e1"] = insertStmts(nil, []string{"return"}, true)
		body = append(body, `L(import("e1"))`)
	}
	if rapid.IntRange(0, 2).Draw(rt, "srcmod") == 0 {
		m := rapid.SampledFrom(all[:5]).Draw(rt, "modimp")
		stmts, v := importStmts(rt, stanzaOf(m), "zm", 2)
		ms := append([]string{"global L", `L("load m0")`}, stmts...)
		ret := fmt.Sprintf("return {f: func(x) { return [x, %s] }, m: %s", v, v)
		if m == "vals" {
			ret += fmt.Sprintf(", boom: func() { return %s.fail(\"from m0\") }", v)
			fails = append(fails, "zm0.boom()")
		}
		ms = append(ms, ret+"}")
		gp.Modules["m0"] = insertStmts(nil, ms, true)
		body = append(body, `zm0 := import("m0")`, `L(zm0.f(3))`, `L(zm0.m)`)
		imports = append(imports, "m0:"+m)
	}
	if rapid.IntRange(0, 3).Draw(rt, "failtail") == 0 {
		body = append(body, rapid.SampledFrom(append(append([]string{}, failPool...), fails...)).Draw(rt, "fail"))
	}
	body = append(body, "return 1")
	gp.Body = insertStmts(nil, body, true)
	return gp, imports
}

// selfTest makes sure the harness' own additions are valid uGO: a compile or
// run failure of a stanza is a harness bug.
func selfTest(t *testing.T) {
	mm := moduleMap(nil)
	for _, st := range stanzas {
		v := "z" + st.mod
		for _, u := range st.uses {
			src := fmt.Sprintf("global L\n%s := import(%q)\n%s\n", v, st.mod, fmt.Sprintf(u, v))
			bc, err, pan := run.Compile(src, ugo.CompilerOptions{ModuleMap: mm})
			if err != nil || pan != "" {
				t.Errorf("HARNESS: stanza does not compile: %v %s\n%s", err, pan, src)
				continue
			}
			lg := &run.Logger{}
			o := run.Exec(bc, run.Globals(nil, lg), lg, nil, run.Opts{Recover: true, Capture: true})
			if o.IsErr || o.Panic != "" || o.TimedOut {
				t.Errorf("HARNESS: stanza does not run: %s\n%s", o, src)
			}
		}
		for _, u := range st.fails {
			src := fmt.Sprintf("global L\n%s := import(%q)\n%s\n", v, st.mod, fmt.Sprintf(u, v))
			bc, err, pan := run.Compile(src, ugo.CompilerOptions{ModuleMap: mm})
			if err != nil || pan != "" {
				t.Errorf("HARNESS: failing stanza does not compile: %v %s\n%s", err, pan, src)
				continue
			}
			lg := &run.Logger{}
			o := run.Exec(bc, run.Globals(nil, lg), lg, nil, run.Opts{Recover: true, Capture: true})
			if !o.IsErr {
				t.Errorf("HARNESS: failing stanza does not fail: %s\n%s", o, src)
			}
		}
	}
	for _, f := range append(append([]string{}, fnPool...), failPool...) {
		for _, noopt := range []bool{false, true} {
			src := "global L\nL(1)\n" + f + "\n"
			if _, err, pan := run.Compile(src, ugo.CompilerOptions{NoOptimize: noopt}); err != nil || pan != "" {
				t.Errorf("HARNESS: pool statement does not compile: %v %s\n%s", err, pan, src)
			}
		}
	}
}

func runReplays(t *testing.T, rec *ev.Rec) {
	for _, rf := range rec.Replays() {
		if strings.HasPrefix(rf.Sig, "object:") {
			replayObject(t, rec, rf)
			continue
		}
		var c replayCase
		if err := json.Unmarshal(rf.Case, &c); err != nil {
			fmt.Fprintln(os.Stderr, "bad replay", rf.Path, err)
			continue
		}
		rec.Case()
		args, globals, err := prog.CaseInputs(c.Case)
		if err != nil {
			t.Errorf("replay %s: %v", rf.Path, err)
			continue
		}
		v := judge(input{c: c.Case, args: args, globals: globals}, c.NoOptimize)
		switch {
		case v.harness != "":
			t.Errorf("replay %s: %s", rf.Path, v.harness)
		case v.excl != "" || v.inconcl != "":
			rec.Class("replay-not-judged:" + v.excl + v.inconcl)
		case v.sig != "":
			what := fmt.Sprintf("replay %s: %s", rf.Path, describe(v))
			if !rec.Violation(v.sig, what, v.c) {
				t.Errorf("%s", what)
			}
		default:
			if d := v.out.Diff(c.Expected, true); d != "" && c.Expected.String() != (run.Outcome{}).String() {
				// informational: the original program itself behaves differently now (another property's business)
				rec.Class("replay-pass-original-changed")
			}
			rec.Class("replay-pass")
		}
	}
}
