// fuzz_test.go: native coverage-guided fuzz targets (thorough tier). Run as
// plain tests they execute the seed corpus only.
package c17

import (
	"sync"
	"testing"

	"verif/internal/ev"
)

var (
	fuzzRecOnce sync.Once
	fuzzRec     *ev.Rec
)

// fuzzFail fails the fuzz iteration on the first finding that is not a listed
// known finding.
func fuzzFail(t *testing.T, fs []finding, c any) {
	fuzzRecOnce.Do(func() { fuzzRec = ev.New("C17") })
	for _, f := range fs {
		if fuzzRec.Violation(f.Sig, f.What, c) {
			continue
		}
		t.Fatalf("%s: %s", f.Sig, f.What)
	}
}

const maxFuzzDoc = 1 << 16

// FuzzUnmarshal applies the Unmarshal / Valid / Compact / Indent differentials
// (oracles B and D) to arbitrary bytes.
func FuzzUnmarshal(f *testing.F) {
	for _, s := range smallDocs {
		f.Add([]byte(s))
	}
	f.Add(nestDoc("[", "]", "1", 40))
	f.Add(nestDoc(`{"a":`, "}", `"😀"`, 20))
	f.Fuzz(func(t *testing.T, data []byte) {
		if len(data) > maxFuzzDoc {
			return
		}
		fs, _ := checkDoc(data, "", "\t")
		fuzzFail(t, fs, mkDocCase(data, "", "\t"))
	})
}

// FuzzIndentCompact applies the Valid / Compact / Indent differentials (D)
// with fuzzed prefix and indent.
func FuzzIndentCompact(f *testing.F) {
	for i, s := range smallDocs {
		f.Add([]byte(s), indentPool[i%len(indentPool)], indentPool[(i/3)%len(indentPool)])
	}
	f.Add([]byte(`{"a":[1,{"b":[]},"< >"],"c":{}}`), "> ", "\t")
	f.Fuzz(func(t *testing.T, data []byte, prefix, indent string) {
		if len(data) > maxFuzzDoc || len(prefix) > 64 || len(indent) > 64 {
			return
		}
		fuzzFail(t, checkIndentCompact(data, prefix, indent, nil), mkDocCase(data, prefix, indent))
	})
}
